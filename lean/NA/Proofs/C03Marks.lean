import NA.Proofs.C03Plan
/-
C03 / C07 / C08: what `removeUnneededObjects` spares.  `markObjects` marks every device address
that a rule of the target names (directly) as `needed`; nothing later in `diffConfig` touches
the address flags; hence no address that the target's rules still name is ever removed.
Core Lean only.
-/
namespace NA.PanOs

/-! ### The object flags are untouched by `diffRules` -/

/-- The flags and definitions of addresses, services and service-groups of both sides. -/
def St.objs (st : St) := (st.aAddr, st.bAddr, st.aSvc, st.bSvc, st.aSG, st.bSG)

theorem findGroupOnDevice_objs (st : St) (gbi : Nat) : (findGroupOnDevice st gbi).2.objs = st.objs := by
  unfold findGroupOnDevice
  dsimp only
  cases findGroupOnDeviceFrom ((Option.map (fun x => x.g.members) st.bGrp[gbi]?).getD []) st.aGrp 0 with
  | none => rfl
  | some p => rfl

theorem adaptStep_objs (acc : List String × St) (adr : String) : (adaptStep acc adr).2.objs = acc.2.objs := by
  obtain ⟨res, s⟩ := acc
  unfold adaptStep
  simp only
  split
  · rfl
  · split
    · rfl
    · have := findGroupOnDevice_objs s ‹Nat›
      split
      · simp_all
      · simpa [St.objs] using this

theorem adaptGroups_objs (st : St) (lb : List String) : (adaptGroups st lb).2.objs = st.objs := by
  unfold adaptGroups
  suffices h : ∀ (l : List String) (acc : List String × St), (l.foldl adaptStep acc).2.objs = acc.2.objs by
    exact h lb ([], st)
  intro l
  induction l with
  | nil => intro acc; rfl
  | cons x xs ih => intro acc; simp only [List.foldl_cons]; rw [ih, adaptStep_objs]

theorem eqGroups_objs (recur : St → List String → List String → MPath → Bool × St)
    (hrec : ∀ s la lb p, (recur s la lb p).2.objs = s.objs) (st : St) (gai gbi : Nat) :
    (eqGroups recur st gai gbi).2.objs = st.objs := by
  unfold eqGroups
  simp only
  split
  · rfl
  · split
    · rfl
    · have h := hrec st (st.aGrp[gai]?.getD default).g.members (st.bGrp[gbi]?.getD default).g.members
        (.group (st.aGrp[gai]?.getD default).g.name)
      revert h
      generalize recur st _ _ _ = res
      obtain ⟨b, s⟩ := res
      intro h
      simp only at h ⊢
      split
      · exact h
      · exact h

theorem foldl_objs {β : Type} (f : Bool × St × List String → β → Bool × St × List String)
    (hf : ∀ acc x, (f acc x).2.1.objs = acc.2.1.objs) :
    ∀ (l : List β) (acc : Bool × St × List String), (l.foldl f acc).2.1.objs = acc.2.1.objs := by
  intro l
  induction l with
  | nil => intro acc; rfl
  | cons x xs ih => intro acc; simp only [List.foldl_cons]; rw [ih, hf]

theorem pairStep_objs (recur : St → List String → List String → MPath → Bool × St)
    (hrec : ∀ s la lb p, (recur s la lb p).2.objs = s.objs) (la lb : List String) (r : Range)
    (acc : Bool × St × List String) (k : Nat) : (pairStep recur la lb r acc k).2.1.objs = acc.2.1.objs := by
  obtain ⟨ok, s, ins⟩ := acc
  unfold pairStep
  simp only
  split
  · rfl
  · split
    · rfl
    · split
      · rfl
      · exact eqGroups_objs recur hrec s _ _

theorem rangeStep_objs (recur : St → List String → List String → MPath → Bool × St)
    (hrec : ∀ s la lb p, (recur s la lb p).2.objs = s.objs) (la lb : List String) (path : MPath)
    (acc : Bool × St × List String) (r : Range) : (rangeStep recur la lb path acc r).2.1.objs = acc.2.1.objs := by
  obtain ⟨ok, s, ins⟩ := acc
  unfold rangeStep
  simp only
  split
  · rfl
  · split
    · rfl
    · exact adaptGroups_objs _ _
    · exact foldl_objs _ (fun acc k => pairStep_objs recur hrec la lb r acc k) _ _

theorem hasEqLists_objs (diff : Differ) :
    ∀ (fuel : Nat) (st : St) (la lb : List String) (path : MPath),
      (hasEqLists diff fuel st la lb path).2.objs = st.objs := by
  intro fuel
  induction fuel with
  | zero => intro st la lb path; simp only [hasEqLists]
  | succ fuel ih =>
    intro st la lb path
    rw [hasEqLists]
    split
    · rfl
    · have key := foldl_objs _ (fun acc r => rangeStep_objs (hasEqLists diff fuel) ih la lb path acc r)
        (diff la.length lb.length (fun i j => memberEq st (la.getD i "") (lb.getD j ""))) (true, st, [])
      revert key
      generalize (List.foldl _ (true, st, []) _) = res
      intro key
      obtain ⟨ok, s, ins⟩ := res
      simp only at key ⊢
      split
      · exact key
      · split
        · exact key
        · exact key

theorem equalizeList_objs (diff : Differ) (fuel : Nat) (st : St) (la lb : List String) (n : String) (f : Fld) :
    (equalizeList diff fuel st la lb n f).objs = st.objs := by
  unfold equalizeList
  have h := hasEqLists_objs diff fuel st la lb (.rule n f)
  revert h
  generalize hasEqLists diff fuel st la lb (.rule n f) = res
  obtain ⟨ok, s⟩ := res
  intro h
  simp only at h ⊢
  split
  · exact h
  · have h2 := adaptGroups_objs s lb
    revert h2
    generalize adaptGroups s lb = res2
    obtain ⟨lb', s'⟩ := res2
    intro h2
    simp only at h2 ⊢
    exact h2.trans h

theorem equalize_objs (diff : Differ) (fuel : Nat) (st : St) (ra rb : Rule) :
    (equalize diff fuel st ra rb).objs = st.objs := by
  unfold equalize
  simp only
  split
  · exact (equalizeList_objs ..).trans (equalizeList_objs ..)
  · exact (equalizeList_objs ..).trans (equalizeList_objs ..)

theorem foldl_objs' {β : Type} (f : St → β → St) (hf : ∀ s x, (f s x).objs = s.objs) :
    ∀ (l : List β) (s : St), (l.foldl f s).objs = s.objs := by
  intro l
  induction l with
  | nil => intro s; rfl
  | cons x xs ih => intro s; simp only [List.foldl_cons]; rw [ih, hf]

theorem insertRule_objs (anchor : Option String) (s : St) (ru : Rule) :
    (insertRule anchor s ru).objs = s.objs := by
  unfold insertRule
  have h1 := adaptGroups_objs s ru.src
  revert h1
  generalize adaptGroups s ru.src = r1
  obtain ⟨src, s1⟩ := r1
  intro h1
  simp only at h1 ⊢
  have h2 := adaptGroups_objs s1 ru.dst
  revert h2
  generalize adaptGroups s1 ru.dst = r2
  obtain ⟨dst, s2⟩ := r2
  intro h2
  simp only at h2 ⊢
  cases anchor with
  | none => exact h2.trans h1
  | some d => exact h2.trans h1

theorem rulePhase2_objs (bRules : List Rule) (inserts : List InsGroup) (st : St) :
    (rulePhase2 st bRules inserts).objs = st.objs := by
  unfold rulePhase2
  apply foldl_objs'
  intro s g
  unfold insertGroup
  apply foldl_objs'
  intro s ru
  exact insertRule_objs g.anchor s ru

theorem rulePhase1_objs (diff : Differ) (fuel : Nat) (a b : Vsys) (aRules bRules : List Rule)
    (rs : List Range) (st : St) :
    (rulePhase1 diff fuel a b aRules bRules rs st).1.objs = st.objs := by
  unfold rulePhase1
  suffices h : ∀ (rs : List Range) (acc : St × Nat × List InsGroup),
      (rs.foldl (phase1Step diff fuel aRules bRules) acc).1.objs = acc.1.objs by
    exact h rs (st, 0, [])
  intro rs
  induction rs with
  | nil => intro acc; rfl
  | cons r rs ih =>
    intro acc
    obtain ⟨s, d, ins⟩ := acc
    simp only [List.foldl_cons]
    rw [ih]
    cases hk : r.kind with
    | del => rw [phase1Step_del _ _ _ _ _ _ _ _ hk]; rfl
    | ins => rw [phase1Step_ins _ _ _ _ _ _ _ _ hk]
    | eq =>
      rw [phase1Step_eq _ _ _ _ _ _ _ _ hk]
      exact foldl_objs' _ (fun s k => equalize_objs diff fuel s _ _) _ _

theorem diffRules_objs (diff : Differ) (fuel : Nat) (st : St) (a b : Vsys) (aRules bRules : List Rule) :
    (diffRules diff fuel st a b aRules bRules).objs = st.objs := by
  unfold diffRules
  simp only
  have h1 := rulePhase1_objs diff fuel a b aRules bRules
    (diff aRules.length bRules.length (fun i j => ruleEqual a b (aRules.getD i default) (bRules.getD j default))) st
  revert h1
  generalize rulePhase1 diff fuel a b aRules bRules _ st = res
  obtain ⟨s, d, ins⟩ := res
  intro h1
  simp only at h1 ⊢
  rw [rulePhase2_objs, h1]

end NA.PanOs

namespace NA.PanOs

/-! ### `modAt`, `lastIdx` -/

theorem modAt_getElem? {α : Type} (l : List α) (i : Nat) (f : α → α) (j : Nat) :
    (modAt l i f)[j]? = if j = i then l[j]?.map f else l[j]? := by
  induction l generalizing i j with
  | nil => simp [modAt]
  | cons x xs ih =>
    cases i with
    | zero =>
      cases j with
      | zero => simp [modAt]
      | succ j => simp [modAt]
    | succ i =>
      cases j with
      | zero => simp [modAt]
      | succ j => simp [modAt, ih]

theorem modAt_map {α β : Type} (l : List α) (i : Nat) (f : α → α) (g : α → β) (h : ∀ x, g (f x) = g x) :
    (modAt l i f).map g = l.map g := by
  induction l generalizing i with
  | nil => simp [modAt]
  | cons x xs ih =>
    cases i with
    | zero => simp [modAt, h]
    | succ i => simp [modAt, ih]

theorem lastIdxFrom_none (n : String) : ∀ (l : List String) (k : Nat), n ∉ l → lastIdxFrom n l k none = none := by
  intro l
  induction l with
  | nil => intro k _; rfl
  | cons x xs ih =>
    intro k h
    have hx : (x == n) = false := by
      have : x ≠ n := fun e => h (by simp [e])
      simpa using this
    simp only [lastIdxFrom, hx, Bool.false_eq_true, if_false]
    exact ih (k + 1) (fun hm => h (List.mem_cons_of_mem _ hm))

theorem lastIdx_none_of_not_mem {names : List String} {n : String} (h : n ∉ names) : lastIdx names n = none :=
  lastIdxFrom_none n names 0 h

theorem lastIdxFrom_isSome (n : String) : ∀ (l : List String) (k : Nat) (acc : Option Nat),
    (n ∈ l ∨ acc.isSome) → (lastIdxFrom n l k acc).isSome := by
  intro l
  induction l with
  | nil =>
    intro k acc h
    rcases h with h | h
    · cases h
    · simpa [lastIdxFrom] using h
  | cons x xs ih =>
    intro k acc h
    simp only [lastIdxFrom]
    apply ih
    rcases h with h | h
    · rcases List.mem_cons.mp h with rfl | h
      · right; simp
      · left; exact h
    · right; split <;> simp [h]

theorem lastIdx_isSome_of_mem {names : List String} {n : String} (h : n ∈ names) : (lastIdx names n).isSome :=
  lastIdxFrom_isSome n names 0 none (Or.inl h)

/-! ### `markObjects` marks what the target's rules name -/

/-- Definitions stay, `needed` flags of device addresses only go up. -/
def MarkInv (st st' : St) : Prop :=
  st'.aAddr.map (·.o) = st.aAddr.map (·.o) ∧ st'.bAddr.map (·.o) = st.bAddr.map (·.o) ∧
  st'.bGrp.map (·.g) = st.bGrp.map (·.g) ∧
  ∀ (i : Nat) (o : AObj), st.aAddr[i]? = some o → o.needed = true →
    ∃ o' : AObj, st'.aAddr[i]? = some o' ∧ o'.needed = true

theorem MarkInv.refl (st : St) : MarkInv st st := ⟨rfl, rfl, rfl, fun _ o h hn => ⟨o, h, hn⟩⟩

theorem MarkInv.trans {a b c : St} (h₁ : MarkInv a b) (h₂ : MarkInv b c) : MarkInv a c := by
  obtain ⟨a1, a2, a3, a4⟩ := h₁
  obtain ⟨b1, b2, b3, b4⟩ := h₂
  refine ⟨b1.trans a1, b2.trans a2, b3.trans a3, ?_⟩
  intro i o h hn
  obtain ⟨o', h', hn'⟩ := a4 i o h hn
  exact b4 i o' h' hn'

theorem MarkInv.idx {st st' : St} (h : MarkInv st st') (x : String) :
    st'.aAddrIdx x = st.aAddrIdx x ∧ st'.bAddrIdx x = st.bAddrIdx x ∧ st'.bGrpIdx x = st.bGrpIdx x := by
  obtain ⟨h1, h2, h3, _⟩ := h
  refine ⟨?_, ?_, ?_⟩
  · unfold St.aAddrIdx
    have : st'.aAddr.map (·.o.name) = st.aAddr.map (·.o.name) := by
      have := congrArg (List.map (·.name)) h1
      simpa [List.map_map, Function.comp_def] using this
    rw [this]
  · unfold St.bAddrIdx
    have : st'.bAddr.map (·.o.name) = st.bAddr.map (·.o.name) := by
      have := congrArg (List.map (·.name)) h2
      simpa [List.map_map, Function.comp_def] using this
    rw [this]
  · unfold St.bGrpIdx
    have : st'.bGrp.map (·.g.name) = st.bGrp.map (·.g.name) := by
      have := congrArg (List.map (·.name)) h3
      simpa [List.map_map, Function.comp_def] using this
    rw [this]

theorem markInv_setA (st : St) (ai : Nat) :
    MarkInv st { st with aAddr := modAt st.aAddr ai (fun o => { o with needed := true }) } := by
  refine ⟨modAt_map _ _ _ _ (fun _ => rfl), rfl, rfl, ?_⟩
  intro i o h hn
  simp only [modAt_getElem?]
  split
  · exact ⟨{ o with needed := true }, by simp [h], rfl⟩
  · exact ⟨o, h, hn⟩

theorem markInv_bAddr (st : St) (bi : Nat) (f : BObj → BObj) (hf : ∀ x, (f x).o = x.o) :
    MarkInv st { st with bAddr := modAt st.bAddr bi f } :=
  ⟨rfl, modAt_map _ _ _ _ hf, rfl, fun _ o h hn => ⟨o, h, hn⟩⟩

theorem markInv_bGrp (st : St) (gi : Nat) (f : BGrp → BGrp) (hf : ∀ x, (f x).g = x.g) :
    MarkInv st { st with bGrp := modAt st.bGrp gi f } :=
  ⟨rfl, rfl, modAt_map _ _ _ _ hf, fun _ o h hn => ⟨o, h, hn⟩⟩

theorem foldl_markInv {β : Type} (f : St → β → St) (hf : ∀ s x, MarkInv s (f s x)) :
    ∀ (l : List β) (s : St), MarkInv s (l.foldl f s) := by
  intro l
  induction l with
  | nil => intro s; exact MarkInv.refl s
  | cons x xs ih => intro s; exact (hf s x).trans (ih _)

/-- One element of the loop of `markAddresses`. -/
def markAddrStep (fuel : Nat) (st : St) (name : String) : St :=
  match st.bGrpIdx name with
  | some gi =>
    let st := { st with bGrp := modAt st.bGrp gi (fun g => { g with needed := true }) }
    markAddrs fuel st ((st.bGrp[gi]?.map (·.g.members)).getD [])
  | none =>
    match st.bAddrIdx name with
    | none => st
    | some bi =>
      match st.aAddrIdx name with
      | some ai =>
        let st := { st with aAddr := modAt st.aAddr ai (fun o => { o with needed := true }) }
        let va := (st.aAddr[ai]?.map (·.o.val)).getD ""
        let vb := (st.bAddr[bi]?.map (·.o.val)).getD ""
        if va != vb then { st with bAddr := modAt st.bAddr bi (fun o => { o with edit := true }) }
        else st
      | none => { st with bAddr := modAt st.bAddr bi (fun o => { o with needed := true }) }

theorem markAddrs_succ (fuel : Nat) (st : St) (l : List String) :
    markAddrs (fuel + 1) st l = l.foldl (markAddrStep fuel) st := by
  rw [markAddrs]; rfl

theorem markAddrs_inv : ∀ (fuel : Nat) (st : St) (l : List String), MarkInv st (markAddrs fuel st l) := by
  intro fuel
  induction fuel with
  | zero => intro st l; exact MarkInv.refl st
  | succ fuel ih =>
    intro st l
    rw [markAddrs_succ]
    apply foldl_markInv
    intro s name
    unfold markAddrStep
    split
    · rename_i gi _
      dsimp only
      exact (markInv_bGrp s gi (fun g => { g with needed := true }) (fun _ => rfl)).trans (ih _ _)
    · split
      · exact MarkInv.refl s
      · rename_i bi _
        split
        · rename_i ai _
          dsimp only
          split
          · exact (markInv_setA s ai).trans (markInv_bAddr _ bi (fun o => { o with edit := true }) (fun _ => rfl))
          · exact markInv_setA s ai
        · exact markInv_bAddr s bi (fun o => { o with needed := true }) (fun _ => rfl)

/-- The device address named `x` (if there is one) is marked `needed`. -/
def Marked (st : St) (x : String) : Prop :=
  ∀ ai, st.aAddrIdx x = some ai → ∃ o, st.aAddr[ai]? = some o ∧ o.needed = true

theorem Marked.mono {st st' : St} {x : String} (h : MarkInv st st') (hm : Marked st x) : Marked st' x := by
  intro ai hai
  rw [(h.idx x).1] at hai
  obtain ⟨o, ho, hn⟩ := hm ai hai
  exact h.2.2.2 ai o ho hn

theorem markAddrStep_marks (fuel : Nat) (s : St) (x : String)
    (hg : s.bGrpIdx x = none) (hb : (s.bAddrIdx x).isSome) : Marked (markAddrStep fuel s x) x := by
  unfold markAddrStep
  rw [hg]
  cases hbi : s.bAddrIdx x with
  | none => simp [hbi] at hb
  | some bi =>
    simp only
    cases hai : s.aAddrIdx x with
    | none =>
      intro ai h
      have : (({ s with bAddr := modAt s.bAddr bi (fun o => { o with needed := true }) } : St).aAddrIdx x) =
          s.aAddrIdx x := rfl
      simp only at h
      rw [this, hai] at h
      cases h
    | some ai =>
      simp only
      have hin : ∃ o, s.aAddr[ai]? = some o := by
        have := lastIdx_spec hai
        rw [List.getElem?_map] at this
        cases h : s.aAddr[ai]? with
        | none => simp [h] at this
        | some o => exact ⟨o, rfl⟩
      obtain ⟨o, ho⟩ := hin
      have hset : Marked { s with aAddr := modAt s.aAddr ai (fun o => { o with needed := true }) } x := by
        intro ai' h'
        have hidx := ((markInv_setA s ai).idx x).1
        rw [hidx, hai] at h'
        cases h'
        exact ⟨{ o with needed := true }, by simp [modAt_getElem?, ho], rfl⟩
      split
      · exact hset.mono (markInv_bAddr _ bi (fun o => { o with edit := true }) (fun _ => rfl))
      · exact hset

theorem markAddrs_marks (fuel : Nat) : ∀ (l : List String) (st : St) (x : String), x ∈ l →
    st.bGrpIdx x = none → (st.bAddrIdx x).isSome → Marked (markAddrs (fuel + 1) st l) x := by
  intro l
  induction l with
  | nil => intro st x hx; cases hx
  | cons y ys ih =>
    intro st x hx hg hb
    rw [markAddrs_succ, List.foldl_cons, ← markAddrs_succ]
    have hstep : MarkInv st (markAddrStep fuel st y) := by
      have := markAddrs_inv (fuel + 1) st [y]
      rw [markAddrs_succ] at this
      simpa using this
    rcases List.mem_cons.mp hx with rfl | hx
    · exact (markAddrStep_marks fuel st x hg hb).mono (markAddrs_inv _ _ _)
    · apply ih _ x hx
      · rw [(hstep.idx x).2.2]; exact hg
      · rw [(hstep.idx x).2.1]; exact hb

/-- `markServices` leaves addresses and address-groups alone. -/
theorem markSrvs_addr : ∀ (fuel : Nat) (st : St) (l : List String),
    (markSrvs fuel st l).aAddr = st.aAddr ∧ (markSrvs fuel st l).bAddr = st.bAddr ∧
      (markSrvs fuel st l).bGrp = st.bGrp := by
  intro fuel
  induction fuel with
  | zero => intro st l; exact ⟨rfl, rfl, rfl⟩
  | succ fuel ih =>
    intro st l
    rw [markSrvs]
    suffices h : ∀ (l : List String) (s : St) (f : St → String → St),
        (∀ s x, (f s x).aAddr = s.aAddr ∧ (f s x).bAddr = s.bAddr ∧ (f s x).bGrp = s.bGrp) →
        (l.foldl f s).aAddr = s.aAddr ∧ (l.foldl f s).bAddr = s.bAddr ∧ (l.foldl f s).bGrp = s.bGrp by
      apply h
      intro s name
      split
      · dsimp only
        split
        · split
          · simp only [ih]; exact ⟨trivial, trivial, trivial⟩
          · simp only [ih]; exact ⟨trivial, trivial, trivial⟩
        · simp only [ih]; exact ⟨trivial, trivial, trivial⟩
      · split
        · exact ⟨rfl, rfl, rfl⟩
        · split
          · dsimp only
            split <;> exact ⟨rfl, rfl, rfl⟩
          · exact ⟨rfl, rfl, rfl⟩
    intro l
    induction l with
    | nil => intro s f _; exact ⟨rfl, rfl, rfl⟩
    | cons x xs ihl =>
      intro s f hf
      simp only [List.foldl_cons]
      obtain ⟨h1, h2, h3⟩ := ihl (f s x) f hf
      obtain ⟨g1, g2, g3⟩ := hf s x
      exact ⟨h1.trans g1, h2.trans g2, h3.trans g3⟩

theorem markSrvs_inv (fuel : Nat) (st : St) (l : List String) : MarkInv st (markSrvs fuel st l) := by
  obtain ⟨h1, h2, h3⟩ := markSrvs_addr fuel st l
  refine ⟨by rw [h1], by rw [h2], by rw [h3], ?_⟩
  intro i o h hn
  exact ⟨o, by rw [h1]; exact h, hn⟩

/-- After `markObjects`, every device address that a rule names in source or destination —
as an address of the target, not as a group — is `needed`. -/
theorem markObjects_marks (fuel : Nat) : ∀ (rules : List Rule) (st : St) (r : Rule) (x : String),
    r ∈ rules → (x ∈ r.src ∨ x ∈ r.dst) → st.bGrpIdx x = none → (st.bAddrIdx x).isSome →
    Marked (markObjects (fuel + 1) st rules) x := by
  intro rules
  induction rules with
  | nil => intro st r x hr; cases hr
  | cons r0 rs ih =>
    intro st r x hr hx hg hb
    unfold markObjects at ih ⊢
    simp only [List.foldl_cons]
    have h1 := markAddrs_inv (fuel + 1) st r0.src
    have h2 := markAddrs_inv (fuel + 1) (markAddrs (fuel + 1) st r0.src) r0.dst
    have h3 := markSrvs_inv (fuel + 1) (markAddrs (fuel + 1) (markAddrs (fuel + 1) st r0.src) r0.dst) r0.srv
    have hall := (h1.trans h2).trans h3
    have hrest : MarkInv (markSrvs (fuel + 1) (markAddrs (fuel + 1) (markAddrs (fuel + 1) st r0.src) r0.dst) r0.srv)
        (rs.foldl (fun st r => markSrvs (fuel + 1) (markAddrs (fuel + 1) (markAddrs (fuel + 1) st r.src) r.dst) r.srv)
          (markSrvs (fuel + 1) (markAddrs (fuel + 1) (markAddrs (fuel + 1) st r0.src) r0.dst) r0.srv)) :=
      foldl_markInv _ (fun s (r' : Rule) =>
        ((markAddrs_inv (fuel + 1) s r'.src).trans (markAddrs_inv (fuel + 1) _ r'.dst)).trans
          (markSrvs_inv (fuel + 1) _ r'.srv)) _ _
    rcases List.mem_cons.mp hr with rfl | hr
    · rcases hx with hx | hx
      · exact ((markAddrs_marks fuel _ st x hx hg hb).mono (h2.trans h3)).mono hrest
      · refine ((markAddrs_marks fuel _ _ x hx ?_ ?_).mono h3).mono hrest
        · rw [(h1.idx x).2.2]; exact hg
        · rw [(h1.idx x).2.1]; exact hb
    · apply ih _ r x hr hx
      · rw [(hall.idx x).2.2]; exact hg
      · rw [(hall.idx x).2.1]; exact hb

end NA.PanOs

namespace NA.PanOs

/-! ### From the marks to the removals -/

theorem mem_insertSorted (x y : String) (l : List String) : x ∈ insertSorted y l ↔ x = y ∨ x ∈ l := by
  induction l with
  | nil => simp [insertSorted]
  | cons z zs ih =>
    simp only [insertSorted]
    split
    · simp only [List.mem_cons, ih]
      constructor
      · rintro (h | h | h)
        · exact Or.inr (Or.inl h)
        · exact Or.inl h
        · exact Or.inr (Or.inr h)
      · rintro (h | h | h)
        · exact Or.inr (Or.inl h)
        · exact Or.inl h
        · exact Or.inr (Or.inr h)
    · simp

theorem mem_sortStrings (x : String) (l : List String) : x ∈ sortStrings l ↔ x ∈ l := by
  unfold sortStrings
  induction l with
  | nil => simp
  | cons y ys ih => simp [List.foldr_cons, mem_insertSorted, ih]

theorem nodup_getElem?_inj {l : List String} (h : l.Nodup) {i j : Nat} {x : String}
    (hi : l[i]? = some x) (hj : l[j]? = some x) : i = j := by
  induction l generalizing i j with
  | nil => simp at hi
  | cons y ys ih =>
    rw [List.nodup_cons] at h
    cases i with
    | zero =>
      cases j with
      | zero => rfl
      | succ j =>
        simp only [List.getElem?_cons_zero, Option.some.injEq, List.getElem?_cons_succ] at hi hj
        subst hi
        exact absurd (List.mem_of_getElem? hj) h.1
    | succ i =>
      cases j with
      | zero =>
        simp only [List.getElem?_cons_zero, Option.some.injEq, List.getElem?_cons_succ] at hi hj
        subst hj
        exact absurd (List.mem_of_getElem? hi) h.1
      | succ j =>
        simp only [List.getElem?_cons_succ] at hi hj
        rw [ih h.2 hi hj]

theorem markObjects_inv (fuel : Nat) (st : St) (rules : List Rule) : MarkInv st (markObjects fuel st rules) := by
  unfold markObjects
  exact foldl_markInv _ (fun s (r' : Rule) =>
    ((markAddrs_inv fuel s r'.src).trans (markAddrs_inv fuel _ r'.dst)).trans (markSrvs_inv fuel _ r'.srv)) _ _

theorem initSt_bGrp_names (a b : Vsys) (names : List String) (x : String)
    (h : ∀ g ∈ b.groups, g.name ≠ x) : (initSt a b names).bGrpIdx x = none := by
  unfold St.bGrpIdx
  apply lastIdx_none_of_not_mem
  simp only [initSt, List.map_map, List.mem_map, Function.comp_def, not_exists, not_and]
  intro p hp hn
  exact h p.1 (List.of_mem_zip hp).1 hn

theorem diffRules_after_mark (diff : Differ) (fuel : Nat) (st0 : St) (a' b' : Vsys)
    (aRules bRules rules : List Rule) (r : Rule) (x : String)
    (hr : r ∈ rules) (hx : x ∈ r.src ∨ x ∈ r.dst)
    (hg : st0.bGrpIdx x = none) (hb : (st0.bAddrIdx x).isSome) :
    Marked (diffRules diff (fuel + 1) (markObjects (fuel + 1) st0 rules) a' b' aRules bRules) x ∧
      (diffRules diff (fuel + 1) (markObjects (fuel + 1) st0 rules) a' b' aRules bRules).aAddr.map (·.o) =
        st0.aAddr.map (·.o) := by
  have hm := markObjects_marks fuel rules st0 r x hr hx hg hb
  have hinv := markObjects_inv (fuel + 1) st0 rules
  have hobjs := diffRules_objs diff (fuel + 1) (markObjects (fuel + 1) st0 rules) a' b' aRules bRules
  have haddr := congrArg (fun (t : List AObj × List BObj × List AObj × List BObj × List AGrp × List AGrp) => t.1) hobjs
  simp only [St.objs] at haddr
  constructor
  · intro ai hai
    unfold St.aAddrIdx at hai
    rw [haddr] at hai ⊢
    exact hm ai hai
  · rw [haddr, hinv.1]

/-- The final planner state has marked every device address named by a rule of the target. -/
theorem planState_marked (diff : Differ) (a b : Vsys) (r : Rule) (x : String)
    (hr : r ∈ b.rules) (hx : x ∈ r.src ∨ x ∈ r.dst)
    (hg : ∀ g ∈ b.groups, g.name ≠ x) (hb : ∃ o ∈ b.addrs, o.name = x) :
    Marked (planState diff a b) x ∧
      (planState diff a b).aAddr.map (·.o) = a.addrs := by
  unfold planState
  simp only
  have hfuel : planFuel (sortVsys a) (sortVsys b) =
      ((sortVsys a).groups.length + (sortVsys b).groups.length + (sortVsys b).sgroups.length + 1) + 1 := rfl
  have hr' : ({ r with src := sortStrings r.src, dst := sortStrings r.dst, srv := sortStrings r.srv } : Rule) ∈
      (sortVsys b).rules := by
    simp only [sortVsys, List.mem_map]
    exact ⟨r, hr, rfl⟩
  have hx' : x ∈ sortStrings r.src ∨ x ∈ sortStrings r.dst := by
    simpa [mem_sortStrings] using hx
  have hg0 := initSt_bGrp_names (sortVsys a) (sortVsys b)
    (groupNamesFor (sortVsys a) (sortVsys b)) x (by
      intro g hg'
      simp only [sortVsys, List.mem_map] at hg'
      obtain ⟨g0, hg0, rfl⟩ := hg'
      exact hg g0 hg0)
  have hb0 : ((initSt (sortVsys a) (sortVsys b)
      (groupNamesFor (sortVsys a) (sortVsys b))).bAddrIdx x).isSome := by
    unfold St.bAddrIdx
    apply lastIdx_isSome_of_mem
    obtain ⟨o, ho, hn⟩ := hb
    simp only [initSt, sortVsys, List.map_map, List.mem_map, Function.comp_def]
    exact ⟨o, ho, hn⟩
  rw [hfuel]
  obtain ⟨h1, h2⟩ := diffRules_after_mark diff _ _ (sortVsys a) (sortVsys b) (sortVsys a).rules
    (((sortVsys b).rules.zip (uniqNames (ruleNames (sortVsys a).rules) (ruleNames (sortVsys b).rules))).map
      (fun (r, n) => { r with name := n })) (sortVsys b).rules _ x hr' hx' hg0 hb0
  refine ⟨h1, ?_⟩
  rw [h2]
  simp [initSt, sortVsys, List.map_map, Function.comp_def]

/-- A removal of an address names a device address whose `needed` flag is down. -/
theorem delAddr_mem_removeCmds {st : St} {x : String} (h : Cmd.delAddr x ∈ removeCmds st) :
    ∃ o ∈ st.aAddr, o.needed = false ∧ o.o.name = x := by
  simp only [removeCmds, List.mem_append, List.mem_filterMap] at h
  rcases h with ((⟨g, _, h⟩ | ⟨o, ho, h⟩) | ⟨g, _, h⟩) | ⟨o, _, h⟩
  · split at h <;> cases h
  · split at h
    · rename_i hn
      simp only [Option.some.injEq, Cmd.delAddr.injEq] at h
      exact ⟨o, ho, by simpa using hn, h⟩
    · cases h
  · split at h <;> cases h
  · split at h <;> cases h

/-- **No address that a rule of the target names is removed.** -/
theorem planVsys_spares_address (diff : Differ) (a b : Vsys) (ha : (a.addrs.map (·.name)).Nodup)
    (r : Rule) (x : String) (hr : r ∈ b.rules) (hx : x ∈ r.src ∨ x ∈ r.dst)
    (hg : ∀ g ∈ b.groups, g.name ≠ x) (hb : ∃ o ∈ b.addrs, o.name = x) :
    Cmd.delAddr x ∉ planVsys diff a b := by
  intro hmem
  unfold planVsys at hmem
  simp only [List.mem_append] at hmem
  obtain ⟨hmark, hdefs⟩ := planState_marked diff a b r x hr hx hg hb
  rcases hmem with (h | h) | h
  · have := transferCmds_kind _ _ h
    simp [Cmd.isTransfer] at this
  · have := planState_out_kind diff a b _ h
    simp [Cmd.isRuleCmd, Cmd.isMember, ordOf] at this
  · obtain ⟨o, ho, hn, hname⟩ := delAddr_mem_removeCmds h
    obtain ⟨i, hi⟩ := List.getElem?_of_mem ho
    have hnames : (planState diff a b).aAddr.map (·.o.name) = a.addrs.map (·.name) := by
      have := congrArg (List.map (·.name)) hdefs
      simpa [List.map_map, Function.comp_def] using this
    have hix : ((planState diff a b).aAddr.map (·.o.name))[i]? = some x := by
      rw [List.getElem?_map, hi]; simp [hname]
    have hsome : ((planState diff a b).aAddrIdx x).isSome := by
      unfold St.aAddrIdx
      exact lastIdx_isSome_of_mem (List.mem_of_getElem? hix)
    cases hai : (planState diff a b).aAddrIdx x with
    | none => simp [hai] at hsome
    | some ai =>
      have haix := lastIdx_spec hai
      have : i = ai := nodup_getElem?_inj (by rw [hnames]; exact ha) hix haix
      subst this
      obtain ⟨o', ho', hn'⟩ := hmark i hai
      rw [hi] at ho'
      cases ho'
      rw [hn] at hn'
      cases hn'

end NA.PanOs
