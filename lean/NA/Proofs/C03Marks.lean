import NA.Proofs.C03Plan
/-
C03 / C07 / C08: what `removeUnneededObjects` spares.  `markObjects` marks every device address
that a rule of the target names (directly) as `needed`; nothing later in `diffConfig` touches
the address flags; hence no address that the target's rules still name is ever removed.
Core Lean only.
-/
namespace NA.PanOs

/-! ### The object flags are untouched by `diffRules` -/

/-- The flags and definitions of addresses, services and service-groups of both sides. -/
def St.objs (st : St) := (st.aAddr, st.bAddr, st.aSvc, st.bSvc, st.aSG, st.bSG)

theorem findGroupOnDevice_objs (st : St) (gbi : Nat) : (findGroupOnDevice st gbi).2.objs = st.objs := by
  unfold findGroupOnDevice
  dsimp only
  cases findGroupOnDeviceFrom ((Option.map (fun x => x.g.members) st.bGrp[gbi]?).getD []) st.aGrp 0 with
  | none => rfl
  | some p => rfl

theorem adaptStep_objs (acc : List String × St) (adr : String) : (adaptStep acc adr).2.objs = acc.2.objs := by
  obtain ⟨res, s⟩ := acc
  unfold adaptStep
  simp only
  split
  · rfl
  · split
    · rfl
    · have := findGroupOnDevice_objs s ‹Nat›
      split <;> simp_all

theorem adaptGroups_objs (st : St) (lb : List String) : (adaptGroups st lb).2.objs = st.objs := by
  unfold adaptGroups
  suffices h : ∀ (l : List String) (acc : List String × St), (l.foldl adaptStep acc).2.objs = acc.2.objs by
    exact h lb ([], st)
  intro l
  induction l with
  | nil => intro acc; rfl
  | cons x xs ih => intro acc; simp only [List.foldl_cons]; rw [ih, adaptStep_objs]

theorem eqGroups_objs (recur : St → List String → List String → MPath → Bool × St)
    (hrec : ∀ s la lb p, (recur s la lb p).2.objs = s.objs) (st : St) (gai gbi : Nat) :
    (eqGroups recur st gai gbi).2.objs = st.objs := by
  unfold eqGroups
  simp only
  split
  · rfl
  · split
    · rfl
    · have h := hrec st (st.aGrp[gai]?.getD default).g.members (st.bGrp[gbi]?.getD default).g.members
        (.group (st.aGrp[gai]?.getD default).g.name)
      revert h
      generalize recur st _ _ _ = res
      obtain ⟨b, s⟩ := res
      intro h
      simp only at h ⊢
      split
      · exact h
      · exact h

theorem foldl_objs {β : Type} (f : Bool × St × List String → β → Bool × St × List String)
    (hf : ∀ acc x, (f acc x).2.1.objs = acc.2.1.objs) :
    ∀ (l : List β) (acc : Bool × St × List String), (l.foldl f acc).2.1.objs = acc.2.1.objs := by
  intro l
  induction l with
  | nil => intro acc; rfl
  | cons x xs ih => intro acc; simp only [List.foldl_cons]; rw [ih, hf]

theorem pairStep_objs (recur : St → List String → List String → MPath → Bool × St)
    (hrec : ∀ s la lb p, (recur s la lb p).2.objs = s.objs) (la lb : List String) (r : Range)
    (acc : Bool × St × List String) (k : Nat) : (pairStep recur la lb r acc k).2.1.objs = acc.2.1.objs := by
  obtain ⟨ok, s, ins⟩ := acc
  unfold pairStep
  simp only
  split
  · rfl
  · split
    · rfl
    · split
      · rfl
      · exact eqGroups_objs recur hrec s _ _

theorem rangeStep_objs (recur : St → List String → List String → MPath → Bool × St)
    (hrec : ∀ s la lb p, (recur s la lb p).2.objs = s.objs) (la lb : List String) (path : MPath)
    (acc : Bool × St × List String) (r : Range) : (rangeStep recur la lb path acc r).2.1.objs = acc.2.1.objs := by
  obtain ⟨ok, s, ins⟩ := acc
  unfold rangeStep
  simp only
  split
  · rfl
  · split
    · rfl
    · exact adaptGroups_objs _ _
    · exact foldl_objs _ (fun acc k => pairStep_objs recur hrec la lb r acc k) _ _

theorem hasEqLists_objs (diff : Differ) :
    ∀ (fuel : Nat) (st : St) (la lb : List String) (path : MPath),
      (hasEqLists diff fuel st la lb path).2.objs = st.objs := by
  intro fuel
  induction fuel with
  | zero => intro st la lb path; simp only [hasEqLists]
  | succ fuel ih =>
    intro st la lb path
    rw [hasEqLists]
    split
    · rfl
    · have key := foldl_objs _ (fun acc r => rangeStep_objs (hasEqLists diff fuel) ih la lb path acc r)
        (diff la.length lb.length (fun i j => memberEq st (la.getD i "") (lb.getD j ""))) (true, st, [])
      revert key
      generalize (List.foldl _ (true, st, []) _) = res
      intro key
      obtain ⟨ok, s, ins⟩ := res
      simp only at key ⊢
      split
      · exact key
      · split
        · exact key
        · exact key

theorem equalizeList_objs (diff : Differ) (fuel : Nat) (st : St) (la lb : List String) (n : String) (f : Fld) :
    (equalizeList diff fuel st la lb n f).objs = st.objs := by
  unfold equalizeList
  have h := hasEqLists_objs diff fuel st la lb (.rule n f)
  revert h
  generalize hasEqLists diff fuel st la lb (.rule n f) = res
  obtain ⟨ok, s⟩ := res
  intro h
  simp only at h ⊢
  split
  · exact h
  · have h2 := adaptGroups_objs s lb
    revert h2
    generalize adaptGroups s lb = res2
    obtain ⟨lb', s'⟩ := res2
    intro h2
    simp only at h2 ⊢
    exact h2.trans h

theorem equalize_objs (diff : Differ) (fuel : Nat) (st : St) (ra rb : Rule) :
    (equalize diff fuel st ra rb).objs = st.objs := by
  unfold equalize
  simp only
  split
  · exact (equalizeList_objs ..).trans (equalizeList_objs ..)
  · exact (equalizeList_objs ..).trans (equalizeList_objs ..)

theorem foldl_objs' {β : Type} (f : St → β → St) (hf : ∀ s x, (f s x).objs = s.objs) :
    ∀ (l : List β) (s : St), (l.foldl f s).objs = s.objs := by
  intro l
  induction l with
  | nil => intro s; rfl
  | cons x xs ih => intro s; simp only [List.foldl_cons]; rw [ih, hf]

theorem rulePhase2_objs (bRules : List Rule) (inserts : List InsGroup) (st : St) :
    (rulePhase2 st bRules inserts).objs = st.objs := by
  unfold rulePhase2
  apply foldl_objs'
  intro s g
  apply foldl_objs'
  intro s ru
  have h1 := adaptGroups_objs s ru.src
  revert h1
  generalize adaptGroups s ru.src = r1
  obtain ⟨src, s1⟩ := r1
  intro h1
  simp only at h1 ⊢
  have h2 := adaptGroups_objs s1 ru.dst
  revert h2
  generalize adaptGroups s1 ru.dst = r2
  obtain ⟨dst, s2⟩ := r2
  intro h2
  simp only at h2 ⊢
  split
  · exact h2.trans h1
  · exact h2.trans h1

theorem rulePhase1_objs (diff : Differ) (fuel : Nat) (a b : Vsys) (aRules bRules : List Rule)
    (rs : List Range) (st : St) :
    (rulePhase1 diff fuel a b aRules bRules rs st).1.objs = st.objs := by
  unfold rulePhase1
  suffices h : ∀ (rs : List Range) (acc : St × Nat × List InsGroup),
      (rs.foldl (fun (acc : St × Nat × List InsGroup) r =>
        let (st, delIdx, inserts) := acc
        match r.kind with
        | .del =>
          (st.emitAll ((aRules.extract r.lowA r.highA).map (fun ru => Cmd.delRule ru.name)), r.highA, inserts)
        | .ins =>
          let aPos := max r.lowA delIdx
          let anchor := (aRules[aPos]?).map (·.name)
          (st, delIdx, inserts ++ [⟨anchor, r.lowB, r.highB⟩])
        | .eq =>
          let st := (List.range (r.highA - r.lowA)).foldl (fun st k =>
            equalize diff fuel st (aRules.getD (r.lowA + k) default) (bRules.getD (r.lowB + k) default)) st
          (st, delIdx, inserts)) acc).1.objs = acc.1.objs by
    exact h rs (st, 0, [])
  intro rs
  induction rs with
  | nil => intro acc; rfl
  | cons r rs ih =>
    intro acc
    obtain ⟨s, d, ins⟩ := acc
    simp only [List.foldl_cons]
    rw [ih]
    split
    · rfl
    · rfl
    · exact foldl_objs' _ (fun s k => equalize_objs diff fuel s _ _) _ _

theorem diffRules_objs (diff : Differ) (fuel : Nat) (st : St) (a b : Vsys) (aRules bRules : List Rule) :
    (diffRules diff fuel st a b aRules bRules).objs = st.objs := by
  unfold diffRules
  simp only
  have h1 := rulePhase1_objs diff fuel a b aRules bRules
    (diff aRules.length bRules.length (fun i j => ruleEqual a b (aRules.getD i default) (bRules.getD j default))) st
  revert h1
  generalize rulePhase1 diff fuel a b aRules bRules _ st = res
  obtain ⟨s, d, ins⟩ := res
  intro h1
  simp only at h1 ⊢
  rw [rulePhase2_objs, h1]

end NA.PanOs
