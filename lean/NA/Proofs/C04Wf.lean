import NA.Proofs.C04Frame
/-!
C08 / C10 for NSX, about the specification alone: the strict manager keeps its object store
well-formed (unique ids per kind, unique rule ids per policy, no dangling reference) under every
call it accepts — so every prefix of an accepted script leaves a well-formed manager.
-/
namespace NA.Nsx

structure WF (S : Store) : Prop where
  pol : (pids S.policies).Nodup
  grp : (gids S.groups).Nodup
  svc : (sids S.services).Nodup
  rules : ∀ p ∈ S.policies, (rids p.rules).Nodup ∧ ∀ r ∈ p.rules, refsOk S r = true

theorem wf_of_storeWF {S : Store} (h : storeWF S = true) : WF S := by
  unfold storeWF at h
  simp only [Bool.and_eq_true, idsNodup_iff, List.all_eq_true] at h
  obtain ⟨⟨⟨a, b⟩, c⟩, d⟩ := h
  refine ⟨a, b, c, ?_⟩
  intro p hp
  have := d p hp
  unfold policyWF at this
  simp only [Bool.and_eq_true, idsNodup_iff, List.all_eq_true] at this
  exact this

theorem storeWF_of_wf {S : Store} (h : WF S) : storeWF S = true := by
  unfold storeWF
  simp only [Bool.and_eq_true, idsNodup_iff, List.all_eq_true]
  refine ⟨⟨⟨h.pol, h.grp⟩, h.svc⟩, ?_⟩
  intro p hp
  unfold policyWF
  simp only [Bool.and_eq_true, idsNodup_iff, List.all_eq_true]
  exact h.rules p hp

theorem refsOk_congr {S S' : Store} (hg : ∀ id, hasGroup S id = true → hasGroup S' id = true)
    (hs : ∀ id, hasService S id = true → hasService S' id = true) {r : Rule} (h : refsOk S r = true) :
    refsOk S' r = true :=
  refsOk_mono' hs (fun id hid => hasGroup_iff.mp (hg id (hasGroup_iff.mpr hid))) h

theorem refsOk_same_fields {S : Store} {r r' : Rule} (h1 : r'.src = r.src) (h2 : r'.dst = r.dst)
    (h3 : r'.service = r.service) : refsOk S r' = refsOk S r := by
  unfold refsOk; rw [h1, h2, h3]

theorem mem_setRules {ps : List Policy} {pid : String} {F : List Rule → List Rule} {p' : Policy}
    (h : p' ∈ setRules ps pid F) :
    ∃ p ∈ ps, (p.id = pid ∧ p' = { p with rules := F p.rules }) ∨ (p.id ≠ pid ∧ p' = p) := by
  unfold setRules at h
  obtain ⟨p, hp, e⟩ := List.mem_map.mp h
  refine ⟨p, hp, ?_⟩
  by_cases hid : p.id = pid
  · left; exact ⟨hid, by rw [← e]; simp [hid]⟩
  · right; exact ⟨hid, by rw [← e]; simp [hid]⟩

theorem hasGroup_congr {S S' : Store} (h : gids S'.groups = gids S.groups) (id : String) :
    hasGroup S' id = hasGroup S id := by
  cases h1 : hasGroup S id with
  | true => rw [hasGroup_iff] at h1 ⊢; rw [h]; exact h1
  | false =>
    rw [Bool.eq_false_iff] at h1 ⊢
    intro h2; apply h1
    rw [hasGroup_iff] at h2 ⊢; rw [← h]; exact h2

theorem hasService_congr {S S' : Store} (h : sids S'.services = sids S.services) (id : String) :
    hasService S' id = hasService S id := by
  cases h1 : hasService S id with
  | true => rw [hasService_iff] at h1 ⊢; rw [h]; exact h1
  | false =>
    rw [Bool.eq_false_iff] at h1 ⊢
    intro h2; apply h1
    rw [hasService_iff] at h2 ⊢; rw [← h]; exact h2

/-- Rules keep their references when only objects other than the referenced ones disappear. -/
theorem wf_rules_of {S S' : Store} (h : WF S) (hp : S'.policies = S.policies)
    (hr : ∀ p ∈ S.policies, ∀ r ∈ p.rules, refsOk S r = true → refsOk S' r = true) :
    ∀ p ∈ S'.policies, (rids p.rules).Nodup ∧ ∀ r ∈ p.rules, refsOk S' r = true := by
  intro p hpm
  rw [hp] at hpm
  obtain ⟨h1, h2⟩ := h.rules p hpm
  exact ⟨h1, fun r hrm => hr p hpm r hrm (h2 r hrm)⟩

theorem wf_rules_setRules {S S' : Store} (h : WF S) {pid : String} {F : List Rule → List Rule} {p0 : Policy}
    (hfind : findPolicy S.policies pid = some p0)
    (hp : S'.policies = setRules S.policies pid F) (hg : S'.groups = S.groups) (hs : S'.services = S.services)
    (hF : (rids (F p0.rules)).Nodup ∧ ∀ r ∈ F p0.rules, refsOk S r = true) :
    ∀ p ∈ S'.policies, (rids p.rules).Nodup ∧ ∀ r ∈ p.rules, refsOk S' r = true := by
  have hcongr : ∀ r, refsOk S' r = refsOk S r := by
    intro r; unfold refsOk epOk svcOk hasGroup hasService; rw [hg, hs]
  intro p' hp'
  rw [hp] at hp'
  obtain ⟨p, hpm, hcase⟩ := mem_setRules hp'
  rcases hcase with ⟨hid, e⟩ | ⟨_, e⟩
  · have hp0 : p = p0 := by
      have := findPolicy_mem_nodup h.pol hpm
      rw [hid, hfind] at this
      exact (Option.some.inj this).symm
    subst hp0
    rw [e]
    exact ⟨hF.1, fun r hr => by rw [hcongr]; exact hF.2 r hr⟩
  · rw [e]
    obtain ⟨h1, h2⟩ := h.rules p hpm
    exact ⟨h1, fun r hr => by rw [hcongr]; exact h2 r hr⟩

theorem wf_setRules {S : Store} (h : WF S) {pid : String} {p0 : Policy} (hfind : findPolicy S.policies pid = some p0)
    (F : List Rule → List Rule) (hF : (rids (F p0.rules)).Nodup ∧ ∀ r ∈ F p0.rules, refsOk S r = true) :
    WF { S with policies := setRules S.policies pid F } :=
  ⟨by show (pids (setRules S.policies pid F)).Nodup; rw [pids_setRules]; exact h.pol, h.grp, h.svc,
    wf_rules_setRules h hfind rfl rfl rfl hF⟩

/-- Every call the strict manager accepts keeps the store well-formed. -/
theorem exec_wf {S S' : Store} {c : Call} (h : WF S) (hex : exec S c = .ok S') : WF S' := by
  cases c with
  | putService id d =>
    simp only [exec] at hex
    split at hex
    · cases hex
    · rename_i hnot
      rw [← ok_inj hex]
      have hfresh : id ∉ sids S.services := fun hm => hnot (hasService_iff.mpr hm)
      refine ⟨h.pol, h.grp, ?_, wf_rules_of h rfl fun p _ r _ hr => ?_⟩
      · simp only [sids, List.map_append, List.map_cons, List.map_nil]
        rw [List.nodup_append]
        refine ⟨h.svc, by simp, ?_⟩
        intro a ha b hb e
        simp at hb; subst hb; subst e; exact hfresh ha
      · refine refsOk_congr (S := S) ?_ ?_ hr
        · intro _ hh; exact hh
        · intro x hx
          rw [hasService_iff] at hx ⊢
          simp only [sids, List.map_append, List.mem_append]
          exact Or.inl hx
  | patchService id d =>
    simp only [exec] at hex
    split at hex
    · cases hex
    · rw [← ok_inj hex]
      have hs : sids (S.services.map fun s => if s.id == id then (⟨id, d⟩ : Service) else s) = sids S.services := by
        unfold sids
        rw [List.map_map]
        apply List.map_congr_left
        intro s _
        simp only [Function.comp]
        by_cases e : s.id = id <;> simp [e]
      refine ⟨h.pol, h.grp, by show (sids _).Nodup; rw [hs]; exact h.svc, wf_rules_of h rfl fun p _ r _ hr => ?_⟩
      refine refsOk_congr (S := S) ?_ ?_ hr
      · intro _ hh; exact hh
      · intro x hx
        rw [hasService_iff] at hx ⊢
        show x ∈ sids _
        rw [hs]; exact hx
  | deleteService id =>
    simp only [exec] at hex
    split at hex
    · cases hex
    · split at hex
      · cases hex
      · rename_i _ hunused
        rw [← ok_inj hex]
        refine ⟨h.pol, h.grp, (List.Sublist.map _ List.filter_sublist).nodup h.svc, wf_rules_of h rfl ?_⟩
        intro p hp r hr hrefs
        obtain ⟨e1, e2, e3⟩ := refsOk_parts hrefs
        refine refsOk_intro e1 e2 ?_
        unfold svcOk at e3 ⊢
        cases hx : serviceRef r.service with
        | none => rfl
        | some x =>
          simp only [hx] at e3 ⊢
          have hne : x ≠ id := by
            intro e
            apply hunused
            unfold serviceUsed
            rw [List.any_eq_true]
            refine ⟨p, hp, ?_⟩
            rw [List.any_eq_true]
            exact ⟨r, hr, by rw [serviceRef_some hx, e]; simp⟩
          rw [hasService_iff] at e3 ⊢
          obtain ⟨s, hs, he⟩ := List.mem_map.mp e3
          exact List.mem_map.mpr ⟨s, List.mem_filter.mpr ⟨hs, by rw [he]; simpa using hne⟩, he⟩
  | putGroup id e t addrs =>
    simp only [exec] at hex
    split at hex
    · cases hex
    · rename_i hnot
      split at hex
      · cases hex
      rw [← ok_inj hex]
      have hfresh : id ∉ gids S.groups := fun hm => hnot (hasGroup_iff.mpr hm)
      refine ⟨h.pol, ?_, h.svc, wf_rules_of h rfl fun p _ r _ hr => ?_⟩
      · simp only [gids, List.map_append, List.map_cons, List.map_nil]
        rw [List.nodup_append]
        refine ⟨h.grp, by simp, ?_⟩
        intro a ha b hb e'
        simp at hb; subst hb; subst e'; exact hfresh ha
      · refine refsOk_congr (S := S) ?_ ?_ hr
        · intro x hx
          rw [hasGroup_iff] at hx ⊢
          simp only [gids, List.map_append, List.mem_append]
          exact Or.inl hx
        · intro _ hh; exact hh
  | postAddrs gid e add addrs =>
    simp only [exec] at hex
    split at hex
    · cases hex
    · split at hex
      · cases hex
      · split at hex
        · split at hex
          · cases hex
          · rw [← ok_inj hex]
            have hg := gids_setGroupAddrs S.groups gid (fun g => { g with addrs := g.addrs ++ addrs }) fun _ => rfl
            exact ⟨h.pol, by show (gids _).Nodup; rw [hg]; exact h.grp, h.svc, wf_rules_of h rfl fun p _ r _ hr => by
              refine refsOk_congr (S := S) ?_ ?_ hr
              · intro x hx; rw [hasGroup_iff] at hx ⊢; show x ∈ gids _; rw [hg]; exact hx
              · intro _ hh; exact hh⟩
        · split at hex
          · cases hex
          · split at hex
            · cases hex
            · rw [← ok_inj hex]
              have hg := gids_setGroupAddrs S.groups gid
                (fun g => { g with addrs := g.addrs.filter (!addrs.contains ·) }) fun _ => rfl
              exact ⟨h.pol, by show (gids _).Nodup; rw [hg]; exact h.grp, h.svc, wf_rules_of h rfl fun p _ r _ hr => by
                refine refsOk_congr (S := S) ?_ ?_ hr
                · intro x hx; rw [hasGroup_iff] at hx ⊢; show x ∈ gids _; rw [hg]; exact hx
                · intro _ hh; exact hh⟩
  | patchExpr gid e t addrs =>
    simp only [exec] at hex
    split at hex
    · cases hex
    · split at hex
      · cases hex
      · split at hex
        · cases hex
        · rw [← ok_inj hex]
          have hg := gids_setGroupAddrs S.groups gid (fun g => { g with rtype := t, addrs := addrs }) fun _ => rfl
          exact ⟨h.pol, by show (gids _).Nodup; rw [hg]; exact h.grp, h.svc, wf_rules_of h rfl fun p _ r _ hr => by
            refine refsOk_congr (S := S) ?_ ?_ hr
            · intro x hx; rw [hasGroup_iff] at hx ⊢; show x ∈ gids _; rw [hg]; exact hx
            · intro _ hh; exact hh⟩
  | deleteGroup id =>
    simp only [exec] at hex
    split at hex
    · cases hex
    · split at hex
      · cases hex
      · rename_i _ hunused
        rw [← ok_inj hex]
        refine ⟨h.pol, (List.Sublist.map _ List.filter_sublist).nodup h.grp, h.svc, wf_rules_of h rfl ?_⟩
        intro p hp r hr hrefs
        obtain ⟨e1, e2, e3⟩ := refsOk_parts hrefs
        have hep : ∀ q, (q = r.src ∨ q = r.dst) → epOk S q = true →
            epOk { S with groups := S.groups.filter (·.id != id) } q = true := by
          intro q hq hok
          unfold epOk at hok ⊢
          cases hx : groupRef q with
          | none => rfl
          | some x =>
            simp only [hx] at hok ⊢
            have hne : x ≠ id := by
              intro e
              apply hunused
              unfold groupUsed
              rw [List.any_eq_true]
              refine ⟨p, hp, ?_⟩
              rw [List.any_eq_true]
              refine ⟨r, hr, ?_⟩
              unfold ruleUsesGroup
              rcases hq with hq | hq
              · rw [← hq, groupRef_some hx, e]; simp
              · rw [← hq, groupRef_some hx, e]; simp
            rw [hasGroup_iff] at hok ⊢
            obtain ⟨g, hg, he⟩ := List.mem_map.mp hok
            exact List.mem_map.mpr ⟨g, List.mem_filter.mpr ⟨hg, by rw [he]; simpa using hne⟩, he⟩
        exact refsOk_intro (hep _ (Or.inl rfl) e1) (hep _ (Or.inr rfl) e2) e3
  | putPolicy id rules =>
    simp only [exec] at hex
    split at hex
    · cases hex
    · rename_i hnot
      split at hex
      · cases hex
      · rename_i hnd
        split at hex
        · cases hex
        · rename_i hfind
          rw [← ok_inj hex]
          have hfresh : id ∉ pids S.policies := fun hm => hnot (hasPolicy_mem.mpr hm)
          refine ⟨?_, h.grp, h.svc, ?_⟩
          · simp only [pids, List.map_append, List.map_cons, List.map_nil]
            rw [List.nodup_append]
            refine ⟨h.pol, by simp, ?_⟩
            intro a ha b hb e
            simp at hb; subst hb; subst e; exact hfresh ha
          · intro p hp
            rcases List.mem_append.mp hp with hp | hp
            · exact h.rules p hp
            · simp at hp; subst hp
              have hnd' : idsNodup (rules.map (·.id)) = true := by simpa using hnd
              refine ⟨(idsNodup_iff _).mp hnd', ?_⟩
              intro r hr
              have := (List.find?_eq_none.mp hfind) r hr
              show refsOk S r = true
              simpa using this
  | deletePolicy id =>
    simp only [exec] at hex
    split at hex
    · cases hex
    · rw [← ok_inj hex]
      refine ⟨(List.Sublist.map _ List.filter_sublist).nodup h.pol, h.grp, h.svc, ?_⟩
      intro p hp
      exact h.rules p (List.mem_filter.mp hp).1
  | putRule pid rid r =>
    simp only [exec] at hex
    split at hex
    · cases hex
    · rename_i p0 hfind
      split at hex
      · cases hex
      · rename_i hnew
        split at hex
        · cases hex
        · rename_i hrefs
          rw [← ok_inj hex]
          obtain ⟨hr1, hr2⟩ := h.rules p0 (findPolicy_some hfind).1
          refine wf_setRules h hfind _ ⟨?_, ?_⟩
          · simp only [rids, List.map_append, List.map_cons, List.map_nil]
            rw [List.nodup_append]
            refine ⟨hr1, by simp, ?_⟩
            intro a ha b hb e
            simp at hb; subst hb; subst e
            exact hnew (rule_any_id.mpr ha)
          · intro x hx
            rcases List.mem_append.mp hx with hx | hx
            · exact hr2 x hx
            · simp at hx; subst hx
              have hrefs' : refsOk S r = true := by simpa using hrefs
              exact (refsOk_same_fields (S := S) (r := r) rfl rfl rfl).trans hrefs'
  | patchRule pid rid r =>
    simp only [exec] at hex
    split at hex
    · cases hex
    · rename_i p0 hfind
      split at hex
      · cases hex
      · split at hex
        · cases hex
        · rename_i hrefs
          rw [← ok_inj hex]
          obtain ⟨hr1, hr2⟩ := h.rules p0 (findPolicy_some hfind).1
          refine wf_setRules h hfind _ ⟨?_, ?_⟩
          · have : rids (p0.rules.map fun x => if x.id == rid then { r with id := rid, rev := x.rev + 1 } else x) =
                rids p0.rules := by
              unfold rids
              rw [List.map_map]
              apply List.map_congr_left
              intro x _
              simp only [Function.comp]
              by_cases e : x.id = rid <;> simp [e]
            rw [this]; exact hr1
          · intro x hx
            obtain ⟨y, hy, e⟩ := List.mem_map.mp hx
            by_cases hid : y.id = rid
            · simp only [hid, beq_self_eq_true, if_true] at e
              rw [← e]
              have hrefs' : refsOk S r = true := by simpa using hrefs
              exact (refsOk_same_fields (S := S) (r := r) rfl rfl rfl).trans hrefs'
            · have : (y.id == rid) = false := by simpa using hid
              simp only [this, Bool.false_eq_true, if_false] at e
              rw [← e]; exact hr2 y hy
  | deleteRule pid rid =>
    simp only [exec] at hex
    split at hex
    · cases hex
    · rename_i p0 hfind
      split at hex
      · cases hex
      · rw [← ok_inj hex]
        obtain ⟨hr1, hr2⟩ := h.rules p0 (findPolicy_some hfind).1
        refine wf_setRules h hfind _ ⟨?_, ?_⟩
        · exact (List.Sublist.map _ List.filter_sublist).nodup hr1
        · intro x hx
          exact hr2 x (List.mem_filter.mp hx).1

/-- Every prefix of a script the manager accepts leaves a well-formed store. -/
theorem run_wf : ∀ (cs : List Call) (S S' : Store), WF S → run S cs = some S' → WF S' := by
  intro cs
  induction cs with
  | nil => intro S S' h hr; simp [run] at hr; rw [← hr]; exact h
  | cons c rest ih =>
    intro S S' h hr
    simp only [run] at hr
    cases he : exec S c with
    | error e => simp [he] at hr
    | ok S1 =>
      simp only [he] at hr
      exact ih S1 S' (exec_wf h he) hr

end NA.Nsx
