import NA.Proofs.C04Policy
/-!
Helper lemmas for C04, level 4: the loops of `diffConfig` over the policies.
-/
namespace NA.Nsx

/-- Policy `pid` on the manager realises the target rules `tr`: up to the order of listing and up
to rule ids, one rule per target rule. -/
def Realised (ctx : Ctx) (nod : List (String × String)) (S : Store) (pid : String) (tr : List Rule) : Prop :=
  ∃ p' L B bR, findPolicy S.policies pid = some p' ∧ p'.rules.Perm L ∧ Forall2 (RuleReal ctx nod) L B ∧
    B.Perm bR ∧ Forall2 SameButId bR tr

theorem Realised.transport {ctx : Ctx} {st st' : PSt} {S S' : Store} {pid : String} {tr : List Rule}
    (h : Realised ctx st.nod S pid tr) (hm : Mono st st')
    (hf : findPolicy S'.policies pid = findPolicy S.policies pid) : Realised ctx st'.nod S' pid tr := by
  obtain ⟨p', L, B, bR, h1, h2, h3, h4, h5⟩ := h
  exact ⟨p', L, B, bR, by rw [hf]; exact h1, h2, h3.imp fun _ _ hr => hr.mono hm, h4, h5⟩

theorem Forall2_SameButId_refl (l : List Rule) : Forall2 SameButId l l := by
  induction l with
  | nil => exact .nil
  | cons r rest ih => exact .cons rfl ih

def pids (ps : List Policy) : List String := ps.map (·.id)

theorem findPolicy_filter_ne (ps : List Policy) (pid id : String) (h : id ≠ pid) :
    findPolicy (ps.filter (·.id != pid)) id = findPolicy ps id := by
  unfold findPolicy
  induction ps with
  | nil => rfl
  | cons p rest ih =>
    simp only [List.filter_cons]
    by_cases hp : p.id = pid
    · have h1 : (p.id != pid) = false := by simp [hp]
      have h2 : (p.id == id) = false := by simpa [hp] using fun e => h e.symm
      simp only [h1, Bool.false_eq_true, if_false, List.find?_cons, h2]
      exact ih
    · have h1 : (p.id != pid) = true := by simpa using hp
      simp only [h1, if_true, List.find?_cons]
      cases hx : (p.id == id)
      · exact ih
      · rfl

theorem findPolicy_filter_self (ps : List Policy) (pid : String) :
    findPolicy (ps.filter (·.id != pid)) pid = none := by
  unfold findPolicy
  rw [List.find?_eq_none]
  intro p hp
  have := (List.mem_filter.mp hp).2
  simpa using this

theorem hasPolicy_iff {S : Store} {id : String} : hasPolicy S id = true ↔ ∃ p, findPolicy S.policies id = some p := by
  constructor
  · intro h
    cases hf : findPolicy S.policies id with
    | none => rw [hasPolicy_false_iff.mpr hf] at h; cases h
    | some p => exact ⟨p, rfl⟩
  · rintro ⟨p, hp⟩
    cases hh : hasPolicy S id with
    | true => rfl
    | false => rw [hasPolicy_false_iff.mp hh] at hp; cases hp

theorem findPolicy_append_single (ps : List Policy) (q : Policy) (id : String) :
    findPolicy (ps ++ [q]) id = (findPolicy ps id).or (if q.id == id then some q else none) := by
  unfold findPolicy
  rw [List.find?_append]
  cases hq : (q.id == id) <;> simp [List.find?_cons, hq]

/-- What `overA` needs to know about a device policy still to be processed. -/
def APolOK (ctx : Ctx) (S : Store) (pa : Policy) : Prop :=
  ∃ p0, findPolicy S.policies pa.id = some p0 ∧ p0.rules = pa.rules ∧ (rids pa.rules).Nodup ∧
    ∀ ra ∈ pa.rules, refsOk S ra = true ∧ AExt ctx ra

/-- What both loops need to know about the target policies. -/
def BPolOK (ctx : Ctx) (S : Store) (pb : Policy) : Prop :=
  (rids pb.rules).Nodup ∧ ∀ rb ∈ pb.rules, BRefs ctx S rb

theorem APolOK.mono {ctx : Ctx} {S S' : Store} {pa : Policy} (h : APolOK ctx S pa)
    (hf : findPolicy S'.policies pa.id = findPolicy S.policies pa.id) (hs : S'.services = S.services)
    (hg : GroupsLE S S') : APolOK ctx S' pa := by
  obtain ⟨p0, h1, h2, h3, h4⟩ := h
  exact ⟨p0, by rw [hf]; exact h1, h2, h3, fun ra hra => ⟨refsOk_mono hs hg (h4 ra hra).1, (h4 ra hra).2⟩⟩

theorem BPolOK.mono {ctx : Ctx} {S S' : Store} {pb : Policy} (h : BPolOK ctx S pb) (hs : S'.services = S.services)
    (hg : GroupsLE S S') : BPolOK ctx S' pb :=
  ⟨h.1, fun rb hrb => (h.2 rb hrb).mono hs hg⟩

theorem findPolicyLast_mem {ps : List Policy} {id : String} {p : Policy} (h : findPolicyLast ps id = some p) :
    p ∈ ps ∧ p.id = id := by
  unfold findPolicyLast findPolicy at h
  exact ⟨List.mem_reverse.mp (List.mem_of_find?_eq_some h), by simpa using List.find?_some h⟩

theorem stepFrame_findPolicy_ne {pid id : String} {S S' : Store} (h : StepFrame pid S S') (hne : id ≠ pid) :
    findPolicy S'.policies id = findPolicy S.policies id := by
  obtain ⟨F, hF⟩ := h.policies
  rw [hF, findPolicy_setRules_ne _ _ _ _ hne]

theorem stepFrame_hasPolicy {pid id : String} {S S' : Store} (h : StepFrame pid S S') :
    hasPolicy S' id = hasPolicy S id := by
  obtain ⟨F, hF⟩ := h.policies
  unfold hasPolicy
  rw [hF]
  unfold setRules
  rw [List.any_map]
  congr 1
  funext p
  simp only [Function.comp]
  by_cases hp : p.id = pid <;> simp [hp]

theorem pids_setRules (ps : List Policy) (pid : String) (F : List Rule → List Rule) :
    pids (setRules ps pid F) = pids ps := by
  unfold pids setRules
  rw [List.map_map]
  apply List.map_congr_left
  intro p _
  simp only [Function.comp]
  by_cases h : p.id = pid <;> simp [h]

theorem stepFrame_pids {pid : String} {S S' : Store} (h : StepFrame pid S S') : pids S'.policies = pids S.policies := by
  obtain ⟨F, hF⟩ := h.policies
  rw [hF, pids_setRules]

theorem hasPolicy_mem {S : Store} {id : String} : hasPolicy S id = true ↔ id ∈ pids S.policies := by
  unfold hasPolicy pids
  rw [List.any_eq_true]
  constructor
  · rintro ⟨p, hp, he⟩; exact List.mem_map.mpr ⟨p, hp, by simpa using he⟩
  · intro h
    obtain ⟨p, hp, he⟩ := List.mem_map.mp h
    exact ⟨p, hp, by simpa using he⟩

/-- The loop over the device policies. -/
theorem overA_spec {ctx : Ctx} {G0 : List Group} (hc : CtxOK ctx G0)
    (hdiff : ∀ n m eq, validScript n m eq (ctx.diff n m eq) = true) (T : Config) :
    ∀ (ps : List Policy) (S : Store) (st : PSt), (pids ps).Nodup → GInv ctx G0 S.groups st →
      (∀ pa ∈ ps, APolOK ctx S pa) → (∀ pb ∈ T.policies, BPolOK ctx S pb) →
      (overA ctx T ps st).1.abort = none →
      ∃ S', run S (overA ctx T ps st).2 = some S' ∧ GInv ctx G0 S'.groups (overA ctx T ps st).1 ∧
        Mono st (overA ctx T ps st).1 ∧ S'.services = S.services ∧ GroupsLE S S' ∧
        (∀ id, id ∉ pids ps → findPolicy S'.policies id = findPolicy S.policies id) ∧
        (∀ id, hasPolicy S' id = true → hasPolicy S id = true) ∧
        ((pids S.policies).Nodup → (pids S'.policies).Nodup) ∧
        (∀ pa ∈ ps, match findPolicyLast T.policies pa.id with
          | none => findPolicy S'.policies pa.id = none
          | some pb => Realised ctx (overA ctx T ps st).1.nod S' pa.id pb.rules) := by
  intro ps
  induction ps with
  | nil =>
    intro S st _ hinv _ _ _
    exact ⟨S, rfl, hinv, Mono.refl _, rfl, GroupsLE.refl _, fun _ _ => rfl, fun _ h => h, fun h => h, by simp⟩
  | cons pa rest ih =>
    intro S st hnd hinv hA hB habort
    have hnd0 : (pa.id :: pids rest).Nodup := hnd
    obtain ⟨hpa_notin, hnd'⟩ := List.nodup_cons.mp hnd0
    have hne_rest : ∀ p' ∈ rest, p'.id ≠ pa.id := fun p' hp' e =>
      hpa_notin (by rw [← e]; exact List.mem_map_of_mem (f := (·.id)) hp')
    unfold overA at habort ⊢
    cases hT : findPolicyLast T.policies pa.id with
    | none =>
      simp only [hT] at habort ⊢
      obtain ⟨p0, hp0, _, _, _⟩ := hA pa List.mem_cons_self
      have hhas : hasPolicy S pa.id = true := hasPolicy_iff.mpr ⟨p0, hp0⟩
      let S1 : Store := { S with policies := S.policies.filter (·.id != pa.id) }
      have hex : exec S (.deletePolicy pa.id) = .ok S1 := by simp [exec, hhas, S1]
      have hf1 : ∀ id, id ≠ pa.id → findPolicy S1.policies id = findPolicy S.policies id :=
        fun id h => findPolicy_filter_ne S.policies pa.id id h
      obtain ⟨S', hrun, hinv', hmono, hsv, hle, hframe, hnonew, hndp, hres⟩ :=
        ih S1 st hnd' hinv
          (fun p' hp' => (hA p' (List.mem_cons_of_mem _ hp')).mono (hf1 _ (hne_rest p' hp')) rfl (GroupsLE.refl _))
          (fun pb hpb => (hB pb hpb).mono rfl (GroupsLE.refl _)) habort
      refine ⟨S', ?_, hinv', hmono, hsv, hle, ?_, ?_, ?_, ?_⟩
      · simp only [run, hex]; exact hrun
      · intro id hid
        have h1 : id ≠ pa.id := fun e => hid (e ▸ List.mem_cons_self)
        have h2 : id ∉ pids rest := fun h => hid (List.mem_cons_of_mem _ h)
        rw [hframe id h2, hf1 id h1]
      · intro id h
        have := hnonew id h
        rw [hasPolicy_iff] at this ⊢
        obtain ⟨p, hp⟩ := this
        by_cases e : id = pa.id
        · exact e ▸ ⟨p0, hp0⟩
        · exact ⟨p, by rw [← hf1 id e]; exact hp⟩
      · intro h
        apply hndp
        show (pids (S.policies.filter (·.id != pa.id))).Nodup
        exact (List.Sublist.map _ (List.filter_sublist)).nodup h
      · intro p' hp'
        rcases List.mem_cons.mp hp' with e | e
        · subst e
          rw [hT]
          show findPolicy S'.policies p'.id = none
          rw [hframe p'.id hpa_notin]
          exact findPolicy_filter_self _ _
        · exact hres p' e
    | some pb =>
      simp only [hT] at habort ⊢
      obtain ⟨hpbm, _⟩ := findPolicyLast_mem hT
      obtain ⟨p0, hp0, hr0, haids, haRefs⟩ := hA pa List.mem_cons_self
      obtain ⟨hbids, hbRefs⟩ := hB pb hpbm
      have hab1 : (diffRules ctx st pa pb).1.abort = none := by
        have : ∀ (ps : List Policy) (st : PSt), (overA ctx T ps st).1.abort = none → st.abort = none := by
          intro ps
          induction ps with
          | nil => intro st h; simpa [overA] using h
          | cons q qs ihq =>
            intro st h
            unfold overA at h
            cases hq : findPolicyLast T.policies q.id with
            | none => simp only [hq] at h; exact ihq st h
            | some qb =>
              simp only [hq] at h
              have h1 := ihq _ h
              -- abort is only ever set, never cleared, inside diffRules
              unfold diffRules at h1
              cases hg : genUniqRules (q.rules.map (·.id)) qb.rules with
              | none => simp [hg] at h1
              | some bR => simp only [hg] at h1; exact stepItems_abort h1
        exact this rest _ habort
      obtain ⟨S1, L, B, bR, hrun1, hinv1, hmono1, hfr1, hpol1, hreal1, hperm1, hsame1⟩ :=
        diffRules_spec hc hdiff S st pa pb p0 hinv hp0 hr0 haids hbids haRefs hbRefs hab1
      generalize hD : diffRules ctx st pa pb = D at *
      obtain ⟨st1, c1⟩ := D
      simp only at hrun1 hinv1 hmono1 hreal1 habort
      obtain ⟨S', hrun, hinv', hmono, hsv, hle, hframe, hnonew, hndp, hres⟩ :=
        ih S1 st1 hnd' hinv1
          (fun p' hp' => (hA p' (List.mem_cons_of_mem _ hp')).mono
            (stepFrame_findPolicy_ne hfr1 (hne_rest p' hp')) hfr1.services hfr1.groups)
          (fun pb' hpb' => (hB pb' hpb').mono hfr1.services hfr1.groups) habort
      refine ⟨S', ?_, hinv', hmono1.trans hmono, hsv.trans hfr1.services, hfr1.groups.trans hle, ?_, ?_, ?_, ?_⟩
      · rw [run_append hrun1]; exact hrun
      · intro id hid
        have h1 : id ≠ pa.id := fun e => hid (e ▸ List.mem_cons_self)
        have h2 : id ∉ pids rest := fun h => hid (List.mem_cons_of_mem _ h)
        rw [hframe id h2, stepFrame_findPolicy_ne hfr1 h1]
      · intro id h
        have := hnonew id h
        rwa [stepFrame_hasPolicy hfr1] at this
      · intro h
        apply hndp
        rw [stepFrame_pids hfr1]; exact h
      · intro p' hp'
        rcases List.mem_cons.mp hp' with e | e
        · subst e
          rw [hT]
          obtain ⟨p1, hp1, hperm⟩ := hpol1
          exact Realised.transport (st := st1) ⟨p1, L, B, bR, hp1, hperm, hreal1, hperm1, hsame1⟩ hmono
            (hframe p'.id hpa_notin)
        · exact hres p' e


/-- The loop over the target policies the device does not have. -/
theorem overB_spec {ctx : Ctx} {G0 : List Group} (hc : CtxOK ctx G0) (A : Config) :
    ∀ (ps : List Policy) (S : Store) (st : PSt), (pids ps).Nodup → GInv ctx G0 S.groups st →
      (∀ pb ∈ ps, BPolOK ctx S pb) →
      (∀ pb ∈ ps, A.policies.any (·.id == pb.id) = false → hasPolicy S pb.id = false) →
      ∃ S', run S (overB ctx A ps st).2 = some S' ∧ GInv ctx G0 S'.groups (overB ctx A ps st).1 ∧
        Mono st (overB ctx A ps st).1 ∧ S'.services = S.services ∧ GroupsLE S S' ∧
        (∀ id, id ∉ pids ps ∨ A.policies.any (·.id == id) = true →
          findPolicy S'.policies id = findPolicy S.policies id) ∧
        (∀ id, hasPolicy S' id = true → hasPolicy S id = true ∨ id ∈ pids ps) ∧
        ((pids S.policies).Nodup → (pids S'.policies).Nodup) ∧
        (∀ pb ∈ ps, A.policies.any (·.id == pb.id) = false →
          Realised ctx (overB ctx A ps st).1.nod S' pb.id pb.rules) := by
  intro ps
  induction ps with
  | nil =>
    intro S st _ hinv _ _
    exact ⟨S, rfl, hinv, Mono.refl _, rfl, GroupsLE.refl _, fun _ _ => rfl, fun _ h => Or.inl h, fun h => h, by simp⟩
  | cons pb rest ih =>
    intro S st hnd hinv hB hnew
    have hnd0 : (pb.id :: pids rest).Nodup := hnd
    obtain ⟨hpb_notin, hnd'⟩ := List.nodup_cons.mp hnd0
    have hne_rest : ∀ p' ∈ rest, p'.id ≠ pb.id := fun p' hp' e =>
      hpb_notin (by rw [← e]; exact List.mem_map_of_mem (f := (·.id)) hp')
    unfold overB
    cases hA : A.policies.any (·.id == pb.id) with
    | true =>
      simp only [if_true]
      obtain ⟨S', hrun, hinv', hmono, hsv, hle, hframe, hnonew, hndp, hres⟩ :=
        ih S st hnd' hinv (fun p' hp' => hB p' (List.mem_cons_of_mem _ hp'))
          (fun p' hp' h => hnew p' (List.mem_cons_of_mem _ hp') h)
      refine ⟨S', hrun, hinv', hmono, hsv, hle, ?_, ?_, hndp, ?_⟩
      · intro id hid
        apply hframe
        rcases hid with hid | hid
        · exact Or.inl fun h => hid (List.mem_cons_of_mem _ h)
        · exact Or.inr hid
      · intro id h
        rcases hnonew id h with h' | h'
        · exact Or.inl h'
        · exact Or.inr (List.mem_cons_of_mem _ h')
      · intro p' hp' hA'
        rcases List.mem_cons.mp hp' with e | e
        · subst e; rw [hA] at hA'; cases hA'
        · exact hres p' e hA'
    | false =>
      simp only [Bool.false_eq_true, if_false]
      obtain ⟨hbids, hbRefs⟩ := hB pb List.mem_cons_self
      obtain ⟨S1, L, hrun1, hinv1, hmono1, hsv1, hpol1, hle1, hreal1⟩ :=
        createPolicy_spec hc S st pb hinv (hnew pb List.mem_cons_self hA) hbids hbRefs
      generalize hC : createPolicy ctx st pb = C at *
      obtain ⟨st1, c1⟩ := C
      simp only at hrun1 hinv1 hmono1 hreal1
      have hf1 : ∀ id, id ≠ pb.id → findPolicy S1.policies id = findPolicy S.policies id := by
        intro id hne
        rw [hpol1, findPolicy_append_single]
        have : (pb.id == id) = false := by simpa using fun e => hne e.symm
        simp [this]
      have hself : findPolicy S1.policies pb.id = some ⟨pb.id, L⟩ := by
        rw [hpol1, findPolicy_append_single, hasPolicy_false_iff.mp (hnew pb List.mem_cons_self hA)]
        simp
      obtain ⟨S', hrun, hinv', hmono, hsv, hle, hframe, hnonew, hndp, hres⟩ :=
        ih S1 st1 hnd' hinv1 (fun p' hp' => (hB p' (List.mem_cons_of_mem _ hp')).mono hsv1 hle1)
          (fun p' hp' h => by
            rw [hasPolicy_false_iff, hf1 _ (hne_rest p' hp'), ← hasPolicy_false_iff]
            exact hnew p' (List.mem_cons_of_mem _ hp') h)
      refine ⟨S', ?_, hinv', hmono1.trans hmono, hsv.trans hsv1, hle1.trans hle, ?_, ?_, ?_, ?_⟩
      · rw [run_append hrun1]; exact hrun
      · intro id hid
        have h1 : id ≠ pb.id := by
          rcases hid with hid | hid
          · exact fun e => hid (e ▸ List.mem_cons_self)
          · exact fun e => by rw [e, hA] at hid; cases hid
        have h2 : id ∉ pids rest ∨ A.policies.any (·.id == id) = true := by
          rcases hid with hid | hid
          · exact Or.inl fun h => hid (List.mem_cons_of_mem _ h)
          · exact Or.inr hid
        rw [hframe id h2, hf1 id h1]
      · intro id h
        rcases hnonew id h with h' | h'
        · by_cases e : id = pb.id
          · exact Or.inr (e ▸ List.mem_cons_self)
          · rw [hasPolicy_iff] at h' ⊢
            obtain ⟨p, hp⟩ := h'
            exact Or.inl ⟨p, by rw [← hf1 id e]; exact hp⟩
        · exact Or.inr (List.mem_cons_of_mem _ h')
      · intro h
        apply hndp
        rw [hpol1]
        simp only [pids, List.map_append, List.map_cons, List.map_nil]
        rw [List.nodup_append]
        refine ⟨h, by simp, ?_⟩
        intro a ha b hb e
        simp at hb; subst hb; subst e
        have := hnew pb List.mem_cons_self hA
        rw [Bool.eq_false_iff] at this
        exact this (hasPolicy_mem.mpr ha)
      · intro p' hp' hA'
        rcases List.mem_cons.mp hp' with e | e
        · subst e
          refine Realised.transport (st := st1) ⟨⟨p'.id, L⟩, L, p'.rules, p'.rules, hself, List.Perm.refl _, hreal1,
            List.Perm.refl _, Forall2_SameButId_refl _⟩ hmono (hframe p'.id (Or.inl hpb_notin))
        · exact hres p' e hA'


/-! ### Services -/

def sids (ss : List Service) : List String := ss.map (·.id)

theorem hasService_iff {S : Store} {id : String} : hasService S id = true ↔ id ∈ sids S.services := by
  unfold hasService sids
  rw [List.any_eq_true]
  constructor
  · rintro ⟨s, hs, he⟩; exact List.mem_map.mpr ⟨s, hs, by simpa using he⟩
  · intro h
    obtain ⟨s, hs, he⟩ := List.mem_map.mp h
    exact ⟨s, hs, by simpa using he⟩

theorem findService_none_iff {ss : List Service} {id : String} : findService ss id = none ↔ id ∉ sids ss := by
  unfold findService sids
  rw [List.find?_eq_none]
  constructor
  · intro h hm
    obtain ⟨s, hs, he⟩ := List.mem_map.mp hm
    exact h s hs (by simpa using he)
  · intro h s hs he
    exact h (List.mem_map.mpr ⟨s, hs, by simpa using he⟩)

theorem findService_some {ss : List Service} {id : String} {s : Service} (h : findService ss id = some s) :
    s ∈ ss ∧ s.id = id := by
  unfold findService at h
  exact ⟨List.mem_of_find?_eq_some h, by simpa using List.find?_some h⟩

theorem findService_append_single (ss : List Service) (q : Service) (id : String) :
    findService (ss ++ [q]) id = (findService ss id).or (if q.id == id then some q else none) := by
  unfold findService
  rw [List.find?_append]
  cases hq : (q.id == id) <;> simp [List.find?_cons, hq]

theorem findService_map_set (ss : List Service) (sid d id : String) :
    findService (ss.map fun s => if s.id == sid then ⟨sid, d⟩ else s) id =
      if id = sid then (findService ss sid).map (fun _ => ⟨sid, d⟩) else findService ss id := by
  unfold findService
  rw [List.find?_map]
  by_cases h : id = sid
  · subst h
    simp only [if_true]
    have hp : ((fun x : Service => x.id == id) ∘ fun s => if s.id == id then (⟨id, d⟩ : Service) else s) =
        fun x => x.id == id := by
      funext s
      simp only [Function.comp]
      by_cases hs : s.id = id <;> simp [hs]
    rw [hp]
    cases hf : List.find? (fun x : Service => x.id == id) ss with
    | none => rfl
    | some s =>
      have : s.id = id := by simpa using List.find?_some hf
      simp [this]
  · simp only [h, if_false]
    have hp : ((fun x : Service => x.id == id) ∘ fun s => if s.id == sid then (⟨sid, d⟩ : Service) else s) =
        fun x => x.id == id := by
      funext s
      simp only [Function.comp]
      by_cases hs : s.id = sid
      · have h1 : (sid == id) = false := by simpa using fun e => h e.symm
        simp [hs, h1]
      · simp [hs]
    rw [hp]
    cases hf : List.find? (fun x : Service => x.id == id) ss with
    | none => rfl
    | some s =>
      have hid : s.id = id := by simpa using List.find?_some hf
      have : s.id ≠ sid := by rw [hid]; exact h
      simp [this]

theorem findService_cons (sb : Service) (rest : List Service) (id : String) :
    findService (sb :: rest) id = if sb.id = id then some sb else findService rest id := by
  unfold findService
  by_cases h : sb.id = id <;> simp [List.find?_cons, h]

theorem exec_putService {S : Store} {id d : String} (h : hasService S id = false) :
    exec S (.putService id d) = .ok { S with services := S.services ++ [⟨id, d⟩] } := by
  simp [exec, h]

theorem exec_patchService {S : Store} {id d : String} (h : hasService S id = true) :
    exec S (.patchService id d) =
      .ok { S with services := S.services.map fun s => if s.id == id then ⟨id, d⟩ else s } := by
  simp [exec, h]

theorem planSvc_cons_seen (aS : List Service) (sb : Service) (rest : List Service) (seen : List String)
    (h : seen.contains sb.id = true) : planSvc aS (sb :: rest) seen = planSvc aS rest seen := by
  simp only [planSvc, h, if_true]

theorem planSvc_cons_new (aS : List Service) (sb : Service) (rest : List Service) (seen : List String)
    (h : seen.contains sb.id = false) :
    planSvc aS (sb :: rest) seen =
      ((match findService aS.reverse sb.id with
          | some sa => if sa.defn == sb.defn then [] else [Call.patchService sb.id sb.defn]
          | none => [Call.putService sb.id sb.defn]) ++ (planSvc aS rest (sb.id :: seen)).1,
       (match findService aS.reverse sb.id with
          | some _ => [sb.id]
          | none => []) ++ (planSvc aS rest (sb.id :: seen)).2) := by
  simp only [planSvc, h, Bool.false_eq_true, if_false]
  cases hfa : findService aS.reverse sb.id with
  | none => rfl
  | some sa =>
    simp only
    by_cases hd : (sa.defn == sb.defn) = true <;> simp [hd]

/-- `addNewServices`: all calls are accepted; every target service not yet seen ends up with the
definition of its first occurrence in the target; nothing else about services changes; `needed`
are the device services the target defines. -/
theorem planSvc_spec (aS : List Service) :
    ∀ (bS : List Service) (seen : List String) (S : Store),
      (∀ sb ∈ bS, sb.id ∉ seen → findService aS.reverse sb.id = none → hasService S sb.id = false) →
      (∀ sb ∈ bS, sb.id ∉ seen → ∀ sa, findService aS.reverse sb.id = some sa →
        (findService S.services sb.id).map (·.defn) = some sa.defn) →
      ∃ S', run S (planSvc aS bS seen).1 = some S' ∧ S'.groups = S.groups ∧ S'.policies = S.policies ∧
        (∀ id, hasService S id = true → hasService S' id = true) ∧
        (∀ id, hasService S' id = true → hasService S id = true ∨ id ∈ sids bS) ∧
        (∀ id, id ∈ seen ∨ id ∉ sids bS → findService S'.services id = findService S.services id) ∧
        (∀ id, id ∉ seen → id ∈ sids bS →
          (findService S'.services id).map (·.defn) = (findService bS id).map (·.defn)) ∧
        (∀ x, x ∈ (planSvc aS bS seen).2 ↔ x ∈ sids bS ∧ x ∉ seen ∧ (findService aS.reverse x).isSome = true) := by
  intro bS
  induction bS with
  | nil =>
    intro seen S _ _
    exact ⟨S, rfl, rfl, rfl, fun _ h => h, fun _ h => Or.inl h, fun _ _ => rfl, by simp [sids], by simp [planSvc, sids]⟩
  | cons sb rest ih =>
    intro seen S hnew hold
    by_cases hseen : seen.contains sb.id = true
    · -- duplicate of a target service already handled
      rw [planSvc_cons_seen aS sb rest seen hseen]
      have hmem : sb.id ∈ seen := by simpa using hseen
      obtain ⟨S', hrun, hg, hp, hmono, hnonew, hframe, hdef, hneeded⟩ :=
        ih seen S (fun s hs => hnew s (List.mem_cons_of_mem _ hs)) (fun s hs => hold s (List.mem_cons_of_mem _ hs))
      refine ⟨S', hrun, hg, hp, hmono, ?_, ?_, ?_, ?_⟩
      · intro id h
        rcases hnonew id h with h' | h'
        · exact Or.inl h'
        · exact Or.inr (List.mem_cons_of_mem _ h')
      · intro id h
        apply hframe
        rcases h with h | h
        · exact Or.inl h
        · exact Or.inr fun hm => h (List.mem_cons_of_mem _ hm)
      · intro id hns hin
        have hne : sb.id ≠ id := fun e => hns (e ▸ hmem)
        rw [findService_cons, if_neg hne]
        rcases List.mem_cons.mp hin with e | e
        · exact absurd e.symm hne
        · exact hdef id hns e
      · intro x
        rw [hneeded x]
        constructor
        · rintro ⟨h1, h2, h3⟩; exact ⟨List.mem_cons_of_mem _ h1, h2, h3⟩
        · rintro ⟨h1, h2, h3⟩
          refine ⟨?_, h2, h3⟩
          rcases List.mem_cons.mp h1 with e | e
          · exact absurd (e ▸ hmem) h2
          · exact e
    · have hseen' : seen.contains sb.id = false := Bool.eq_false_iff.mpr hseen
      have hnot : sb.id ∉ seen := by simpa using hseen'
      rw [planSvc_cons_new aS sb rest seen hseen']
      simp only
      -- the store after the head call
      have hhead : ∃ S1 c1, (match findService aS.reverse sb.id with
            | some sa => if sa.defn == sb.defn then ([] : List Call) else [.patchService sb.id sb.defn]
            | none => [.putService sb.id sb.defn]) = c1 ∧ run S c1 = some S1 ∧
          S1.groups = S.groups ∧ S1.policies = S.policies ∧
          (∀ id, hasService S1 id = true ↔ hasService S id = true ∨ id = sb.id) ∧
          (∀ id, id ≠ sb.id → findService S1.services id = findService S.services id) ∧
          (findService S1.services sb.id).map (·.defn) = some sb.defn := by
        cases hfa : findService aS.reverse sb.id with
        | some sa =>
          have hdefS := hold sb List.mem_cons_self hnot sa hfa
          obtain ⟨s0, hs0⟩ : ∃ s0, findService S.services sb.id = some s0 := by
            cases hf : findService S.services sb.id with
            | none => rw [hf] at hdefS; cases hdefS
            | some s0 => exact ⟨s0, rfl⟩
          have hon : hasService S sb.id = true := hasService_iff.mpr (by
            have := findService_some hs0
            exact this.2 ▸ List.mem_map_of_mem (f := (·.id)) this.1)
          by_cases hd : sa.defn = sb.defn
          · refine ⟨S, [], by simp [hd], rfl, rfl, rfl, ?_, fun _ _ => rfl, by rw [hdefS, hd]⟩
            intro id
            constructor
            · exact fun h => Or.inl h
            · rintro (h | h)
              · exact h
              · exact h ▸ hon
          · have hd' : (sa.defn == sb.defn) = false := by simpa using hd
            refine ⟨_, [.patchService sb.id sb.defn], by simp [hd'], run_single (exec_patchService hon), rfl, rfl,
              ?_, ?_, ?_⟩
            · intro id
              simp only [hasService_iff, sids, List.map_map]
              have : (List.map ((fun x : Service => x.id) ∘ fun s => if s.id == sb.id then ⟨sb.id, sb.defn⟩ else s)
                  S.services) = List.map (·.id) S.services := by
                apply List.map_congr_left
                intro s _
                simp only [Function.comp]
                by_cases hs : s.id = sb.id <;> simp [hs]
              rw [this]
              constructor
              · exact fun h => Or.inl h
              · rintro (h | h)
                · exact h
                · exact h ▸ hasService_iff.mp hon
            · intro id hne
              show findService (S.services.map _) id = _
              rw [findService_map_set, if_neg hne]
            · show (findService (S.services.map _) sb.id).map _ = _
              rw [findService_map_set, if_pos rfl, hs0]; rfl
        | none =>
          have hoff : hasService S sb.id = false := hnew sb List.mem_cons_self hnot hfa
          refine ⟨_, [.putService sb.id sb.defn], rfl, run_single (exec_putService hoff), rfl, rfl, ?_, ?_, ?_⟩
          · intro id
            simp only [hasService_iff, sids, List.map_append, List.mem_append, List.map_cons, List.map_nil,
              List.mem_singleton]
          · intro id hne
            show findService (S.services ++ [_]) id = _
            rw [findService_append_single]
            have : (sb.id == id) = false := by simpa using fun e => hne e.symm
            simp [this]
          · show (findService (S.services ++ [_]) sb.id).map _ = _
            rw [findService_append_single, findService_none_iff.mpr (fun h => by
              rw [← hasService_iff, hoff] at h; cases h)]
            simp
      obtain ⟨S1, c1, hc1, hrun1, hg1, hp1, hhas1, hfr1, hdef1⟩ := hhead
      obtain ⟨S', hrun, hg, hp, hmono, hnonew, hframe, hdef, hneeded⟩ :=
        ih (sb.id :: seen) S1
          (fun s hs hns hfa => by
            have hne : s.id ≠ sb.id := fun e => hns (e ▸ List.mem_cons_self)
            have := hnew s (List.mem_cons_of_mem _ hs) (fun h => hns (List.mem_cons_of_mem _ h)) hfa
            rw [Bool.eq_false_iff] at this ⊢
            intro h
            rcases (hhas1 s.id).mp h with h' | h'
            · exact this h'
            · exact hne h')
          (fun s hs hns sa hfa => by
            have hne : s.id ≠ sb.id := fun e => hns (e ▸ List.mem_cons_self)
            rw [hfr1 s.id hne]
            exact hold s (List.mem_cons_of_mem _ hs) (fun h => hns (List.mem_cons_of_mem _ h)) sa hfa)
      -- assemble
      have hneededEq : ∀ x, x ∈ ((match findService aS.reverse sb.id with
            | some _ => [sb.id]
            | none => []) ++ (planSvc aS rest (sb.id :: seen)).2) ↔
          (x = sb.id ∧ (findService aS.reverse sb.id).isSome = true) ∨ x ∈ (planSvc aS rest (sb.id :: seen)).2 := by
        intro x
        cases hfa : findService aS.reverse sb.id with
        | none => simp
        | some sa => simp
      refine ⟨S', ?_, hg.trans hg1, hp.trans hp1, ?_, ?_, ?_, ?_, ?_⟩
      · rw [hc1, run_append hrun1]; exact hrun
      · intro id h
        exact hmono id ((hhas1 id).mpr (Or.inl h))
      · intro id h
        rcases hnonew id h with h' | h'
        · rcases (hhas1 id).mp h' with h'' | h''
          · exact Or.inl h''
          · exact Or.inr (h'' ▸ List.mem_cons_self)
        · exact Or.inr (List.mem_cons_of_mem _ h')
      · intro id h
        have hne : id ≠ sb.id := by
          rcases h with h | h
          · exact fun e => hnot (e ▸ h)
          · exact fun e => h (e ▸ List.mem_cons_self)
        rw [hframe id (by
          rcases h with h | h
          · exact Or.inl (List.mem_cons_of_mem _ h)
          · exact Or.inr fun hm => h (List.mem_cons_of_mem _ hm)), hfr1 id hne]
      · intro id hns hin
        rw [findService_cons]
        by_cases e : sb.id = id
        · subst e
          rw [if_pos rfl, hframe sb.id (Or.inl List.mem_cons_self)]
          exact hdef1
        · rw [if_neg e]
          rcases List.mem_cons.mp hin with e' | e'
          · exact absurd e'.symm e
          · exact hdef id (fun h => by
              rcases List.mem_cons.mp h with h | h
              · exact e h.symm
              · exact hns h) e'
      · intro x
        rw [hneededEq x, hneeded x]
        constructor
        · rintro (⟨h1, h2⟩ | ⟨h1, h2, h3⟩)
          · subst h1; exact ⟨List.mem_cons_self, hnot, h2⟩
          · exact ⟨List.mem_cons_of_mem _ h1, fun h => h2 (List.mem_cons_of_mem _ h), h3⟩
        · rintro ⟨h1, h2, h3⟩
          by_cases e : x = sb.id
          · exact Or.inl ⟨e, e ▸ h3⟩
          · refine Or.inr ⟨?_, ?_, h3⟩
            · rcases List.mem_cons.mp h1 with h | h
              · exact absurd h e
              · exact h
            · intro h
              rcases List.mem_cons.mp h with h | h
              · exact e h
              · exact h2 h


/-! ### Removal of what is no longer needed -/

theorem delServices_spec :
    ∀ (ds : List String) (S : Store), (∀ id ∈ ds, hasService S id = true ∧ serviceUsed S id = false) → ds.Nodup →
      ∃ S', run S (ds.map Call.deleteService) = some S' ∧ S'.groups = S.groups ∧ S'.policies = S.policies ∧
        S'.services = S.services.filter (fun s => !ds.contains s.id) := by
  intro ds
  induction ds with
  | nil =>
    intro S _ _
    refine ⟨S, rfl, rfl, rfl, ?_⟩
    simp only [List.contains_nil, Bool.not_false]
    exact (List.filter_eq_self.mpr fun _ _ => rfl).symm
  | cons d rest ih =>
    intro S h hn
    obtain ⟨hd, hrest⟩ := List.nodup_cons.mp hn
    obtain ⟨h1, h2⟩ := h d List.mem_cons_self
    let S1 : Store := { S with services := S.services.filter (·.id != d) }
    have hex : exec S (.deleteService d) = .ok S1 := by simp [exec, h1, h2, S1]
    obtain ⟨S', hrun, hg, hp, hs⟩ := ih S1 (by
      intro id hid
      obtain ⟨h3, h4⟩ := h id (List.mem_cons_of_mem _ hid)
      refine ⟨?_, h4⟩
      rw [hasService_iff] at h3 ⊢
      obtain ⟨s, hs, he⟩ := List.mem_map.mp h3
      refine List.mem_map.mpr ⟨s, List.mem_filter.mpr ⟨hs, ?_⟩, he⟩
      have : s.id ≠ d := by rw [he]; exact fun e => hd (e ▸ hid)
      simpa using this) hrest
    refine ⟨S', by simp only [List.map_cons, run, hex]; exact hrun, hg, hp, ?_⟩
    rw [hs]
    show (S.services.filter (·.id != d)).filter _ = _
    rw [List.filter_filter]
    apply List.filter_congr
    intro s _
    by_cases e : s.id = d <;> simp [e]

theorem delGroups_spec :
    ∀ (ds : List String) (S : Store), (∀ id ∈ ds, hasGroup S id = true ∧ groupUsed S id = false) → ds.Nodup →
      ∃ S', run S (ds.map Call.deleteGroup) = some S' ∧ S'.services = S.services ∧ S'.policies = S.policies ∧
        S'.groups = S.groups.filter (fun g => !ds.contains g.id) := by
  intro ds
  induction ds with
  | nil =>
    intro S _ _
    refine ⟨S, rfl, rfl, rfl, ?_⟩
    simp only [List.contains_nil, Bool.not_false]
    exact (List.filter_eq_self.mpr fun _ _ => rfl).symm
  | cons d rest ih =>
    intro S h hn
    obtain ⟨hd, hrest⟩ := List.nodup_cons.mp hn
    obtain ⟨h1, h2⟩ := h d List.mem_cons_self
    let S1 : Store := { S with groups := S.groups.filter (·.id != d) }
    have hex : exec S (.deleteGroup d) = .ok S1 := by simp [exec, h1, h2, S1]
    obtain ⟨S', hrun, hsv, hp, hg⟩ := ih S1 (by
      intro id hid
      obtain ⟨h3, h4⟩ := h id (List.mem_cons_of_mem _ hid)
      refine ⟨?_, h4⟩
      rw [hasGroup_iff] at h3 ⊢
      obtain ⟨g, hg, he⟩ := List.mem_map.mp h3
      refine List.mem_map.mpr ⟨g, List.mem_filter.mpr ⟨hg, ?_⟩, he⟩
      have : g.id ≠ d := by rw [he]; exact fun e => hd (e ▸ hid)
      simpa using this) hrest
    refine ⟨S', by simp only [List.map_cons, run, hex]; exact hrun, hsv, hp, ?_⟩
    rw [hg]
    show (S.groups.filter (·.id != d)).filter _ = _
    rw [List.filter_filter]
    apply List.filter_congr
    intro g _
    by_cases e : g.id = d <;> simp [e]

end NA.Nsx
