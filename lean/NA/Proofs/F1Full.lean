import NA.Proofs.F1EndToEnd
/-!
# F1: the invariant of the whole run on the strict device (object-groups AND access lists)

`Full e st d` extends `Sem` by the access lists: original device ACLs exist; an ACL that is not `needed`
still has its original lines; a `ready` target ACL carries the name of an existing device ACL whose lines
match the target's (`AclOK`) and which nothing edits any more (`FrozenAcl`); a target ACL that is not `ready`
carries its generated name, which does not exist yet; every line of a frozen ACL references frozen groups.
-/
namespace NA.F1
open NA.AsaDev
open NA.Acl (Range)

abbrev A0 (e : Env) : List Name := e.a.acls.map (·.1)
def BAcls (e : Env) : List Name := e.b.acls.map (·.1)

def FrozenAcl (e : Env) (st : St) (X : Name) : Prop := X ∈ st.aNeeded ∨ X ∉ A0 e

def AclOK (e : Env) (st : St) (d : Dev) (ls : List RLine) (bl : List Line) : Prop :=
  ls.length = bl.length ∧ ∀ p ∈ ls.zip bl, LineOK e st d p.1 p.2

def NamesFrozen (e : Env) (st : St) (ls : List RLine) : Prop := ∀ l ∈ ls, ∀ x ∈ l.names, Frozen e st x

structure Full (e : Env) (st : St) (d : Dev) : Prop where
  sem : Sem e st d
  keysNodup : (d.acls.map (·.1)).Nodup
  devAcls : ∀ n ∈ A0 e, hasAcl d n = true
  untouched : ∀ n ∈ A0 e, n ∉ st.aNeeded → linesOf d n = (e.aLines n).map resolveA
  ready : ∀ bN ∈ st.aReady, hasAcl d (st.aNameOf bN) = true ∧
    AclOK e st d (linesOf d (st.aNameOf bN)) (e.bLines bN) ∧ FrozenAcl e st (st.aNameOf bN)
  unready : ∀ bN ∈ BAcls e, bN ∉ st.aReady →
    st.aNameOf bN = genName bN (A0 e) ∧ hasAcl d (genName bN (A0 e)) = false
  frozenLines : ∀ X, hasAcl d X = true → FrozenAcl e st X → NamesFrozen e st (linesOf d X)

/-- One step of the engine on the device: accepted commands, frozen groups and frozen access lists keep
their content, marks only grow, names of `ready` target ACLs stay. -/
structure Step (e : Env) (st : St) (d : Dev) (st' : St) (d' : Dev) : Prop where
  out : ∃ cs, st'.out = st.out ++ cs ∧ exec d cs = some d'
  gStable : ∀ x, hasGroup d x = true → Frozen e st x → hasGroup d' x = true ∧ membersOf d' x = membersOf d x
  gGrow : ∀ x ∈ st.gNeeded, x ∈ st'.gNeeded
  aStable : ∀ X, hasAcl d X = true → FrozenAcl e st X → hasAcl d' X = true ∧ linesOf d' X = linesOf d X
  aGrow : ∀ x ∈ st.aNeeded, x ∈ st'.aNeeded
  aReadyMono : ∀ bN ∈ st.aReady, bN ∈ st'.aReady ∧ st'.aNameOf bN = st.aNameOf bN
  intfs : d'.intfs = d.intfs

theorem FrozenAcl.mono {e : Env} {st st' : St} {X : Name} (h : FrozenAcl e st X) (hg : ∀ y ∈ st.aNeeded, y ∈ st'.aNeeded) :
    FrozenAcl e st' X := by
  rcases h with h | h
  · exact Or.inl (hg X h)
  · exact Or.inr h

theorem Step.refl (e : Env) (st : St) (d : Dev) : Step e st d st d :=
  ⟨⟨[], by simp, exec_nil d⟩, fun _ h _ => ⟨h, rfl⟩, fun _ h => h, fun _ h _ => ⟨h, rfl⟩, fun _ h => h,
   fun _ h => ⟨h, rfl⟩, rfl⟩

theorem Step.trans {e : Env} {s1 s2 s3 : St} {d1 d2 d3 : Dev} (h1 : Step e s1 d1 s2 d2) (h2 : Step e s2 d2 s3 d3) :
    Step e s1 d1 s3 d3 := by
  obtain ⟨c1, o1, e1⟩ := h1.out
  obtain ⟨c2, o2, e2⟩ := h2.out
  refine ⟨⟨c1 ++ c2, by rw [o2, o1, List.append_assoc], exec_append_some e1 e2⟩, ?_, ?_, ?_, ?_, ?_,
    h2.intfs.trans h1.intfs⟩
  · intro x hx hf
    obtain ⟨a1, a2⟩ := h1.gStable x hx hf
    obtain ⟨b1, b2⟩ := h2.gStable x a1 (hf.mono h1.gGrow)
    exact ⟨b1, b2.trans a2⟩
  · exact fun x hx => h2.gGrow x (h1.gGrow x hx)
  · intro X hX hf
    obtain ⟨a1, a2⟩ := h1.aStable X hX hf
    obtain ⟨b1, b2⟩ := h2.aStable X a1 (hf.mono h1.aGrow)
    exact ⟨b1, b2.trans a2⟩
  · exact fun x hx => h2.aGrow x (h1.aGrow x hx)
  · intro bN hb
    obtain ⟨a1, a2⟩ := h1.aReadyMono bN hb
    obtain ⟨b1, b2⟩ := h2.aReadyMono bN a1
    exact ⟨b1, b2.trans a2⟩

theorem GoodFrozen.step {e : Env} {st st' : St} {d d' : Dev} {x bN : Name} (h : GoodFrozen e st d x bN)
    (s : Step e st d st' d') : GoodFrozen e st' d' x bN := by
  obtain ⟨a1, a2⟩ := s.gStable x h.1 h.2.2
  exact ⟨a1, by rw [a2]; exact h.2.1, h.2.2.mono s.gGrow⟩

theorem LineOK.step {e : Env} {st st' : St} {d d' : Dev} {l : RLine} {b : Line} (h : LineOK e st d l b)
    (s : Step e st d st' d') : LineOK e st' d' l b :=
  ⟨h.1, h.2.1, fun p hp => (h.2.2 p hp).step s⟩

theorem AclOK.step {e : Env} {st st' : St} {d d' : Dev} {ls : List RLine} {bl : List Line} (h : AclOK e st d ls bl)
    (s : Step e st d st' d') : AclOK e st' d' ls bl :=
  ⟨h.1, fun p hp => (h.2 p hp).step s⟩

theorem NamesFrozen.mono {e : Env} {st st' : St} {ls : List RLine} (h : NamesFrozen e st ls)
    (hg : ∀ y ∈ st.gNeeded, y ∈ st'.gNeeded) : NamesFrozen e st' ls :=
  fun l hl x hx => (h l hl x hx).mono hg

/-- A step that touches only object-groups. -/
theorem GStep.toStep {e : Env} {st st' : St} {d d' : Dev} (g : GStep e st d st' d')
    (h1 : st'.aNeeded = st.aNeeded) (h2 : st'.aReady = st.aReady) (h3 : st'.aName = st.aName) : Step e st d st' d' :=
  ⟨g.out, fun x hx hf => ⟨g.hasMono x hx, g.stable x hx hf⟩, g.grow,
   fun X hX _ => ⟨by simpa [hasAcl, g.acls] using hX, by simp [linesOf, g.acls]⟩,
   fun x hx => by rw [h1]; exact hx, fun bN hb => ⟨by rw [h2]; exact hb, by simp [St.aNameOf, h3]⟩, g.intfs⟩

/-- A step that may rewrite access list `exc`. -/
structure StepX (e : Env) (st : St) (d : Dev) (st' : St) (d' : Dev) (exc : Name) : Prop where
  out : ∃ cs, st'.out = st.out ++ cs ∧ exec d cs = some d'
  gStable : ∀ x, hasGroup d x = true → Frozen e st x → hasGroup d' x = true ∧ membersOf d' x = membersOf d x
  gGrow : ∀ x ∈ st.gNeeded, x ∈ st'.gNeeded
  aStable : ∀ X, X ≠ exc → hasAcl d' X = hasAcl d X ∧ linesOf d' X = linesOf d X
  aGrow : ∀ x ∈ st.aNeeded, x ∈ st'.aNeeded
  aReadyMono : ∀ bN ∈ st.aReady, bN ∈ st'.aReady ∧ st'.aNameOf bN = st.aNameOf bN
  intfs : d'.intfs = d.intfs

theorem StepX.refl (e : Env) (st : St) (d : Dev) (exc : Name) : StepX e st d st d exc :=
  ⟨⟨[], by simp, exec_nil d⟩, fun _ h _ => ⟨h, rfl⟩, fun _ h => h, fun _ _ => ⟨rfl, rfl⟩, fun _ h => h,
   fun _ h => ⟨h, rfl⟩, rfl⟩

theorem StepX.trans {e : Env} {s1 s2 s3 : St} {d1 d2 d3 : Dev} {exc : Name}
    (h1 : StepX e s1 d1 s2 d2 exc) (h2 : StepX e s2 d2 s3 d3 exc) : StepX e s1 d1 s3 d3 exc := by
  obtain ⟨c1, o1, e1⟩ := h1.out
  obtain ⟨c2, o2, e2⟩ := h2.out
  refine ⟨⟨c1 ++ c2, by rw [o2, o1, List.append_assoc], exec_append_some e1 e2⟩, ?_, ?_, ?_, ?_, ?_,
    h2.intfs.trans h1.intfs⟩
  · intro x hx hf
    obtain ⟨a1, a2⟩ := h1.gStable x hx hf
    obtain ⟨b1, b2⟩ := h2.gStable x a1 (hf.mono h1.gGrow)
    exact ⟨b1, b2.trans a2⟩
  · exact fun x hx => h2.gGrow x (h1.gGrow x hx)
  · intro X hX
    obtain ⟨a1, a2⟩ := h1.aStable X hX
    obtain ⟨b1, b2⟩ := h2.aStable X hX
    exact ⟨b1.trans a1, b2.trans a2⟩
  · exact fun x hx => h2.aGrow x (h1.aGrow x hx)
  · intro bN hb
    obtain ⟨a1, a2⟩ := h1.aReadyMono bN hb
    obtain ⟨b1, b2⟩ := h2.aReadyMono bN a1
    exact ⟨b1, b2.trans a2⟩

/-- If `exc` was not an existing frozen access list, the step is a `Step`. -/
theorem StepX.toStep {e : Env} {st st' : St} {d d' : Dev} {exc : Name} (h : StepX e st d st' d' exc)
    (hx : ¬ (hasAcl d exc = true ∧ FrozenAcl e st exc)) : Step e st d st' d' :=
  ⟨h.out, h.gStable, h.gGrow, fun X hX hf => by
    have hne : X ≠ exc := fun e1 => hx ⟨e1 ▸ hX, e1 ▸ hf⟩
    obtain ⟨a1, a2⟩ := h.aStable X hne
    exact ⟨by rw [a1]; exact hX, a2⟩, h.aGrow, h.aReadyMono, h.intfs⟩

theorem GStep.toStepX {e : Env} {st st' : St} {d d' : Dev} (g : GStep e st d st' d')
    (h1 : st'.aNeeded = st.aNeeded) (h2 : st'.aReady = st.aReady) (h3 : st'.aName = st.aName) (exc : Name) :
    StepX e st d st' d' exc :=
  ⟨g.out, fun x hx hf => ⟨g.hasMono x hx, g.stable x hx hf⟩, g.grow,
   fun X _ => ⟨by simp [hasAcl, g.acls], by simp [linesOf, g.acls]⟩,
   fun x hx => by rw [h1]; exact hx, fun bN hb => ⟨by rw [h2]; exact hb, by simp [St.aNameOf, h3]⟩, g.intfs⟩

/-- Re-establishing `Full` after a step that rewrites or creates ONE access list `X0`, which becomes the
access list of target ACL `bN0`. -/
theorem Full.update {e : Env} {st st' : St} {d d' : Dev} (hF : Full e st d) (s : Step e st d st' d')
    (sem' : Sem e st' d') (X0 bN0 : Name)
    (hkeys : (d'.acls.map (·.1)).Nodup)
    (hothers : ∀ n, n ≠ X0 → hasAcl d' n = hasAcl d n ∧ linesOf d' n = linesOf d n)
    (hX0 : hasAcl d' X0 = true ∧ AclOK e st' d' (linesOf d' X0) (e.bLines bN0) ∧ FrozenAcl e st' X0 ∧
      NamesFrozen e st' (linesOf d' X0))
    (hneeded : ∀ x ∈ st'.aNeeded, x ∈ st.aNeeded ∨ x = X0)
    (hready : ∀ bN, bN ∈ st'.aReady ↔ bN = bN0 ∨ bN ∈ st.aReady)
    (hname0 : st'.aNameOf bN0 = X0)
    (hnames : ∀ bN, bN ≠ bN0 → st'.aNameOf bN = st.aNameOf bN)
    (hfresh : ¬ (hasAcl d X0 = true ∧ FrozenAcl e st X0))
    (hkind : X0 ∈ A0 e ∨ X0 = genName bN0 (A0 e)) : Full e st' d' := by
  refine ⟨sem', hkeys, ?_, ?_, ?_, ?_, ?_⟩
  · intro n hn
    by_cases e1 : n = X0
    · rw [e1]; exact hX0.1
    · rw [(hothers n e1).1]; exact hF.devAcls n hn
  · intro n hn hnn
    have hn0 : n ∉ st.aNeeded := fun hx => hnn (s.aGrow n hx)
    have e1 : n ≠ X0 := by
      intro e1
      rcases hX0.2.2.1 with h1 | h1
      · exact hnn (e1 ▸ h1)
      · exact h1 (e1 ▸ hn)
    rw [(hothers n e1).2]; exact hF.untouched n hn hn0
  · intro bN hb
    by_cases e1 : bN = bN0
    · rw [e1, hname0]; exact ⟨hX0.1, hX0.2.1, hX0.2.2.1⟩
    · have hb0 : bN ∈ st.aReady := by
        rcases (hready bN).mp hb with h1 | h1
        · exact absurd h1 e1
        · exact h1
      obtain ⟨r1, r2, r3⟩ := hF.ready bN hb0
      rw [hnames bN e1]
      have hx : st.aNameOf bN ≠ X0 := fun e2 => hfresh ⟨e2 ▸ r1, e2 ▸ r3⟩
      obtain ⟨o1, o2⟩ := hothers _ hx
      exact ⟨by rw [o1]; exact r1, by rw [o2]; exact r2.step s, r3.mono s.aGrow⟩
  · intro bN hbB hb
    have e1 : bN ≠ bN0 := fun e1 => hb ((hready bN).mpr (Or.inl e1))
    have hb0 : bN ∉ st.aReady := fun hx => hb ((hready bN).mpr (Or.inr hx))
    obtain ⟨u1, u2⟩ := hF.unready bN hbB hb0
    rw [hnames bN e1]
    refine ⟨u1, ?_⟩
    have hx : genName bN (A0 e) ≠ X0 := by
      intro e2
      rcases hkind with h1 | h1
      · exact genName_fresh bN (A0 e) (e2 ▸ h1)
      · exact e1 (genName_injective (e2.trans h1))
    rw [(hothers _ hx).1]; exact u2
  · intro X hX hf
    by_cases e1 : X = X0
    · rw [e1]; exact hX0.2.2.2
    · obtain ⟨o1, o2⟩ := hothers X e1
      rw [o2]
      have hf0 : FrozenAcl e st X := by
        rcases hf with h1 | h1
        · rcases hneeded X h1 with h2 | h2
          · exact Or.inl h2
          · exact absurd h2 e1
        · exact Or.inr h1
      exact (hF.frozenLines X (by rw [← o1]; exact hX) hf0).mono s.gGrow

end NA.F1
