import NA.Proofs.C04Rules
/-!
Helper lemmas for C04, level 3: unique names (`renameIds`), the items of a valid script walk
both sorted rule lists (`Walk`), and `diffRules` / `createPolicy` for one policy.
-/
namespace NA.Nsx

/-! ### Unique names -/

theorem freshId_spec {used : List String} {base n : String} (h : freshId used base = some n) : n ∉ used := by
  unfold freshId at h
  have := List.find?_some h
  simpa using this

/-- `renameIds`: the new ids are pairwise distinct, none of them is a device id, and each is an
original id or was unused. -/
theorem renameIds_spec (aIds : List String) :
    ∀ (ids used out : List String), renameIds aIds ids used = some out →
      (∀ x ∈ aIds, x ∈ used) → (∀ x ∈ ids, x ∈ used) → ids.Nodup →
      out.length = ids.length ∧ out.Nodup ∧ (∀ x ∈ out, x ∉ aIds) ∧ (∀ x ∈ out, x ∈ ids ∨ x ∉ used) := by
  intro ids
  induction ids with
  | nil =>
    intro used out h _ _ _
    simp [renameIds] at h; subst h; simp
  | cons id rest ih =>
    intro used out h ha hi hn
    obtain ⟨hid, hrest⟩ := List.nodup_cons.mp hn
    unfold renameIds at h
    by_cases hc : aIds.contains id = true
    · simp only [hc, if_true] at h
      cases hf : freshId used id with
      | none => simp [hf] at h
      | some n =>
        simp only [hf] at h
        cases hr : renameIds aIds rest (n :: used) with
        | none => simp [hr] at h
        | some out' =>
          simp only [hr, Option.map_some, Option.some.injEq] at h
          subst h
          have hfresh := freshId_spec hf
          obtain ⟨h1, h2, h3, h4⟩ := ih (n :: used) out' hr
            (fun x hx => List.mem_cons_of_mem _ (ha x hx))
            (fun x hx => List.mem_cons_of_mem _ (hi x (List.mem_cons_of_mem _ hx))) hrest
          refine ⟨by simp [h1], List.nodup_cons.mpr ⟨?_, h2⟩, ?_, ?_⟩
          · intro hm
            rcases h4 n hm with h | h
            · exact hfresh (hi n (List.mem_cons_of_mem _ h))
            · exact h List.mem_cons_self
          · intro x hx
            rcases List.mem_cons.mp hx with h | h
            · subst h; exact fun hm => hfresh (ha x hm)
            · exact h3 x h
          · intro x hx
            rcases List.mem_cons.mp hx with h | h
            · subst h; exact Or.inr hfresh
            · rcases h4 x h with h' | h'
              · exact Or.inl (List.mem_cons_of_mem _ h')
              · exact Or.inr fun hm => h' (List.mem_cons_of_mem _ hm)
    · have hc' : aIds.contains id = false := Bool.eq_false_iff.mpr hc
      simp only [hc', Bool.false_eq_true, if_false] at h
      cases hr : renameIds aIds rest used with
      | none => simp [hr] at h
      | some out' =>
        simp only [hr, Option.map_some, Option.some.injEq] at h
        subst h
        obtain ⟨h1, h2, h3, h4⟩ := ih used out' hr ha (fun x hx => hi x (List.mem_cons_of_mem _ hx)) hrest
        refine ⟨by simp [h1], List.nodup_cons.mpr ⟨?_, h2⟩, ?_, ?_⟩
        · intro hm
          rcases h4 id hm with h | h
          · exact hid h
          · exact h (hi id List.mem_cons_self)
        · intro x hx
          rcases List.mem_cons.mp hx with h | h
          · subst h; intro hm; exact hc (by simpa using hm)
          · exact h3 x h
        · intro x hx
          rcases List.mem_cons.mp hx with h | h
          · subst h; exact Or.inl List.mem_cons_self
          · rcases h4 x h with h' | h'
            · exact Or.inl (List.mem_cons_of_mem _ h')
            · exact Or.inr h'


/-- The same rule under another id. -/
def SameButId (r' r : Rule) : Prop := r' = { r with id := r'.id }

theorem zipWith_setId (b : List Rule) (ids : List String) (h : ids.length = b.length) :
    rids (List.zipWith (fun (r : Rule) id => { r with id := id }) b ids) = ids ∧
    Forall2 SameButId (List.zipWith (fun (r : Rule) id => { r with id := id }) b ids) b := by
  induction b generalizing ids with
  | nil =>
    cases ids with
    | nil => exact ⟨rfl, .nil⟩
    | cons _ _ => simp at h
  | cons r rest ih =>
    cases ids with
    | nil => simp at h
    | cons i is =>
      obtain ⟨h1, h2⟩ := ih is (by simpa using h)
      refine ⟨?_, .cons rfl h2⟩
      simp only [List.zipWith_cons_cons, rids, List.map_cons]
      exact congrArg _ h1

theorem genUniqRules_spec {aIds : List String} {b bR : List Rule} (h : genUniqRules aIds b = some bR)
    (hb : (rids b).Nodup) :
    (rids bR).Nodup ∧ (∀ x ∈ rids bR, x ∉ aIds) ∧ Forall2 SameButId bR b := by
  unfold genUniqRules at h
  cases hr : renameIds aIds (b.map (·.id)) (aIds ++ b.map (·.id)) with
  | none => simp [hr] at h
  | some ids =>
    simp only [hr, Option.map_some, Option.some.injEq] at h
    subst h
    obtain ⟨h1, h2, h3, _⟩ := renameIds_spec aIds _ _ _ hr
      (fun x hx => List.mem_append.mpr (Or.inl hx)) (fun x hx => List.mem_append.mpr (Or.inr hx)) hb
    obtain ⟨e1, e2⟩ := zipWith_setId b ids (by simpa using h1)
    rw [e1]
    exact ⟨h2, h3, e2⟩

/-! ### Items of a valid script -/

theorem Walk_dels (ctx : Ctx) (its : List Item) (l a' b : List Rule) (h : Walk ctx its a' b) :
    Walk ctx (l.map .del ++ its) (l ++ a') b := by
  induction l with
  | nil => exact h
  | cons r rest ih => exact ⟨rest ++ a', rfl, ih⟩

theorem Walk_inss (ctx : Ctx) (its : List Item) (l a b' : List Rule) (h : Walk ctx its a b') :
    Walk ctx (l.map .ins ++ its) a (l ++ b') := by
  induction l with
  | nil => exact h
  | cons r rest ih => exact ⟨rest ++ b', rfl, ih⟩

theorem Walk_eqs (ctx : Ctx) (its : List Item) :
    ∀ (la lb a' b' : List Rule), la.length = lb.length →
      (∀ i (h1 : i < la.length) (h2 : i < lb.length), ruleEqual ctx.gma ctx.gmb la[i] lb[i] = true) →
      Walk ctx its a' b' →
      Walk ctx ((la.zip (lb ++ b')).map (fun (x, y) => Item.eq x y) ++ its) (la ++ a') (lb ++ b') := by
  intro la
  induction la with
  | nil =>
    intro lb a' b' hl _ hw
    cases lb with
    | nil => simpa using hw
    | cons _ _ => simp at hl
  | cons x rest ih =>
    intro lb a' b' hl heq hw
    cases lb with
    | nil => simp at hl
    | cons y lb' =>
      refine ⟨rest ++ a', lb' ++ b', rfl, rfl, heq 0 (by simp) (by simp), ?_⟩
      exact ih lb' a' b' (by simpa using hl) (fun i h1 h2 => heq (i + 1) (by simp; omega) (by simp; omega)) hw

theorem itemsOf_cons (r : Range) (rs : List Range) (a b : List Rule) :
    itemsOf (r :: rs) a b =
      (if r.isDelete then ((a.drop r.lowA).take (r.highA - r.lowA)).map .del
       else if r.isInsert then ((b.drop r.lowB).take (r.highB - r.lowB)).map .ins
       else (((a.drop r.lowA).take (r.highA - r.lowA)).zip (b.drop r.lowB)).map fun (x, y) => Item.eq x y) ++
      itemsOf rs a b := by
  simp [itemsOf]

theorem drop_splitR (a : List Rule) (x hi : Nat) (h : x ≤ hi) :
    a.drop x = (a.drop x).take (hi - x) ++ a.drop hi := by
  have : a.drop hi = (a.drop x).drop (hi - x) := by
    rw [List.drop_drop]; congr 1; omega
  rw [this, List.take_append_drop]

/-- The items of a valid script consume exactly the two rule lists, pairing only rules that
`Equal` accepts. -/
theorem walk_of_valid (ctx : Ctx) (a b : List Rule) :
    ∀ (rs : List Range) (x y : Nat),
      validFrom (fun i j => ruleEqual ctx.gma ctx.gmb a[i]! b[j]!) a.length b.length rs x y = true →
      Walk ctx (itemsOf rs a b) (a.drop x) (b.drop y) := by
  intro rs
  induction rs with
  | nil =>
    intro x y h
    simp [validFrom] at h
    simp [itemsOf, Walk, h.1, h.2]
  | cons r rest ih =>
    intro x y h
    rw [itemsOf_cons]
    unfold validFrom at h
    cases hd : r.isDelete with
    | true =>
      simp only [hd, if_true, Bool.and_eq_true, beq_iff_eq, decide_eq_true_eq] at h
      obtain ⟨⟨h1, h2⟩, h3⟩ := h
      subst h1
      simp only [if_true]
      rw [drop_splitR a r.lowA r.highA h2]
      conv => arg 2; rw [← drop_splitR a r.lowA r.highA h2]
      rw [drop_splitR a r.lowA r.highA h2]
      exact Walk_dels ctx _ _ _ _ (ih _ _ h3)
    | false =>
      cases hi : r.isInsert with
      | true =>
        simp only [hd, hi, if_true, Bool.false_eq_true, if_false, Bool.and_eq_true, beq_iff_eq,
          decide_eq_true_eq] at h
        obtain ⟨⟨h1, h2⟩, h3⟩ := h
        subst h1
        simp only [Bool.false_eq_true, if_false, if_true]
        have hw := Walk_inss ctx _ ((b.drop r.lowB).take (r.highB - r.lowB)) (a.drop x) (b.drop r.highB) (ih _ _ h3)
        rw [← drop_splitR b r.lowB r.highB h2] at hw
        exact hw
      | false =>
        simp only [hd, hi, Bool.false_eq_true, if_false, Bool.and_eq_true, beq_iff_eq, decide_eq_true_eq,
          List.all_eq_true, List.mem_range] at h
        obtain ⟨⟨⟨⟨⟨h1, h2⟩, h3⟩, h4⟩, h5⟩, h6⟩ := h
        subst h1; subst h2
        simp only [Bool.false_eq_true, if_false]
        have hle := validFrom_le _ _ _ h6
        have hn : r.highB - r.lowB = r.highA - r.lowA := by omega
        have hw := Walk_eqs ctx (itemsOf rest a b) ((a.drop r.lowA).take (r.highA - r.lowA))
          ((b.drop r.lowB).take (r.highB - r.lowB)) (a.drop r.highA) (b.drop r.highB)
          (by simp [List.length_take, List.length_drop]; omega)
          (by
            intro i h1 h2
            simp only [List.length_take, List.length_drop] at h1 h2
            have := h5 i (by omega)
            have e1 : a[r.lowA + i]! = a[r.lowA + i]'(by omega) := getElem!_pos a _ (by omega)
            have e2 : b[r.lowB + i]! = b[r.lowB + i]'(by omega) := getElem!_pos b _ (by omega)
            rw [e1, e2] at this
            simpa [List.getElem_take, List.getElem_drop] using this)
          (ih _ _ h6)
        rw [← drop_splitR b r.lowB r.highB (by omega), ← drop_splitR a r.lowA r.highA h3] at hw
        exact hw


/-! ### The context with the policy id filled in -/

theorem CtxOK.withPid {ctx : Ctx} {G0 : List Group} (h : CtxOK ctx G0) (pid : String) :
    CtxOK { ctx with pid := pid } G0 :=
  ⟨h.g0_nodup, h.a_of_g0, h.a_addrs, h.b_fresh, h.b_inj, h.b_addrs, h.b_nonempty⟩

theorem GInv.withPid {ctx : Ctx} {G0 G : List Group} {st : PSt} (h : GInv ctx G0 G st) (pid : String) :
    GInv { ctx with pid := pid } G0 G st :=
  ⟨h.nodup, h.unneeded, h.others, h.nod, h.inj, h.needed_a, h.needed_owned, h.ids, h.grow⟩

theorem GInv.ofPid {ctx : Ctx} {G0 G : List Group} {st : PSt} {pid : String}
    (h : GInv { ctx with pid := pid } G0 G st) : GInv ctx G0 G st :=
  ⟨h.nodup, h.unneeded, h.others, h.nod, h.inj, h.needed_a, h.needed_owned, h.ids, h.grow⟩

theorem Forall2.exists_right {α β : Type} {R : α → β → Prop} {l : List α} {m : List β} (h : Forall2 R l m)
    {x : α} (hx : x ∈ l) : ∃ y ∈ m, R x y := by
  induction h with
  | nil => cases hx
  | cons hab _ ih =>
    rcases List.mem_cons.mp hx with e | e
    · subst e; exact ⟨_, List.mem_cons_self, hab⟩
    · obtain ⟨y, hy, hr⟩ := ih e
      exact ⟨y, List.mem_cons_of_mem _ hy, hr⟩

/-- `diffRules` for a policy present on both sides: all calls are accepted, the group invariant
is kept, and afterwards the policy's rules realise the (renamed) target rules one to one. -/
theorem diffRules_spec {ctx : Ctx} {G0 : List Group} (hc : CtxOK ctx G0)
    (hdiff : ∀ n m eq, validScript n m eq (ctx.diff n m eq) = true)
    (S : Store) (st : PSt) (pa pb p0 : Policy) (hinv : GInv ctx G0 S.groups st)
    (hpol : findPolicy S.policies pa.id = some p0) (hp0 : p0.rules = pa.rules)
    (haids : (rids pa.rules).Nodup) (hbids : (rids pb.rules).Nodup)
    (haRefs : ∀ ra ∈ pa.rules, refsOk S ra = true ∧ AExt ctx ra)
    (hbRefs : ∀ rb ∈ pb.rules, BRefs ctx S rb)
    (habort : (diffRules ctx st pa pb).1.abort = none) :
    ∃ S' L B bR, run S (diffRules ctx st pa pb).2 = some S' ∧
      GInv ctx G0 S'.groups (diffRules ctx st pa pb).1 ∧ Mono st (diffRules ctx st pa pb).1 ∧
      StepFrame pa.id S S' ∧
      (∃ p', findPolicy S'.policies pa.id = some p' ∧ p'.rules.Perm L) ∧
      Forall2 (RuleReal ctx (diffRules ctx st pa pb).1.nod) L B ∧ B.Perm bR ∧ Forall2 SameButId bR pb.rules := by
  unfold diffRules at habort ⊢
  cases hg : genUniqRules (pa.rules.map (·.id)) pb.rules with
  | none => simp [hg] at habort
  | some bR =>
    simp only [hg] at habort ⊢
    obtain ⟨hbRn, hbRfresh, hsame⟩ := genUniqRules_spec hg hbids
    let ctx' : Ctx := { ctx with pid := pa.id }
    let aS := sortRules ctx.gma pa.rules
    let bS := sortRules ctx.gmb bR
    have hpa : aS.Perm pa.rules := isort_perm _ _
    have hpb : bS.Perm bR := isort_perm _ _
    let rs := ctx.diff aS.length bS.length fun i j => ruleEqual ctx.gma ctx.gmb aS[i]! bS[j]!
    have hvalid := hdiff aS.length bS.length fun i j => ruleEqual ctx.gma ctx.gmb aS[i]! bS[j]!
    have hwalk : Walk ctx' (itemsOf rs aS bS) aS bS := by
      have := walk_of_valid ctx' aS bS rs 0 0 hvalid
      simpa using this
    have hpinv : PInv ctx' G0 S st [] [] [] [] aS bS := by
      refine { ginv := hinv.withPid _, pol := ⟨p0, hpol, ?_⟩, realK := .nil, realI := .nil, ids := ?_,
               aRefs := ?_, bRefs := ?_ }
      · simp only [List.nil_append, List.append_nil]
        rw [hp0]; exact hpa.symm
      · simp only [List.nil_append, List.append_nil]
        have hperm : (rids aS ++ rids bS).Perm (rids pa.rules ++ rids bR) :=
          (hpa.map _).append (hpb.map _)
        rw [hperm.nodup_iff, List.nodup_append]
        refine ⟨haids, hbRn, ?_⟩
        intro x hx y hy e
        subst e
        exact hbRfresh x hy hx
      · intro ra hra
        exact haRefs ra (hpa.mem_iff.mp hra)
      · intro rb hrb
        obtain ⟨r0, hr0, hs⟩ := hsame.exists_right (hpb.mem_iff.mp hrb)
        have := hbRefs r0 hr0
        rw [hs]
        exact this
    obtain ⟨S', K', I', BK', BI', hrun, hinv', hperm, hfr, hmono⟩ :=
      stepItems_spec (hc.withPid pa.id) hdiff (itemsOf rs aS bS) S st [] [] [] [] aS bS hwalk hpinv habort
    obtain ⟨p', hp', hrules'⟩ := hinv'.pol
    refine ⟨S', K' ++ I', BK' ++ BI', bR, hrun, hinv'.ginv.ofPid, hmono, hfr, ⟨p', hp', by simpa using hrules'⟩,
      hinv'.realK.append hinv'.realI, ?_, hsame⟩
    refine hperm.trans ?_
    simpa using hpb


/-! ### A policy the manager does not have yet -/

theorem idsNodup_iff (l : List String) : idsNodup l = true ↔ l.Nodup := by
  induction l with
  | nil => simp [idsNodup]
  | cons x rest ih =>
    simp only [idsNodup, Bool.and_eq_true, Bool.not_eq_eq_eq_not, Bool.not_true, List.nodup_cons, ih]
    constructor
    · rintro ⟨h1, h2⟩; exact ⟨by simpa using h1, h2⟩
    · rintro ⟨h1, h2⟩; exact ⟨by simpa using h1, h2⟩

theorem adaptRules_spec {ctx : Ctx} {G0 : List Group} (hc : CtxOK ctx G0) :
    ∀ (rules : List Rule) (S : Store) (st : PSt), GInv ctx G0 S.groups st →
      (∀ rb ∈ rules, BRefs ctx S rb) →
      ∃ S', run S (adaptRules ctx st rules).2.1 = some S' ∧ S'.policies = S.policies ∧ S'.services = S.services ∧
        GInv ctx G0 S'.groups (adaptRules ctx st rules).1 ∧ Mono st (adaptRules ctx st rules).1 ∧ GroupsLE S S' ∧
        Forall2 (RuleReal ctx (adaptRules ctx st rules).1.nod) (adaptRules ctx st rules).2.2 rules ∧
        (∀ r ∈ (adaptRules ctx st rules).2.2, refsOk S' r = true) ∧
        rids (adaptRules ctx st rules).2.2 = rids rules := by
  intro rules
  induction rules with
  | nil =>
    intro S st hinv _
    exact ⟨S, rfl, rfl, rfl, hinv, Mono.refl _, GroupsLE.refl _, .nil, by simp [adaptRules], rfl⟩
  | cons r rest ih =>
    intro S st hinv hb
    obtain ⟨hsvc, hsrc, hdst⟩ := hb r List.mem_cons_self
    obtain ⟨S1, hrun1, hpol1, hsv1, hinv1, hmono1, hreal1, hle1, hep1⟩ := adaptGroup_spec hc S st r.src hinv hsrc
    obtain ⟨S2, hrun2, hpol2, hsv2, hinv2, hmono2, hreal2, hle2, hep2⟩ :=
      adaptGroup_spec hc S1 (adaptGroup ctx st r.src).1 r.dst hinv1 (fun hn => epOk_mono hle1 (hdst hn))
    generalize hA1 : adaptGroup ctx st r.src = A1 at *
    obtain ⟨st1, src, c1⟩ := A1
    generalize hA2 : adaptGroup ctx st1 r.dst = A2 at *
    obtain ⟨st2, dst, c2⟩ := A2
    simp only at hrun1 hinv1 hmono1 hreal1 hep1 hrun2 hinv2 hmono2 hreal2 hep2
    have hsv12 : S2.services = S.services := hsv2.trans hsv1
    have hle12 : GroupsLE S S2 := hle1.trans hle2
    obtain ⟨S3, hrun3, hpol3, hsv3, hinv3, hmono3, hle3, hreal3, hrefs3, hids3⟩ :=
      ih S2 st2 hinv2 (fun rb hrb => (hb rb (List.mem_cons_of_mem _ hrb)).mono hsv12 hle12)
    generalize hA3 : adaptRules ctx st2 rest = A3 at *
    obtain ⟨st3, cs, rs⟩ := A3
    simp only at hrun3 hinv3 hmono3 hreal3 hrefs3 hids3
    have hstep : adaptRules ctx st (r :: rest) =
        (st3, c1 ++ c2 ++ cs, { compactRule r with src := src, dst := dst } :: rs) := by
      simp [adaptRules, hA1, hA2, hA3]
    rw [hstep]
    simp only
    refine ⟨S3, ?_, by rw [hpol3, hpol2, hpol1], by rw [hsv3, hsv2, hsv1], hinv3,
      (hmono1.trans hmono2).trans hmono3, hle12.trans hle3, .cons ?_ hreal3, ?_, ?_⟩
    · rw [List.append_assoc, run_append hrun1, run_append hrun2]; exact hrun3
    · exact ⟨compactAttrs_idem _, rfl, hreal1.mono (hmono2.trans hmono3), hreal2.mono hmono3⟩
    · intro x hx
      rcases List.mem_cons.mp hx with e | e
      · subst e
        exact refsOk_intro (epOk_mono (hle2.trans hle3) hep1) (epOk_mono hle3 hep2) (by
          show svcOk S3 r.service = true
          rw [svcOk_of_services (hsv3.trans hsv12)]; exact hsvc)
      · exact hrefs3 x e
    · simp only [rids, List.map_cons] at hids3 ⊢
      rw [hids3]; rfl

theorem hasPolicy_false_iff {S : Store} {id : String} : hasPolicy S id = false ↔ findPolicy S.policies id = none := by
  unfold hasPolicy findPolicy
  rw [List.find?_eq_none, Bool.eq_false_iff]
  simp [List.any_eq_true]

/-- `createPolicy` for a target policy the manager does not have: new groups are PUT first,
the PUT of the whole policy is accepted, and its rules realise the target's rules in order. -/
theorem createPolicy_spec {ctx : Ctx} {G0 : List Group} (hc : CtxOK ctx G0) (S : Store) (st : PSt) (pb : Policy)
    (hinv : GInv ctx G0 S.groups st) (hnew : hasPolicy S pb.id = false) (hbids : (rids pb.rules).Nodup)
    (hbRefs : ∀ rb ∈ pb.rules, BRefs ctx S rb) :
    ∃ S' L, run S (createPolicy ctx st pb).2 = some S' ∧
      GInv ctx G0 S'.groups (createPolicy ctx st pb).1 ∧ Mono st (createPolicy ctx st pb).1 ∧
      S'.services = S.services ∧ S'.policies = S.policies ++ [⟨pb.id, L⟩] ∧ GroupsLE S S' ∧
      Forall2 (RuleReal ctx (createPolicy ctx st pb).1.nod) L pb.rules := by
  obtain ⟨S1, hrun, hpol, hsv, hinv1, hmono, hle, hreal, hrefs, hids⟩ := adaptRules_spec hc pb.rules S st hinv hbRefs
  generalize hA : adaptRules ctx st pb.rules = A at *
  obtain ⟨st', calls, rules⟩ := A
  simp only at hrun hinv1 hmono hreal hrefs hids
  have hstep : createPolicy ctx st pb = (st', calls ++ [.putPolicy pb.id rules]) := by
    simp [createPolicy, hA]
  rw [hstep]
  simp only
  have hnew1 : hasPolicy S1 pb.id = false := by unfold hasPolicy; rw [hpol]; exact hnew
  have hnd : idsNodup (rules.map (·.id)) = true := by
    rw [idsNodup_iff]
    show (rids rules).Nodup
    rw [hids]; exact hbids
  have hfind : rules.find? (!refsOk S1 ·) = none := by
    rw [List.find?_eq_none]
    intro r hr
    simp [hrefs r hr]
  have hex : exec S1 (.putPolicy pb.id rules) = .ok { S1 with policies := S1.policies ++ [⟨pb.id, rules⟩] } := by
    simp [exec, hnew1, hnd, hfind]
  refine ⟨{ S1 with policies := S1.policies ++ [⟨pb.id, rules⟩] }, rules, ?_, hinv1, hmono, hsv, ?_, hle, hreal⟩
  · rw [run_append hrun]; exact run_single hex
  · show S1.policies ++ _ = _
    rw [hpol]

end NA.Nsx
