import NA.Proofs.C03Sim
/-
C03, whole-vsys theorems with address-groups, part 1: requests that change the members of an
existing address-group commute with requests on rules.  Hence a rule phase in which both kinds
are interleaved can be executed as: all group-member requests first, then all rule requests.
Core Lean only.
-/
namespace NA.PanOs

/-- Requests that change the member list of an address-group. -/
def Cmd.isGrpMem : Cmd → Bool
  | .delGMem .. | .setGrp .. => true
  | _ => false

def Cmd.grpTarget : Cmd → String
  | .delGMem g _ => g
  | .setGrp g _ => g
  | _ => ""

theorem any_name_congr {gs gs' : List Grp} (h : gs'.map (·.name) = gs.map (·.name)) (m : String) :
    gs'.any (·.name == m) = gs.any (·.name == m) := by
  have e : ∀ (l : List Grp), l.any (·.name == m) = (l.map (·.name)).any (· == m) := by
    intro l; simp [List.any_map, Function.comp_def]
  rw [e, e, h]

theorem modifyGrp_names (gs : List Grp) (n : String) (f : List String → List String) :
    (modifyGrp gs n f).map (·.name) = gs.map (·.name) := by
  unfold modifyGrp
  rw [List.map_map]
  apply List.map_congr_left
  intro g _
  simp only [Function.comp]
  split <;> rfl

/-- A group-member request on an existing group changes the group table only, and not its names. -/
theorem exec_grpMem_shape {sh : Shared} {v vg : Vsys} {g : Cmd} (hg : g.isGrpMem = true)
    (hex : v.groups.any (·.name == g.grpTarget) = true) (h : exec sh v g = .ok vg) :
    vg = { v with groups := vg.groups } ∧ vg.groups.map (·.name) = v.groups.map (·.name) := by
  cases g <;> simp only [Cmd.isGrpMem] at hg <;> try (cases hg)
  · -- setGrp
    rename_i n ms
    simp only [Cmd.grpTarget] at hex
    simp only [exec, hex, if_true] at h
    split at h
    · cases h
    · simp only [Except.ok.injEq] at h; subst h
      exact ⟨rfl, by dsimp only; exact modifyGrp_names _ _ _⟩
  · -- delGMem
    rename_i n m
    simp only [exec] at h
    split at h
    · cases h
    · split at h
      · simp only [Except.ok.injEq] at h; subst h
        exact ⟨rfl, by dsimp only; exact modifyGrp_names _ _ _⟩
      · cases h

theorem addrRefOk_rules (sh : Shared) (v : Vsys) (R : List Rule) :
    addrRefOk sh { v with rules := R } = addrRefOk sh v := rfl

/-- A group-member request does not look at the rules. -/
theorem exec_grpMem_rules {sh : Shared} {v : Vsys} {g : Cmd} (hg : g.isGrpMem = true) (R : List Rule) :
    exec sh { v with rules := R } g = (exec sh v g).map (fun w => { w with rules := R }) := by
  cases g <;> simp only [Cmd.isGrpMem] at hg <;> try (cases hg)
  · rename_i n ms
    simp only [exec, addrRefOk_rules]
    cases hb : ms.all (addrRefOk sh v) <;> cases hc : v.groups.any (·.name == n) <;> simp [Except.map]
  · rename_i n m
    simp only [exec]
    cases hf : v.groups.find? (·.name == n) with
    | none => simp [Except.map]
    | some gr =>
      by_cases hm : m ∈ gr.members <;> simp [Except.map, hm]

theorem refOk_groups_congr (sh : Shared) (v : Vsys) (gs' : List Grp)
    (h : gs'.map (·.name) = v.groups.map (·.name)) (f : Fld) (m : String) :
    refOk sh { v with groups := gs' } f m = refOk sh v f m := by
  cases f <;> simp [refOk, addrRefOk, srvRefOk, any_name_congr h]

/-- A rule request looks at the group table only for the names. -/
theorem exec_onRules_groups {sh : Shared} {v : Vsys} {c : Cmd} (hc : c.onRules = true) (gs' : List Grp)
    (h : gs'.map (·.name) = v.groups.map (·.name)) :
    exec sh { v with groups := gs' } c = (exec sh v c).map (fun w => { w with groups := gs' }) := by
  have hr : ∀ f m, refOk sh { v with groups := gs' } f m = refOk sh v f m := refOk_groups_congr sh v gs' h
  have hall : ∀ f (l : List String), l.all (refOk sh { v with groups := gs' } f) = l.all (refOk sh v f) := by
    intro f l
    congr 1
    funext m
    exact hr f m
  have ha : ∀ (l : List String), l.all (addrRefOk sh { v with groups := gs' }) = l.all (addrRefOk sh v) := hall .src
  have hs : ∀ (l : List String), l.all (srvRefOk sh { v with groups := gs' }) = l.all (srvRefOk sh v) := hall .srv
  cases c <;> simp only [Cmd.onRules] at hc <;> try (cases hc)
  · -- delRule
    simp only [exec]
    split <;> rfl
  · -- setRule
    simp only [exec, ha, hs]
    split
    · rfl
    · split
      · rfl
      · split <;> rfl
  · -- move
    simp only [exec]
    split
    · rfl
    · split
      · rfl
      · split <;> rfl
  · -- delMem
    simp only [exec]
    split
    · rfl
    · split <;> rfl
  · -- addMem
    simp only [exec, hall]
    split
    · rfl
    · split <;> rfl
  · -- editList
    simp only [exec, hall]
    split
    · rfl
    · split <;> rfl

/-- **One step of commutation**: a group-member request followed by a rule request can be
executed in the other order, with the same result. -/
theorem exec_comm {sh : Shared} {v vg vg1 : Vsys} {g c : Cmd} (hg : g.isGrpMem = true)
    (hex : v.groups.any (·.name == g.grpTarget) = true) (hc : c.onRules = true)
    (h1 : exec sh v g = .ok vg) (h2 : exec sh vg c = .ok vg1) :
    ∃ v1, exec sh v c = .ok v1 ∧ exec sh v1 g = .ok vg1 ∧
      v1.groups = v.groups := by
  obtain ⟨hshape, hnames⟩ := exec_grpMem_shape hg hex h1
  rw [hshape, exec_onRules_groups hc vg.groups hnames] at h2
  cases hx : exec sh v c with
  | error e => rw [hx] at h2; cases h2
  | ok v1 =>
    rw [hx] at h2
    simp only [Except.map, Except.ok.injEq] at h2
    obtain ⟨s1, s2, s3, s4, s5⟩ := exec_onRules_static hx hc
    have hv1 : v1 = { v with rules := v1.rules } := by
      cases v1; cases v
      simp only at s1 s2 s3 s4 s5
      subst s1 s2 s3 s4 s5
      rfl
    refine ⟨v1, rfl, ?_, s3⟩
    rw [hv1, exec_grpMem_rules hg, h1]
    simp only [Except.map]
    rw [← h2]
    congr 1
    rw [hshape]
    simp only [s1, s2, s4, s5]

theorem Runs.cons_inv {sh : Shared} {v w : Vsys} {c : Cmd} {cs : List Cmd} (h : Runs sh v (c :: cs) w) :
    ∃ v', exec sh v c = .ok v' ∧ Runs sh v' cs w := by
  cases hx : exec sh v c with
  | error e =>
    unfold Runs at h
    rw [execAll_cons_err hx] at h
    simp at h
  | ok v' =>
    refine ⟨v', rfl, ?_⟩
    unfold Runs at h ⊢
    rw [execAll_cons_ok hx] at h
    simp only [Prod.mk.injEq, List.length_cons, Nat.add_right_cancel_iff] at h
    rw [show execAll sh v' cs = ((execAll sh v' cs).1, (execAll sh v' cs).2.1, (execAll sh v' cs).2.2) from rfl]
    rw [h.1, h.2.1, h.2.2]

/-- All of `gs` change the members of groups named in `names`. -/
def GrpMemOn (names : List String) (gs : List Cmd) : Prop :=
  ∀ g ∈ gs, g.isGrpMem = true ∧ g.grpTarget ∈ names

theorem any_name_of_mem {gs : List Grp} {n : String} (h : n ∈ gs.map (·.name)) :
    gs.any (·.name == n) = true := by
  obtain ⟨g, hg, rfl⟩ := List.mem_map.mp h
  simp only [List.any_eq_true, beq_iff_eq]
  exact ⟨g, hg, rfl⟩

/-- A rule request accepted after a run of group-member requests is accepted before it too. -/
theorem runs_comm (sh : Shared) : ∀ (gs : List Cmd) (v u u1 : Vsys) (c : Cmd),
    GrpMemOn (v.groups.map (·.name)) gs → c.onRules = true → Runs sh v gs u → exec sh u c = .ok u1 →
    ∃ v1, exec sh v c = .ok v1 ∧ Runs sh v1 gs u1 ∧ v1.groups = v.groups := by
  intro gs
  induction gs with
  | nil =>
    intro v u u1 c _ hc hr hx
    unfold Runs at hr
    simp only [execAll, Prod.mk.injEq] at hr
    rw [← hr.1] at hx
    exact ⟨u1, hx, Runs.nil sh u1, (exec_onRules_static hx hc).2.2.1⟩
  | cons g gs ih =>
    intro v u u1 c hon hc hr hx
    obtain ⟨vg, hvg, hr'⟩ := hr.cons_inv
    obtain ⟨hg, htgt⟩ := hon g (by simp)
    have hex := any_name_of_mem htgt
    obtain ⟨_, hnames⟩ := exec_grpMem_shape hg hex hvg
    obtain ⟨vg1, h1, h2, h3⟩ := ih vg u u1 c
      (fun g' hg' => by rw [hnames]; exact hon g' (List.mem_cons_of_mem _ hg')) hc hr' hx
    obtain ⟨v1, e1, e2, e3⟩ := exec_comm hg hex hc hvg h1
    exact ⟨v1, e1, Runs.cons e2 h2, e3⟩

theorem onRules_not_grpMem {c : Cmd} (h : c.onRules = true) : c.isGrpMem = false := by
  cases c <;> simp_all [Cmd.onRules, Cmd.isGrpMem]

/-- **Interleaved group-member and rule requests may be run as two blocks**: first all
group-member requests, then all rule requests. -/
theorem runs_of_split (sh : Shared) : ∀ (cs : List Cmd) (v u w : Vsys),
    (∀ c ∈ cs, (c.isGrpMem = true ∧ c.grpTarget ∈ v.groups.map (·.name)) ∨ c.onRules = true) →
    Runs sh v (cs.filter Cmd.isGrpMem) u → Runs sh u (cs.filter (fun c => !c.isGrpMem)) w →
    Runs sh v cs w := by
  intro cs
  induction cs with
  | nil =>
    intro v u w _ h1 h2
    simp only [List.filter_nil] at h1 h2
    unfold Runs at h1 h2 ⊢
    simp only [execAll, Prod.mk.injEq] at h1
    rw [h1.1]; exact h2
  | cons c cs ih =>
    intro v u w hcs h1 h2
    have hgrpOn : ∀ (v' : Vsys), v'.groups.map (·.name) = v.groups.map (·.name) →
        GrpMemOn (v'.groups.map (·.name)) (cs.filter Cmd.isGrpMem) := by
      intro v' hn g hg
      obtain ⟨hgm, hgi⟩ := List.mem_filter.mp hg
      rcases hcs g (List.mem_cons_of_mem _ hgm) with h | h
      · rw [hn]; exact h
      · rw [onRules_not_grpMem h] at hgi; cases hgi
    rcases hcs c (by simp) with ⟨hg, htgt⟩ | hc
    · simp only [List.filter_cons, hg, if_true, Bool.not_true, Bool.false_eq_true, if_false] at h1 h2
      obtain ⟨vg, hvg, hr'⟩ := h1.cons_inv
      obtain ⟨_, hnames⟩ := exec_grpMem_shape hg (any_name_of_mem htgt) hvg
      exact Runs.cons hvg (ih vg u w
        (fun c' hc' => by rw [hnames]; exact hcs c' (List.mem_cons_of_mem _ hc')) hr' h2)
    · have hng := onRules_not_grpMem hc
      simp only [List.filter_cons, hng, Bool.false_eq_true, if_false, Bool.not_false, if_true] at h1 h2
      obtain ⟨u1, hu1, hr'⟩ := h2.cons_inv
      obtain ⟨v1, e1, e2, e3⟩ := runs_comm sh _ v u u1 c (hgrpOn v rfl) hc h1 hu1
      exact Runs.cons e1 (ih v1 u1 w
        (fun c' hc' => by rw [e3]; exact hcs c' (List.mem_cons_of_mem _ hc')) e2 hr')

end NA.PanOs
