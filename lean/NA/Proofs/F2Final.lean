import NA.Proofs.F2Init
import NA.Proofs.F2Intfs
import NA.Proofs.F2Routes
/-!
# F2: end to end — the whole script of the engine on the strict device
-/
namespace NA.F2
open NA.IosDev2
open NA.F1 (genName lookupD addSet sortS isTagged)

/-! ## the device built from the configuration -/

theorem lookup_map_snd {β γ : Type} (l : List (Name × β)) (f : β → γ) (n : Name) :
    (l.map fun p => (p.1, f p.2)).lookup n = (l.lookup n).map f := by
  induction l with
  | nil => rfl
  | cons p l ih =>
    obtain ⟨k, v⟩ := p
    simp only [List.map_cons, List.lookup_cons]
    cases n == k <;> simp [ih]

theorem numberFrom_lines (ls : List ALine) : (numberFrom ls).map (·.2) = ls := by
  simp only [numberFrom, List.map_map]
  have : ((fun x : Nat × ALine => x.2) ∘ fun p : Nat × ALine => (10 * (p.1 + 1), p.2)) = Prod.snd := rfl
  rw [this, List.map_snd_zip]
  simp

theorem entriesOf_ofConfig (c : Config) (n : Name) : (entriesOf (ofConfig c) n).map (·.2) = c.lines n := by
  simp only [entriesOf, ofConfig, Config.lines, lookupD]
  rw [lookup_map_snd c.acls numberFrom n]
  cases c.acls.lookup n with
  | none => rfl
  | some ls => simp [numberFrom_lines]

theorem hasAcl_ofConfig (c : Config) (n : Name) : hasAcl (ofConfig c) n = c.hasAcl n := by
  simp [hasAcl, ofConfig, Config.hasAcl, List.any_map, Function.comp_def]

theorem aclNames_ofConfig (c : Config) : aclNames (ofConfig c) = c.acls.map (·.1) := by
  simp [aclNames, ofConfig, List.map_map, Function.comp_def]

theorem intfNames_ofConfig (c : Config) : (ofConfig c).intfs.map (·.name) = c.intfs.map (·.name) := by
  simp [ofConfig, List.map_map, Function.comp_def]

theorem lookup_gen (l : List (Name × List ALine)) (names : List Name) (bN : Name) (h : (l.any (·.1 == bN)) = true) :
    (l.map fun x => (x.1, genName x.1 names)).lookup bN = some (genName bN names) := by
  induction l with
  | nil => simp at h
  | cons p l ih =>
    simp only [List.map_cons, List.lookup_cons]
    by_cases hk : bN == p.1
    · simp only [hk]; rw [beq_iff_eq.mp hk]
    · simp only [hk]
      simp only [List.any_cons, Bool.or_eq_true] at h
      rcases h with h | h
      · have := beq_iff_eq.mp h
        simp [this] at hk
      · exact ih h

/-- The device `d0` (top-level mode), read by a compare, is the configuration `a0`: same interfaces and
bindings, same route lines, the same access lists with the same lines — whatever the entry numbers. -/
structure Reads (d0 : Dev) (a0 : Config) : Prop where
  mode : d0.mode = none
  intfs : d0.intfs = (ofConfig a0).intfs
  routes : d0.routes = a0.routes.map (·.text)
  names : aclNames d0 = a0.acls.map (·.1)
  lines : ∀ n, (entriesOf d0 n).map (·.2) = a0.lines n

theorem reads_ofConfig (a0 : Config) : Reads (ofConfig a0) a0 :=
  ⟨rfl, rfl, rfl, aclNames_ofConfig a0, entriesOf_ofConfig a0⟩

theorem Reads.slot {d0 : Dev} {a0 : Config} (h : Reads d0 a0) (x dir : String) :
    slotOf d0 x dir = slotOf (ofConfig a0) x dir := by simp only [slotOf, h.intfs]

theorem Reads.hasI {d0 : Dev} {a0 : Config} (h : Reads d0 a0) (x : String) :
    hasIntf d0 x = hasIntf (ofConfig a0) x := by simp only [hasIntf, h.intfs]

theorem Reads.hasA {d0 : Dev} {a0 : Config} (h : Reads d0 a0) (n : Name) : hasAcl d0 n = a0.hasAcl n := by
  have h1 : hasAcl d0 n = (aclNames d0).contains n := by
    simp only [hasAcl, aclNames, List.contains_eq_any_beq, List.any_map]
    congr 1
    funext p
    simp only [Function.comp, BEq.comm]
  rw [h1, h.names]
  simp only [Config.hasAcl, List.contains_eq_any_beq, List.any_map]
  congr 1
  funext p
  simp only [Function.comp, BEq.comm]

/-- The state `diffConfig` starts from. -/
theorem sem_init (a0 b : Config) (sc : Scripts) (hnd : (a0.acls.map (·.1)).Nodup)
    (st2 : St) (a' : Config) (hacls : a'.acls = a0.acls) (hcore : CoreEmpty st2) (d0 : Dev) (hr : Reads d0 a0) :
    Sem ⟨a', b, sc⟩ st2.aNeeded d0 (generateNames a' b st2) d0 (fun _ _ => .orig) [] := by
  obtain ⟨c1, c2, c3, c4, c5, c6⟩ := hcore
  have hhas : ∀ n, a'.hasAcl n = a0.hasAcl n := fun n => by simp [Config.hasAcl, hacls]
  constructor
  · show actsRun d0 st2.acts = _
    rw [c6]; rfl
  · intro n _ hn; exact ⟨hn, rfl⟩
  · exact hr.mode
  · rw [hr.names]; exact hnd
  · rfl
  · rfl
  · intro n hn
    rw [hr.hasA, ← hhas]; exact hn
  · intro n _ _
    rw [hr.lines]
    simp [Config.lines, hacls]
  · intro bN hbN
    have : (generateNames a' b st2).aReady = st2.aReady := rfl
    rw [this, c4] at hbN; cases hbN
  · intro bN hb _
    have hname : (generateNames a' b st2).nameOf bN = genName bN (a'.acls.map (·.1)) := by
      simp only [St.nameOf, generateNames]
      rw [lookup_gen b.acls _ bN hb]; rfl
    refine ⟨hname, ?_⟩
    rw [hname, hr.hasA, ← hhas]
    exact genName_not_hasAcl a' bN
  · intro x dir _; rfl
  · intro p hp
    have : (generateNames a' b st2).bNeeded = st2.bNeeded := rfl
    rw [this, c3] at hp; cases hp


/-! ## sorting is a permutation -/

theorem perm_insertR (x : Route) (l : List Route) : (insertR x l).Perm (x :: l) := by
  induction l with
  | nil => exact List.Perm.refl _
  | cons y ys ih =>
    simp only [insertR]
    split
    · exact List.Perm.refl _
    · exact (List.Perm.cons y ih).trans (List.Perm.swap x y ys)

theorem perm_sortRoutes (l : List Route) : (sortRoutes l).Perm l := by
  induction l with
  | nil => exact List.Perm.refl _
  | cons x xs ih =>
    simp only [sortRoutes, List.foldr_cons]
    exact (perm_insertR x _).trans (List.Perm.cons x ih)

theorem perm_insertS (x : String) (l : List String) : (NA.F1.insertS x l).Perm (x :: l) := by
  induction l with
  | nil => exact List.Perm.refl _
  | cons y ys ih =>
    simp only [NA.F1.insertS]
    split
    · exact List.Perm.refl _
    · exact (List.Perm.cons y ih).trans (List.Perm.swap x y ys)

theorem perm_sortS (l : List String) : (sortS l).Perm l := by
  induction l with
  | nil => exact List.Perm.refl _
  | cons x xs ih =>
    simp only [sortS, List.foldr_cons]
    exact (perm_insertS x _).trans (List.Perm.cons x ih)

/-! ## slots of the initial device -/

theorem lastBind_of_mem {binds : List Bind} (hnd : (binds.map (·.dir)).Nodup) {bd : Bind} (h : bd ∈ binds) :
    lastBind binds bd.dir = some bd.acl := by
  unfold lastBind
  have : binds.reverse.find? (fun b => b.dir == bd.dir) = some bd := by
    have hnd' : (binds.reverse.map (·.dir)).Nodup := by
      rw [List.map_reverse]; exact (List.reverse_perm _).nodup_iff.mpr hnd
    have hm : bd ∈ binds.reverse := List.mem_reverse.mpr h
    generalize binds.reverse = l at hnd' hm
    induction l with
    | nil => cases hm
    | cons y ys ih =>
      simp only [List.map_cons, List.nodup_cons] at hnd'
      simp only [List.find?_cons]
      rcases List.mem_cons.mp hm with rfl | hm'
      · simp
      · have : (y.dir == bd.dir) = false := by
          rw [Bool.eq_false_iff]; intro hc
          exact hnd'.1 (beq_iff_eq.mp hc ▸ List.mem_map_of_mem hm')
        simp only [this]
        exact ih hnd'.2 hm'
  rw [this]; rfl

theorem lastBind_none {binds : List Bind} {dir : String} (h : dir ∉ binds.map (·.dir)) : lastBind binds dir = none := by
  unfold lastBind
  have : binds.reverse.find? (fun b => b.dir == dir) = none := by
    rw [List.find?_eq_none]
    intro b hb hc
    exact h (List.mem_map.mpr ⟨b, List.mem_reverse.mp hb, by simpa using hc⟩)
  rw [this]; rfl

theorem find_map_intf (l : List Intf) (hnd : (l.map (·.name)).Nodup) {i : Intf} (hi : i ∈ l) (f : Intf → DIntf)
    (hf : ∀ j, (f j).name = j.name) : (l.map f).find? (fun d => d.name == i.name) = some (f i) := by
  induction l with
  | nil => cases hi
  | cons y ys ih =>
    simp only [List.map_cons, List.nodup_cons] at hnd
    simp only [List.map_cons, List.find?_cons, hf]
    rcases List.mem_cons.mp hi with rfl | hi'
    · simp
    · have : (y.name == i.name) = false := by
        rw [Bool.eq_false_iff]; intro hc
        exact hnd.1 (beq_iff_eq.mp hc ▸ List.mem_map_of_mem hi')
      simp only [this]
      exact ih hnd.2 hi'

theorem slotOf_ofConfig (c : Config) (hnd : (c.intfs.map (·.name)).Nodup) {i : Intf} (hi : i ∈ c.intfs) (dir : String)
    (hd : isDir dir = true) : slotOf (ofConfig c) i.name dir = lastBind i.binds dir := by
  simp only [slotOf, ofConfig]
  rw [find_map_intf c.intfs hnd hi _ (fun _ => rfl)]
  simp only [isDir, Bool.or_eq_true, beq_iff_eq] at hd
  rcases hd with rfl | rfl
  · rfl
  · rfl

theorem hasIntf_ofConfig (c : Config) {i : Intf} (hi : i ∈ c.intfs) : hasIntf (ofConfig c) i.name = true := by
  simp only [hasIntf, ofConfig, List.any_map, List.any_eq_true]
  exact ⟨i, hi, by simp⟩


/-! ## clean-up -/

def dropAcl (d : Dev) (n : Name) : Dev := strip { d with acls := d.acls.filter fun p => !(p.1 == n) }

theorem lookup_filter_ne (l : List (Name × Entries)) (n x : Name) (h : x ≠ n) :
    (l.filter fun p => !(p.1 == n)).lookup x = l.lookup x := by
  induction l with
  | nil => rfl
  | cons p l ih =>
    obtain ⟨k, v⟩ := p
    simp only [List.filter_cons]
    by_cases hk : k == n
    · have hkn := beq_iff_eq.mp hk
      have hx : (x == k) = false := by rw [hkn]; simpa using h
      simp only [hk, Bool.not_true, Bool.false_eq_true, ↓reduceIte, List.lookup_cons, hx]
      exact ih
    · simp only [hk, Bool.not_false, ↓reduceIte, List.lookup_cons]
      cases x == k
      · exact ih
      · rfl

theorem entriesOf_dropAcl (d : Dev) (n x : Name) (h : x ≠ n) : entriesOf (dropAcl d n) x = entriesOf d x := by
  show ((d.acls.filter fun p => !(p.1 == n)).lookup x).getD [] = _
  rw [lookup_filter_ne d.acls n x h]; rfl

theorem hasAcl_dropAcl (d : Dev) (n x : Name) (h : x ≠ n) : hasAcl (dropAcl d n) x = hasAcl d x := by
  simp only [hasAcl, dropAcl, strip, List.any_filter]
  congr 1
  funext p
  by_cases hp : p.1 == x
  · have : (p.1 == n) = false := by
      rw [beq_iff_eq.mp hp]; simpa using h
    simp [hp, this]
  · simp [hp]

theorem aclBound_dropAcl (d : Dev) (n x : Name) : aclBound (dropAcl d n) x = aclBound d x := rfl

theorem run_noAcl (d : Dev) (n : Name) (h1 : hasAcl d n = true) (h2 : aclBound d n = false) :
    evRun d (.top (.noAcl n)) = some (dropAcl d n) := by
  simp [evRun, execTop, h1, h2, toOpt, dropAcl, strip]

theorem run_cleanup (p : List Name) (hnd : p.Nodup) (d : Dev)
    (hp : ∀ n ∈ p, hasAcl d n = true ∧ aclBound d n = false) :
    ∃ d', evsRun d (expand (.cleanup p)) = some d' ∧ d'.intfs = d.intfs ∧ d'.routes = d.routes ∧
      (∀ x, x ∉ p → entriesOf d' x = entriesOf d x ∧ hasAcl d' x = hasAcl d x) ∧
      (∀ x ∈ p, hasAcl d' x = false) := by
  have hsame : evsRun d (expand (.cleanup p)) = evsRun d (p.map fun n => Ev.top (.noAcl n)) := by
    cases p with
    | nil => rfl
    | cons n ns => simp only [expand, List.map_cons, evsRun_cons]; rfl
  rw [hsame]
  clear hsame
  induction p generalizing d with
  | nil => exact ⟨d, rfl, rfl, rfl, fun _ _ => ⟨rfl, rfl⟩, by simp⟩
  | cons n ns ih =>
    simp only [List.nodup_cons] at hnd
    obtain ⟨h1, h2⟩ := hp n (List.mem_cons_self ..)
    simp only [List.map_cons, evsRun_cons, run_noAcl d n h1 h2, Option.bind_some]
    obtain ⟨d', hr, hi, hro, hkeep, hgone⟩ := ih hnd.2 (dropAcl d n) (by
      intro x hx
      have hne : x ≠ n := fun hc => hnd.1 (hc ▸ hx)
      obtain ⟨h3, h4⟩ := hp x (List.mem_cons_of_mem _ hx)
      exact ⟨by rw [hasAcl_dropAcl d n x hne]; exact h3, by rw [aclBound_dropAcl]; exact h4⟩)
    refine ⟨d', hr, hi, hro, ?_, ?_⟩
    · intro x hx
      simp only [List.mem_cons, not_or] at hx
      obtain ⟨k1, k2⟩ := hkeep x hx.2
      exact ⟨by rw [k1, entriesOf_dropAcl d n x hx.1], by rw [k2, hasAcl_dropAcl d n x hx.1]⟩
    · intro x hx
      rcases List.mem_cons.mp hx with rfl | hx'
      · by_cases hxin : x ∈ ns
        · exact hgone x hxin
        · rw [(hkeep x hxin).2]
          simp [hasAcl, dropAcl, strip, List.any_filter]
      · exact hgone x hx'


/-! ## the static hypotheses -/

structure WF (a0 b : Config) (sc : Scripts) : Prop where
  aAcls : (a0.acls.map (·.1)).Nodup
  aIntfs : (a0.intfs.map (·.name)).Nodup
  bIntfs : (b.intfs.map (·.name)).Nodup
  aBinds : ∀ i ∈ a0.intfs, (i.binds.map (·.dir)).Nodup ∧ ∀ bd ∈ i.binds, isDir bd.dir = true ∧ a0.hasAcl bd.acl = true
  bBinds : ∀ i ∈ b.intfs, (i.binds.map (·.dir)).Nodup ∧ ∀ bd ∈ i.binds, isDir bd.dir = true ∧ b.hasAcl bd.acl = true
  pairs : ∀ ai ∈ a0.intfs, ∀ bi ∈ b.intfs, ai.name = bi.name → ∀ ba ∈ ai.binds, ∀ bb ∈ bi.binds, ba.dir = bb.dir →
    pairOK (a0.lines ba.acl) (b.lines bb.acl) (lookupD sc.acl (ba.acl, bb.acl)) = true
  appendB : ∀ bN, b.hasAcl bN = true → appendOKFrom [] (b.lines bN) = true
  aRoutes : (a0.routes.map (·.text)).Nodup
  bRoutes : (b.routes.map (·.text)).Nodup
  routeVrf : ∀ r ∈ a0.routes, ∀ r' ∈ b.routes, r.text = r'.text → r.vrf = r'.vrf

/-- What the engine does when `checkIOSInterfaces` succeeds, step by step. -/
theorem engine_unfold (a0 b : Config) (sc : Scripts) (hok : (engine a0 b sc).ok = true) :
    (checkInterfaces (alignVRFs a0 b {}).2 b (alignVRFs a0 b {}).1).2 = true ∧
    (engine a0 b sc).acts =
      (deleteUnused ⟨(alignVRFs a0 b {}).2, b, sc⟩
        (diffRoutes
          (diffIntfs ⟨(alignVRFs a0 b {}).2, b, sc⟩
            (generateNames (alignVRFs a0 b {}).2 b (checkInterfaces (alignVRFs a0 b {}).2 b (alignVRFs a0 b {}).1).1)
            (alignVRFs a0 b {}).2.intfs b.intfs)
          (sortRoutes (alignVRFs a0 b {}).2.routes) (sortRoutes b.routes))).acts ∧
    (engine a0 b sc).script = scriptOf (engine a0 b sc).acts := by
  unfold engine at hok ⊢
  simp only at hok ⊢
  cases hc : (checkInterfaces (alignVRFs a0 b {}).2 b (alignVRFs a0 b {}).1).2 with
  | false => simp [hc] at hok
  | true => simp


/-! ## auxiliary facts for the assembly -/

theorem slot_of_mem_intfs (d : Dev) (hnd : (d.intfs.map (·.name)).Nodup) {i : DIntf} (hi : i ∈ d.intfs) :
    slotOf d i.name "in" = i.inB ∧ slotOf d i.name "out" = i.outB := by
  have hf : d.intfs.find? (fun j => j.name == i.name) = some i := by
    generalize d.intfs = l at hnd hi
    induction l with
    | nil => cases hi
    | cons y ys ih =>
      simp only [List.map_cons, List.nodup_cons] at hnd
      simp only [List.find?_cons]
      rcases List.mem_cons.mp hi with rfl | hi'
      · simp
      · have : (y.name == i.name) = false := by
          rw [Bool.eq_false_iff]; intro hc
          exact hnd.1 (beq_iff_eq.mp hc ▸ List.mem_map_of_mem hi')
        simp only [this]
        exact ih hnd.2 hi'
  simp only [slotOf, hf]
  exact ⟨rfl, rfl⟩

theorem aclBound_slot (d : Dev) (hnd : (d.intfs.map (·.name)).Nodup) (n : Name) (h : aclBound d n = true) :
    ∃ x dir, isDir dir = true ∧ slotOf d x dir = some n := by
  simp only [aclBound, List.any_eq_true, Bool.or_eq_true, beq_iff_eq] at h
  obtain ⟨i, hi, h1 | h1⟩ := h
  · exact ⟨i.name, "in", rfl, by rw [(slot_of_mem_intfs d hnd hi).1]; exact h1⟩
  · exact ⟨i.name, "out", rfl, by rw [(slot_of_mem_intfs d hnd hi).2]; exact h1⟩

theorem lastBind_some {binds : List Bind} {dir : String} {n : Name} (h : lastBind binds dir = some n) :
    ∃ bd ∈ binds, bd.dir = dir ∧ bd.acl = n := by
  unfold lastBind at h
  cases hf : binds.reverse.find? (fun b => b.dir == dir) with
  | none => rw [hf] at h; cases h
  | some bd =>
    rw [hf] at h
    simp only [Option.map_some, Option.some.injEq] at h
    exact ⟨bd, List.mem_reverse.mp (List.mem_of_find?_eq_some hf), by simpa using List.find?_some hf, h⟩

theorem insStep_acts (dels : List (Nat × Route)) (s : List MA × List Nat × List (String × String)) (r : Route)
    (h : ∀ a ∈ s.1, isRouteAct a = true) : ∀ a ∈ (insStep dels s r).1, isRouteAct a = true := by
  unfold insStep
  split
  · intro a ha
    rcases List.mem_append.mp ha with h1 | h1
    · exact h a h1
    · simp only [List.mem_singleton] at h1; subst h1; rfl
  · intro a ha
    rcases List.mem_append.mp ha with h1 | h1
    · exact h a h1
    · simp only [List.mem_singleton] at h1; subst h1; rfl

theorem routePlan_isRoute (al bl : List Route) : ∀ a ∈ (routePlan al bl).1, isRouteAct a = true := by
  unfold routePlan
  split
  · intro a ha
    obtain ⟨r, _, rfl⟩ := List.mem_map.mp ha
    rfl
  · simp only
    intro a ha
    rcases List.mem_append.mp ha with h1 | h1
    · have hfold : ∀ (inss : List Route) (dels : List (Nat × Route)) (s : List MA × List Nat × List (String × String)),
          (∀ a ∈ s.1, isRouteAct a = true) → ∀ a ∈ (inss.foldl (insStep dels) s).1, isRouteAct a = true := by
        intro inss dels
        induction inss with
        | nil => intro s hs; exact hs
        | cons r rs ih => intro s hs; exact ih _ (insStep_acts dels s r hs)
      exact hfold _ _ ([], [], []) (by simp) a h1
    · obtain ⟨d, _, hd⟩ := List.mem_filterMap.mp h1
      split at hd
      · cases hd; rfl
      · cases hd


theorem DelT_perm {al al' bl bl' : List Route} (ha : al'.Perm al) (hb : bl'.Perm bl) (t : String) :
    DelT al' bl' t ↔ DelT al bl t := by
  unfold DelT
  have hm : ∀ x, x ∈ bl'.map (·.text) ↔ x ∈ bl.map (·.text) := fun x => (hb.map _).mem_iff
  have hv : ∀ v, (bl'.map (·.vrf)).contains v = (bl.map (·.vrf)).contains v := by
    intro v
    have := (hb.map (·.vrf)).mem_iff (a := v)
    by_cases h : v ∈ bl.map (·.vrf)
    · rw [List.contains_iff_mem.mpr h, List.contains_iff_mem.mpr (this.mpr h)]
    · have h' : v ∉ bl'.map (·.vrf) := fun hc => h (this.mp hc)
      have e1 : (bl.map (·.vrf)).contains v = false := by simpa using h
      have e2 : (bl'.map (·.vrf)).contains v = false := by simpa using h'
      rw [e1, e2]
  constructor
  · rintro ⟨a, h1, h2, h3, h4⟩
    exact ⟨a, ha.mem_iff.mp h1, h2, fun hc => h3 ((hm t).mpr hc), by rw [← hv]; exact h4⟩
  · rintro ⟨a, h1, h2, h3, h4⟩
    exact ⟨a, ha.mem_iff.mpr h1, h2, fun hc => h3 ((hm t).mp hc), by rw [hv]; exact h4⟩

theorem InsT_perm {al al' bl bl' : List Route} (ha : al'.Perm al) (hb : bl'.Perm bl) (t : String) :
    InsT al' bl' t ↔ InsT al bl t := by
  unfold InsT
  have hm : ∀ x, x ∈ al'.map (·.text) ↔ x ∈ al.map (·.text) := fun x => (ha.map _).mem_iff
  constructor
  · rintro ⟨r, h1, h2, h3⟩
    exact ⟨r, hb.mem_iff.mp h1, h2, fun hc => h3 ((hm t).mpr hc)⟩
  · rintro ⟨r, h1, h2, h3⟩
    exact ⟨r, hb.mem_iff.mpr h1, h2, fun hc => h3 ((hm t).mp hc)⟩

theorem nodup_filter_map {α β : Type} (l : List α) (f : α → β) (p : α → Bool) (h : (l.map f).Nodup) :
    ((l.filter p).map f).Nodup :=
  List.Nodup.sublist (List.Sublist.map f List.filter_sublist) h


/-! ## The run of the engine, with all intermediate objects -/

abbrev aOf (a0 b : Config) : Config := (alignVRFs a0 b {}).2
abbrev st2Of (a0 b : Config) : St := (checkInterfaces (aOf a0 b) b (alignVRFs a0 b {}).1).1
abbrev envOf (a0 b : Config) (sc : Scripts) : Env := ⟨aOf a0 b, b, sc⟩
abbrev st3Of (a0 b : Config) (sc : Scripts) : St :=
  diffIntfs (envOf a0 b sc) (generateNames (aOf a0 b) b (st2Of a0 b)) (aOf a0 b).intfs b.intfs

theorem rStep_nodup {R R' : List String} {a : MA} (h : rStep R a = some R') (hnd : R.Nodup) : R'.Nodup := by
  have happ : ∀ (L : List String) (x : String), L.Nodup → L.contains x = false → (L ++ [x]).Nodup := by
    intro L x hL hx
    rw [List.nodup_append]
    refine ⟨hL, by simp, ?_⟩
    intro y hy z hz
    simp only [List.mem_singleton] at hz
    intro hc
    rw [hz] at hc
    rw [← hc, List.contains_iff_mem.mpr hy] at hx; cases hx
  cases a with
  | route r =>
    simp only [rStep] at h
    split at h
    · cases h
    · rename_i hc
      injection h with h; rw [← h]
      exact happ R r hnd (by simpa using hc)
  | noRoute r =>
    simp only [rStep] at h
    split at h
    · injection h with h; rw [← h]; exact List.Nodup.sublist List.filter_sublist hnd
    · cases h
  | replRoute o n =>
    simp only [rStep] at h
    split at h
    · cases h
    · split at h
      · cases h
      · rename_i hc
        injection h with h; rw [← h]
        exact happ _ n (List.Nodup.sublist List.filter_sublist hnd) (by simpa using hc)
  | transfer _ _ => simp [rStep] at h
  | edit _ _ _ _ => simp [rStep] at h
  | bind _ _ _ => simp [rStep] at h
  | unbind _ _ _ => simp [rStep] at h
  | cleanup _ => simp [rStep] at h

theorem rRun_nodup (acts : List MA) {R R' : List String} (h : rRun R acts = some R') (hnd : R.Nodup) : R'.Nodup := by
  induction acts generalizing R with
  | nil =>
    have : R = R' := by simpa [rRun] using h
    rw [← this]; exact hnd
  | cons a acts ih =>
    simp only [rRun, List.foldlM_cons] at h
    cases hs : rStep R a with
    | none => rw [hs] at h; simp at h
    | some R1 =>
      rw [hs] at h
      exact ih h (rStep_nodup hs hnd)

/-- What the run of the engine on a pair of the class `WF` looks like: the device `d1` after the
interface phase with its invariant, the final device `d3`, the removed ACLs `p`. -/
structure Core (a0 b : Config) (sc : Scripts) (d0 d1 : Dev) (σ1 : String → String → Status) (π1 : List (Nat × Nat))
    (d3 : Dev) (p : List Name) : Prop where
  sem : Sem (envOf a0 b sc) (st2Of a0 b).aNeeded d0 (st3Of a0 b sc) d1 σ1 π1
  done : ∀ bi ∈ b.intfs, ∃ ai ∈ (aOf a0 b).intfs, ai.name = bi.name ∧ Done σ1 bi.name ai.binds bi.binds
  orig : ∀ y, y ∉ b.intfs.map (·.name) → ∀ dir, σ1 y dir = .orig
  pmem : ∀ n ∈ p, a0.hasAcl n = true ∧ n ∉ (st3Of a0 b sc).aNeeded
  pdef : p = (duPending (envOf a0 b sc) (diffRoutes (st3Of a0 b sc) (sortRoutes (aOf a0 b).routes) (sortRoutes b.routes))).1
  exec : (exec d0 (engine a0 b sc).script).map strip = some (strip d3)
  intfs3 : d3.intfs = d1.intfs
  routes3 : ∀ t, t ∈ d3.routes ↔ (t ∈ a0.routes.map (·.text) ∧ ¬ DelT (aOf a0 b).routes b.routes t) ∨
    InsT (aOf a0 b).routes b.routes t
  routesNd : d3.routes.Nodup
  keep3 : ∀ x, x ∉ p → entriesOf d3 x = entriesOf d1 x ∧ hasAcl d3 x = hasAcl d1 x
  gone3 : ∀ x ∈ p, hasAcl d3 x = false
  marked : ∀ i ∈ a0.intfs, i.name ∉ b.intfs.map (·.name) → Marked a0 (st2Of a0 b) i
  core2 : CoreEmpty (st2Of a0 b)
  aclsEq : (aOf a0 b).acls = a0.acls
  subI : ∀ i ∈ (aOf a0 b).intfs, i ∈ a0.intfs
  cov : ∀ bi ∈ b.intfs, ∃ ai ∈ (aOf a0 b).intfs, ai.name = bi.name

theorem F2_core (a0 b : Config) (sc : Scripts) (hw : WF a0 b sc) (hok : (engine a0 b sc).ok = true)
    (d0 : Dev) (hr : Reads d0 a0) :
    ∃ d1 σ1 π1 d3 p, Core a0 b sc d0 d1 σ1 π1 d3 p := by
  obtain ⟨hchk, hacts, hscript⟩ := engine_unfold a0 b sc hok
  -- names for the intermediate states
  obtain ⟨a', ha'⟩ : ∃ a', a' = (alignVRFs a0 b {}).2 := ⟨_, rfl⟩
  obtain ⟨st1, hst1⟩ : ∃ st1, st1 = (alignVRFs a0 b {}).1 := ⟨_, rfl⟩
  obtain ⟨st2, hst2⟩ : ∃ st2, st2 = (checkInterfaces a' b st1).1 := ⟨_, rfl⟩
  rw [← ha', ← hst1] at hchk hacts
  rw [← hst2] at hacts
  obtain ⟨halign, haacls, halintf, ⟨pI, hpI⟩, ⟨pR, hpR⟩⟩ := alignVRFs_spec a0 b {} ⟨rfl, rfl, rfl, rfl, rfl, rfl⟩
  rw [← hst1] at halign
  rw [← ha'] at haacls hpI hpR
  rw [← ha', ← hst1] at halintf
  obtain ⟨hcheck, hunknown, hcov⟩ := checkInterfaces_spec a' b st1 halign.core hchk
  rw [← hst2] at hcheck hunknown
  have hhas : ∀ n, a'.hasAcl n = a0.hasAcl n := fun n => by simp [Config.hasAcl, haacls]
  have hlines : ∀ n, a'.lines n = a0.lines n := fun n => by simp [Config.lines, haacls]
  obtain ⟨e, he⟩ : ∃ e : Env, e = ⟨a', b, sc⟩ := ⟨_, rfl⟩
  have hea : e.a = a' := by rw [he]
  have heb : e.b = b := by rw [he]
  have hesc : e.sc = sc := by rw [he]
  have hsem0 := sem_init a0 b sc hw.aAcls st2 a' haacls hcheck.core d0 hr
  rw [← he] at hsem0
  rw [← he] at hacts
  -- static facts
  have hsubI : ∀ i ∈ a'.intfs, i ∈ a0.intfs := fun i hi => by rw [hpI] at hi; exact (List.mem_filter.mp hi).1
  have hwfe : WFE e := by
    constructor
    · intro aN bN _ _ hcmp
      obtain ⟨ai, hai, bi, hbi, hn, ba, hba, bb, hbb, hd, rfl, rfl⟩ := hcmp
      rw [hea] at hai; rw [heb] at hbi
      rw [hea, heb, hesc, hlines]
      exact hw.pairs ai (hsubI ai hai) bi hbi hn ba hba bb hbb hd
    · intro bN h1
      rw [heb] at h1 ⊢
      exact hw.appendB bN h1
  have haNames' : (a'.intfs.map (·.name)).Nodup := by rw [hpI]; exact nodup_filter_map _ _ _ hw.aIntfs
  have hbindsA : ∀ ai ∈ a'.intfs, BindsA e d0 ai.name ai.binds := by
    intro ai hai
    have hai0 := hsubI ai hai
    obtain ⟨h1, h2⟩ := hw.aBinds ai hai0
    refine ⟨h1, fun bd hbd => (h2 bd hbd).1, fun bd hbd => by rw [hea, hhas]; exact (h2 bd hbd).2, ?_, ?_⟩
    · rw [hr.hasI]; exact hasIntf_ofConfig a0 hai0
    · intro bd hbd
      rw [hr.slot, slotOf_ofConfig a0 hw.aIntfs hai0 bd.dir (h2 bd hbd).1]
      exact lastBind_of_mem h1 hbd
  have hwfi : WFI e d0 := by
    refine ⟨by rw [hea]; exact haNames', by rw [heb]; exact hw.bIntfs, by rw [hea]; exact hbindsA, ?_⟩
    intro bi hbi
    rw [heb] at hbi
    obtain ⟨h1, h2⟩ := hw.bBinds bi hbi
    exact ⟨h1, fun bd hbd => (h2 bd hbd).1, fun bd hbd => by rw [heb]; exact (h2 bd hbd).2⟩
  -- phase 1: interfaces
  obtain ⟨d1, σ1, π1, hsem1, hdone, horig⟩ := sem_diffIntfs hwfe hwfi (by rw [hea, heb]; exact hcov) hsem0
    (fun _ _ => rfl)
  rw [hea, heb] at hdone hsem1
  rw [heb] at horig
  obtain ⟨st3, hst3⟩ : ∃ st3, st3 = diffIntfs e (generateNames a' b st2) a'.intfs b.intfs := ⟨_, rfl⟩
  rw [← hst3] at hsem1 hacts
  -- phase 2: routes
  obtain ⟨plan, hplan⟩ : ∃ plan, plan = (routePlan (sortRoutes a'.routes) (sortRoutes b.routes)).1 := ⟨_, rfl⟩
  obtain ⟨R, hR⟩ : ∃ R, R = a0.routes.map (·.text) := ⟨_, rfl⟩
  have hd1routes : d1.routes = R := by rw [hsem1.routes, hr.routes, hR]
  have hrwf : RoutesWF (sortRoutes a'.routes) (sortRoutes b.routes) R := by
    have hpa := perm_sortRoutes a'.routes
    have hpb := perm_sortRoutes b.routes
    refine ⟨?_, ?_, ?_, ?_⟩
    · rw [(hpa.map _).nodup_iff, hpR]; exact nodup_filter_map _ _ _ hw.aRoutes
    · rw [(hpb.map _).nodup_iff]; exact hw.bRoutes
    · intro r hr
      have := hpa.mem_iff.mp hr
      rw [hpR] at this
      rw [hR]; exact List.mem_map_of_mem (List.mem_filter.mp this).1
    · intro r hr hrR
      have hrb := hpb.mem_iff.mp hr
      rw [hR] at hrR
      obtain ⟨r0, hr0, hr0t⟩ := List.mem_map.mp hrR
      -- the device route with that text lies in a VRF the target mentions
      have hvrf : r0.vrf = r.vrf := hw.routeVrf r0 hr0 r hrb hr0t
      have hr0a' : r0 ∈ a'.routes := by
        -- `alignVRFs` keeps the routes of the VRFs of the target
        have hkeep : ∀ x ∈ a0.routes, x.vrf ∈ b.routes.map (·.vrf) → x ∈ (alignVRFs a0 b {}).2.routes := by
          intro x hx hv
          unfold alignVRFs
          simp only
          split
          · exact hx
          · exact List.mem_filter.mpr ⟨hx, by simp [hv]⟩
        rw [ha']; exact hkeep r0 hr0 (by rw [hvrf]; exact List.mem_map_of_mem hrb)
      rw [← hr0t]
      exact (hpa.map _).mem_iff.mpr (List.mem_map_of_mem hr0a')
  obtain ⟨R', hrun2, hR'⟩ := routes_run _ _ R hrwf
  rw [← hplan] at hrun2
  obtain ⟨st4, hst4⟩ : ∃ st4, st4 = diffRoutes st3 (sortRoutes a'.routes) (sortRoutes b.routes) := ⟨_, rfl⟩
  rw [← hst4] at hacts
  have hst4acts : st4.acts = st3.acts ++ plan := by rw [hst4, hplan]; rfl
  have hst4N : st4.aNeeded = st3.aNeeded := by rw [hst4]; rfl
  have hst4T : st4.aToDel = st3.aToDel := by rw [hst4]; rfl
  obtain ⟨d2, hd2⟩ : ∃ d2, d2 = setRoutes d1 R' := ⟨_, rfl⟩
  have hrun4 : actsRun d0 st4.acts = some d2 := by
    rw [hst4acts, actsRun, List.flatMap_append, evsRun_append]
    have := hsem1.run
    rw [actsRun] at this
    rw [this, Option.bind_some, evsRun_routeActs plan (by rw [hplan]; exact routePlan_isRoute _ _) d1 hsem1.mode,
      hd1routes, hrun2, hd2]
    rfl
  -- phase 3: clean-up
  obtain ⟨⟨p, sr⟩, hdp⟩ : ∃ r, duPending e st4 = r := ⟨_, rfl⟩
  have hp : p = (duPending e st4).1 := by rw [hdp]
  have hpmem : ∀ n ∈ p, a0.hasAcl n = true ∧ n ∉ st3.aNeeded := by
    intro n hn
    rw [hp] at hn
    unfold duPending at hn
    simp only at hn
    have h1 := (perm_sortS _).mem_iff.mp hn
    obtain ⟨h2, _⟩ := List.mem_filter.mp h1
    obtain ⟨h3, h4⟩ := List.mem_filter.mp h2
    rw [hea] at h3
    simp only [Bool.and_eq_true, Bool.not_eq_true'] at h4
    refine ⟨by rw [← hhas]; exact (hasAcl_config_iff a' n).mpr h3, ?_⟩
    rw [← hst4N]
    intro hc
    have : st4.aNeeded.contains n = true := by simpa using hc
    rw [this] at h4; cases h4.1
  have hpnd : p.Nodup := by
    rw [hp]
    unfold duPending
    simp only
    rw [(perm_sortS _).nodup_iff]
    apply List.Nodup.sublist (List.filter_sublist.trans List.filter_sublist)
    rw [hea, haacls]; exact hw.aAcls
  have hd1names : (d1.intfs.map (·.name)).Nodup := by
    rw [hsem1.intfs, hr.intfs, intfNames_ofConfig]; exact hw.aIntfs
  -- no slot of the device refers to an ACL that is removed
  have hnoslot : ∀ n ∈ p, ∀ x dir, isDir dir = true → slotOf d1 x dir ≠ some n := by
    intro n hn x dir hdir hslot
    obtain ⟨hna, hnn⟩ := hpmem n hn
    have hs := hsem1.slots x dir hdir
    cases hσ : σ1 x dir with
    | cleared => rw [hσ] at hs; simp only [SlotOK] at hs; rw [hs] at hslot; cases hslot
    | settled bN =>
      rw [hσ] at hs
      obtain ⟨hr, hs2⟩ := hs
      rw [hs2] at hslot
      have hname : st3.nameOf bN = n := Option.some.inj hslot
      obtain ⟨_, _, _, h4⟩ := hsem1.ready bN hr
      rw [hname] at h4
      rcases h4 with h4 | h4
      · exact hnn h4
      · rw [hea, hhas, hna] at h4; cases h4
    | orig =>
      rw [hσ] at hs
      simp only [SlotOK] at hs
      rw [hs] at hslot
      -- the interface `x` of the original device binds `n` in direction `dir`
      have hx : x ∈ a0.intfs.map (·.name) := by
        by_cases hc : x ∈ a0.intfs.map (·.name)
        · exact hc
        · exfalso
          have : slotOf d0 x dir = none := by
            rw [hr.slot]
            simp only [slotOf, ofConfig]
            have : (a0.intfs.map fun i => (⟨i.name, i.vrf, lastBind i.binds "in", lastBind i.binds "out"⟩ : DIntf)).find?
                (fun i => i.name == x) = none := by
              rw [List.find?_eq_none]
              intro i hi hcc
              obtain ⟨j, hj, rfl⟩ := List.mem_map.mp hi
              exact hc (List.mem_map.mpr ⟨j, hj, by simpa using hcc⟩)
            rw [this]
          rw [this] at hslot; cases hslot
      obtain ⟨i0, hi0, rfl⟩ := List.mem_map.mp hx
      rw [hr.slot, slotOf_ofConfig a0 hw.aIntfs hi0 dir hdir] at hslot
      obtain ⟨bd, hbd, hbdir, hbacl⟩ := lastBind_some hslot
      have hmarked : Marked a0 st2 i0 → False := by
        intro hm
        have h1 : n ∈ st2.aNeeded := by rw [← hbacl]; exact hm bd hbd (by rw [hbacl]; exact hna)
        exact hnn (hsem1.prot n (by rw [hea, hhas]; exact hna) h1).1
      by_cases hb : i0.name ∈ b.intfs.map (·.name)
      · -- paired: the status is not `orig` for a direction the device binds
        obtain ⟨bi, hbi, hbn⟩ := List.mem_map.mp hb
        obtain ⟨ai, hai, hain, hdn⟩ := hdone bi hbi
        have : ai = i0 := by
          have hai0 := hsubI ai hai
          obtain ⟨k, hk, hkk⟩ := List.getElem_of_mem hai0
          obtain ⟨k', hk', hkk'⟩ := List.getElem_of_mem hi0
          have : k = k' := by
            have h1 : (a0.intfs.map (·.name))[k]'(by simpa using hk) = (a0.intfs.map (·.name))[k']'(by simpa using hk') := by
              simp only [List.getElem_map, hkk, hkk', hain, hbn]
            exact (List.getElem_inj hw.aIntfs).mp h1
          subst this
          rw [← hkk, ← hkk']
        subst this
        rw [← hbn] at hσ
        by_cases hdb : dir ∈ bi.binds.map (·.dir)
        · obtain ⟨bb, hbb, hbbd⟩ := List.mem_map.mp hdb
          have := hdn.settled bb hbb
          rw [hbbd, hbn, ← hbn, hσ] at this
          cases this
        · have := hdn.cleared bd hbd (by rw [hbdir]; exact hdb)
          rw [hbdir, hbn, ← hbn, hσ] at this
          cases this
      · -- not paired: its ACLs are `needed` from the start
        rcases halintf i0 hi0 with h1 | h1
        · exact hmarked (by
            have := hunknown i0 h1 ((bFind_none_iff b i0.name).mpr hb)
            intro bd' hbd' hh
            exact this bd' hbd' (by rw [hhas]; exact hh))
        · exact hmarked (marked_mono hcheck.mono h1)
  have hpok : ∀ n ∈ p, hasAcl d2 n = true ∧ aclBound d2 n = false := by
    intro n hn
    obtain ⟨hna, _⟩ := hpmem n hn
    refine ⟨by rw [hd2]; exact hsem1.aHas n (by rw [hea, hhas]; exact hna), ?_⟩
    rw [Bool.eq_false_iff]
    intro hc
    have hc1 : aclBound d1 n = true := by rw [hd2] at hc; exact hc
    obtain ⟨x, dir, hdir, hs⟩ := aclBound_slot d1 hd1names n hc1
    exact hnoslot n hn x dir hdir hs
  obtain ⟨d3, hrun5, hd3i, hd3r, hd3keep, hd3gone⟩ := run_cleanup p hpnd d2 hpok
  -- the final device
  have hfinal : actsRun d0 (engine a0 b sc).acts = some d3 := by
    rw [hacts]
    unfold deleteUnused
    rw [hdp]
    simp only
    have hacts4 : (if sr = true then st4.hit "du:still-referenced" else st4).acts = st4.acts := by
      split <;> rfl
    by_cases hpe : p.isEmpty = true
    · simp only [hpe, ↓reduceIte]
      rw [hacts4, hrun4]
      have : p = [] := List.isEmpty_iff.mp hpe
      subst this
      exact hrun5
    · simp only [hpe, Bool.false_eq_true, ↓reduceIte]
      show actsRun d0 ((if sr = true then st4.hit "du:still-referenced" else st4).acts ++ [MA.cleanup p]) = _
      rw [hacts4, actsRun_snoc, hrun4, Option.bind_some, hrun5]
  have hslot3 : ∀ x dir, slotOf d3 x dir = slotOf d1 x dir := by
    intro x dir
    simp only [slotOf, hd3i, hd2]
    rfl
  have hexec : (exec d0 (engine a0 b sc).script).map strip = some (strip d3) := by
    rw [hscript, exec_script _ _ hr.mode]
    have := hfinal
    rw [actsRun] at this
    rw [this]; rfl
  have hroutes3 : ∀ t, t ∈ d3.routes ↔ (t ∈ a0.routes.map (·.text) ∧ ¬ DelT a'.routes b.routes t) ∨ InsT a'.routes b.routes t := by
    intro t
    have : d3.routes = R' := by rw [hd3r, hd2]; rfl
    rw [this, hR' t, DelT_perm (perm_sortRoutes a'.routes) (perm_sortRoutes b.routes),
      InsT_perm (perm_sortRoutes a'.routes) (perm_sortRoutes b.routes), hR]
  have hrnd : d3.routes.Nodup := by
    have : d3.routes = R' := by rw [hd3r, hd2]; rfl
    rw [this]
    exact rRun_nodup plan hrun2 (by rw [hR]; exact hw.aRoutes)
  have hmarked : ∀ i ∈ a0.intfs, i.name ∉ b.intfs.map (·.name) → Marked a0 st2 i := by
    intro i hi hib
    rcases halintf i hi with h1 | h1
    · intro bd hbd hh
      exact hunknown i h1 ((bFind_none_iff b i.name).mpr hib) bd hbd (by rw [hhas]; exact hh)
    · exact marked_mono hcheck.mono h1
  have hkeep3 : ∀ x, x ∉ p → entriesOf d3 x = entriesOf d1 x ∧ hasAcl d3 x = hasAcl d1 x := by
    intro x hx
    obtain ⟨k1, k2⟩ := hd3keep x hx
    exact ⟨by rw [k1, hd2]; rfl, by rw [k2, hd2]; rfl⟩
  have hgone3 : ∀ x ∈ p, hasAcl d3 x = false := hd3gone
  subst hst3 hst4 he hst2 hst1 ha'
  exact ⟨d1, σ1, π1, d3, p, ⟨hsem1, hdone, horig, hpmem, hp, hexec, (by rw [hd3i, hd2]; rfl), hroutes3, hrnd, hkeep3, hgone3, hmarked,
    hcheck.core, haacls, hsubI, hcov⟩⟩

/-- The conclusions of the end-to-end theorem, for the final device of a run (`Core`). -/
theorem core_e2e {a0 b : Config} {sc : Scripts} (hw : WF a0 b sc) {d0 d1 : Dev} (hr : Reads d0 a0)
    {σ1 : String → String → Status}
    {π1 : List (Nat × Nat)} {d3 : Dev} {p : List Name} (hc : Core a0 b sc d0 d1 σ1 π1 d3 p) :
      (∀ bi ∈ b.intfs, ∀ bd ∈ bi.binds, ∃ n, slotOf (strip d3) bi.name bd.dir = some n ∧ hasAcl (strip d3) n = true ∧
          AclEqv (linesOf (strip d3) n) (b.lines bd.acl)) ∧
      (∀ bi ∈ b.intfs, ∀ dir, isDir dir = true → dir ∉ bi.binds.map (·.dir) → slotOf (strip d3) bi.name dir = none) ∧
      (∀ t, t ∈ (strip d3).routes ↔ (t ∈ a0.routes.map (·.text) ∧ ¬ DelT (alignVRFs a0 b {}).2.routes b.routes t) ∨
          InsT (alignVRFs a0 b {}).2.routes b.routes t) ∧
      (∀ x, x ∉ b.intfs.map (·.name) → ∀ dir, isDir dir = true → slotOf (strip d3) x dir = slotOf d0 x dir) ∧
      (∀ i ∈ a0.intfs, i.name ∉ b.intfs.map (·.name) → ∀ bd ∈ i.binds,
          hasAcl (strip d3) bd.acl = true ∧ entriesOf (strip d3) bd.acl = entriesOf d0 bd.acl) := by
  have hsem1 := hc.sem
  have hhas : ∀ n, (aOf a0 b).hasAcl n = a0.hasAcl n := fun n => by simp [Config.hasAcl, hc.aclsEq]
  have hslot3 : ∀ x dir, slotOf d3 x dir = slotOf d1 x dir := by
    intro x dir
    simp only [slotOf, hc.intfs3]
  refine ⟨?_, ?_, hc.routes3, ?_, ?_⟩
  · -- bindings of the target
    intro bi hbi bd hbd
    obtain ⟨ai, _, _, hdn⟩ := hc.done bi hbi
    have hσ := hdn.settled bd hbd
    have hdir := (hw.bBinds bi hbi).2 bd hbd
    have hs := hsem1.slots bi.name bd.dir hdir.1
    rw [hσ] at hs
    obtain ⟨hr, hs2⟩ := hs
    obtain ⟨_, h2, h3, h4⟩ := hsem1.ready bd.acl hr
    have hnp : (st3Of a0 b sc).nameOf bd.acl ∉ p := by
      intro hcc
      obtain ⟨hna, hnn⟩ := hc.pmem _ hcc
      rcases h4 with h4 | h4
      · exact hnn h4
      · have h4' : a0.hasAcl ((st3Of a0 b sc).nameOf bd.acl) = false := by rw [← hhas]; exact h4
        rw [hna] at h4'; cases h4'
    obtain ⟨k1, k2⟩ := hc.keep3 _ hnp
    refine ⟨(st3Of a0 b sc).nameOf bd.acl, by rw [slotOf_strip, hslot3]; exact hs2, ?_, ?_⟩
    · rw [hasAcl_strip, k2]; exact h2
    · have : linesOf (strip d3) ((st3Of a0 b sc).nameOf bd.acl) = linesOf d1 ((st3Of a0 b sc).nameOf bd.acl) := by
        simp only [linesOf, entriesOf_strip, k1]
      rw [this]; exact h3.1
  · intro bi hbi dir hdir hnb
    obtain ⟨ai, hai, hain, hdn⟩ := hc.done bi hbi
    rw [slotOf_strip, hslot3]
    have hs := hsem1.slots bi.name dir hdir
    by_cases hda : dir ∈ ai.binds.map (·.dir)
    · obtain ⟨aa, haa, haad⟩ := List.mem_map.mp hda
      have := hdn.cleared aa haa (by rw [haad]; exact hnb)
      rw [haad] at this
      rw [this] at hs
      exact hs
    · have := hdn.orig dir hda hnb
      rw [this] at hs
      simp only [SlotOK] at hs
      rw [hs, ← hain, hr.slot, slotOf_ofConfig a0 hw.aIntfs (hc.subI ai hai) dir hdir]
      exact lastBind_none hda
  · intro x hx dir hdir
    rw [slotOf_strip, hslot3]
    have hs := hsem1.slots x dir hdir
    rw [hc.orig x hx dir] at hs
    simp only [SlotOK] at hs
    exact hs
  · intro i hi hib bd hbd
    have hbdok := (hw.aBinds i hi).2 bd hbd
    have hmarked : bd.acl ∈ (st2Of a0 b).aNeeded := hc.marked i hi hib bd hbd hbdok.2
    obtain ⟨hn3, hkeep1⟩ := hsem1.prot bd.acl (by show (aOf a0 b).hasAcl bd.acl = true; rw [hhas]; exact hbdok.2) hmarked
    have hnp : bd.acl ∉ p := fun hcc => (hc.pmem _ hcc).2 hn3
    obtain ⟨k1, k2⟩ := hc.keep3 _ hnp
    refine ⟨?_, ?_⟩
    · rw [hasAcl_strip, k2]; exact hsem1.aHas _ (by show (aOf a0 b).hasAcl bd.acl = true; rw [hhas]; exact hbdok.2)
    · rw [entriesOf_strip, k1]
      exact hkeep1


/-- END TO END. -/
theorem F2_end_to_end (a0 b : Config) (sc : Scripts) (hw : WF a0 b sc) (hok : (engine a0 b sc).ok = true) :
    ∃ d', (exec (ofConfig a0) (engine a0 b sc).script).map strip = some d' ∧
      (∀ bi ∈ b.intfs, ∀ bd ∈ bi.binds, ∃ n, slotOf d' bi.name bd.dir = some n ∧ hasAcl d' n = true ∧
          AclEqv (linesOf d' n) (b.lines bd.acl)) ∧
      (∀ bi ∈ b.intfs, ∀ dir, isDir dir = true → dir ∉ bi.binds.map (·.dir) → slotOf d' bi.name dir = none) ∧
      (∀ t, t ∈ d'.routes ↔ (t ∈ a0.routes.map (·.text) ∧ ¬ DelT (alignVRFs a0 b {}).2.routes b.routes t) ∨
          InsT (alignVRFs a0 b {}).2.routes b.routes t) ∧
      (∀ x, x ∉ b.intfs.map (·.name) → ∀ dir, isDir dir = true → slotOf d' x dir = slotOf (ofConfig a0) x dir) ∧
      (∀ i ∈ a0.intfs, i.name ∉ b.intfs.map (·.name) → ∀ bd ∈ i.binds,
          hasAcl d' bd.acl = true ∧ entriesOf d' bd.acl = entriesOf (ofConfig a0) bd.acl) := by
  obtain ⟨d1, σ1, π1, d3, p, hc⟩ := F2_core a0 b sc hw hok (ofConfig a0) (reads_ofConfig a0)
  exact ⟨strip d3, hc.exec, core_e2e hw (reads_ofConfig a0) hc⟩

/-- END TO END from any device that reads as `a0` (whatever the entry numbers of its access lists). -/
theorem F2_end_to_end_from (a0 b : Config) (sc : Scripts) (hw : WF a0 b sc) (hok : (engine a0 b sc).ok = true)
    (d0 : Dev) (hr : Reads d0 a0) :
    ∃ d', (exec d0 (engine a0 b sc).script).map strip = some d' ∧
      (∀ bi ∈ b.intfs, ∀ bd ∈ bi.binds, ∃ n, slotOf d' bi.name bd.dir = some n ∧ hasAcl d' n = true ∧
          AclEqv (linesOf d' n) (b.lines bd.acl)) ∧
      (∀ bi ∈ b.intfs, ∀ dir, isDir dir = true → dir ∉ bi.binds.map (·.dir) → slotOf d' bi.name dir = none) ∧
      (∀ t, t ∈ d'.routes ↔ (t ∈ a0.routes.map (·.text) ∧ ¬ DelT (alignVRFs a0 b {}).2.routes b.routes t) ∨
          InsT (alignVRFs a0 b {}).2.routes b.routes t) ∧
      (∀ x, x ∉ b.intfs.map (·.name) → ∀ dir, isDir dir = true → slotOf d' x dir = slotOf d0 x dir) ∧
      (∀ i ∈ a0.intfs, i.name ∉ b.intfs.map (·.name) → ∀ bd ∈ i.binds,
          hasAcl d' bd.acl = true ∧ entriesOf d' bd.acl = entriesOf d0 bd.acl) := by
  obtain ⟨d1, σ1, π1, d3, p, hc⟩ := F2_core a0 b sc hw hok d0 hr
  exact ⟨strip d3, hc.exec, core_e2e hw hr hc⟩

theorem WF_of_wfB {a0 b : Config} {sc : Scripts} (h : wfB a0 b sc = true) : WF a0 b sc := by
  simp only [wfB, Bool.and_eq_true, decide_eq_true_eq, List.all_eq_true, Bool.or_eq_true, bne_iff_ne, ne_eq,
    beq_iff_eq] at h
  obtain ⟨⟨⟨⟨⟨⟨⟨⟨⟨h1, h2⟩, h3⟩, h4⟩, h5⟩, h6⟩, h7⟩, h8⟩, h9⟩, h10⟩ := h
  refine ⟨h1, h2, h3, ?_, ?_, ?_, ?_, h8, h9, ?_⟩
  · intro i hi
    obtain ⟨k1, k2⟩ := h4 i hi
    exact ⟨k1, fun bd hbd => k2 bd hbd⟩
  · intro i hi
    obtain ⟨k1, k2⟩ := h5 i hi
    exact ⟨k1, fun bd hbd => k2 bd hbd⟩
  · intro ai hai bi hbi hn ba hba bb hbb hd
    rcases h6 ai hai bi hbi with k | k
    · exact absurd hn k
    · rcases k ba hba bb hbb with k2 | k2
      · exact absurd hd k2
      · exact k2
  · intro bN hb
    exact h7 bN ((hasAcl_config_iff b bN).mp hb)
  · intro r hr r' hr' ht
    rcases h10 r hr r' hr' with k | k
    · exact absurd ht k
    · exact k

end NA.F2
