import NA.Model.AsaEngine
/-!
# F1: what `diffUnordered` computes (index level)

For a duplicate-free list `as` of keys: the delete ranges cover exactly the positions of `as` whose key is not
in `bs`, the insert ranges exactly the positions of `bs` whose key is not in `as`, the other ranges pair
every other position of `as` with the LAST position of its key in `bs`; all in ascending order.
-/
namespace NA.F1
open NA.Acl (Range)

def delIdxOf (diff : List Range) : List Nat :=
  diff.flatMap fun r => if r.isDelete then (List.range (r.highA - r.lowA)).map (r.lowA + ·) else []

def insIdxOf (diff : List Range) : List Nat :=
  diff.flatMap fun r => if r.isInsert then (List.range (r.highB - r.lowB)).map (r.lowB + ·) else []

def eqIdxOf (diff : List Range) : List (Nat × Nat) :=
  diff.flatMap fun r =>
    if !r.isInsert && !r.isDelete then (List.range (r.highA - r.lowA)).map (fun t => (r.lowA + t, r.lowB + t)) else []

theorem lastIdx_none_iff (k : String) (bs : List String) : lastIdx k bs = none ↔ k ∉ bs := by
  unfold lastIdx
  rw [List.find?_eq_none]
  constructor
  · intro h hk
    obtain ⟨j, hj, hjk⟩ := List.getElem_of_mem hk
    have := h j (by simp [hj])
    simp [List.getD_eq_getElem?_getD, List.getElem?_eq_getElem hj, hjk] at this
  · intro h j hj
    have hj' : j < bs.length := by simpa using hj
    simp only [List.getD_eq_getElem?_getD, List.getElem?_eq_getElem hj', Option.getD_some, beq_iff_eq]
    intro e1
    exact h (e1 ▸ List.getElem_mem hj')

theorem lastIdx_some {k : String} {bs : List String} {j : Nat} (h : lastIdx k bs = some j) :
    j < bs.length ∧ bs.getD j "" = k := by
  unfold lastIdx at h
  have h1 := List.find?_some h
  have h2 := List.mem_of_find?_eq_some h
  exact ⟨by simpa using h2, by simpa using h1⟩

theorem range_succ_filter (p : Nat → Bool) (n : Nat) :
    (List.range (n + 1)).filter p = (List.range n).filter p ++ (if p n then [n] else []) := by
  rw [List.range_succ, List.filter_append]
  congr 1
  by_cases h : p n = true <;> simp [h]

/-- Invariant of the first loop after `n` keys of `as`. -/
structure InvA (as bs : List String) (n : Nat) (res : List Range) (matched : List String) : Prop where
  dels : delIdxOf res.reverse = (List.range n).filter fun i => !bs.contains (as.getD i "")
  inss : insIdxOf res.reverse = []
  eqs : eqIdxOf res.reverse = (List.range n).filterMap fun i => (lastIdx (as.getD i "") bs).map fun j => (i, j)
  matched : ∀ k, k ∈ matched ↔ (∃ i, i < n ∧ as.getD i "" = k) ∧ k ∈ bs
  wf : ∀ p ∈ res, p.lowA < p.highA ∧ p.lowB ≤ p.highB ∧ p.highA ≤ n ∧ (p.isDelete = false → p.highB ≤ bs.length)

theorem range_succ_filterMap {β : Type} (f : Nat → Option β) (n : Nat) :
    (List.range (n + 1)).filterMap f = (List.range n).filterMap f ++ (match f n with | some x => [x] | none => []) := by
  rw [List.range_succ, List.filterMap_append]
  congr 1
  cases h : f n <;> simp [h]

theorem delIdxOf_rev_cons (p : Range) (rest : List Range) :
    delIdxOf (p :: rest).reverse = delIdxOf rest.reverse ++
      (if p.isDelete then (List.range (p.highA - p.lowA)).map (p.lowA + ·) else []) := by
  simp [delIdxOf, List.flatMap_append]

theorem insIdxOf_rev_cons (p : Range) (rest : List Range) :
    insIdxOf (p :: rest).reverse = insIdxOf rest.reverse ++
      (if p.isInsert then (List.range (p.highB - p.lowB)).map (p.lowB + ·) else []) := by
  simp [insIdxOf, List.flatMap_append]

theorem eqIdxOf_rev_cons (p : Range) (rest : List Range) :
    eqIdxOf (p :: rest).reverse = eqIdxOf rest.reverse ++
      (if !p.isInsert && !p.isDelete then (List.range (p.highA - p.lowA)).map (fun t => (p.lowA + t, p.lowB + t)) else []) := by
  simp [eqIdxOf, List.flatMap_append]

theorem part_extend (lo n : Nat) (h : lo ≤ n) {β : Type} (f : Nat → β) :
    (List.range (n + 1 - lo)).map f = (List.range (n - lo)).map f ++ [f (n - lo)] := by
  have : n + 1 - lo = (n - lo) + 1 := by omega
  rw [this, List.range_succ, List.map_append]
  rfl

theorem duStepA_inv (as bs : List String) (has : as.Nodup) (n : Nat) (hn : n < as.length)
    (res : List Range) (matched : List String) (h : InvA as bs n res matched) :
    ∃ res' matched', duStepA bs (res, matched, n) (as.getD n "") = (res', matched', n + 1) ∧
      InvA as bs (n + 1) res' matched' := by
  generalize hk : as.getD n "" = k
  have hk' : as[n] = k := by
    rw [List.getD_eq_getElem?_getD, List.getElem?_eq_getElem hn] at hk; simpa using hk
  -- `k` was not seen before
  have hfresh : matched.contains k = false := by
    cases hc : matched.contains k
    · rfl
    · exfalso
      have : k ∈ matched := by simpa using hc
      obtain ⟨⟨i, hi, hik⟩, _⟩ := (h.matched k).mp this
      have hi' : i < as.length := Nat.lt_trans hi hn
      rw [List.getD_eq_getElem?_getD, List.getElem?_eq_getElem hi'] at hik
      have hik' : as[i] = k := by simpa using hik
      exact (List.pairwise_iff_getElem.mp has) i n hi' hn hi (hik'.trans hk'.symm)
  unfold duStepA
  simp only [hfresh, Bool.false_eq_true, if_false]
  cases hl : lastIdx k bs with
  | none =>
    have hkb : k ∉ bs := (lastIdx_none_iff k bs).mp hl
    have hP : (!bs.contains (as.getD n "")) = true := by rw [hk]; simpa using hkb
    have hmatched : ∀ x, x ∈ matched ↔ (∃ i, i < n + 1 ∧ as.getD i "" = x) ∧ x ∈ bs := by
      intro x
      rw [h.matched x]
      constructor
      · rintro ⟨⟨i, hi, hix⟩, hx⟩; exact ⟨⟨i, Nat.lt_succ_of_lt hi, hix⟩, hx⟩
      · rintro ⟨⟨i, hi, hix⟩, hx⟩
        rcases Nat.lt_succ_iff_lt_or_eq.mp hi with h1 | h1
        · exact ⟨⟨i, h1, hix⟩, hx⟩
        · subst h1; rw [hk] at hix; subst hix; exact absurd hx hkb
    have hdelsR : (List.range (n + 1)).filter (fun i => !bs.contains (as.getD i "")) =
        (List.range n).filter (fun i => !bs.contains (as.getD i "")) ++ [n] := by
      rw [range_succ_filter, hP]; rfl
    have heqsR : (List.range (n + 1)).filterMap (fun i => (lastIdx (as.getD i "") bs).map fun j => (i, j)) =
        (List.range n).filterMap (fun i => (lastIdx (as.getD i "") bs).map fun j => (i, j)) := by
      rw [range_succ_filterMap, hk, hl]; simp
    cases res with
    | nil =>
      simp only []
      refine ⟨_, _, rfl, ⟨?_, ?_, ?_, hmatched, ?_⟩⟩
      · rw [hdelsR, ← h.dels]; simp [delIdxOf, Range.isDelete]
      · simp [insIdxOf, Range.isInsert]
      · rw [heqsR, ← h.eqs]; simp [eqIdxOf, Range.isDelete]
      · intro p hp
        have : p = ⟨n, n + 1, 0, 0⟩ := by simpa using hp
        subst this
        exact ⟨Nat.lt_succ_self n, Nat.le_refl 0, Nat.le_refl _, fun h0 => by simp [Range.isDelete] at h0⟩
    | cons p rest =>
      simp only []
      obtain ⟨w1, w2, w3, w4⟩ := h.wf p List.mem_cons_self
      by_cases hc : (p.isDelete && p.highA == n) = true
      · rw [if_pos hc]
        simp only [Bool.and_eq_true, beq_iff_eq] at hc
        obtain ⟨c1, c2⟩ := hc
        have c1' : p.lowB = p.highB := by simpa [Range.isDelete] using c1
        refine ⟨_, _, rfl, ⟨?_, ?_, ?_, hmatched, ?_⟩⟩
        · rw [hdelsR, ← h.dels, delIdxOf_rev_cons, delIdxOf_rev_cons]
          rw [List.append_assoc]
          congr 1
          simp only [Range.isDelete, c1', beq_self_eq_true, if_true, c2]
          rw [part_extend p.lowA n (by omega)]
          congr 2
          omega
        · have := h.inss
          rw [insIdxOf_rev_cons] at this ⊢
          have hni : p.isInsert = false := by simp [Range.isInsert]; omega
          have hni' : ({ p with highA := n + 1 } : Range).isInsert = false := by simp [Range.isInsert]; omega
          rw [hni] at this
          rw [hni']
          exact this
        · rw [heqsR, ← h.eqs, eqIdxOf_rev_cons, eqIdxOf_rev_cons]
          congr 1
          simp [Range.isDelete, c1']
        · intro q hq
          rcases List.mem_cons.mp hq with e1 | e1
          · subst e1
            exact ⟨by show p.lowA < n + 1; omega, w2, Nat.le_refl _, fun h0 => by simp [Range.isDelete, c1'] at h0⟩
          · obtain ⟨v1, v2, v3, v4⟩ := h.wf q (List.mem_cons_of_mem _ e1)
            exact ⟨v1, v2, Nat.le_succ_of_le v3, v4⟩
      · rw [if_neg hc]
        refine ⟨_, _, rfl, ⟨?_, ?_, ?_, hmatched, ?_⟩⟩
        · rw [hdelsR, ← h.dels, delIdxOf_rev_cons]
          congr 1
          simp [Range.isDelete]
        · rw [insIdxOf_rev_cons, h.inss]
          simp [Range.isInsert]
        · rw [heqsR, ← h.eqs, eqIdxOf_rev_cons]
          simp [Range.isDelete]
        · intro q hq
          rcases List.mem_cons.mp hq with e1 | e1
          · subst e1
            exact ⟨Nat.lt_succ_self n, Nat.le_refl 0, Nat.le_refl _, fun h0 => by simp [Range.isDelete] at h0⟩
          · obtain ⟨v1, v2, v3, v4⟩ := h.wf q e1
            exact ⟨v1, v2, Nat.le_succ_of_le v3, v4⟩
  | some j =>
    obtain ⟨hj, hjk⟩ := lastIdx_some hl
    have hkb : k ∈ bs := by
      rw [List.getD_eq_getElem?_getD, List.getElem?_eq_getElem hj] at hjk
      have : bs[j] = k := by simpa using hjk
      exact this ▸ List.getElem_mem hj
    have hP : (!bs.contains (as.getD n "")) = false := by rw [hk]; simpa using hkb
    have hmatched : ∀ x, x ∈ k :: matched ↔ (∃ i, i < n + 1 ∧ as.getD i "" = x) ∧ x ∈ bs := by
      intro x
      rw [List.mem_cons, h.matched x]
      constructor
      · rintro (e1 | ⟨⟨i, hi, hix⟩, hx⟩)
        · subst e1; exact ⟨⟨n, Nat.lt_succ_self n, hk⟩, hkb⟩
        · exact ⟨⟨i, Nat.lt_succ_of_lt hi, hix⟩, hx⟩
      · rintro ⟨⟨i, hi, hix⟩, hx⟩
        rcases Nat.lt_succ_iff_lt_or_eq.mp hi with h1 | h1
        · exact Or.inr ⟨⟨i, h1, hix⟩, hx⟩
        · subst h1; rw [hk] at hix; exact Or.inl hix.symm
    have hdelsR : (List.range (n + 1)).filter (fun i => !bs.contains (as.getD i "")) =
        (List.range n).filter (fun i => !bs.contains (as.getD i "")) := by
      rw [range_succ_filter, hP]; simp
    have heqsR : (List.range (n + 1)).filterMap (fun i => (lastIdx (as.getD i "") bs).map fun j => (i, j)) =
        (List.range n).filterMap (fun i => (lastIdx (as.getD i "") bs).map fun j => (i, j)) ++ [(n, j)] := by
      rw [range_succ_filterMap, hk, hl]; rfl
    simp only []
    cases res with
    | nil =>
      simp only []
      refine ⟨_, _, rfl, ⟨?_, ?_, ?_, hmatched, ?_⟩⟩
      · rw [hdelsR, ← h.dels]; simp [delIdxOf, Range.isDelete]
      · simp [insIdxOf, Range.isInsert]
      · rw [heqsR, ← h.eqs]; simp [eqIdxOf, Range.isDelete, Range.isInsert]
      · intro p hp
        have : p = ⟨n, n + 1, j, j + 1⟩ := by simpa using hp
        subst this
        exact ⟨Nat.lt_succ_self n, Nat.le_succ j, Nat.le_refl _, fun _ => hj⟩
    | cons p rest =>
      simp only []
      obtain ⟨w1, w2, w3, w4⟩ := h.wf p List.mem_cons_self
      by_cases hc : (p.isEqual && p.highA == n && p.highB == j) = true
      · rw [if_pos hc]
        simp only [Bool.and_eq_true, beq_iff_eq] at hc
        obtain ⟨⟨c1, c2⟩, c3⟩ := hc
        have c1' : p.highB - p.lowB = p.highA - p.lowA := by simpa [Range.isEqual] using c1
        have hnd : p.isDelete = false := by simp [Range.isDelete]; omega
        have hnd' : ({ p with highA := n + 1, highB := j + 1 } : Range).isDelete = false := by
          simp [Range.isDelete]; omega
        have hni : p.isInsert = false := by simp [Range.isInsert]; omega
        have hni' : ({ p with highA := n + 1, highB := j + 1 } : Range).isInsert = false := by
          simp [Range.isInsert]; omega
        refine ⟨_, _, rfl, ⟨?_, ?_, ?_, hmatched, ?_⟩⟩
        · rw [hdelsR, ← h.dels, delIdxOf_rev_cons, delIdxOf_rev_cons]
          rw [hnd, hnd']
          simp
        · have := h.inss
          rw [insIdxOf_rev_cons] at this ⊢
          rw [hni] at this
          rw [hni']
          exact this
        · rw [heqsR, ← h.eqs, eqIdxOf_rev_cons, eqIdxOf_rev_cons]
          rw [List.append_assoc]
          congr 1
          simp only [hnd, hnd', hni, hni', Bool.not_false, Bool.and_self, if_true]
          show (List.range (n + 1 - p.lowA)).map (fun t => (p.lowA + t, p.lowB + t)) = _
          rw [part_extend p.lowA n (by omega), c2]
          congr 2
          simp only [Prod.mk.injEq]
          omega
        · intro q hq
          rcases List.mem_cons.mp hq with e1 | e1
          · subst e1
            exact ⟨by show p.lowA < n + 1; omega, by show p.lowB ≤ j + 1; omega, Nat.le_refl _, fun _ => hj⟩
          · obtain ⟨v1, v2, v3, v4⟩ := h.wf q (List.mem_cons_of_mem _ e1)
            exact ⟨v1, v2, Nat.le_succ_of_le v3, v4⟩
      · rw [if_neg hc]
        refine ⟨_, _, rfl, ⟨?_, ?_, ?_, hmatched, ?_⟩⟩
        · rw [hdelsR, ← h.dels, delIdxOf_rev_cons]
          simp [Range.isDelete]
        · rw [insIdxOf_rev_cons, h.inss]
          simp [Range.isInsert]
        · rw [heqsR, ← h.eqs, eqIdxOf_rev_cons]
          simp [Range.isDelete, Range.isInsert]
        · intro q hq
          rcases List.mem_cons.mp hq with e1 | e1
          · subst e1
            exact ⟨Nat.lt_succ_self n, Nat.le_succ j, Nat.le_refl _, fun _ => hj⟩
          · obtain ⟨v1, v2, v3, v4⟩ := h.wf q e1
            exact ⟨v1, v2, Nat.le_succ_of_le v3, v4⟩

theorem duFoldA (as bs : List String) (has : as.Nodup) : ∀ (rest : List String) (n : Nat) (res : List Range)
    (matched : List String), as.drop n = rest → n ≤ as.length → InvA as bs n res matched →
    ∃ res' matched', rest.foldl (duStepA bs) (res, matched, n) = (res', matched', as.length) ∧
      InvA as bs as.length res' matched' := by
  intro rest
  induction rest with
  | nil =>
    intro n res matched hd hn h
    have : as.length ≤ n := by
      have := congrArg List.length hd
      simp at this; omega
    have hn' : n = as.length := by omega
    subst hn'
    exact ⟨res, matched, rfl, h⟩
  | cons k rest ih =>
    intro n res matched hd hn h
    have hlt : n < as.length := by
      have := congrArg List.length hd
      simp at this; omega
    have hk : as.getD n "" = k := by
      rw [List.drop_eq_getElem_cons hlt] at hd
      rw [List.getD_eq_getElem?_getD, List.getElem?_eq_getElem hlt]
      simpa using (List.cons.inj hd).1
    have hd' : as.drop (n + 1) = rest := by
      rw [List.drop_eq_getElem_cons hlt] at hd
      exact (List.cons.inj hd).2
    obtain ⟨r1, m1, e1, i1⟩ := duStepA_inv as bs has n hlt res matched h
    rw [hk] at e1
    rw [List.foldl_cons, e1]
    exact ih (n + 1) r1 m1 hd' hlt i1

/-- Invariant of the second loop after `j` keys of `bs`. -/
structure InvB (as bs : List String) (D : List Nat) (E : List (Nat × Nat)) (j : Nat) (res : List Range) : Prop where
  dels : delIdxOf res.reverse = D
  eqs : eqIdxOf res.reverse = E
  inss : insIdxOf res.reverse = (List.range j).filter fun t => !as.contains (bs.getD t "")
  wf : ∀ p ∈ res, (p.lowA < p.highA ∧ p.lowB ≤ p.highB ∧ (p.isDelete = false → p.highB ≤ bs.length)) ∨
    (p.lowA = p.highA ∧ p.lowB ≤ p.highB ∧ p.highB ≤ j)

theorem duStepB_inv (as bs : List String) (matched : List String) (hm : ∀ x, x ∈ matched ↔ x ∈ as ∧ x ∈ bs)
    (D : List Nat) (E : List (Nat × Nat)) (j : Nat) (hj : j < bs.length) (res : List Range) (h : InvB as bs D E j res) :
    ∃ res', duStepB as.length matched (res, j) (bs.getD j "") = (res', j + 1) ∧ InvB as bs D E (j + 1) res' := by
  generalize hk : bs.getD j "" = k
  have hkb : k ∈ bs := by
    rw [List.getD_eq_getElem?_getD, List.getElem?_eq_getElem hj] at hk
    have : bs[j] = k := by simpa using hk
    exact this ▸ List.getElem_mem hj
  have hwf' : ∀ p ∈ res, (p.lowA < p.highA ∧ p.lowB ≤ p.highB ∧ (p.isDelete = false → p.highB ≤ bs.length)) ∨
      (p.lowA = p.highA ∧ p.lowB ≤ p.highB ∧ p.highB ≤ j + 1) := by
    intro p hp
    rcases h.wf p hp with h1 | ⟨h1, h2, h3⟩
    · exact Or.inl h1
    · exact Or.inr ⟨h1, h2, Nat.le_succ_of_le h3⟩
  unfold duStepB
  simp only []
  by_cases hc : matched.contains k = true
  · rw [if_pos hc]
    have hka : k ∈ as := ((hm k).mp (by simpa using hc)).1
    refine ⟨res, rfl, h.dels, h.eqs, ?_, hwf'⟩
    rw [range_succ_filter, hk]
    have : (!as.contains k) = false := by simpa using hka
    rw [this, h.inss]; simp
  · rw [if_neg hc]
    have hka : k ∉ as := fun hx => hc (by simpa using (hm k).mpr ⟨hx, hkb⟩)
    have hP : (!as.contains k) = true := by simpa using hka
    have hR : (List.range (j + 1)).filter (fun t => !as.contains (bs.getD t "")) =
        (List.range j).filter (fun t => !as.contains (bs.getD t "")) ++ [j] := by
      rw [range_succ_filter, hk, hP]; rfl
    have hnew : ∀ (rs : List Range), InvB as bs D E j rs →
        InvB as bs D E (j + 1) (⟨as.length, as.length, j, j + 1⟩ :: rs) := by
      intro rs hh
      refine ⟨?_, ?_, ?_, ?_⟩
      · rw [delIdxOf_rev_cons, hh.dels]; simp [Range.isDelete]
      · rw [eqIdxOf_rev_cons, hh.eqs]; simp [Range.isInsert]
      · rw [insIdxOf_rev_cons, hh.inss, hR]; simp [Range.isInsert]
      · intro q hq
        rcases List.mem_cons.mp hq with e1 | e1
        · subst e1; exact Or.inr ⟨rfl, Nat.le_succ j, Nat.le_refl _⟩
        · rcases hh.wf q e1 with h1 | ⟨h1, h2, h3⟩
          · exact Or.inl h1
          · exact Or.inr ⟨h1, h2, Nat.le_succ_of_le h3⟩
    cases res with
    | nil => exact ⟨_, rfl, hnew [] h⟩
    | cons p rest =>
      simp only []
      by_cases hc2 : (p.isInsert && p.highB == j) = true
      · rw [if_pos hc2]
        simp only [Bool.and_eq_true, beq_iff_eq] at hc2
        obtain ⟨c1, c2⟩ := hc2
        have c1' : p.lowA = p.highA := by simpa [Range.isInsert] using c1
        have hlow : p.lowB ≤ j := by
          rcases h.wf p List.mem_cons_self with ⟨h1, _⟩ | ⟨_, h2, _⟩
          · omega
          · omega
        refine ⟨_, rfl, ?_, ?_, ?_, ?_⟩
        · rw [← h.dels, delIdxOf_rev_cons, delIdxOf_rev_cons]
          congr 1
          simp [c1']
        · rw [← h.eqs, eqIdxOf_rev_cons, eqIdxOf_rev_cons]
          congr 1
          simp [Range.isInsert, c1']
        · rw [hR, ← h.inss, insIdxOf_rev_cons, insIdxOf_rev_cons, List.append_assoc]
          congr 1
          simp only [Range.isInsert, c1', beq_self_eq_true, if_true, c2]
          rw [part_extend p.lowB j hlow]
          congr 2
          omega
        · intro q hq
          rcases List.mem_cons.mp hq with e1 | e1
          · subst e1
            exact Or.inr ⟨c1', by show p.lowB ≤ j + 1; omega, Nat.le_refl _⟩
          · exact hwf' q (List.mem_cons_of_mem _ e1)
      · rw [if_neg hc2]
        exact ⟨_, rfl, hnew (p :: rest) h⟩

theorem duFoldB (as bs : List String) (matched : List String) (hm : ∀ x, x ∈ matched ↔ x ∈ as ∧ x ∈ bs)
    (D : List Nat) (E : List (Nat × Nat)) : ∀ (rest : List String) (j : Nat) (res : List Range),
    bs.drop j = rest → j ≤ bs.length → InvB as bs D E j res →
    ∃ res', rest.foldl (duStepB as.length matched) (res, j) = (res', bs.length) ∧ InvB as bs D E bs.length res' := by
  intro rest
  induction rest with
  | nil =>
    intro j res hd hj h
    have : bs.length ≤ j := by
      have := congrArg List.length hd
      simp at this; omega
    have hj' : j = bs.length := by omega
    subst hj'
    exact ⟨res, rfl, h⟩
  | cons k rest ih =>
    intro j res hd hj h
    have hlt : j < bs.length := by
      have := congrArg List.length hd
      simp at this; omega
    have hk : bs.getD j "" = k := by
      rw [List.drop_eq_getElem_cons hlt] at hd
      rw [List.getD_eq_getElem?_getD, List.getElem?_eq_getElem hlt]
      simpa using (List.cons.inj hd).1
    have hd' : bs.drop (j + 1) = rest := by
      rw [List.drop_eq_getElem_cons hlt] at hd
      exact (List.cons.inj hd).2
    obtain ⟨r1, e1, i1⟩ := duStepB_inv as bs matched hm D E j hlt res h
    rw [hk] at e1
    rw [List.foldl_cons, e1]
    exact ih (j + 1) r1 hd' hlt i1

/-- **What `diffUnordered` computes** for a duplicate-free `as`. -/
theorem diffUnordered_spec (as bs : List String) (has : as.Nodup) :
    delIdxOf (diffUnordered as bs) = (List.range as.length).filter (fun i => !bs.contains (as.getD i "")) ∧
    insIdxOf (diffUnordered as bs) = (List.range bs.length).filter (fun t => !as.contains (bs.getD t "")) ∧
    eqIdxOf (diffUnordered as bs) =
      (List.range as.length).filterMap (fun i => (lastIdx (as.getD i "") bs).map fun j => (i, j)) ∧
    (∀ p ∈ diffUnordered as bs, p.lowA ≤ p.highA ∧ p.lowB ≤ p.highB ∧ (p.isInsert = true → p.highB ≤ bs.length) ∧
      (p.isInsert = false → p.isDelete = false → p.highB ≤ bs.length)) := by
  have h0 : InvA as bs 0 [] [] := by
    refine ⟨rfl, rfl, rfl, ?_, fun p hp => by simp at hp⟩
    intro k
    constructor
    · intro h; simp at h
    · rintro ⟨⟨i, hi, _⟩, _⟩; omega
  obtain ⟨rA, mA, eA, iA⟩ := duFoldA as bs has as 0 [] [] rfl (Nat.zero_le _) h0
  have hm : ∀ x, x ∈ mA ↔ x ∈ as ∧ x ∈ bs := by
    intro x
    rw [iA.matched x]
    constructor
    · rintro ⟨⟨i, hi, hix⟩, hx⟩
      rw [List.getD_eq_getElem?_getD, List.getElem?_eq_getElem hi] at hix
      have : as[i] = x := by simpa using hix
      exact ⟨this ▸ List.getElem_mem hi, hx⟩
    · rintro ⟨ha, hx⟩
      obtain ⟨i, hi, hix⟩ := List.getElem_of_mem ha
      exact ⟨⟨i, hi, by rw [List.getD_eq_getElem?_getD, List.getElem?_eq_getElem hi]; simpa using hix⟩, hx⟩
  have hB0 : InvB as bs (delIdxOf rA.reverse) (eqIdxOf rA.reverse) 0 rA := by
    refine ⟨rfl, rfl, by rw [iA.inss]; rfl, ?_⟩
    intro p hp
    obtain ⟨v1, v2, _, v4⟩ := iA.wf p hp
    exact Or.inl ⟨v1, v2, v4⟩
  obtain ⟨rB, eB, iB⟩ := duFoldB as bs mA hm _ _ bs 0 rA rfl (Nat.zero_le _) hB0
  have hdu : diffUnordered as bs = rB.reverse := by
    unfold diffUnordered
    rw [eA]
    simp only []
    rw [eB]
  rw [hdu]
  refine ⟨by rw [iB.dels, iA.dels], iB.inss, by rw [iB.eqs, iA.eqs], ?_⟩
  intro p hp
  have hp' : p ∈ rB := by simpa using hp
  rcases iB.wf p hp' with ⟨h1, h2, h3⟩ | ⟨h1, h2, h3⟩
  · exact ⟨Nat.le_of_lt h1, h2, fun hi => by simp [Range.isInsert] at hi; omega, fun _ hd => h3 hd⟩
  · exact ⟨Nat.le_of_eq h1, h2, fun _ => h3, fun hi => by simp [Range.isInsert] at hi; omega⟩

end NA.F1
