import NA.Proofs.IosSafe
/-!
Step safety (C14) of the IOS planner model, part 2: the run of `planIOS M` on the strict device,
command by command; every state after a command is `numbered M ν` with `ν` of the ASA `Shape`
for the re-labelled cell list `keepCells M S` (`S`: the suppressed moves).
-/
namespace NA.IosSafe
open NA.Acl

attribute [-simp] List.getD_eq_getElem?_getD

/-- A run of the strict IOS device all of whose states (after each command) satisfy `P`. -/
inductive IRun (P : IosAcl → Prop) : IosAcl → List IOp → IosAcl → Prop
  | nil (s : IosAcl) : IRun P s [] s
  | step (s s1 : IosAcl) (op : IOp) (ops : List IOp) (s' : IosAcl) :
      iosExec1 s op = some s1 → P s1 → IRun P s1 ops s' → IRun P s (op :: ops) s'

theorem IRun.append {P : IosAcl → Prop} {s s1 s2 : IosAcl} {a b : List IOp}
    (h1 : IRun P s a s1) (h2 : IRun P s1 b s2) : IRun P s (a ++ b) s2 := by
  induction h1 with
  | nil s => simpa using h2
  | step s t op ops s' he hp _ ih => exact IRun.step s t op _ s2 he hp (ih h2)

theorem IRun.trace {P : IosAcl → Prop} {s s' : IosAcl} {ops : List IOp} (h : IRun P s ops s') :
    ∃ tr, iosTrace s ops = some tr ∧ (∀ x ∈ tr, P x) ∧ (s :: tr).getLast? = some s' := by
  induction h with
  | nil s => exact ⟨[], rfl, by simp, by simp⟩
  | step s t op ops s' he hp _ ih =>
    obtain ⟨tr, htr, hall, hlast⟩ := ih
    refine ⟨t :: tr, by simp [iosTrace, he, htr], ?_, ?_⟩
    · intro x hx
      rcases List.mem_cons.1 hx with e | hx
      · rw [e]; exact hp
      · exact hall x hx
    · rw [List.getLast?_cons_cons]; exact hlast

/-- An old-only cell is looked up by the planner iff an inserted line has its `mkey`. -/
theorem moved_iff (M : List Cell) (hno : ((olds M).map (·.mkey)).Nodup) (i : Nat)
    (hi : i ∈ delIdx M) : countOld M i ∈ movedOf M ↔ ∃ j ∈ addIdx M, sameKey M j i := by
  rw [mem_movedOf]
  constructor
  · rintro ⟨j, hj, hl⟩
    refine ⟨j, hj, ?_⟩
    simp only [iosDelLookup, Option.map_eq_some_iff] at hl
    obtain ⟨d, hd, hc⟩ := hl
    obtain ⟨h1, h2⟩ := delLookup_someI hd
    obtain ⟨hdl, hdo, _⟩ := (mem_delIdx M d).1 h1
    obtain ⟨hil, hio, _⟩ := (mem_delIdx M i).1 hi
    have := countOld_inj M hdl hil hdo hio hc
    subst this
    exact h2.symm
  · rintro ⟨j, hj, hm⟩
    refine ⟨j, hj, ?_⟩
    have := delLookup_of M hno hi
    unfold sameKey at hm
    rw [← hm] at this
    simp [iosDelLookup, this]

theorem add_phase_tr (M : List Cell) (hs : SortedNum (allNum M))
    (hno : ((olds M).map (·.mkey)).Nodup) (hnn : ((news M).map (·.mkey)).Nodup)
    (hjunk : noJunk M = true) (g : Nat → Bool) (P : IosAcl → Prop)
    (hP : ∀ ν, AddSt M ((addIdx M).filter (supprAt M g)) ν → P (numbered M ν))
    (js : List Nat) (hjs : ∀ j ∈ js, j ∈ addIdx M) (hsorted : js.Pairwise (· < ·))
    (J K : List Nat) (μ : List Bool) (h : MInv M J K μ)
    (hK : ∀ d ∈ K, ∃ j ∈ J, sameKey M j d)
    (hJS : ∀ j ∈ J, j ∉ (addIdx M).filter (supprAt M g))
    (hlt : ∀ f ∈ J, ∀ y ∈ js, f < y)
    (hcomp : ∀ y ∈ addIdx M, y ∉ (addIdx M).filter (supprAt M g) → y ∉ js → y ∈ J) :
    ∃ μ' J' K', IRun P (numbered M μ) (js.flatMap (cellOpsG M g)) (numbered M μ') ∧
      MInv M J' K' μ' ∧ (∀ d ∈ K', ∃ j ∈ J', sameKey M j d) ∧
      (∀ j ∈ J', j ∉ (addIdx M).filter (supprAt M g)) ∧
      (∀ y ∈ addIdx M, y ∉ (addIdx M).filter (supprAt M g) → y ∈ J') := by
  induction js generalizing J K μ with
  | nil =>
    exact ⟨μ, J, K, IRun.nil _, h, hK, hJS, fun y hy hyS => hcomp y hy hyS (by simp)⟩
  | cons j rest ih =>
    obtain ⟨hjrest, hsorted'⟩ := List.pairwise_cons.mp hsorted
    have hja : j ∈ addIdx M := hjs j List.mem_cons_self
    have hjJ : j ∉ J := fun hm => Nat.lt_irrefl j (hlt j hm j List.mem_cons_self)
    obtain ⟨μ1, K1, hex, hinv1, hK1⟩ := add_phaseI M hs hno hnn hjunk g [j]
      (fun j' hj' => by rw [List.mem_singleton.mp hj']; exact hja) (by simp) J K μ h
      (fun j' hj' => by rw [List.mem_singleton.mp hj']; exact hjJ) hK
    simp only [List.flatMap_cons, List.flatMap_nil, List.append_nil] at hex
    -- the new set of inserted cells
    generalize hJ1 : ([j].filter fun j => !supprAt M g j).reverse ++ J = J1 at hinv1 hK1
    have hJ1sub : ∀ f ∈ J1, f = j ∧ supprAt M g j = false ∨ f ∈ J := by
      intro f hf
      rw [← hJ1] at hf
      cases hsup : supprAt M g j with
      | true => simp [hsup] at hf; exact Or.inr hf
      | false =>
        simp [hsup] at hf
        rcases hf with hf | hf
        · exact Or.inl ⟨hf, rfl⟩
        · exact Or.inr hf
    have hJsub1 : ∀ f ∈ J, f ∈ J1 := by
      intro f hf; rw [← hJ1]; exact List.mem_append_right _ hf
    have hj1 : supprAt M g j = false → j ∈ J1 := by
      intro hsup; rw [← hJ1]; simp [hsup]
    have hJS1 : ∀ f ∈ J1, f ∉ (addIdx M).filter (supprAt M g) := by
      intro f hf
      rcases hJ1sub f hf with ⟨rfl, hsup⟩ | hf
      · intro hm; have := (List.mem_filter.mp hm).2; rw [hsup] at this; cases this
      · exact hJS f hf
    have hlt1 : ∀ f ∈ J1, ∀ y ∈ rest, f < y := by
      intro f hf y hy
      rcases hJ1sub f hf with ⟨rfl, _⟩ | hf
      · exact hjrest y hy
      · exact hlt f hf y (List.mem_cons_of_mem _ hy)
    have hcomp1 : ∀ y ∈ addIdx M, y ∉ (addIdx M).filter (supprAt M g) → y ∉ rest → y ∈ J1 := by
      intro y hy hyS hyr
      by_cases hyj : y = j
      · subst hyj
        apply hj1
        cases hsup : supprAt M g y with
        | false => rfl
        | true => exact absurd (List.mem_filter.mpr ⟨hy, hsup⟩) hyS
      · exact hJsub1 y (hcomp y hy hyS (by
          intro hm; rcases List.mem_cons.mp hm with e | hm
          · exact hyj e
          · exact hyr hm))
    have hK1' : ∀ d ∈ K1, ∃ j ∈ J1, sameKey M j d := hK1
    have hst : AddSt M ((addIdx M).filter (supprAt M g)) μ1 := by
      refine ⟨J1, K1, hinv1, hK1', hJS1, ?_⟩
      intro f hf y hy hyS hyf
      apply hcomp1 y hy hyS
      intro hyr
      have := hlt1 f hf y hyr
      omega
    obtain ⟨μ', J', K', hrun, hinv', hK', hJS', hcomp'⟩ :=
      ih (fun j' hj' => hjs j' (List.mem_cons_of_mem _ hj')) hsorted' J1 K1 μ1 hinv1 hK1' hJS1
        hlt1 hcomp1
    refine ⟨μ', J', K', ?_, hinv', hK', hJS', hcomp'⟩
    rw [List.flatMap_cons]
    have hlen := itemOps_length_le M (newItem M j, g j)
    change (cellOpsG M g j).length ≤ 1 at hlen
    match hops : cellOpsG M g j with
    | [] =>
      rw [hops] at hex
      simp only [iosExec, List.foldlM_nil, pure, Option.some.injEq] at hex
      rw [hex]
      simpa using hrun
    | [op] =>
      rw [hops] at hex
      have he : iosExec1 (numbered M μ) op = some (numbered M μ1) := by
        simpa [iosExec] using hex
      exact IRun.step _ _ op _ _ he (hP μ1 hst) hrun
    | _ :: _ :: _ => rw [hops] at hlen; simp at hlen

theorem del_phase_tr (M : List Cell) (hs : SortedNum (allNum M)) (S : List Nat)
    (P : IosAcl → Prop) (hP : ∀ ν, DelSt M S ν → P (numbered M ν))
    (is : List Nat) (his : ∀ i ∈ is, i ∈ delIdx M) (hsorted : is.Pairwise (· > ·))
    (hun : ∀ i ∈ is, Unmoved M i)
    (J K : List Nat) (μ : List Bool) (h : MInv M J K μ) (hJS : ∀ j ∈ J, j ∉ S)
    (hcompJ : ∀ y ∈ addIdx M, y ∉ S → y ∈ J)
    (hK : ∀ x ∈ K, (∃ j ∈ J, sameKey M j x) ∨
      (Unmoved M x ∧ ∀ f ∈ delIdx M, Unmoved M f → f ∉ K → f < x))
    (hdisjK : ∀ i ∈ is, i ∉ K)
    (hcov : ∀ f ∈ delIdx M, Unmoved M f → f ∉ K → f ∈ is) :
    ∃ μ' K', IRun P (numbered M μ) (is.map fun i => IOp.del (numOf M i)) (numbered M μ') ∧
      MInv M J K' μ' := by
  induction is generalizing K μ with
  | nil => exact ⟨μ, K, IRun.nil _, h⟩
  | cons i rest ih =>
    obtain ⟨hirest, hsorted'⟩ := List.pairwise_cons.mp hsorted
    have hid : i ∈ delIdx M := his i List.mem_cons_self
    have hiu : Unmoved M i := hun i List.mem_cons_self
    have htrue : μ.getD i false = true := by
      cases hv : μ.getD i false with
      | true => rfl
      | false =>
        exfalso
        rcases (h.oldO i hid).mp hv with hk | ⟨j, hj, hm⟩
        · exact hdisjK i List.mem_cons_self hk
        · exact hiu ⟨j, h.jsub j hj, hm⟩
    obtain ⟨μ1, hex, hinv1⟩ := del_phaseI M hs [i]
      (fun i' hi' => by rw [List.mem_singleton.mp hi']; exact hid) (by simp) J K μ h
      (fun i' hi' => by rw [List.mem_singleton.mp hi']; exact htrue)
    simp only [List.map_cons, List.map_nil, List.reverse_cons, List.reverse_nil, List.nil_append,
      List.singleton_append] at hex hinv1
    have he : iosExec1 (numbered M μ) (IOp.del (numOf M i)) = some (numbered M μ1) := by
      simpa [iosExec] using hex
    have hK1 : ∀ x ∈ i :: K, (∃ j ∈ J, sameKey M j x) ∨
        (Unmoved M x ∧ ∀ f ∈ delIdx M, Unmoved M f → f ∉ i :: K → f < x) := by
      intro x hx
      rcases List.mem_cons.mp hx with rfl | hx
      · right
        refine ⟨hiu, fun f hf hfu hfK => ?_⟩
        have hfK' : f ∉ K := fun hm => hfK (List.mem_cons_of_mem _ hm)
        have hfx : f ≠ x := fun e => hfK (by rw [e]; exact List.mem_cons_self)
        rcases List.mem_cons.mp (hcov f hf hfu hfK') with e | hm
        · exact absurd e hfx
        · exact hirest f hm
      · rcases hK x hx with hj | ⟨hxu, hb⟩
        · exact Or.inl hj
        · exact Or.inr ⟨hxu, fun f hf hfu hfK =>
            hb f hf hfu (fun hm => hfK (List.mem_cons_of_mem _ hm))⟩
    have hst : DelSt M S μ1 := ⟨J, i :: K, hinv1, hJS, hcompJ, hK1⟩
    have hdisj1 : ∀ i' ∈ rest, i' ∉ i :: K := by
      intro i' hi' hm
      rcases List.mem_cons.mp hm with e | hm
      · have := hirest i' hi'; omega
      · exact hdisjK i' (List.mem_cons_of_mem _ hi') hm
    have hcov1 : ∀ f ∈ delIdx M, Unmoved M f → f ∉ i :: K → f ∈ rest := by
      intro f hf hfu hfK
      have hfK' : f ∉ K := fun hm => hfK (List.mem_cons_of_mem _ hm)
      rcases List.mem_cons.mp (hcov f hf hfu hfK') with e | hm
      · exact absurd (by rw [e]; exact List.mem_cons_self) hfK
      · exact hm
    obtain ⟨μ', K', hrun, hinv'⟩ := ih (fun i' hi' => his i' (List.mem_cons_of_mem _ hi')) hsorted'
      (fun i' hi' => hun i' (List.mem_cons_of_mem _ hi')) (i :: K) μ1 hinv1 hK1 hdisj1 hcov1
    exact ⟨μ', K', IRun.step _ _ _ _ _ he (hP μ1 hst) hrun, hinv'⟩

/-- The whole plan: every state after a command is `numbered M ν` with `Shape (keepCells M S) ν`. -/
theorem plan_irun (M : List Cell) (hjunk : noJunk M = true) (hruns : runsShort M)
    (hno : ((olds M).map (·.mkey)).Nodup) (hnn : ((news M).map (·.mkey)).Nodup)
    (g : Nat → Bool) :
    ∃ s', IRun (fun s => ∃ ν, s = numbered M ν ∧
        Shape (keepCells M ((addIdx M).filter (supprAt M g))) ν)
      (numbered M (oldMask M)) ((addIdx M).flatMap (cellOpsG M g) ++ delsOf M) s' := by
  have hs := allNum_sorted M hjunk hruns
  have hSsub : ∀ j ∈ (addIdx M).filter (supprAt M g), j ∈ addIdx M :=
    fun j hj => (List.mem_filter.mp hj).1
  have haddsorted : (addIdx M).Pairwise (· < ·) := by
    unfold addIdx; exact List.Pairwise.filter _ List.pairwise_lt_range
  have hdelsorted : (delIdx M).reverse.Pairwise (· > ·) := by
    rw [List.pairwise_reverse]; unfold delIdx
    exact List.Pairwise.filter _ List.pairwise_lt_range
  obtain ⟨μ1, J1, K1, hrun1, hinv1, hK1, hJS1, hcomp1⟩ := add_phase_tr M hs hno hnn hjunk g
    (fun s => ∃ ν, s = numbered M ν ∧ Shape (keepCells M ((addIdx M).filter (supprAt M g))) ν)
    (fun ν hν => ⟨ν, rfl, shape_of_addSt M _ hSsub hjunk hno hnn ν hν⟩)
    (addIdx M) (fun _ h => h) haddsorted [] [] (oldMask M) (minv_init M) (by simp) (by simp)
    (by simp) (fun y hy _ hyn => absurd hy hyn)
  let is := (delIdx M).reverse.filter fun i => !(movedOf M).contains (countOld M i)
  have his : ∀ i ∈ is, i ∈ delIdx M := fun i hi => List.mem_reverse.mp (List.mem_filter.mp hi).1
  have hun : ∀ i ∈ is, Unmoved M i := by
    intro i hi hex
    have hnm : countOld M i ∉ movedOf M := by
      have := (List.mem_filter.mp hi).2
      simpa using this
    exact hnm ((moved_iff M hno i (his i hi)).mpr hex)
  obtain ⟨μ2, K2, hrun2, _⟩ := del_phase_tr M hs ((addIdx M).filter (supprAt M g))
    (fun s => ∃ ν, s = numbered M ν ∧ Shape (keepCells M ((addIdx M).filter (supprAt M g))) ν)
    (fun ν hν => ⟨ν, rfl, shape_of_delSt M _ hSsub hjunk hno hnn ν hν⟩)
    is his (List.Pairwise.filter _ hdelsorted) hun J1 K1 μ1 hinv1 hJS1 hcomp1
    (fun x hx => Or.inl (hK1 x hx))
    (by
      intro i hi hk
      obtain ⟨j, hj, hm⟩ := hK1 i hk
      exact hun i hi ⟨j, hinv1.jsub j hj, hm⟩)
    (by
      intro f hf hfu _
      apply List.mem_filter.mpr
      refine ⟨List.mem_reverse.mpr hf, ?_⟩
      have : countOld M f ∉ movedOf M := fun hm => hfu ((moved_iff M hno f hf).mp hm)
      simpa using this)
  refine ⟨numbered M μ2, hrun1.append ?_⟩
  rw [delsOf_eq]
  exact hrun2

end NA.IosSafe
