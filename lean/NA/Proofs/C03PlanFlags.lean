import NA.Proofs.C03MarksSvc
import NA.Proofs.C03PlainModel
/-
C03, whole-vsys theorems, part 6: the flags in the final planner state `planState diff a b` for
a target without address-groups and service-groups.  Core Lean only.
-/
namespace NA.PanOs

theorem objs_fields {st st' : St} (h : st'.objs = st.objs) :
    st'.aAddr = st.aAddr ∧ st'.bAddr = st.bAddr ∧ st'.aSvc = st.aSvc ∧ st'.bSvc = st.bSvc ∧
      st'.aSG = st.aSG ∧ st'.bSG = st.bSG := by
  simp only [St.objs, Prod.mk.injEq] at h
  exact h

theorem FlagSound.of_objs {st st' : St} (h : st'.objs = st.objs) (hs : FlagSound st) : FlagSound st' := by
  obtain ⟨h1, h2, _⟩ := objs_fields h
  intro bi ob hob
  rw [h2] at hob
  obtain ⟨p1, p2⟩ := hs bi ob hob
  have hidx : ∀ x, st'.aAddrIdx x = st.aAddrIdx x := by intro x; unfold St.aAddrIdx; rw [h1]
  refine ⟨fun hn => by rw [hidx]; exact p1 hn, fun he => ?_⟩
  obtain ⟨ai, oa, q1, q2, q3⟩ := p2 he
  exact ⟨ai, oa, by rw [hidx]; exact q1, by rw [h1]; exact q2, q3⟩

theorem SFlagSound.of_objs {st st' : St} (h : st'.objs = st.objs) (hs : SFlagSound st) : SFlagSound st' := by
  obtain ⟨_, _, h1, h2, _⟩ := objs_fields h
  intro bi ob hob
  rw [h2] at hob
  obtain ⟨p1, p2⟩ := hs bi ob hob
  have hidx : ∀ x, st'.aSvcIdx x = st.aSvcIdx x := by intro x; unfold St.aSvcIdx; rw [h1]
  refine ⟨fun hn => by rw [hidx]; exact p1 hn, fun he => ?_⟩
  obtain ⟨ai, oa, q1, q2, q3⟩ := p2 he
  exact ⟨ai, oa, by rw [hidx]; exact q1, by rw [h1]; exact q2, q3⟩

theorem Covered.of_objs {st st' : St} {x : String} (h : st'.objs = st.objs) (hc : Covered st x) : Covered st' x := by
  obtain ⟨h1, h2, _⟩ := objs_fields h
  intro bi hbi
  have hb : st'.bAddrIdx x = st.bAddrIdx x := by unfold St.bAddrIdx; rw [h2]
  have ha : st'.aAddrIdx x = st.aAddrIdx x := by unfold St.aAddrIdx; rw [h1]
  rw [hb] at hbi
  obtain ⟨ob, hob, hcase⟩ := hc bi hbi
  refine ⟨ob, by rw [h2]; exact hob, ?_⟩
  rw [ha, h1]
  exact hcase

theorem SCovered.of_objs {st st' : St} {x : String} (h : st'.objs = st.objs) (hc : SCovered st x) : SCovered st' x := by
  obtain ⟨_, _, h1, h2, _⟩ := objs_fields h
  intro bi hbi
  have hb : st'.bSvcIdx x = st.bSvcIdx x := by unfold St.bSvcIdx; rw [h2]
  have ha : st'.aSvcIdx x = st.aSvcIdx x := by unfold St.aSvcIdx; rw [h1]
  rw [hb] at hbi
  obtain ⟨ob, hob, hcase⟩ := hc bi hbi
  refine ⟨ob, by rw [h2]; exact hob, ?_⟩
  rw [ha, h1]
  exact hcase

theorem Marked.of_objs {st st' : St} {x : String} (h : st'.objs = st.objs) (hc : Marked st x) : Marked st' x := by
  obtain ⟨h1, _⟩ := objs_fields h
  intro ai hai
  have ha : st'.aAddrIdx x = st.aAddrIdx x := by unfold St.aAddrIdx; rw [h1]
  rw [ha] at hai
  rw [h1]
  exact hc ai hai

theorem SMarked.of_objs {st st' : St} {x : String} (h : st'.objs = st.objs) (hc : SMarked st x) : SMarked st' x := by
  obtain ⟨_, _, h1, _⟩ := objs_fields h
  intro ai hai
  have ha : st'.aSvcIdx x = st.aSvcIdx x := by unfold St.aSvcIdx; rw [h1]
  rw [ha] at hai
  rw [h1]
  exact hc ai hai

theorem initSt_flagSound (a b : Vsys) (names : List String) : FlagSound (initSt a b names) := by
  intro bi ob hob
  simp only [initSt, List.getElem?_map] at hob
  cases h : b.addrs[bi]? with
  | none => simp [h] at hob
  | some o =>
    simp only [h, Option.map_some, Option.some.injEq] at hob
    subst hob
    exact ⟨fun hn => (by simp at hn), fun he => (by simp at he)⟩

theorem initSt_sflagSound (a b : Vsys) (names : List String) : SFlagSound (initSt a b names) := by
  intro bi ob hob
  simp only [initSt, List.getElem?_map] at hob
  cases h : b.svcs[bi]? with
  | none => simp [h] at hob
  | some o =>
    simp only [h, Option.map_some, Option.some.injEq] at hob
    subst hob
    exact ⟨fun hn => (by simp at hn), fun he => (by simp at he)⟩

/-- Everything the later proofs need to know about the final planner state of a pair whose
target has neither address-groups nor service-groups. -/
structure PlanFlags (a b : Vsys) (st : St) : Prop where
  aAddr : st.aAddr.map (·.o) = a.addrs
  bAddr : st.bAddr.map (·.o) = b.addrs
  aSvc : st.aSvc.map (·.o) = a.svcs
  bSvc : st.bSvc.map (·.o) = b.svcs
  sound : FlagSound st
  ssound : SFlagSound st
  covered : ∀ r ∈ b.rules, ∀ x, (x ∈ r.src ∨ x ∈ r.dst) → Covered st x
  scovered : ∀ r ∈ b.rules, ∀ x, x ∈ r.srv → SCovered st x
  marked : ∀ r ∈ b.rules, ∀ x, (x ∈ r.src ∨ x ∈ r.dst) → (∃ o ∈ b.addrs, o.name = x) → Marked st x
  smarked : ∀ r ∈ b.rules, ∀ x, x ∈ r.srv → (∃ o ∈ b.svcs, o.name = x) → SMarked st x

theorem planState_planFlags (diff : Differ) (a b : Vsys) (hbg : b.groups = []) (hbs : b.sgroups = []) :
    PlanFlags a b (planState diff a b) := by
  unfold planState
  simp only
  have hfuel : planFuel (sortVsys a) (sortVsys b) =
      ((sortVsys a).groups.length + (sortVsys b).groups.length + (sortVsys b).sgroups.length + 1) + 1 := rfl
  rw [hfuel]
  generalize (sortVsys a).groups.length + (sortVsys b).groups.length + (sortVsys b).sgroups.length + 1 = fuel
  generalize hnames : groupNamesFor (sortVsys a) (sortVsys b) = names
  generalize hbr : ((sortVsys b).rules.zip (uniqNames (ruleNames (sortVsys a).rules)
    (ruleNames (sortVsys b).rules))).map (fun (r, n) => { r with name := n }) = bRules
  have hobjs := diffRules_objs diff (fuel + 1)
    (markObjects (fuel + 1) (initSt (sortVsys a) (sortVsys b) names) (sortVsys b).rules)
    (sortVsys a) (sortVsys b) (sortVsys a).rules bRules
  have s0 := initSt_flagSound (sortVsys a) (sortVsys b) names
  have t0 := initSt_sflagSound (sortVsys a) (sortVsys b) names
  obtain ⟨f1, _, c1⟩ := markObjects_flags fuel (sortVsys b).rules _ s0
  obtain ⟨f2, _, c2⟩ := markObjects_sflags fuel (sortVsys b).rules _ t0
  have i1 := markObjects_inv (fuel + 1) (initSt (sortVsys a) (sortVsys b) names) (sortVsys b).rules
  have i2 := markObjects_sinv (fuel + 1) (initSt (sortVsys a) (sortVsys b) names) (sortVsys b).rules
  obtain ⟨e1, e2, e3, e4, _, _⟩ := objs_fields hobjs
  have hbG : ∀ x, (initSt (sortVsys a) (sortVsys b) names).bGrpIdx x = none := by
    intro x
    simp [St.bGrpIdx, initSt, sortVsys, hbg, lastIdx, lastIdxFrom]
  have hbSG : ∀ x, (initSt (sortVsys a) (sortVsys b) names).bSGIdx x = none := by
    intro x
    simp [St.bSGIdx, initSt, sortVsys, hbs, lastIdx, lastIdxFrom]
  -- the sorted rule of a target rule
  have sorted : ∀ r ∈ b.rules,
      ({ r with src := sortStrings r.src, dst := sortStrings r.dst, srv := sortStrings r.srv } : Rule) ∈
        (sortVsys b).rules := by
    intro r hr
    simp only [sortVsys, List.mem_map]
    exact ⟨r, hr, rfl⟩
  refine ⟨?_, ?_, ?_, ?_, f1.of_objs hobjs, f2.of_objs hobjs, ?_, ?_, ?_, ?_⟩
  · rw [e1, i1.1]; simp [initSt, sortVsys, List.map_map, Function.comp_def]
  · rw [e2, i1.2.1]; simp [initSt, sortVsys, List.map_map, Function.comp_def]
  · rw [e3, i2.1]; simp [initSt, sortVsys, List.map_map, Function.comp_def]
  · rw [e4, i2.2.1]; simp [initSt, sortVsys, List.map_map, Function.comp_def]
  · intro r hr x hx
    exact (c1 _ x (sorted r hr) (by simpa [mem_sortStrings] using hx) (hbG x)).of_objs hobjs
  · intro r hr x hx
    exact (c2 _ x (sorted r hr) (by simpa [mem_sortStrings] using hx) (hbSG x)).of_objs hobjs
  · intro r hr x hx hb
    refine (markObjects_marks fuel _ _ _ x (sorted r hr) (by simpa [mem_sortStrings] using hx) (hbG x) ?_).of_objs hobjs
    unfold St.bAddrIdx
    apply lastIdx_isSome_of_mem
    obtain ⟨o, ho, hn⟩ := hb
    simp only [initSt, sortVsys, List.map_map, List.mem_map, Function.comp_def]
    exact ⟨o, ho, hn⟩
  · intro r hr x hx hb
    refine (markObjects_smarks fuel _ _ _ x (sorted r hr) (by simpa [mem_sortStrings] using hx) (hbSG x) ?_).of_objs hobjs
    unfold St.bSvcIdx
    apply lastIdx_isSome_of_mem
    obtain ⟨o, ho, hn⟩ := hb
    simp only [initSt, sortVsys, List.map_map, List.mem_map, Function.comp_def]
    exact ⟨o, ho, hn⟩

end NA.PanOs
