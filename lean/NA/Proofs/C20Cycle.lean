import NA.Proofs.C20Http
import NA.Model.CursorCycle
/-!
C20 — soundness of `checkGroupCycle`: if the depth-first search finishes without reporting a
cycle, the group graph has a rank function (`Ranked`), which is the hypothesis under which
`getObjListType` and `markAddresses` were proved to stay within a bounded stack.
-/
namespace NA.C20.PanOs
open NA.C20 NA.C20.Res

/-- the finished groups, newest first: each is a group, not finished before, and all its members
that are groups finished before it. -/
inductive ClosedR (G : Str → Option (List Str)) : List Str → Prop
  | nil : ClosedR G []
  | cons (n : Str) (ms r : List Str) : ClosedR G r → G n = some ms → n ∉ r →
      (∀ m ∈ ms, G m = none ∨ m ∈ r) → ClosedR G (n :: r)

/-- rank of `x`: its position counted from the oldest entry, 0 if absent. -/
def rkR (x : Str) : List Str → Nat
  | [] => 0
  | y :: ys => if x = y then ys.length + 1 else rkR x ys

theorem rkR_le (x : Str) : ∀ r : List Str, rkR x r ≤ r.length
  | [] => by simp [rkR]
  | y :: ys => by
    unfold rkR
    split
    · simp
    · have := rkR_le x ys; simp; omega

theorem rkR_not_mem (x : Str) : ∀ r : List Str, x ∉ r → rkR x r = 0
  | [], _ => by simp [rkR]
  | y :: ys, h => by
    unfold rkR
    have hxy : x ≠ y := fun e => h (by simp [e])
    simp only [hxy, if_false]
    exact rkR_not_mem x ys (fun hm => h (List.mem_cons_of_mem _ hm))

theorem closedR_groups {G : Str → Option (List Str)} : ∀ {r : List Str}, ClosedR G r → ∀ x ∈ r, G x ≠ none
  | _, .nil, x, hx => by simp at hx
  | _, .cons n ms r hr hg _ _, x, hx => by
    simp at hx
    rcases hx with rfl | hx
    · rw [hg]; simp
    · exact closedR_groups hr x hx

/-- members have a smaller rank than the group. -/
theorem closedR_ranked {G : Str → Option (List Str)} : ∀ {r : List Str}, ClosedR G r →
    ∀ n ∈ r, ∀ ms, G n = some ms → ∀ m ∈ ms, rkR m r < rkR n r
  | _, .nil, n, hn, _, _, _, _ => by simp at hn
  | _, .cons n0 ms0 r hr hg hnot hmem, n, hn, ms, hgn, m, hm => by
    have hgroups := closedR_groups hr
    by_cases hnn : n = n0
    · subst hnn
      rw [hg] at hgn
      cases hgn
      have hr0 : rkR n (n :: r) = r.length + 1 := by simp [rkR]
      rw [hr0]
      rcases hmem m hm with hnone | hin
      · have : m ∉ n :: r := by
          intro hc
          simp at hc
          rcases hc with rfl | hc
          · rw [hg] at hnone; cases hnone
          · exact hgroups m hc hnone
        rw [rkR_not_mem m _ this]; omega
      · have hne : m ≠ n := fun e => hnot (e ▸ hin)
        have : rkR m (n :: r) = rkR m r := by simp [rkR, hne]
        rw [this]
        have := rkR_le m r
        omega
    · have hin : n ∈ r := by
        simp at hn
        rcases hn with h | h
        · exact absurd h hnn
        · exact h
      have ih := closedR_ranked hr n hin ms hgn m hm
      have h1 : rkR n (n0 :: r) = rkR n r := by simp [rkR, hnn]
      by_cases hmn : m = n0
      · -- n0 is not in r, so it cannot be a finished member of the older group n
        subst hmn
        have hz : rkR m r = 0 := rkR_not_mem m r hnot
        -- from the structure of r: members of n that are groups are in r; m is a group (G m = some ms0) not in r
        exfalso
        have := closedR_member hr n hin ms hgn m hm
        rcases this with h | h
        · rw [hg] at h; cases h
        · exact hnot h
      · have h2 : rkR m (n0 :: r) = rkR m r := by simp [rkR, hmn]
        rw [h1, h2]; exact ih
where
  closedR_member {G : Str → Option (List Str)} : ∀ {r : List Str}, ClosedR G r →
      ∀ n ∈ r, ∀ ms, G n = some ms → ∀ m ∈ ms, G m = none ∨ m ∈ r
    | _, .nil, n, hn, _, _, _, _ => by simp at hn
    | _, .cons n0 ms0 r hr hg _ hmem, n, hn, ms, hgn, m, hm => by
      simp at hn
      rcases hn with rfl | hn
      · rw [hg] at hgn; cases hgn
        rcases hmem m hm with h | h
        · exact Or.inl h
        · exact Or.inr (List.mem_cons_of_mem _ h)
      · rcases closedR_member hr n hn ms hgn m hm with h | h
        · exact Or.inl h
        · exact Or.inr (List.mem_cons_of_mem _ h)

/-- what a successful visit leaves behind: `done` was only extended, by groups that are not on
the stack, and the finished groups are still closed. -/
def Post (G : Str → Option (List Str)) (stack dn d : List Str) : Prop :=
  ∃ ext, d = dn ++ ext ∧ (∀ x ∈ ext, x ∉ stack) ∧ ClosedR G d.reverse

theorem res_bind_ok' {α β : Type} {x : Res α} {f : α → Res β} {b : β} (h : x.bind f = .ok b) :
    ∃ a, x = .ok a ∧ f a = .ok b := by
  cases x with
  | ok a => exact ⟨a, rfl, h⟩
  | diag m => cases h
  | panic p => cases h

/-- the loop over the members, from the spec of the visit function. -/
theorem visitAll_spec (G : Str → Option (List Str)) (f : Str → List Str → Res (List Str)) (stack : List Str)
    (hv : ∀ n dn d, ClosedR G dn.reverse → f n dn = .ok d → Post G stack dn d ∧ (G n = none ∨ n ∈ d)) :
    ∀ (ms dn d : List Str), ClosedR G dn.reverse → visitAllWith f ms dn = .ok d →
      Post G stack dn d ∧ ∀ m ∈ ms, G m = none ∨ m ∈ d
  | [], dn, d, hc, h => by
    rw [visitAllWith] at h
    cases h
    exact ⟨⟨[], by simp, by simp, hc⟩, by simp⟩
  | m :: ms, dn, d, hc, h => by
    rw [visitAllWith] at h
    obtain ⟨d1, h1, h2⟩ := res_bind_ok' h
    obtain ⟨⟨e1, he1, hd1, hc1⟩, hm1⟩ := hv m dn d1 hc h1
    obtain ⟨⟨e2, he2, hd2, hc2⟩, hm2⟩ := visitAll_spec G f stack hv ms d1 d hc1 h2
    refine ⟨⟨e1 ++ e2, by rw [he2, he1]; simp, ?_, hc2⟩, ?_⟩
    · intro x hx
      simp at hx
      rcases hx with hx | hx
      · exact hd1 x hx
      · exact hd2 x hx
    · intro x hx
      simp at hx
      rcases hx with rfl | hx
      · rcases hm1 with h' | h'
        · exact Or.inl h'
        · exact Or.inr (by rw [he2]; simp [h'])
      · exact hm2 x hx

theorem visit_spec (G : Str → Option (List Str)) : ∀ (fuel : Nat) (n : Str) (stack dn d : List Str),
    ClosedR G dn.reverse → visit G fuel n stack dn = .ok d →
    Post G stack dn d ∧ (G n = none ∨ n ∈ d)
  | 0, n, stack, dn, d, _, h => by rw [visit] at h; cases h
  | fuel + 1, n, stack, dn, d, hc, h => by
    rw [visit] at h
    split at h
    · rename_i hg
      cases h
      exact ⟨⟨[], by simp, by simp, hc⟩, Or.inl hg⟩
    · rename_i ms hg
      split at h
      · rename_i hin
        cases h
        exact ⟨⟨[], by simp, by simp, hc⟩, Or.inr hin⟩
      · rename_i hnd
        split at h
        · cases h
        · rename_i hns
          obtain ⟨d', h1, h2⟩ := res_bind_ok' h
          cases h2
          obtain ⟨⟨ext, he, hdis, hcl⟩, hmem⟩ :=
            visitAll_spec G _ (n :: stack) (fun m dn d => visit_spec G fuel m (n :: stack) dn d) ms dn d' hc h1
          have hnot : n ∉ d' := by
            rw [he]
            intro hx
            simp at hx
            rcases hx with hx | hx
            · exact hnd hx
            · exact hdis n hx (by simp)
          refine ⟨⟨ext ++ [n], by rw [he]; simp, ?_, ?_⟩, Or.inr (by simp)⟩
          · intro x hx
            simp at hx
            rcases hx with hx | rfl
            · exact fun hs => hdis x hx (List.mem_cons_of_mem _ hs)
            · exact hns
          · simp only [List.reverse_append, List.reverse_cons, List.reverse_nil, List.nil_append,
              List.singleton_append]
            refine ClosedR.cons n ms _ hcl hg (by simpa using hnot) ?_
            intro m hm
            rcases hmem m hm with h' | h'
            · exact Or.inl h'
            · exact Or.inr (by simpa using h')

/-- Soundness of `checkGroupCycle`: if it returns without reporting a cycle, and it was started
on all groups, the group graph is `Ranked` — the hypothesis of `objListType_noPanic` and
`markAddresses_noPanic`. -/
theorem checkGroupCycle_ranked (G : Str → Option (List Str)) (fuel : Nat) (names d : List Str)
    (hall : ∀ n, G n ≠ none → n ∈ names) (h : checkGroupCycle G fuel names = .ok d) :
    Ranked G (fun x => rkR x d.reverse) := by
  unfold checkGroupCycle at h
  obtain ⟨⟨_, _, _, hcl⟩, hmem⟩ :=
    visitAll_spec G _ [] (fun m dn d => visit_spec G (fuel + 1) m [] dn d) names [] d (by simpa using ClosedR.nil) h
  intro n ms hg m hm
  have hn : n ∈ d := by
    rcases hmem n (hall n (by rw [hg]; simp)) with h' | h'
    · rw [hg] at h'; cases h'
    · exact h'
  exact closedR_ranked hcl n (by simpa using hn) ms hg m hm

/-- the rank is bounded by the number of groups, so a stack of `#groups + 2` frames suffices. -/
theorem rank_le_groups (x : Str) (d : List Str) : rkR x d.reverse ≤ d.length := by
  have := rkR_le x d.reverse
  simpa using this

end NA.C20.PanOs
