import NA.Proofs.C04Wf
/-!
C10 for NSX: the state after any prefix of the script is again an accepted input, so the
end-to-end theorem applies to it.
-/
namespace NA.Nsx

/-- Inline service entries of a rule are compact JSON. -/
def Rule.compact (r : Rule) : Prop := compactJSON r.attrs.svcEntries = r.attrs.svcEntries

/-- What a call carries is in normal form: address lists without duplicates, rules with compact
inline service entries. -/
def Call.addrsOk : Call → Prop
  | .putGroup _ _ _ a => a.Nodup
  | .patchExpr _ _ _ a => a.Nodup
  | .postAddrs _ _ true a => a.Nodup
  | .putRule _ _ r => r.compact
  | .patchRule _ _ r => r.compact
  | .putPolicy _ rs => ∀ r ∈ rs, r.compact
  | _ => True

def AddrsNodup (S : Store) : Prop := ∀ g ∈ S.groups, g.addrs.Nodup

theorem addrsNodup_iff {S : Store} : addrsNodup S = true ↔ AddrsNodup S := by
  unfold addrsNodup AddrsNodup
  simp only [List.all_eq_true, idsNodup_iff]

theorem mem_setGroupAddrs {G : List Group} {gid : String} {f : Group → Group} {g' : Group}
    (h : g' ∈ setGroupAddrs G gid f) : ∃ g ∈ G, (g.id = gid ∧ g' = f g) ∨ (g.id ≠ gid ∧ g' = g) := by
  unfold setGroupAddrs at h
  obtain ⟨g, hg, e⟩ := List.mem_map.mp h
  refine ⟨g, hg, ?_⟩
  by_cases hid : g.id = gid
  · left; exact ⟨hid, by rw [← e]; simp [hid]⟩
  · right; exact ⟨hid, by rw [← e]; simp [hid]⟩

/-- The strict manager keeps address lists duplicate-free (it refuses to add what is there). -/
theorem exec_addrs {S S' : Store} {c : Call} (hw : WF S) (h : AddrsNodup S) (hc : c.addrsOk)
    (hex : exec S c = .ok S') : AddrsNodup S' := by
  have same : S'.groups = S.groups → AddrsNodup S' := fun e g hg => h g (e ▸ hg)
  cases c with
  | putService id d =>
    simp only [exec] at hex; split at hex
    · cases hex
    · rw [← ok_inj hex]; exact h
  | patchService id d =>
    simp only [exec] at hex; split at hex
    · cases hex
    · rw [← ok_inj hex]; exact h
  | deleteService id =>
    simp only [exec] at hex; split at hex
    · cases hex
    · split at hex
      · cases hex
      · rw [← ok_inj hex]; exact h
  | putGroup id e t addrs =>
    simp only [exec] at hex; split at hex
    · cases hex
    · split at hex
      · cases hex
      · rw [← ok_inj hex]
        intro g hg
        rcases List.mem_append.mp hg with hg | hg
        · exact h g hg
        · simp at hg; subst hg; exact hc
  | postAddrs gid e add addrs =>
    simp only [exec] at hex
    split at hex
    · cases hex
    · rename_i g0 hfind
      split at hex
      · cases hex
      · split at hex
        · rename_i hadd
          split at hex
          · cases hex
          · rename_i hnone
            rw [← ok_inj hex]
            intro g' hg'
            obtain ⟨g, hg, hcase⟩ := mem_setGroupAddrs hg'
            rcases hcase with ⟨hid, e'⟩ | ⟨_, e'⟩
            · have : g = g0 := by
                have := findGroup_mem_nodup hw.grp hg
                rw [hid, hfind] at this
                exact (Option.some.inj this).symm
              subst this
              rw [e']
              show (g.addrs ++ addrs).Nodup
              rw [List.nodup_append]
              subst hadd
              refine ⟨h g hg, hc, ?_⟩
              intro a ha b hb e''
              subst e''
              apply hnone
              rw [List.any_eq_true]
              exact ⟨a, hb, by simpa using ha⟩
            · rw [e']; exact h g hg
        · split at hex
          · cases hex
          · split at hex
            · cases hex
            · rw [← ok_inj hex]
              intro g' hg'
              obtain ⟨g, hg, hcase⟩ := mem_setGroupAddrs hg'
              rcases hcase with ⟨_, e'⟩ | ⟨_, e'⟩
              · rw [e']; exact (List.filter_sublist).nodup (h g hg)
              · rw [e']; exact h g hg
  | patchExpr gid e t addrs =>
    simp only [exec] at hex
    split at hex
    · cases hex
    · split at hex
      · cases hex
      · split at hex
        · cases hex
        · rw [← ok_inj hex]
          intro g' hg'
          obtain ⟨g, hg, hcase⟩ := mem_setGroupAddrs hg'
          rcases hcase with ⟨_, e'⟩ | ⟨_, e'⟩
          · rw [e']; exact hc
          · rw [e']; exact h g hg
  | deleteGroup id =>
    simp only [exec] at hex; split at hex
    · cases hex
    · split at hex
      · cases hex
      · rw [← ok_inj hex]
        intro g hg
        exact h g (List.mem_filter.mp hg).1
  | putPolicy id rules =>
    simp only [exec] at hex; split at hex
    · cases hex
    · split at hex
      · cases hex
      · split at hex
        · cases hex
        · rw [← ok_inj hex]; exact h
  | deletePolicy id =>
    simp only [exec] at hex; split at hex
    · cases hex
    · rw [← ok_inj hex]; exact h
  | putRule pid rid r =>
    simp only [exec] at hex; split at hex
    · cases hex
    · split at hex
      · cases hex
      · split at hex
        · cases hex
        · rw [← ok_inj hex]; exact h
  | patchRule pid rid r =>
    simp only [exec] at hex; split at hex
    · cases hex
    · split at hex
      · cases hex
      · split at hex
        · cases hex
        · rw [← ok_inj hex]; exact h
  | deleteRule pid rid =>
    simp only [exec] at hex; split at hex
    · cases hex
    · split at hex
      · cases hex
      · rw [← ok_inj hex]; exact h

/-- Rules of managed policies have compact inline service entries. -/
def AllCompact (S : Store) : Prop := ∀ p ∈ S.policies, managed p.id = true → ∀ r ∈ p.rules, r.compact

/-- The manager stores rules as they are sent: compact inline service entries stay compact. -/
theorem exec_compact {S S' : Store} {c : Call} (h : AllCompact S) (hc : c.addrsOk) (hex : exec S c = .ok S') :
    AllCompact S' := by
  have hset : ∀ (pid : String) (F : List Rule → List Rule), (∀ rs, (∀ r ∈ rs, r.compact) → ∀ r ∈ F rs, r.compact) →
      AllCompact { S with policies := setRules S.policies pid F } := by
    intro pid F hF p' hp' hm r hr
    obtain ⟨p, hp, hcase⟩ := mem_setRules hp'
    rcases hcase with ⟨_, e⟩ | ⟨_, e⟩
    · rw [e] at hr hm; exact hF p.rules (h p hp hm) r hr
    · rw [e] at hr hm; exact h p hp hm r hr
  cases c with
  | putService id d =>
    simp only [exec] at hex; split at hex
    · cases hex
    · rw [← ok_inj hex]; exact h
  | patchService id d =>
    simp only [exec] at hex; split at hex
    · cases hex
    · rw [← ok_inj hex]; exact h
  | deleteService id =>
    simp only [exec] at hex; split at hex
    · cases hex
    · split at hex
      · cases hex
      · rw [← ok_inj hex]; exact h
  | putGroup id e t addrs =>
    simp only [exec] at hex; split at hex
    · cases hex
    · split at hex
      · cases hex
      · rw [← ok_inj hex]; exact h
  | postAddrs gid e add addrs =>
    simp only [exec] at hex
    split at hex
    · cases hex
    · split at hex
      · cases hex
      · split at hex
        · split at hex
          · cases hex
          · rw [← ok_inj hex]; exact h
        · split at hex
          · cases hex
          · split at hex
            · cases hex
            · rw [← ok_inj hex]; exact h
  | patchExpr gid e t addrs =>
    simp only [exec] at hex
    split at hex
    · cases hex
    · split at hex
      · cases hex
      · split at hex
        · cases hex
        · rw [← ok_inj hex]; exact h
  | deleteGroup id =>
    simp only [exec] at hex; split at hex
    · cases hex
    · split at hex
      · cases hex
      · rw [← ok_inj hex]; exact h
  | putPolicy id rules =>
    simp only [exec] at hex; split at hex
    · cases hex
    · split at hex
      · cases hex
      · split at hex
        · cases hex
        · rw [← ok_inj hex]
          intro p hp hm r hr
          rcases List.mem_append.mp hp with hp | hp
          · exact h p hp hm r hr
          · simp at hp; subst hp; exact hc r hr
  | deletePolicy id =>
    simp only [exec] at hex; split at hex
    · cases hex
    · rw [← ok_inj hex]
      intro p hp hm r hr
      exact h p (List.mem_filter.mp hp).1 hm r hr
  | putRule pid rid r =>
    simp only [exec] at hex; split at hex
    · cases hex
    · split at hex
      · cases hex
      · split at hex
        · cases hex
        · rw [← ok_inj hex]
          apply hset
          intro rs hrs x hx
          rcases List.mem_append.mp hx with hx | hx
          · exact hrs x hx
          · simp at hx; subst hx; exact hc
  | patchRule pid rid r =>
    simp only [exec] at hex; split at hex
    · cases hex
    · split at hex
      · cases hex
      · split at hex
        · cases hex
        · rw [← ok_inj hex]
          apply hset
          intro rs hrs x hx
          obtain ⟨y, hy, e⟩ := List.mem_map.mp hx
          by_cases hid : y.id = rid
          · simp only [hid, beq_self_eq_true, if_true] at e
            rw [← e]; exact hc
          · have : (y.id == rid) = false := by simpa using hid
            simp only [this, Bool.false_eq_true, if_false] at e
            rw [← e]; exact hrs y hy
  | deleteRule pid rid =>
    simp only [exec] at hex; split at hex
    · cases hex
    · split at hex
      · cases hex
      · rw [← ok_inj hex]
        apply hset
        intro rs hrs x hx
        exact hrs x (List.mem_filter.mp hx).1

theorem run_compact : ∀ (cs : List Call) (S S' : Store), AllCompact S → (∀ c ∈ cs, c.addrsOk) →
    run S cs = some S' → AllCompact S' := by
  intro cs
  induction cs with
  | nil => intro S S' h _ hr; simp [run] at hr; rw [← hr]; exact h
  | cons c rest ih =>
    intro S S' h hc hr
    simp only [run] at hr
    cases he : exec S c with
    | error e => simp [he] at hr
    | ok S1 =>
      simp only [he] at hr
      exact ih S1 S' (exec_compact h (hc c List.mem_cons_self) he) (fun c' hc' => hc c' (List.mem_cons_of_mem _ hc')) hr

theorem run_wf_addrs : ∀ (cs : List Call) (S S' : Store), WF S → AddrsNodup S → (∀ c ∈ cs, c.addrsOk) →
    run S cs = some S' → WF S' ∧ AddrsNodup S' := by
  intro cs
  induction cs with
  | nil => intro S S' h1 h2 _ hr; simp [run] at hr; rw [← hr]; exact ⟨h1, h2⟩
  | cons c rest ih =>
    intro S S' h1 h2 hc hr
    simp only [run] at hr
    cases he : exec S c with
    | error e => simp [he] at hr
    | ok S1 =>
      simp only [he] at hr
      exact ih S1 S' (exec_wf h1 he) (exec_addrs h1 h2 (hc c List.mem_cons_self) he)
        (fun c' hc' => hc c' (List.mem_cons_of_mem _ hc')) hr


/-! ### The planner's calls carry duplicate-free address lists -/

def AOk (cs : List Call) : Prop := ∀ c ∈ cs, c.addrsOk

theorem AOk.append {a b : List Call} (h1 : AOk a) (h2 : AOk b) : AOk (a ++ b) := by
  intro c hc
  rcases List.mem_append.mp hc with h | h
  · exact h1 c h
  · exact h2 c h

theorem AOk.nil : AOk [] := fun _ h => by cases h

theorem AOk.single {c : Call} (h : c.addrsOk) : AOk [c] := by
  intro c' hc'
  simp at hc'; subst hc'; exact h

structure AddrCtx (ctx : Ctx) : Prop where
  diff : ∀ n m eq, validScript n m eq (ctx.diff n m eq) = true
  b : ∀ k gb, ctx.bmap.lookup k = some gb → gb.addrs.Nodup

theorem groupCalls_aok (diff : Diff) (hdiff : ∀ n m eq, validScript n m eq (diff n m eq) = true)
    (ga gb : Group) (hb : gb.addrs.Nodup) : AOk (groupCalls diff ga gb) := by
  unfold groupCalls
  generalize hrs : diff ga.addrs.length gb.addrs.length (fun i j => ga.addrs[i]! == gb.addrs[j]!) = rs
  have hv := hdiff ga.addrs.length gb.addrs.length (fun i j => ga.addrs[i]! == gb.addrs[j]!)
  rw [hrs] at hv
  obtain ⟨kept, _, pb⟩ := addrDiff_perm ga.addrs gb.addrs _ (by
    intro i j hi hj h
    have e1 : ga.addrs[i]! = ga.addrs[i] := getElem!_pos ga.addrs i hi
    have e2 : gb.addrs[j]! = gb.addrs[j] := getElem!_pos gb.addrs j hj
    simp only [e1, e2] at h
    simpa using h) rs 0 0 hv
  simp only [List.drop_zero] at pb
  have had : (addrDiff rs ga.addrs gb.addrs).2.Nodup := (List.nodup_append.mp (pb.nodup_iff.mp hb)).2.1
  simp only
  split
  · exact AOk.single hb
  · apply AOk.append
    · split
      · exact AOk.nil
      · exact AOk.single trivial
    · split
      · exact AOk.nil
      · exact AOk.single had

theorem adaptGroup_aok {ctx : Ctx} (hs : AddrCtx ctx) (st : PSt) (p : String) : AOk (adaptGroup ctx st p).2.2 := by
  unfold adaptGroup
  cases hr : groupRef p with
  | none => exact AOk.nil
  | some key =>
    simp only
    cases hb : ctx.bmap.lookup key with
    | none => exact AOk.nil
    | some gb =>
      simp only
      cases hn : st.nod.lookup key with
      | some n => exact AOk.nil
      | none =>
        simp only
        cases hf : findOnDevice ctx.aGroups st.needed gb with
        | some ga => exact AOk.nil
        | none => exact AOk.single (hs.b key gb hb)

theorem equalize_aok {ctx : Ctx} (hs : AddrCtx ctx) (st : PSt) (la lb : String) :
    AOk (equalize ctx st la lb).2.2.2 := by
  unfold equalize
  cases hga : ctx.gma la with
  | none => exact AOk.nil
  | some ga =>
    simp only
    cases hr : groupRef lb with
    | none => exact AOk.nil
    | some key =>
      simp only
      cases hb : ctx.bmap.lookup key with
      | none => exact AOk.nil
      | some gb =>
        simp only
        split
        · exact AOk.nil
        · split
          · split
            · exact AOk.nil
            · exact AOk.single (hs.b key gb hb)
          · exact groupCalls_aok _ hs.diff _ _ (hs.b key gb hb)

theorem stepItems_aok {ctx : Ctx} (hs : AddrCtx ctx) : ∀ (items : List Item) (st : PSt),
    AOk (stepItems ctx st items).2 := by
  intro items
  induction items with
  | nil => intro st; exact AOk.nil
  | cons it rest ih =>
    intro st
    simp only [stepItems]
    refine AOk.append ?_ (ih _)
    cases it with
    | del ra => exact AOk.single trivial
    | ins rb =>
      simp only [stepItem]
      exact ((adaptGroup_aok hs _ _).append (adaptGroup_aok hs _ _)).append
        (AOk.single (by show compactJSON (compactJSON _) = compactJSON _; exact compactJSON_idem _))
    | eq ra rb =>
      simp only [stepItem]
      refine ((equalize_aok hs _ _ _).append (equalize_aok hs _ _ _)).append ?_
      split
      · exact AOk.single (by show compactJSON (compactJSON _) = compactJSON _; exact compactJSON_idem _)
      · exact AOk.nil

theorem diffRules_aok {ctx : Ctx} (hs : AddrCtx ctx) (st : PSt) (pa pb : Policy) : AOk (diffRules ctx st pa pb).2 := by
  unfold diffRules
  cases hg : genUniqRules (pa.rules.map (·.id)) pb.rules with
  | none => exact AOk.nil
  | some bR =>
    simp only
    exact stepItems_aok (ctx := { ctx with pid := pa.id }) ⟨hs.diff, hs.b⟩ _ _

theorem adaptRules_aok {ctx : Ctx} (hs : AddrCtx ctx) : ∀ (rules : List Rule) (st : PSt),
    AOk (adaptRules ctx st rules).2.1 := by
  intro rules
  induction rules with
  | nil => intro st; exact AOk.nil
  | cons r rest ih =>
    intro st
    simp only [adaptRules]
    exact ((adaptGroup_aok hs _ _).append (adaptGroup_aok hs _ _)).append (ih _)

theorem adaptRules_compact (ctx : Ctx) : ∀ (rules : List Rule) (st : PSt),
    ∀ r ∈ (adaptRules ctx st rules).2.2, r.compact := by
  intro rules
  induction rules with
  | nil => intro st r hr; simp [adaptRules] at hr
  | cons x rest ih =>
    intro st r hr
    simp only [adaptRules] at hr
    rcases List.mem_cons.mp hr with e | e
    · subst e; exact compactJSON_idem _
    · exact ih _ r e

theorem overA_aok {ctx : Ctx} (hs : AddrCtx ctx) (T : Config) : ∀ (ps : List Policy) (st : PSt),
    AOk (overA ctx T ps st).2 := by
  intro ps
  induction ps with
  | nil => intro st; exact AOk.nil
  | cons pa rest ih =>
    intro st
    unfold overA
    cases hT : findPolicyLast T.policies pa.id with
    | none =>
      simp only
      intro c hc
      rcases List.mem_cons.mp hc with e | e
      · subst e; exact trivial
      · exact ih st c e
    | some pb =>
      simp only
      exact (diffRules_aok hs st pa pb).append (ih _)

theorem overB_aok {ctx : Ctx} (hs : AddrCtx ctx) (A : Config) : ∀ (ps : List Policy) (st : PSt),
    AOk (overB ctx A ps st).2 := by
  intro ps
  induction ps with
  | nil => intro st; exact AOk.nil
  | cons pb rest ih =>
    intro st
    unfold overB
    by_cases h : A.policies.any (·.id == pb.id) = true
    · simp only [h, if_true]; exact ih st
    · have h' : A.policies.any (·.id == pb.id) = false := Bool.eq_false_iff.mpr h
      simp only [h', Bool.false_eq_true, if_false]
      refine AOk.append ?_ (ih _)
      simp only [createPolicy]
      exact (adaptRules_aok hs _ _).append (AOk.single (adaptRules_compact ctx _ _))

theorem planSvc_aok (aS : List Service) : ∀ (bS : List Service) (seen : List String), AOk (planSvc aS bS seen).1 := by
  intro bS
  induction bS with
  | nil => intro seen; exact AOk.nil
  | cons sb rest ih =>
    intro seen
    by_cases hseen : seen.contains sb.id = true
    · rw [planSvc_cons_seen aS sb rest seen hseen]; exact ih seen
    · rw [planSvc_cons_new aS sb rest seen (Bool.eq_false_iff.mpr hseen)]
      simp only
      refine AOk.append ?_ (ih _)
      cases hfa : findService aS.reverse sb.id with
      | none => exact AOk.single trivial
      | some sa =>
        simp only
        split
        · exact AOk.nil
        · exact AOk.single trivial

theorem plan_aok {diff : Diff} (hdiff : ∀ n m eq, validScript n m eq (diff n m eq) = true)
    {S : Store} {T : Config} (hS : StoreFacts S) (hT : TargetFacts T) : AOk (plan diff (load S) T).calls := by
  cases hmk : mkCtx diff (load S) T with
  | none => simp only [plan, hmk]; exact AOk.nil
  | some ctx =>
    rw [plan_eq hmk]
    simp only
    have hcf := ctxFacts_of (diff := diff) hS hT hmk
    have hs : AddrCtx ctx := ⟨by rw [hcf.diff_eq]; exact hdiff, hcf.ok.b_addrs⟩
    refine ((((planSvc_aok _ _ _).append (overA_aok hs T _ _)).append (overB_aok hs (load S) _ _)).append ?_).append ?_
    · intro c hc
      obtain ⟨s, _, e⟩ := List.mem_map.mp hc
      subst e; exact trivial
    · intro c hc
      obtain ⟨g, _, e⟩ := List.mem_map.mp hc
      subst e; exact trivial

/-! ### The state after a prefix is accepted again -/

theorem filter_unmanaged_of_part {S S' : Store} (h : unmanagedPart S' = unmanagedPart S) :
    S'.policies.filter (fun p => !managed p.id) = S.policies.filter (fun p => !managed p.id) ∧
    S'.groups.filter (fun g => !managed g.id) = S.groups.filter (fun g => !managed g.id) ∧
    S'.services.filter (fun s => !managed s.id) = S.services.filter (fun s => !managed s.id) := by
  unfold unmanagedPart at h
  injection h with h1 h2 h3
  exact ⟨h1, h2, h3⟩

/-- After any prefix of the script the pair (manager state, target) satisfies the side conditions
of the end-to-end theorem again. -/
theorem prefix_accepted {diff : Diff} (hdiff : ∀ n m eq, validScript n m eq (diff n m eq) = true)
    {S : Store} {T : Config} (hacc : accepted S T = true) (k : Nat) {Sk : Store}
    (hk : run S ((plan diff (load S) T).calls.take k) = some Sk) : accepted Sk T = true := by
  unfold accepted at hacc ⊢
  simp only [Bool.and_eq_true] at hacc ⊢
  obtain ⟨⟨⟨⟨⟨h1, h2⟩, h3⟩, h4⟩, h5⟩, h6⟩ := hacc
  have hS := storeFacts_of h1 h2
  have hT := targetFacts_of h3 h4
  have hscope : Scoped ((plan diff (load S) T).calls.take k) :=
    fun c hc => plan_scope hS hT c (List.mem_of_mem_take hc)
  have haok : ∀ c ∈ (plan diff (load S) T).calls.take k, c.addrsOk :=
    fun c hc => plan_aok hdiff hS hT c (List.mem_of_mem_take hc)
  obtain ⟨hwf, haddr⟩ := run_wf_addrs _ S Sk (wf_of_storeWF h1) (addrsNodup_iff.mp h2) haok hk
  obtain ⟨fp, fg, fs⟩ := filter_unmanaged_of_part (run_frame _ S Sk hscope hk)
  refine ⟨⟨⟨⟨⟨storeWF_of_wf hwf, addrsNodup_iff.mpr haddr⟩, h3⟩, h4⟩, ?_⟩, ?_⟩
  · -- objects outside Netspoc's scope that the target names still exist
    have hgrp : ∀ x, managed x = false → hasGroup S x = true → hasGroup Sk x = true := by
      intro x hm hx
      obtain ⟨g, hg, e⟩ := List.mem_map.mp (hasGroup_iff.mp hx)
      have : g ∈ S.groups.filter (fun g => !managed g.id) := List.mem_filter.mpr ⟨hg, by rw [e, hm]; rfl⟩
      rw [← fg] at this
      exact hasGroup_iff.mpr (List.mem_map.mpr ⟨g, (List.mem_filter.mp this).1, e⟩)
    have hsvc : ∀ x, managed x = false → hasService S x = true → hasService Sk x = true := by
      intro x hm hx
      obtain ⟨s, hs, e⟩ := List.mem_map.mp (hasService_iff.mp hx)
      have : s ∈ S.services.filter (fun s => !managed s.id) := List.mem_filter.mpr ⟨hs, by rw [e, hm]; rfl⟩
      rw [← fs] at this
      exact hasService_iff.mpr (List.mem_map.mpr ⟨s, (List.mem_filter.mp this).1, e⟩)
    unfold extRefsOK at h5 ⊢
    simp only [List.all_eq_true, Bool.and_eq_true] at h5 ⊢
    intro p hp r hr
    obtain ⟨⟨a, b⟩, c⟩ := h5 p hp r hr
    refine ⟨⟨?_, ?_⟩, ?_⟩
    · cases hx : groupRef r.src with
      | none => rfl
      | some x =>
        simp only [hx] at a ⊢
        cases hm : managed x with
        | true => rfl
        | false => simp only [hm, Bool.false_or] at a ⊢; exact hgrp x hm a
    · cases hx : groupRef r.dst with
      | none => rfl
      | some x =>
        simp only [hx] at b ⊢
        cases hm : managed x with
        | true => rfl
        | false => simp only [hm, Bool.false_or] at b ⊢; exact hgrp x hm b
    · cases hx : serviceRef r.service with
      | none => rfl
      | some x =>
        simp only [hx] at c ⊢
        cases hm : managed x with
        | true => rfl
        | false => simp only [hm, Bool.false_or] at c ⊢; exact hsvc x hm c
  · -- policies outside Netspoc's scope are the same ones
    unfold unmanagedIndep at h6 ⊢
    simp only [List.all_eq_true] at h6 ⊢
    intro p hp
    cases hm : managed p.id with
    | true => rfl
    | false =>
      have : p ∈ Sk.policies.filter (fun p => !managed p.id) := List.mem_filter.mpr ⟨hp, by rw [hm]; rfl⟩
      rw [fp] at this
      have := h6 p (List.mem_filter.mp this).1
      rw [hm] at this
      exact this

end NA.Nsx
