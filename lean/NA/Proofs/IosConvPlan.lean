import NA.Proofs.IosConv
/-!
Helpers for the convergence of the IOS planner, part 3a: what `planIOS` emits.

* `insertRuns_items`: the insert runs of the model, flattened, are exactly the new-only cells in
  order, with `before = countOld` and `offset = runOff` (so the number sent is `numOf`).
* `planIOS_shape`: the plan is, for every new-only cell in order, an `add`, a `move` or nothing
  (suppressed move), followed by the deletes (bottom-up) of the old-only cells that were not
  looked up by a new-only cell.
-/
namespace NA.Acl

/-! ### Insert runs vs. cells -/

/-- (cell index, before, offset, line) -/
abbrev Item4 := Nat × Nat × Nat × Line

def itemsFrom4 (b : Nat) : Nat → Nat → List Line → List Item4
  | _, _, [] => []
  | idx, o, l :: ls => (idx, b, o, l) :: itemsFrom4 b (idx + 1) (o + 1) ls

def flat4 (runs : List (Nat × Nat × List Line)) : List Item4 :=
  runs.flatMap fun r => itemsFrom4 r.1 r.2.1 0 r.2.2

def bump (o idx : Nat) : List (Nat × Nat × List Line) → List Item4
  | [] => []
  | r :: rest => if r.2.1 == idx then itemsFrom4 r.1 r.2.1 o r.2.2 ++ flat4 rest else flat4 (r :: rest)

def cellItems : List Cell → Nat → Nat → Nat → List Item4
  | [], _, _, _ => []
  | c :: M, idx, b, o =>
    if c.newOnly then (idx, b, o, c.line) :: cellItems M (idx + 1) b (o + 1)
    else cellItems M (idx + 1) (if c.old then b + 1 else b) 0

theorem insertRuns_idx_ge (M : List Cell) (idx b : Nat) :
    ∀ r ∈ insertRuns M idx b, idx ≤ r.2.1 := by
  induction M generalizing idx b with
  | nil => simp [insertRuns]
  | cons c M ih =>
    intro r hr
    simp only [insertRuns] at hr
    split at hr
    · cases hR : insertRuns M (idx + 1) b with
      | nil => simp [hR] at hr; simp [hr]
      | cons r' rest =>
        obtain ⟨b', i', ls⟩ := r'
        have hge : ∀ r ∈ (b', i', ls) :: rest, idx + 1 ≤ r.2.1 := by rw [← hR]; exact ih _ _
        simp only [hR] at hr
        split at hr
        · rcases List.mem_cons.mp hr with h | h
          · simp [h]
          · have := hge r (List.mem_cons_of_mem _ h); omega
        · rcases List.mem_cons.mp hr with h | h
          · simp [h]
          · have := hge r h; omega
    · have := ih _ _ r hr; omega

theorem insertRuns_head_before (M : List Cell) (idx b : Nat) (r : Nat × Nat × List Line)
    (rest : List (Nat × Nat × List Line)) (h : insertRuns M idx b = r :: rest) (hi : r.2.1 = idx) :
    r.1 = b := by
  cases M with
  | nil => simp [insertRuns] at h
  | cons c M =>
    simp only [insertRuns] at h
    split at h
    · cases hR : insertRuns M (idx + 1) b with
      | nil => simp [hR] at h; simp [← h.1]
      | cons r' rest' =>
        obtain ⟨b', i', ls⟩ := r'
        simp only [hR] at h
        split at h <;> (simp at h; simp [← h.1])
    · have := insertRuns_idx_ge M (idx + 1) _ r (by rw [h]; exact List.mem_cons_self)
      omega

theorem bump_zero (idx : Nat) (runs : List (Nat × Nat × List Line)) : bump 0 idx runs = flat4 runs := by
  cases runs with
  | nil => rfl
  | cons r rest => simp only [bump]; split <;> simp [flat4]

theorem bump_insertRuns (M : List Cell) (idx b o : Nat) :
    bump o idx (insertRuns M idx b) = cellItems M idx b o := by
  induction M generalizing idx b o with
  | nil => rfl
  | cons c M ih =>
    simp only [insertRuns, cellItems]
    by_cases hc : c.newOnly = true
    · have hc' : (c.new && !c.old) = true := hc
      simp only [hc, hc', if_true]
      rw [← ih (idx + 1) b (o + 1)]
      cases hR : insertRuns M (idx + 1) b with
      | nil => simp [bump, itemsFrom4, flat4]
      | cons r' rest =>
        obtain ⟨b', i', ls⟩ := r'
        simp only
        by_cases hm : (b' == b && i' == idx + 1) = true
        · simp only [hm, if_true]
          simp only [Bool.and_eq_true, beq_iff_eq] at hm
          obtain ⟨rfl, rfl⟩ := hm
          simp [bump, itemsFrom4]
        · simp only [hm]
          have hi : i' ≠ idx + 1 := by
            intro hi
            have := insertRuns_head_before M (idx + 1) b _ _ hR hi
            simp at this
            simp [this, hi] at hm
          simp [bump, itemsFrom4, hi, flat4]
    · have hc' : (c.new && !c.old) = false := by simpa [Cell.newOnly] using hc
      simp only [hc, hc', Bool.false_eq_true, if_false]
      rw [← ih, bump_zero]
      cases hR : insertRuns M (idx + 1) (if c.old = true then b + 1 else b) with
      | nil => rfl
      | cons r rest =>
        have := insertRuns_idx_ge M (idx + 1) _ r (by rw [hR]; exact List.mem_cons_self)
        have hne : r.2.1 ≠ idx := by omega
        simp [bump, hne]

def item4 (M : List Cell) (j : Nat) : Item4 := (j, countOld M j, runOff M j, (M.getD j default).line)

theorem cellItems_eq (pre M : List Cell) :
    cellItems M pre.length (countOld (pre ++ M) pre.length) (runOff (pre ++ M) pre.length) =
      ((List.range' pre.length M.length).filter fun i => ((pre ++ M).getD i default).newOnly).map
        (item4 (pre ++ M)) := by
  induction M generalizing pre with
  | nil => simp [cellItems]
  | cons c M ih =>
    have hget : (pre ++ c :: M).getD pre.length default = c := by
      simp [List.getD_eq_getElem?_getD]
    have hlen : pre.length < (pre ++ c :: M).length := by simp
    have ih' := ih (pre ++ [c])
    have happ : pre ++ [c] ++ M = pre ++ c :: M := by simp
    rw [happ] at ih'
    simp only [List.length_append, List.length_cons, List.length_nil, Nat.zero_add] at ih'
    rw [countOld_succ _ _ hlen, hget] at ih'
    simp only [runOff, hget] at ih'
    simp only [cellItems, List.length_cons, List.range'_succ, List.filter_cons, hget]
    by_cases hc : c.newOnly = true
    · have hold : c.old = false := by
        simp [Cell.newOnly] at hc; exact hc.2
      simp only [hc, if_true, List.map_cons, hold, Bool.false_eq_true, if_false, Nat.add_zero] at ih' ⊢
      rw [ih']
      simp [item4]
    · simp only [hc, Bool.false_eq_true, if_false] at ih' ⊢
      rw [← ih']
      cases c.old <;> simp

/-- The insert runs of the model are the new-only cells, in order, with `before = countOld`,
`offset = runOff`. -/
theorem insertRuns_items (M : List Cell) : flat4 (insertRuns M 0 0) = (addIdx M).map (item4 M) := by
  rw [← bump_zero 0, bump_insertRuns]
  have := cellItems_eq [] M
  simp only [List.length_nil, List.nil_append] at this
  have h0 : countOld M 0 = 0 := by simp [countOld]
  rw [h0] at this
  simp only [runOff] at this
  rw [this, addIdx, List.range_eq_range']
  rfl

/-! ### Items as the planner sends them: (number, line) -/

abbrev Item := Nat × Line

def itemsFrom (before : Nat) : Nat → List Line → List Item
  | _, [] => []
  | i, l :: ls => (before * 10000 + i + 1, l) :: itemsFrom before (i + 1) ls

def runItems (r : Nat × Nat × List Line) : List Item := itemsFrom r.1 0 r.2.2

def Item4.toItem (x : Item4) : Item := (x.2.1 * 10000 + x.2.2.1 + 1, x.2.2.2)

theorem itemsFrom4_toItem (b idx o : Nat) (ls : List Line) :
    (itemsFrom4 b idx o ls).map Item4.toItem = itemsFrom b o ls := by
  induction ls generalizing idx o with
  | nil => rfl
  | cons l ls ih => simp [itemsFrom4, itemsFrom, Item4.toItem, ih]

theorem flat4_toItem (runs : List (Nat × Nat × List Line)) :
    (flat4 runs).map Item4.toItem = runs.flatMap runItems := by
  induction runs with
  | nil => rfl
  | cons r rest ih =>
    simp only [flat4, List.flatMap_cons, List.map_append, itemsFrom4_toItem] at ih ⊢
    rw [ih]; rfl

def newItem (M : List Cell) (j : Nat) : Item := (numOf M j, (M.getD j default).line)

theorem mem_addIdxI {M : List Cell} {j : Nat} :
    j ∈ addIdx M ↔ j < M.length ∧ (M.getD j default).newOnly = true := by
  simp [addIdx, Cell.newOnly]

theorem mem_delIdxI {M : List Cell} {j : Nat} :
    j ∈ delIdx M ↔ j < M.length ∧ (M.getD j default).oldOnly = true := by
  simp [delIdx, Cell.oldOnly]

/-- Consistency of the model's numbering with `numOf`. -/
theorem insertRuns_numOf (M : List Cell) :
    (insertRuns M 0 0).flatMap runItems = (addIdx M).map (newItem M) := by
  rw [← flat4_toItem, insertRuns_items, List.map_map]
  apply List.map_congr_left
  intro j hj
  have := (mem_addIdxI.mp hj).2
  simp [Cell.newOnly] at this
  simp [item4, Item4.toItem, newItem, numOf, this.2]

/-! ### The code's abort condition implies `runsShort` -/

theorem itemsFrom4_off_lt (b idx o : Nat) (ls : List Line) :
    ∀ x ∈ itemsFrom4 b idx o ls, x.2.2.1 < o + ls.length := by
  induction ls generalizing idx o with
  | nil => simp [itemsFrom4]
  | cons l ls ih =>
    intro x hx
    simp only [itemsFrom4, List.mem_cons] at hx
    rcases hx with rfl | hx
    · simp
    · have := ih _ _ x hx
      simp only [List.length_cons]; omega

/-- `errlog.Abort("Can't insert more than 9999 ACL lines at once")` not taken. -/
def runsOK (M : List Cell) : Bool := (insertRuns M 0 0).all fun r => r.2.2.length < 10000

theorem runsShort_of_runsOK (M : List Cell) (h : runsOK M = true) : runsShort M := by
  have hall : ∀ x ∈ flat4 (insertRuns M 0 0), x.2.2.1 + 1 < 10000 := by
    intro x hx
    simp only [flat4, List.mem_flatMap] at hx
    obtain ⟨r, hr, hxr⟩ := hx
    have h1 := itemsFrom4_off_lt _ _ _ _ x hxr
    have h2 := (List.all_eq_true.mp h) r hr
    simp only [decide_eq_true_eq] at h2
    omega
  rw [insertRuns_items] at hall
  intro i hi
  cases i with
  | zero => simp [runOff]
  | succ k =>
    simp only [runOff]
    split
    · rename_i hn
      have hk : k ∈ addIdx M := mem_addIdxI.mpr ⟨by omega, hn⟩
      have := hall (item4 M k) (List.mem_map.mpr ⟨k, hk, rfl⟩)
      simpa [item4] using this
    · omega

/-! ### The add phase of the planner -/

def lookupI (M : List Cell) (it : Item) : Option Nat := iosDelLookup M it.2.mkey

/-- What the planner emits for one inserted line; the flag says "move suppressed". -/
def itemOps (M : List Cell) (x : Item × Bool) : List IOp :=
  match iosDelLookup M x.1.2.mkey with
  | none => [IOp.add x.1.1 x.1.2]
  | some ai => if x.2 then [] else [IOp.move ((ai + 1) * 10000) x.1.1 x.1.2]

/-- The suppression test of `moveACL` (without `moveOK`). -/
def blkCond (blk : List Nat) (before : Nat) (sameAct : Bool) (ai : Nat) : Bool :=
  (decide (before > 0) && blk.getD (before - 1) 0 == blk.getD ai 0) ||
    (sameAct && decide (before < blk.length) && blk.getD before 0 == blk.getD ai 0)

/-- `Rsn`: what is known about an item whose move was suppressed. -/
def AddInv (M : List Cell) (Rsn : Item → Prop) (done : List Item) (st : IosSt) : Prop :=
  ∃ flags : List Bool, flags.length = done.length ∧
    st.ops = ((done.zip flags).flatMap (itemOps M)).reverse ∧
    st.moved = (done.filterMap (lookupI M)).reverse ∧
    ∀ x ∈ done.zip flags, x.2 = true → Rsn x.1

theorem go_inv (M : List Cell) (Rsn : Item → Prop) (blk : List Nat) (before : Nat) (al : List Line)
    (action0 : Act) (sameAct : Bool) (full pre ls : List Line) (hfull : full = pre ++ ls)
    (hR : ∀ i b ai, full[i]? = some b → ((full.take (i + 1)).all fun c => action0 == c.act) = true →
      iosDelLookup M b.mkey = some ai → blkCond blk before sameAct ai = true →
      Rsn (before * 10000 + i + 1, b))
    (st : IosSt) (done : List Item)
    (h : AddInv M Rsn done st)
    (hnd : ((done ++ itemsFrom before pre.length ls).filterMap (lookupI M)).Nodup) :
    AddInv M Rsn (done ++ itemsFrom before pre.length ls)
      (iosRun.go M blk before al action0 sameAct ls pre.length
        (pre.all fun c => action0 == c.act) st) := by
  induction ls generalizing pre st done with
  | nil => simpa [itemsFrom, iosRun.go] using h
  | cons b rest ih =>
    simp only [iosRun.go, itemsFrom]
    have happ : done ++ (before * 10000 + pre.length + 1, b) :: itemsFrom before (pre.length + 1) rest =
        (done ++ [(before * 10000 + pre.length + 1, b)]) ++ itemsFrom before (pre.length + 1) rest := by
      simp
    simp only [itemsFrom] at hnd
    rw [happ] at hnd ⊢
    have hpre : (pre ++ [b]).length = pre.length + 1 := by simp
    have hok : ((pre.all fun c => action0 == c.act) && action0 == b.act) =
        ((pre ++ [b]).all fun c => action0 == c.act) := by simp
    have hfull' : full = (pre ++ [b]) ++ rest := by rw [hfull]; simp
    have hget : full[pre.length]? = some b := by rw [hfull]; simp
    have htake : full.take (pre.length + 1) = pre ++ [b] := by
      rw [hfull', ← hpre, List.take_left']; rfl
    have ih' : ∀ (st' : IosSt) (done' : List Item), AddInv M Rsn done' st' →
        ((done' ++ itemsFrom before (pre.length + 1) rest).filterMap (lookupI M)).Nodup →
        AddInv M Rsn (done' ++ itemsFrom before (pre.length + 1) rest)
          (iosRun.go M blk before al action0 sameAct rest (pre.length + 1)
            ((pre.all fun c => action0 == c.act) && action0 == b.act) st') := by
      intro st' done' h1 h2
      have := ih (pre ++ [b]) hfull' st' done' h1 (by rw [hpre]; exact h2)
      rw [hpre, ← hok] at this
      exact this
    apply ih'
    · obtain ⟨flags, hlen, hops, hmoved, hrsn⟩ := h
      cases hl : iosDelLookup M b.mkey with
      | none =>
        refine ⟨flags ++ [false], by simp [hlen], ?_, ?_, ?_⟩
        · simp [List.zip_append hlen.symm, itemOps, hl, hops]
        · simp [List.filterMap_append, lookupI, hl, hmoved]
        · intro x hx hx2
          rw [List.zip_append hlen.symm] at hx
          rcases List.mem_append.mp hx with hx | hx
          · exact hrsn x hx hx2
          · simp at hx; rw [hx] at hx2; simp at hx2
      | some ai =>
        have hnot : st.moved.contains ai = false := by
          rw [List.filterMap_append, List.filterMap_append] at hnd
          have h1 := (List.nodup_append.mp (List.nodup_append.mp hnd).1).2.2
          have h2 : ai ∈ List.filterMap (lookupI M) [(before * 10000 + pre.length + 1, b)] := by
            simp [lookupI, hl]
          cases hc : st.moved.contains ai with
          | false => rfl
          | true =>
            have hm : ai ∈ st.moved := List.contains_iff_mem.mp hc
            rw [hmoved, List.mem_reverse] at hm
            exact absurd rfl (h1 ai hm ai h2)
        simp only [hnot, Bool.false_eq_true, if_false]
        split
        · rename_i hsup
          refine ⟨flags ++ [true], by simp [hlen], ?_, ?_, ?_⟩
          · simp [List.zip_append hlen.symm, itemOps, hl, hops]
          · simp [List.filterMap_append, lookupI, hl, hmoved]
          · intro x hx hx2
            rw [List.zip_append hlen.symm] at hx
            rcases List.mem_append.mp hx with hx | hx
            · exact hrsn x hx hx2
            · simp at hx
              rw [hx]
              rw [Bool.and_eq_true] at hsup
              apply hR pre.length b ai hget _ hl
              · exact hsup.2
              · rw [htake, ← hok]; exact hsup.1
        · refine ⟨flags ++ [false], by simp [hlen], ?_, ?_, ?_⟩
          · simp [List.zip_append hlen.symm, itemOps, hl, hops]
          · simp [List.filterMap_append, lookupI, hl, hmoved]
          · intro x hx hx2
            rw [List.zip_append hlen.symm] at hx
            rcases List.mem_append.mp hx with hx | hx
            · exact hrsn x hx hx2
            · simp at hx; rw [hx] at hx2; simp at hx2
    · exact hnd

/-- What `iosRun` knows when it suppresses the move of line `i` of run `r`. -/
def RunRsn (M : List Cell) (blk : List Nat) (r : Nat × Nat × List Line) (it : Item) : Prop :=
  ∃ i b ai, r.2.2[i]? = some b ∧ it = (r.1 * 10000 + i + 1, b) ∧
    ((r.2.2.take (i + 1)).all fun c => (r.2.2.headD default).act == c.act) = true ∧
    iosDelLookup M b.mkey = some ai ∧
    blkCond blk r.1 (r.2.2.all fun c => c.act == (r.2.2.headD default).act) ai = true

theorem runs_inv (M : List Cell) (Rsn : Item → Prop) (blk : List Nat)
    (runs : List (Nat × Nat × List Line))
    (hR : ∀ r ∈ runs, ∀ it, RunRsn M blk r it → Rsn it)
    (st : IosSt) (done : List Item) (h : AddInv M Rsn done st)
    (hnd : ((done ++ runs.flatMap runItems).filterMap (lookupI M)).Nodup) :
    AddInv M Rsn (done ++ runs.flatMap runItems) (runs.foldl (iosRun M blk) st) := by
  induction runs generalizing st done with
  | nil => simpa using h
  | cons r rest ih =>
    obtain ⟨b, i, ls⟩ := r
    simp only [List.flatMap_cons, List.foldl_cons] at hnd ⊢
    rw [← List.append_assoc] at hnd ⊢
    apply ih (fun r hr => hR r (List.mem_cons_of_mem _ hr))
    · have hnd' : ((done ++ itemsFrom b 0 ls).filterMap (lookupI M)).Nodup := by
        rw [List.filterMap_append] at hnd
        exact (List.nodup_append.mp hnd).1
      have := go_inv M Rsn blk b (olds M) (ls.headD default).act
        (ls.all fun c => c.act == (ls.headD default).act) ls [] ls rfl
        (by
          intro i' b' ai h1 h2 h3 h4
          exact hR (b, i, ls) List.mem_cons_self _ ⟨i', b', ai, h1, rfl, h2, h3, h4⟩)
        st done h hnd'
      exact this
    · exact hnd

/-! ### The delete phase -/

def delStep (st : IosSt) (ai : Nat) : IosSt :=
  if st.moved.contains ai then st else { st with ops := IOp.del ((ai + 1) * 10000) :: st.ops }

theorem delFold_ops (ais : List Nat) (st : IosSt) :
    (ais.foldl delStep st).ops =
      ((ais.filter fun ai => !st.moved.contains ai).map fun ai => IOp.del ((ai + 1) * 10000)).reverse
        ++ st.ops := by
  induction ais generalizing st with
  | nil => simp
  | cons a ais ih =>
    simp only [List.foldl_cons]
    rw [ih]
    have hm : (delStep st a).moved = st.moved := by unfold delStep; split <;> rfl
    rw [hm]
    unfold delStep
    by_cases hc : a ∈ st.moved <;> simp [hc]

/-- Shape of the plan: adds / moves / suppressed moves for the new-only cells in order, then the
deletes, bottom-up, of the device lines that no inserted line looked up.  `flags`: the suppression
decisions, each with its reason (`RunRsn` for the block ids `blk` that `blockPass` computed). -/
theorem planIOS_shape' (M : List Cell) (hboth : (M.any fun c => c.old && c.new) = true)
    (hnd : (((addIdx M).map (newItem M)).filterMap (lookupI M)).Nodup) :
    ∃ flags : List Bool, flags.length = (addIdx M).length ∧
      planIOS M = (((addIdx M).map (newItem M)).zip flags).flatMap (itemOps M) ++
        ((((delIdx M).map (countOld M)).reverse.filter fun ai =>
            !(((addIdx M).map (newItem M)).filterMap (lookupI M)).contains ai).map
          fun ai => IOp.del ((ai + 1) * 10000)) ∧
      ∀ x ∈ ((addIdx M).map (newItem M)).zip flags, x.2 = true →
        ∃ r ∈ insertRuns M 0 0, RunRsn M
          (blockPass (olds M) (insertRuns M 0 0) (blocksOf (olds M)) (maxBlock (olds M))).1 r x.1 := by
  rw [← insertRuns_numOf] at hnd ⊢
  unfold planIOS planIOS'
  simp only [hboth, Bool.not_true, Bool.false_eq_true, if_false]
  generalize (blockPass (olds M) (insertRuns M 0 0) (blocksOf (olds M)) (maxBlock (olds M))) = bp
  obtain ⟨blk, mx⟩ := bp
  simp only
  have h0 : AddInv M (fun it => ∃ r ∈ insertRuns M 0 0, RunRsn M blk r it) [] {} :=
    ⟨[], rfl, rfl, rfl, by simp⟩
  have h1 := runs_inv M _ blk (insertRuns M 0 0) (fun r hr it hit => ⟨r, hr, hit⟩) {} [] h0
    (by simpa using hnd)
  simp only [List.nil_append] at h1
  obtain ⟨flags, hlen, hops, hmoved, hrsn⟩ := h1
  refine ⟨flags, by rw [hlen, insertRuns_numOf]; simp, ?_, hrsn⟩
  have := delFold_ops ((delIdx M).map (countOld M)).reverse
    ((insertRuns M 0 0).foldl (iosRun M blk) {})
  unfold delStep at this
  rw [this, hops, hmoved]
  simp only [List.reverse_append, List.reverse_reverse, List.append_cancel_left_eq]
  congr 1
  apply List.filter_congr
  intro x _
  simp

theorem planIOS_shape (M : List Cell) (hboth : (M.any fun c => c.old && c.new) = true)
    (hnd : (((addIdx M).map (newItem M)).filterMap (lookupI M)).Nodup) :
    ∃ flags : List Bool, flags.length = (addIdx M).length ∧
      planIOS M = (((addIdx M).map (newItem M)).zip flags).flatMap (itemOps M) ++
        ((((delIdx M).map (countOld M)).reverse.filter fun ai =>
            !(((addIdx M).map (newItem M)).filterMap (lookupI M)).contains ai).map
          fun ai => IOp.del ((ai + 1) * 10000)) := by
  obtain ⟨flags, h1, h2, _⟩ := planIOS_shape' M hboth hnd
  exact ⟨flags, h1, h2⟩

end NA.Acl
