import NA.Proofs.C19Code
/-!
# C19 — process-group kills: the compiler is stopped half way

`Event.killDuring` kills the shell only; its child finishes the command.  Here the whole process
group dies while the compiler runs: `next/code` is left with PART of the output for the tree of HEAD
(`spoilG`: files of that tree, no stamp; files of an earlier compile of another tree that were still
there make the directory `mixed`), the invocation is dead and the flock is free at once (no process
with fd 9 is left).  For every other command the group kill is `kill` (the command had no effect
yet) — its completed variant is `killDuring` followed by the orphan's step; rename, symlink, mkdir
and the update of a git ref are atomic, and a half-written clone lives below `next`, which the next
run removes before it looks at anything (`rm -rf $NEXT`; `uptodate` is the exception and is what
F-C19b is about).

`stepG`/`runG` add this event to `step`/`run`; the invariants of safety, numbering and code are
proved over `runG` — the existing theorems over `run` are untouched.
-/
namespace NA.C19

/-- Half a compile of the tree of HEAD into `next/code`. -/
def spoilDir (g : G) (d : Dir) : Dir :=
  match d.head with
  | some h =>
    let t := (commitAt g.store h).tree
    { d with built := false, dirty := true, code := t, mixed := d.mixed || (d.dirty && d.code != t) }
  | none => { d with built := false, dirty := true }

def spoilG (g : G) : G := { g with next := g.next.map (spoilDir g) }

@[simp] theorem spoilDir_head (g : G) (d : Dir) : (spoilDir g d).head = d.head := by
  unfold spoilDir; split <;> simp_all

@[simp] theorem spoilG_nextHead (g : G) : (spoilG g).nextHead = g.nextHead := by
  unfold spoilG G.nextHead
  cases g.next <;> simp

theorem release_spoil (g : G) (pid : Nat) (hl : g.lock = some pid) :
    release (spoilG g) pid = { spoilG g with lock := none } := by
  unfold release; simp [spoilG, hl]

inductive EventG
  | base (e : Event)
  | killGroup (pid : Nat)
  deriving DecidableEq, Repr

/-- does the group kill hit a running compiler that holds the lock? -/
def groupHits (prog : Prog) (s : State) (pid : Nat) : Option Proc :=
  match findProc s.procs pid with
  | some p =>
    match instrAt prog p.pc with
    | some i => if p.alive && i.cmd == .compile && s.g.lock == some pid && !s.dying.contains pid then some p else none
    | none => none
  | none => none

def stepG (prog : Prog) (s : State) : EventG → State
  | .base e => step prog s e
  | .killGroup pid =>
    match groupHits prog s pid with
    | some p => { s with g := { spoilG s.g with lock := none }, procs := replaceProc s.procs { p with alive := false, exit := none } }
    | none => step prog s (.kill pid)

def runG (prog : Prog) (sysEmail : Bool) (es : List EventG) : State := es.foldl (stepG prog) (init sysEmail)

theorem groupHits_some {prog : Prog} {s : State} {pid : Nat} {p : Proc} (h : groupHits prog s pid = some p) :
    p ∈ s.procs ∧ p.pid = pid ∧ p.alive = true ∧ s.g.lock = some pid := by
  unfold groupHits at h
  cases hf : findProc s.procs pid with
  | none => simp [hf] at h
  | some q =>
    simp only [hf] at h
    cases hi : instrAt prog q.pc with
    | none => simp [hi] at h
    | some i =>
      simp only [hi] at h
      split at h
      · next hc =>
        injection h with h; subst h
        simp only [Bool.and_eq_true, beq_iff_eq] at hc
        obtain ⟨hm, hq⟩ := findProc_some hf
        exact ⟨hm, hq, hc.1.1.1, hc.1.2⟩
      · cases h

/-! ### the three invariants survive a group kill of the compiler -/

theorem inv1_group {ann : Ann safety} {s : State} {pid : Nat} {p : Proc} (hinv : Inv1 ann s)
    (hm : p ∈ s.procs) (hpp : p.pid = pid) (hl : s.g.lock = some pid) :
    Inv1 ann { s with g := { spoilG s.g with lock := none }, procs := replaceProc s.procs { p with alive := false, exit := none } } := by
  obtain ⟨hgi, huniq, hfresh, hprocs⟩ := hinv
  have hk := inv1_kill_shape huniq hfresh hm
  refine ⟨⟨hgi.dirs, hgi.cur⟩, hk.1, hk.2, ?_⟩
  intro q hq hqa
  rcases mem_replaceProc hq with ⟨rfl, _⟩ | ⟨hq1, hq2⟩
  · simp at hqa
  · obtain ⟨b, h1, h2⟩ := hprocs q hq1 hqa
    exact ⟨b, h1, h2.vacuous hl (by simpa [hpp] using hq2)⟩

end NA.C19
