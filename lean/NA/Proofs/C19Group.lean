import NA.Proofs.C19Code
/-!
# C19 — process-group kills: the compiler is stopped half way

`Event.killDuring` kills the shell only; its child finishes the command.  Here the whole process
group dies while the compiler runs: `next/code` is left with PART of the output for the tree of HEAD
(`spoilG`: files of that tree, no stamp; files of an earlier compile of another tree that were still
there make the directory `mixed`), the invocation is dead and the flock is free at once (no process
with fd 9 is left).  For every other command the group kill is `kill` (the command had no effect
yet) — its completed variant is `killDuring` followed by the orphan's step; rename, symlink, mkdir
and the update of a git ref are atomic, and a half-written clone lives below `next`, which the next
run removes before it looks at anything (`rm -rf $NEXT`; `uptodate` is the exception and is what
F-C19b is about).

`stepG`/`runG` add this event to `step`/`run`; the invariants of safety, numbering and code are
proved over `runG` — the existing theorems over `run` are untouched.
-/
namespace NA.C19

@[simp] theorem spoilDir_head (g : G) (d : Dir) : (spoilDir g d).head = d.head := by
  unfold spoilDir; split <;> simp_all

@[simp] theorem spoilG_nextHead (g : G) : (spoilG g).nextHead = g.nextHead := by
  unfold spoilG G.nextHead
  cases g.next <;> simp

theorem groupHits_some {prog : Prog} {s : State} {pid : Nat} {p : Proc} (h : groupHits prog s pid = some p) :
    p ∈ s.procs ∧ p.pid = pid ∧ p.alive = true ∧ s.g.lock = some pid := by
  unfold groupHits at h
  cases hf : findProc s.procs pid with
  | none => simp [hf] at h
  | some q =>
    simp only [hf] at h
    cases hi : instrAt prog q.pc with
    | none => simp [hi] at h
    | some i =>
      simp only [hi] at h
      split at h
      · next hc =>
        injection h with h; subst h
        simp only [Bool.and_eq_true, beq_iff_eq] at hc
        obtain ⟨hm, hq⟩ := findProc_some hf
        exact ⟨hm, hq, hc.1.1.1, hc.1.2⟩
      · cases h

/-! ### the three invariants survive a group kill of the compiler -/

theorem inv1_group {ann : Ann safety} {s : State} {pid : Nat} {p : Proc} (hinv : Inv1 ann s)
    (hm : p ∈ s.procs) (hpp : p.pid = pid) (hl : s.g.lock = some pid) :
    Inv1 ann { s with g := { spoilG s.g with lock := none }, procs := replaceProc s.procs { p with alive := false, exit := none } } := by
  obtain ⟨hgi, huniq, hfresh, hprocs⟩ := hinv
  refine ⟨⟨hgi.dirs, hgi.cur⟩, unique_replaceProc huniq, ?_, ?_⟩
  · intro q hq
    rcases mem_replaceProc hq with ⟨rfl, _⟩ | ⟨hq1, _⟩
    · exact hfresh p hm
    · exact hfresh q hq1
  · intro q hq hqa
    rcases mem_replaceProc hq with ⟨rfl, _⟩ | ⟨hq1, hq2⟩
    · simp at hqa
    · obtain ⟨b, h1, h2⟩ := hprocs q hq1 hqa
      exact ⟨b, h1, h2.vacuous hl (by simpa [hpp] using hq2)⟩

theorem quiet_spoil (g : G) : quiet { spoilG g with lock := none } ↔ quiet g := by
  simp [quiet, spoilG]

theorem inv2_group {ann : Ann numbering} {s : State} {pid : Nat} {p : Proc} (hinv : Inv2 ann s)
    (hm : p ∈ s.procs) (hpp : p.pid = pid) (hl : s.g.lock = some pid) :
    Inv2 ann { s with g := { spoilG s.g with lock := none }, procs := replaceProc s.procs { p with alive := false, exit := none } } := by
  obtain ⟨hdh, hvg, hvp, hn, hprocs⟩ := hinv
  refine ⟨hdh, ⟨hvg.remote, fun x hx => hvg.head x (by rw [← spoilG_nextHead s.g]; exact hx)⟩, ?_,
    fun hq => ?_, ?_⟩
  · intro q hq
    rcases mem_replaceProc hq with ⟨rfl, _⟩ | ⟨hq1, _⟩
    · exact ⟨(hvp p hm).base, (hvp p hm).hash⟩
    · exact ⟨(hvp q hq1).base, (hvp q hq1).hash⟩
  · have h := hn ((quiet_spoil s.g).mp hq)
    exact ⟨h.bound, h.incr⟩
  · intro hqu q hq hqa
    rcases mem_replaceProc hq with ⟨rfl, _⟩ | ⟨hq1, hq2⟩
    · simp at hqa
    · obtain ⟨b, h1, h2⟩ := hprocs ((quiet_spoil s.g).mp hqu) q hq1 hqa
      exact ⟨b, h1, h2.vacuous hl (by simpa [hpp] using hq2)⟩

theorem inv4_group {ann : Ann code} {s : State} {pid : Nat} {p : Proc} (hinv : Inv4 ann s)
    (hpp : p.pid = pid) (hl : s.g.lock = some pid) :
    Inv4 ann { s with g := { spoilG s.g with lock := none }, procs := replaceProc s.procs { p with alive := false, exit := none } } := by
  obtain ⟨hgi, hprocs⟩ := hinv
  refine ⟨⟨hgi.dirs, hgi.rpos, fun x hx => hgi.hpos x (by rw [← spoilG_nextHead s.g]; exact hx)⟩, ?_⟩
  intro q hq hqa
  rcases mem_replaceProc hq with ⟨rfl, _⟩ | ⟨hq1, hq2⟩
  · simp at hqa
  · obtain ⟨b, h1, h2⟩ := hprocs q hq1 hqa
    exact ⟨b, h1, h2.vacuous hl (by simpa [hpp] using hq2)⟩

/-- Safety, numbering and code invariants over all histories INCLUDING group kills of the compiler. -/
theorem inv124_stepG {prog : Prog} {ann1 : Ann safety} {ann2 : Ann numbering} {ann4 : Ann code}
    (hinh : inhOK prog = true) (hc1 : check safety prog ann1 = true) (hc2 : check numbering prog ann2 = true)
    (hc4 : check code prog ann4 = true) {s : State}
    (h : Inv1 ann1 s ∧ Inv2 ann2 s ∧ Inv4 ann4 s) (e : EventG) :
    Inv1 ann1 (stepG prog s e) ∧ Inv2 ann2 (stepG prog s e) ∧ Inv4 ann4 (stepG prog s e) := by
  cases e with
  | base e => exact inv124_step hinh hc1 hc2 hc4 h e
  | killGroup pid =>
    simp only [stepG]
    cases hg : groupHits prog s pid with
    | none => exact inv124_step hinh hc1 hc2 hc4 h (.kill pid)
    | some p =>
      obtain ⟨hm, hpp, _, hl⟩ := groupHits_some hg
      exact ⟨inv1_group h.1 hm hpp hl, inv2_group h.2.1 hm hpp hl, inv4_group h.2.2 hpp hl⟩

theorem inv124_runG {prog : Prog} {ann1 : Ann safety} {ann2 : Ann numbering} {ann4 : Ann code}
    (hinh : inhOK prog = true) (hc1 : check safety prog ann1 = true) (hc2 : check numbering prog ann2 = true)
    (hc4 : check code prog ann4 = true) (se : Bool) (es : List EventG) :
    Inv1 ann1 (runG prog se es) ∧ Inv2 ann2 (runG prog se es) ∧ Inv4 ann4 (runG prog se es) := by
  unfold runG
  have h0 : Inv1 ann1 (init se) ∧ Inv2 ann2 (init se) ∧ Inv4 ann4 (init se) :=
    ⟨inv1_init hc1 se, inv2_init (prog := prog) se, inv4_init se⟩
  generalize init se = s0 at h0
  induction es generalizing s0 with
  | nil => exact h0
  | cons e es ih => exact ih _ (inv124_stepG hinh hc1 hc2 hc4 h0 e)

end NA.C19
