import NA.Model.MergeCisco
import NA.Proofs.C18
/-! `mergeVia`: the list merges of `Merge.lean` run on position tags; every law about the tag lists
carries over to the tagged elements (ACL lines of the general model). -/
namespace NA.C18.G

variable {α : Type} (kind : α → Kind) (app : α → Bool)

/-- The placement law on arbitrary elements (`qk` on the kind: "is a trailing deny/drop line"). -/
def PlacedL (qk : Kind → Bool) (top net app r : List α) : Prop :=
  ∃ pre post, net = pre ++ post ∧ r = top ++ pre ++ app ++ post ∧
    (∀ y ∈ post, qk (kind y) = true) ∧ (pre = [] ∨ ∃ init y, pre = init ++ [y] ∧ qk (kind y) = false)

theorem PlacedL.perm {qk : Kind → Bool} {top net ap r : List α} (h : PlacedL kind qk top net ap r) :
    r.Perm (top ++ net ++ ap) := by
  obtain ⟨pre, post, hn, hr, _, _⟩ := h
  subst hn hr
  simp only [List.append_assoc]
  exact List.Perm.append_left top (List.Perm.append_left pre List.perm_append_comm)

theorem PlacedL.sub_top {qk : Kind → Bool} {top net ap r : List α} (h : PlacedL kind qk top net ap r) :
    top.Sublist r := by
  obtain ⟨pre, post, _, hr, _, _⟩ := h
  subst hr; simp only [List.append_assoc]; exact List.sublist_append_left top _

theorem PlacedL.sub_net {qk : Kind → Bool} {top net ap r : List α} (h : PlacedL kind qk top net ap r) :
    net.Sublist r := by
  obtain ⟨pre, post, hn, hr, _, _⟩ := h
  subst hn hr
  simp only [List.append_assoc]
  refine List.Sublist.trans ?_ (List.sublist_append_right top _)
  exact List.Sublist.append (List.Sublist.refl pre) (List.sublist_append_right ap post)

theorem PlacedL.sub_app {qk : Kind → Bool} {top net ap r : List α} (h : PlacedL kind qk top net ap r) :
    ap.Sublist r := by
  obtain ⟨pre, post, _, hr, _, _⟩ := h
  subst hr
  simp only [List.append_assoc]
  refine List.Sublist.trans ?_ (List.sublist_append_right top _)
  refine List.Sublist.trans ?_ (List.sublist_append_right pre _)
  exact List.sublist_append_left ap post

theorem PlacedL.sub_top_app {qk : Kind → Bool} {top net ap r : List α} (h : PlacedL kind qk top net ap r) :
    (top ++ ap).Sublist r := by
  obtain ⟨pre, post, _, hr, _, _⟩ := h
  subst hr
  simp only [List.append_assoc]
  refine List.Sublist.append (List.Sublist.refl top) ?_
  refine List.Sublist.trans ?_ (List.sublist_append_right pre _)
  exact List.sublist_append_left ap post

/-! ### Tags and elements -/

/-- A tag that names an element of `all` with the same kind and APPEND mark. -/
def Valid (all : List α) (e : Entry) : Prop := ∃ y, all[e.id]? = some y ∧ kind y = e.kind ∧ app y = e.app

theorem pick_append (all : List α) (e1 e2 : List Entry) : pick all (e1 ++ e2) = pick all e1 ++ pick all e2 := by
  simp [pick, List.filterMap_append]

theorem pick_single (all : List α) (e : Entry) (h : Valid kind app all e) :
    ∃ y, pick all [e] = [y] ∧ kind y = e.kind ∧ app y = e.app := by
  obtain ⟨y, hy, hk, ha⟩ := h
  exact ⟨y, by simp [pick, hy], hk, ha⟩

theorem mem_pick (all : List α) (es : List Entry) (y : α) (h : y ∈ pick all es) :
    ∃ e ∈ es, all[e.id]? = some y := by
  unfold pick at h
  obtain ⟨e, he, hy⟩ := List.mem_filterMap.mp h
  exact ⟨e, he, hy⟩

theorem tag_valid (pre l post : List α) :
    ∀ e ∈ tagList kind app pre.length l, Valid kind app (pre ++ l ++ post) e := by
  induction l generalizing pre with
  | nil => intro e he; cases he
  | cons x xs ih =>
    intro e he
    unfold tagList at he
    rcases List.mem_cons.mp he with rfl | he'
    · exact ⟨x, by simp, rfl, rfl⟩
    · have := ih (pre ++ [x]) e (by simpa using he')
      simpa [List.append_assoc] using this

theorem pick_tag (pre l post : List α) : pick (pre ++ l ++ post) (tagList kind app pre.length l) = l := by
  induction l generalizing pre with
  | nil => rfl
  | cons x xs ih =>
    unfold tagList
    have h1 : (pre ++ x :: xs ++ post)[pre.length]? = some x := by simp
    have h2 := ih (pre ++ [x])
    simp only [List.length_append, List.length_singleton, List.append_assoc, List.singleton_append] at h2
    simp only [pick, List.filterMap_cons, h1]
    simp only [pick] at h2
    simp only [List.append_assoc] at h1 ⊢
    rw [h2]

theorem pick_tag_filter (p : Bool → Bool) (pre l post : List α) :
    pick (pre ++ l ++ post) ((tagList kind app pre.length l).filter (fun e => p e.app)) = l.filter (fun y => p (app y)) := by
  induction l generalizing pre with
  | nil => rfl
  | cons x xs ih =>
    unfold tagList
    have h1 : (pre ++ x :: xs ++ post)[pre.length]? = some x := by simp
    have h2 := ih (pre ++ [x])
    simp only [List.length_append, List.length_singleton, List.append_assoc, List.singleton_append] at h2
    simp only [pick] at h2 ⊢
    simp only [List.append_assoc] at h1 ⊢
    by_cases hp : p (app x) = true
    · simp only [List.filter_cons, hp, if_true, List.filterMap_cons, h1]
      rw [h2]
    · simp only [List.filter_cons, hp, Bool.false_eq_true, if_false]
      exact h2

/-- Transfer of the placement law from tags to elements. -/
theorem placed_transfer (all : List α) (q : Entry → Bool) (qk : Kind → Bool) (hq : ∀ e, q e = qk e.kind)
    (top net ap r : List Entry) (hv : ∀ e ∈ net, Valid kind app all e) (h : Placed q top net ap r) :
    PlacedL kind qk (pick all top) (pick all net) (pick all ap) (pick all r) := by
  obtain ⟨pre, post, hn, hr, hpost, hpre⟩ := h
  refine ⟨pick all pre, pick all post, by rw [hn, pick_append], by rw [hr]; simp [pick_append], ?_, ?_⟩
  · intro y hy
    obtain ⟨e, he, hey⟩ := mem_pick all post y hy
    obtain ⟨y', hy', hk, _⟩ := hv e (by rw [hn]; exact List.mem_append_right _ he)
    rw [hey] at hy'
    cases hy'
    rw [hk, ← hq]; exact hpost e he
  · rcases hpre with h0 | ⟨init, x, hx, hqx⟩
    · left; rw [h0]; rfl
    · right
      obtain ⟨y, hy, hk, _⟩ := pick_single kind app all x (hv x (by rw [hn, hx]; simp))
      exact ⟨pick all init, y, by rw [hx, pick_append, hy], by rw [hk, ← hq]; exact hqx⟩

def notPermitK (k : Kind) : Bool := !(k == .permit)

theorem notPermit_eq (e : Entry) : e.notPermit = notPermitK e.kind := rfl

/-- **IOS ACL lines of the general model** obey the placement law. -/
theorem mergeVia_ios_placed (al bl : List α) :
    PlacedL kind notPermitK (bl.filter (fun y => !app y)) al (bl.filter (fun y => app y))
      (mergeVia mergeIOS kind app al bl) := by
  unfold mergeVia
  have hp := placed_insert Entry.notPermit (nonApp (tagList kind app al.length bl)) (tagList kind app 0 al)
    (appPart (tagList kind app al.length bl))
  have hv : ∀ e ∈ tagList kind app 0 al, Valid kind app (al ++ bl) e := by
    have := tag_valid kind app [] al bl
    simpa using this
  have ht := placed_transfer kind app (al ++ bl) Entry.notPermit notPermitK notPermit_eq _ _ _ _ hv hp
  have h1 : pick (al ++ bl) (tagList kind app 0 al) = al := by
    have := pick_tag kind app [] al bl; simpa using this
  have h2 : pick (al ++ bl) (nonApp (tagList kind app al.length bl)) = bl.filter (fun y => !app y) := by
    have := pick_tag_filter kind app (fun b => !b) al bl []
    simpa [nonApp] using this
  have h3 : pick (al ++ bl) (appPart (tagList kind app al.length bl)) = bl.filter (fun y => app y) := by
    have := pick_tag_filter kind app (fun b => b) al bl []
    simpa [appPart] using this
  rw [h1, h2, h3] at ht
  exact ht

/-- **ASA ACL lines of the general model**: the same with the documented exception for a terminating
`deny ip any6 any6` of the non-APPEND part. -/
theorem mergeVia_asa_placed (al bl : List α) :
    ∃ topL netL, PlacedL kind notPermitK topL netL (bl.filter (fun y => app y)) (mergeVia mergeASA kind app al bl) ∧
      ((topL = bl.filter (fun y => !app y) ∧ netL = al) ∨
       ∃ x, kind x = .any6 ∧ bl.filter (fun y => !app y) = topL ++ [x] ∧ netL = al ++ [x]) := by
  unfold mergeVia
  have hv0 : ∀ e ∈ tagList kind app 0 al, Valid kind app (al ++ bl) e := by
    have := tag_valid kind app [] al bl; simpa using this
  have hvb : ∀ e ∈ tagList kind app al.length bl, Valid kind app (al ++ bl) e := by
    have := tag_valid kind app al bl []; simpa using this
  have h1 : pick (al ++ bl) (tagList kind app 0 al) = al := by
    have := pick_tag kind app [] al bl; simpa using this
  have h2 : pick (al ++ bl) (nonApp (tagList kind app al.length bl)) = bl.filter (fun y => !app y) := by
    have := pick_tag_filter kind app (fun b => !b) al bl []
    simpa [nonApp] using this
  have h3 : pick (al ++ bl) (appPart (tagList kind app al.length bl)) = bl.filter (fun y => app y) := by
    have := pick_tag_filter kind app (fun b => b) al bl []
    simpa [appPart] using this
  have hp : Placed Entry.notPermit (asaSplit (tagList kind app 0 al) (tagList kind app al.length bl)).1
      (asaSplit (tagList kind app 0 al) (tagList kind app al.length bl)).2 (appPart (tagList kind app al.length bl))
      (mergeASA (tagList kind app 0 al) (tagList kind app al.length bl)) := placed_insert _ _ _ _
  rcases asaSplit_cases (tagList kind app 0 al) (tagList kind app al.length bl) with hs | ⟨init, x, hx6, hnon, hs⟩
  · rw [hs] at hp
    have ht := placed_transfer kind app (al ++ bl) Entry.notPermit notPermitK notPermit_eq _ _ _ _ hv0 hp
    rw [h1, h2, h3] at ht
    exact ⟨_, _, ht, Or.inl ⟨rfl, rfl⟩⟩
  · rw [hs] at hp
    have hxmem : x ∈ tagList kind app al.length bl := by
      have : x ∈ nonApp (tagList kind app al.length bl) := by rw [hnon]; simp
      exact (List.mem_filter.mp this).1
    have hvn : ∀ e ∈ tagList kind app 0 al ++ [x], Valid kind app (al ++ bl) e := by
      intro e he
      rcases List.mem_append.mp he with h | h
      · exact hv0 e h
      · have : e = x := by simpa using h
        subst this; exact hvb e hxmem
    have ht := placed_transfer kind app (al ++ bl) Entry.notPermit notPermitK notPermit_eq _ _ _ _ hvn hp
    obtain ⟨y, hy, hk, _⟩ := pick_single kind app (al ++ bl) x (hvb x hxmem)
    rw [pick_append, h1, hy, h3] at ht
    refine ⟨_, _, ht, Or.inr ⟨y, ?_, ?_, rfl⟩⟩
    · rw [hk]
      unfold Entry.isAny6 at hx6
      simpa using hx6
    · rw [← h2, hnon, pick_append, hy]

end NA.C18.G
