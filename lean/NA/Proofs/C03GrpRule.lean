import NA.Proofs.C03GrpField
/-
C03, whole-vsys theorems with address-groups, part 8: one matched rule (`equalize`), the first
and the second loop of `diffRules`.  The rule requests the planner appends are those of the
plan for a target in which every group is called by its final name on the device.
Core Lean only.
-/
namespace NA.PanOs

/-- The target rule with its groups called by their names on the device. -/
def adaptRule (st : St) (rb : Rule) : Rule := { rb with src := adaptL st rb.src, dst := adaptL st rb.dst }

/-- A source / destination list of a device rule: not empty; addresses only, or exactly one group. -/
structure AShape (st : St) (la : List String) : Prop where
  ne : la ≠ []
  shape : (∀ x ∈ la, st.aGrpIdx x = none) ∨ (∃ g, la = [g] ∧ (st.aGrpIdx g).isSome = true)
  dis : ∀ x ∈ la, st.aGrpIdx x = none → ∀ gb ∈ st.bGrp, x ≠ gb.newName

/-- A source / destination list of a target rule: addresses only, or exactly one group. -/
structure BShape (Ref : String → Prop) (st : St) (lb : List String) : Prop where
  shape : (∀ y ∈ lb, st.bGrpIdx y = none) ∨ (∃ g, lb = [g] ∧ (st.bGrpIdx g).isSome = true ∧ Ref g)
  dis : ∀ y ∈ lb, st.bGrpIdx y = none → ∀ ga ∈ st.aGrp, y ≠ ga.g.name

theorem AShape.mono {st st' : St} {la : List String} (hm : GMono st st') (h : AShape st la) : AShape st' la := by
  refine ⟨h.ne, ?_, ?_⟩
  · rcases h.shape with h1 | ⟨g, e, hg⟩
    · exact Or.inl (fun x hx => by rw [hm.aIdx]; exact h1 x hx)
    · exact Or.inr ⟨g, e, by rw [hm.aIdx]; exact hg⟩
  · intro x hx hi gb' hgb'
    rw [hm.aIdx] at hi
    obtain ⟨gb, hgb, _, hn⟩ := hm.bmem hgb'
    rw [← hn]
    exact h.dis x hx hi gb hgb

theorem BShape.mono {Ref : String → Prop} {st st' : St} {lb : List String} (hm : GMono st st')
    (h : BShape Ref st lb) : BShape Ref st' lb := by
  refine ⟨?_, ?_⟩
  · rcases h.shape with h1 | ⟨g, e, hg, hr⟩
    · exact Or.inl (fun x hx => by rw [hm.bIdx]; exact h1 x hx)
    · exact Or.inr ⟨g, e, by rw [hm.bIdx]; exact hg, hr⟩
  · intro y hy hi ga' hga'
    rw [hm.bIdx] at hi
    obtain ⟨ga, hga, e⟩ := hm.amem hga'
    rw [← e]
    exact h.dis y hy hi ga hga

theorem eqCmds_onRules (diff : Differ) (ra rb : Rule) : ∀ c ∈ eqCmds diff ra rb, c.onRules = true := by
  intro c hc
  unfold eqCmds at hc
  rcases List.mem_append.mp hc with hc | hc
  · rcases List.mem_append.mp hc with hc | hc
    · exact fieldCmds_onRules diff _ _ _ _ c hc
    · exact fieldCmds_onRules diff _ _ _ _ c hc
  · split at hc
    · simp only [List.mem_cons, List.not_mem_nil, or_false] at hc
      subst hc; rfl
    · cases hc

/-- **One matched rule.** -/
theorem equalize_sim {sh : Shared} {Ref : String → Prop} (diff : Differ) (hd : GoodDiffer diff)
    (hid : IdentityDiffer diff) (fuel : Nat) (st : St) (vg : Vsys) (ra rb : Rule)
    (hI : GInv Ref st) (hS : SimG sh Ref st vg)
    (hA1 : AShape st ra.src) (hA2 : AShape st ra.dst) (hB1 : BShape Ref st rb.src) (hB2 : BShape Ref st rb.dst) :
    ∃ st' vg', equalize diff (fuel + 2) st ra rb = st' ∧ GInv Ref st' ∧ SimG sh Ref st' vg' ∧ GMono st st' ∧
      GSettled st' rb.src ∧ GSettled st' rb.dst ∧
      Step sh st vg st' vg' (eqCmds diff ra (adaptRule st' rb)) := by
  obtain ⟨st1, vg1, e1, step1, i1, s1, set1⟩ := equalizeList_sim (sh := sh) diff hd hid fuel st vg ra.src rb.src ra.name .src
    hI hS hA1.ne hA1.shape hB1.shape hA1.dis hB1.dis
  have hA2' := hA2.mono step1.mono
  have hB2' := hB2.mono step1.mono
  obtain ⟨st2, vg2, e2, step2, i2, s2, set2⟩ := equalizeList_sim (sh := sh) diff hd hid fuel st1 vg1 ra.dst rb.dst ra.name .dst
    i1 s1 hA2'.ne hA2'.shape hB2'.shape hA2'.dis hB2'.dis
  -- the service list
  have hsrvStep : Step sh st2 vg2
      (if ra.srv != rb.srv then st2.emit (.editList ra.name .srv rb.srv) else st2) vg2
      (if ra.srv != rb.srv then [.editList ra.name .srv rb.srv] else []) := by
    split
    · exact Step.ruleCmds sh st2 vg2 [.editList ra.name .srv rb.srv]
        (by intro c hc; simp only [List.mem_singleton] at hc; subst hc; rfl)
    · exact Step.refl sh st2 vg2
  have heq : equalize diff (fuel + 2) st ra rb =
      (if ra.srv != rb.srv then st2.emit (.editList ra.name .srv rb.srv) else st2) := by
    unfold equalize
    simp only [e1, e2]
  -- the final state differs from `st2` in the output only
  have hsame : ∀ l, adaptL (if ra.srv != rb.srv then st2.emit (.editList ra.name .srv rb.srv) else st2) l =
      adaptL st2 l := by
    intro l; split <;> rfl
  have hI3 : GInv Ref (if ra.srv != rb.srv then st2.emit (.editList ra.name .srv rb.srv) else st2) := by
    split
    · exact i2.emitAll _
    · exact i2
  have hS3 : SimG sh Ref (if ra.srv != rb.srv then st2.emit (.editList ra.name .srv rb.srv) else st2) vg2 := by
    split
    · exact s2.emitAll _
    · exact s2
  have hset : ∀ l, GSettled st2 l →
      GSettled (if ra.srv != rb.srv then st2.emit (.editList ra.name .srv rb.srv) else st2) l := by
    intro l h; split
    · exact h
    · exact h
  refine ⟨_, vg2, heq, hI3, hS3, (step1.mono.trans step2.mono).trans hsrvStep.mono,
    hset _ (set1.mono step2.mono), hset _ set2, ?_⟩
  have hclosed : eqCmds diff ra (adaptRule (if ra.srv != rb.srv then st2.emit (.editList ra.name .srv rb.srv)
      else st2) rb) =
      (fieldCmds diff ra.name .src ra.src (adaptL st1 rb.src) ++ fieldCmds diff ra.name .dst ra.dst (adaptL st2 rb.dst)) ++
        (if ra.srv != rb.srv then [.editList ra.name .srv rb.srv] else []) := by
    unfold eqCmds adaptRule
    simp only [hsame]
    rw [adaptL_mono step2.mono set1]
  rw [hclosed]
  exact (step1.trans step2).trans hsrvStep

theorem adaptRule_mono {st st' : St} (hm : GMono st st') {rb : Rule} (h1 : GSettled st rb.src) (h2 : GSettled st rb.dst) :
    adaptRule st' rb = adaptRule st rb := by
  unfold adaptRule
  rw [adaptL_mono hm h1, adaptL_mono hm h2]

theorem adaptRule_default (st : St) : adaptRule st default = default := rfl

theorem getD_map_adapt (st : St) (B : List Rule) (j : Nat) :
    (B.map (adaptRule st)).getD j default = adaptRule st (B.getD j default) := by
  simp only [List.getD_eq_getElem?_getD, List.getElem?_map]
  cases B[j]? <;> rfl

/-- The pairs of one equal range. -/
theorem eqRange_sim {sh : Shared} {Ref : String → Prop} (diff : Differ) (hd : GoodDiffer diff)
    (hid : IdentityDiffer diff) (fuel : Nat) (A B : List Rule) (lowA lowB : Nat) :
    ∀ (ks : List Nat) (st : St) (vg : Vsys), GInv Ref st → SimG sh Ref st vg →
      (∀ k ∈ ks, AShape st (A.getD (lowA + k) default).src ∧ AShape st (A.getD (lowA + k) default).dst ∧
        BShape Ref st (B.getD (lowB + k) default).src ∧ BShape Ref st (B.getD (lowB + k) default).dst) →
      ∃ st' vg', ks.foldl (fun st k =>
          equalize diff (fuel + 2) st (A.getD (lowA + k) default) (B.getD (lowB + k) default)) st = st' ∧
        GInv Ref st' ∧ SimG sh Ref st' vg' ∧ GMono st st' ∧
        (∀ k ∈ ks, GSettled st' (B.getD (lowB + k) default).src ∧ GSettled st' (B.getD (lowB + k) default).dst) ∧
        ∀ fin, GMono st' fin → Step sh st vg st' vg' (ks.flatMap (fun k =>
          eqCmds diff (A.getD (lowA + k) default) (adaptRule fin (B.getD (lowB + k) default)))) := by
  intro ks
  induction ks with
  | nil =>
    intro st vg hI hS _
    exact ⟨st, vg, rfl, hI, hS, GMono.refl st, (fun _ h => by cases h), fun _ _ => Step.refl sh st vg⟩
  | cons k ks ih =>
    intro st vg hI hS hsh
    obtain ⟨a1, a2, b1, b2⟩ := hsh k (by simp)
    obtain ⟨st1, vg1, e1, i1, s1, m1, set1, set2, step1⟩ := equalize_sim (sh := sh) diff hd hid fuel st vg _ _ hI hS a1 a2 b1 b2
    obtain ⟨st', vg', e2, i2, s2, m2, hset, hfin⟩ := ih st1 vg1 i1 s1 (fun k' hk' => by
      obtain ⟨x1, x2, y1, y2⟩ := hsh k' (List.mem_cons_of_mem _ hk')
      exact ⟨x1.mono m1, x2.mono m1, y1.mono m1, y2.mono m1⟩)
    refine ⟨st', vg', by simp only [List.foldl_cons, e1, e2], i2, s2, m1.trans m2, ?_, ?_⟩
    · intro k' hk'
      rcases List.mem_cons.mp hk' with rfl | hk'
      · exact ⟨set1.mono m2, set2.mono m2⟩
      · exact hset k' hk'
    intro fin hmf
    simp only [List.flatMap_cons]
    rw [adaptRule_mono (m2.trans hmf) set1 set2]
    exact step1.trans (hfin fin hmf)

/-- Every equal range of the script lies inside both rule lists. -/
def EqBounded (n m : Nat) (rs : List Range) : Prop :=
  ∀ r ∈ rs, r.kind = .eq → r.highA ≤ n ∧ r.lowA ≤ r.highA ∧ r.lowB + (r.highA - r.lowA) ≤ m

/-- **First loop of `diffRules`.** -/
theorem rulePhase1_sim {sh : Shared} {Ref : String → Prop} (diff : Differ) (hd : GoodDiffer diff)
    (hid : IdentityDiffer diff) (fuel : Nat) (A B : List Rule) :
    ∀ (rs : List Range) (st : St) (vg : Vsys) (d : Nat) (ins : List InsGroup), GInv Ref st → SimG sh Ref st vg →
      (∀ ra ∈ A, AShape st ra.src ∧ AShape st ra.dst) →
      (∀ rb ∈ B, BShape Ref st rb.src ∧ BShape Ref st rb.dst) →
      EqBounded A.length B.length rs →
      ∃ st' vg' d', rs.foldl (phase1Step diff (fuel + 2) A B) (st, d, ins) =
          (st', d', ins ++ insGroupsFrom (ruleNames A) d rs) ∧
        GInv Ref st' ∧ SimG sh Ref st' vg' ∧ GMono st st' ∧
        (∀ p ∈ eqPairs rs, GSettled st' (B.getD p.2 default).src ∧ GSettled st' (B.getD p.2 default).dst) ∧
        ∀ fin, GMono st' fin → Step sh st vg st' vg' (phase1Cmds diff A (B.map (adaptRule fin)) rs) := by
  intro rs
  induction rs with
  | nil =>
    intro st vg d ins hI hS _ _ _
    exact ⟨st, vg, d, by simp [insGroupsFrom], hI, hS, GMono.refl st, (fun _ h => by simp [eqPairs] at h),
      fun _ _ => Step.refl sh st vg⟩
  | cons r rs ih =>
    intro st vg d ins hI hS hAr hBr hbd
    have hbd' : EqBounded A.length B.length rs := fun r' hr' => hbd r' (List.mem_cons_of_mem _ hr')
    simp only [List.foldl_cons]
    cases hk : r.kind with
    | del =>
      rw [phase1Step_del _ _ _ _ _ _ _ _ hk]
      have hcs : ∀ c ∈ (A.extract r.lowA r.highA).map (fun ru => Cmd.delRule ru.name), c.onRules = true := by
        intro c hc
        obtain ⟨ru, _, rfl⟩ := List.mem_map.mp hc
        rfl
      have step1 := Step.ruleCmds sh st vg _ hcs
      obtain ⟨st', vg', d', e, i2, s2, m2, hset, hfin⟩ := ih (st.emitAll ((A.extract r.lowA r.highA).map (fun ru => Cmd.delRule ru.name)))
        vg r.highA ins (hI.emitAll _) (hS.emitAll _)
        (fun ra hra => ⟨(hAr ra hra).1.mono step1.mono, (hAr ra hra).2.mono step1.mono⟩)
        (fun rb hrb => ⟨(hBr rb hrb).1.mono step1.mono, (hBr rb hrb).2.mono step1.mono⟩) hbd'
      refine ⟨st', vg', d', ?_, i2, s2, step1.mono.trans m2, ?_, ?_⟩
      · rw [e]; simp [insGroupsFrom, hk]
      · intro p hp
        simp only [eqPairs, hk, List.nil_append] at hp
        exact hset p hp
      · intro fin hmf
        simp only [phase1Cmds, hk]
        exact step1.trans (hfin fin hmf)
    | ins =>
      rw [phase1Step_ins _ _ _ _ _ _ _ _ hk]
      obtain ⟨st', vg', d', e, i2, s2, m2, hset, hfin⟩ := ih st vg d
        (ins ++ [⟨(A[max r.lowA d]?).map (·.name), r.lowB, r.highB⟩]) hI hS hAr hBr hbd'
      refine ⟨st', vg', d', ?_, i2, s2, m2, ?_, ?_⟩
      · rw [e]; simp [insGroupsFrom, hk, ruleNames, List.append_assoc]
      · intro p hp
        simp only [eqPairs, hk, List.nil_append] at hp
        exact hset p hp
      · intro fin hmf
        simp only [phase1Cmds, hk, List.nil_append]
        exact hfin fin hmf
    | eq =>
      rw [phase1Step_eq _ _ _ _ _ _ _ _ hk]
      obtain ⟨b1, b2, b3⟩ := hbd r (by simp) hk
      obtain ⟨st1, vg1, e1, i1, s1, m1, hset1, hfin1⟩ := eqRange_sim (sh := sh) diff hd hid fuel A B r.lowA r.lowB
        (List.range (r.highA - r.lowA)) st vg hI hS (by
          intro k hk'
          simp only [List.mem_range] at hk'
          have hiA : r.lowA + k < A.length := by omega
          have hjB : r.lowB + k < B.length := by omega
          have hma : A.getD (r.lowA + k) default ∈ A := List.mem_of_getElem? (getElem?_of_lt A _ hiA)
          have hmb : B.getD (r.lowB + k) default ∈ B := List.mem_of_getElem? (getElem?_of_lt B _ hjB)
          exact ⟨(hAr _ hma).1, (hAr _ hma).2, (hBr _ hmb).1, (hBr _ hmb).2⟩)
      rw [e1]
      obtain ⟨st', vg', d', e, i2, s2, m2, hset, hfin⟩ := ih st1 vg1 d ins i1 s1
        (fun ra hra => ⟨(hAr ra hra).1.mono m1, (hAr ra hra).2.mono m1⟩)
        (fun rb hrb => ⟨(hBr rb hrb).1.mono m1, (hBr rb hrb).2.mono m1⟩) hbd'
      refine ⟨st', vg', d', ?_, i2, s2, m1.trans m2, ?_, ?_⟩
      · rw [e]; simp [insGroupsFrom, hk]
      · intro p hp
        simp only [eqPairs, hk, List.mem_append, List.mem_map, List.mem_range] at hp
        rcases hp with ⟨k, hk', rfl⟩ | hp
        · obtain ⟨x1, x2⟩ := hset1 k (by simpa using hk')
          exact ⟨x1.mono m2, x2.mono m2⟩
        · exact hset p hp
      · intro fin hmf
        simp only [phase1Cmds, hk]
        have := hfin1 fin (m2.trans hmf)
        simp only [getD_map_adapt]
        exact this.trans (hfin fin hmf)

/-! ### Second loop -/

theorem insertRule_sim {sh : Shared} {Ref : String → Prop} (anchor : Option String) (st : St) (vg : Vsys) (ru : Rule)
    (hI : GInv Ref st) (hS : SimG sh Ref st vg) (hB1 : BShape Ref st ru.src) (hB2 : BShape Ref st ru.dst) :
    ∃ st', insertRule anchor st ru = st' ∧ GInv Ref st' ∧ SimG sh Ref st' vg ∧ GMono st st' ∧
      GSettled st' ru.src ∧ GSettled st' ru.dst ∧
      Step sh st vg st' vg (Cmd.setRule (adaptRule st' ru) ::
        (match anchor with | some d => [Cmd.move ru.name d] | none => [])) := by
  have href : ∀ {st : St} {l : List String}, BShape Ref st l → ∀ x ∈ l, (st.bGrpIdx x).isSome → Ref x := by
    intro st l h x hx hsome
    rcases h.shape with h1 | ⟨g, e, _, hr⟩
    · rw [h1 x hx] at hsome; cases hsome
    · subst e
      simp only [List.mem_singleton] at hx
      subst hx; exact hr
  obtain ⟨st1, e1, o1, m1, i1, s1, set1⟩ := adaptGroups_sim' (sh := sh) vg st ru.src hI hS (href hB1)
  obtain ⟨st2, e2, o2, m2, i2, s2, set2⟩ := adaptGroups_sim' (sh := sh) vg st1 ru.dst i1 s1 (href (hB2.mono m1))
  have hru : ({ ru with src := adaptL st1 ru.src, dst := adaptL st2 ru.dst } : Rule) = adaptRule st2 ru := by
    unfold adaptRule
    rw [adaptL_mono m2 set1]
  generalize hcs : (Cmd.setRule (adaptRule st2 ru) ::
    (match anchor with | some d => [Cmd.move ru.name d] | none => [])) = cs
  have hon : ∀ c ∈ cs, c.onRules = true := by
    intro c hc
    rw [← hcs] at hc
    rcases List.mem_cons.mp hc with rfl | hc
    · rfl
    · cases anchor with
      | none => cases hc
      | some d => simp only [List.mem_singleton] at hc; subst hc; rfl
  have heq : insertRule anchor st ru = st2.emitAll cs := by
    unfold insertRule
    simp only [e1, e2, hru]
    rw [← hcs]
    cases anchor <;> simp [St.emit, St.emitAll, List.append_assoc]
  refine ⟨st2.emitAll cs, heq, i2.emitAll _, s2.emitAll _, (m1.trans m2).trans (GMono.of_out st2 cs),
    set1.mono m2, set2, ?_⟩
  have hs1 : Step sh st vg st2 vg [] := Step.of_silent vg (o2.trans o1) (m1.trans m2)
  have hs2 := Step.ruleCmds sh st2 vg cs hon
  have : adaptRule (st2.emitAll cs) ru = adaptRule st2 ru := rfl
  rw [this, hcs]
  exact hs1.trans hs2

theorem extract_map {α β : Type} (f : α → β) (l : List α) (lo hi : Nat) :
    (l.map f).extract lo hi = (l.extract lo hi).map f := by
  simp [List.extract, List.map_take, List.map_drop]

/-- **Second loop of `diffRules`.** -/
theorem rulePhase2_sim {sh : Shared} {Ref : String → Prop} (B : List Rule) (vg : Vsys) :
    ∀ (gs : List InsGroup) (st : St), GInv Ref st → SimG sh Ref st vg →
      (∀ rb ∈ B, BShape Ref st rb.src ∧ BShape Ref st rb.dst) →
      ∃ st', rulePhase2 st B gs = st' ∧ GInv Ref st' ∧ SimG sh Ref st' vg ∧ GMono st st' ∧
        (∀ g ∈ gs, ∀ ru ∈ B.extract g.lowB g.highB, GSettled st' ru.src ∧ GSettled st' ru.dst) ∧
        ∀ fin, GMono st' fin → Step sh st vg st' vg (phase2Cmds (B.map (adaptRule fin)) gs) := by
  intro gs
  induction gs with
  | nil =>
    intro st hI hS _
    exact ⟨st, rfl, hI, hS, GMono.refl st, (fun _ h => by cases h),
      fun _ _ => by simp only [phase2Cmds, List.flatMap_nil]; exact Step.refl sh st vg⟩
  | cons g gs ih =>
    intro st hI hS hBr
    unfold rulePhase2 at ih ⊢
    simp only [List.foldl_cons]
    have hinner : ∀ (l : List Rule) (s : St), GInv Ref s → SimG sh Ref s vg →
        (∀ rb ∈ l, BShape Ref s rb.src ∧ BShape Ref s rb.dst) →
        ∃ s', l.foldl (insertRule g.anchor) s = s' ∧ GInv Ref s' ∧ SimG sh Ref s' vg ∧ GMono s s' ∧
          (∀ ru ∈ l, GSettled s' ru.src ∧ GSettled s' ru.dst) ∧
          ∀ fin, GMono s' fin → Step sh s vg s' vg (l.flatMap (fun ru =>
            Cmd.setRule (adaptRule fin ru) :: (match g.anchor with | some d => [Cmd.move ru.name d] | none => []))) := by
      intro l
      induction l with
      | nil =>
        intro s hI hS _
        exact ⟨s, rfl, hI, hS, GMono.refl s, (fun _ h => by cases h), fun _ _ => Step.refl sh s vg⟩
      | cons ru l ihl =>
        intro s hIs hSs hl
        obtain ⟨b1, b2⟩ := hl ru (by simp)
        obtain ⟨s1, e1, i1, ss1, m1, set1, set2, step1⟩ := insertRule_sim (sh := sh) g.anchor s vg ru hIs hSs b1 b2
        obtain ⟨s', e2, i2, ss2, m2, hsetl, hfin⟩ := ihl s1 i1 ss1 (fun rb hrb => by
          obtain ⟨y1, y2⟩ := hl rb (List.mem_cons_of_mem _ hrb)
          exact ⟨y1.mono m1, y2.mono m1⟩)
        refine ⟨s', by simp only [List.foldl_cons, e1, e2], i2, ss2, m1.trans m2, ?_, ?_⟩
        · intro ru' hru'
          rcases List.mem_cons.mp hru' with rfl | hru'
          · exact ⟨set1.mono m2, set2.mono m2⟩
          · exact hsetl ru' hru'
        intro fin hmf
        simp only [List.flatMap_cons]
        rw [adaptRule_mono (m2.trans hmf) set1 set2]
        exact step1.trans (hfin fin hmf)
    have hmem : ∀ rb ∈ B.extract g.lowB g.highB, rb ∈ B := by
      intro rb hrb
      simp only [List.extract] at hrb
      exact List.mem_of_mem_drop (List.mem_of_mem_take hrb)
    obtain ⟨s1, e1, i1, ss1, m1, hset1, hfin1⟩ := hinner (B.extract g.lowB g.highB) st hI hS (fun rb hrb => hBr rb (hmem rb hrb))
    have hg : insertGroup B st g = s1 := by unfold insertGroup; exact e1
    rw [hg]
    obtain ⟨s', e2, i2, ss2, m2, hset2, hfin⟩ := ih s1 i1 ss1 (fun rb hrb => ⟨(hBr rb hrb).1.mono m1, (hBr rb hrb).2.mono m1⟩)
    refine ⟨s', e2, i2, ss2, m1.trans m2, ?_, ?_⟩
    · intro g' hg' ru hru
      rcases List.mem_cons.mp hg' with rfl | hg'
      · obtain ⟨x1, x2⟩ := hset1 ru hru
        exact ⟨x1.mono m2, x2.mono m2⟩
      · exact hset2 g' hg' ru hru
    intro fin hmf
    have h1 := hfin1 fin (m2.trans hmf)
    have h2 := hfin fin hmf
    have : phase2Cmds (B.map (adaptRule fin)) (g :: gs) =
        (B.extract g.lowB g.highB).flatMap (fun ru =>
          Cmd.setRule (adaptRule fin ru) :: (match g.anchor with | some d => [Cmd.move ru.name d] | none => [])) ++
        phase2Cmds (B.map (adaptRule fin)) gs := by
      simp only [phase2Cmds, List.flatMap_cons, extract_map, List.flatMap_map]
      rfl
    rw [this]
    exact h1.trans h2

theorem eqBounded_of_validFrom {eq : Nat → Nat → Bool} {n m : Nat} :
    ∀ (rs : List Range) (x y : Nat), validFrom eq n m x y rs = true → EqBounded n m rs := by
  intro rs
  induction rs with
  | nil => intro x y _ r hr; cases hr
  | cons r rs ih =>
    intro x y h r' hr' hk
    obtain ⟨h1, h2, h3, h4, h5, h6, h7⟩ := validFrom_cons h
    rcases List.mem_cons.mp hr' with rfl | hr'
    · obtain ⟨hlen, _⟩ := kind_eq_len h hk
      exact ⟨h5, h3, by omega⟩
    · exact ih r.highA r.highB h7 r' hr' hk

theorem eqBounded_of_validScript {eq : Nat → Nat → Bool} {n m : Nat} {rs : List Range}
    (h : validScript eq n m rs = true) : EqBounded n m rs := by
  unfold validScript at h
  rw [Bool.or_eq_true] at h
  rcases h with h | h
  · exact eqBounded_of_validFrom rs 0 0 h
  · simp only [Bool.and_eq_true, decide_eq_true_eq, beq_iff_eq] at h
    obtain ⟨⟨_, hm⟩, hrs⟩ := h
    subst hrs
    intro r hr hk
    simp only [nothingCommon, List.mem_cons, List.not_mem_nil, or_false] at hr
    have h0m : (0 == m) = false := by
      have : 0 ≠ m := by omega
      simpa using this
    rcases hr with rfl | rfl
    · simp [Range.kind, Range.isDelete] at hk
    · simp [Range.kind, Range.isDelete, Range.isInsert, h0m] at hk

/-- **`diffRules`**: the rule requests it appends are those of the plan for the target in which
every group is called by its final name on the device; the group-member requests interleaved
with them are accepted by the group table. -/
theorem diffRules_sim {sh : Shared} {Ref : String → Prop} (diff : Differ) (hd : GoodDiffer diff)
    (hid : IdentityDiffer diff) (fuel : Nat) (a b : Vsys) (A B : List Rule) (st : St) (vg : Vsys)
    (hI : GInv Ref st) (hS : SimG sh Ref st vg)
    (hAr : ∀ ra ∈ A, AShape st ra.src ∧ AShape st ra.dst)
    (hBr : ∀ rb ∈ B, BShape Ref st rb.src ∧ BShape Ref st rb.dst) :
    ∃ fin vg', diffRules diff (fuel + 2) st a b A B = fin ∧ GInv Ref fin ∧ SimG sh Ref fin vg' ∧ GMono st fin ∧
      (∀ p ∈ eqPairs (diff A.length B.length (fun i j => ruleEqual a b (A.getD i default) (B.getD j default))),
        GSettled fin (B.getD p.2 default).src ∧ GSettled fin (B.getD p.2 default).dst) ∧
      (∀ g ∈ insGroupsFrom (ruleNames A) 0
          (diff A.length B.length (fun i j => ruleEqual a b (A.getD i default) (B.getD j default))),
        ∀ ru ∈ B.extract g.lowB g.highB, GSettled fin ru.src ∧ GSettled fin ru.dst) ∧
      Step sh st vg fin vg' (plainRuleCmds diff A (B.map (adaptRule fin))
        (diff A.length B.length (fun i j => ruleEqual a b (A.getD i default) (B.getD j default)))) := by
  unfold diffRules rulePhase1
  simp only
  generalize hrs : diff A.length B.length (fun i j => ruleEqual a b (A.getD i default) (B.getD j default)) = rs
  have hbd : EqBounded A.length B.length rs := by
    rw [← hrs]; exact eqBounded_of_validScript (hd _ _ _).1
  obtain ⟨st1, vg1, d', e1, i1, s1, m1, hset1, hfin1⟩ := rulePhase1_sim (sh := sh) diff hd hid fuel A B rs st vg 0 [] hI hS hAr hBr hbd
  rw [e1]
  simp only [List.nil_append]
  obtain ⟨fin, e2, i2, s2, m2, hset2, hfin2⟩ := rulePhase2_sim (sh := sh) B vg1 (insGroupsFrom (ruleNames A) 0 rs) st1 i1 s1
    (fun rb hrb => ⟨(hBr rb hrb).1.mono m1, (hBr rb hrb).2.mono m1⟩)
  refine ⟨fin, vg1, e2, i2, s2, m1.trans m2, ?_, hset2, ?_⟩
  · intro p hp
    obtain ⟨x1, x2⟩ := hset1 p hp
    exact ⟨x1.mono m2, x2.mono m2⟩
  unfold plainRuleCmds
  exact (hfin1 fin m2).trans (hfin2 fin (GMono.refl fin))

end NA.PanOs
