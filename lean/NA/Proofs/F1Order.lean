import NA.Spec.AsaDev
import NA.Proofs.F1Groups
/-!
# F1: referenced object-groups are created before the line that uses them (engine-wide invariant)

`Inv`: the script emitted so far creates every group before its first use, contains no removal, and every
target group that is `ready` carries a name that exists on the device at this point of the script.
Every function of the engine preserves `Inv`; `deleteUnused` only appends commands that add no line.
-/
namespace NA.F1
open NA.AsaDev
open NA.Acl (Range)

/-! ## Scripts -/

theorem defAfter_append (D : List Name) (xs ys : List Chg) :
    defAfter D (xs ++ ys) = defAfter (defAfter D xs) ys := by
  simp [defAfter, List.foldl_append]

theorem createdBeforeUse_append (D : List Name) (xs ys : List Chg) :
    createdBeforeUse D (xs ++ ys) = (createdBeforeUse D xs && createdBeforeUse (defAfter D xs) ys) := by
  induction xs generalizing D with
  | nil => simp [createdBeforeUse, defAfter]
  | cons c cs ih => simp [createdBeforeUse, defAfter, ih, Bool.and_assoc]

/-- A command that keeps every existing group. -/
def Mono (c : Chg) : Prop := ∀ D x, x ∈ D → x ∈ defStep D c

/-- A command that neither uses nor creates nor removes a group. -/
def Neutral (c : Chg) : Prop := removesObject c = false ∧ ∀ D, usesDefined D c = true ∧ defStep D c = D

theorem Neutral.mono {c : Chg} (h : Neutral c) : Mono c := fun D x hx => by rw [(h.2 D).2]; exact hx

theorem mono_grp (n : Name) : Mono (.grp n) := by
  intro D x hx
  simp only [defStep]
  split
  · exact hx
  · exact List.mem_cons_of_mem _ hx

theorem mem_defAfter_of_mono {cs : List Chg} (h : ∀ c ∈ cs, Mono c) {D : List Name} {x : Name} (hx : x ∈ D) :
    x ∈ defAfter D cs := by
  induction cs generalizing D with
  | nil => exact hx
  | cons c cs ih =>
    simp only [defAfter, List.foldl_cons]
    exact ih (fun c' hc' => h c' (List.mem_cons_of_mem _ hc')) (h c List.mem_cons_self D x hx)

theorem neutral_mem (m : String) : Neutral (.mem m) := ⟨rfl, fun _ => ⟨rfl, rfl⟩⟩
theorem neutral_noMem (m : String) : Neutral (.noMem m) := ⟨rfl, fun _ => ⟨rfl, rfl⟩⟩
theorem neutral_exit : Neutral .exit := ⟨rfl, fun _ => ⟨rfl, rfl⟩⟩
theorem neutral_noAcl (n : Name) (k : Nat) (l : RLine) : Neutral (.noAcl n k l) := ⟨rfl, fun _ => ⟨rfl, rfl⟩⟩
theorem neutral_bind (b : Bind) : Neutral (.bind b) := ⟨rfl, fun _ => ⟨rfl, rfl⟩⟩
theorem neutral_noBind (b : Bind) : Neutral (.noBind b) := ⟨rfl, fun _ => ⟨rfl, rfl⟩⟩
theorem neutral_route (r : String) : Neutral (.route r) := ⟨rfl, fun _ => ⟨rfl, rfl⟩⟩
theorem neutral_noRoute (r : String) : Neutral (.noRoute r) := ⟨rfl, fun _ => ⟨rfl, rfl⟩⟩
theorem neutral_bad : Neutral .bad := ⟨rfl, fun _ => ⟨rfl, rfl⟩⟩
theorem neutral_join {a b : Chg} (ha : Neutral a) (hb : Neutral b) : Neutral (.join a b) :=
  ⟨by simp [removesObject, ha.1, hb.1], fun D => by
    simp [usesDefined, defStep, (ha.2 D).1, (ha.2 D).2, (hb.2 D).1, (hb.2 D).2]⟩

/-! ## The invariant -/

def nameOf (names : List (Name × Name)) (g : Name) : Name := (names.lookup g).getD g

structure Inv3 (D0 : List Name) (out : List Chg) (ready : List Name) (names : List (Name × Name)) : Prop where
  ord : createdBeforeUse D0 out = true
  mono : ∀ c ∈ out, Mono c
  norem : ∀ c ∈ out, removesObject c = false
  ready : ∀ g ∈ ready, nameOf names g ∈ defAfter D0 out

def Inv (D0 : List Name) (st : St) : Prop := Inv3 D0 st.out st.gReady st.gName

theorem gNameOf_eq (st : St) (g : Name) : st.gNameOf g = nameOf st.gName g := rfl

theorem Inv3.append_neutral {D0 out ready names} (h : Inv3 D0 out ready names) (cs : List Chg)
    (hc : ∀ c ∈ cs, Neutral c) : Inv3 D0 (out ++ cs) ready names := by
  have hmono : ∀ c ∈ cs, Mono c := fun c hcm => (hc c hcm).mono
  refine ⟨?_, ?_, ?_, ?_⟩
  · rw [createdBeforeUse_append, h.ord, Bool.true_and]
    generalize defAfter D0 out = D
    induction cs generalizing D with
    | nil => rfl
    | cons c cs ih =>
      simp only [createdBeforeUse, ((hc c List.mem_cons_self).2 D).1, ((hc c List.mem_cons_self).2 D).2, Bool.true_and]
      exact ih (fun c' h' => hc c' (List.mem_cons_of_mem _ h')) (fun c' h' => hmono c' (List.mem_cons_of_mem _ h')) D
  · intro c hcm
    rcases List.mem_append.mp hcm with h1 | h1
    · exact h.mono c h1
    · exact hmono c h1
  · intro c hcm
    rcases List.mem_append.mp hcm with h1 | h1
    · exact h.norem c h1
    · exact (hc c h1).1
  · intro g hg
    rw [defAfter_append]
    exact mem_defAfter_of_mono hmono (h.ready g hg)

theorem Inv3.emit_neutral {D0 out ready names} (h : Inv3 D0 out ready names) (c : Chg) (hc : Neutral c) :
    Inv3 D0 (out ++ [c]) ready names :=
  h.append_neutral [c] (fun c' h' => by simp at h'; subst h'; exact hc)

theorem defAfter_grp (D : List Name) (n : Name) : n ∈ defAfter D [Chg.grp n] := by
  simp only [defAfter, List.foldl_cons, List.foldl_nil, defStep]
  split
  · rename_i h; simpa using h
  · exact List.mem_cons_self

/-- Emitting `object-group network n` (and members): all ready names stay, `n` exists afterwards. -/
theorem Inv3.emit_grp {D0 out ready names} (h : Inv3 D0 out ready names) (n : Name) (ms : List Chg)
    (hms : ∀ c ∈ ms, Neutral c) :
    Inv3 D0 (out ++ (Chg.grp n :: ms)) ready names ∧ n ∈ defAfter D0 (out ++ (Chg.grp n :: ms)) := by
  have h1 : Inv3 D0 (out ++ [Chg.grp n]) ready names := by
    refine ⟨?_, ?_, ?_, ?_⟩
    · rw [createdBeforeUse_append, h.ord]; simp [createdBeforeUse, usesDefined]
    · intro c hc
      rcases List.mem_append.mp hc with h1 | h1
      · exact h.mono c h1
      · simp at h1; subst h1; exact mono_grp n
    · intro c hc
      rcases List.mem_append.mp hc with h1 | h1
      · exact h.norem c h1
      · simp at h1; subst h1; rfl
    · intro g hg
      rw [defAfter_append]
      exact mem_defAfter_of_mono (fun c hc => by simp at hc; subst hc; exact mono_grp n) (h.ready g hg)
  have h2 := h1.append_neutral ms hms
  have e : out ++ [Chg.grp n] ++ ms = out ++ (Chg.grp n :: ms) := by simp
  rw [e] at h2
  refine ⟨h2, ?_⟩
  rw [← e, defAfter_append, defAfter_append]
  exact mem_defAfter_of_mono (fun c hc => (hms c hc).mono) (defAfter_grp _ n)

/-- Emitting a command `c` that uses exactly the groups `ns`, all of which exist. -/
theorem Inv3.emit_user {D0 out ready names} (h : Inv3 D0 out ready names) (c : Chg)
    (huse : usesDefined (defAfter D0 out) c = true) (hdef : ∀ D, defStep D c = D) (hrem : removesObject c = false) :
    Inv3 D0 (out ++ [c]) ready names := by
  have hm : Mono c := fun D x hx => by rw [hdef]; exact hx
  refine ⟨?_, ?_, ?_, ?_⟩
  · rw [createdBeforeUse_append, h.ord]; simp [createdBeforeUse, huse]
  · intro c' hc
    rcases List.mem_append.mp hc with h1 | h1
    · exact h.mono c' h1
    · simp at h1; subst h1; exact hm
  · intro c' hc
    rcases List.mem_append.mp hc with h1 | h1
    · exact h.norem c' h1
    · simp at h1; subst h1; exact hrem
  · intro g hg
    rw [defAfter_append]
    exact mem_defAfter_of_mono (fun c' hc => by simp at hc; subst hc; exact hm) (h.ready g hg)

/-- A target group becomes ready under (or is renamed to) a name that exists. -/
theorem Inv3.set_name {D0 out ready names} (h : Inv3 D0 out ready names) (bN aN : Name)
    (ha : aN ∈ defAfter D0 out) (ready' : List Name) (hr : ∀ g ∈ ready', g = bN ∨ g ∈ ready) :
    Inv3 D0 out ready' ((bN, aN) :: names) := by
  refine ⟨h.ord, h.mono, h.norem, ?_⟩
  intro g hg
  by_cases e : g = bN
  · subst e; simp [nameOf, List.lookup]; exact ha
  · have hne : (g == bN) = false := by simpa using e
    have : nameOf ((bN, aN) :: names) g = nameOf names g := by simp [nameOf, List.lookup, hne]
    rw [this]
    rcases hr g hg with h1 | h1
    · exact absurd h1 e
    · exact h.ready g h1

theorem Inv3.ready_mono {D0 out ready names} (h : Inv3 D0 out ready names) (ready' : List Name)
    (hr : ∀ g ∈ ready', g ∈ ready) : Inv3 D0 out ready' names :=
  ⟨h.ord, h.mono, h.norem, fun g hg => h.ready g (hr g hg)⟩

theorem mem_D0_defAfter {D0 : List Name} {out : List Chg} (hm : ∀ c ∈ out, Mono c) {x : Name} (hx : x ∈ D0) :
    x ∈ defAfter D0 out := mem_defAfter_of_mono hm hx

theorem foldl_inv {α σ : Type} (P : σ → Prop) (f : σ → α → σ) (l : List α) (s : σ)
    (h : ∀ s x, x ∈ l → P s → P (f s x)) (hs : P s) : P (l.foldl f s) := by
  induction l generalizing s with
  | nil => exact hs
  | cons x xs ih =>
    exact ih (f s x) (fun s' y hy hp => h s' y (List.mem_cons_of_mem _ hy) hp) (h s x List.mem_cons_self hs)

/-! ## Groups -/

theorem mem_addSet {g x : Name} {s : List Name} : g ∈ addSet x s ↔ g = x ∨ g ∈ s := by
  unfold addSet
  split
  · rename_i h
    have hx : x ∈ s := by simpa using h
    constructor
    · exact Or.inr
    · rintro (e | e)
      · exact e ▸ hx
      · exact e
  · exact List.mem_cons

theorem inv_hit {D0 : List Name} {st : St} (h : Inv D0 st) (x : String) : Inv D0 (st.hit x) := h

theorem inv_of_eq {D0 : List Name} {st st' : St} (h : Inv D0 st) (ho : st'.out = st.out)
    (hr : st'.gReady = st.gReady) (hn : st'.gName = st.gName) : Inv D0 st' := by
  unfold Inv at h ⊢
  rw [ho, hr, hn]; exact h

/-- Device groups referenced by device lines exist on the device. -/
def RefsClosedA (e : Env) : Prop :=
  ∀ n, ∀ l ∈ e.aLines n, ∀ g ∈ l.refs, g ∈ e.a.groups.map (·.1)

/-- Decidable form of `RefsClosedA`. -/
def refsClosedA (e : Env) : Bool :=
  e.a.acls.all fun a => a.2.all fun l => l.refs.all (e.a.groups.map (·.1)).contains

theorem mem_of_lookup {β : Type} {n : Name} {v : β} : ∀ {m : List (Name × β)}, m.lookup n = some v → (n, v) ∈ m := by
  intro m
  induction m with
  | nil => intro h; simp [List.lookup] at h
  | cons p ps ih =>
    intro h
    obtain ⟨k, w⟩ := p
    simp only [List.lookup] at h
    split at h
    · rename_i heq
      have : n = k := by simpa using heq
      simp only [Option.some.injEq] at h
      subst h; subst this; exact List.mem_cons_self
    · exact List.mem_cons_of_mem _ (ih h)

theorem RefsClosedA.of_check {e : Env} (h : refsClosedA e = true) : RefsClosedA e := by
  intro n l hl g hg
  unfold Env.aLines lookupD at hl
  cases hlk : e.a.acls.lookup n with
  | none => rw [hlk] at hl; simp [default] at hl
  | some ls =>
    rw [hlk] at hl
    simp only [Option.getD_some] at hl
    have hm := mem_of_lookup hlk
    unfold refsClosedA at h
    rw [List.all_eq_true] at h
    have h1 := h _ hm
    rw [List.all_eq_true] at h1
    have h2 := h1 l hl
    rw [List.all_eq_true] at h2
    simpa using h2 g hg

theorem findGroup_inv (e : Env) {st : St} (h : Inv (e.a.groups.map (·.1)) st) (bN : Name) :
    Inv (e.a.groups.map (·.1)) (findGroup e st bN) := by
  cases findGroup_result e st bN with
  | unchanged he => rw [he]; exact h
  | adopted aN hdev _ _ _ hst =>
    rw [hst]
    exact Inv3.set_name h bN aN (mem_D0_defAfter h.mono hdev) _
      (fun g hg => by rcases List.mem_cons.mp hg with h1 | h1; exact Or.inl h1; exact Or.inr h1)

theorem findGroup_out (e : Env) (st : St) (bN : Name) : (findGroup e st bN).out = st.out := by
  cases findGroup_result e st bN with
  | unchanged he => rw [he]
  | adopted aN _ _ _ _ hst => rw [hst]

theorem transferGroup_inv (e : Env) {D0 : List Name} {st : St} (h : Inv D0 st) (bN : Name) :
    Inv D0 (transferGroup e st bN) ∧ bN ∈ (transferGroup e st bN).gReady := by
  unfold transferGroup
  by_cases hr : st.gReady.contains bN = true
  · simp only [hr, if_true]; exact ⟨h, by simpa using hr⟩
  · simp only [hr]
    obtain ⟨h1, h2⟩ := Inv3.emit_grp h (st.gNameOf bN) ((e.bMembers bN).map Chg.mem)
      (fun c hc => by obtain ⟨m, _, rfl⟩ := List.mem_map.mp hc; exact neutral_mem m)
    refine ⟨⟨h1.ord, h1.mono, h1.norem, ?_⟩, by simp [St.hit]⟩
    intro g hg
    simp only [St.hit] at hg ⊢
    rcases List.mem_cons.mp hg with e1 | e1
    · subst e1; exact h2
    · exact h1.ready g e1

theorem transferGroup_ready_mono (e : Env) (st : St) (bN g : Name) (hg : g ∈ st.gReady) :
    g ∈ (transferGroup e st bN).gReady := by
  unfold transferGroup
  by_cases hr : st.gReady.contains bN = true
  · simp only [hr, if_true]; exact hg
  · simp only [hr, St.hit]; exact List.mem_cons_of_mem _ hg

theorem transferGroup_gName (e : Env) (st : St) (bN : Name) : (transferGroup e st bN).gName = st.gName := by
  unfold transferGroup
  split <;> simp [St.hit]

theorem setMode_inv {D0 : List Name} {st : St} (h : Inv D0 st) (n : Name) (hn : n ∈ D0) : Inv D0 (setMode st n) := by
  unfold setMode
  by_cases hm : (st.mode == n) = true
  · simp only [hm, if_true]; exact h
  · simp only [hm]
    have key : ∀ st' : St, Inv D0 st' → Inv D0 { (st'.emit (.grp n)) with mode := n } := by
      intro st' h'
      exact (Inv3.emit_grp h' n [] (fun _ hc => by simp at hc)).1
    by_cases he : (st.mode != "") = true
    · simp only [he, if_true]
      exact key _ (Inv3.emit_neutral h _ neutral_exit)
    · simp only [he]
      exact key _ h

theorem setMode_ready (st : St) (n : Name) : (setMode st n).gReady = st.gReady ∧ (setMode st n).gName = st.gName := by
  unfold setMode
  by_cases hm : (st.mode == n) = true
  · simp [hm]
  · by_cases he : (st.mode != "") = true <;> simp [hm, he, St.emit, St.hit]

theorem delMembers_inv {D0 : List Name} {st : St} (h : Inv D0 st) (aN : Name) (hn : aN ∈ D0) (ms : List String) :
    Inv D0 (delMembers st aN ms) := by
  unfold delMembers
  exact foldl_inv (Inv D0) _ ms st (fun s m _ hs => Inv3.emit_neutral (setMode_inv hs aN hn) _ (neutral_noMem m)) h

theorem addMembers_inv {D0 : List Name} {st : St} (h : Inv D0 st) (aN : Name) (hn : aN ∈ D0) (ms : List String) :
    Inv D0 (addMembers st aN ms) := by
  unfold addMembers
  exact foldl_inv (Inv D0) _ ms st (fun s m _ hs => Inv3.emit_neutral (setMode_inv hs aN hn) _ (neutral_mem m)) h

theorem editMembers_inv {D0 : List Name} (aN : Name) (hn : aN ∈ D0) (la lb : List String) :
    ∀ (rs : List Range) (st : St), Inv D0 st → Inv D0 (editMembers st aN la lb rs) := by
  intro rs
  induction rs with
  | nil => intro st h; exact h
  | cons r rs ih =>
    intro st h
    unfold editMembers
    apply ih
    by_cases hd : r.isDelete = true
    · simp only [hd, if_true]; exact delMembers_inv h aN hn _
    · by_cases hi : r.isInsert = true
      · simp only [hd, hi, if_true]; exact addMembers_inv h aN hn _
      · simp only [hd, hi]; exact h

theorem foldl_ready {α : Type} (f : St → α → St) (l : List α) (st : St)
    (h : ∀ s x, (f s x).gReady = s.gReady ∧ (f s x).gName = s.gName) :
    (l.foldl f st).gReady = st.gReady ∧ (l.foldl f st).gName = st.gName := by
  induction l generalizing st with
  | nil => exact ⟨rfl, rfl⟩
  | cons x xs ih =>
    obtain ⟨a, b⟩ := ih (f st x)
    exact ⟨a.trans (h st x).1, b.trans (h st x).2⟩

theorem editMembers_ready (aN : Name) (la lb : List String) :
    ∀ (rs : List Range) (st : St), (editMembers st aN la lb rs).gReady = st.gReady ∧ (editMembers st aN la lb rs).gName = st.gName := by
  intro rs
  induction rs with
  | nil => intro st; exact ⟨rfl, rfl⟩
  | cons r rs ih =>
    intro st
    unfold editMembers
    have step : ∀ (m : Bool) (ms : List String),
        ((if m then delMembers st aN ms else addMembers st aN ms).gReady = st.gReady ∧
         (if m then delMembers st aN ms else addMembers st aN ms).gName = st.gName) := by
      intro m ms
      cases m
      · simp only [Bool.false_eq_true, if_false]; unfold addMembers
        exact foldl_ready _ ms st (fun s x => by
          obtain ⟨a, b⟩ := setMode_ready s aN; exact ⟨by simp [St.emit, a], by simp [St.emit, b]⟩)
      · simp only [if_true]; unfold delMembers
        exact foldl_ready _ ms st (fun s x => by
          obtain ⟨a, b⟩ := setMode_ready s aN; exact ⟨by simp [St.emit, a], by simp [St.emit, b]⟩)
    by_cases hd : r.isDelete = true
    · simp only [hd, if_true]
      obtain ⟨a, b⟩ := ih (delMembers st aN (slice la r.lowA r.highA))
      have := step true (slice la r.lowA r.highA); simp only [if_true] at this
      exact ⟨a.trans this.1, b.trans this.2⟩
    · by_cases hi : r.isInsert = true
      · simp only [hd, hi, if_true]
        obtain ⟨a, b⟩ := ih (addMembers st aN (slice lb r.lowB r.highB))
        have := step false (slice lb r.lowB r.highB); simp only [Bool.false_eq_true, if_false] at this
        exact ⟨a.trans this.1, b.trans this.2⟩
      · simp only [hd, hi]; exact ih st

theorem equalizedGroups_inv (e : Env) {st : St} (h : Inv (e.a.groups.map (·.1)) st) (aN bN : Name)
    (ha : aN ∈ e.a.groups.map (·.1)) : Inv (e.a.groups.map (·.1)) (equalizedGroups e st aN bN).1 := by
  unfold equalizedGroups
  split
  · split
    · exact h
    · exact findGroup_inv e h bN
  · simp only []
    generalize hident : isIdentity (lookupD e.sc.grp (aN, bN)) = ident
    have h1 : Inv (e.a.groups.map (·.1)) (if ident = true then st else findGroup e st bN) := by
      cases ident
      · simp only [Bool.false_eq_true, ↓reduceIte]; exact findGroup_inv e h bN
      · simp only [↓reduceIte]; exact h
    generalize (if ident = true then st else findGroup e st bN) = st1 at h1
    split
    · exact h1
    · generalize scriptStat (lookupD e.sc.grp (aN, bN)) = stat
      obtain ⟨ins, del⟩ := stat
      simp only []
      split
      · exact h1
      · -- rename, edit, ready
        have h2 : Inv (e.a.groups.map (·.1))
            { st1 with gNeeded := addSet aN st1.gNeeded, gName := (bN, aN) :: st1.gName } :=
          Inv3.set_name h1 bN aN (mem_D0_defAfter h1.mono ha) _ (fun g hg => Or.inr hg)
        have h3 := editMembers_inv aN ha (e.aMembers aN) (e.bMembers bN) (lookupD e.sc.grp (aN, bN)) _ h2
        obtain ⟨r1, r2⟩ := editMembers_ready aN (e.aMembers aN) (e.bMembers bN) (lookupD e.sc.grp (aN, bN))
          { st1 with gNeeded := addSet aN st1.gNeeded, gName := (bN, aN) :: st1.gName }
        refine ⟨h3.ord, h3.mono, h3.norem, ?_⟩
        intro g hg
        simp only [St.hit] at hg ⊢
        rw [r2]
        by_cases eg : g = bN
        · rw [eg]
          simp only [nameOf, List.lookup, beq_self_eq_true, Option.getD_some]
          exact mem_D0_defAfter h3.mono ha
        · have hg' : g ∈ st1.gReady := by
            rcases mem_addSet.mp hg with e1 | e1
            · exact absurd e1 eg
            · rw [r1] at e1; exact e1
          have := h3.ready g (by rw [r1]; exact hg')
          rw [r2] at this
          exact this

/-! ## Access lists -/

abbrev D0 (e : Env) : List Name := e.a.groups.map (·.1)

theorem equalizePair_inv (e : Env) {st : St} (h : Inv (D0 e) st) (a b : Line)
    (ha : ∀ g ∈ a.refs, g ∈ D0 e) : Inv (D0 e) (equalizePair e st a b).1 := by
  unfold equalizePair
  have : ∀ (l : List (Name × Name)) (s : St × Bool), (∀ p ∈ l, p.1 ∈ D0 e) → Inv (D0 e) s.1 →
      Inv (D0 e) (l.foldl (fun (s : St × Bool) p =>
        let (st', ok) := equalizedGroups e s.1 p.1 p.2
        (st', s.2 && ok)) s).1 := by
    intro l
    induction l with
    | nil => intro s _ hs; exact hs
    | cons p ps ih =>
      intro s hp hs
      simp only [List.foldl_cons]
      apply ih
      · exact fun q hq => hp q (List.mem_cons_of_mem _ hq)
      · exact equalizedGroups_inv e hs p.1 p.2 (hp p List.mem_cons_self)
  apply this _ (st, true) _ h
  intro p hp
  exact ha p.1 (List.of_mem_zip hp).1

theorem aLines_getD_refs (e : Env) (hA : RefsClosedA e) (aN : Name) (i : Nat) :
    ∀ g ∈ ((e.aLines aN).getD i default).refs, g ∈ D0 e := by
  intro g hg
  by_cases hi : i < (e.aLines aN).length
  · have : (e.aLines aN).getD i default = (e.aLines aN)[i] := by
      rw [List.getD_eq_getElem?_getD, List.getElem?_eq_getElem hi]; rfl
    rw [this] at hg
    exact hA aN _ (List.getElem_mem hi) g hg
  · have : (e.aLines aN).getD i default = default := by
      rw [List.getD_eq_getElem?_getD, List.getElem?_eq_none (by omega)]; rfl
    rw [this] at hg
    have hd : (default : Line).refs = [] := rfl
    rw [hd] at hg
    simp at hg

theorem equalizeRange_inv (e : Env) (hA : RefsClosedA e) (aN : Name) (bl : List Line) (lowA lowB : Nat) :
    ∀ (n : Nat) (st : St) (acc : List MCell), Inv (D0 e) st →
      Inv (D0 e) (equalizeRange e (e.aLines aN) bl lowA lowB n st acc).1 := by
  intro n
  induction n with
  | zero => intro st acc h; exact h
  | succ n ih =>
    intro st acc h
    have h1 := ih st acc h
    unfold equalizeRange
    generalize equalizeRange e (e.aLines aN) bl lowA lowB n st acc = r at h1
    obtain ⟨st1, acc1⟩ := r
    simp only at h1 ⊢
    have h2 := equalizePair_inv e h1 ((e.aLines aN).getD (lowA + n) default) (bl.getD (lowB + n) default)
      (aLines_getD_refs e hA aN _)
    generalize equalizePair e st1 ((e.aLines aN).getD (lowA + n) default) (bl.getD (lowB + n) default) = q at h2
    obtain ⟨st2, ok⟩ := q
    cases ok
    · exact h2
    · exact h2

theorem cellsPhase_inv (e : Env) (hA : RefsClosedA e) (aN : Name) (bl : List Line) :
    ∀ (rs : List Range) (st : St) (acc : List MCell), Inv (D0 e) st →
      Inv (D0 e) (cellsPhase e (e.aLines aN) bl rs st acc).1 := by
  intro rs
  induction rs with
  | nil => intro st acc h; exact h
  | cons r rs ih =>
    intro st acc h
    unfold cellsPhase
    split
    · exact ih _ _ h
    · split
      · exact ih _ _ h
      · split
        · have h1 := equalizeRange_inv e hA aN bl r.lowA r.lowB (r.highA - r.lowA) st acc h
          generalize equalizeRange e (e.aLines aN) bl r.lowA r.lowB (r.highA - r.lowA) st acc = q at h1
          obtain ⟨st1, acc1⟩ := q
          exact ih _ _ h1
        · exact ih _ _ h

theorem earlyFind_inv (e : Env) (bl : List Line) (rs : List Range) {st : St} (h : Inv (D0 e) st) :
    Inv (D0 e) (earlyFind e bl rs st) := by
  unfold earlyFind
  apply foldl_inv (Inv (D0 e)) _ rs st _ h
  intro s r _ hs
  split
  · exact foldl_inv (Inv (D0 e)) _ _ s (fun s' g _ hs' => findGroup_inv e hs' g) hs
  · exact hs

/-- The constructor `mk` builds a line command: it uses exactly the groups of the line. -/
def LineCmd (mk : RLine → Chg) : Prop :=
  ∀ r, removesObject (mk r) = false ∧ ∀ D, usesDefined D (mk r) = r.names.all D.contains ∧ defStep D (mk r) = D

theorem lineCmd_acl (n : Name) (k : Option Nat) : LineCmd (Chg.acl n k) := fun _ => ⟨rfl, fun _ => ⟨rfl, rfl⟩⟩
theorem lineCmd_move (n : Name) (dp : Nat) (a : RLine) (ap : Option Nat) :
    LineCmd (fun r => .join (.noAcl n dp a) (.acl n ap r)) :=
  fun _ => ⟨rfl, fun _ => ⟨by simp [usesDefined, defStep], rfl⟩⟩

theorem emitLine_inv (e : Env) {st : St} (h : Inv (D0 e) st) (mk : RLine → Chg) (hmk : LineCmd mk) (l : Line) :
    Inv (D0 e) (emitLine e st mk l) := by
  unfold emitLine
  -- after the transfers every referenced group is ready
  have key : ∀ (refs : List Name) (s : St), Inv (D0 e) s →
      Inv (D0 e) (refs.foldl (transferGroup e) s) ∧ (∀ g ∈ refs, g ∈ (refs.foldl (transferGroup e) s).gReady) ∧
      (∀ g ∈ s.gReady, g ∈ (refs.foldl (transferGroup e) s).gReady) := by
    intro refs
    induction refs with
    | nil => intro s hs; exact ⟨hs, fun _ hg => by simp at hg, fun _ hg => hg⟩
    | cons g gs ih =>
      intro s hs
      obtain ⟨h1, h2⟩ := transferGroup_inv e hs g
      obtain ⟨i1, i2, i3⟩ := ih (transferGroup e s g) h1
      refine ⟨i1, ?_, fun x hx => i3 x (transferGroup_ready_mono e s g x hx)⟩
      intro x hx
      rcases List.mem_cons.mp hx with e1 | e1
      · subst e1; exact i3 _ h2
      · exact i2 x e1
  obtain ⟨h1, h2, _⟩ := key l.refs st h
  generalize l.refs.foldl (transferGroup e) st = st1 at h1 h2
  apply Inv3.emit_user h1
  · rw [((hmk _).2 _).1]
    simp only [resolveB, List.all_map, List.all_eq_true, Function.comp]
    intro g hg
    have := h1.ready g (h2 g hg)
    simpa [gNameOf_eq] using this
  · exact fun D => ((hmk _).2 D).2
  · exact (hmk _).1

theorem markDeletedLines_inv {D : List Name} {st : St} (h : Inv D st) (ls : List Line) : Inv D (markDeletedLines st ls) := h

theorem emitOp_inv (e : Env) (aclName : Name) (al bl : List Line) (cells : List MCell) {st : St}
    (h : Inv (D0 e) st) (op : NA.Acl.Op) : Inv (D0 e) (emitOp e aclName al bl cells st op) := by
  unfold emitOp
  cases op with
  | add p l =>
    simp only
    split
    · exact emitLine_inv e h _ (lineCmd_acl _ _) _
    · exact Inv3.emit_neutral h _ neutral_bad
  | del p l =>
    simp only
    split
    · exact Inv3.emit_neutral h _ (neutral_noAcl _ _ _)
    · exact Inv3.emit_neutral h _ neutral_bad
  | move dp la ap lb =>
    simp only
    split
    · exact emitLine_inv e (markDeletedLines_inv h _) _ (lineCmd_move _ _ _ _) _
    · exact Inv3.emit_neutral h _ neutral_bad
  | bad => exact Inv3.emit_neutral h _ neutral_bad

theorem diffASAACLs_inv (e : Env) (hA : RefsClosedA e) {st : St} (h : Inv (D0 e) st) (aN bN : Name) (rs : List Range) :
    Inv (D0 e) (diffASAACLs e st aN bN rs) := by
  unfold diffASAACLs
  simp only []
  have h1 := earlyFind_inv e (e.bLines bN) rs h
  have h2 := cellsPhase_inv e hA aN (e.bLines bN) rs _ [] h1
  generalize cellsPhase e (e.aLines aN) (e.bLines bN) rs (earlyFind e (e.bLines bN) rs st) [] = q at h2
  obtain ⟨st1, cells⟩ := q
  exact foldl_inv (Inv (D0 e)) _ _ st1 (fun s op _ hs => emitOp_inv e aN _ _ cells hs op) h2

theorem transferAcl_inv (e : Env) {st : St} (h : Inv (D0 e) st) (bN : Name) : Inv (D0 e) (transferAcl e st bN) := by
  unfold transferAcl
  split
  · exact h
  · exact foldl_inv (Inv (D0 e)) _ _ _ (fun s l _ hs => emitLine_inv e hs _ (lineCmd_acl _ _) l) h

theorem markDeletedAcl_inv (e : Env) {D : List Name} {st : St} (h : Inv D st) (aN : Name) : Inv D (markDeletedAcl e st aN) := by
  unfold markDeletedAcl
  split
  · exact h
  · exact h

theorem diffAcl_inv (e : Env) (hA : RefsClosedA e) {st : St} (h : Inv (D0 e) st) (aN bN : Name) :
    Inv (D0 e) (diffAcl e st aN bN).1 := by
  unfold diffAcl
  split
  · exact transferAcl_inv e (inv_hit h _) bN
  · split
    · exact h
    · simp only []
      split
      · exact transferAcl_inv e (markDeletedAcl_inv e (inv_hit h _) aN) bN
      · have h0 : Inv (D0 e) (({ st with aName := (bN, aN) :: st.aName }.hit "acl:incremental").hit (planCheck e st aN bN (lookupD e.sc.acl (aN, bN)))) :=
          inv_of_eq h rfl rfl rfl
        have h1 := diffASAACLs_inv e hA h0 aN bN (lookupD e.sc.acl (aN, bN))
        exact inv_of_eq h1 rfl rfl rfl

/-! ## Anchors -/

theorem markDeletedBinds_inv (e : Env) {D : List Name} {st : St} (h : Inv D st) (idx : List Nat) :
    Inv D (markDeletedBinds e st idx) := by
  unfold markDeletedBinds
  apply foldl_inv (Inv D) _ idx st _ h
  intro s i _ hs
  split
  · exact hs
  · exact markDeletedAcl_inv e (st := { s with bToDel := i :: s.bToDel }) hs _

theorem addBinds_inv (e : Env) {st : St} (h : Inv (D0 e) st) (bs : List Bind) : Inv (D0 e) (addBinds e st bs) := by
  unfold addBinds
  apply foldl_inv (Inv (D0 e)) _ bs st _ h
  intro s b _ hs
  exact Inv3.emit_neutral (transferAcl_inv e hs b.acl) _ (neutral_bind _)

theorem delBinds_inv (e : Env) {D : List Name} {st : St} (h : Inv D st) (idx : List Nat) : Inv D (delBinds e st idx) := by
  unfold delBinds
  have h1 : Inv D (idx.foldl (fun st i =>
      if st.bNeeded.contains i then st else
      { (st.emit (.noBind (e.a.binds.getD i default))) with mode := "", bNeeded := i :: st.bNeeded }.hit "bind:del") st) := by
    apply foldl_inv (Inv D) _ idx st _ h
    intro s i _ hs
    split
    · exact hs
    · exact Inv3.emit_neutral hs _ (neutral_noBind _)
  simp only []
  split
  · exact h1
  · exact markDeletedBinds_inv e h1 idx

theorem makeEqualBind_inv (e : Env) (hA : RefsClosedA e) {st : St} (h : Inv (D0 e) st) (i : Nat) (b : Bind) :
    Inv (D0 e) (makeEqualBind e st i b) := by
  unfold makeEqualBind
  simp only []
  have h1 := diffAcl_inv e hA (st := { st with bNeeded := makeEqualBind.addSet' i st.bNeeded }) h
    (e.a.binds.getD i default).acl b.acl
  generalize diffAcl e { st with bNeeded := makeEqualBind.addSet' i st.bNeeded } (e.a.binds.getD i default).acl b.acl = q at h1
  obtain ⟨st1, refName⟩ := q
  simp only at h1 ⊢
  split
  · exact Inv3.emit_neutral h1 _ (neutral_bind _)
  · exact h1

theorem diffBinds_inv (e : Env) (hA : RefsClosedA e) {st : St} (h : Inv (D0 e) st) (al : List Nat) (bl : List Bind) :
    Inv (D0 e) (diffBinds e st al bl) := by
  unfold diffBinds
  simp only []
  split
  · split
    · exact h
    · exact addBinds_inv e (inv_hit h _) bl
  · split
    · have h1 : Inv (D0 e) (if al.isEmpty then st else markDeletedBinds e (st.hit "bind:no-parts-equal") al) := by
        split
        · exact h
        · exact markDeletedBinds_inv e (inv_hit h _) al
      split
      · exact h1
      · exact addBinds_inv e h1 bl
    · apply foldl_inv (Inv (D0 e))
      · intro s r _ hs
        split
        · split
          · exact hs
          · exact addBinds_inv e hs _
        · split
          · exact foldl_inv (Inv (D0 e)) _ _ s (fun s' p _ hs' => makeEqualBind_inv e hA hs' p.1 p.2) hs
          · exact hs
      · apply foldl_inv (Inv (D0 e))
        · intro s r _ hs
          split
          · exact delBinds_inv e hs _
          · exact hs
        · exact h

theorem diffRoutes_inv {D : List Name} {st : St} (h : Inv D st) (al bl : List Route) : Inv D (diffRoutes st al bl) := by
  unfold diffRoutes
  split
  · exact foldl_inv (Inv D) _ bl st (fun s r _ hs => Inv3.emit_neutral hs _ (neutral_route _)) h
  · simp only []
    generalize hdels : (List.flatMap _ (diffUnordered (al.map (·.text)) (bl.map (·.text))) : List (Nat × Route)) = dels
    generalize hinss : (List.flatMap _ (diffUnordered (al.map (·.text)) (bl.map (·.text))) : List Route) = inss
    have h1 : ∀ (l : List Route) (s : St × List Nat × List String), Inv D s.1 →
        Inv D (l.foldl (fun (s : St × List Nat × List String) r =>
          let (st, used, gone) := s
          match (dels.filter fun d => d.2.dst == r.dst && !gone.contains r.dst).getLast? with
          | some d =>
            ({ (st.emit (.join (.noRoute d.2.text) (.route r.text))) with mode := "" }.hit "route:replace",
              d.1 :: used, r.dst :: gone)
          | none => ({ (st.emit (.route r.text)) with mode := "" }.hit "route:add", used, gone)) s).1 := by
      intro l
      induction l with
      | nil => intro s hs; exact hs
      | cons r rs ih =>
        intro s hs
        simp only [List.foldl_cons]
        apply ih
        obtain ⟨st0, used, gone⟩ := s
        simp only
        split
        · exact Inv3.emit_neutral hs _ (neutral_join (neutral_noRoute _) (neutral_route _))
        · exact Inv3.emit_neutral hs _ (neutral_route _)
    have h2 := h1 inss (st, [], []) h
    generalize (inss.foldl _ (st, ([] : List Nat), ([] : List String))) = q at h2
    obtain ⟨st1, used, gone⟩ := q
    simp only at h2 ⊢
    split
    · split
      · exact h2
      · exact h2
    · apply foldl_inv (Inv D) _ dels st1 _ h2
      intro s d _ hs
      split
      · exact hs
      · exact Inv3.emit_neutral hs _ (neutral_noRoute _)

/-! ## `deleteUnused` -/

/-- `st'` extends the script of `st` by commands that all satisfy `P`. -/
def OutExt (P : Chg → Prop) (st st' : St) : Prop := ∃ cs, st'.out = st.out ++ cs ∧ ∀ c ∈ cs, P c

theorem OutExt.refl (P : Chg → Prop) (st : St) : OutExt P st st := ⟨[], by simp, fun _ h => by simp at h⟩

theorem OutExt.of_out_eq {P : Chg → Prop} {st st' : St} (h : st'.out = st.out) : OutExt P st st' :=
  ⟨[], by simp [h], fun _ h => by simp at h⟩

theorem OutExt.trans {P : Chg → Prop} {s1 s2 s3 : St} (h1 : OutExt P s1 s2) (h2 : OutExt P s2 s3) : OutExt P s1 s3 := by
  obtain ⟨c1, e1, p1⟩ := h1
  obtain ⟨c2, e2, p2⟩ := h2
  refine ⟨c1 ++ c2, by rw [e2, e1, List.append_assoc], ?_⟩
  intro c hc
  rcases List.mem_append.mp hc with h | h
  · exact p1 c h
  · exact p2 c h

theorem OutExt.emit {P : Chg → Prop} (st : St) (c : Chg) (hc : P c) (st' : St) (h : st'.out = st.out ++ [c]) :
    OutExt P st st' := ⟨[c], h, fun c' h' => by simp at h'; subst h'; exact hc⟩

theorem OutExt.foldl {P : Chg → Prop} {α : Type} (f : St → α → St) (l : List α) (st : St)
    (h : ∀ s x, OutExt P s (f s x)) : OutExt P st (l.foldl f st) := by
  induction l generalizing st with
  | nil => exact OutExt.refl P st
  | cons x xs ih => exact (h st x).trans (ih (f st x))

/-- The commands `deleteUnused` emits. -/
def TailCmd (c : Chg) : Prop := c = .exit ∨ (∃ b, c = .noBind b) ∨ (∃ n, c = .clearAcl n) ∨ (∃ n, c = .noGrp n)

theorem TailCmd.noLine {c : Chg} (h : TailCmd c) : addsLine c = false := by
  rcases h with h | ⟨_, h⟩ | ⟨_, h⟩ | ⟨_, h⟩ <;> subst h <;> rfl

theorem duRound_ext (e : Env) (st : St) (p : Pending) : OutExt TailCmd st (duRound e st p).1 := by
  unfold duRound
  simp only []
  refine ((OutExt.foldl _ p.binds st ?_).trans (OutExt.foldl _ _ _ ?_)).trans (OutExt.foldl _ _ _ ?_)
  · intro s i; exact OutExt.emit s _ (Or.inr (Or.inl ⟨_, rfl⟩)) _ rfl
  · intro s n; exact OutExt.emit s _ (Or.inr (Or.inr (Or.inl ⟨_, rfl⟩))) _ rfl
  · intro s n; exact OutExt.emit s _ (Or.inr (Or.inr (Or.inr ⟨_, rfl⟩))) _ rfl

theorem duRounds_ext (e : Env) : ∀ (n : Nat) (st : St) (p : Pending), OutExt TailCmd st (duRounds e n st p) := by
  intro n
  induction n with
  | zero => intro st p; exact OutExt.refl _ st
  | succ n ih =>
    intro st p
    unfold duRounds
    split
    · exact OutExt.refl _ st
    · have h1 := duRound_ext e st p
      generalize duRound e st p = q at h1
      obtain ⟨st1, p1⟩ := q
      exact h1.trans (ih st1 p1)

theorem deleteUnused_ext (e : Env) (st : St) (managed : List Nat) : OutExt TailCmd st (deleteUnused e st managed) := by
  unfold deleteUnused
  generalize duPending e st managed = q
  obtain ⟨p, sr⟩ := q
  simp only []
  have h1 : OutExt TailCmd st (if sr = true then st.hit "du:still-referenced" else st) := by
    split
    · exact OutExt.of_out_eq rfl
    · exact OutExt.refl _ st
  generalize (if sr = true then st.hit "du:still-referenced" else st) = st1 at h1
  split
  · exact h1
  · refine h1.trans (OutExt.trans ?_ (duRounds_ext e _ _ _))
    split
    · exact OutExt.emit _ _ (Or.inl rfl) _ rfl
    · exact OutExt.refl _ _

/-! ### Order inside the tail: an access list is cleared before the groups it references are removed -/

theorem foldl_emit_out {α : Type} (g : St → α → St) (f : α → Chg) (hg : ∀ s x, (g s x).out = s.out ++ [f x])
    (l : List α) (st : St) : (l.foldl g st).out = st.out ++ l.map f := by
  induction l generalizing st with
  | nil => simp
  | cons x xs ih => rw [List.foldl_cons, ih, hg]; simp

/-- `c₁` before `c₂` is harmless: not (`no object-group g` before `clear configure access-list n` with `g` used by `n`). -/
def TailRel (e : Env) (c₁ c₂ : Chg) : Prop :=
  ∀ g n, c₁ = .noGrp g → c₂ = .clearAcl n → g ∉ (e.aLines n).flatMap (·.refs)

theorem duRound_out (e : Env) (st : St) (p : Pending) :
    (duRound e st p).1.out = st.out ++
      (p.binds.map (fun i => Chg.noBind (e.a.binds.getD i default)) ++
       ((p.acls.filter fun n => !(p.binds.map fun i => (e.a.binds.getD i default).acl).contains n).map Chg.clearAcl ++
        (p.grps.filter fun n => !(p.acls.flatMap fun n => (e.aLines n).flatMap (·.refs)).contains n).map Chg.noGrp)) ∧
    (duRound e st p).2.acls = p.acls.filter (p.binds.map fun i => (e.a.binds.getD i default).acl).contains := by
  unfold duRound
  simp only [and_true]
  rw [foldl_emit_out _ Chg.noGrp (fun s x => rfl), foldl_emit_out _ Chg.clearAcl (fun s x => rfl),
    foldl_emit_out _ (fun i => Chg.noBind (e.a.binds.getD i default)) (fun s x => rfl)]
  simp [List.append_assoc]

theorem duRounds_order (e : Env) : ∀ (n : Nat) (st : St) (p : Pending),
    ∃ cs, (duRounds e n st p).out = st.out ++ cs ∧ cs.Pairwise (TailRel e) ∧ ∀ m, Chg.clearAcl m ∈ cs → m ∈ p.acls := by
  intro n
  induction n with
  | zero => intro st p; exact ⟨[], by simp [duRounds], List.Pairwise.nil, fun _ h => by simp at h⟩
  | succ n ih =>
    intro st p
    unfold duRounds
    split
    · exact ⟨[], by simp, List.Pairwise.nil, fun _ h => by simp at h⟩
    · obtain ⟨ho, ha⟩ := duRound_out e st p
      generalize duRound e st p = q at ho ha
      obtain ⟨st1, p1⟩ := q
      simp only at ho ha ⊢
      obtain ⟨cs, hc, hp, hm⟩ := ih st1 p1
      refine ⟨_, by rw [hc, ho, List.append_assoc], ?_, ?_⟩
      · rw [List.pairwise_append]
        refine ⟨?_, hp, ?_⟩
        · -- inside one round
          rw [List.pairwise_append]
          refine ⟨?_, ?_, ?_⟩
          · apply List.pairwise_of_forall_mem_list
            intro x hx y _ g m e1 _
            obtain ⟨i, _, rfl⟩ := List.mem_map.mp hx
            exact absurd e1 (by simp)
          · rw [List.pairwise_append]
            refine ⟨?_, ?_, ?_⟩
            · apply List.pairwise_of_forall_mem_list
              intro x hx y _ g m e1 _
              obtain ⟨i, _, rfl⟩ := List.mem_map.mp hx
              exact absurd e1 (by simp)
            · apply List.pairwise_of_forall_mem_list
              intro x _ y hy g m _ e2
              obtain ⟨i, _, rfl⟩ := List.mem_map.mp hy
              exact absurd e2 (by simp)
            · intro x hx y _ g m e1 _
              obtain ⟨i, _, rfl⟩ := List.mem_map.mp hx
              exact absurd e1 (by simp)
          · intro x hx y _ g m e1 _
            obtain ⟨i, _, rfl⟩ := List.mem_map.mp hx
            exact absurd e1 (by simp)
        · -- a group removed in this round is not referenced by an access list cleared later
          intro x hx y hy g m e1 e2
          subst e1 e2
          have hm' : m ∈ p.acls := by
            have := hm m hy
            rw [ha] at this
            exact (List.mem_filter.mp this).1
          have hg : g ∈ (p.grps.filter fun n => !(p.acls.flatMap fun n => (e.aLines n).flatMap (·.refs)).contains n) := by
            rcases List.mem_append.mp hx with h1 | h1
            · obtain ⟨i, _, h2⟩ := List.mem_map.mp h1; exact absurd h2 (by simp)
            · rcases List.mem_append.mp h1 with h1 | h1
              · obtain ⟨i, _, h2⟩ := List.mem_map.mp h1; exact absurd h2 (by simp)
              · obtain ⟨i, hi, h2⟩ := List.mem_map.mp h1
                simp only [Chg.noGrp.injEq] at h2; subst h2; exact hi
          have := (List.mem_filter.mp hg).2
          simp only [Bool.not_eq_true', List.contains_eq_mem, decide_eq_false_iff_not] at this
          intro hmem
          exact this (List.mem_flatMap.mpr ⟨m, hm', hmem⟩)
      · intro m hmem
        rcases List.mem_append.mp hmem with h1 | h1
        · rcases List.mem_append.mp h1 with h1 | h1
          · obtain ⟨i, _, h2⟩ := List.mem_map.mp h1; exact absurd h2 (by simp)
          · rcases List.mem_append.mp h1 with h1 | h1
            · obtain ⟨i, hi, h2⟩ := List.mem_map.mp h1
              simp only [Chg.clearAcl.injEq] at h2; subst h2; exact (List.mem_filter.mp hi).1
            · obtain ⟨i, _, h2⟩ := List.mem_map.mp h1; exact absurd h2 (by simp)
        · have := hm m h1
          rw [ha] at this
          exact (List.mem_filter.mp this).1

/-- The commands appended by `deleteUnused` are ordered: `no object-group g` never precedes
`clear configure access-list n` for a device access list `n` that references `g`. -/
theorem deleteUnused_order (e : Env) (st : St) (managed : List Nat) :
    ∃ cs, (deleteUnused e st managed).out = st.out ++ cs ∧ cs.Pairwise (TailRel e) := by
  unfold deleteUnused
  generalize duPending e st managed = q
  obtain ⟨p, sr⟩ := q
  simp only []
  have h1 : (if sr = true then st.hit "du:still-referenced" else st).out = st.out := by split <;> rfl
  generalize (if sr = true then st.hit "du:still-referenced" else st) = st1 at h1
  split
  · exact ⟨[], by simp [h1], List.Pairwise.nil⟩
  · split
    · obtain ⟨cs, hc, hp, _⟩ := duRounds_order e (e.a.acls.length + e.a.groups.length + 2)
        ((st1.emit .exit).hit "du:exit") p
      refine ⟨Chg.exit :: cs, ?_, ?_⟩
      · rw [hc]; simp [St.hit, St.emit, h1]
      · rw [List.pairwise_cons]
        exact ⟨fun y _ g m e1 _ => absurd e1 (by simp), hp⟩
    · obtain ⟨cs, hc, hp, _⟩ := duRounds_order e (e.a.acls.length + e.a.groups.length + 2) st1 p
      exact ⟨cs, by rw [hc, h1], hp⟩

/-! ## The whole engine -/

theorem checkInterfaces_init (e : Env) (st : St) (managed : List Nat)
    (h : checkInterfaces e {} = some (st, managed)) : st.out = [] ∧ st.gReady = [] ∧ st.gName = [] := by
  unfold checkInterfaces at h
  simp only [] at h
  split at h
  · simp only [Option.some.injEq, Prod.mk.injEq] at h
    rw [← h.1]
    apply foldl_inv (fun s : St => s.out = [] ∧ s.gReady = [] ∧ s.gName = [])
    · intro s i _ hs; exact hs
    · exact ⟨rfl, rfl, rfl⟩
  · exact absurd h (by simp)

theorem tail_uses (D : List Name) : ∀ (cs : List Chg), (∀ c ∈ cs, TailCmd c) → createdBeforeUse D cs = true := by
  intro cs
  induction cs generalizing D with
  | nil => intro _; rfl
  | cons c cs ih =>
    intro h
    have hc := h c List.mem_cons_self
    have : usesDefined D c = true := by
      rcases hc with h | ⟨_, h⟩ | ⟨_, h⟩ | ⟨_, h⟩ <;> subst h <;> rfl
    simp only [createdBeforeUse, this, Bool.true_and]
    exact ih _ (fun c' h' => h c' (List.mem_cons_of_mem _ h'))

/-- `objects_before_use` (C08, order part): the script is `body ++ tail`; every object-group is created
before the first access-list line that references it; `body` (everything before `deleteUnused`)
removes no object; `tail` (the commands of `deleteUnused`: `exit`, `no access-group`,
`clear configure access-list`, `no object-group`) adds no line. -/
theorem engine_order (a b : Config) (sc : Scripts) (r : Result) (hA : RefsClosedA ⟨a, b, sc⟩)
    (h : engine a b sc = some r) :
    ∃ body tail, r.script = body ++ tail ∧ createdBeforeUse (a.groups.map (·.1)) r.script = true ∧
      (∀ c ∈ body, removesObject c = false) ∧ (∀ c ∈ tail, TailCmd c) := by
  unfold engine at h
  simp only [] at h
  split at h
  · exact absurd h (by simp)
  · rename_i st managed hci
    simp only [Option.some.injEq] at h
    obtain ⟨o1, o2, _⟩ := checkInterfaces_init _ st managed hci
    have h0 : Inv (D0 ⟨a, b, sc⟩) (generateNames ⟨a, b, sc⟩ st) := by
      refine ⟨?_, ?_, ?_, ?_⟩
      · show createdBeforeUse _ st.out = true
        rw [o1]; rfl
      · intro c hc; rw [show (generateNames ⟨a, b, sc⟩ st).out = st.out from rfl, o1] at hc; simp at hc
      · intro c hc; rw [show (generateNames ⟨a, b, sc⟩ st).out = st.out from rfl, o1] at hc; simp at hc
      · intro g hg; rw [show (generateNames ⟨a, b, sc⟩ st).gReady = st.gReady from rfl, o2] at hg; simp at hg
    have h1 : Inv (D0 ⟨a, b, sc⟩) (if managed.isEmpty && b.binds.isEmpty then generateNames ⟨a, b, sc⟩ st
        else diffBinds ⟨a, b, sc⟩ (generateNames ⟨a, b, sc⟩ st) managed b.binds) := by
      split
      · exact h0
      · exact diffBinds_inv _ hA h0 _ _
    generalize (if (managed.isEmpty && b.binds.isEmpty) = true then generateNames ⟨a, b, sc⟩ st
        else diffBinds ⟨a, b, sc⟩ (generateNames ⟨a, b, sc⟩ st) managed b.binds) = st1 at h h1
    have h2 := diffRoutes_inv h1 (sortRoutes a.routes) (sortRoutes b.routes)
    generalize diffRoutes st1 (sortRoutes a.routes) (sortRoutes b.routes) = st2 at h h2
    obtain ⟨tail, e1, ht⟩ := deleteUnused_ext ⟨a, b, sc⟩ st2 managed
    refine ⟨st2.out, tail, ?_, ?_, h2.norem, ht⟩
    · rw [← h]; exact e1
    · rw [← h]
      show createdBeforeUse _ (deleteUnused ⟨a, b, sc⟩ st2 managed).out = true
      rw [e1, createdBeforeUse_append, h2.ord, Bool.true_and]
      exact tail_uses _ tail ht

end NA.F1
