import NA.Proofs.F1DevPhase1
/-!
# F1: `diffASAACLs` converges on the strict device (one access-list pair, arbitrary group sharing)
-/
namespace NA.F1
open NA.AsaDev
open NA.Acl (Range MaskRun masked)

theorem range_map_getD {α : Type} [Inhabited α] (l : List α) : (List.range l.length).map (fun i => l.getD i default) = l := by
  apply List.ext_getElem
  · simp
  · intro i h1 h2
    simp only [List.getElem_map, List.getElem_range, List.getD_eq_getElem?_getD]
    rw [List.getElem?_eq_getElem h2]; rfl

theorem filter_map_index {α β : Type} [Inhabited α] (l : List α) (p : α → Bool) (f : α → β) :
    ((List.range l.length).filter (fun i => p (l.getD i default))).map (fun i => f (l.getD i default)) = (l.filter p).map f := by
  have h := range_map_getD l
  calc ((List.range l.length).filter (fun i => p (l.getD i default))).map (fun i => f (l.getD i default))
      = ((((List.range l.length).map (fun i => l.getD i default)).filter p).map f) := by
        rw [List.filter_map, List.map_map]; rfl
    _ = (l.filter p).map f := by rw [h]

theorem olds_dec (st0 : St) (al bl : List Line) (cells : List MCell) (mk : List String) :
    (NA.Acl.olds (encodeCells cells mk)).map (decOf st0 al bl cells) = (cells.filter cellOld).map (cellRLine st0 al bl) := by
  rw [encodeCells_eq_map]
  unfold NA.Acl.olds
  rw [List.filter_map, List.map_map, List.map_map, ← filter_map_index cells cellOld (cellRLine st0 al bl)]
  apply List.map_congr_left
  intro i hi
  have hi' : i < cells.length := by simpa using (List.mem_filter.mp hi).1
  exact dec_line st0 al bl cells mk i hi'

theorem news_dec (st0 : St) (al bl : List Line) (cells : List MCell) (mk : List String) :
    (NA.Acl.news (encodeCells cells mk)).map (decOf st0 al bl cells) = (cells.filter cellNew).map (cellRLine st0 al bl) := by
  rw [encodeCells_eq_map]
  unfold NA.Acl.news
  rw [List.filter_map, List.map_map, List.map_map, ← filter_map_index cells cellNew (cellRLine st0 al bl)]
  apply List.map_congr_left
  intro i hi
  have hi' : i < cells.length := by simpa using (List.mem_filter.mp hi).1
  exact dec_line st0 al bl cells mk i hi'

theorem old_cells_lines (st0 : St) (al bl : List Line) : ∀ (cells : List MCell),
    (cells.filter cellOld).map (cellRLine st0 al bl) = (cells.filterMap cellA).map (fun ai => resolveA (al.getD ai default)) := by
  intro cells
  induction cells with
  | nil => rfl
  | cons c cs ih => cases c <;> simp [List.filter, List.filterMap_cons, cellOld, cellA, cellRLine, ih]

theorem range'_map_getD {α β : Type} [Inhabited α] (l : List α) (f : α → β) :
    (List.range' 0 l.length).map (fun i => f (l.getD i default)) = l.map f := by
  rw [← List.range_eq_range']
  have := congrArg (List.map f) (range_map_getD l)
  rw [List.map_map] at this
  exact this

/-- State and merged list after the first phase of `diffASAACLs`. -/
def planOf (e : Env) (st : St) (aN bN : Name) (rs : List Range) : St × List MCell :=
  cellsPhase e (e.aLines aN) (e.bLines bN) rs (earlyFind e (e.bLines bN) rs st) []

theorem diffASAACLs_eq (e : Env) (st : St) (aN bN : Name) (rs : List Range) :
    diffASAACLs e st aN bN rs =
      (NA.Acl.planASA (encodeCells (planOf e st aN bN rs).2
        (mkeysOf (planOf e st aN bN rs).1 (e.aLines aN) (e.bLines bN) (planOf e st aN bN rs).2))).foldl
        (emitOp e aN (e.aLines aN) (e.bLines bN) (planOf e st aN bN rs).2) (planOf e st aN bN rs).1 := by
  unfold diffASAACLs planOf
  simp only []
  generalize cellsPhase e (e.aLines aN) (e.bLines bN) rs (earlyFind e (e.bLines bN) rs st) [] = q
  obtain ⟨st1, cells⟩ := q
  simp only [mkeysOf, rlOf, List.map_map]
  rfl

/-- A step of the engine that touches object-groups and the lines of access list `aN` (target groups may be
renamed). -/
structure LStep (e : Env) (st : St) (d : Dev) (st' : St) (d' : Dev) (aN : Name) : Prop where
  sem : Sem e st' d'
  out : ∃ cs, st'.out = st.out ++ cs ∧ exec d cs = some d'
  stable : ∀ x, hasGroup d x = true → Frozen e st x → membersOf d' x = membersOf d x
  hasMono : ∀ x, hasGroup d x = true → hasGroup d' x = true
  grow : ∀ x ∈ st.gNeeded, x ∈ st'.gNeeded
  readyMono : ∀ g ∈ st.gReady, g ∈ st'.gReady
  others : ∀ n', n' ≠ aN → linesOf d' n' = linesOf d n'
  binds : d'.binds = d.binds
  routes : d'.routes = d.routes
  intfs : d'.intfs = d.intfs
  aclKeys : d'.acls.map (·.1) = d.acls.map (·.1)

theorem LStep.of_gstep_astep {e : Env} {s1 s2 s3 : St} {d1 d2 d3 : Dev} {aN : Name}
    (g : GStep e s1 d1 s2 d2) (a : AStep e s2 d2 s3 d3 aN) : LStep e s1 d1 s3 d3 aN := by
  obtain ⟨c1, o1, e1⟩ := g.out
  obtain ⟨c2, o2, e2⟩ := a.out
  refine ⟨a.sem, ⟨c1 ++ c2, by rw [o2, o1, List.append_assoc], exec_append_some e1 e2⟩, ?_, ?_, ?_, ?_, ?_,
    a.binds.trans g.binds, a.routes.trans g.routes, a.intfs.trans g.intfs, by rw [a.aclKeys, g.acls]⟩
  · intro x hx hf
    rw [a.stable x (g.hasMono x hx) (hf.mono g.grow), g.stable x hx hf]
  · exact fun x hx => a.hasMono x (g.hasMono x hx)
  · exact fun x hx => a.grow x (g.grow x hx)
  · exact fun x hx => a.readyMono x (g.readyMono x hx)
  · exact fun n' hn => (a.others n' hn).trans (g.lines n')

/-- `diffASAACLs` on the strict device.  Hypotheses that are decidable properties of the run
(checked by the driver on every generated case): the printed texts modulo log are pairwise different
among the device's lines and among the target's lines when the plan is made, and at least one kept
line keeps its references. -/
theorem diffASAACLs_astep (e : Env) (hw : WF e) (hA : RefsClosedA e) (hB : RefsClosedB e) (st : St) (d : Dev)
    (h : Sem e st d) (aN bN : Name) (rs : List Range)
    (hal : linesOf d aN = (e.aLines aN).map resolveA)
    (hscript : scriptOK ((e.aLines aN).map (·.body)) ((e.bLines bN).map (·.body)) rs 0 0 = true)
    (hold : DistinctOn (planOf e st aN bN rs).2
      (mkeysOf (planOf e st aN bN rs).1 (e.aLines aN) (e.bLines bN) (planOf e st aN bN rs).2) cellOld)
    (hnew : DistinctOn (planOf e st aN bN rs).2
      (mkeysOf (planOf e st aN bN rs).1 (e.aLines aN) (e.bLines bN) (planOf e st aN bN rs).2) cellNew)
    (hkeep : ∃ k a b, k < (planOf e st aN bN rs).2.length ∧ (planOf e st aN bN rs).2.getD k default = .keep a b) :
    ∃ d', LStep e st d (diffASAACLs e st aN bN rs) d' aN ∧
      linesOf d' aN = ((planOf e st aN bN rs).2.filter cellNew).map
        (cellRLine (planOf e st aN bN rs).1 (e.aLines aN) (e.bLines bN)) ∧
      KeepGood e (diffASAACLs e st aN bN rs) d' (e.aLines aN) (e.bLines bN) (planOf e st aN bN rs).2 ∧
      (∀ bi, MCell.ins bi ∈ (planOf e st aN bN rs).2 →
        ∀ g ∈ ((e.bLines bN).getD bi default).refs, g ∈ (diffASAACLs e st aN bN rs).gReady) ∧
      (diffASAACLs e st aN bN rs).gName = (planOf e st aN bN rs).1.gName := by
  rw [diffASAACLs_eq]
  -- first phase
  have g0 := earlyFind_gstep e (e.bLines bN) rs st d h
  have hbl : ∀ bi, ∀ g ∈ ((e.bLines bN).getD bi default).refs, g ∈ BNames e := by
    intro bi g hg
    by_cases hbi : bi < (e.bLines bN).length
    · have : (e.bLines bN).getD bi default = (e.bLines bN)[bi] := by
        rw [List.getD_eq_getElem?_getD, List.getElem?_eq_getElem hbi]; rfl
      rw [this] at hg
      exact hB bN _ (List.getElem_mem hbi) g hg
    · have : (e.bLines bN).getD bi default = default := by
        rw [List.getD_eq_getElem?_getD, List.getElem?_eq_none (by omega)]; rfl
      rw [this] at hg
      have hd : (default : Line).refs = [] := rfl
      rw [hd] at hg; simp at hg
  obtain ⟨d1, g1, k1⟩ := cellsPhase_gstep e hw hA aN (e.bLines bN) hbl rs (earlyFind e (e.bLines bN) rs st) [] d g0.sem
    (fun _ _ hm => by simp at hm)
  have hproj := cellsPhase_proj e (e.aLines aN) (e.bLines bN) rs 0 0 (earlyFind e (e.bLines bN) rs st) [] hscript
  unfold planOf at hold hnew hkeep ⊢
  generalize cellsPhase e (e.aLines aN) (e.bLines bN) rs (earlyFind e (e.bLines bN) rs st) [] = q at g1 k1 hproj hold hnew hkeep
  obtain ⟨st1, cells⟩ := q
  simp only at g1 k1 hproj hold hnew hkeep ⊢
  have g01 := g0.trans g1
  -- the device's access list is the old side of the merged list
  have hlines1 : linesOf d1 aN = (masked (encodeCells cells (mkeysOf st1 (e.aLines aN) (e.bLines bN) cells))
      (NA.Acl.oldMask (encodeCells cells (mkeysOf st1 (e.aLines aN) (e.bLines bN) cells)))).map
      (decOf st1 (e.aLines aN) (e.bLines bN) cells) := by
    rw [g01.lines, hal, NA.Acl.masked_old, olds_dec, old_cells_lines, hproj.1]
    simp only [List.filterMap_nil, List.nil_append, Nat.sub_zero]
    exact (range'_map_getD (e.aLines aN) resolveA).symm
  -- the mask-level run of the plan
  have hlen := mkeysOf_length st1 (e.aLines aN) (e.bLines bN) cells
  have hrun : MaskRun (encodeCells cells (mkeysOf st1 (e.aLines aN) (e.bLines bN) cells))
      (NA.Acl.oldMask _) (NA.Acl.planASA _) (NA.Acl.newMask _) :=
    NA.Acl.asa_pos_refines _ (by rw [olds_mkeys]; exact mkeys_nodup_side cells _ hlen cellOld hold)
      (by rw [news_mkeys]; exact mkeys_nodup_side cells _ hlen cellNew hnew)
  obtain ⟨k, ka, kb, hk, hkc⟩ := hkeep
  have hMk : (encodeCells cells (mkeysOf st1 (e.aLines aN) (e.bLines bN) cells)).getD k default =
      encCell cells (mkeysOf st1 (e.aLines aN) (e.bLines bN) cells) k := encodeCells_getD _ _ k hk
  obtain ⟨d2, a2, l2, i2⟩ := opsFold_astep e hw aN st1 (e.aLines aN) (e.bLines bN) cells
    hbl
    k hk ⟨ka, kb, hkc⟩ hrun (planASA_shapes cells _) st1 d1 g01.sem rfl hlines1
    (by
      rw [NA.Acl.oldMask_getD _ k (by rw [encodeCells_length]; exact hk), hMk]
      show cellOld (cells.getD k default) = true
      rw [hkc]; rfl)
    (by
      intro j bi hj hp hc
      rw [NA.Acl.oldMask_getD _ j (by rw [encodeCells_length]; exact hj), encodeCells_getD _ _ j hj] at hp
      simp only [encCell, hc, cellOld] at hp
      exact absurd hp (by simp))
  refine ⟨d2, LStep.of_gstep_astep g01 a2, ?_, k1.astep a2, ?_, a2.gName⟩
  · rw [l2, NA.Acl.masked_new, news_dec]
  · intro bi hm g hg
    obtain ⟨j, hj, hjc⟩ := List.getElem_of_mem hm
    refine i2 j bi hj ?_ ?_ g hg
    · rw [NA.Acl.newMask_getD _ j (by rw [encodeCells_length]; exact hj), encodeCells_getD _ _ j hj]
      simp only [encCell]
      rw [List.getD_eq_getElem?_getD, List.getElem?_eq_getElem hj, hjc]; rfl
    · rw [List.getD_eq_getElem?_getD, List.getElem?_eq_getElem hj, hjc]; rfl

/-! ## The semantic conclusion: every device line matches the target line at its position -/

theorem zip_map_same {α β γ : Type} (f : α → β) (g : α → γ) : ∀ (L : List α),
    (L.map f).zip (L.map g) = L.map (fun c => (f c, g c)) := by
  intro L
  induction L with
  | nil => rfl
  | cons c cs ih => simp [ih]

theorem slice_getD {α : Type} (l : List α) (lo hi i : Nat) (dflt : α) (hi1 : i < hi - lo) (hi2 : hi ≤ l.length) :
    (slice l lo hi).getD i dflt = l.getD (lo + i) dflt := by
  unfold slice
  simp only [List.getD_eq_getElem?_getD]
  rw [List.getElem?_take_of_lt hi1, List.getElem?_drop]

/-- A device line and a target line: same text up to group names, and the groups match. -/
def LineOK (e : Env) (st : St) (d : Dev) (l : RLine) (b : Line) : Prop :=
  l.body = b.body ∧ l.names.length = b.refs.length ∧ ∀ p ∈ l.names.zip b.refs, GoodFrozen e st d p.1 p.2

/-- Kept pairs have equal bodies (they come from the equal ranges of the script). -/
def KeepBody (al bl : List Line) (cells : List MCell) : Prop :=
  ∀ ai bi, MCell.keep ai bi ∈ cells → (al.getD ai default).body = (bl.getD bi default).body

theorem equalizeRange_keepBody (e : Env) (al bl : List Line) (lowA lowB : Nat)
    (hrange : ∀ i, i < n0 → (al.getD (lowA + i) default).body = (bl.getD (lowB + i) default).body) :
    ∀ (n : Nat), n ≤ n0 → ∀ (st : St) (acc : List MCell), KeepBody al bl acc →
      KeepBody al bl (equalizeRange e al bl lowA lowB n st acc).2 := by
  intro n
  induction n with
  | zero => intro _ st acc hk; exact hk
  | succ n ih =>
    intro hn st acc hk
    have h1 := ih (by omega) st acc hk
    unfold equalizeRange
    generalize equalizeRange e al bl lowA lowB n st acc = r at h1
    obtain ⟨st1, acc1⟩ := r
    simp only at h1 ⊢
    generalize equalizePair e st1 (al.getD (lowA + n) default) (bl.getD (lowB + n) default) = q
    obtain ⟨st2, ok⟩ := q
    cases ok with
    | true =>
      simp only [if_true]
      intro ai bi hm
      rcases List.mem_append.mp hm with hm | hm
      · exact h1 ai bi hm
      · simp only [List.mem_singleton, MCell.keep.injEq] at hm
        rw [hm.1, hm.2]; exact hrange n (by omega)
    | false =>
      simp only [Bool.false_eq_true, if_false]
      intro ai bi hm
      rcases List.mem_append.mp hm with hm | hm
      · exact h1 ai bi hm
      · simp at hm

theorem cellsPhase_keepBody (e : Env) (al bl : List Line) : ∀ (rs : List Range) (ia ib : Nat) (st : St) (acc : List MCell),
    scriptOK (al.map (·.body)) (bl.map (·.body)) rs ia ib = true → KeepBody al bl acc →
    KeepBody al bl (cellsPhase e al bl rs st acc).2 := by
  intro rs
  induction rs with
  | nil => intro ia ib st acc _ hk; exact hk
  | cons r rs ih =>
    intro ia ib st acc h hk
    simp only [scriptOK, Bool.and_eq_true, beq_iff_eq, decide_eq_true_eq, Bool.or_eq_true, List.length_map] at h
    obtain ⟨⟨⟨⟨⟨⟨⟨hla, hlb⟩, h1⟩, h2⟩, h3⟩, h4⟩, hkind⟩, hrest⟩ := h
    unfold cellsPhase
    have hins : ∀ (l : List MCell), (∀ c ∈ l, ∀ ai bi, c ≠ MCell.keep ai bi) → KeepBody al bl (acc ++ l) := by
      intro l hl ai bi hm
      rcases List.mem_append.mp hm with hm | hm
      · exact hk ai bi hm
      · exact absurd rfl (hl _ hm ai bi)
    split
    · exact ih _ _ st _ hrest (hins _ (by
        intro c hc ai bi
        obtain ⟨i, _, rfl⟩ := List.mem_map.mp hc
        simp))
    · rename_i hi
      split
      · exact ih _ _ st _ hrest (hins _ (by
          intro c hc ai bi
          obtain ⟨i, _, rfl⟩ := List.mem_map.mp hc
          simp))
      · rename_i hd
        split
        · rename_i heq
          have hslices : slice (al.map (·.body)) ia r.highA = slice (bl.map (·.body)) ib r.highB := by
            rcases hkind with (hk1 | hk1) | hk1
            · exact absurd hk1 hd
            · exact absurd hk1 hi
            · simpa using hk1.2
          have hlen : r.highB - ib = r.highA - ia := by
            simp only [Range.isEqual, beq_iff_eq] at heq; omega
          have hrange : ∀ i, i < r.highA - r.lowA →
              (al.getD (r.lowA + i) default).body = (bl.getD (r.lowB + i) default).body := by
            intro i hi'
            have e1 := slice_getD (al.map (·.body)) ia r.highA i default (by omega) (by simpa using h3)
            have e2 := slice_getD (bl.map (·.body)) ib r.highB i default (by omega) (by simpa using h4)
            rw [hslices, e2] at e1
            rw [hla, hlb]
            have ha : ((al.map (·.body)).getD (ia + i) default) = (al.getD (ia + i) default).body := by
              simp only [List.getD_eq_getElem?_getD, List.getElem?_map]
              cases al[ia + i]? <;> rfl
            have hb : ((bl.map (·.body)).getD (ib + i) default) = (bl.getD (ib + i) default).body := by
              simp only [List.getD_eq_getElem?_getD, List.getElem?_map]
              cases bl[ib + i]? <;> rfl
            rw [← ha, ← hb]; exact e1.symm
          have hk1 := equalizeRange_keepBody (n0 := r.highA - r.lowA) e al bl r.lowA r.lowB hrange
            (r.highA - r.lowA) (Nat.le_refl _) st acc hk
          generalize equalizeRange e al bl r.lowA r.lowB (r.highA - r.lowA) st acc = q at hk1
          obtain ⟨st1, acc1⟩ := q
          exact ih _ _ st1 acc1 hrest hk1
        · exact ih _ _ st acc hrest hk

def bIdx : MCell → Nat
  | .ins b => b
  | .keep _ b => b
  | .del _ => 0

theorem new_cells_b : ∀ (cells : List MCell), cells.filterMap cellB = (cells.filter cellNew).map bIdx := by
  intro cells
  induction cells with
  | nil => rfl
  | cons c cs ih => cases c <;> simp [List.filter, List.filterMap_cons, cellNew, cellB, bIdx, ih]

/-- **Convergence of one access-list pair** (`diffASAACLs` with object-groups, arbitrary sharing of groups
between lines, arbitrary earlier state of the engine).  The strict device accepts every emitted command;
afterwards the device's access list has as many lines as the target's and, position by position, the same
text up to group names, where every referenced device group exists, has the target group's members
(as a multiset) and is frozen (`needed` or created by this run). -/
theorem acl_pair_converges (e : Env) (hw : WF e) (hA : RefsClosedA e) (hB : RefsClosedB e) (st : St) (d : Dev)
    (h : Sem e st d) (aN bN : Name) (rs : List Range)
    (hal : linesOf d aN = (e.aLines aN).map resolveA)
    (hscript : scriptOK ((e.aLines aN).map (·.body)) ((e.bLines bN).map (·.body)) rs 0 0 = true)
    (hold : DistinctOn (planOf e st aN bN rs).2
      (mkeysOf (planOf e st aN bN rs).1 (e.aLines aN) (e.bLines bN) (planOf e st aN bN rs).2) cellOld)
    (hnew : DistinctOn (planOf e st aN bN rs).2
      (mkeysOf (planOf e st aN bN rs).1 (e.aLines aN) (e.bLines bN) (planOf e st aN bN rs).2) cellNew)
    (hkeep : ∃ k a b, k < (planOf e st aN bN rs).2.length ∧ (planOf e st aN bN rs).2.getD k default = .keep a b)
    (hlenA : RefsMatchBody (e.aLines aN)) (hlenB : RefsMatchBody (e.bLines bN)) :
    ∃ d', LStep e st d (diffASAACLs e st aN bN rs) d' aN ∧
      (linesOf d' aN).length = (e.bLines bN).length ∧
      ∀ p ∈ (linesOf d' aN).zip (e.bLines bN), LineOK e (diffASAACLs e st aN bN rs) d' p.1 p.2 := by
  obtain ⟨d', l1, hlines, hkg, hir, hgn⟩ := diffASAACLs_astep e hw hA hB st d h aN bN rs hal hscript hold hnew hkeep
  have hproj := cellsPhase_proj e (e.aLines aN) (e.bLines bN) rs 0 0 (earlyFind e (e.bLines bN) rs st) [] hscript
  have hkb := cellsPhase_keepBody e (e.aLines aN) (e.bLines bN) rs 0 0 (earlyFind e (e.bLines bN) rs st) [] hscript
    (fun _ _ hm => by simp at hm)
  unfold planOf at hlines hkg hir hgn
  generalize cellsPhase e (e.aLines aN) (e.bLines bN) rs (earlyFind e (e.bLines bN) rs st) [] = q at hproj hkb hlines hkg hir hgn
  obtain ⟨st1, cells⟩ := q
  simp only at hproj hkb hlines hkg hir hgn
  -- the target's lines, listed along the new cells
  have hbl : e.bLines bN = (cells.filter cellNew).map (fun c => (e.bLines bN).getD (bIdx c) default) := by
    have h1 := hproj.2
    simp only [List.filterMap_nil, List.nil_append, Nat.sub_zero] at h1
    have h2 := range'_map_getD (e.bLines bN) id
    simp only [List.map_id, id] at h2
    rw [← h1, new_cells_b, List.map_map] at h2
    exact h2.symm
  refine ⟨d', l1, ?_, ?_⟩
  · rw [hlines]
    conv => rhs; rw [hbl]
    simp
  · intro p hp
    rw [hlines] at hp
    have hz : ∀ (bl' : List Line) (f : MCell → RLine) (g : MCell → Line), bl' = (cells.filter cellNew).map g →
        ((cells.filter cellNew).map f).zip bl' = (cells.filter cellNew).map (fun c => (f c, g c)) := by
      intro bl' f g hh; rw [hh, zip_map_same]
    rw [hz _ _ _ hbl] at hp
    obtain ⟨c, hc, rfl⟩ := List.mem_map.mp hp
    obtain ⟨hcm, hcn⟩ := List.mem_filter.mp hc
    cases c with
    | del ai => simp [cellNew] at hcn
    | ins bi =>
      refine ⟨rfl, by simp [cellRLine, resolveB, bIdx], ?_⟩
      intro x hx
      simp only [cellRLine, resolveB, bIdx] at hx
      have hzz : ∀ (rf : List Name) (f : Name → Name), (rf.map f).zip rf = rf.map (fun g => (f g, g)) := by
        intro rf f
        have := zip_map_same f id rf
        simpa using this
      rw [hzz] at hx
      obtain ⟨g, hg, rfl⟩ := List.mem_map.mp hx
      obtain ⟨r1, r2, r3⟩ := l1.sem.ready g (hir bi hcm g hg)
      have hname : (diffASAACLs e st aN bN rs).gNameOf g = st1.gNameOf g := by simp [St.gNameOf, hgn]
      rw [hname] at r1 r2 r3
      exact ⟨r1, r2, r3⟩
    | keep ai bi =>
      refine ⟨hkb ai bi hcm, ?_, ?_⟩
      · -- both lines are real lines of their lists (indices from the projections)
        have hai : ai ∈ cells.filterMap cellA := List.mem_filterMap.mpr ⟨_, hcm, rfl⟩
        have hbi : bi ∈ cells.filterMap cellB := List.mem_filterMap.mpr ⟨_, hcm, rfl⟩
        rw [hproj.1] at hai
        rw [hproj.2] at hbi
        simp only [List.filterMap_nil, List.nil_append, Nat.sub_zero, List.mem_range'_1] at hai hbi
        have ha' : (e.aLines aN).getD ai default ∈ e.aLines aN := by
          rw [List.getD_eq_getElem?_getD, List.getElem?_eq_getElem (by omega)]
          exact List.getElem_mem _
        have hb' : (e.bLines bN).getD bi default ∈ e.bLines bN := by
          rw [List.getD_eq_getElem?_getD, List.getElem?_eq_getElem (by omega)]
          exact List.getElem_mem _
        have e1 := hlenA _ ha'
        have e2 := hlenB _ hb'
        have e3 := hkb ai bi hcm
        show ((e.aLines aN).getD ai default).refs.length = ((e.bLines bN).getD bi default).refs.length
        rw [e3] at e1
        omega
      · intro x hx
        exact hkg ai bi hcm x hx

/-! ## The invariant holds when the engine starts -/

theorem lookup_map_gen (f : Name → Name) (bN : Name) : ∀ (l : List (Name × List String)), bN ∈ l.map (·.1) →
    (l.map fun g => (g.1, f g.1)).lookup bN = some (f bN) := by
  intro l
  induction l with
  | nil => intro h; simp at h
  | cons p ps ih =>
    intro h
    obtain ⟨k, v⟩ := p
    simp only [List.map_cons, List.lookup]
    by_cases e1 : bN = k
    · subst e1; simp
    · have hb : (bN == k) = false := by simpa using e1
      simp only [hb]
      apply ih
      simp only [List.map_cons, List.mem_cons] at h
      rcases h with h | h
      · exact absurd h e1
      · exact h

theorem hasGroup_ofConfig (a : Config) (g : Name) : hasGroup (ofConfig a) g = true ↔ g ∈ a.groups.map (·.1) := by
  simp only [hasGroup, ofConfig, List.any_eq_true, List.mem_map, beq_iff_eq]

/-- After `checkASAInterfaces` and `generateNamesForTransfer` the semantic invariant holds between the
engine's state and the unchanged device. -/
theorem sem_init (a b : Config) (sc : Scripts) (st : St) (managed : List Nat)
    (h : checkInterfaces ⟨a, b, sc⟩ {} = some (st, managed)) :
    Sem ⟨a, b, sc⟩ (generateNames ⟨a, b, sc⟩ st) (ofConfig a) := by
  obtain ⟨_, o2, _⟩ := checkInterfaces_init _ st managed h
  have hmode : st.mode = "" := by
    unfold checkInterfaces at h
    simp only [] at h
    split at h
    · simp only [Option.some.injEq, Prod.mk.injEq] at h
      rw [← h.1]
      exact foldl_inv (fun s : St => s.mode = "") _ _ _ (fun s i _ hs => hs) rfl
    · exact absurd h (by simp)
  refine ⟨?_, ?_, ?_, ?_, ?_⟩
  · unfold ModeRel
    show (ofConfig a).mode = if st.mode = "" then none else some st.mode
    rw [hmode]; rfl
  · intro g hg; exact (hasGroup_ofConfig a g).mpr hg
  · intro g _ _; rfl
  · intro g hg
    have : (generateNames ⟨a, b, sc⟩ st).gReady = st.gReady := rfl
    rw [this, o2] at hg; simp at hg
  · intro bN hbN _
    have hn : (generateNames ⟨a, b, sc⟩ st).gNameOf bN = genName bN (a.groups.map (·.1)) := by
      unfold St.gNameOf generateNames
      simp only []
      rw [lookup_map_gen (fun n => genName n (a.groups.map (·.1))) bN b.groups hbN]
      rfl
    refine ⟨hn, ?_⟩
    cases hh : hasGroup (ofConfig a) (genName bN (D0 ⟨a, b, sc⟩))
    · rfl
    · exact absurd ((hasGroup_ofConfig a _).mp hh) (genName_fresh bN _)

/-! ## The decidable hypothesis counted by the driver -/

theorem distinctOnB_sound {cells : List MCell} {mkeys : List String} {sel : MCell → Bool}
    (h : distinctOnB cells mkeys sel = true) : DistinctOn cells mkeys sel := by
  intro i j hi hj si sj e1
  unfold distinctOnB at h
  rw [List.all_eq_true] at h
  have h1 := h i (List.mem_range.mpr hi)
  rw [List.all_eq_true] at h1
  have h2 := h1 j (List.mem_range.mpr hj)
  simp only [Bool.or_eq_true, beq_iff_eq, Bool.not_eq_true', Bool.and_eq_false_iff] at h2
  rcases h2 with h2 | (h2 | h2) | h2
  · exact h2
  · rw [si] at h2; exact absurd h2 (by simp)
  · rw [sj] at h2; exact absurd h2 (by simp)
  · rw [e1] at h2; simp at h2

theorem planCheck_ok (e : Env) (st : St) (aN bN : Name) (rs : List Range) (h : planCheck e st aN bN rs = "hyp:ok") :
    DistinctOn (planOf e st aN bN rs).2
      (mkeysOf (planOf e st aN bN rs).1 (e.aLines aN) (e.bLines bN) (planOf e st aN bN rs).2) cellOld ∧
    DistinctOn (planOf e st aN bN rs).2
      (mkeysOf (planOf e st aN bN rs).1 (e.aLines aN) (e.bLines bN) (planOf e st aN bN rs).2) cellNew ∧
    (∃ k a b, k < (planOf e st aN bN rs).2.length ∧ (planOf e st aN bN rs).2.getD k default = .keep a b) := by
  unfold planCheck at h
  unfold planOf
  simp only [] at h
  generalize cellsPhase e (e.aLines aN) (e.bLines bN) rs (earlyFind e (e.bLines bN) rs st) [] = q at h
  obtain ⟨st1, cells⟩ := q
  simp only at h ⊢
  split at h
  · exact absurd h (by decide)
  · rename_i hk
    split at h
    · exact absurd h (by decide)
    · rename_i hd
      simp only [Bool.not_eq_true', Bool.and_eq_false_iff, not_or, Bool.not_eq_false] at hd hk
      refine ⟨distinctOnB_sound hd.1, distinctOnB_sound hd.2, ?_⟩
      obtain ⟨c, hc, hck⟩ := List.any_eq_true.mp hk
      obtain ⟨k, hk', hkc⟩ := List.getElem_of_mem hc
      cases c with
      | keep a b =>
        exact ⟨k, a, b, hk', by rw [List.getD_eq_getElem?_getD, List.getElem?_eq_getElem hk', hkc]; rfl⟩
      | ins _ => simp [cellKeep] at hck
      | del _ => simp [cellKeep] at hck

/-- `acl_pair_converges` with the decidable hypothesis that the model counts on every run (`hyp:ok`). -/
theorem acl_pair_converges_checked (e : Env) (hw : WF e) (hA : RefsClosedA e) (hB : RefsClosedB e) (st : St) (d : Dev)
    (h : Sem e st d) (aN bN : Name) (rs : List Range)
    (hal : linesOf d aN = (e.aLines aN).map resolveA)
    (hscript : scriptOK ((e.aLines aN).map (·.body)) ((e.bLines bN).map (·.body)) rs 0 0 = true)
    (hcheck : planCheck e st aN bN rs = "hyp:ok")
    (hlenA : RefsMatchBody (e.aLines aN)) (hlenB : RefsMatchBody (e.bLines bN)) :
    ∃ d', LStep e st d (diffASAACLs e st aN bN rs) d' aN ∧
      (linesOf d' aN).length = (e.bLines bN).length ∧
      ∀ p ∈ (linesOf d' aN).zip (e.bLines bN), LineOK e (diffASAACLs e st aN bN rs) d' p.1 p.2 := by
  obtain ⟨h1, h2, h3⟩ := planCheck_ok e st aN bN rs hcheck
  exact acl_pair_converges e hw hA hB st d h aN bN rs hal hscript h1 h2 h3 hlenA hlenB

/-! ## Decidable forms of the static hypotheses -/

theorem lookupD_nodup (m : List (Name × List String)) (h : m.all (fun p => decide p.2.Nodup) = true) (g : Name) :
    (lookupD m g).Nodup := by
  unfold lookupD
  cases hl : m.lookup g with
  | none => simp [default]
  | some v =>
    have hm := mem_of_lookup hl
    rw [List.all_eq_true] at h
    simpa using h _ hm

theorem WF.of_check {e : Env} (h : wfB e = true) : WF e := by
  unfold wfB at h
  simp only [Bool.and_eq_true] at h
  obtain ⟨⟨⟨h1, h2⟩, h3⟩, h4⟩ := h
  refine ⟨lookupD_nodup _ h1, lookupD_nodup _ h2, by simpa using h3, ?_⟩
  intro aN bN ha hb hsmall
  rw [List.all_eq_true] at h4
  have h5 := h4 aN ha
  rw [List.all_eq_true] at h5
  have h6 := h5 bN hb
  simp only [Bool.or_eq_true, Bool.not_eq_true', decide_eq_false_iff_not, Bool.and_eq_true] at h6
  rcases h6 with h6 | h6
  · exact absurd hsmall h6
  · refine ⟨h6.1, ?_⟩
    intro m hm
    have := List.all_eq_true.mp h6.2 m hm
    simpa using this

theorem RefsClosedB.of_check {e : Env} (h : refsClosedB e = true) : RefsClosedB e := by
  intro n l hl g hg
  unfold Env.bLines lookupD at hl
  cases hlk : e.b.acls.lookup n with
  | none => rw [hlk] at hl; simp [default] at hl
  | some ls =>
    rw [hlk] at hl
    simp only [Option.getD_some] at hl
    have hm := mem_of_lookup hlk
    unfold refsClosedB at h
    rw [List.all_eq_true] at h
    have h1 := h _ hm
    rw [List.all_eq_true] at h1
    have h2 := h1 l hl
    rw [List.all_eq_true] at h2
    simpa using h2 g hg

end NA.F1
