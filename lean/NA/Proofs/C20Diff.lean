import NA.Proofs.C20
import NA.Core.Cells
/-!
C20 — index arithmetic of the diff engines (cisco `diffACLs`/`diffIOSACLs`/object-group members,
nsx and panos `rulesPair`): every `r.LowA/HighA/LowB/HighB` of an edit script that is used as a
slice bound or index lies inside the two diffed lists.  Script validity is taken as
`NA.Acl.cellsFrom`/`cellsOf` (NA/Core/Cells.lean) state it; that the third-party `myers.Diff`
returns a valid script with non-empty ranges is its contract (trusted base, DESIGN.md section 4).
Second part: the `s.Changes` bookkeeping of the two `moveACL` closures and of the IOS resequence
command.
-/
namespace NA.C20.Diff
open NA.C20 NA.C20.Res NA.Acl

/-- every range of the script lies inside the two lists and is ordered. -/
def RangesOK (na nb : Nat) (rs : List Range) : Prop :=
  ∀ r ∈ rs, r.lowA ≤ r.highA ∧ r.highA ≤ na ∧ r.lowB ≤ r.highB ∧ r.highB ≤ nb

theorem cellsFrom_rangesOK (a b : List Line) : ∀ (rs : List Range) (ia ib : Nat) (M : List Cell),
    cellsFrom a b rs ia ib = some M → RangesOK a.length b.length rs
  | [], _, _, _, _ => by intro r hr; cases hr
  | r :: rs, ia, ib, M, h => by
    unfold cellsFrom at h
    split at h
    · cases h
    · rename_i hb
      simp only [Bool.or_eq_true, bne_iff_ne, ne_eq, decide_eq_true_eq, not_or, Decidable.not_not,
        Nat.not_lt] at hb
      obtain ⟨⟨⟨⟨⟨h1, h2⟩, h3⟩, h4⟩, h5⟩, h6⟩ := hb
      have rest : ∃ M', cellsFrom a b rs r.highA r.highB = some M' := by
        split at h
        · cases hc : cellsFrom a b rs r.highA r.highB with
          | none => simp [hc] at h
          | some M' => exact ⟨M', rfl⟩
        · split at h
          · cases hc : cellsFrom a b rs r.highA r.highB with
            | none => simp [hc] at h
            | some M' => exact ⟨M', rfl⟩
          · split at h
            · cases hc : cellsFrom a b rs r.highA r.highB with
              | none => simp [hc] at h
              | some M' => exact ⟨M', rfl⟩
            · cases h
      obtain ⟨M', hM'⟩ := rest
      have ih := cellsFrom_rangesOK a b rs r.highA r.highB M' hM'
      intro x hx
      rcases List.mem_cons.mp hx with hx | hx
      · subst hx
        exact ⟨by omega, by omega, by omega, by omega⟩
      · exact ih x hx

theorem cellsOf_rangesOK (a b : List Line) (rs : List Range) (M : List Cell)
    (h : cellsOf a b rs = some M) : RangesOK a.length b.length rs := by
  unfold cellsOf at h
  split at h
  · rename_i d i
    split at h
    · rename_i hc
      simp only [Bool.and_eq_true, beq_iff_eq] at hc
      obtain ⟨⟨⟨hd, hi⟩, _⟩, _⟩ := hc
      intro r hr
      simp at hr
      rcases hr with hr | hr
      · subst hr; subst hd; simp
      · subst hr; subst hi; simp
    · exact cellsFrom_rangesOK a b _ 0 0 M h
  · exact cellsFrom_rangesOK a b _ 0 0 M h

/-! ### Go slice and index expressions over a list of length `n` -/

/-- `l[lo:hi]` -/
def goSlice {α : Type} (site : String) (l : List α) (lo hi : Nat) : Res (List α) :=
  if lo ≤ hi ∧ hi ≤ l.length then .ok ((l.drop lo).take (hi - lo)) else .panic (.slice site)

/-- `l[lo:]` -/
def goSliceFrom {α : Type} (site : String) (l : List α) (lo : Nat) : Res (List α) :=
  if lo ≤ l.length then .ok (l.drop lo) else .panic (.slice site)

/-- `l[i]` -/
def goIndex {α : Type} (site : String) (l : List α) (i : Nat) : Res α :=
  match l[i]? with
  | some x => .ok x
  | none => .panic (.index site)

theorem goIndex_noPanic {α : Type} (site : String) (l : List α) (i : Nat) (h : i < l.length) :
    NoPanic (goIndex site l i) := by
  unfold goIndex
  rw [List.getElem?_eq_getElem h]
  exact noPanic_ok _

/-- `al[r.LowA:r.HighA]` (8 sites in cisco, also nsx `a.rules`, panos `a.rules`, `la`). -/
theorem sliceA_noPanic {α : Type} {na nb : Nat} {rs : List Range} (h : RangesOK na nb rs) (l : List α)
    (hl : l.length = na) (r : Range) (hr : r ∈ rs) (site : String) :
    NoPanic (goSlice site l r.lowA r.highA) := by
  obtain ⟨h1, h2, _, _⟩ := h r hr
  unfold goSlice
  rw [if_pos ⟨h1, by omega⟩]
  exact noPanic_ok _

/-- `bl[r.LowB:r.HighB]` (11 sites in cisco, also nsx `b.rules`, panos `b.rules`, `lb`). -/
theorem sliceB_noPanic {α : Type} {na nb : Nat} {rs : List Range} (h : RangesOK na nb rs) (l : List α)
    (hl : l.length = nb) (r : Range) (hr : r ∈ rs) (site : String) :
    NoPanic (goSlice site l r.lowB r.highB) := by
  obtain ⟨_, _, h3, h4⟩ := h r hr
  unfold goSlice
  rw [if_pos ⟨h3, by omega⟩]
  exact noPanic_ok _

/-- `idx2Block[r.LowA:]` where `idx2Block` has one entry per line of `al`. -/
theorem sliceFromA_noPanic {α : Type} {na nb : Nat} {rs : List Range} (h : RangesOK na nb rs) (l : List α)
    (hl : l.length = na) (r : Range) (hr : r ∈ rs) (site : String) :
    NoPanic (goSliceFrom site l r.lowA) := by
  obtain ⟨h1, h2, _, _⟩ := h r hr
  unfold goSliceFrom
  rw [if_pos (by omega)]
  exact noPanic_ok _

/-- `idx2Block[r.LowA+i]` for `i` ranging over `idx2Block[r.LowA:]`. -/
theorem indexFromA_noPanic {α : Type} (l : List α) (lo i : Nat) (hi : i < (l.drop lo).length) (site : String) :
    NoPanic (goIndex site l (lo + i)) := by
  apply goIndex_noPanic
  simp at hi
  omega

/-- `bl[r.LowB]` in an insert range: the range is not empty (contract of `myers.Diff`: no empty range). -/
theorem indexLowB_noPanic {α : Type} {na nb : Nat} {rs : List Range} (h : RangesOK na nb rs) (l : List α)
    (hl : l.length = nb) (r : Range) (hr : r ∈ rs) (hne : r.lowA < r.highA ∨ r.lowB < r.highB)
    (hins : r.isInsert = true) (site : String) : NoPanic (goIndex site l r.lowB) := by
  obtain ⟨_, _, h3, h4⟩ := h r hr
  apply goIndex_noPanic
  unfold Range.isInsert at hins
  simp at hins
  omega

/-- `bRules[i+offset]`, `lb[i+offset]` with `offset := r.LowB - r.LowA`, `r.LowA ≤ i < r.HighA`, in a range
that is neither insert nor delete and whose two sides have the same length (`isEqual`; the script is
valid, so every other range is an equal one).  Go computes `i + (LowB - LowA)` in `int`; for
`LowA ≤ i` that is the natural number `i - LowA + LowB`. -/
theorem indexEqualB_noPanic {α : Type} {na nb : Nat} {rs : List Range} (h : RangesOK na nb rs) (l : List α)
    (hl : l.length = nb) (r : Range) (hr : r ∈ rs) (heq : r.isEqual = true)
    (i : Nat) (h1 : r.lowA ≤ i) (h2 : i < r.highA) (site : String) :
    NoPanic (goIndex site l (i - r.lowA + r.lowB)) := by
  obtain ⟨_, _, h3, h4⟩ := h r hr
  apply goIndex_noPanic
  unfold Range.isEqual at heq
  simp at heq
  omega

/-- nsx: `b.rules[r.LowB+i]` for `i` ranging over `a.rules[r.LowA:r.HighA]` in an equal range. -/
theorem indexEqualB_off_noPanic {α : Type} {na nb : Nat} {rs : List Range} (h : RangesOK na nb rs) (l : List α)
    (hl : l.length = nb) (r : Range) (hr : r ∈ rs) (heq : r.isEqual = true)
    (i : Nat) (h2 : i < r.highA - r.lowA) (site : String) :
    NoPanic (goIndex site l (r.lowB + i)) := by
  obtain ⟨_, _, h3, h4⟩ := h r hr
  apply goIndex_noPanic
  unfold Range.isEqual at heq
  simp at heq
  omega

/-- `aRules[i]` for `r.LowA ≤ i < r.HighA`. -/
theorem indexInA_noPanic {α : Type} {na nb : Nat} {rs : List Range} (h : RangesOK na nb rs) (l : List α)
    (hl : l.length = na) (r : Range) (hr : r ∈ rs) (i : Nat) (h2 : i < r.highA) (site : String) :
    NoPanic (goIndex site l i) := by
  obtain ⟨_, h2', _, _⟩ := h r hr
  apply goIndex_noPanic
  omega

/-- panos: `aPos := max(r.LowA, delIdx); if aPos < len(aRules) { aRules[aPos] }`. -/
def panosMoveTo {α : Type} (l : List α) (lowA delIdx : Nat) : Res (Option α) :=
  let aPos := max lowA delIdx
  if aPos < l.length then (goIndex "panos.aRules[aPos]" l aPos).bind (fun x => .ok (some x)) else .ok none

theorem panosMoveTo_noPanic {α : Type} (l : List α) (lowA delIdx : Nat) : NoPanic (panosMoveTo l lowA delIdx) := by
  unfold panosMoveTo
  simp only
  split
  · rename_i h
    exact NoPanic.bind (goIndex_noPanic _ l _ h) (fun _ => noPanic_ok _)
  · exact noPanic_ok _

/-- the whole walk over a valid script: every A- and B-slice of every range is in bounds. -/
theorem script_slices_noPanic (a b : List Line) (rs : List Range) (M : List Cell) (h : cellsOf a b rs = some M)
    {α β : Type} (la : List α) (lb : List β) (hla : la.length = a.length) (hlb : lb.length = b.length) :
    ∀ r ∈ rs, NoPanic (goSlice "a[LowA:HighA]" la r.lowA r.highA) ∧ NoPanic (goSlice "b[LowB:HighB]" lb r.lowB r.highB) :=
  fun r hr => ⟨sliceA_noPanic (cellsOf_rangesOK a b rs M h) la hla r hr _,
    sliceB_noPanic (cellsOf_rangesOK a b rs M h) lb hlb r hr _⟩

/-! ### `s.Changes` bookkeeping -/

/-- cisco/diff.go `moveACL` of `diffIOSACLs`: `delACL(a)` and `addACL(b, …)` append `d` resp. `ad` to
`s.Changes` (`delCmds`/`addCmds` of a one-element list call `addChange` at least once: hypotheses
`d ≠ []`, `ad ≠ []`), then
`delIdx := len-1` (after the delete), `top := len-1`, `del := Changes[delIdx]`, `add := Changes[top]`,
`Changes = Changes[:top]`, `Changes[top-1] = del+"\n"+add`. -/
def moveIOS (ch d ad : List Str) : Res (List Str) :=
  let c1 := ch ++ d
  if c1.length = 0 then .panic (.index "Changes[delIdx]") else
  let delIdx := c1.length - 1
  let c2 := c1 ++ ad
  let top := c2.length - 1
  (goIndex "Changes[delIdx]" c2 delIdx).bind fun del =>
  (goIndex "Changes[top]" c2 top).bind fun add =>
  (goSlice "Changes[:top]" c2 0 top).bind fun c3 =>
  if top = 0 then .panic (.index "Changes[top-1]") else
  (goIndex "Changes[top-1]" c3 (top - 1)).bind fun _ =>
  .ok (c3.set (top - 1) (del ++ lit "\n" ++ add))

theorem moveIOS_noPanic (ch d ad : List Str) (hd : d ≠ []) (ha : ad ≠ []) : NoPanic (moveIOS ch d ad) := by
  have hdl : 0 < d.length := List.length_pos_iff.mpr hd
  have hal : 0 < ad.length := List.length_pos_iff.mpr ha
  unfold moveIOS
  simp only
  rw [if_neg (by simp; intro _; exact hd)]
  refine NoPanic.bind' ?_ ?_
  · exact goIndex_noPanic _ _ _ (by simp; omega)
  intro del _
  refine NoPanic.bind' ?_ ?_
  · exact goIndex_noPanic _ _ _ (by simp; omega)
  intro add _
  refine NoPanic.bind' ?_ ?_
  · unfold goSlice; rw [if_pos (by simp)]; exact noPanic_ok _
  intro c3 hc3
  have hlen : c3.length = (ch ++ d ++ ad).length - 1 := by
    unfold goSlice at hc3
    split at hc3
    · cases hc3; simp
    · cases hc3
  rw [if_neg (by simp; omega)]
  refine NoPanic.bind' ?_ ?_
  · exact goIndex_noPanic _ _ _ (by rw [hlen]; simp; omega)
  intro _ _
  exact noPanic_ok _

/-- cisco/diff.go `moveACL` of `diffASAACLs`: as above with `copy(Changes[i:], Changes[i+1:])` in between. -/
def moveASA (ch d ad : List Str) : Res (List Str) :=
  let c1 := ch ++ d
  if c1.length = 0 then .panic (.index "Changes[i]") else
  let i := c1.length - 1
  let c2 := c1 ++ ad
  let top := c2.length - 1
  (goIndex "Changes[i]" c2 i).bind fun del =>
  (goIndex "Changes[top]" c2 top).bind fun add =>
  (goSliceFrom "Changes[i:]" c2 i).bind fun _ =>
  (goSliceFrom "Changes[i+1:]" c2 (i + 1)).bind fun tail =>
  let c2' := c2.take i ++ tail ++ (c2.drop (i + tail.length))
  (goSlice "Changes[:top]" c2' 0 top).bind fun c3 =>
  if top = 0 then .panic (.index "Changes[top-1]") else
  (goIndex "Changes[top-1]" c3 (top - 1)).bind fun _ =>
  .ok (c3.set (top - 1) (del ++ lit "\n" ++ add))

theorem moveASA_noPanic (ch d ad : List Str) (hd : d ≠ []) (ha : ad ≠ []) : NoPanic (moveASA ch d ad) := by
  have hdl : 0 < d.length := List.length_pos_iff.mpr hd
  have hal : 0 < ad.length := List.length_pos_iff.mpr ha
  unfold moveASA
  simp only
  rw [if_neg (by simp; intro _; exact hd)]
  refine NoPanic.bind' ?_ ?_
  · exact goIndex_noPanic _ _ _ (by simp; omega)
  intro del _
  refine NoPanic.bind' ?_ ?_
  · exact goIndex_noPanic _ _ _ (by simp; omega)
  intro add _
  refine NoPanic.bind' ?_ ?_
  · unfold goSliceFrom; rw [if_pos (by simp; omega)]; exact noPanic_ok _
  intro _ _
  refine NoPanic.bind' ?_ ?_
  · unfold goSliceFrom; rw [if_pos (by simp; omega)]; exact noPanic_ok _
  intro tail htail
  have htl : tail.length = (ch ++ d ++ ad).length - ((ch ++ d).length - 1 + 1) := by
    unfold goSliceFrom at htail
    split at htail
    · cases htail; simp
    · cases htail
  refine NoPanic.bind' ?_ ?_
  · unfold goSlice; rw [if_pos (by simp [htl]; omega)]; exact noPanic_ok _
  intro c3 hc3
  have hlen : c3.length = (ch ++ d ++ ad).length - 1 := by
    unfold goSlice at hc3
    split at hc3
    · cases hc3; simp [htl]; omega
    · cases hc3
  rw [if_neg (by simp; omega)]
  refine NoPanic.bind' ?_ ?_
  · exact goIndex_noPanic _ _ _ (by rw [hlen]; simp; omega)
  intro _ _
  exact noPanic_ok _

/-- `diffIOSACLs`: `s.addToplevel(resequence)`; `chgLen := len(s.Changes)`; … ;
`if len(s.Changes) == chgLen { s.Changes = s.Changes[:chgLen-1] }`. -/
def dropResequence (ch : List Str) (cmd : Str) (later : List Str) : Res (List Str) :=
  let c1 := ch ++ [cmd]
  let chgLen := c1.length
  let c2 := c1 ++ later
  if c2.length = chgLen then
    if chgLen = 0 then .panic (.slice "Changes[:chgLen-1]") else goSlice "Changes[:chgLen-1]" c2 0 (chgLen - 1)
  else .ok c2

theorem dropResequence_noPanic (ch : List Str) (cmd : Str) (later : List Str) :
    NoPanic (dropResequence ch cmd later) := by
  unfold dropResequence
  simp only
  split
  · rw [if_neg (by simp)]
    unfold goSlice
    rw [if_pos (by simp)]
    exact noPanic_ok _
  · exact noPanic_ok _

end NA.C20.Diff
