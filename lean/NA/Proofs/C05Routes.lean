import NA.Model.Linux
import NA.Spec.Linux
/-!
C05, routes: the script of `diffRoutes` on the strict kernel route table.
Loop invariant `St`: the device table is the disjoint union of `am` (the not yet handled keys of
the device, Go: `aMap`) and `P` (the already handled keys of the target).
-/
namespace NA.C05
open NA.Linux NA.Linux.Spec

/-- The commands of one script line (one packet). -/
def cmdsOf : RLine → List RCmd
  | .add r => [.add r.key]
  | .repl o n => [.del o.key, .add n.key]
  | .del r => [.del r.key]

def keys (l : List Route) : List Spec.RKey := l.map Route.key

/-- At most one next hop per destination in a parsed route list. -/
def OneHop (l : List Route) : Prop := ∀ r1 ∈ l, ∀ r2 ∈ l, r1.dst = r2.dst → r1.key = r2.key

theorem dstOf_key (r : Route) : dstOf r.key = r.dst := rfl

structure St (a b : List Route) (T : RTable) (am P : List Spec.RKey) : Prop where
  mem : ∀ k, k ∈ T ↔ k ∈ am ∨ k ∈ P
  disj : ∀ k, k ∈ am → k ∉ P
  sub : ∀ k, k ∈ am → k ∈ keys a
  nodup : T.Nodup
  psub : ∀ k, k ∈ P → k ∈ keys b
  cov : ∀ ka, ka ∈ keys a →
    ka ∈ am ∨ (∃ k, k ∈ P ∧ dstOf k = dstOf ka) ∨ (∀ kb, kb ∈ keys b → kb ∈ P)
  cross : OneHop a → ∀ k ∈ am, ∀ k' ∈ P, dstOf k ≠ dstOf k'

theorem lastWithDst_some {a : List Route} {d : RDst} {r : Route} (h : lastWithDst a d = some r) :
    r ∈ a ∧ r.dst = d := by
  unfold lastWithDst at h
  have h1 := List.mem_of_find?_eq_some h
  have h2 := List.find?_some h
  exact ⟨by simpa using h1, by simpa using h2⟩

theorem lastWithDst_none {a : List Route} {d : RDst} (h : lastWithDst a d = none) :
    ∀ r ∈ a, r.dst ≠ d := by
  unfold lastWithDst at h
  intro r hr
  have := List.find?_eq_none.mp h r (by simpa using hr)
  simpa using this

theorem mem_filter_ne {k k0 : Spec.RKey} {l : List Spec.RKey} :
    k ∈ l.filter (· ≠ k0) ↔ k ∈ l ∧ k ≠ k0 := by
  simp [List.mem_filter]

theorem getLastD_cons {α : Type} (x d : α) (l : List α) : (x :: l).getLastD d = l.getLastD x := by
  cases l <;> simp [List.getLastD]

theorem getLastD_append {α : Type} (l1 l2 : List α) (d : α) :
    (l1 ++ l2).getLastD d = l2.getLastD (l1.getLastD d) := by
  induction l1 generalizing d with
  | nil => simp [List.getLastD]
  | cons x xs ih => rw [List.cons_append, getLastD_cons, ih, getLastD_cons]

/-- The trace of a script. -/
theorem execTrace_append (T : RTable) (l1 l2 : List (List RCmd)) (tr1 : List RTable)
    (h1 : execTrace T l1 = some tr1) :
    execTrace T (l1 ++ l2) = (execTrace (tr1.getLastD T) l2).map (tr1 ++ ·) := by
  induction l1 generalizing T tr1 with
  | nil =>
    simp [execTrace] at h1; subst h1
    cases h : execTrace T l2 <;> simp [h]
  | cons l ls ih =>
    simp only [execTrace, List.cons_append] at h1 ⊢
    cases hl : execLine T l with
    | none => simp [hl] at h1
    | some T1 =>
      simp only [hl] at h1 ⊢
      cases hr : execTrace T1 ls with
      | none => simp [hr] at h1
      | some tr =>
        simp [hr] at h1; subst h1
        rw [ih T1 tr hr]
        have : (T1 :: tr).getLastD T = tr.getLastD T1 := by
          cases tr <;> simp [List.getLastD]
        rw [this]
        cases execTrace (tr.getLastD T1) l2 <;> simp

theorem execScript_of_trace (T : RTable) (l : List (List RCmd)) (tr : List RTable)
    (h : execTrace T l = some tr) : execScript T l = some (tr.getLastD T) := by
  induction l generalizing T tr with
  | nil => simp [execTrace] at h; subst h; simp [execScript, List.getLastD]
  | cons c cs ih =>
    simp only [execTrace] at h
    simp only [execScript]
    cases hl : execLine T c with
    | none => simp [hl] at h
    | some T1 =>
      simp only [hl] at h ⊢
      cases hr : execTrace T1 cs with
      | none => simp [hr] at h
      | some tr' =>
        simp [hr] at h; subst h
        rw [ih T1 tr' hr]
        cases tr' <;> simp [List.getLastD]

theorem exec_repl (T : RTable) (k2 k : Spec.RKey) (h2 : k2 ∈ T) (h : k ∉ T.filter (· ≠ k2)) :
    execLine T [.del k2, .add k] = some (T.filter (· ≠ k2) ++ [k]) := by
  simp only [execLine, stepCmd, if_pos h2, if_neg h]

theorem loop_repl {a : List Route} {r r2 : Route} {rest : List Route} {am : List Spec.RKey}
    (hmem : r.key ∉ am) (hl : lastWithDst a r.dst = some r2) (h2m : r2.key ∈ am) :
    diffRoutesLoop a (r :: rest) am =
      (.repl r2 r :: (diffRoutesLoop a rest (am.filter (· ≠ r2.key))).1,
       (diffRoutesLoop a rest (am.filter (· ≠ r2.key))).2) := by
  simp only [diffRoutesLoop, if_neg hmem, hl, if_pos h2m]

/-- One step of the loop over the target's routes. -/
theorem loop_ok (a b : List Route) : ∀ (rest : List Route) (T : RTable) (am P : List Spec.RKey),
    St a b T am P → (∀ r ∈ rest, r ∈ b) → (keys rest).Nodup → (∀ r ∈ rest, r.key ∉ P) →
    ∃ tr, execTrace T ((diffRoutesLoop a rest am).1.map cmdsOf) = some tr ∧
      St a b (tr.getLastD T) (diffRoutesLoop a rest am).2 (P ++ keys rest) ∧
      ∀ t ∈ tr, ∃ am' P', St a b t am' P' := by
  intro rest
  induction rest with
  | nil =>
    intro T am P hst _ _ _
    exact ⟨[], by simp [diffRoutesLoop, execTrace], by simpa [diffRoutesLoop, keys, List.getLastD] using hst, by simp⟩
  | cons r rest ih =>
    intro T am P hst hb hnd hP
    have hrb : r ∈ b := hb r (by simp)
    have hrP : r.key ∉ P := hP r (by simp)
    have hnd' : (keys rest).Nodup := by
      simp [keys] at hnd ⊢; exact hnd.2
    have hrrest : r.key ∉ keys rest := by
      simp [keys] at hnd ⊢; exact hnd.1
    have hb' : ∀ r' ∈ rest, r' ∈ b := fun r' h => hb r' (by simp [h])
    have hkeys : P ++ keys (r :: rest) = (P ++ [r.key]) ++ keys rest := by simp [keys]
    by_cases hmem : r.key ∈ am
    · -- the route exists: nothing to do
      have hst' : St a b T (am.filter (· ≠ r.key)) (P ++ [r.key]) := by
        refine ⟨?_, ?_, ?_, hst.nodup, ?_, ?_, ?_⟩
        · intro k
          rw [hst.mem k, mem_filter_ne]
          by_cases hk : k = r.key
          · subst hk; simp [hmem]
          · simp [hk]
        · intro k hk
          rw [mem_filter_ne] at hk
          simp [hst.disj k hk.1, hk.2]
        · intro k hk; exact hst.sub k (mem_filter_ne.mp hk).1
        · intro k hk
          simp at hk
          rcases hk with hk | hk
          · exact hst.psub k hk
          · subst hk; exact List.mem_map_of_mem hrb
        · intro ka hka
          rcases hst.cov ka hka with h | ⟨k, hk, hd⟩ | h
          · by_cases hk : ka = r.key
            · right; left; exact ⟨r.key, by simp, by rw [hk]⟩
            · left; exact mem_filter_ne.mpr ⟨h, hk⟩
          · right; left; exact ⟨k, by simp [hk], hd⟩
          · right; right; intro kb hkb; simp [h kb hkb]
        · intro hone k hk k' hk'
          rw [mem_filter_ne] at hk
          simp at hk'
          rcases hk' with hk' | hk'
          · exact hst.cross hone k hk.1 k' hk'
          · subst hk'
            intro hd
            obtain ⟨ra, hra, hrak⟩ := List.mem_map.mp (hst.sub k hk.1)
            obtain ⟨rb, hrb', hrbk⟩ := List.mem_map.mp (hst.sub _ hmem)
            have : ra.key = rb.key := hone ra hra rb hrb' (by
              rw [← dstOf_key, ← dstOf_key, hrak, hrbk]; exact hd)
            exact hk.2 (by rw [← hrak, this, hrbk])
      have hP' : ∀ r' ∈ rest, r'.key ∉ P ++ [r.key] := by
        intro r' hr'
        simp only [List.mem_append, List.mem_singleton, not_or]
        refine ⟨hP r' (by simp [hr']), ?_⟩
        intro he
        exact hrrest (by rw [← he]; exact List.mem_map_of_mem hr')
      obtain ⟨tr, h1, h2, h3⟩ := ih T _ _ hst' hb' hnd' hP'
      refine ⟨tr, ?_, ?_, h3⟩
      · simpa [diffRoutesLoop, hmem] using h1
      · simpa [diffRoutesLoop, hmem, hkeys] using h2
    · -- the route is new
      have hrT : r.key ∉ T := by
        rw [hst.mem]; simp [hmem, hrP]
      -- which line is emitted, and the table after it
      cases hl : lastWithDst a r.dst with
      | none =>
        have hnone := lastWithDst_none hl
        have hst' : St a b (T ++ [r.key]) am (P ++ [r.key]) := by
          refine ⟨?_, ?_, hst.sub, ?_, ?_, ?_, ?_⟩
          · intro k; simp [hst.mem k, or_assoc]
          · intro k hk
            simp only [List.mem_append, List.mem_singleton, not_or]
            exact ⟨hst.disj k hk, fun he => hmem (he ▸ hk)⟩
          · exact List.nodup_append.mpr ⟨hst.nodup, by simp, by
              intro x hx y hy; simp at hy; subst hy; intro he; exact hrT (he ▸ hx)⟩
          · intro k hk
            simp at hk
            rcases hk with hk | hk
            · exact hst.psub k hk
            · subst hk; exact List.mem_map_of_mem hrb
          · intro ka hka
            rcases hst.cov ka hka with h | ⟨k, hk, hd⟩ | h
            · left; exact h
            · right; left; exact ⟨k, by simp [hk], hd⟩
            · right; right; intro kb hkb; simp [h kb hkb]
          · intro hone k hk k' hk'
            simp at hk'
            rcases hk' with hk' | hk'
            · exact hst.cross hone k hk k' hk'
            · subst hk'
              intro hd
              obtain ⟨ra, hra, hrak⟩ := List.mem_map.mp (hst.sub k hk)
              exact hnone ra hra (by rw [← dstOf_key, hrak, hd, dstOf_key])
        have hP' : ∀ r' ∈ rest, r'.key ∉ P ++ [r.key] := by
          intro r' hr'
          simp only [List.mem_append, List.mem_singleton, not_or]
          refine ⟨hP r' (by simp [hr']), ?_⟩
          intro he
          exact hrrest (by rw [← he]; exact List.mem_map_of_mem hr')
        obtain ⟨tr, h1, h2, h3⟩ := ih _ _ _ hst' hb' hnd' hP'
        refine ⟨(T ++ [r.key]) :: tr, ?_, ?_, ?_⟩
        · simp [diffRoutesLoop, hmem, hl, cmdsOf, execTrace, execLine, stepCmd, hrT, h1]
        · have : ((T ++ [r.key]) :: tr).getLastD T = tr.getLastD (T ++ [r.key]) := by
            cases tr <;> simp [List.getLastD]
          rw [this]
          simpa [diffRoutesLoop, hmem, hl, hkeys] using h2
        · intro t ht
          simp at ht
          rcases ht with ht | ht
          · subst ht; exact ⟨_, _, hst'⟩
          · exact h3 t ht
      | some r2 =>
        obtain ⟨hr2a, hr2d⟩ := lastWithDst_some hl
        by_cases h2m : r2.key ∈ am
        · -- delete the old route to the destination and add the new one in one packet
          have h2T : r2.key ∈ T := by rw [hst.mem]; left; exact h2m
          have hne : r.key ≠ r2.key := fun he => hmem (he ▸ h2m)
          have hrT1 : r.key ∉ T.filter (· ≠ r2.key) := fun h => hrT (mem_filter_ne.mp h).1
          have hst' : St a b (T.filter (· ≠ r2.key) ++ [r.key]) (am.filter (· ≠ r2.key)) (P ++ [r.key]) := by
            refine ⟨?_, ?_, ?_, ?_, ?_, ?_, ?_⟩
            · intro k
              simp only [List.mem_append, List.mem_singleton, mem_filter_ne, hst.mem k]
              constructor
              · rintro (⟨h | h, hk⟩ | h)
                · left; exact ⟨h, hk⟩
                · right; left; exact h
                · right; right; exact h
              · rintro (⟨h, hk⟩ | h | h)
                · left; exact ⟨Or.inl h, hk⟩
                · left; exact ⟨Or.inr h, fun he => hst.disj _ h2m (he ▸ h)⟩
                · right; exact h
            · intro k hk
              rw [mem_filter_ne] at hk
              simp only [List.mem_append, List.mem_singleton, not_or]
              exact ⟨hst.disj k hk.1, fun he => hmem (he ▸ hk.1)⟩
            · intro k hk; exact hst.sub k (mem_filter_ne.mp hk).1
            · exact List.nodup_append.mpr ⟨hst.nodup.filter _, by simp, by
                intro x hx y hy; simp at hy; subst hy; intro he; exact hrT1 (he ▸ hx)⟩
            · intro k hk
              simp at hk
              rcases hk with hk | hk
              · exact hst.psub k hk
              · subst hk; exact List.mem_map_of_mem hrb
            · intro ka hka
              rcases hst.cov ka hka with h | ⟨k, hk, hd⟩ | h
              · by_cases hk : ka = r2.key
                · right; left
                  exact ⟨r.key, by simp, by rw [hk, dstOf_key, dstOf_key, hr2d]⟩
                · left; exact mem_filter_ne.mpr ⟨h, hk⟩
              · right; left; exact ⟨k, by simp [hk], hd⟩
              · right; right; intro kb hkb; simp [h kb hkb]
            · intro hone k hk k' hk'
              rw [mem_filter_ne] at hk
              simp at hk'
              rcases hk' with hk' | hk'
              · exact hst.cross hone k hk.1 k' hk'
              · subst hk'
                intro hd
                obtain ⟨ra, hra, hrak⟩ := List.mem_map.mp (hst.sub k hk.1)
                have : ra.key = r2.key := hone ra hra r2 hr2a (by
                  rw [hr2d, ← dstOf_key, hrak, hd, dstOf_key])
                exact hk.2 (by rw [← hrak, this])
          have hP' : ∀ r' ∈ rest, r'.key ∉ P ++ [r.key] := by
            intro r' hr'
            simp only [List.mem_append, List.mem_singleton, not_or]
            refine ⟨hP r' (by simp [hr']), ?_⟩
            intro he
            exact hrrest (by rw [← he]; exact List.mem_map_of_mem hr')
          obtain ⟨tr, h1, h2, h3⟩ := ih _ _ _ hst' hb' hnd' hP'
          refine ⟨(T.filter (· ≠ r2.key) ++ [r.key]) :: tr, ?_, ?_, ?_⟩
          · rw [loop_repl hmem hl h2m]
            simp only [List.map_cons, cmdsOf, execTrace, exec_repl T _ _ h2T hrT1, h1, Option.map_some]
          · have : ((T.filter (· ≠ r2.key) ++ [r.key]) :: tr).getLastD T =
                tr.getLastD (T.filter (· ≠ r2.key) ++ [r.key]) := getLastD_cons _ _ _
            rw [this, loop_repl hmem hl h2m, hkeys]
            exact h2
          · intro t ht
            rcases List.mem_cons.mp ht with ht | ht
            · subst ht; exact ⟨_, _, hst'⟩
            · exact h3 t ht
        · -- the old route to that destination is kept by another target route or already replaced
          have hst' : St a b (T ++ [r.key]) am (P ++ [r.key]) := by
            refine ⟨?_, ?_, hst.sub, ?_, ?_, ?_, ?_⟩
            · intro k; simp [hst.mem k, or_assoc]
            · intro k hk
              simp only [List.mem_append, List.mem_singleton, not_or]
              exact ⟨hst.disj k hk, fun he => hmem (he ▸ hk)⟩
            · exact List.nodup_append.mpr ⟨hst.nodup, by simp, by
                intro x hx y hy; simp at hy; subst hy; intro he; exact hrT (he ▸ hx)⟩
            · intro k hk
              simp at hk
              rcases hk with hk | hk
              · exact hst.psub k hk
              · subst hk; exact List.mem_map_of_mem hrb
            · intro ka hka
              rcases hst.cov ka hka with h | ⟨k, hk, hd⟩ | h
              · left; exact h
              · right; left; exact ⟨k, by simp [hk], hd⟩
              · right; right; intro kb hkb; simp [h kb hkb]
            · intro hone k hk k' hk'
              simp at hk'
              rcases hk' with hk' | hk'
              · exact hst.cross hone k hk k' hk'
              · subst hk'
                intro hd
                obtain ⟨ra, hra, hrak⟩ := List.mem_map.mp (hst.sub k hk)
                have : ra.key = r2.key := hone ra hra r2 hr2a (by
                  rw [hr2d, ← dstOf_key, hrak, hd, dstOf_key])
                exact h2m (by rw [← this, hrak]; exact hk)
          have hP' : ∀ r' ∈ rest, r'.key ∉ P ++ [r.key] := by
            intro r' hr'
            simp only [List.mem_append, List.mem_singleton, not_or]
            refine ⟨hP r' (by simp [hr']), ?_⟩
            intro he
            exact hrrest (by rw [← he]; exact List.mem_map_of_mem hr')
          obtain ⟨tr, h1, h2, h3⟩ := ih _ _ _ hst' hb' hnd' hP'
          refine ⟨(T ++ [r.key]) :: tr, ?_, ?_, ?_⟩
          · simp [diffRoutesLoop, hmem, hl, h2m, cmdsOf, execTrace, execLine, stepCmd, hrT, h1]
          · have : ((T ++ [r.key]) :: tr).getLastD T = tr.getLastD (T ++ [r.key]) := by
              cases tr <;> simp [List.getLastD]
            rw [this]
            simpa [diffRoutesLoop, hmem, hl, h2m, hkeys] using h2
          · intro t ht
            simp at ht
            rcases ht with ht | ht
            · subst ht; exact ⟨_, _, hst'⟩
            · exact h3 t ht

/-- The deletions after the loop. -/
theorem dels_ok (a b : List Route) : ∀ (l : List Route) (T : RTable) (am P : List Spec.RKey),
    St a b T am P → (∀ kb, kb ∈ keys b → kb ∈ P) → (keys l).Nodup → (∀ r ∈ l, r.key ∈ am) →
    ∃ tr am'', execTrace T ((l.map RLine.del).map cmdsOf) = some tr ∧
      St a b (tr.getLastD T) am'' P ∧ (∀ k, k ∈ am'' ↔ k ∈ am ∧ k ∉ keys l) ∧
      ∀ t ∈ tr, ∃ am' P', St a b t am' P' := by
  intro l
  induction l with
  | nil =>
    intro T am P hst _ _ _
    exact ⟨[], am, by simp [execTrace], by simpa [List.getLastD] using hst, by simp [keys], by simp⟩
  | cons r l ih =>
    intro T am P hst hall hnd ham
    have hr : r.key ∈ am := ham r (by simp)
    have hrT : r.key ∈ T := by rw [hst.mem]; left; exact hr
    have hnd' : (keys l).Nodup := by simp [keys] at hnd ⊢; exact hnd.2
    have hrl : r.key ∉ keys l := by simp [keys] at hnd ⊢; exact hnd.1
    have hst' : St a b (T.filter (· ≠ r.key)) (am.filter (· ≠ r.key)) P := by
      refine ⟨?_, ?_, ?_, hst.nodup.filter _, hst.psub, ?_, ?_⟩
      · intro k
        simp only [mem_filter_ne, hst.mem k]
        constructor
        · rintro ⟨h | h, hk⟩
          · left; exact ⟨h, hk⟩
          · right; exact h
        · rintro (⟨h, hk⟩ | h)
          · exact ⟨Or.inl h, hk⟩
          · exact ⟨Or.inr h, fun he => hst.disj _ hr (he ▸ h)⟩
      · intro k hk; exact hst.disj k (mem_filter_ne.mp hk).1
      · intro k hk; exact hst.sub k (mem_filter_ne.mp hk).1
      · intro ka _; right; right; exact hall
      · intro hone k hk k' hk'; exact hst.cross hone k (mem_filter_ne.mp hk).1 k' hk'
    have ham' : ∀ r' ∈ l, r'.key ∈ am.filter (· ≠ r.key) := by
      intro r' hr'
      refine mem_filter_ne.mpr ⟨ham r' (by simp [hr']), ?_⟩
      intro he
      exact hrl (by rw [← he]; exact List.mem_map_of_mem hr')
    obtain ⟨tr, am'', h1, h2, h3, h4⟩ := ih _ _ _ hst' hall hnd' ham'
    refine ⟨(T.filter (· ≠ r.key)) :: tr, am'', ?_, ?_, ?_, ?_⟩
    · simp only [List.map_cons, cmdsOf, execTrace, execLine, stepCmd, if_pos hrT, h1, Option.map_some]
    · rw [getLastD_cons]; exact h2
    · intro k
      rw [h3 k, mem_filter_ne]
      simp only [keys, List.map_cons, List.mem_cons, not_or]
      constructor
      · rintro ⟨⟨h, hk⟩, hl⟩; exact ⟨h, hk, hl⟩
      · rintro ⟨h, hk, hl⟩; exact ⟨⟨h, hk⟩, hl⟩
    · intro t ht
      rcases List.mem_cons.mp ht with ht | ht
      · subst ht; exact ⟨_, _, hst'⟩
      · exact h4 t ht

/-! ### the sort is a permutation -/

theorem insertSorted_perm {α : Type} (le : α → α → Bool) (x : α) (l : List α) :
    (insertSorted le x l).Perm (x :: l) := by
  induction l with
  | nil => simp [insertSorted]
  | cons y ys ih =>
    simp only [insertSorted]
    split
    · exact List.Perm.refl _
    · exact (List.Perm.cons y ih).trans (List.Perm.swap x y ys)

theorem isort_perm {α : Type} (le : α → α → Bool) (l : List α) : (isort le l).Perm l := by
  induction l with
  | nil => simp [isort]
  | cons x xs ih => exact (insertSorted_perm le x _).trans (List.Perm.cons x ih)

/-- The whole script of `diffRoutesCore` for any order `b'` of the target's routes. -/
theorem core_ok (a b b' : List Route) (ha : (keys a).Nodup) (hb : (keys b').Nodup)
    (hsub : ∀ r, r ∈ b' → r ∈ b) (hkb : ∀ k, k ∈ keys b' ↔ k ∈ keys b) :
    ∃ tr, execTrace (keys a) ((diffRoutesCore a b').map cmdsOf) = some tr ∧
      (tr.getLastD (keys a)).Nodup ∧ (∀ k, k ∈ tr.getLastD (keys a) ↔ k ∈ keys b) ∧
      ∀ t ∈ tr, ∃ am' P', St a b t am' P' := by
  have hst0 : St a b (keys a) (keys a) [] := by
    refine ⟨by simp, by simp, fun _ h => h, ha, by simp, fun ka h => Or.inl h, ?_⟩
    intro _ k _ k' hk'; simp at hk'
  obtain ⟨tr1, h1, hst1, ht1⟩ := loop_ok a b b' (keys a) (keys a) [] hst0
    (fun r hr => hsub r hr) hb (by simp)
  simp only [List.nil_append] at hst1
  have hall : ∀ kb, kb ∈ keys b → kb ∈ keys b' := fun kb h => (hkb kb).mpr h
  have hndl : (keys (a.filter (fun r => r.key ∈ (diffRoutesLoop a b' (keys a)).2))).Nodup := by
    exact ha.sublist (List.Sublist.map _ List.filter_sublist)
  obtain ⟨tr2, am'', h2, hst2, ham, ht2⟩ := dels_ok a b _ _ _ _ hst1 hall hndl
    (by intro r hr; simpa using (List.mem_filter.mp hr).2)
  have hempty : ∀ k, k ∉ am'' := by
    intro k hk
    obtain ⟨hk1, hk2⟩ := (ham k).mp hk
    obtain ⟨ra, hra, hrak⟩ := List.mem_map.mp (hst1.sub k hk1)
    apply hk2
    simp only [keys, List.mem_map]
    exact ⟨ra, List.mem_filter.mpr ⟨hra, by rw [hrak]; exact decide_eq_true hk1⟩, hrak⟩
  refine ⟨tr1 ++ tr2, ?_, ?_, ?_, ?_⟩
  · show execTrace (keys a) (((diffRoutesLoop a b' (keys a)).1 ++
      (a.filter (fun r => r.key ∈ (diffRoutesLoop a b' (keys a)).2)).map RLine.del).map cmdsOf) = _
    rw [List.map_append, execTrace_append _ _ _ tr1 h1, h2]; rfl
  · rw [getLastD_append]; exact hst2.nodup
  · rw [getLastD_append]
    intro k
    rw [hst2.mem k, ← hkb k]
    constructor
    · rintro (h | h)
      · exact absurd h (hempty k)
      · exact h
    · intro h; right; exact h
  · intro t ht
    rcases List.mem_append.mp ht with h | h
    · exact ht1 t h
    · exact ht2 t h

theorem sortRoutes_mem (b : List Route) (r : Route) : r ∈ sortRoutes b ↔ r ∈ b :=
  (isort_perm _ b).mem_iff

theorem sortRoutes_nodup (b : List Route) (h : (keys b).Nodup) : (keys (sortRoutes b)).Nodup :=
  ((isort_perm _ b).map Route.key).nodup_iff.mpr h

/-- Dropping repeated routes: distinct keys, a sub-list, the same key set (beyond `seen`). -/
theorem dedup_spec : ∀ (l : List Route) (seen : List Spec.RKey),
    (keys (dedupRoutes l seen)).Nodup ∧
    (∀ r, r ∈ dedupRoutes l seen → r ∈ l ∧ r.key ∉ seen) ∧
    (∀ r, r ∈ l → r.key ∉ seen → r.key ∈ keys (dedupRoutes l seen)) := by
  intro l
  induction l with
  | nil => intro seen; simp [dedupRoutes, keys]
  | cons x xs ih =>
    intro seen
    by_cases hx : x.key ∈ seen
    · obtain ⟨h1, h2, h3⟩ := ih seen
      simp only [dedupRoutes, if_pos hx]
      refine ⟨h1, fun r hr => ⟨by simp [(h2 r hr).1], (h2 r hr).2⟩, ?_⟩
      intro r hr hns
      rcases List.mem_cons.mp hr with e | hr'
      · subst e; exact absurd hx hns
      · exact h3 r hr' hns
    · obtain ⟨h1, h2, h3⟩ := ih (x.key :: seen)
      simp only [dedupRoutes, if_neg hx]
      refine ⟨?_, ?_, ?_⟩
      · simp only [keys, List.map_cons, List.nodup_cons]
        refine ⟨?_, h1⟩
        intro hm
        obtain ⟨r, hr, hk⟩ := List.mem_map.mp hm
        exact (h2 r hr).2 (by simp [hk])
      · intro r hr
        rcases List.mem_cons.mp hr with e | hr'
        · subst e; exact ⟨by simp, hx⟩
        · exact ⟨by simp [(h2 r hr').1], fun hs => (h2 r hr').2 (by simp [hs])⟩
      · intro r hr hns
        rcases List.mem_cons.mp hr with e | hr'
        · subst e; simp [keys]
        · by_cases hk : r.key = x.key
          · simp [keys, hk]
          · have := h3 r hr' (by simp [hk, hns])
            simp only [keys, List.map_cons, List.mem_cons]
            right; exact this

/-- The target as `diffRoutes` processes it. -/
theorem target_spec (b : List Route) :
    (keys (dedupRoutes (sortRoutes b) [])).Nodup ∧
    (∀ r, r ∈ dedupRoutes (sortRoutes b) [] → r ∈ b) ∧
    (∀ k, k ∈ keys (dedupRoutes (sortRoutes b) []) ↔ k ∈ keys b) := by
  obtain ⟨h1, h2, h3⟩ := dedup_spec (sortRoutes b) []
  refine ⟨h1, fun r hr => (sortRoutes_mem b r).mp (h2 r hr).1, ?_⟩
  intro k
  constructor
  · intro hk
    obtain ⟨r, hr, e⟩ := List.mem_map.mp hk
    exact List.mem_map.mpr ⟨r, (sortRoutes_mem b r).mp (h2 r hr).1, e⟩
  · intro hk
    obtain ⟨r, hr, e⟩ := List.mem_map.mp hk
    rw [← e]
    exact h3 r ((sortRoutes_mem b r).mpr hr) (by simp)

/-- What `St` gives for one table. -/
theorem St.oneHop {a b : List Route} {T : RTable} {am P : List Spec.RKey} (h : St a b T am P)
    (ha : OneHop a) (hb : OneHop b) : oneHopPerDst T := by
  intro k1 h1 k2 h2 hd
  rw [h.mem] at h1 h2
  rcases h1 with h1 | h1 <;> rcases h2 with h2 | h2
  · obtain ⟨r1, hr1, e1⟩ := List.mem_map.mp (h.sub k1 h1)
    obtain ⟨r2, hr2, e2⟩ := List.mem_map.mp (h.sub k2 h2)
    rw [← e1, ← e2]; exact ha r1 hr1 r2 hr2 (by rw [← dstOf_key, ← dstOf_key, e1, e2]; exact hd)
  · exact absurd hd (h.cross ha k1 h1 k2 h2)
  · exact absurd hd.symm (h.cross ha k2 h2 k1 h1)
  · obtain ⟨r1, hr1, e1⟩ := List.mem_map.mp (h.psub k1 h1)
    obtain ⟨r2, hr2, e2⟩ := List.mem_map.mp (h.psub k2 h2)
    rw [← e1, ← e2]; exact hb r1 hr1 r2 hr2 (by rw [← dstOf_key, ← dstOf_key, e1, e2]; exact hd)

theorem covered_iff (t : RTable) (d : Str × Int) : covered t d = true ↔ ∃ k, k ∈ t ∧ dstOf k = d := by
  simp [covered, List.any_eq_true]

theorem St.covers {a b : List Route} {T : RTable} {am P : List Spec.RKey} (h : St a b T am P)
    (d : Str × Int) (ha : covered (keys a) d = true) (hb : covered (keys b) d = true) :
    covered T d = true := by
  rw [covered_iff] at ha hb ⊢
  obtain ⟨ka, hka, hda⟩ := ha
  obtain ⟨kb, hkb, hdb⟩ := hb
  rcases h.cov ka hka with h1 | ⟨k, hk, hd⟩ | h1
  · exact ⟨ka, (h.mem ka).mpr (Or.inl h1), hda⟩
  · exact ⟨k, (h.mem k).mpr (Or.inr hk), hd.trans hda⟩
  · exact ⟨kb, (h.mem kb).mpr (Or.inr (h1 kb hkb)), hdb⟩

/-- The same for addresses, for ANY notion of "destination `d` covers address `x`": an address covered
by a route of the device and by a route of the target is covered in every state. -/
theorem St.coversAddr {α : Type} {a b : List Route} {T : RTable} {am P : List Spec.RKey} (h : St a b T am P)
    (cov : Str × Int → α → Bool) (x : α)
    (ha : ∃ ka, ka ∈ keys a ∧ cov (dstOf ka) x = true) (hb : ∃ kb, kb ∈ keys b ∧ cov (dstOf kb) x = true) :
    ∃ k, k ∈ T ∧ cov (dstOf k) x = true := by
  obtain ⟨ka, hka, hca⟩ := ha
  obtain ⟨kb, hkb, hcb⟩ := hb
  rcases h.cov ka hka with h1 | ⟨k, hk, hd⟩ | h1
  · exact ⟨ka, (h.mem ka).mpr (Or.inl h1), hca⟩
  · exact ⟨k, (h.mem k).mpr (Or.inr hk), by rw [hd]; exact hca⟩
  · exact ⟨kb, (h.mem kb).mpr (Or.inr (h1 kb hkb)), hcb⟩

/-- A line that succeeds on the strict table and leaves one hop per destination also succeeds on
the kernel that refuses a second route to a destination. -/
theorem lineK_of_line (T T' : RTable) (l : RLine) (h : execLine T (cmdsOf l) = some T')
    (hone : oneHopPerDst T') : execLineK T (cmdsOf l) = some T' := by
  have addK : ∀ (U : RTable) (k : Spec.RKey), k ∉ U → oneHopPerDst (U ++ [k]) → covered U (dstOf k) = false := by
    intro U k hk ho
    cases hc : covered U (dstOf k) with
    | false => rfl
    | true =>
      obtain ⟨k', hk', hd⟩ := (covered_iff U _).mp hc
      have := ho k' (by simp [hk']) k (by simp) hd
      exact absurd (this ▸ hk') hk
  cases l with
  | add r =>
    simp only [cmdsOf, execLine, stepCmd] at h
    by_cases hk : r.key ∈ T
    · simp [hk] at h
    · simp only [if_neg hk] at h
      injection h with h; subst h
      simp [cmdsOf, execLineK, stepCmdK, addK T r.key hk hone]
  | del r =>
    simp only [cmdsOf, execLine, stepCmd] at h
    by_cases hk : r.key ∈ T
    · simp only [if_pos hk] at h
      simp only [cmdsOf, execLineK, stepCmdK, if_pos hk]; exact h
    · simp [hk] at h
  | repl o n =>
    simp only [cmdsOf, execLine, stepCmd] at h
    by_cases hk : o.key ∈ T
    · simp only [if_pos hk] at h
      by_cases hn : n.key ∈ T.filter (· ≠ o.key)
      · simp only [if_pos hn] at h; exact absurd h (by simp)
      · simp only [if_neg hn] at h
        injection h with h; subst h
        simp only [cmdsOf, execLineK, stepCmdK, if_pos hk, addK _ n.key hn hone]
        simp
    · simp [hk] at h

theorem scriptK_of_trace (T : RTable) (ls : List RLine) (tr : List RTable)
    (h : execTrace T (ls.map cmdsOf) = some tr) (hone : ∀ t ∈ tr, oneHopPerDst t) :
    execScriptK T (ls.map cmdsOf) = some (tr.getLastD T) := by
  induction ls generalizing T tr with
  | nil => simp [execTrace] at h; subst h; simp [execScriptK, List.getLastD]
  | cons l ls ih =>
    simp only [List.map_cons, execTrace] at h
    cases hl : execLine T (cmdsOf l) with
    | none => simp [hl] at h
    | some T1 =>
      simp only [hl] at h
      cases hr : execTrace T1 (ls.map cmdsOf) with
      | none => simp [hr] at h
      | some tr' =>
        simp [hr] at h; subst h
        have h1 := lineK_of_line T T1 l hl (hone T1 (by simp))
        simp only [List.map_cons, execScriptK, h1]
        rw [ih T1 tr' hr (fun t ht => hone t (by simp [ht])), getLastD_cons]

end NA.C05
