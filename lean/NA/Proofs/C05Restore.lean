import NA.Proofs.C05Ipt
/-!
C05, iptables: loading the file printed by `getIPTablesConfig` with `iptables-restore` (Spec) gives,
for every table of the target, exactly the target's chains (sorted by name), policies and rule
lines in order; tables the target does not have stay as they are.
-/
namespace NA.C05
open NA.Linux NA.Linux.Spec

def toRLn : FLine → RLn
  | .table n => .table n
  | .chain n p => .chain n p
  | .rule c o => .rule c o
  | .commit => .commit

def chainOf (cm : Chains) (c : Str) : Chain := (getA c cm).getD default

/-- What the kernel holds for table `t` after loading the target's file. -/
def expChains (cm : Chains) : List KChain :=
  (sortStrs (keysA cm)).map fun c =>
    { name := c, policy := (chainOf cm c).policy, rules := (chainOf cm c).rules.map (·.orig) }

def expTable (t : Str) (cm : Chains) : KTable := { name := t, chains := expChains cm }

/-- append a rule text to every chain called `c` -/
def appendTo (cs : List KChain) (c : Str) (text : Str) : List KChain :=
  cs.map fun k => if k.name = c then { k with rules := k.rules ++ [text] } else k

theorem addRule_eq (cs : List KChain) (c text : Str) (hn : (cs.map (·.name)).Nodup)
    (hc : c ∈ cs.map (·.name)) : addRule cs c text = some (appendTo cs c text) := by
  induction cs with
  | nil => simp at hc
  | cons k ks ih =>
    simp only [List.map_cons, List.nodup_cons] at hn
    by_cases hk : k.name = c
    · have hrest : ∀ x ∈ ks, ¬ x.name = c := by
        intro x hx he
        exact hn.1 (by rw [hk, ← he]; exact List.mem_map_of_mem hx)
      have : ks.map (fun x => if x.name = c then { x with rules := x.rules ++ [text] } else x) = ks := by
        conv => rhs; rw [← List.map_id ks]
        apply List.map_congr_left
        intro x hx; simp [hrest x hx]
      simp [addRule, appendTo, hk, this]
    · have hc' : c ∈ ks.map (·.name) := by
        simp only [List.map_cons, List.mem_cons] at hc
        rcases hc with h | h
        · exact absurd h.symm hk
        · exact h
      simp [addRule, appendTo, hk, ih hn.2 hc']

theorem appendTo_names (cs : List KChain) (c text : Str) :
    (appendTo cs c text).map (·.name) = cs.map (·.name) := by
  simp only [appendTo, List.map_map]
  apply List.map_congr_left
  intro k _
  simp only [Function.comp]
  split <;> rfl

def addAll (cs : List KChain) (rs : List (Str × Str)) : List KChain :=
  rs.foldl (fun cs p => appendTo cs p.1 p.2) cs

theorem addAll_names (cs : List KChain) (rs : List (Str × Str)) :
    (addAll cs rs).map (·.name) = cs.map (·.name) := by
  induction rs generalizing cs with
  | nil => rfl
  | cons p rs ih => simp only [addAll, List.foldl_cons] at ih ⊢; rw [ih, appendTo_names]

theorem addAll_eq (cs : List KChain) (rs : List (Str × Str)) :
    addAll cs rs = cs.map fun k =>
      { k with rules := k.rules ++ (rs.filter (fun p => p.1 = k.name)).map (·.2) } := by
  induction rs generalizing cs with
  | nil => simp [addAll]
  | cons p rs ih =>
    simp only [addAll, List.foldl_cons] at ih ⊢
    rw [ih, appendTo, List.map_map]
    apply List.map_congr_left
    intro k _
    simp only [Function.comp]
    by_cases h : k.name = p.1
    · have h' : p.1 = k.name := h.symm
      simp [h, List.filter_cons]
    · have h' : ¬ p.1 = k.name := fun e => h e.symm
      simp [h, h', List.filter_cons]

/-- the chain declarations -/
theorem loadTable_decls (pol : Str → Str) : ∀ (names : List Str) (rest : List RLn) (cs : List KChain),
    names.Nodup → (∀ n ∈ names, n ∉ cs.map (·.name)) →
    loadTable (names.map (fun c => RLn.chain c (pol c)) ++ rest) cs =
      loadTable rest (cs ++ names.map fun c => { name := c, policy := pol c, rules := [] }) := by
  intro names
  induction names with
  | nil => intro rest cs _ _; simp
  | cons n ns ih =>
    intro rest cs hnd hdis
    simp only [List.nodup_cons] at hnd
    have hn : ¬ (cs.any (·.name = n)) = true := by
      intro h
      obtain ⟨x, hx, he⟩ := List.any_eq_true.mp h
      exact hdis n (by simp) (by simp at he; rw [← he]; exact List.mem_map_of_mem hx)
    simp only [List.map_cons, List.cons_append, loadTable, hn, Bool.false_eq_true, ↓reduceIte]
    rw [ih rest _ hnd.2]
    · simp
    · intro m hm
      simp only [List.map_append, List.map_cons, List.map_nil, List.mem_append, List.mem_singleton, not_or]
      exact ⟨hdis m (by simp [hm]), fun e => hnd.1 (e ▸ hm)⟩

/-- the rule lines -/
theorem loadTable_rules : ∀ (rs : List (Str × Str)) (rest : List RLn) (cs : List KChain),
    (cs.map (·.name)).Nodup → (∀ p ∈ rs, p.1 ∈ cs.map (·.name)) →
    loadTable (rs.map (fun p => RLn.rule p.1 p.2) ++ rest) cs = loadTable rest (addAll cs rs) := by
  intro rs
  induction rs with
  | nil => intro rest cs _ _; simp [addAll]
  | cons p rs ih =>
    intro rest cs hnd hin
    simp only [List.map_cons, List.cons_append, loadTable]
    rw [addRule_eq cs p.1 p.2 hnd (hin p (by simp))]
    simp only
    rw [ih rest _ (by rw [appendTo_names]; exact hnd) (by
      intro q hq; rw [appendTo_names]; exact hin q (by simp [hq]))]
    simp [addAll]

theorem filter_flatMap_rules (texts : Str → List Str) : ∀ (names : List Str) (c0 : Str), names.Nodup →
    ((names.flatMap fun c => (texts c).map fun x => (c, x)).filter (fun p => p.1 = c0)).map (·.2) =
      if c0 ∈ names then texts c0 else [] := by
  intro names
  induction names with
  | nil => intro c0 _; simp
  | cons n ns ih =>
    intro c0 hnd
    simp only [List.nodup_cons] at hnd
    simp only [List.flatMap_cons, List.filter_append, List.map_append, ih c0 hnd.2]
    by_cases h : n = c0
    · subst h
      have : ((texts n).map fun x => (n, x)).filter (fun p => p.1 = n) = (texts n).map fun x => (n, x) := by
        apply List.filter_eq_self.mpr; intro p hp
        obtain ⟨x, _, hx⟩ := List.mem_map.mp hp
        simp [← hx]
      have hid : List.map ((fun x : Str × Str => x.snd) ∘ fun x => (n, x)) (texts n) = texts n := by
        rw [show ((fun x : Str × Str => x.snd) ∘ fun x => (n, x)) = id from rfl, List.map_id]
      simp [this, hnd.1, List.map_map, hid]
    · have : ((texts n).map fun x => (n, x)).filter (fun p => p.1 = c0) = [] := by
        apply List.filter_eq_nil_iff.mpr; intro p hp
        obtain ⟨x, _, hx⟩ := List.mem_map.mp hp
        simp [← hx, h]
      have h' : ¬ c0 = n := fun e => h e.symm
      simp [this, h']

theorem sortStrs_nodup (l : List Str) (h : l.Nodup) : (sortStrs l).Nodup :=
  (isort_perm _ l).nodup_iff.mpr h

def rulePairs (cm : Chains) (names : List Str) : List (Str × Str) :=
  names.flatMap fun c => ((chainOf cm c).rules.map (·.orig)).map fun x => (c, x)

theorem tableLines_toRLn (t : Str) (cm : Chains) :
    (tableLines t cm).map toRLn = RLn.table t ::
      ((sortStrs (keysA cm)).map (fun c => RLn.chain c ((fun c => (chainOf cm c).policy) c)) ++
       ((rulePairs cm (sortStrs (keysA cm))).map (fun p => RLn.rule p.1 p.2) ++ [RLn.commit])) := by
  have h2 : ∀ names : List Str,
      (names.flatMap fun c => (chainOf cm c).rules.map fun r => FLine.rule c r.orig).map toRLn =
      (rulePairs cm names).map (fun p => RLn.rule p.1 p.2) := by
    intro names
    induction names with
    | nil => simp [rulePairs]
    | cons n ns ih =>
      simp only [List.flatMap_cons, List.map_append, ih, rulePairs, List.map_map]
      congr 1
  have := h2 (sortStrs (keysA cm))
  simp only [chainOf] at this
  simp only [tableLines, chainOf, List.map_append, List.map_cons, List.map_nil, toRLn, List.map_map,
    List.cons_append, List.nil_append, List.append_assoc, this]
  rfl

/-- One table block of the file loads to the expected chains. -/
theorem loadTable_block (cm : Chains) (t : Str) (hk : (keysA cm).Nodup) (rest : List RLn) :
    loadTable (((tableLines t cm).map toRLn).tail ++ rest) [] = some (expChains cm, rest) := by
  have hnd := sortStrs_nodup _ hk
  rw [tableLines_toRLn, List.tail_cons, List.append_assoc, List.append_assoc,
    loadTable_decls _ _ _ _ hnd (by simp)]
  simp only [List.nil_append]
  rw [loadTable_rules]
  · simp only [List.singleton_append, loadTable, addAll_eq, List.map_map, expChains]
    congr 2
    apply List.map_congr_left
    intro c hc
    simp only [Function.comp, List.nil_append, rulePairs]
    rw [filter_flatMap_rules _ _ _ hnd]
    simp [hc]
  · simpa [List.map_map, Function.comp_def] using hnd
  · intro p hp
    obtain ⟨c, hc, hp'⟩ := List.mem_flatMap.mp hp
    obtain ⟨x, _, hx⟩ := List.mem_map.mp hp'
    simp only [List.map_map, List.mem_map, Function.comp]
    exact ⟨c, hc, by rw [← hx]⟩

/-- All tables. -/
def loadAll (tb : Tables) (st : KState) (ts : List Str) : KState :=
  ts.foldl (fun st t => replaceTable st (expTable t ((getA t tb).getD []))) st

theorem tableLines_length_pos (t : Str) (cm : Chains) : 0 < ((tableLines t cm).map toRLn).length := by
  simp [tableLines]

theorem restoreAux_all (tb : Tables) (hc : ∀ t cm, getA t tb = some cm → (keysA cm).Nodup) :
    ∀ (ts : List Str) (st : KState) (fuel : Nat),
    (∀ t ∈ ts, hasA t tb = true) →
    ((ts.flatMap fun t => tableLines t ((getA t tb).getD [])).map toRLn).length ≤ fuel →
    restoreAux fuel st ((ts.flatMap fun t => tableLines t ((getA t tb).getD [])).map toRLn) =
      some (loadAll tb st ts) := by
  intro ts
  induction ts with
  | nil => intro st fuel _ _; cases fuel <;> simp [restoreAux, loadAll]
  | cons t ts ih =>
    intro st fuel hin hf
    obtain ⟨cm, hcm⟩ := (hasA_iff t tb).mp (hin t (by simp))
    have hk := hc t cm hcm
    simp only [List.flatMap_cons, List.map_append] at hf ⊢
    have hhead : (tableLines t ((getA t tb).getD [])).map toRLn =
        RLn.table t :: ((tableLines t cm).map toRLn).tail := by
      simp [hcm, tableLines, toRLn]
    rw [hhead] at hf ⊢
    cases fuel with
    | zero => simp at hf
    | succ fuel =>
      simp only [List.cons_append, restoreAux]
      rw [loadTable_block cm t hk]
      simp only
      rw [ih _ fuel (fun t' h => hin t' (by simp [h])) (by
        simp only [List.cons_append, List.length_cons, List.length_append] at hf; omega)]
      simp [loadAll, hcm, expTable]

theorem replaceTable_get (st : KState) (x : KTable) (t : Str) :
    (replaceTable st x).get t = if x.name = t then some x else st.get t := by
  unfold replaceTable KState.get
  by_cases hany : (st.any (·.name = x.name)) = true
  · simp only [hany, ↓reduceIte]
    induction st with
    | nil => simp at hany
    | cons y ys ih =>
      simp only [List.map_cons, List.find?_cons]
      by_cases hy : y.name = x.name
      · by_cases hxt : x.name = t
        · simp [hy, hxt]
        · have : ¬ y.name = t := fun e => hxt (hy ▸ e)
          simp only [hy, ↓reduceIte, hxt, decide_false, this]
          -- the rest of the list: replacing further entries of that name does not matter for t
          have hrest : ∀ (l : List KTable), (l.map fun z => if z.name = x.name then x else z).find? (fun z => decide (z.name = t)) =
              l.find? (fun z => decide (z.name = t)) := by
            intro l
            induction l with
            | nil => rfl
            | cons z zs ihz =>
              simp only [List.map_cons, List.find?_cons]
              by_cases hz : z.name = x.name
              · have : ¬ z.name = t := fun e => hxt (hz ▸ e)
                simp [hz, hxt, this, ihz]
              · simp [hz, ihz]
          simpa using hrest ys
      · have hany' : (ys.any (·.name = x.name)) = true := by
          simp only [List.any_cons, hy, decide_false, Bool.false_or] at hany; exact hany
        simp only [hy, ↓reduceIte]
        by_cases hyt : y.name = t
        · have : ¬ x.name = t := fun e => hy (hyt ▸ e.symm ▸ rfl)
          simp [hyt, this]
        · simp only [hyt, decide_false]
          exact ih hany'
  · simp only [hany, Bool.false_eq_true, ↓reduceIte, List.find?_append]
    have hnone : ∀ y ∈ st, ¬ y.name = x.name := by
      intro y hy he
      exact hany (List.any_eq_true.mpr ⟨y, hy, by simpa using he⟩)
    by_cases hxt : x.name = t
    · have : st.find? (fun z => decide (z.name = t)) = none := by
        apply List.find?_eq_none.mpr
        intro y hy; simpa [← hxt] using hnone y hy
      simp [this, hxt]
    · simp [hxt]

theorem loadAll_get (tb : Tables) : ∀ (ts : List Str) (st : KState) (t : Str),
    (loadAll tb st ts).get t =
      if t ∈ ts then some (expTable t ((getA t tb).getD [])) else st.get t := by
  intro ts
  induction ts with
  | nil => intro st t; simp [loadAll]
  | cons x xs ih =>
    intro st t
    simp only [loadAll, List.foldl_cons] at ih ⊢
    rw [ih]
    by_cases h : t ∈ xs
    · simp [h]
    · simp only [h, ↓reduceIte, replaceTable_get, expTable, List.mem_cons, or_false]
      by_cases hx : x = t
      · subst hx; simp
      · have : ¬ t = x := fun e => hx e.symm
        simp [hx, this]

/-- The file printed for the target, loaded on any device state. -/
theorem restore_target (tb : Tables) (st : KState)
    (hc : ∀ t cm, getA t tb = some cm → (keysA cm).Nodup) :
    ∃ st', restore st ((getIPTablesConfig tb).map toRLn) = some st' ∧
      (∀ t cm, getA t tb = some cm → st'.get t = some (expTable t cm)) ∧
      (∀ t, getA t tb = none → st'.get t = st.get t) := by
  refine ⟨loadAll tb st (sortStrs (keysA tb)), ?_, ?_, ?_⟩
  · unfold restore getIPTablesConfig
    exact restoreAux_all tb hc _ st _ (by
      intro t ht; exact (mem_keysA t tb).mp ((mem_sortStrs t _).mp ht)) (Nat.le_refl _)
  · intro t cm h
    rw [loadAll_get]
    have : t ∈ sortStrs (keysA tb) := (mem_sortStrs t _).mpr ((mem_keysA t tb).mpr (by simp [hasA, h]))
    simp [this, h]
  · intro t h
    rw [loadAll_get]
    have : ¬ t ∈ sortStrs (keysA tb) := by
      intro hm
      have := (mem_keysA t tb).mp ((mem_sortStrs t _).mp hm)
      simp [hasA, h] at this
    simp [this]

end NA.C05
