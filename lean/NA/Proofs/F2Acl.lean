import NA.Proofs.F2Exec
import NA.Model.IosEngineHyp
import NA.Proofs.CellsSound
import NA.Props.IosAcl
/-!
# F2: one ACL pair — the emitted entry commands on the strict device

Bridge between the strict configuration-level device (`NA.IosDev2.execEntry` on entries with texts)
and the ACL-level device of `NA.Spec.AclDev` (`iosExec1` on encoded lines) on which the theorems of
`NA.Props.IosAcl` are stated.
-/
namespace NA.F2
open NA.IosDev2
open NA.Acl (Line Cell IOp IosAcl iosExec1 iosAdd iosDel iosInsert iosReseq iosLines)

/-! ## the encoding is faithful on the lines of the pair -/

theorem getD_idxOf {l : List String} {x : String} (h : x ∈ l) : l.getD (l.idxOf x) "" = x := by
  have hlt := List.idxOf_lt_length_iff.mpr h
  rw [List.getD_eq_getElem?_getD, List.getElem?_eq_getElem hlt, Option.getD_some]
  exact List.getElem_idxOf hlt

theorem idxOf_inj {l : List String} {x y : String} (hx : x ∈ l) (hy : y ∈ l)
    (h : l.idxOf x = l.idxOf y) : x = y := by
  rw [← getD_idxOf hx, ← getD_idxOf hy, h]

/-- Entries of the configuration-level device as an ACL of the ACL-level device. -/
def encE (tk mk : List String) (es : Entries) : IosAcl := es.map fun e => (e.1, encLine tk mk e.2)

@[simp] theorem encLine_typed (tk mk : List String) (l : ALine) : encLine tk mk (typed l) = encLine tk mk l := rfl

theorem encE_insertNum (tk mk : List String) (es : Entries) (n : Nat) (l : ALine) :
    encE tk mk (insertNum es n l) = iosInsert (encE tk mk es) n (encLine tk mk l) := by
  induction es with
  | nil => rfl
  | cons e es ih =>
    obtain ⟨m, x⟩ := e
    simp only [insertNum, encE, List.map_cons, iosInsert]
    split
    · rfl
    · simp only [List.map_cons]
      congr 1

theorem eraseFirst_eq_filter (n : Nat) (es : Entries) (hnd : (es.map (·.1)).Nodup) :
    eraseFirst (fun e => e.1 == n) es = es.filter fun e => e.1 != n := by
  induction es with
  | nil => rfl
  | cons e es ih =>
    simp only [List.map_cons, List.nodup_cons] at hnd
    simp only [eraseFirst, List.filter_cons]
    by_cases h : e.1 = n
    · simp only [h, beq_self_eq_true, ↓reduceIte, bne_self_eq_false, Bool.false_eq_true]
      symm
      apply List.filter_eq_self.mpr
      intro a ha
      have : a.1 ≠ n := by
        intro hc
        apply hnd.1
        rw [h, ← hc]
        exact List.mem_map_of_mem ha
      simpa using this
    · have h1 : (e.1 == n) = false := by simpa using h
      have h2 : (e.1 != n) = true := by simpa using h
      simp only [h1, Bool.false_eq_true, ↓reduceIte, h2]
      rw [ih hnd.2]

theorem encE_filter (tk mk : List String) (es : Entries) (n : Nat) :
    encE tk mk (es.filter fun e => e.1 != n) = (encE tk mk es).filter fun e => e.1 != n := by
  simp only [encE, List.filter_map]
  rfl

theorem encE_any_num (tk mk : List String) (es : Entries) (n : Nat) :
    ((encE tk mk es).any fun e => e.1 == n) = es.any fun e => e.1 == n := by
  simp [encE, List.any_map, Function.comp_def]

theorem nums_insertNum (es : Entries) (n : Nat) (l : ALine) :
    ((insertNum es n l).map (·.1)).Perm (n :: es.map (·.1)) := by
  induction es with
  | nil => exact List.Perm.refl _
  | cons e es ih =>
    obtain ⟨m, x⟩ := e
    simp only [insertNum]
    split
    · exact List.Perm.refl _
    · simp only [List.map_cons]
      exact (List.Perm.cons m ih).trans (List.Perm.swap n m _)

theorem nodup_insertNum (es : Entries) (n : Nat) (l : ALine) (hnd : (es.map (·.1)).Nodup)
    (hn : (es.any fun e => e.1 == n) = false) : ((insertNum es n l).map (·.1)).Nodup := by
  rw [(nums_insertNum es n l).nodup_iff, List.nodup_cons]
  refine ⟨?_, hnd⟩
  intro hmem
  obtain ⟨e, he, hen⟩ := List.mem_map.mp hmem
  have := List.any_eq_false.mp hn e he
  simp [hen] at this

theorem nodup_filter_nums (es : Entries) (p : Nat × ALine → Bool) (hnd : (es.map (·.1)).Nodup) :
    ((es.filter p).map (·.1)).Nodup :=
  List.Nodup.sublist (List.Sublist.map _ List.filter_sublist) hnd


/-! ## one planned operation -/

def opChg (al bl : List ALine) : IOp → Chg
  | .add n l => .numEntry n (lineOfKey al bl l.key)
  | .del n => .noNum n
  | .move dn an l => .move dn an (lineOfKey al bl l.key)
  | _ => .bad

/-- The operation is an add / delete / move and its line decodes to a line with that encoding. -/
def DecOK (tk mk : List String) (al bl : List ALine) : IOp → Prop
  | .add _ l => encLine tk mk (lineOfKey al bl l.key) = l
  | .move _ _ l => encLine tk mk (lineOfKey al bl l.key) = l
  | .del _ => True
  | _ => False

theorem opEv_eq {tk mk : List String} {al bl : List ALine} {op : IOp} (h : DecOK tk mk al bl op) (aN : Name) :
    opEv aN al bl op = .sub (.acl aN) (opChg al bl op) := by
  cases op <;> first | rfl | exact absurd h id

theorem collides_false_of_mkey (tk mk : List String) (es : Entries) (x : ALine)
    (h : ((encE tk mk es).any fun e => e.2.mkey == (encLine tk mk x).mkey) = false) :
    (es.any fun e => collides e.2 x) = false := by
  rw [List.any_eq_false] at h ⊢
  intro e he
  have := h (e.1, encLine tk mk e.2) (List.mem_map_of_mem (f := fun e => (e.1, encLine tk mk e.2)) he)
  simp only [encLine, beq_iff_eq] at this
  simp only [collides, Bool.and_eq_true, bne_iff_ne, ne_eq, beq_iff_eq, not_and]
  intro _ hc
  exact this (by rw [hc])

theorem sim_add (tk mk : List String) (es : Entries) (n : Nat) (x : ALine) (s' : IosAcl)
    (hnd : (es.map (·.1)).Nodup) (h : iosAdd (encE tk mk es) n (encLine tk mk x) = some s') :
    ∃ es', execEntry es (.numEntry n x) = .ok es' ∧ encE tk mk es' = s' ∧ (es'.map (·.1)).Nodup := by
  unfold iosAdd at h
  split at h
  · cases h
  · rename_i hc
    simp only [Bool.or_eq_true, not_or, Bool.not_eq_true] at hc
    cases h
    have hnum : (es.any fun e => e.1 == n) = false := by rw [← encE_any_num tk mk]; exact hc.1
    have hcol := collides_false_of_mkey tk mk es x hc.2
    refine ⟨insertNum es n (typed x), ?_, ?_, nodup_insertNum es n _ hnd hnum⟩
    · simp [execEntry, hnum, hcol]
    · rw [encE_insertNum, encLine_typed]

theorem sim_del (tk mk : List String) (es : Entries) (n : Nat) (s' : IosAcl)
    (hnd : (es.map (·.1)).Nodup) (h : iosDel (encE tk mk es) n = some s') :
    ∃ es', execEntry es (.noNum n) = .ok es' ∧ encE tk mk es' = s' ∧ (es'.map (·.1)).Nodup ∧
      es' = es.filter fun e => e.1 != n := by
  unfold iosDel at h
  split at h
  · rename_i hc
    cases h
    rw [encE_any_num] at hc
    refine ⟨es.filter fun e => e.1 != n, ?_, encE_filter tk mk es n, nodup_filter_nums es _ hnd, rfl⟩
    simp [execEntry, hc, eraseFirst_eq_filter n es hnd]
  · cases h

theorem sim_op (tk mk : List String) (al bl : List ALine) (es : Entries) (op : IOp) (s' : IosAcl)
    (hnd : (es.map (·.1)).Nodup) (hdec : DecOK tk mk al bl op) (h : iosExec1 (encE tk mk es) op = some s') :
    ∃ es', execEntry es (opChg al bl op) = .ok es' ∧ encE tk mk es' = s' ∧ (es'.map (·.1)).Nodup := by
  cases op with
  | add n l =>
    simp only [DecOK] at hdec
    simp only [iosExec1] at h
    rw [← hdec] at h
    exact sim_add tk mk es n _ s' hnd h
  | del n =>
    obtain ⟨es', h1, h2, h3, _⟩ := sim_del tk mk es n s' hnd h
    exact ⟨es', h1, h2, h3⟩
  | move dn an l =>
    simp only [DecOK] at hdec
    simp only [iosExec1] at h
    cases hd : iosDel (encE tk mk es) dn with
    | none => rw [hd] at h; cases h
    | some s1 =>
      rw [hd, Option.bind_some, ← hdec] at h
      obtain ⟨es1, h1, h2, h3, h4⟩ := sim_del tk mk es dn s1 hnd hd
      rw [← h2] at h
      obtain ⟨es2, g1, g2, g3⟩ := sim_add tk mk es1 an _ s' h3 h
      refine ⟨es2, ?_, g2, g3⟩
      -- the joined command: the delete, then the add
      have hany : (es.any fun e => e.1 == dn) = true := by
        simp only [execEntry] at h1
        split at h1
        · assumption
        · cases h1
      have hes1 : eraseFirst (fun e => e.1 == dn) es = es1 := by
        rw [eraseFirst_eq_filter dn es hnd, h4]
      simp only [execEntry, opChg, hany, ↓reduceIte, hes1]
      simp only [execEntry] at g1
      exact g1
  | delText l => exact absurd hdec id
  | append l => exact absurd hdec id
  | bad => exact absurd hdec id

/-- Entry commands one after the other. -/
def entriesRun (es : Entries) (cs : List Chg) : Option Entries :=
  cs.foldlM (fun es c => toOpt (execEntry es c)) es

theorem entriesRun_cons (es : Entries) (c : Chg) (cs : List Chg) :
    entriesRun es (c :: cs) = (toOpt (execEntry es c)).bind fun es' => entriesRun es' cs := by
  simp [entriesRun, List.foldlM_cons]

theorem sim_ops (tk mk : List String) (al bl : List ALine) (ops : List IOp) (es : Entries) (s' : IosAcl)
    (hnd : (es.map (·.1)).Nodup) (hdec : ∀ op ∈ ops, DecOK tk mk al bl op)
    (h : NA.Acl.iosExec (encE tk mk es) ops = some s') :
    ∃ es', entriesRun es (ops.map (opChg al bl)) = some es' ∧ encE tk mk es' = s' ∧ (es'.map (·.1)).Nodup := by
  induction ops generalizing es with
  | nil =>
    simp only [NA.Acl.iosExec, List.foldlM_nil] at h
    cases h
    exact ⟨es, rfl, rfl, hnd⟩
  | cons op ops ih =>
    rw [NA.Acl.iosExec_cons] at h
    cases h1 : iosExec1 (encE tk mk es) op with
    | none => rw [h1] at h; cases h
    | some s1 =>
      rw [h1, Option.bind_some] at h
      obtain ⟨es1, g1, g2, g3⟩ := sim_op tk mk al bl es op s1 hnd (hdec op (List.mem_cons_self ..)) h1
      rw [← g2] at h
      obtain ⟨es', k1, k2, k3⟩ := ih es1 g3 (fun o ho => hdec o (List.mem_cons_of_mem _ ho)) h
      refine ⟨es', ?_, k2, k3⟩
      simp only [List.map_cons, entriesRun_cons, g1, toOpt, Option.bind_some]
      exact k1


/-! ## entry commands of one ACL on the whole device -/

def aclNames (d : Dev) : List Name := d.acls.map (·.1)

def putAcl (d : Dev) (n : Name) (es : Entries) : Dev := strip (setAcl d n es)

theorem names_setAcl (d : Dev) (n : Name) (es : Entries) : aclNames (setAcl d n es) = aclNames d := by
  simp only [aclNames, setAcl, List.map_map]
  apply List.map_congr_left
  intro p _
  simp only [Function.comp]
  by_cases h : p.1 == n
  · simp only [h, ↓reduceIte]; exact (beq_iff_eq.mp h).symm
  · simp [h]

theorem lookup_map_set (l : List (Name × Entries)) (n x : Name) (es : Entries) :
    (l.map fun p => if p.1 == n then (n, es) else p).lookup x =
      if x == n then (if l.any (·.1 == n) then some es else none) else l.lookup x := by
  induction l with
  | nil => simp
  | cons p l ih =>
    obtain ⟨k, v⟩ := p
    simp only [List.map_cons, List.any_cons]
    by_cases hk : k == n
    · have hkn := beq_iff_eq.mp hk
      subst hkn
      simp only [beq_self_eq_true, ↓reduceIte, Bool.true_or, List.lookup_cons]
      by_cases hx : x == k
      · simp [hx]
      · simp only [hx, Bool.false_eq_true, ↓reduceIte]
        rw [ih]
        simp [hx]
    · simp only [hk, Bool.false_eq_true, ↓reduceIte, Bool.false_or, List.lookup_cons]
      by_cases hx : x == k
      · have hxk := beq_iff_eq.mp hx
        subst hxk
        simp [hk]
      · simp only [hx]
        rw [ih]

theorem entriesOf_setAcl_self (d : Dev) (n : Name) (es : Entries) (h : hasAcl d n = true) :
    entriesOf (setAcl d n es) n = es := by
  simp only [entriesOf, setAcl, lookup_map_set, beq_self_eq_true, ↓reduceIte]
  simp only [hasAcl] at h
  simp [h]

theorem entriesOf_setAcl_other (d : Dev) (n x : Name) (es : Entries) (h : x ≠ n) :
    entriesOf (setAcl d n es) x = entriesOf d x := by
  have : (x == n) = false := by simpa using h
  simp only [entriesOf, setAcl, lookup_map_set, this, Bool.false_eq_true, ↓reduceIte]

theorem setAcl_setAcl (d : Dev) (n : Name) (es es' : Entries) : setAcl (setAcl d n es) n es' = setAcl d n es' := by
  simp only [setAcl, List.map_map]
  congr 1
  apply List.map_congr_left
  intro p _
  simp only [Function.comp]
  by_cases h : p.1 == n <;> simp [h]

theorem map_set_self (l : List (Name × Entries)) (n : Name) (hnd : (l.map (·.1)).Nodup) :
    (l.map fun p => if p.1 == n then (n, (l.lookup n).getD []) else p) = l := by
  induction l with
  | nil => rfl
  | cons p l ih =>
    obtain ⟨k, v⟩ := p
    simp only [List.map_cons, List.nodup_cons] at hnd
    simp only [List.map_cons, List.lookup_cons]
    by_cases hk : k == n
    · have hkn := beq_iff_eq.mp hk
      subst hkn
      simp only [beq_self_eq_true, ↓reduceIte, Option.getD_some, List.cons.injEq, true_and]
      -- no other pair carries the name
      have : ∀ q ∈ l, (q.1 == k) = false := by
        intro q hq
        have : q.1 ≠ k := fun hc => hnd.1 (by rw [← hc]; exact List.mem_map_of_mem hq)
        simpa using this
      calc (l.map fun p => if p.1 == k then (k, v) else p) = l.map id := by
              apply List.map_congr_left
              intro q hq
              simp [this q hq]
        _ = l := List.map_id _
    · have hnk : (n == k) = false := by
        have : k ≠ n := by simpa using hk
        simpa using (Ne.symm this)
      simp only [hk, Bool.false_eq_true, ↓reduceIte, hnk, List.cons.injEq, true_and]
      exact ih hnd.2

theorem putAcl_self (d : Dev) (n : Name) (hmode : d.mode = none) (hnd : (aclNames d).Nodup) :
    putAcl d n (entriesOf d n) = d := by
  obtain ⟨i, a, r, m⟩ := d
  simp only at hmode
  subst hmode
  simp only [putAcl, strip, setAcl, entriesOf, aclNames] at hnd ⊢
  rw [map_set_self a n hnd]

theorem evRun_sub_acl (d : Dev) (aN : Name) (c : Chg) (hc : isEntryCmd c = true) (hhas : hasAcl d aN = true) :
    evRun d (.sub (.acl aN) c) = (toOpt (execEntry (entriesOf d aN) c)).map (putAcl d aN) := by
  simp only [evRun, hc, ↓reduceIte, ensureAcl_of_has hhas]
  rfl

theorem evsRun_subs (aN : Name) (cs : List Chg) (hcs : ∀ c ∈ cs, isEntryCmd c = true) (d : Dev)
    (hhas : hasAcl d aN = true) (hmode : d.mode = none) (hnd : (aclNames d).Nodup) :
    evsRun d (cs.map (Ev.sub (.acl aN))) = (entriesRun (entriesOf d aN) cs).map (putAcl d aN) := by
  induction cs generalizing d with
  | nil => simp [evsRun, entriesRun, putAcl_self d aN hmode hnd]
  | cons c cs ih =>
    have hc := hcs c (List.mem_cons_self ..)
    simp only [List.map_cons, evsRun_cons, evRun_sub_acl d aN c hc hhas, entriesRun_cons]
    cases hx : execEntry (entriesOf d aN) c with
    | error e => simp [toOpt]
    | ok es1 =>
      simp only [toOpt, Option.map_some, Option.bind_some]
      have h1 : hasAcl (putAcl d aN es1) aN = true := by
        simp only [putAcl, hasAcl_strip, hasAcl_setAcl]; exact hhas
      have h2 : (aclNames (putAcl d aN es1)).Nodup := by
        have : aclNames (putAcl d aN es1) = aclNames (setAcl d aN es1) := rfl
        rw [this, names_setAcl]; exact hnd
      rw [ih (fun c' h => hcs c' (List.mem_cons_of_mem _ h)) _ h1 rfl h2]
      have h3 : entriesOf (putAcl d aN es1) aN = es1 := by
        simp only [putAcl, entriesOf_strip]; exact entriesOf_setAcl_self d aN es1 hhas
      rw [h3]
      cases entriesRun es1 cs with
      | none => rfl
      | some es' =>
        simp only [Option.map_some, putAcl, strip_setAcl, strip_strip, Option.some.injEq]
        exact setAcl_setAcl ..


/-! ## resequence -/

theorem encE_reseq (tk mk : List String) (es : Entries) (a b : Nat) :
    encE tk mk (reseq es a b) = iosReseq (encE tk mk es) a b := by
  simp only [encE, reseq, iosReseq, List.length_map, List.zip_map_right, List.map_map]
  apply List.map_congr_left
  intro p _
  rfl

theorem lines_reseq (es : Entries) (a b : Nat) : (reseq es a b).map (·.2) = es.map (·.2) := by
  simp only [reseq, List.map_map]
  have : ((fun x : Nat × ALine => x.2) ∘ fun p : Nat × Nat × ALine => (a + p.1 * b, p.2.2)) =
      (fun x : Nat × ALine => x.2) ∘ Prod.snd := rfl
  rw [this, ← List.map_map, List.map_snd_zip]
  simp

theorem nums_reseq (es : Entries) (a b : Nat) :
    (reseq es a b).map (·.1) = (List.range es.length).map fun i => a + i * b := by
  simp only [reseq, List.map_map]
  have : ((fun x : Nat × ALine => x.1) ∘ fun p : Nat × Nat × ALine => (a + p.1 * b, p.2.2)) =
      (fun i : Nat => a + i * b) ∘ Prod.fst := rfl
  rw [this, ← List.map_map, List.map_fst_zip]
  simp

theorem nodup_nums_reseq (es : Entries) (a b : Nat) (hb : 0 < b) : ((reseq es a b).map (·.1)).Nodup := by
  rw [nums_reseq, List.Nodup, List.pairwise_map]
  apply List.Pairwise.imp _ (List.nodup_range (n := es.length))
  intro x y hxy h
  have : x * b = y * b := by omega
  exact hxy (Nat.eq_of_mul_eq_mul_right hb this)

theorem iosExec_of_trace (s : IosAcl) (ops : List IOp) (tr : List IosAcl) (s' : IosAcl)
    (h : NA.Acl.iosTrace s ops = some tr) (hl : (s :: tr).getLast? = some s') : NA.Acl.iosExec s ops = some s' := by
  induction ops generalizing s tr with
  | nil =>
    simp only [NA.Acl.iosTrace, Option.some.injEq] at h
    subst h
    simp only [List.getLast?_singleton, Option.some.injEq] at hl
    subst hl
    rfl
  | cons op ops ih =>
    rw [NA.Acl.iosExec_cons]
    simp only [NA.Acl.iosTrace] at h
    cases h1 : iosExec1 s op with
    | none => simp [h1] at h
    | some s1 =>
      rw [h1] at h
      simp only [Option.bind_some]
      cases h2 : NA.Acl.iosTrace s1 ops with
      | none => simp [h2] at h
      | some rest =>
        simp [h2] at h
        subst h
        apply ih s1 rest h2
        rw [List.getLast?_cons_cons] at hl
        exact hl


/-! ## The incremental branch (`diffIOSACLs`) on the strict device -/

open NA.Acl (olds news noJunk runsShort planIOS addIdx delIdx BlockEqG LineEqv)

def tkOf (al bl : List ALine) : List String := (al ++ bl).map (·.text)
def mkOf (al bl : List ALine) : List String := (al ++ bl).map (·.nolog)
def encP (al bl : List ALine) : ALine → Line := encLine (tkOf al bl) (mkOf al bl)

theorem pairCells_eq (al bl : List ALine) (rs : List NA.Acl.Range) :
    pairCells al bl rs = NA.Acl.cellsOf (al.map (encP al bl)) (bl.map (encP al bl)) rs := rfl

theorem textFun_of {ls : List ALine} (h : textFunB ls = true) {x y : ALine} (hx : x ∈ ls) (hy : y ∈ ls)
    (ht : x.text = y.text) : x.nolog = y.nolog ∧ x.act = y.act := by
  simp only [textFunB, List.all_eq_true] at h
  have := h x hx y hy
  simp only [Bool.or_eq_true, bne_iff_ne, ne_eq, Bool.and_eq_true, beq_iff_eq] at this
  rcases this with h1 | h1
  · exact absurd ht h1
  · exact h1

theorem nologFun_of {ls : List ALine} (h : nologFunB ls = true) {x y : ALine} (hx : x ∈ ls) (hy : y ∈ ls)
    (ht : x.nolog = y.nolog) : x.act = y.act := by
  simp only [nologFunB, List.all_eq_true] at h
  have := h x hx y hy
  simp only [Bool.or_eq_true, bne_iff_ne, ne_eq, beq_iff_eq] at this
  rcases this with h1 | h1
  · exact absurd ht h1
  · exact h1

/-- Decoding a key gives a line with the same encoding. -/
theorem enc_lineOfKey (al bl : List ALine) (htf : textFunB (al ++ bl) = true) {x : ALine} (hx : x ∈ al ++ bl) :
    encP al bl (lineOfKey al bl (encP al bl x).key) = encP al bl x := by
  have hmem : x.text ∈ tkOf al bl := List.mem_map_of_mem hx
  have hlt : (tkOf al bl).idxOf x.text < (al ++ bl).length := by
    have := List.idxOf_lt_length_iff.mpr hmem
    simpa [tkOf] using this
  have hy : lineOfKey al bl (encP al bl x).key = (al ++ bl)[(tkOf al bl).idxOf x.text] := by
    simp only [lineOfKey, encP, encLine]
    rw [List.getD_eq_getElem?_getD, List.getElem?_eq_getElem hlt, Option.getD_some]
  have hyt : ((al ++ bl)[(tkOf al bl).idxOf x.text]).text = x.text := by
    have h1 := List.getElem_idxOf (List.idxOf_lt_length_iff.mpr hmem)
    simp only [tkOf, List.getElem_map] at h1
    exact h1
  rw [hy]
  obtain ⟨h1, h2⟩ := textFun_of htf (List.getElem_mem hlt) hx hyt
  simp only [encP, encLine, hyt, h1, h2]

theorem mem_of_cell (M : List Cell) (hj : noJunk M = true) {c : Cell} (hc : c ∈ M) :
    c.line ∈ olds M ∨ c.line ∈ news M := by
  simp only [noJunk, List.all_eq_true, Bool.or_eq_true] at hj
  rcases hj c hc with h | h
  · left
    exact List.mem_map.mpr ⟨c, List.mem_filter.mpr ⟨hc, h⟩, rfl⟩
  · right
    exact List.mem_map.mpr ⟨c, List.mem_filter.mpr ⟨hc, h⟩, rfl⟩

theorem getD_mem_of_lt {α : Type} [Inhabited α] (l : List α) (i : Nat) (h : i < l.length) : l.getD i default ∈ l := by
  rw [List.getD_eq_getElem?_getD, List.getElem?_eq_getElem h, Option.getD_some]
  exact List.getElem_mem h


theorem plan_decOK (al bl : List ALine) (rs : List NA.Acl.Range) (M : List Cell)
    (hcells : pairCells al bl rs = some M) (htf : textFunB (al ++ bl) = true)
    (hboth : (M.any fun c => c.old && c.new) = true) (hnn : ((news M).map (·.mkey)).Nodup) :
    ∀ op ∈ planIOS M, DecOK (tkOf al bl) (mkOf al bl) al bl op := by
  obtain ⟨ho, hn⟩ := NA.Acl.cellsOf_sound _ _ rs M hcells
  obtain ⟨g, hg⟩ := NA.Acl.plan_general M hboth hnn
  intro op hop
  rw [hg] at hop
  rcases List.mem_append.mp hop with h | h
  · obtain ⟨j, hj, hopj⟩ := List.mem_flatMap.mp h
    obtain ⟨hjl, hjn⟩ := NA.Acl.mem_addIdxI.mp hj
    have hline : (M.getD j default).line ∈ news M := by
      simp only [NA.Acl.Cell.newOnly, Bool.and_eq_true] at hjn
      exact List.mem_map.mpr ⟨M.getD j default, List.mem_filter.mpr ⟨getD_mem_of_lt M j hjl, hjn.1⟩, rfl⟩
    rw [hn] at hline
    obtain ⟨x, hx, hxe⟩ := List.mem_map.mp hline
    have hdec : encP al bl (lineOfKey al bl (M.getD j default).line.key) = (M.getD j default).line := by
      rw [← hxe]
      exact enc_lineOfKey al bl htf (List.mem_append_right _ hx)
    simp only [NA.Acl.cellOpsG, NA.Acl.itemOps, NA.Acl.newItem] at hopj
    split at hopj
    · simp only [List.mem_singleton] at hopj
      subst hopj
      exact hdec
    · split at hopj
      · simp at hopj
      · simp only [List.mem_singleton] at hopj
        subst hopj
        exact hdec
  · simp only [NA.Acl.delsOf, List.mem_map] at h
    obtain ⟨ai, _, rfl⟩ := h
    trivial


theorem evsRun_append (d : Dev) (a b : List Ev) :
    evsRun d (a ++ b) = (evsRun d a).bind fun d' => evsRun d' b := by
  simp [evsRun, List.foldlM_append]

theorem evsRun_single (d : Dev) (e : Ev) : evsRun d [e] = evRun d e := by
  simp [evsRun]

theorem iosLines_encE (tk mk : List String) (es : Entries) :
    iosLines (encE tk mk es) = (es.map (·.2)).map (encLine tk mk) := by
  simp [iosLines, encE, List.map_map, Function.comp_def]

theorem opChg_entry {tk mk : List String} {al bl : List ALine} {op : IOp} (h : DecOK tk mk al bl op) :
    isEntryCmd (opChg al bl op) = true := by
  cases op <;> first | rfl | exact absurd h id

theorem evRun_top_reseq (d : Dev) (aN : Name) (a b : Nat) (hhas : hasAcl d aN = true) :
    evRun d (.top (.reseq aN a b)) = some (putAcl d aN (reseq (entriesOf d aN) a b)) := by
  simp only [evRun, execTop, hhas, ↓reduceIte, toOpt, Option.map_some, putAcl]
  rfl

theorem hasAcl_putAcl (d : Dev) (n x : Name) (es : Entries) : hasAcl (putAcl d n es) x = hasAcl d x := by
  simp only [putAcl, hasAcl_strip, hasAcl_setAcl]

theorem names_putAcl (d : Dev) (n : Name) (es : Entries) : aclNames (putAcl d n es) = aclNames d :=
  names_setAcl d n es

theorem entriesOf_putAcl_self (d : Dev) (n : Name) (es : Entries) (h : hasAcl d n = true) :
    entriesOf (putAcl d n es) n = es := by
  simp only [putAcl, entriesOf_strip]; exact entriesOf_setAcl_self d n es h

theorem putAcl_putAcl (d : Dev) (n : Name) (es es' : Entries) : putAcl (putAcl d n es) n es' = putAcl d n es' := by
  simp only [putAcl, strip_setAcl, strip_strip]
  exact setAcl_setAcl ..

/-- `ios_acl_object_converges`, incremental branch: resequence, mode line, numbered adds / moves /
deletes, final resequence — all accepted; the ACL ends block-equivalent (modulo `log`) to the
target; nothing else changes. -/
theorem opIsAddMove_eq : opIsAddMove = NA.Acl.IOp.isAddMove := by
  funext op; cases op <;> rfl

/-- … and without a suppressed move (`noSupprPair`) the list ends as EXACTLY the target's (under the
numeric encoding of the pair; `ios_plan_converges_no_suppression_partial`). -/
theorem edit_incremental_x (aN : Name) (al bl : List ALine) (rs : List NA.Acl.Range)
    (hok : incrOK al bl rs = true) (d : Dev) (hhas : hasAcl d aN = true) (hmode : d.mode = none)
    (hnd : (aclNames d).Nodup) (hlines : (entriesOf d aN).map (·.2) = al) :
    ∃ esF, evsRun d (editEvents aN al bl rs) = some (putAcl d aN esF) ∧
      BlockEqG LineEqv ((esF.map (·.2)).map (encP al bl)) (bl.map (encP al bl)) ∧
      (noSupprPair al bl rs = true → (esF.map (·.2)).map (encP al bl) = bl.map (encP al bl)) := by
  simp only [incrOK, Bool.and_eq_true] at hok
  obtain ⟨⟨htf, hnf⟩, hM⟩ := hok
  cases hcells : pairCells al bl rs with
  | none => rw [hcells] at hM; cases hM
  | some M =>
    rw [hcells] at hM
    simp only [Bool.and_eq_true, decide_eq_true_eq, List.all_eq_true, Bool.not_eq_true'] at hM
    obtain ⟨⟨⟨⟨⟨hboth, hjunk⟩, hruns⟩, hno⟩, hnn⟩, hnr⟩ := hM
    have hruns' := (NA.Acl.runsShortB_iff M).mp hruns
    obtain ⟨ho, hn⟩ := NA.Acl.cellsOf_sound _ _ rs M hcells
    -- the device ACL is not empty (some line is kept)
    have hal : al.isEmpty = false := by
      cases al with
      | nil =>
        simp only [List.map_nil] at ho
        obtain ⟨c, hc, hcb⟩ := List.any_eq_true.mp hboth
        simp only [Bool.and_eq_true] at hcb
        have : c.line ∈ olds M := List.mem_map.mpr ⟨c, List.mem_filter.mpr ⟨hc, hcb.1⟩, rfl⟩
        rw [ho] at this
        cases this
      | cons a as => rfl
    -- lines with the same `mkey` are the same modulo `log`
    have hwf : ∀ i ∈ delIdx M, ∀ j ∈ addIdx M,
        (M.getD i default).line.mkey = (M.getD j default).line.mkey →
        LineEqv (M.getD i default).line (M.getD j default).line := by
      intro i hi j hj hk
      obtain ⟨hil, hio⟩ := NA.Acl.mem_delIdxI.mp hi
      obtain ⟨hjl, hjn⟩ := NA.Acl.mem_addIdxI.mp hj
      simp only [NA.Acl.Cell.oldOnly, NA.Acl.Cell.newOnly, Bool.and_eq_true] at hio hjn
      have h1 : (M.getD i default).line ∈ olds M :=
        List.mem_map.mpr ⟨_, List.mem_filter.mpr ⟨getD_mem_of_lt M i hil, hio.1⟩, rfl⟩
      have h2 : (M.getD j default).line ∈ news M :=
        List.mem_map.mpr ⟨_, List.mem_filter.mpr ⟨getD_mem_of_lt M j hjl, hjn.1⟩, rfl⟩
      rw [ho] at h1
      rw [hn] at h2
      obtain ⟨x, hx, hxe⟩ := List.mem_map.mp h1
      obtain ⟨y, hy, hye⟩ := List.mem_map.mp h2
      rw [← hxe, ← hye] at hk ⊢
      have hxm : x ∈ al ++ bl := List.mem_append_left _ hx
      have hym : y ∈ al ++ bl := List.mem_append_right _ hy
      have hnl : x.nolog = y.nolog :=
        idxOf_inj (l := mkOf al bl) (List.mem_map_of_mem hxm) (List.mem_map_of_mem hym) hk
      have hact := nologFun_of hnf hxm hym hnl
      simp only [LineEqv, encLine, hnl, hact, and_self]
    have hnr' : ∀ c ∈ M, c.line.remark = false := hnr
    obtain ⟨es, hes⟩ : ∃ es, es = entriesOf d aN := ⟨_, rfl⟩
    rw [← hes] at hlines
    obtain ⟨dev, hdevdef⟩ : ∃ dev, dev = encE (tkOf al bl) (mkOf al bl) es := ⟨_, rfl⟩
    have hdev : iosLines dev = olds M := by
      rw [hdevdef, iosLines_encE, hlines, ho]; rfl
    obtain ⟨tr, s, htr, hlast, hbe, _⟩ :=
      NA.Acl.IosAclProps.ios_plan_block_equiv_partial M hboth hjunk hruns' hno hnn hnr' hwf dev hdev
    have hexec := iosExec_of_trace _ _ tr s htr hlast
    rw [hdevdef, ← encE_reseq] at hexec
    have hdec := plan_decOK al bl rs M hcells htf hboth hnn
    obtain ⟨es', hrun, henc, _⟩ := sim_ops (tkOf al bl) (mkOf al bl) al bl (planIOS M) _ s
      (nodup_nums_reseq es 10000 10000 (by decide)) hdec hexec
    have hfin : BlockEqG LineEqv ((es'.map (·.2)).map (encP al bl)) (bl.map (encP al bl)) := by
      have : iosLines s = (es'.map (·.2)).map (encP al bl) := by rw [← henc, iosLines_encE]; rfl
      have hn' : news M = bl.map (encP al bl) := hn
      rw [← this, ← hn']; exact hbe
    have hfinx : noSupprPair al bl rs = true → (es'.map (·.2)).map (encP al bl) = bl.map (encP al bl) := by
      intro hns
      have hcount : ((planIOS M).filter NA.Acl.IOp.isAddMove).length = (NA.Acl.addIdx M).length := by
        unfold noSupprPair at hns
        rw [hal, Bool.false_or, hcells] at hns
        simp only [hboth, Bool.not_true, Bool.false_or, beq_iff_eq] at hns
        rw [← opIsAddMove_eq]; exact hns
      obtain ⟨tr2, s2, htr2, hlast2, hx⟩ :=
        NA.Acl.IosAclProps.ios_plan_converges_no_suppression_partial M hboth hjunk hruns' hno hnn hcount dev hdev
      have htt : tr2 = tr := by rw [htr] at htr2; exact (Option.some.inj htr2).symm
      rw [htt, hlast] at hlast2
      have hss : s2 = s := (Option.some.inj hlast2).symm
      rw [hss] at hx
      have : iosLines s = (es'.map (·.2)).map (encP al bl) := by rw [← henc, iosLines_encE]; rfl
      have hn' : news M = bl.map (encP al bl) := hn
      rw [← this, ← hn']; exact hx
    unfold editEvents
    simp only [hal, Bool.false_eq_true, ↓reduceIte, hcells, hboth, Bool.not_true]
    by_cases hops : (planIOS M).isEmpty = true
    · -- nothing to send: the resequence line is dropped again
      have hnil : planIOS M = [] := List.isEmpty_iff.mp hops
      simp only [hops, ↓reduceIte, evsRun, List.foldlM_cons, List.foldlM_nil, evRun]
      rw [hnil] at hrun
      have hrun' : reseq es 10000 10000 = es' := by simpa [entriesRun] using hrun
      have hsame : (es.map (·.2)).map (encP al bl) = (es'.map (·.2)).map (encP al bl) := by
        rw [← hrun', lines_reseq]
      refine ⟨es, ?_, ?_, ?_⟩
      · have h1 : strip d = d := by cases d; simp_all [strip]
        rw [hes, putAcl_self d aN hmode hnd]
        exact congrArg some h1
      · rw [hsame]; exact hfin
      · intro hns; rw [hsame]; exact hfinx hns
    · simp only [hops, Bool.false_eq_true, ↓reduceIte]
      have hmapev : (planIOS M).map (opEv aN al bl) = ((planIOS M).map (opChg al bl)).map (Ev.sub (.acl aN)) := by
        rw [List.map_map]
        apply List.map_congr_left
        intro op hop
        exact opEv_eq (hdec op hop) aN
      refine ⟨reseq es' 10 10, ?_, by rw [lines_reseq]; exact hfin, fun hns => by rw [lines_reseq]; exact hfinx hns⟩
      rw [hmapev, evsRun_append, evsRun_append, evsRun_single, evRun_top_reseq d aN _ _ hhas, Option.bind_some]
      have h1 : hasAcl (putAcl d aN (reseq es 10000 10000)) aN = true := by rw [hasAcl_putAcl]; exact hhas
      have h2 : (aclNames (putAcl d aN (reseq es 10000 10000))).Nodup := by rw [names_putAcl]; exact hnd
      have hsubs := evsRun_subs aN ((planIOS M).map (opChg al bl))
        (by intro c hc; obtain ⟨op, hop, rfl⟩ := List.mem_map.mp hc; exact opChg_entry (hdec op hop))
        _ h1 rfl h2
      rw [← hes, hsubs, entriesOf_putAcl_self d aN _ hhas, hrun]
      simp only [Option.map_some, Option.bind_some, putAcl_putAcl, evsRun_single]
      rw [evRun_top_reseq _ aN _ _ (by rw [hasAcl_putAcl]; exact hhas), entriesOf_putAcl_self d aN _ hhas,
        putAcl_putAcl]


theorem edit_incremental (aN : Name) (al bl : List ALine) (rs : List NA.Acl.Range)
    (hok : incrOK al bl rs = true) (d : Dev) (hhas : hasAcl d aN = true) (hmode : d.mode = none)
    (hnd : (aclNames d).Nodup) (hlines : (entriesOf d aN).map (·.2) = al) :
    ∃ esF, evsRun d (editEvents aN al bl rs) = some (putAcl d aN esF) ∧
      BlockEqG LineEqv ((esF.map (·.2)).map (encP al bl)) (bl.map (encP al bl)) := by
  obtain ⟨esF, h1, h2, _⟩ := edit_incremental_x aN al bl rs hok d hhas hmode hnd hlines
  exact ⟨esF, h1, h2⟩

/-! ## The branch "no parts equal" and the empty device ACL -/

theorem delAll_run (al : List ALine) (es : Entries) (h : es.map (·.2) = al) :
    entriesRun es (al.map Chg.noEntry) = some [] := by
  induction al generalizing es with
  | nil =>
    cases es with
    | nil => rfl
    | cons e es => cases h
  | cons l ls ih =>
    cases es with
    | nil => cases h
    | cons e es =>
      simp only [List.map_cons, List.cons.injEq] at h
      obtain ⟨h1, h2⟩ := h
      simp only [List.map_cons, entriesRun_cons, execEntry, List.any_cons, h1, beq_self_eq_true, Bool.true_or,
        ↓reduceIte, eraseFirst, toOpt, Option.bind_some]
      exact ih es h2

theorem addAll_run (bl : List ALine) (es : Entries) (h : appendOKFrom (es.map (·.2.nolog)) bl = true) :
    ∃ es', entriesRun es (bl.map Chg.entry) = some es' ∧ es'.map (·.2) = es.map (·.2) ++ bl.map typed := by
  induction bl generalizing es with
  | nil => exact ⟨es, rfl, by simp⟩
  | cons l ls ih =>
    simp only [appendOKFrom, Bool.and_eq_true, Bool.not_eq_true'] at h
    obtain ⟨h1, h2⟩ := h
    have hcol : (es.any fun e => collides e.2 l) = false := by
      rw [List.any_eq_false]
      intro e he
      simp only [collides, Bool.and_eq_true, bne_iff_ne, ne_eq, beq_iff_eq, not_and]
      intro hr hc
      have hmem : l.nolog ∈ es.map (·.2.nolog) := by
        rw [← hc]; exact List.mem_map_of_mem (f := fun e : Nat × ALine => e.2.nolog) he
      have : (l.act != NA.Acl.Act.remark && (es.map (·.2.nolog)).contains l.nolog) = true := by
        simp only [Bool.and_eq_true, bne_iff_ne, ne_eq, List.contains_iff_mem]
        exact ⟨hr, hmem⟩
      rw [this] at h1
      cases h1
    obtain ⟨es', hr, hl⟩ := ih (es ++ [((es.getLast?.map (·.1)).getD 0 + 10, typed l)])
      (by simpa [typed] using h2)
    refine ⟨es', ?_, ?_⟩
    · simp only [List.map_cons, entriesRun_cons, execEntry, hcol, Bool.false_eq_true, ↓reduceIte, toOpt,
        Option.bind_some]
      exact hr
    · rw [hl]; simp

theorem BlockEqG_of_eq {E : Line → Line → Prop} {x y : List Line} (h : x = y) : BlockEqG E x y := by
  subst h; exact BlockEqG.refl _

/-- `ios_acl_object_converges`, branch "no parts equal" (all entries deleted top-down, the target's
appended) and device ACL without entries: accepted; the ACL ends with exactly the target's lines. -/
theorem edit_replace (aN : Name) (al bl : List ALine) (rs : List NA.Acl.Range)
    (hok : replaceOK al bl rs = true) (d : Dev) (hhas : hasAcl d aN = true) (hmode : d.mode = none)
    (hnd : (aclNames d).Nodup) (hlines : (entriesOf d aN).map (·.2) = al) :
    ∃ esF, evsRun d (editEvents aN al bl rs) = some (putAcl d aN esF) ∧ esF.map (·.2) = bl.map typed := by
  simp only [replaceOK, Bool.and_eq_true, Bool.or_eq_true] at hok
  obtain ⟨happ, hcase⟩ := hok
  have hentry : ∀ c ∈ bl.map Chg.entry, isEntryCmd c = true := by
    intro c hc; obtain ⟨l, _, rfl⟩ := List.mem_map.mp hc; rfl
  have hnoent : ∀ c ∈ al.map Chg.noEntry, isEntryCmd c = true := by
    intro c hc; obtain ⟨l, _, rfl⟩ := List.mem_map.mp hc; rfl
  have hadd : (bl.map fun l => Ev.sub (.acl aN) (.entry l)) = (bl.map Chg.entry).map (Ev.sub (.acl aN)) := by
    rw [List.map_map]; rfl
  have hdel : (al.map fun l => Ev.sub (.acl aN) (.noEntry l)) = (al.map Chg.noEntry).map (Ev.sub (.acl aN)) := by
    rw [List.map_map]; rfl
  by_cases hal : al.isEmpty = true
  · have hnil : al = [] := List.isEmpty_iff.mp hal
    subst hnil
    have hes : entriesOf d aN = [] := by simpa using hlines
    obtain ⟨es', hr, hl⟩ := addAll_run bl [] (by simpa using happ)
    refine ⟨es', ?_, by simpa using hl⟩
    unfold editEvents
    simp only [List.isEmpty_nil, ↓reduceIte]
    rw [hadd, evsRun_subs aN _ hentry d hhas hmode hnd, hes, hr]
    rfl
  · have hal' : al.isEmpty = false := by simpa using hal
    rcases hcase with hc | hc
    · exact absurd hc hal
    · cases hcells : pairCells al bl rs with
      | none => rw [hcells] at hc; cases hc
      | some M =>
        rw [hcells] at hc
        simp only [Bool.not_eq_true'] at hc
        obtain ⟨es', hr, hl⟩ := addAll_run bl [] (by simpa using happ)
        refine ⟨es', ?_, by simpa using hl⟩
        unfold editEvents
        simp only [hal', Bool.false_eq_true, ↓reduceIte, hcells, hc, Bool.not_false]
        rw [hdel, hadd, evsRun_append, evsRun_subs aN _ hnoent d hhas hmode hnd, delAll_run al _ hlines]
        simp only [Option.map_some, Option.bind_some]
        rw [evsRun_subs aN _ hentry _ (by rw [hasAcl_putAcl]; exact hhas) rfl (by rw [names_putAcl]; exact hnd),
          entriesOf_putAcl_self d aN _ hhas, hr]
        simp only [Option.map_some, putAcl_putAcl]

end NA.F2
