import NA.Proofs.C03WholeT
/-
C03, whole-vsys theorems, part 13: the planner state of a pair without groups (`planState_plain`),
the nothing-in-common script as a contiguous walk, the planner's copies of the rule lists.
Core Lean only.
-/
namespace NA.PanOs

/-! ### The nothing-in-common script, as a contiguous walk -/

/-- `nothingCommon n m` with its insert range anchored where the walk stands. -/
def walkScript (n m : Nat) (rs : List Range) : List Range :=
  if rs = nothingCommon n m ∧ 0 < n ∧ 0 < m then [⟨0, n, 0, 0⟩, ⟨n, n, 0, m⟩] else rs

theorem walkScript_valid {eq : Nat → Nat → Bool} {n m : Nat} {rs : List Range}
    (hv : validScript eq n m rs = true) (hn : normalised rs = true) :
    validFrom eq n m 0 0 (walkScript n m rs) = true ∧ normalised (walkScript n m rs) = true := by
  unfold walkScript
  split
  · rename_i h
    obtain ⟨_, hn0, hm0⟩ := h
    have h1 : (0 == n) = false := by have : 0 ≠ n := by omega
                                     simpa using this
    have h2 : (0 == m) = false := by have : 0 ≠ m := by omega
                                     simpa using this
    constructor
    · simp [validFrom, Range.isInsert, Range.isDelete]
    · simp [normalised, Range.op, Range.isInsert, Range.isDelete, h1, h2]
  · rename_i h
    unfold validScript at hv
    rw [Bool.or_eq_true] at hv
    rcases hv with hv | hv
    · exact ⟨hv, hn⟩
    · simp only [Bool.and_eq_true, decide_eq_true_eq, beq_iff_eq] at hv
      exact absurd ⟨hv.2, hv.1.1, hv.1.2⟩ h

theorem walkScript_cases (n m : Nat) (rs : List Range) :
    walkScript n m rs = rs ∨ (rs = nothingCommon n m ∧ 0 < n ∧ 0 < m ∧ walkScript n m rs = [⟨0, n, 0, 0⟩, ⟨n, n, 0, m⟩]) := by
  unfold walkScript
  split
  · rename_i h; exact Or.inr ⟨h.1, h.2.1, h.2.2, rfl⟩
  · exact Or.inl rfl

theorem kind_del_of {n : Nat} : (⟨0, n, 0, 0⟩ : Range).kind = .del := by simp [Range.kind, Range.isDelete]

theorem kind_ins_of {a m : Nat} (hm : 0 < m) : (⟨a, a, 0, m⟩ : Range).kind = .ins := by
  have : (0 == m) = false := by have : 0 ≠ m := by omega
                                simpa using this
  simp [Range.kind, Range.isDelete, Range.isInsert, this]

/-- The requests and the target order do not depend on where the insert range of the
nothing-in-common script is anchored. -/
theorem walkScript_same (diff : Differ) (A B : List Rule) (rs : List Range) :
    plainRuleCmds diff A B (walkScript A.length B.length rs) = plainRuleCmds diff A B rs ∧
    targetOrder (ruleNames A) (ruleNames B) (walkScript A.length B.length rs) =
      targetOrder (ruleNames A) (ruleNames B) rs := by
  rcases walkScript_cases A.length B.length rs with h | ⟨h1, hn, hm, h2⟩
  · rw [h]; exact ⟨rfl, rfl⟩
  · rw [h2, h1]
    have hlen : (ruleNames A).length = A.length := by simp [ruleNames]
    have hnone1 : (ruleNames A)[max A.length A.length]? = none := by simp [hlen]
    have hnone2 : (ruleNames A)[max 0 A.length]? = none := by simp [hlen]
    constructor
    · simp only [plainRuleCmds, nothingCommon, phase1Cmds, insGroupsFrom, kind_del_of, kind_ins_of hm, hnone1, hnone2]
    · simp only [nothingCommon, targetOrder, kind_del_of, kind_ins_of hm]

/-! ### The planner state of a pair without groups -/

theorem markAddrs_sg : ∀ (fuel : Nat) (st : St) (l : List String),
    (markAddrs fuel st l).aSG = st.aSG := by
  intro fuel
  induction fuel with
  | zero => intro st l; rfl
  | succ fuel ih =>
    intro st l
    rw [markAddrs_succ]
    suffices h : ∀ (l : List String) (s : St), (l.foldl (markAddrStep fuel) s).aSG = s.aSG from h l st
    intro l
    induction l with
    | nil => intro s; rfl
    | cons x xs ihl =>
      intro s
      simp only [List.foldl_cons]
      rw [ihl]
      unfold markAddrStep
      split
      · rw [ih]
      · split
        · rfl
        · split
          · dsimp only
            split <;> rfl
          · rfl

theorem markSrvs_sg_nil : ∀ (fuel : Nat) (st : St) (l : List String), st.bSG = [] →
    (markSrvs fuel st l).aSG = st.aSG ∧ (markSrvs fuel st l).bSG = [] := by
  intro fuel
  induction fuel with
  | zero => intro st l h; exact ⟨rfl, h⟩
  | succ fuel ih =>
    intro st l
    rw [markSrvs_succ]
    suffices h : ∀ (l : List String) (s : St), s.bSG = [] →
        (l.foldl (markSrvStep fuel) s).aSG = s.aSG ∧ (l.foldl (markSrvStep fuel) s).bSG = [] from h l st
    intro l
    induction l with
    | nil => intro s h; exact ⟨rfl, h⟩
    | cons x xs ihl =>
      intro s hs
      simp only [List.foldl_cons]
      have hidx : s.bSGIdx x = none := by simp [St.bSGIdx, hs, lastIdx, lastIdxFrom]
      have hstep : (markSrvStep fuel s x).aSG = s.aSG ∧ (markSrvStep fuel s x).bSG = [] := by
        unfold markSrvStep
        rw [hidx]
        simp only
        split
        · exact ⟨rfl, hs⟩
        · split
          · split <;> exact ⟨rfl, hs⟩
          · exact ⟨rfl, hs⟩
      obtain ⟨h1, h2⟩ := ihl _ hstep.2
      exact ⟨h1.trans hstep.1, h2⟩

theorem markObjects_sg_nil (fuel : Nat) : ∀ (rules : List Rule) (st : St), st.aSG = [] → st.bSG = [] →
    (markObjects fuel st rules).aSG = [] ∧ (markObjects fuel st rules).bSG = [] := by
  intro rules
  induction rules with
  | nil => intro st h1 h2; exact ⟨h1, h2⟩
  | cons r rs ih =>
    intro st h1 h2
    unfold markObjects at ih ⊢
    simp only [List.foldl_cons]
    have hb : (markAddrs fuel (markAddrs fuel st r.src) r.dst).bSG = [] := by
      rw [(markAddrs_svc fuel _ r.dst).2.2, (markAddrs_svc fuel st r.src).2.2]; exact h2
    have ha : (markAddrs fuel (markAddrs fuel st r.src) r.dst).aSG = [] := by
      rw [markAddrs_sg, markAddrs_sg]; exact h1
    obtain ⟨g1, g2⟩ := markSrvs_sg_nil fuel _ r.srv hb
    exact ih _ (g1.trans ha) g2

/-- The final planner state of a pair without address-groups and service-groups. -/
theorem planState_plain (diff : Differ) (hd : GoodDiffer diff) (a b : Vsys)
    (hag : a.groups = []) (hbg : b.groups = []) (hasg : a.sgroups = []) (hbsg : b.sgroups = []) :
    (planState diff a b).aGrp = [] ∧ (planState diff a b).bGrp = [] ∧
    (planState diff a b).aSG = [] ∧ (planState diff a b).bSG = [] ∧
    (planState diff a b).out =
      plainRuleCmds diff (sortVsys a).rules
        (((sortVsys b).rules.zip (uniqNames (ruleNames (sortVsys a).rules) (ruleNames (sortVsys b).rules))).map
          (fun (r, n) => { r with name := n }))
        (ruleScript diff a b) := by
  unfold planState ruleScript
  simp only
  have hfuel : planFuel (sortVsys a) (sortVsys b) =
      ((sortVsys a).groups.length + (sortVsys b).groups.length + (sortVsys b).sgroups.length + 1) + 1 := rfl
  rw [hfuel]
  generalize (sortVsys a).groups.length + (sortVsys b).groups.length + (sortVsys b).sgroups.length + 1 = fuel
  have h0 : NoGrp (initSt (sortVsys a) (sortVsys b)
      (groupNamesFor (sortVsys a) (sortVsys b))) := by
    constructor <;> simp [initSt, sortVsys, hag, hbg]
  have h1 := markObjects_noGrp (fuel + 1) _ (sortVsys b).rules h0
  obtain ⟨s1, s2⟩ := markObjects_sg_nil (fuel + 1) (sortVsys b).rules
    (initSt (sortVsys a) (sortVsys b)
      (groupNamesFor (sortVsys a) (sortVsys b)))
    (by simp [initSt, sortVsys, hasg]) (by simp [initSt, sortVsys, hbsg])
  rw [diffRules_noGrp diff hd fuel _ h1]
  refine ⟨h1.1, h1.2, s1, s2, ?_⟩
  simp only [St.emitAll, markObjects_out]
  simp [initSt]

theorem filterMap_if {α β : Type} (p : α → Bool) (f : α → β) (l : List α) :
    l.filterMap (fun o => if p o then some (f o) else none) = (l.filter p).map f := by
  induction l with
  | nil => rfl
  | cons o os ih =>
    simp only [List.filterMap_cons, List.filter_cons]
    cases p o <;> simp [ih]

theorem removeCmds_plain (st : St) (hag : st.aGrp = []) (hasg : st.aSG = []) :
    removeCmds st =
      ((st.aAddr.filter (fun o => !o.needed)).map (fun o => Cmd.delAddr o.o.name)) ++
      ((st.aSvc.filter (fun o => !o.needed)).map (fun o => Cmd.delSvc o.o.name)) := by
  simp only [removeCmds, hag, hasg, List.filterMap_nil, List.nil_append, List.append_nil]
  rw [filterMap_if (fun (o : AObj) => !o.needed) (fun o => Cmd.delAddr o.o.name),
    filterMap_if (fun (o : AObj) => !o.needed) (fun o => Cmd.delSvc o.o.name)]

/-! ### The planner's copies of the rule lists -/

/-- The planner's sorted copy of one rule. -/
def sortRule (r : Rule) : Rule :=
  { r with src := sortStrings r.src, dst := sortStrings r.dst, srv := sortStrings r.srv }

theorem sortVsys_rules_getD (v : Vsys) (i : Nat) (h : i < v.rules.length) :
    (sortVsys v).rules.getD i default = sortRule (v.rules.getD i default) := by
  simp only [sortVsys, sortRule, List.getD_eq_getElem?_getD, List.getElem?_map, List.getElem?_eq_getElem h,
    Option.map_some, Option.getD_some]

theorem sortedCopy_sortVsys (a : Vsys) (hl : ∀ r ∈ a.rules, r.src.Nodup ∧ r.dst.Nodup) :
    SortedCopy a.rules (sortVsys a).rules := by
  refine ⟨by simp [sortVsys], ?_⟩
  intro i hi
  rw [sortVsys_rules_getD a i hi]
  have hmem : a.rules.getD i default ∈ a.rules := List.mem_of_getElem? (getElem?_of_lt a.rules i hi)
  obtain ⟨n1, n2⟩ := hl _ hmem
  exact ⟨rfl, rfl, sortStrings_sameMem _, sortStrings_sameMem _, sortStrings_sameMem _,
    sortStrings_nodup n1, sortStrings_nodup n2⟩

end NA.PanOs
