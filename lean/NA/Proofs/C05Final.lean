import NA.Proofs.C05Ok
/-!
C05: the rule-level round trip.  For a rule of the grammar whose option keys are distinct in both
spellings, the kernel's spelling and the user's spelling normalise to the same option map.
-/
namespace NA.C05
open NA.Linux NA.Linux.Spec

/-- The hypotheses of the round trip (all decidable). -/
structure RuleOK (cfg : KCfg) (r : ARule) : Prop where
  wf : ∀ a ∈ r, a.wf = true
  nodupU : ((userOpts r).map fun o => (pkv o).1).Nodup
  nodupK : ((kernelOpts cfg r).map fun o => (pkv o).1).Nodup
  /-- every `-m` names the state match or the rule's own protocol -/
  mOK : ∀ n, AOpt.mExplicit n ∈ r → n = s "state" ∨ some (lower n) = protoOf cfg r
  /-- the mark is not set by `--set-mark` and a convertible `--set-xmark` at once -/
  markOnce : xConv (pairsOf (userOpts r) []) = none ∨ getA kMark (pairsOf (userOpts r) []) = none

def mOKb (cfg : KCfg) (r : ARule) : AOpt → Bool
  | .mExplicit n => decide (n = s "state" ∨ some (lower n) = protoOf cfg r)
  | _ => true

instance (cfg : KCfg) (r : ARule) : Decidable (RuleOK cfg r) :=
  decidable_of_iff ((∀ a ∈ r, a.wf = true) ∧ ((userOpts r).map fun o => (pkv o).1).Nodup ∧
      ((kernelOpts cfg r).map fun o => (pkv o).1).Nodup ∧ (∀ a ∈ r, mOKb cfg r a = true) ∧
      (xConv (pairsOf (userOpts r) []) = none ∨ getA kMark (pairsOf (userOpts r) []) = none))
    ⟨fun ⟨h1, h2, h3, h4, h5⟩ => ⟨h1, h2, h3, fun n hn => by simpa [mOKb] using h4 _ hn, h5⟩,
     fun h => ⟨h.wf, h.nodupU, h.nodupK, fun a ha => by
       cases a with
       | mExplicit n => simpa [mOKb] using h.mOK n ha
       | _ => rfl, h.markOnce⟩⟩

/-! ### which option makes which key -/

theorem key_of_plain (n : Neg) (k : Str) (args : List Str) (h : k ≠ s "--tcp-flags") :
    (pkv ⟨n, k, args⟩).1 = k := by rw [pkv_plain n k args h]

theorem user_key (a : AOpt) (k : Str) (hk : k = kM ∨ k = kP) (h : (pkv a.user).1 = k) :
    (k = kM ∧ ∃ n, a = .mExplicit n) ∨ (k = kP ∧ ∃ n p u num, a = .proto n p u num) := by
  cases a with
  | mExplicit n =>
    simp only [AOpt.user] at h; rw [key_of_plain _ _ _ (by decide)] at h
    left; exact ⟨h.symm, n, rfl⟩
  | proto n p u num =>
    simp only [AOpt.user] at h; rw [key_of_plain _ _ _ (by decide)] at h
    right; exact ⟨h.symm, n, p, u, num, rfl⟩
  | syn n f =>
    exfalso; revert h
    rcases hk with e | e <;> subst e <;> cases n <;> cases f <;> decide
  | setMark hex mask x v =>
    exfalso; revert h
    simp only [AOpt.user]
    rcases hk with e | e <;> subst e <;> cases x <;>
      (simp only [↓reduceIte, Bool.false_eq_true]; rw [key_of_plain _ _ _ (by decide)]; decide)
  | src | dst | inIf | sport | dport | icmpType | state | jump | goto | logLevel | toSource =>
    exfalso; revert h
    simp only [AOpt.user]
    rw [key_of_plain _ _ _ (by decide)]
    rcases hk with e | e <;> subst e <;> decide

theorem kernel_key (cfg : KCfg) (a : AOpt) (k : Str) (hk : k = kM ∨ k = kP ∨ k = kMark)
    (h : (pkv (a.kernel cfg)).1 = k) :
    (k = kM ∧ ∃ n, a = .mExplicit n) ∨ (k = kP ∧ ∃ n p u num, a = .proto n p u num) := by
  cases a with
  | mExplicit n =>
    simp only [AOpt.kernel] at h; rw [key_of_plain _ _ _ (by decide)] at h
    left; exact ⟨h.symm, n, rfl⟩
  | proto n p u num =>
    simp only [AOpt.kernel] at h; rw [key_of_plain _ _ _ (by decide)] at h
    right; exact ⟨h.symm, n, p, u, num, rfl⟩
  | syn n f =>
    exfalso; revert h
    obtain ⟨names⟩ := cfg
    rcases hk with e | e | e <;> subst e <;> cases n <;> cases f <;> cases names <;> decide
  | src | dst | inIf | sport | dport | icmpType | state | jump | goto | logLevel | toSource | setMark =>
    exfalso; revert h
    simp only [AOpt.kernel]
    rw [key_of_plain _ _ _ (by decide)]
    rcases hk with e | e | e <;> subst e <;> decide

/-! ### protocol values never look like a match name -/

theorem protoOf_mem (cfg : KCfg) (r : ARule) (p : Str) (h : protoOf cfg r = some p) :
    ∃ P u num, AOpt.proto .no P u num ∈ r ∧ P.kname cfg.protoNames = p := by
  induction r with
  | nil => simp [protoOf] at h
  | cons a as ih =>
    cases a with
    | proto n P u num =>
      cases n with
      | no =>
        simp only [protoOf, Option.some.injEq] at h
        exact ⟨P, u, num, by simp, h⟩
      | before | after =>
        simp only [protoOf] at h
        obtain ⟨P', u', num', hm, hp⟩ := ih h
        exact ⟨P', u', num', by simp [hm], hp⟩
    | src | dst | inIf | sport | dport | syn | icmpType | mExplicit | state | jump | goto | logLevel | setMark | toSource =>
      simp only [protoOf] at h
      obtain ⟨P', u', num', hm, hp⟩ := ih h
      exact ⟨P', u', num', by simp [hm], hp⟩

theorem equalFold_false_of_head (a b : Str) (ca cb : Char) (ha : (lower a).head? = some ca)
    (hb : (lower b).head? = some cb) (hne : ca ≠ cb) : equalFold a b = false := by
  unfold equalFold
  cases h : (lower a == lower b) with
  | false => rfl
  | true =>
    have e : lower a = lower b := by simpa using h
    rw [e, hb] at ha
    exact absurd (Option.some.inj ha).symm hne

/-- Any value a well formed protocol option can take does not fold to `state`. -/
theorem proto_not_state (cfg : KCfg) (n : Neg) (P : Proto) (u num : Bool) (hwf : (AOpt.proto n P u num).wf = true) :
    equalFold (s "state") ((if n.isNeg = true then ['!'] else []) ++ P.uname u num) = false ∧
    equalFold (s "state") ((if n.isNeg = true then ['!'] else []) ++ P.kname cfg.protoNames) = false := by
  cases P with
  | num d =>
    simp only [AOpt.wf, Bool.and_eq_true] at hwf
    have hd := canonNum_digits hwf.1.1
    have hu : (Proto.num d).uname u num = d := by
      unfold Proto.uname Proto.kname
      cases u <;> simp [upper_digits hd]
    rw [hu]
    have hk : (Proto.num d).kname cfg.protoNames = d := rfl
    rw [hk]
    have key : equalFold (s "state") ((if n.isNeg = true then ['!'] else []) ++ d) = false := by
      cases d with
      | nil => simp [canonNum] at hwf
      | cons c cs =>
        simp only [List.all_cons, Bool.and_eq_true] at hd
        have hc := hd.1
        have hcs : c ≠ 's' := by intro e; subst e; simp [isDigit] at hc
        cases n
        · exact equalFold_false_of_head (s "state") _ 's' c (by decide)
            (by simp [Neg.isNeg, lower, lowerC_of_digit hc]) (fun e => hcs e.symm)
        · exact equalFold_false_of_head (s "state") _ 's' '!' (by decide) (by simp [Neg.isNeg, lower]; decide) (by decide)
        · exact equalFold_false_of_head (s "state") _ 's' '!' (by decide) (by simp [Neg.isNeg, lower]; decide) (by decide)
    exact ⟨key, key⟩
  | tcp => obtain ⟨names⟩ := cfg; cases n <;> cases u <;> cases num <;> cases names <;> decide
  | udp => obtain ⟨names⟩ := cfg; cases n <;> cases u <;> cases num <;> cases names <;> decide
  | icmp => obtain ⟨names⟩ := cfg; cases n <;> cases u <;> cases num <;> cases names <;> decide
  | vrrp => obtain ⟨names⟩ := cfg; cases n <;> cases u <;> cases num <;> cases names <;> decide
  | ipv6icmp => obtain ⟨names⟩ := cfg; cases n <;> cases u <;> cases num <;> cases names <;> decide

theorem equalFold_self (a : Str) : equalFold a a = true := by simp [equalFold]

/-- A protocol whose kernel name is the (lower case) name of an explicit match is spelled by the
user with that name in some case. -/
theorem pm_fold (cfg : KCfg) (P : Proto) (u num : Bool) (c : Str)
    (hc : c = s "state" ∨ c = s "tcp" ∨ c = s "udp" ∨ c = s "icmp")
    (hwf : (AOpt.proto .no P u num).wf = true) (hk : P.kname cfg.protoNames = c) :
    lower (P.uname u num) = c := by
  cases P with
  | num d =>
    simp only [AOpt.wf, Bool.and_eq_true] at hwf
    have : d = c := hk
    subst this
    exfalso
    rcases hc with e | e | e | e <;> rw [e] at hwf <;> exact absurd hwf.1.1 (by decide)
  | tcp => obtain ⟨names⟩ := cfg; revert hk hwf; rcases hc with e | e | e | e <;> subst e <;> cases u <;> cases num <;> cases names <;> decide
  | udp => obtain ⟨names⟩ := cfg; revert hk hwf; rcases hc with e | e | e | e <;> subst e <;> cases u <;> cases num <;> cases names <;> decide
  | icmp => obtain ⟨names⟩ := cfg; revert hk hwf; rcases hc with e | e | e | e <;> subst e <;> cases u <;> cases num <;> cases names <;> decide
  | vrrp => obtain ⟨names⟩ := cfg; revert hk hwf; rcases hc with e | e | e | e <;> subst e <;> cases u <;> cases num <;> cases names <;> decide
  | ipv6icmp => obtain ⟨names⟩ := cfg; revert hk hwf; rcases hc with e | e | e | e <;> subst e <;> cases u <;> cases num <;> cases names <;> decide

theorem mname_cases {n : Str} (h : (AOpt.mExplicit n).wf = true) :
    lower n = s "state" ∨ lower n = s "tcp" ∨ lower n = s "udp" ∨ lower n = s "icmp" := by
  simp only [AOpt.wf, Bool.or_eq_true, decide_eq_true_eq] at h
  rcases h with ((h | h) | h) | h
  · left; subst h; decide
  · right; left; exact h
  · right; right; left; exact h
  · right; right; right; exact h

/-- The rule-level round trip. -/
theorem rule_roundtrip (cfg : KCfg) (r : ARule) (H : RuleOK cfg r) :
    PairsEq (normalize (pairsOf (kernelOpts cfg r) [])) (normalize (pairsOf (userOpts r) [])) := by
  -- lookups in the two parsed maps
  have LU : ∀ k v, getA k (pairsOf (userOpts r) []) = some v ↔ ∃ a ∈ r, pkv a.user = (k, v) := by
    intro k v
    rw [getA_pairsOf_iff _ H.nodupU]
    simp only [userOpts, List.mem_map]
    constructor
    · rintro ⟨o, ⟨a, ha, e⟩, h⟩; exact ⟨a, ha, e ▸ h⟩
    · rintro ⟨a, ha, h⟩; exact ⟨a.user, ⟨a, ha, rfl⟩, h⟩
  have LK : ∀ k v, getA k (pairsOf (kernelOpts cfg r) []) = some v ↔
      (∃ a ∈ r, isPM (protoOf cfg r) a = false ∧ pkv (a.kernel cfg) = (k, v)) ∨
      (∃ p, protoOf cfg r = some p ∧ r.any (inPG (protoOf cfg r)) = true ∧ (kM, p) = (k, v)) := by
    intro k v
    rw [getA_pairsOf_iff _ H.nodupK]
    constructor
    · rintro ⟨o, ho, h⟩
      rcases (mem_kernelOpts cfg r o).mp ho with ⟨a, ha, hp, e⟩ | ⟨p, hp, hany, e⟩
      · left; exact ⟨a, ha, hp, e ▸ h⟩
      · right; refine ⟨p, hp, hany, ?_⟩
        rw [e, pkv_plain _ _ _ (by decide), value_no, join1] at h; exact h
    · rintro (⟨a, ha, hp, h⟩ | ⟨p, hp, hany, h⟩)
      · exact ⟨a.kernel cfg, (mem_kernelOpts cfg r _).mpr (Or.inl ⟨a, ha, hp, rfl⟩), h⟩
      · refine ⟨⟨.no, s "-m", [p]⟩, (mem_kernelOpts cfg r _).mpr (Or.inr ⟨p, hp, hany, rfl⟩), ?_⟩
        rw [pkv_plain _ _ _ (by decide), value_no, join1]; exact h
  -- the kernel never prints `--set-mark`
  have sideK : getA kMark (pairsOf (kernelOpts cfg r) []) = none := by
    cases hg : getA kMark (pairsOf (kernelOpts cfg r) []) with
    | none => rfl
    | some v =>
      exfalso
      rcases (LK kMark v).mp hg with ⟨a, _, _, h⟩ | ⟨p, _, _, h⟩
      · rcases kernel_key cfg a kMark (Or.inr (Or.inr rfl)) (by rw [h]) with ⟨e, _⟩ | ⟨e, _⟩
        · exact absurd e (by decide)
        · exact absurd e (by decide)
      · exact absurd (show kM = kMark from congrArg Prod.fst h) (by decide)
  -- the value of `-p` in either map does not fold to `state`
  have pU : equalFold (s "state") ((getA kP (pairsOf (userOpts r) [])).getD []) = false := by
    cases hg : getA kP (pairsOf (userOpts r) []) with
    | none => decide
    | some v =>
      obtain ⟨a, ha, h⟩ := (LU kP v).mp hg
      rcases user_key a kP (Or.inr rfl) (by rw [h]) with ⟨e, _⟩ | ⟨_, n, P, u, num, e⟩
      · exact absurd e (by decide)
      · subst e
        simp only [AOpt.user] at h
        rw [pkv_plain _ _ _ (by decide), value_neg] at h
        rw [Option.getD_some, ← (Prod.mk.inj h).2]
        exact (proto_not_state cfg n P u num (H.wf _ ha)).1
  have pK : equalFold (s "state") ((getA kP (pairsOf (kernelOpts cfg r) [])).getD []) = false := by
    cases hg : getA kP (pairsOf (kernelOpts cfg r) []) with
    | none => decide
    | some v =>
      rcases (LK kP v).mp hg with ⟨a, ha, _, h⟩ | ⟨p, _, _, h⟩
      · rcases kernel_key cfg a kP (Or.inr (Or.inl rfl)) (by rw [h]) with ⟨e, _⟩ | ⟨_, n, P, u, num, e⟩
        · exact absurd e (by decide)
        · subst e
          simp only [AOpt.kernel] at h
          rw [pkv_plain _ _ _ (by decide), value_neg, b2neg_isNeg] at h
          rw [Option.getD_some, ← (Prod.mk.inj h).2]
          exact (proto_not_state cfg n P u num (H.wf _ ha)).2
      · exact absurd (show kM = kP from congrArg Prod.fst h) (by decide)
  -- (a) an explicit match naming the protocol is dropped on the user's side
  have dropU : ∀ n, AOpt.mExplicit n ∈ r → isPM (protoOf cfg r) (.mExplicit n) = true →
      mDrop (pairsOf (userOpts r) []) = true := by
    intro n hn hpm
    have hpn : protoOf cfg r = some (lower n) := by
      simp only [isPM, beq_iff_eq] at hpm; exact hpm.symm
    obtain ⟨P, u, num, hP, hkn⟩ := protoOf_mem cfg r _ hpn
    have hm : getA kM (pairsOf (userOpts r) []) = some n := (LU kM n).mpr ⟨_, hn, by
      simp only [AOpt.user]; rw [pkv_plain _ _ _ (by decide), value_no, join1]; rfl⟩
    have hp : getA kP (pairsOf (userOpts r) []) = some (P.uname u num) := (LU kP _).mpr ⟨_, hP, by
      simp only [AOpt.user]; rw [pkv_plain _ _ _ (by decide), value_neg]; rfl⟩
    unfold mDrop
    rw [hm, hp]
    simp only [Option.getD_some, equalFold, beq_iff_eq]
    exact (pm_fold cfg P u num (lower n) (mname_cases (H.wf _ hn)) (H.wf _ hP) hkn).symm
  -- (b) the state match is kept on both sides
  have keepS : ∀ n, AOpt.mExplicit n ∈ r → isPM (protoOf cfg r) (.mExplicit n) = false →
      n = s "state" ∧ mDrop (pairsOf (userOpts r) []) = false ∧ mDrop (pairsOf (kernelOpts cfg r) []) = false := by
    intro n hn hpm
    have hs : n = s "state" := by
      rcases H.mOK n hn with h | h
      · exact h
      · simp [isPM, h] at hpm
    subst hs
    have hmU : getA kM (pairsOf (userOpts r) []) = some (s "state") := (LU kM _).mpr ⟨_, hn, by
      simp only [AOpt.user]; rw [pkv_plain _ _ _ (by decide), value_no, join1]; rfl⟩
    have hmK : getA kM (pairsOf (kernelOpts cfg r) []) = some (s "state") := (LK kM _).mpr (Or.inl ⟨_, hn, hpm, by
      simp only [AOpt.kernel]; rw [pkv_plain _ _ _ (by decide), value_no, join1]; decide⟩)
    refine ⟨rfl, ?_, ?_⟩
    · unfold mDrop; rw [hmU]; exact pU
    · unfold mDrop; rw [hmK]; exact pK
  -- (c) the protocol match the kernel prints is dropped
  have dropK : ∀ p, protoOf cfg r = some p → r.any (inPG (protoOf cfg r)) = true →
      mDrop (pairsOf (kernelOpts cfg r) []) = true := by
    intro p hp hany
    obtain ⟨P, u, num, hP, hkn⟩ := protoOf_mem cfg r p hp
    have hm : getA kM (pairsOf (kernelOpts cfg r) []) = some p := (LK kM p).mpr (Or.inr ⟨p, hp, hany, rfl⟩)
    have hpp : getA kP (pairsOf (kernelOpts cfg r) []) = some p := (LK kP p).mpr (Or.inl ⟨_, hP, rfl, by
      simp only [AOpt.kernel]; rw [pkv_plain _ _ _ (by decide), value_neg, hkn]; rfl⟩)
    unfold mDrop
    rw [hm, hpp]
    exact equalFold_self p
  -- the normal forms have the same entries
  intro k'
  apply Option.ext
  intro v'
  rw [normalize_entries _ (Or.inr sideK), normalize_entries _ H.markOnce]
  constructor
  · rintro ⟨k, v, hg, hn⟩
    rcases (LK k v).mp hg with ⟨a, ha, hpm, h⟩ | ⟨p, hp, hany, h⟩
    · by_cases hm : ∃ n, a = .mExplicit n
      · obtain ⟨n, e⟩ := hm
        subst e
        obtain ⟨hs, hU, hK⟩ := keepS n ha hpm
        subst hs
        refine ⟨kM, s "state", (LU kM _).mpr ⟨_, ha, by
          simp only [AOpt.user]; rw [pkv_plain _ _ _ (by decide), value_no, join1]; rfl⟩, ?_⟩
        have hkv : (k, v) = (kM, s "state") := by
          rw [← h]; simp only [AOpt.kernel]; rw [pkv_plain _ _ _ (by decide), value_no, join1]; decide
        rw [hU, ← hK, ← hkv]; exact hn
      · refine ⟨(pkv a.user).1, (pkv a.user).2, (LU _ _).mpr ⟨a, ha, rfl⟩, ?_⟩
        have := opt_roundtrip cfg a (H.wf a ha) (fun n e => hm ⟨n, e⟩)
          (mDrop (pairsOf (userOpts r) [])) (mDrop (pairsOf (kernelOpts cfg r) []))
        rw [this, h]; exact hn
    · exfalso
      rw [dropK p hp hany, ← h] at hn
      simp [nEntry] at hn
  · rintro ⟨k, v, hg, hn⟩
    obtain ⟨a, ha, h⟩ := (LU k v).mp hg
    by_cases hm : ∃ n, a = .mExplicit n
    · obtain ⟨n, e⟩ := hm
      subst e
      have hkv : (k, v) = (kM, n) := by
        rw [← h]; simp only [AOpt.user]; rw [pkv_plain _ _ _ (by decide), value_no, join1]; rfl
      cases hpm : isPM (protoOf cfg r) (.mExplicit n) with
      | true =>
        exfalso
        rw [dropU n ha hpm, hkv] at hn
        simp [nEntry] at hn
      | false =>
        obtain ⟨hs, hU, hK⟩ := keepS n ha hpm
        subst hs
        refine ⟨kM, s "state", (LK kM _).mpr (Or.inl ⟨_, ha, hpm, by
          simp only [AOpt.kernel]; rw [pkv_plain _ _ _ (by decide), value_no, join1]; decide⟩), ?_⟩
        rw [hK, ← hU, ← hkv]; exact hn
    · have hpm : isPM (protoOf cfg r) a = false := by
        cases a <;> first | rfl | exact absurd ⟨_, rfl⟩ hm
      refine ⟨(pkv (a.kernel cfg)).1, (pkv (a.kernel cfg)).2, (LK _ _).mpr (Or.inl ⟨a, ha, hpm, rfl⟩), ?_⟩
      have := opt_roundtrip cfg a (H.wf a ha) (fun n e => hm ⟨n, e⟩)
        (mDrop (pairsOf (userOpts r) [])) (mDrop (pairsOf (kernelOpts cfg r) []))
      rw [← this, h]; exact hn

/-! ### no key of a parsed and normalised rule is the empty string -/

theorem keys_normalize (p : Pairs) (k : Str) (h : k ∈ keysA (normalize p)) : k ∈ keysA p ∨ k = kMark := by
  obtain ⟨v, hv⟩ := (hasA_iff k _).mp ((mem_keysA k _).mp h)
  rw [getA_normalize] at hv
  by_cases hk : k = kMark
  · right; exact hk
  · left
    apply (mem_keysA k p).mpr
    apply (hasA_iff k p).mpr
    cases hx : xConv p with
    | none =>
      simp only [hx] at hv
      by_cases hd : k = kM ∧ mDrop p = true
      · simp [hd] at hv
      · rw [if_neg hd] at hv
        cases hg : getA k p with
        | none => simp [hg] at hv
        | some w => exact ⟨w, rfl⟩
    | some xv =>
      simp only [hx, if_neg hk] at hv
      by_cases h2 : k = kXmark
      · simp [h2] at hv
      · rw [if_neg h2] at hv
        by_cases hd : k = kM ∧ mDrop p = true
        · simp [hd] at hv
        · rw [if_neg hd] at hv
          cases hg : getA k p with
          | none => simp [hg] at hv
          | some w => exact ⟨w, rfl⟩

theorem pkv_key_ne_nil (o : OptW) (h : OptOK o) : (pkv o).1 ≠ [] := by
  unfold pkv fixSyn
  split
  · show s "--syn" ≠ []; decide
  · intro e
    have := h.1
    simp only at e
    rw [e] at this
    simp [startsWithDash] at this

theorem pairsOf_keys (l : List OptW) (acc : Pairs) (k : Str) (h : k ∈ keysA (pairsOf l acc)) :
    k ∈ keysA acc ∨ ∃ o ∈ l, (pkv o).1 = k := by
  induction l generalizing acc with
  | nil => left; exact h
  | cons o os ih =>
    simp only [pairsOf, List.foldl_cons] at ih h
    rcases ih _ h with h1 | ⟨o', ho', hk⟩
    · obtain ⟨v, hv⟩ := (hasA_iff k _).mp ((mem_keysA k _).mp h1)
      rw [getA_setA] at hv
      by_cases he : (pkv o).1 = k
      · right; exact ⟨o, by simp, he⟩
      · left
        rw [if_neg he] at hv
        exact (mem_keysA k acc).mpr ((hasA_iff k acc).mpr ⟨v, hv⟩)
    · right; exact ⟨o', by simp [ho'], hk⟩

theorem normalize_pairsOf_NE (l : List OptW) (h : ∀ o ∈ l, OptOK o) : NEPairs (normalize (pairsOf l [])) := by
  intro hm
  rcases keys_normalize _ _ hm with h1 | h1
  · rcases pairsOf_keys l [] [] h1 with h2 | ⟨o, ho, hk⟩
    · simp [keysA] at h2
    · exact pkv_key_ne_nil o (h o ho) hk
  · exact absurd h1 (by decide)

end NA.C05
