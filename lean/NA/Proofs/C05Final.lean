import NA.Proofs.C05Ok
/-!
C05: the rule-level round trip.  For a rule of the grammar whose option keys are distinct in both
spellings, the kernel's spelling and the user's spelling normalise to the same option map.
-/
namespace NA.C05
open NA.Linux NA.Linux.Spec

/-- The hypotheses of the round trip (all decidable). -/
structure RuleOK (cfg : KCfg) (r : ARule) : Prop where
  wf : ∀ a ∈ r, a.wf = true
  nodupU : ((userOpts r).map fun o => (pkv o).1).Nodup
  nodupK : ((kernelOpts cfg r).map fun o => (pkv o).1).Nodup
  /-- every `-m` names the state match or the rule's own protocol -/
  mOK : ∀ n, AOpt.mExplicit n ∈ r → n = s "state" ∨ some (lower n) = protoOf cfg r
  /-- the mark is not set by `--set-mark` and a convertible `--set-xmark` at once -/
  markOnce : xConv (pairsOf (userOpts r) []) = none ∨ getA kMark (pairsOf (userOpts r) []) = none

/-! ### which option makes which key -/

theorem key_of_plain (n : Neg) (k : Str) (args : List Str) (h : k ≠ s "--tcp-flags") :
    (pkv ⟨n, k, args⟩).1 = k := by rw [pkv_plain n k args h]

theorem user_key (a : AOpt) (k : Str) (hk : k = kM ∨ k = kP) (h : (pkv a.user).1 = k) :
    (k = kM ∧ ∃ n, a = .mExplicit n) ∨ (k = kP ∧ ∃ n p u num, a = .proto n p u num) := by
  cases a with
  | mExplicit n =>
    simp only [AOpt.user] at h; rw [key_of_plain _ _ _ (by decide)] at h
    left; exact ⟨h.symm, n, rfl⟩
  | proto n p u num =>
    simp only [AOpt.user] at h; rw [key_of_plain _ _ _ (by decide)] at h
    right; exact ⟨h.symm, n, p, u, num, rfl⟩
  | syn n f =>
    exfalso; revert h
    rcases hk with e | e <;> subst e <;> cases n <;> cases f <;> decide
  | setMark hex x v =>
    exfalso; revert h
    simp only [AOpt.user]
    rcases hk with e | e <;> subst e <;> cases x <;>
      (simp only [↓reduceIte, Bool.false_eq_true]; rw [key_of_plain _ _ _ (by decide)]; decide)
  | src | dst | inIf | sport | dport | icmpType | state | jump | goto | logLevel | toSource =>
    exfalso; revert h
    simp only [AOpt.user]
    rw [key_of_plain _ _ _ (by decide)]
    rcases hk with e | e <;> subst e <;> decide

theorem kernel_key (cfg : KCfg) (a : AOpt) (k : Str) (hk : k = kM ∨ k = kP ∨ k = kMark)
    (h : (pkv (a.kernel cfg)).1 = k) :
    (k = kM ∧ ∃ n, a = .mExplicit n) ∨ (k = kP ∧ ∃ n p u num, a = .proto n p u num) := by
  cases a with
  | mExplicit n =>
    simp only [AOpt.kernel] at h; rw [key_of_plain _ _ _ (by decide)] at h
    left; exact ⟨h.symm, n, rfl⟩
  | proto n p u num =>
    simp only [AOpt.kernel] at h; rw [key_of_plain _ _ _ (by decide)] at h
    right; exact ⟨h.symm, n, p, u, num, rfl⟩
  | syn n f =>
    exfalso; revert h
    obtain ⟨names⟩ := cfg
    rcases hk with e | e | e <;> subst e <;> cases n <;> cases f <;> cases names <;> decide
  | src | dst | inIf | sport | dport | icmpType | state | jump | goto | logLevel | toSource | setMark =>
    exfalso; revert h
    simp only [AOpt.kernel]
    rw [key_of_plain _ _ _ (by decide)]
    rcases hk with e | e | e <;> subst e <;> decide

/-! ### protocol values never look like a match name -/

theorem protoOf_mem (cfg : KCfg) (r : ARule) (p : Str) (h : protoOf cfg r = some p) :
    ∃ P u num, AOpt.proto .no P u num ∈ r ∧ P.kname cfg.protoNames = p := by
  induction r with
  | nil => simp [protoOf] at h
  | cons a as ih =>
    cases a with
    | proto n P u num =>
      cases n with
      | no =>
        simp only [protoOf, Option.some.injEq] at h
        exact ⟨P, u, num, by simp, h⟩
      | before | after =>
        simp only [protoOf] at h
        obtain ⟨P', u', num', hm, hp⟩ := ih h
        exact ⟨P', u', num', by simp [hm], hp⟩
    | src | dst | inIf | sport | dport | syn | icmpType | mExplicit | state | jump | goto | logLevel | setMark | toSource =>
      simp only [protoOf] at h
      obtain ⟨P', u', num', hm, hp⟩ := ih h
      exact ⟨P', u', num', by simp [hm], hp⟩

theorem equalFold_false_of_head (a b : Str) (ca cb : Char) (ha : (lower a).head? = some ca)
    (hb : (lower b).head? = some cb) (hne : ca ≠ cb) : equalFold a b = false := by
  unfold equalFold
  cases h : (lower a == lower b) with
  | false => rfl
  | true =>
    have e : lower a = lower b := by simpa using h
    rw [e, hb] at ha
    exact absurd (Option.some.inj ha).symm hne

/-- Any value a well formed protocol option can take does not fold to `state`. -/
theorem proto_not_state (cfg : KCfg) (n : Neg) (P : Proto) (u num : Bool) (hwf : (AOpt.proto n P u num).wf = true) :
    equalFold (s "state") ((if n.isNeg = true then ['!'] else []) ++ P.uname u num) = false ∧
    equalFold (s "state") ((if n.isNeg = true then ['!'] else []) ++ P.kname cfg.protoNames) = false := by
  cases P with
  | num d =>
    simp only [AOpt.wf, Bool.and_eq_true] at hwf
    have hd := canonNum_digits hwf.1
    have hu : (Proto.num d).uname u num = d := by
      unfold Proto.uname Proto.kname
      cases u <;> simp [upper_digits hd]
    rw [hu]
    have hk : (Proto.num d).kname cfg.protoNames = d := rfl
    rw [hk]
    have key : equalFold (s "state") ((if n.isNeg = true then ['!'] else []) ++ d) = false := by
      cases d with
      | nil => simp [canonNum] at hwf
      | cons c cs =>
        simp only [List.all_cons, Bool.and_eq_true] at hd
        have hc := hd.1
        have hcs : c ≠ 's' := by intro e; subst e; simp [isDigit] at hc
        cases n
        · exact equalFold_false_of_head (s "state") _ 's' c (by decide)
            (by simp [Neg.isNeg, lower, lowerC_of_digit hc]) (fun e => hcs e.symm)
        · exact equalFold_false_of_head (s "state") _ 's' '!' (by decide) (by simp [Neg.isNeg, lower]; decide) (by decide)
        · exact equalFold_false_of_head (s "state") _ 's' '!' (by decide) (by simp [Neg.isNeg, lower]; decide) (by decide)
    exact ⟨key, key⟩
  | tcp => obtain ⟨names⟩ := cfg; cases n <;> cases u <;> cases num <;> cases names <;> decide
  | udp => obtain ⟨names⟩ := cfg; cases n <;> cases u <;> cases num <;> cases names <;> decide
  | icmp => obtain ⟨names⟩ := cfg; cases n <;> cases u <;> cases num <;> cases names <;> decide
  | vrrp => obtain ⟨names⟩ := cfg; cases n <;> cases u <;> cases num <;> cases names <;> decide
  | ipv6icmp => obtain ⟨names⟩ := cfg; cases n <;> cases u <;> cases num <;> cases names <;> decide

end NA.C05
