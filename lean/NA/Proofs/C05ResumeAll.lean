import NA.Proofs.C05Resume
import NA.Proofs.C05Restore
/-!
C05 / C10: the whole Linux approve as a list of steps — the single `ip route` commands, then (if the
rule sets differ) copy of the restore file, its load (atomic: `iptables-restore` either happened or
not) and the move to the start-up file, then (if routes changed) the copy of the start-up routing
file — cut at ANY position, followed by a second, undisturbed approve.
-/
namespace NA.C05
open NA.Linux NA.Linux.Spec

/-- The Linux host: running routes, running rule sets, and whether the two start-up files hold the target. -/
structure LDev where
  routes : RTable
  ipt : KState
  bootIpt : Bool
  bootRt : Bool

inductive AStep
  | rcmd (c : RCmd)     -- one `ip route add|del`
  | copyIpt             -- scp of packet-filter.new
  | load                -- packet-filter.new executed: iptables-restore
  | mvIpt               -- mv packet-filter.new packet-filter
  | copyRt              -- scp of the start-up routing file
  deriving DecidableEq

/-- One step on the host; `file` is the restore file of the target. -/
def stepDev (file : List RLn) (d : LDev) : AStep → Option LDev
  | .rcmd c => (stepCmd d.routes c).map fun t => { d with routes := t }
  | .copyIpt => some d
  | .load => (restore d.ipt file).map fun st => { d with ipt := st }
  | .mvIpt => some { d with bootIpt := true }
  | .copyRt => some { d with bootRt := true }

def runSteps (file : List RLn) : LDev → List AStep → Option LDev
  | d, [] => some d
  | d, x :: xs => match stepDev file d x with
    | some d' => runSteps file d' xs
    | none => none

/-- `ApplyCommands`: routes, then iptables (only if a difference was found), then the routing file
(only if there were route commands). -/
def planSteps (routeScript : List (List RCmd)) (iptChange : Bool) : List AStep :=
  routeScript.flatten.map AStep.rcmd ++
  (if iptChange then [AStep.copyIpt, AStep.load, AStep.mvIpt] else []) ++
  (if routeScript.isEmpty then [] else [AStep.copyRt])

theorem runSteps_append (file : List RLn) (d : LDev) (a b : List AStep) :
    runSteps file d (a ++ b) = (runSteps file d a).bind fun d' => runSteps file d' b := by
  induction a generalizing d with
  | nil => rfl
  | cons x xs ih =>
    simp only [List.cons_append, runSteps]
    cases stepDev file d x with
    | none => rfl
    | some d' => exact ih d'

theorem runSteps_rcmds (file : List RLn) (d : LDev) (cmds : List RCmd) :
    runSteps file d (cmds.map AStep.rcmd) = (execLine d.routes cmds).map fun t => { d with routes := t } := by
  induction cmds generalizing d with
  | nil => rfl
  | cons c cs ih =>
    simp only [List.map_cons, runSteps, stepDev, execLine]
    cases stepCmd d.routes c with
    | none => rfl
    | some t => simp only [Option.map_some]; rw [ih]

/-- The steps behind the route commands never fail, whatever prefix of them is executed; the rule
sets are then either untouched or exactly what `iptables-restore` makes of some state with the file. -/
theorem tail_steps (file : List RLn) (hfile : ∀ st, ∃ st', restore st file = some st') (d : LDev)
    (tail : List AStep) (htail : ∀ x ∈ tail, ∀ c, x ≠ AStep.rcmd c) :
    ∃ d', runSteps file d tail = some d' ∧ d'.routes = d.routes ∧
      (d'.ipt = d.ipt ∨ ∃ u, restore u file = some d'.ipt) := by
  induction tail generalizing d with
  | nil => exact ⟨d, rfl, rfl, Or.inl rfl⟩
  | cons x xs ih =>
    have hx := htail x (by simp)
    have hxs : ∀ y ∈ xs, ∀ c, y ≠ AStep.rcmd c := fun y hy => htail y (by simp [hy])
    cases x with
    | rcmd c => exact absurd rfl (hx c)
    | copyIpt =>
      obtain ⟨d', h1, h2, h3⟩ := ih d hxs
      exact ⟨d', by simp only [runSteps, stepDev]; exact h1, h2, h3⟩
    | mvIpt =>
      obtain ⟨d', h1, h2, h3⟩ := ih { d with bootIpt := true } hxs
      exact ⟨d', by simp only [runSteps, stepDev]; exact h1, h2, h3⟩
    | copyRt =>
      obtain ⟨d', h1, h2, h3⟩ := ih { d with bootRt := true } hxs
      exact ⟨d', by simp only [runSteps, stepDev]; exact h1, h2, h3⟩
    | load =>
      obtain ⟨st', hr⟩ := hfile d.ipt
      obtain ⟨d', h1, h2, h3⟩ := ih { d with ipt := st' } hxs
      refine ⟨d', by simp only [runSteps, stepDev, hr, Option.map_some]; exact h1, h2, ?_⟩
      rcases h3 with h3 | h3
      · right; exact ⟨d.ipt, by rw [h3]; exact hr⟩
      · right; exact h3

def tailOf (iptChange noRoutes : Bool) : List AStep :=
  (if iptChange then [AStep.copyIpt, AStep.load, AStep.mvIpt] else []) ++ (if noRoutes then [] else [AStep.copyRt])

theorem tailOf_nocmd (c e : Bool) : ∀ x ∈ tailOf c e, ∀ r, x ≠ AStep.rcmd r := by
  intro x hx r
  cases c <;> cases e <;> simp [tailOf] at hx <;> (try rcases hx with h | h | h | h) <;> simp_all

/-- The complete tail: the rule sets are loaded iff the compare found a difference. -/
theorem tail_full (file : List RLn) (hfile : ∀ st, ∃ st', restore st file = some st') (d : LDev) (c e : Bool) :
    ∃ d', runSteps file d (tailOf c e) = some d' ∧ d'.routes = d.routes ∧
      (c = true → restore d.ipt file = some d'.ipt ∧ d'.bootIpt = true) ∧ (c = false → d'.ipt = d.ipt) ∧
      (e = false → d'.bootRt = true) := by
  obtain ⟨st', hr⟩ := hfile d.ipt
  cases c <;> cases e <;> simp [tailOf, runSteps, stepDev, hr]

theorem planSteps_eq (script : List (List RCmd)) (c : Bool) :
    planSteps script c = script.flatten.map AStep.rcmd ++ tailOf c script.isEmpty := by
  simp [planSteps, tailOf, List.append_assoc]

/-- **Interrupted Linux approve, any cut position.**  Let the first approve (whatever its compare
found: `c1`) be cut behind any number `k` of its steps.  Every executed step succeeded; the kernel
route table is still a set; the rule sets are untouched or exactly loaded (iptables-restore is
atomic).  Then ANY second approve planned from that state (reading `a'` of the routes, compare
result `c2`) runs to the end without a failing step, ends in exactly the target's routes, and has
loaded the target's file iff its compare found a difference. -/
theorem resume_steps (a b : List Route) (ha : (keys a).Nodup) (file : List RLn)
    (hfile : ∀ st, ∃ st', restore st file = some st') (d0 : LDev) (h0 : d0.routes = keys a) (c1 : Bool) (k : Nat) :
    ∃ d1, runSteps file d0 ((planSteps ((diffRoutes a b).map cmdsOf) c1).take k) = some d1 ∧ d1.routes.Nodup ∧
      (d1.ipt = d0.ipt ∨ ∃ u, restore u file = some d1.ipt) ∧
      ∀ (a' : List Route) (c2 : Bool), keys a' = d1.routes →
        ∃ d2, runSteps file d1 (planSteps ((diffRoutes a' b).map cmdsOf) c2) = some d2 ∧
          d2.routes.Nodup ∧ (∀ x, x ∈ d2.routes ↔ x ∈ keys b) ∧
          (c2 = true → restore d1.ipt file = some d2.ipt ∧ d2.bootIpt = true) ∧ (c2 = false → d2.ipt = d1.ipt) := by
  -- the complete route script runs
  obtain ⟨t0, hs0, _, _⟩ : ∃ t, execScript (keys a) ((diffRoutes a b).map cmdsOf) = some t ∧ t.Nodup ∧ ∀ x, x ∈ t ↔ x ∈ keys b := by
    obtain ⟨hn, hs, hk⟩ := target_spec b
    obtain ⟨tr, h1, h2, h3, _⟩ := core_ok a b _ ha hn hs hk
    exact ⟨_, execScript_of_trace _ _ _ h1, h2, h3⟩
  rw [execScript_flatten] at hs0
  rw [planSteps_eq, List.take_append]
  -- the route part of the prefix
  obtain ⟨u, hu, hun⟩ := execLine_take (keys a) t0 _ hs0 ha k
  have hR : runSteps file d0 ((((diffRoutes a b).map cmdsOf).flatten.map AStep.rcmd).take k) =
      some { d0 with routes := u } := by
    rw [← List.map_take, runSteps_rcmds, h0, hu]; rfl
  -- the rest of the prefix
  obtain ⟨d1, hT, hTr, hTi⟩ := tail_steps file hfile { d0 with routes := u }
    ((tailOf c1 ((diffRoutes a b).map cmdsOf).isEmpty).take (k - (((diffRoutes a b).map cmdsOf).flatten.map AStep.rcmd).length))
    (fun x hx => tailOf_nocmd _ _ x (List.mem_of_mem_take hx))
  refine ⟨d1, ?_, ?_, hTi, ?_⟩
  · rw [runSteps_append, hR]; exact hT
  · rw [hTr]; exact hun
  · intro a' c2 hk'
    have hna' : (keys a').Nodup := by rw [hk', hTr]; exact hun
    obtain ⟨t', hs', hn', hm'⟩ : ∃ t, execScript (keys a') ((diffRoutes a' b).map cmdsOf) = some t ∧ t.Nodup ∧ ∀ x, x ∈ t ↔ x ∈ keys b := by
      obtain ⟨hn, hs, hk⟩ := target_spec b
      obtain ⟨tr, h1, h2, h3, _⟩ := core_ok a' b _ hna' hn hs hk
      exact ⟨_, execScript_of_trace _ _ _ h1, h2, h3⟩
    rw [execScript_flatten, hk'] at hs'
    obtain ⟨d2, hF, hFr, hFc, hFn, _⟩ := tail_full file hfile { d1 with routes := t' } c2 ((diffRoutes a' b).map cmdsOf).isEmpty
    refine ⟨d2, ?_, ?_, ?_, hFc, hFn⟩
    · rw [planSteps_eq, runSteps_append, runSteps_rcmds, hs']; exact hF
    · rw [hFr]; exact hn'
    · intro x; rw [hFr]; exact hm' x

end NA.C05
