import NA.Proofs.F2Dev
import NA.Proofs.F1Names
/-!
# F2: the decisions of the engine executed on the strict device — invariant and primitive steps

`Sem e P d0 st d σ π`: the decisions taken so far (`st.acts`), executed from `d0`, are all accepted and
lead to `d`; the marks of `st` describe `d`:
* a device ACL that is not `needed` still has its original lines;
* a `ready` target ACL exists on the device under its current name with lines equivalent to the
  target's, and that name is a `needed` device ACL or a generated (fresh) name;
* a target ACL that is not `ready` has its generated name, which does not exist yet;
* the slots (interface, direction) are as the ghost status `σ` says;
* `needed` sub-commands are among the processed ones (`π`).
-/
namespace NA.F2
open NA.IosDev2
open NA.Acl (BlockEqG LineEqv)
open NA.F1 (genName lookupD addSet)

def actsRun (d : Dev) (acts : List MA) : Option Dev := evsRun d (acts.flatMap expand)

theorem actsRun_snoc (d : Dev) (acts : List MA) (a : MA) :
    actsRun d (acts ++ [a]) = (actsRun d acts).bind fun d' => evsRun d' (expand a) := by
  simp [actsRun, List.flatMap_append, evsRun_append]

/-- Equivalent as filters: block-equivalent modulo `log` (swaps inside runs of equal action,
replacement by a line equal modulo `log`), stated on the numeric encoding of the two lists
(`al`: further lines that take part in the numbering). -/
def AclEqv (x y : List ALine) : Prop := ∃ al, BlockEqG LineEqv (x.map (encP al y)) (y.map (encP al y))

theorem AclEqv_typed (y : List ALine) : AclEqv (y.map typed) y := by
  refine ⟨[], ?_⟩
  rw [List.map_map]
  exact BlockEqG_of_eq (List.map_congr_left fun l _ => rfl)

/-- Exactly equal (under the numeric encoding of the two lists): same texts, same texts without `log`,
same actions, line by line. -/
def ExactEq (x y : List ALine) : Prop := ∃ al, x.map (encP al y) = y.map (encP al y)

theorem ExactEq_typed (y : List ALine) : ExactEq (y.map typed) y := by
  refine ⟨[], ?_⟩
  rw [List.map_map]
  exact List.map_congr_left fun l _ => rfl

theorem ExactEq_nil : ExactEq [] [] := ⟨[], rfl⟩

/-- The pairs of access lists the engine can compare: bound in the same direction to interfaces of
the same name. -/
def Cmp (e : Env) (aN bN : Name) : Prop :=
  ∃ ai ∈ e.a.intfs, ∃ bi ∈ e.b.intfs, ai.name = bi.name ∧
    ∃ ba ∈ ai.binds, ∃ bb ∈ bi.binds, ba.dir = bb.dir ∧ ba.acl = aN ∧ bb.acl = bN

/-- Some pair the engine may compare for target ACL `bN` has a plan with a suppressed move. -/
def SupprT (e : Env) (bN : Name) : Prop :=
  ∃ aN, Cmp e aN bN ∧ noSupprPair (e.a.lines aN) (e.b.lines bN) (lookupD e.sc.acl (aN, bN)) = false

/-- What the run establishes for a `ready` target ACL: block-equivalent modulo `log`, and exactly equal
unless a move was suppressed. -/
def AclRel (e : Env) (bN : Name) (x y : List ALine) : Prop := AclEqv x y ∧ (ExactEq x y ∨ SupprT e bN)

/-- Static hypotheses on the pairs of access lists (decidable; evaluated by the driver). -/
structure WFE (e : Env) : Prop where
  pairs : ∀ aN bN, e.a.hasAcl aN = true → e.b.hasAcl bN = true → Cmp e aN bN →
    pairOK (e.a.lines aN) (e.b.lines bN) (lookupD e.sc.acl (aN, bN)) = true
  appendB : ∀ bN, e.b.hasAcl bN = true → appendOKFrom [] (e.b.lines bN) = true

inductive Status
  | orig
  | settled (bN : Name)
  | cleared

def SlotOK (d0 d : Dev) (st : St) (x dir : String) : Status → Prop
  | .orig => slotOf d x dir = slotOf d0 x dir
  | .settled bN => bN ∈ st.aReady ∧ slotOf d x dir = some (st.nameOf bN)
  | .cleared => slotOf d x dir = none

structure Sem (e : Env) (P : List Name) (d0 : Dev) (st : St) (d : Dev) (σ : String → String → Status) (π : List (Nat × Nat)) : Prop where
  run : actsRun d0 st.acts = some d
  prot : ∀ n, e.a.hasAcl n = true → n ∈ P → n ∈ st.aNeeded ∧ entriesOf d n = entriesOf d0 n
  mode : d.mode = none
  namesNd : (aclNames d).Nodup
  intfs : d.intfs.map (·.name) = d0.intfs.map (·.name)
  routes : d.routes = d0.routes
  aHas : ∀ n, e.a.hasAcl n = true → hasAcl d n = true
  aKeep : ∀ n, e.a.hasAcl n = true → n ∉ st.aNeeded → (entriesOf d n).map (·.2) = e.a.lines n
  ready : ∀ bN ∈ st.aReady, e.b.hasAcl bN = true ∧ hasAcl d (st.nameOf bN) = true ∧
    AclRel e bN (linesOf d (st.nameOf bN)) (e.b.lines bN) ∧
    (st.nameOf bN ∈ st.aNeeded ∨ e.a.hasAcl (st.nameOf bN) = false)
  fresh : ∀ bN, e.b.hasAcl bN = true → bN ∉ st.aReady →
    st.nameOf bN = genName bN (e.a.acls.map (·.1)) ∧ hasAcl d (st.nameOf bN) = false
  slots : ∀ x dir, isDir dir = true → SlotOK d0 d st x dir (σ x dir)
  bNeeded : ∀ p ∈ st.bNeeded, p ∈ π

theorem hasAcl_config_iff (c : Config) (n : Name) : c.hasAcl n = true ↔ n ∈ c.acls.map (·.1) := by
  simp [Config.hasAcl]

theorem genName_not_hasAcl (c : Config) (bN : Name) : c.hasAcl (genName bN (c.acls.map (·.1))) = false := by
  rw [Bool.eq_false_iff]
  intro h
  exact NA.F1.genName_fresh bN _ ((hasAcl_config_iff c _).mp h)

/-- `addCmds` of a whole target ACL. -/
theorem sem_transfer {e : Env} (hwf : WFE e) {P : List Name} {d0 : Dev} {st : St} {d : Dev} {σ : String → String → Status}
    {π : List (Nat × Nat)} (h : Sem e P d0 st d σ π) (bN : Name) (hb : e.b.hasAcl bN = true) :
    ∃ d', Sem e P d0 (transferAcl e st bN) d' σ π ∧ bN ∈ (transferAcl e st bN).aReady ∧
      (transferAcl e st bN).aNeeded = st.aNeeded ∧ (transferAcl e st bN).bNeeded = st.bNeeded ∧
      (transferAcl e st bN).aName = st.aName ∧ (∀ x ∈ st.aReady, x ∈ (transferAcl e st bN).aReady) := by
  unfold transferAcl
  by_cases hr : st.aReady.contains bN = true
  · simp only [hr, ↓reduceIte]
    refine ⟨d, h, by simpa using hr, ?_, ?_, ?_, fun x hx => hx⟩ <;> trivial
  · simp only [hr, Bool.false_eq_true, ↓reduceIte]
    have hnr : bN ∉ st.aReady := by simpa using hr
    obtain ⟨hg, hgd⟩ := h.fresh bN hb hnr
    obtain ⟨es, hrun, hes⟩ := run_transfer d (st.nameOf bN) (e.b.lines bN) hgd h.mode h.namesNd (hwf.appendB bN hb)
    refine ⟨addAcl d (st.nameOf bN) es, ?_, by simp [St.hit, St.act], rfl, rfl, rfl,
      fun x hx => by simp [St.hit, St.act, hx]⟩
    have hname : ∀ x, (({ st with aReady := bN :: st.aReady }.act (.transfer (st.nameOf bN) (e.b.lines bN))).hit
        "acl:transfer").nameOf x = st.nameOf x := fun x => rfl
    constructor
    · show actsRun d0 (st.acts ++ [_]) = _
      rw [actsRun_snoc, h.run, Option.bind_some, hrun]
    · intro n hn hp
      obtain ⟨h1, h2⟩ := h.prot n hn hp
      refine ⟨h1, ?_⟩
      have hne : (n == st.nameOf bN) = false := by
        rw [Bool.eq_false_iff]; intro hc
        have := h.aHas n hn
        rw [beq_iff_eq.mp hc, hgd] at this; cases this
      rw [entriesOf_addAcl d _ n es hgd, hne]
      exact h2
    · rfl
    · exact nodup_aclNames_addAcl d _ es h.namesNd hgd
    · exact h.intfs
    · exact h.routes
    · intro n hn; rw [hasAcl_addAcl, h.aHas n hn]; rfl
    · intro n hn hnn
      have hne : (n == st.nameOf bN) = false := by
        rw [Bool.eq_false_iff]; intro hc
        have := h.aHas n hn
        rw [beq_iff_eq.mp hc, hgd] at this; cases this
      rw [entriesOf_addAcl d _ n es hgd, hne]
      exact h.aKeep n hn hnn
    · intro x hx
      simp only [St.hit, St.act, List.mem_cons] at hx
      simp only [hname]
      rcases hx with rfl | hx
      · refine ⟨hb, by rw [hasAcl_addAcl]; simp, ?_, Or.inr ?_⟩
        · have : linesOf (addAcl d (st.nameOf x) es) (st.nameOf x) = (e.b.lines x).map typed := by
            simp only [linesOf, entriesOf_addAcl d _ _ es hgd, beq_self_eq_true, ↓reduceIte]; exact hes
          rw [this]; exact ⟨AclEqv_typed _, Or.inl (ExactEq_typed _)⟩
        · rw [hg]; exact genName_not_hasAcl e.a x
      · obtain ⟨h1, h2, h3, h4⟩ := h.ready x hx
        have hne : (st.nameOf x == st.nameOf bN) = false := by
          rw [Bool.eq_false_iff]; intro hc
          rw [beq_iff_eq.mp hc, hgd] at h2; cases h2
        refine ⟨h1, by rw [hasAcl_addAcl, h2]; rfl, ?_, h4⟩
        simp only [linesOf, entriesOf_addAcl d _ _ es hgd, hne, Bool.false_eq_true, ↓reduceIte]
        exact h3
    · intro x hx hxr
      simp only [St.hit, St.act, List.mem_cons, not_or] at hxr
      simp only [hname]
      obtain ⟨h1, h2⟩ := h.fresh x hx hxr.2
      refine ⟨h1, ?_⟩
      rw [hasAcl_addAcl, h2, Bool.false_or, Bool.eq_false_iff]
      intro hc
      have := beq_iff_eq.mp hc
      rw [h1, hg] at this
      exact hxr.1 (NA.F1.genName_injective this)
    · intro x dir hd
      have := h.slots x dir hd
      cases hs : σ x dir with
      | orig => rw [hs] at this; exact this
      | settled y =>
        rw [hs] at this
        exact ⟨by simp [St.hit, St.act, this.1], this.2⟩
      | cleared => rw [hs] at this; exact this
    · exact h.bNeeded


theorem AclEqv_nil : AclEqv [] [] := ⟨[], BlockEqG.refl _⟩

/-- `diffCmds(A.sub, B.sub)` on a device that still holds the original lines of `aN`. -/
theorem run_edit {e : Env} (hwf : WFE e) (aN bN : Name) (ha : e.a.hasAcl aN = true) (hb : e.b.hasAcl bN = true)
    (hcmp : Cmp e aN bN) (d : Dev) (hhas : hasAcl d aN = true) (hmode : d.mode = none) (hnd : (aclNames d).Nodup)
    (hlines : (entriesOf d aN).map (·.2) = e.a.lines aN) :
    ∃ esF, evsRun d (expand (.edit aN (e.a.lines aN) (e.b.lines bN) (lookupD e.sc.acl (aN, bN)))) =
        some (putAcl d aN esF) ∧ AclRel e bN (esF.map (·.2)) (e.b.lines bN) := by
  have hp := hwf.pairs aN bN ha hb hcmp
  simp only [pairOK, Bool.or_eq_true] at hp
  rcases hp with hp | hp
  · obtain ⟨esF, h1, h2, h3⟩ := edit_incremental_x aN _ _ _ hp d hhas hmode hnd hlines
    refine ⟨esF, h1, ⟨_, h2⟩, ?_⟩
    by_cases hns : noSupprPair (e.a.lines aN) (e.b.lines bN) (lookupD e.sc.acl (aN, bN)) = true
    · exact Or.inl ⟨_, h3 hns⟩
    · exact Or.inr ⟨aN, hcmp, by simpa using hns⟩
  · obtain ⟨esF, h1, h2⟩ := edit_replace aN _ _ _ hp d hhas hmode hnd hlines
    exact ⟨esF, h1, by rw [h2]; exact ⟨AclEqv_typed _, Or.inl (ExactEq_typed _)⟩⟩

/-- `diffCmds(aRef, bRef)` for two ACL objects: afterwards the target ACL is `ready` and the
returned name is its current name. -/
theorem sem_diffAcl {e : Env} (hwf : WFE e) {P : List Name} {d0 : Dev} {st : St} {d : Dev} {σ : String → String → Status}
    {π : List (Nat × Nat)} (h : Sem e P d0 st d σ π) (aN bN : Name) (ha : e.a.hasAcl aN = true)
    (hb : e.b.hasAcl bN = true) (hcmp : Cmp e aN bN) :
    ∃ d', Sem e P d0 (diffAcl e st aN bN).1 d' σ π ∧ bN ∈ (diffAcl e st aN bN).1.aReady ∧
      (diffAcl e st aN bN).2 = (diffAcl e st aN bN).1.nameOf bN ∧
      (diffAcl e st aN bN).1.bNeeded = st.bNeeded ∧ (∀ x ∈ st.aReady, x ∈ (diffAcl e st aN bN).1.aReady) ∧
      (∀ x ∈ st.aReady, (diffAcl e st aN bN).1.nameOf x = st.nameOf x) := by
  unfold diffAcl
  by_cases hn : st.aNeeded.contains aN = true
  · -- device ACL already taken: transfer
    simp only [hn, ↓reduceIte]
    have h' : Sem e P d0 (st.hit "acl:device-acl-needed") d σ π := ⟨h.run, h.prot, h.mode, h.namesNd, h.intfs, h.routes, h.aHas,
      h.aKeep, h.ready, h.fresh, h.slots, h.bNeeded⟩
    obtain ⟨d', hs, hr, _, hbn, han, hmono⟩ := sem_transfer hwf h' bN hb
    refine ⟨d', hs, hr, ?_, hbn, hmono, ?_⟩
    · trivial
    · intro x _
      simp only [St.nameOf, han]; rfl
  · simp only [hn, Bool.false_eq_true, ↓reduceIte]
    by_cases hr : st.aReady.contains bN = true
    · simp only [hr, ↓reduceIte]
      have hr' : bN ∈ st.aReady := by simpa using hr
      exact ⟨d, ⟨h.run, h.prot, h.mode, h.namesNd, h.intfs, h.routes, h.aHas, h.aKeep, h.ready, h.fresh, h.slots, h.bNeeded⟩,
        hr', rfl, rfl, fun x hx => hx, fun x _ => rfl⟩
    · simp only [hr, Bool.false_eq_true, ↓reduceIte]
      have hnn : aN ∉ st.aNeeded := by simpa using hn
      have hnr : bN ∉ st.aReady := by simpa using hr
      -- names after adoption
      have hname_bN : ∀ s : St, s.aName = (bN, aN) :: st.aName → s.nameOf bN = aN := by
        intro s hs; simp [St.nameOf, hs]
      have hname_other : ∀ s : St, s.aName = (bN, aN) :: st.aName → ∀ x, x ≠ bN → s.nameOf x = st.nameOf x := by
        intro s hs x hx
        have : (x == bN) = false := by simpa using hx
        simp [St.nameOf, hs, List.lookup, this]
      have hkeep := h.aKeep aN ha hnn
      have hhas := h.aHas aN ha
      -- the state after `diffLines`
      obtain ⟨d', hrun', hd'⟩ : ∃ d', actsRun d0 (diffLines e (adoptSt st aN bN) aN bN).acts = some d' ∧
          ∃ esF, d' = putAcl d aN esF ∧ AclRel e bN (esF.map (·.2)) (e.b.lines bN) := by
        unfold diffLines
        simp only
        by_cases hemp : ((e.a.lines aN).isEmpty && (e.b.lines bN).isEmpty) = true
        · simp only [hemp, ↓reduceIte]
          refine ⟨d, h.run, entriesOf d aN, (putAcl_self d aN h.mode h.namesNd).symm, ?_⟩
          simp only [Bool.and_eq_true, List.isEmpty_iff] at hemp
          rw [hkeep, hemp.1, hemp.2]; exact ⟨AclEqv_nil, Or.inl ExactEq_nil⟩
        · simp only [hemp, Bool.false_eq_true, ↓reduceIte]
          obtain ⟨esF, h1, h2⟩ := run_edit hwf aN bN ha hb hcmp d hhas h.mode h.namesNd hkeep
          refine ⟨putAcl d aN esF, ?_, esF, rfl, h2⟩
          show actsRun d0 (st.acts ++ [_]) = _
          rw [actsRun_snoc, h.run, Option.bind_some, h1]
      obtain ⟨esF, rfl, heqv⟩ := hd'
      -- fields of the new state
      have hfields : ∀ s, s = diffLines e (adoptSt st aN bN) aN bN →
          s.aNeeded = aN :: st.aNeeded ∧ s.aName = (bN, aN) :: st.aName ∧ s.aReady = bN :: st.aReady ∧
          s.bNeeded = st.bNeeded := by
        intro s hs
        subst hs
        unfold diffLines
        simp only
        split <;> exact ⟨rfl, rfl, rfl, rfl⟩
      obtain ⟨f1, f2, f3, f4⟩ := hfields _ rfl
      refine ⟨putAcl d aN esF, ?_, by rw [f3]; simp, (hname_bN _ f2).symm, f4, fun x hx => by rw [f3]; simp [hx],
        fun x hx => hname_other _ f2 x (fun hc => hnr (hc ▸ hx))⟩
      constructor
      · exact hrun'
      · intro n hn' hp
        obtain ⟨h1, h2⟩ := h.prot n hn' hp
        have hne : n ≠ aN := fun hc => hnn (hc ▸ h1)
        exact ⟨by rw [f1]; simp [h1], by rw [entriesOf_putAcl_other d aN n esF hne]; exact h2⟩
      · rfl
      · rw [names_putAcl]; exact h.namesNd
      · exact h.intfs
      · exact h.routes
      · intro n hn'; rw [hasAcl_putAcl]; exact h.aHas n hn'
      · intro n hn' hnn'
        rw [f1] at hnn'
        simp only [List.mem_cons, not_or] at hnn'
        rw [entriesOf_putAcl_other d aN n esF hnn'.1]
        exact h.aKeep n hn' hnn'.2
      · intro x hx
        rw [f3] at hx
        rcases List.mem_cons.mp hx with rfl | hx
        · rw [hname_bN _ f2]
          refine ⟨hb, by rw [hasAcl_putAcl]; exact hhas, ?_, Or.inl (by rw [f1]; simp)⟩
          simp only [linesOf, entriesOf_putAcl_self d aN esF hhas]
          exact heqv
        · have hxne : x ≠ bN := fun hc => hnr (hc ▸ hx)
          rw [hname_other _ f2 x hxne]
          obtain ⟨h1, h2, h3, h4⟩ := h.ready x hx
          have hne : st.nameOf x ≠ aN := by
            rcases h4 with h4 | h4
            · intro hc; exact hnn (hc ▸ h4)
            · intro hc; rw [hc, ha] at h4; cases h4
          refine ⟨h1, by rw [hasAcl_putAcl]; exact h2, ?_, ?_⟩
          · simp only [linesOf, entriesOf_putAcl_other d aN _ esF hne]; exact h3
          · rcases h4 with h4 | h4
            · exact Or.inl (by rw [f1]; simp [h4])
            · exact Or.inr h4
      · intro x hx hxr
        rw [f3] at hxr
        simp only [List.mem_cons, not_or] at hxr
        rw [hname_other _ f2 x hxr.1, hasAcl_putAcl]
        exact h.fresh x hx hxr.2
      · intro x dir hd
        have := h.slots x dir hd
        cases hs : σ x dir with
        | orig => rw [hs] at this; exact this
        | settled y =>
          rw [hs] at this
          have hyne : y ≠ bN := fun hc => hnr (hc ▸ this.1)
          exact ⟨by rw [f3]; simp [this.1], by rw [hname_other _ f2 y hyne]; exact this.2⟩
        | cleared => rw [hs] at this; exact this
      · rw [f4]; exact h.bNeeded


/-! ## steps on the `ip access-group` sub-commands of one interface -/

def updσ (σ : String → String → Status) (x dir : String) (s : Status) : String → String → Status :=
  fun y d' => if y = x ∧ d' = dir then s else σ y d'

theorem hasIntf_of_names {d d0 : Dev} (h : d.intfs.map (·.name) = d0.intfs.map (·.name)) (x : String) :
    hasIntf d x = hasIntf d0 x := by
  have : ∀ dv : Dev, hasIntf dv x = (dv.intfs.map (·.name)).any (· == x) := by
    intro dv; simp [hasIntf, List.any_map, Function.comp_def]
  rw [this d, this d0, h]

/-- The part of `Sem` that a change of one slot cannot disturb. -/
theorem sem_setSlot {e : Env} {P : List Name} {d0 : Dev} {st st' : St} {d : Dev} {σ : String → String → Status} {π π' : List (Nat × Nat)}
    (h : Sem e P d0 st d σ π) (x dir : String) (v : Option Name) (s : Status) (hd : isDir dir = true)
    (hx : hasIntf d x = true)
    (hrun : actsRun d0 st'.acts = some (strip (setSlot d x dir v)))
    (hN : st'.aNeeded = st.aNeeded) (hR : st'.aReady = st.aReady) (hA : st'.aName = st.aName)
    (hB : ∀ p ∈ st'.bNeeded, p ∈ π')
    (hs : SlotOK d0 (strip (setSlot d x dir v)) st' x dir s) :
    Sem e P d0 st' (strip (setSlot d x dir v)) (updσ σ x dir s) π' := by
  have hname : ∀ y, st'.nameOf y = st.nameOf y := fun y => by simp [St.nameOf, hA]
  constructor
  · exact hrun
  · intro n hn hp; rw [hN]; exact h.prot n hn hp
  · rfl
  · exact h.namesNd
  · show (setSlot d x dir v).intfs.map (·.name) = _
    rw [intfNames_setSlot]; exact h.intfs
  · exact h.routes
  · exact h.aHas
  · intro n hn hnn; rw [hN] at hnn; exact h.aKeep n hn hnn
  · intro y hy
    rw [hR] at hy
    rw [hname, hN]
    exact h.ready y hy
  · intro y hy hyr
    rw [hR] at hyr
    rw [hname]
    exact h.fresh y hy hyr
  · intro y dir' hd'
    unfold updσ
    by_cases hc : y = x ∧ dir' = dir
    · simp only [hc, and_self, ↓reduceIte]
      obtain ⟨rfl, rfl⟩ := hc
      exact hs
    · simp only [hc, ↓reduceIte]
      have hslot : slotOf (strip (setSlot d x dir v)) y dir' = slotOf d y dir' := by
        rw [slotOf_strip]
        by_cases hy : y = x
        · subst hy
          have hne : dir' ≠ dir := fun hc' => hc ⟨rfl, hc'⟩
          exact slotOf_setSlot_otherDir d y dir dir' v hd hd' hne
        · exact slotOf_setSlot_otherIntf d x y dir dir' v hy
      have := h.slots y dir' hd'
      cases hst : σ y dir' with
      | orig => rw [hst] at this; simp only [SlotOK]; rw [hslot]; exact this
      | settled z =>
        rw [hst] at this
        simp only [SlotOK]
        rw [hslot, hR, hname]; exact this
      | cleared => rw [hst] at this; simp only [SlotOK]; rw [hslot]; exact this
  · exact hB

theorem sem_delBind1 {e : Env} {P : List Name} {d0 : Dev} {st : St} {d : Dev} {σ : String → String → Status} {π : List (Nat × Nat)}
    (h : Sem e P d0 st d σ π) (i : Nat) (x : String) (al : List Bind) (k : Nat)
    (hπ : (i, k) ∉ π) (hd : isDir (al.getD k default).dir = true) (hx : hasIntf d0 x = true)
    (hσ : σ x (al.getD k default).dir = .orig)
    (h0 : slotOf d0 x (al.getD k default).dir = some (al.getD k default).acl) :
    ∃ d', Sem e P d0 (delBind1 e i x al st k) d' (updσ σ x (al.getD k default).dir .cleared) ((i, k) :: π) := by
  have hnb : st.bNeeded.contains (i, k) = false := by
    rw [Bool.eq_false_iff]; intro hc
    exact hπ (h.bNeeded _ (by simpa using hc))
  have hxd : hasIntf d x = true := by rw [hasIntf_of_names h.intfs]; exact hx
  have hslot : slotOf d x (al.getD k default).dir = some (al.getD k default).acl := by
    have := h.slots x _ hd
    rw [hσ] at this
    simp only [SlotOK] at this
    rw [this]; exact h0
  have hrun := run_unbind d x _ _ hxd hslot
  refine ⟨strip (setSlot d x (al.getD k default).dir none), ?_⟩
  unfold delBind1
  simp only [hnb, Bool.false_eq_true, ↓reduceIte]
  apply sem_setSlot h x _ none .cleared hd hxd
  · split
    all_goals
      show actsRun d0 (st.acts ++ [_]) = _
      rw [actsRun_snoc, h.run, Option.bind_some, hrun]
  · split <;> rfl
  · split <;> rfl
  · split <;> rfl
  · intro p hp
    have : p ∈ (i, k) :: st.bNeeded := by
      split at hp <;> exact hp
    rcases List.mem_cons.mp this with rfl | hp'
    · exact List.mem_cons_self ..
    · exact List.mem_cons_of_mem _ (h.bNeeded p hp')
  · simp only [SlotOK]
    rw [slotOf_strip]
    exact slotOf_setSlot_same d x _ none hxd


theorem sem_addBind1 {e : Env} (hwf : WFE e) {P : List Name} {d0 : Dev} {st : St} {d : Dev} {σ : String → String → Status}
    {π : List (Nat × Nat)} (h : Sem e P d0 st d σ π) (x : String) (b : Bind)
    (hb : e.b.hasAcl b.acl = true) (hd : isDir b.dir = true) (hx : hasIntf d0 x = true) :
    ∃ d', Sem e P d0 (addBind1 e x st b) d' (updσ σ x b.dir (.settled b.acl)) π := by
  obtain ⟨d1, h1, hr, hN, hB, hA, hmono⟩ := sem_transfer hwf h b.acl hb
  have hxd : hasIntf d1 x = true := by rw [hasIntf_of_names h1.intfs]; exact hx
  obtain ⟨_, hhas, _, _⟩ := h1.ready b.acl hr
  have hrun := run_bind d1 x _ b.dir hxd hhas
  refine ⟨strip (setSlot d1 x b.dir (some ((transferAcl e st b.acl).nameOf b.acl))), ?_⟩
  unfold addBind1
  simp only [hb, ↓reduceIte]
  apply sem_setSlot h1 x b.dir _ (.settled b.acl) hd hxd
  · show actsRun d0 ((transferAcl e st b.acl).acts ++ [_]) = _
    rw [actsRun_snoc, h1.run, Option.bind_some, hrun]
  · rfl
  · rfl
  · rfl
  · exact h1.bNeeded
  · refine ⟨hr, ?_⟩
    rw [slotOf_strip]
    exact slotOf_setSlot_same d1 x b.dir _ hxd

theorem sem_makeEqualBind {e : Env} (hwf : WFE e) {P : List Name} {d0 : Dev} {st : St} {d : Dev} {σ : String → String → Status}
    {π : List (Nat × Nat)} (h : Sem e P d0 st d σ π) (i k : Nat) (x : String) (a b : Bind)
    (ha : e.a.hasAcl a.acl = true) (hb : e.b.hasAcl b.acl = true) (hcmp : Cmp e a.acl b.acl) (hdir : a.dir = b.dir)
    (hd : isDir b.dir = true) (hx : hasIntf d0 x = true)
    (hσ : σ x b.dir = .orig) (h0 : slotOf d0 x b.dir = some a.acl) :
    ∃ d', Sem e P d0 (makeEqualBind e st i k x a b) d' (updσ σ x b.dir (.settled b.acl)) ((i, k) :: π) := by
  -- the mark on the device sub-command
  have h' : Sem e P d0 { st with bNeeded := (i, k) :: st.bNeeded } d σ ((i, k) :: π) :=
    ⟨h.run, h.prot, h.mode, h.namesNd, h.intfs, h.routes, h.aHas, h.aKeep, h.ready, h.fresh, h.slots, by
      intro p hp
      rcases List.mem_cons.mp hp with rfl | hp'
      · exact List.mem_cons_self ..
      · exact List.mem_cons_of_mem _ (h.bNeeded p hp')⟩
  obtain ⟨d1, h1, hr, href, hB, hmono, hnames⟩ := sem_diffAcl hwf h' a.acl b.acl ha hb hcmp
  unfold makeEqualBind
  simp only [ha, hb, Bool.and_self, ↓reduceIte]
  have hxd : hasIntf d1 x = true := by rw [hasIntf_of_names h1.intfs]; exact hx
  obtain ⟨_, hhas, _, _⟩ := h1.ready b.acl hr
  by_cases hne : ((diffAcl e { st with bNeeded := (i, k) :: st.bNeeded } a.acl b.acl).2 != a.acl) = true
  · simp only [hne, ↓reduceIte]
    have hrun := run_bind d1 x _ b.dir hxd hhas
    refine ⟨strip (setSlot d1 x b.dir (some ((diffAcl e { st with bNeeded := (i, k) :: st.bNeeded } a.acl b.acl).1.nameOf b.acl))), ?_⟩
    apply sem_setSlot h1 x b.dir _ (.settled b.acl) hd hxd
    · show actsRun d0 ((diffAcl e { st with bNeeded := (i, k) :: st.bNeeded } a.acl b.acl).1.acts ++ [_]) = _
      rw [actsRun_snoc, h1.run, Option.bind_some, hrun]
    · rfl
    · rfl
    · rfl
    · exact h1.bNeeded
    · refine ⟨hr, ?_⟩
      rw [slotOf_strip]
      exact slotOf_setSlot_same d1 x b.dir _ hxd
  · simp only [hne, Bool.false_eq_true, ↓reduceIte]
    have heq : (diffAcl e { st with bNeeded := (i, k) :: st.bNeeded } a.acl b.acl).2 = a.acl := by
      simpa using hne
    refine ⟨d1, ?_⟩
    -- nothing is sent: the slot already holds the right name
    have hslot : slotOf d1 x b.dir = some a.acl := by
      have := h1.slots x b.dir hd
      rw [hσ] at this
      simp only [SlotOK] at this
      rw [this]; exact h0
    constructor
    · exact h1.run
    · exact h1.prot
    · exact h1.mode
    · exact h1.namesNd
    · exact h1.intfs
    · exact h1.routes
    · exact h1.aHas
    · exact h1.aKeep
    · exact h1.ready
    · exact h1.fresh
    · intro y dir' hd'
      unfold updσ
      by_cases hc : y = x ∧ dir' = b.dir
      · simp only [hc, and_self, ↓reduceIte]
        obtain ⟨rfl, rfl⟩ := hc
        exact ⟨hr, by rw [hslot]; exact congrArg some (heq.symm.trans href)⟩
      · simp only [hc, ↓reduceIte]
        exact h1.slots y dir' hd'
    · exact h1.bNeeded

end NA.F2
