import NA.Proofs.F1Tail
import NA.Proofs.F1Frame
/-!
# F1: end-to-end convergence for the class K1 (one managed binding whose ACL is updated incrementally)
-/
namespace NA.F1
open NA.AsaDev
open NA.Acl (Range)

theorem diffUnordered_single (k : String) : diffUnordered [k] [k] = [⟨0, 1, 0, 1⟩] := by
  simp [diffUnordered, duStepA, duStepB, lastIdx, List.range, List.range.loop]

theorem checkInterfaces_K1 {a b : Config} {sc : Scripts} {aAcl bAcl dir intf : Name} (h : K1 a b sc aAcl bAcl dir intf) :
    checkInterfaces ⟨a, b, sc⟩ {} = some ({}, [0]) := by
  unfold checkInterfaces
  simp only [h.abind, h.bbind, List.map_cons, List.map_nil]
  have hun : ((a.intfs.filter fun n => !([intf] : List Name).contains n).flatMap
      (bindsOf [(⟨aAcl, dir, intf⟩ : Bind)])) = [] := by
    apply List.flatMap_eq_nil_iff.mpr
    intro n hn
    have hne : n ≠ intf := by
      have := (List.mem_filter.mp hn).2
      simpa using this
    unfold bindsOf
    apply List.filter_eq_nil_iff.mpr
    intro i hi
    have hi0 : i = 0 := by simpa using hi
    subst hi0
    have : (intf == n) = false := by rw [beq_eq_false_iff_ne]; exact fun e => hne e.symm
    simp [this]
  simp only [hun, List.eraseDups_nil, List.foldl_nil]
  simp

/-- What the run of the engine reduces to in class K1 (everything before `deleteUnused`). -/
def k1Body (e : Env) (st0 : St) (aAcl bAcl : Name) : St :=
  let st3 := diffASAACLs e (k1Pre e st0 aAcl bAcl) aAcl bAcl (lookupD e.sc.acl (aAcl, bAcl))
  { st3 with aNeeded := addSet aAcl st3.aNeeded, aReady := addSet bAcl st3.aReady }

theorem diffBinds_K1 {a b : Config} {sc : Scripts} {aAcl bAcl dir intf : Name} (h : K1 a b sc aAcl bAcl dir intf)
    (st0 : St) (hb : st0.bNeeded = []) (hn : st0.aNeeded = []) (hr : st0.aReady = []) :
    diffBinds ⟨a, b, sc⟩ st0 [0] b.binds = k1Body ⟨a, b, sc⟩ st0 aAcl bAcl := by
  unfold diffBinds
  have hkey : (([0] : List Nat).map fun i => ((⟨a, b, sc⟩ : Env).a.binds.getD i default).key) = [dir ++ " interface " ++ intf] := by
    simp [h.abind, Bind.key]
  have hkeyb : b.binds.map (·.key) = [dir ++ " interface " ++ intf] := by simp [h.bbind, Bind.key]
  simp only [hb, hkey, hkeyb, diffUnordered_single]
  simp only [List.isEmpty_cons, Bool.not_false, List.contains_nil, Bool.and_false, Bool.false_eq_true, if_false,
    List.any_cons, List.any_nil, Range.isEqual, Range.isDelete, Range.isInsert, List.foldl_cons, List.foldl_nil]
  simp only [h.bbind, slice, List.drop_zero, List.take, List.zip_cons_cons, List.zip_nil_right, List.foldl_cons,
    List.foldl_nil]
  -- `makeEqualBind` for the one pair
  unfold makeEqualBind k1Body k1Pre
  simp only [h.abind, List.getD_cons_zero, makeEqualBind.addSet', hb, List.contains_nil, Bool.false_eq_true, if_false]
  unfold diffAcl
  simp [hn, hr, hb, h.hasEq]

theorem engine_K1 {a b : Config} {sc : Scripts} {aAcl bAcl dir intf : Name} (h : K1 a b sc aAcl bAcl dir intf) :
    (engine a b sc).map (·.script) =
      some (deleteUnused ⟨a, b, sc⟩ (k1Body ⟨a, b, sc⟩ (generateNames ⟨a, b, sc⟩ {}) aAcl bAcl) [0]).out := by
  unfold engine
  simp only [checkInterfaces_K1 h]
  have hne : (([0] : List Nat).isEmpty && b.binds.isEmpty) = false := by simp
  simp only [hne, Bool.false_eq_true, if_false]
  rw [diffBinds_K1 h _ rfl rfl rfl]
  simp only [h.aroutes, h.broutes]
  have : sortRoutes [] = [] := rfl
  simp only [this, diffRoutes, List.isEmpty_nil, if_true, List.foldl_nil, Option.map_some]

/-! ## Helpers on association lists -/

theorem lookup_of_mem_nodup {β : Type} : ∀ (m : List (Name × β)) (n : Name) (v : β), (m.map (·.1)).Nodup → (n, v) ∈ m →
    m.lookup n = some v := by
  intro m
  induction m with
  | nil => intro n v _ h; simp at h
  | cons p ps ih =>
    intro n v hnd hm
    obtain ⟨k, w⟩ := p
    simp only [List.map_cons, List.nodup_cons] at hnd
    rcases List.mem_cons.mp hm with e1 | e1
    · simp only [Prod.mk.injEq] at e1
      obtain ⟨rfl, rfl⟩ := e1
      simp [List.lookup]
    · have hne : n ≠ k := fun e2 => hnd.1 (e2 ▸ List.mem_map.mpr ⟨(n, v), e1, rfl⟩)
      have hb : (n == k) = false := by simpa using hne
      simp only [List.lookup, hb]
      exact ih n v hnd.2 e1

theorem linesOf_ofConfig (a : Config) (n : Name) : linesOf (ofConfig a) n = (lookupD a.acls n).map resolveA := by
  unfold linesOf ofConfig lookupD
  simp only
  induction a.acls with
  | nil => rfl
  | cons p ps ih =>
    obtain ⟨k, v⟩ := p
    simp only [List.map_cons, List.lookup]
    cases (n == k)
    · exact ih
    · rfl

theorem aclKeys_ofConfig (a : Config) : (ofConfig a).acls.map (·.1) = a.acls.map (·.1) := by
  simp [ofConfig, List.map_map, Function.comp_def]

/-! ## What is pending in `deleteUnused` in class K1 -/

theorem duPending_K1 (e : Env) (st : St) (aAcl : Name) (hb : st.bNeeded = [0]) (hn : st.aNeeded = [aAcl]) :
    (duPending e st [0]).1.binds = [] ∧
    (∀ m ∈ (duPending e st [0]).1.acls, m ∈ e.a.acls.map (·.1) ∧ m ≠ aAcl) ∧
    (∀ g ∈ (duPending e st [0]).1.grps, g ∈ D0 e ∧ g ∉ st.gNeeded ∧
      ∀ n ∈ e.a.acls.map (·.1), n ≠ aAcl → n ∉ (duPending e st [0]).1.acls → ∀ l ∈ e.aLines n, g ∉ l.refs) ∧
    ((e.a.acls.map (·.1)).Nodup → (duPending e st [0]).1.acls.Nodup) ∧
    ((D0 e).Nodup → (duPending e st [0]).1.grps.Nodup) := by
  unfold duPending
  simp only [hb, hn]
  have hB0 : (([0] : List Nat).filter fun i => !([0] : List Nat).contains i && st.bToDel.contains i) = [] := by simp
  have hB1 : (([0] : List Nat).filter fun i => !([0] : List Nat).contains i && !st.bToDel.contains i) = [] := by simp
  simp only [hB0, hB1, List.map_nil, List.filter_nil, List.contains_nil, Bool.or_false, Bool.not_false,
    filter_not_nil_contains]
  have hfT : ∀ (l : List Name), l.filter (fun _ => true) = l := fun l => List.filter_eq_self.mpr (fun _ _ => rfl)
  simp only [hfT]
  refine ⟨trivial, ?_, ?_, ?_, ?_⟩
  · intro m hm
    have hm' := (List.mem_filter.mp (mem_sortS.mp hm))
    refine ⟨hm'.1, ?_⟩
    have := hm'.2
    simp only [List.contains_cons, List.contains_nil, Bool.or_false, Bool.and_eq_true, Bool.not_eq_true',
      beq_eq_false_iff_ne] at this
    exact this.1
  · intro g hg
    have hg' := List.mem_filter.mp (mem_sortS.mp hg)
    have hg1 := List.mem_filter.mp hg'.1
    have hgn : g ∉ st.gNeeded := by
      have := hg1.2
      simp only [Bool.and_eq_true, Bool.not_eq_true', List.contains_eq_mem, decide_eq_false_iff_not] at this
      exact this.1
    refine ⟨hg1.1, hgn, ?_⟩
    intro n hn' hna hnp l hl hgl
    -- n is an untouched access list, so g is protected
    have hnot : ¬ (n ∈ (e.a.acls.map (·.1)).filter fun n =>
        !([aAcl] : List Name).contains n && (st.aToDel.contains n || isTagged n)) := fun hx => hnp (mem_sortS.mpr hx)
    have hunt : n ∈ (e.a.acls.map (·.1)).filter fun n =>
        !([aAcl] : List Name).contains n && (!st.aToDel.contains n && !isTagged n) := by
      apply List.mem_filter.mpr
      refine ⟨hn', ?_⟩
      have h1 : ([aAcl] : List Name).contains n = false := by
        simp only [List.contains_cons, List.contains_nil, Bool.or_false, beq_eq_false_iff_ne]; exact hna
      have h2 : (st.aToDel.contains n || isTagged n) = false := by
        cases hh : (st.aToDel.contains n || isTagged n)
        · rfl
        · exfalso; apply hnot; exact List.mem_filter.mpr ⟨hn', by rw [h1, hh]; rfl⟩
      rw [Bool.or_eq_false_iff] at h2
      rw [h1, h2.1, h2.2]; rfl
    have hstill := hg'.2
    simp only [Bool.not_eq_true', List.contains_eq_mem, decide_eq_false_iff_not] at hstill
    simp only [List.contains_eq_mem] at hunt
    apply hstill
    apply List.mem_filter.mpr
    refine ⟨List.mem_flatMap.mpr ⟨n, hunt, List.mem_flatMap.mpr ⟨l, hl, hgl⟩⟩, ?_⟩
    simp only [Bool.not_eq_true', List.contains_eq_mem, decide_eq_false_iff_not]
    exact hgn
  · intro hnd; exact sortS_nodup (List.Nodup.sublist List.filter_sublist hnd)
  · intro hnd; exact sortS_nodup (List.Nodup.sublist List.filter_sublist (List.Nodup.sublist List.filter_sublist hnd))

theorem mem_zip_of_getElem {α β : Type} (l1 : List α) (l2 : List β) (i : Nat) (h1 : i < l1.length) (h2 : i < l2.length) :
    (l1[i], l2[i]) ∈ l1.zip l2 := by
  apply List.mem_iff_getElem.mpr
  refine ⟨i, by rw [List.length_zip]; omega, ?_⟩
  simp

/-! ## End to end -/

/-- Final equivalence of a device line and a target line: same text up to group names; each referenced
device group exists and has the target group's members. -/
def LineEquiv (e : Env) (d : Dev) (l : RLine) (b : Line) : Prop :=
  l.body = b.body ∧ ∀ q ∈ l.names.zip b.refs, hasGroup d q.1 = true ∧ (membersOf d q.1).Perm (lookupD e.b.groups q.2)

theorem sortS_filter_nodup {l : List Name} (h : l.Nodup) (p : Name → Bool) : (sortS (l.filter p)).Nodup :=
  sortS_nodup (List.Nodup.sublist List.filter_sublist h)

/-- **`asa_F1_converges_partial` (class K1).**  Device and target bind one access list at the same place, no
routes, the pair is updated incrementally and the counted hypothesis `hyp:ok` holds.  Then the WHOLE script of
the engine (including `deleteUnused`) is accepted by the strict device started on the device configuration,
the binding and the routes are unchanged, and the bound access list is, line by line, the target's access list
up to group names, every referenced group existing with exactly the target group's members. -/
theorem k1_converges (a b : Config) (sc : Scripts) (aAcl bAcl dir intf : Name)
    (hK : K1 a b sc aAcl bAcl dir intf) (hw : WF ⟨a, b, sc⟩) (hA : RefsClosedA ⟨a, b, sc⟩) (hB : RefsClosedB ⟨a, b, sc⟩)
    (hAclNames : (a.acls.map (·.1)).Nodup) (hGrpNames : (a.groups.map (·.1)).Nodup)
    (hlenA : RefsMatchBody ((⟨a, b, sc⟩ : Env).aLines aAcl)) (hlenB : RefsMatchBody ((⟨a, b, sc⟩ : Env).bLines bAcl))
    (haAcl : aAcl ∈ a.acls.map (·.1))
    (hscript : scriptOK (((⟨a, b, sc⟩ : Env).aLines aAcl).map (·.body)) (((⟨a, b, sc⟩ : Env).bLines bAcl).map (·.body))
      (lookupD sc.acl (aAcl, bAcl)) 0 0 = true)
    (hcheck : planCheck ⟨a, b, sc⟩ (k1Pre ⟨a, b, sc⟩ (generateNames ⟨a, b, sc⟩ {}) aAcl bAcl) aAcl bAcl
      (lookupD sc.acl (aAcl, bAcl)) = "hyp:ok") :
    ∃ script d', (engine a b sc).map (·.script) = some script ∧ exec (ofConfig a) script = some d' ∧
      d'.binds = (ofConfig a).binds ∧ d'.routes = (ofConfig a).routes ∧
      (linesOf d' aAcl).length = ((⟨a, b, sc⟩ : Env).bLines bAcl).length ∧
      ∀ p ∈ (linesOf d' aAcl).zip ((⟨a, b, sc⟩ : Env).bLines bAcl), LineEquiv ⟨a, b, sc⟩ d' p.1 p.2 := by
  generalize he : (⟨a, b, sc⟩ : Env) = e at *
  have hea : e.a = a := by rw [← he]
  have heb : e.b = b := by rw [← he]
  have hesc : e.sc = sc := by rw [← he]
  -- the state in which `diffASAACLs` is called
  have hsem0 : Sem e (generateNames e {}) (ofConfig a) := by
    rw [← he]; exact sem_init a b sc {} [0] (checkInterfaces_K1 hK)
  have hsemPre : Sem e (k1Pre e (generateNames e {}) aAcl bAcl) (ofConfig a) := sem_marks hsem0 rfl rfl rfl rfl
  have hal : linesOf (ofConfig a) aAcl = (e.aLines aAcl).map resolveA := by
    rw [linesOf_ofConfig]; unfold Env.aLines; rw [hea]
  obtain ⟨d1, l1, hlen1, hline1⟩ := acl_pair_converges_checked e hw hA hB _ _ hsemPre aAcl bAcl
    (lookupD e.sc.acl (aAcl, bAcl)) hal (by rw [hesc]; exact hscript) (by rw [hesc]; exact hcheck) hlenA hlenB
  generalize hst3 : diffASAACLs e (k1Pre e (generateNames e {}) aAcl bAcl) aAcl bAcl (lookupD e.sc.acl (aAcl, bAcl)) = st3
    at l1 hline1
  have hfr := diffASAACLs_aclMarks e (k1Pre e (generateNames e {}) aAcl bAcl) aAcl bAcl (lookupD e.sc.acl (aAcl, bAcl))
  rw [hst3] at hfr
  have hb3 : st3.bNeeded = [0] := hfr.bNeeded
  have hn3 : st3.aNeeded = [] := hfr.aNeeded
  -- the state handed to `deleteUnused`
  generalize hst4 : ({ st3 with aNeeded := addSet aAcl st3.aNeeded, aReady := addSet bAcl st3.aReady } : St) = st4
  have hb4 : st4.bNeeded = [0] := by rw [← hst4]; exact hb3
  have hn4 : st4.aNeeded = [aAcl] := by rw [← hst4]; simp [hn3, addSet]
  have hg4 : st4.gNeeded = st3.gNeeded := by rw [← hst4]
  have hout4 : st4.out = st3.out := by rw [← hst4]
  have hmode4 : st4.mode = st3.mode := by rw [← hst4]
  have hbody : k1Body e (generateNames e {}) aAcl bAcl = st4 := by
    unfold k1Body; simp only []; rw [hst3]; exact hst4
  obtain ⟨pb, pa, pg, pan, pgn⟩ := duPending_K1 e st4 aAcl hb4 hn4
  -- device facts after the body
  obtain ⟨cs1, ho1, he1⟩ := l1.out
  have hkeys1 : d1.acls.map (·.1) = a.acls.map (·.1) := by rw [l1.aclKeys, aclKeys_ofConfig]
  have hkeysN : (d1.acls.map (·.1)).Nodup := by rw [hkeys1]; exact hAclNames
  have hbinds1 : d1.binds = [((dir, intf), aAcl)] := by rw [l1.binds]; simp [ofConfig, hK.abind]
  have hhasAcl : ∀ m, m ∈ a.acls.map (·.1) → hasAcl d1 m = true := by
    intro m hm
    rw [← hkeys1] at hm
    obtain ⟨p, hp, rfl⟩ := List.mem_map.mp hm
    exact List.any_eq_true.mpr ⟨p, hp, by simp⟩
  -- frozen names are not pending
  have hfrozen : ∀ x g, Frozen e st3 x → g ∈ (duPending e st4 [0]).1.grps → x ≠ g := by
    intro x g hf hg e1
    obtain ⟨g1, g2, _⟩ := pg g hg
    rw [hg4] at g2
    subst e1
    rcases hf with hf | hf
    · exact g2 hf
    · exact hf g1
  have hmode : ModeRel st4 d1 := by unfold ModeRel; rw [hmode4]; exact l1.sem.mode
  obtain ⟨tail, d2, hot, het, hacl2, hgrp2, hb2, hr2, hi2⟩ := deleteUnused_exec_nobinds e st4 [0] d1 hmode pb
    (pan (by rw [hea]; exact hAclNames)) (pgn (by unfold D0; rw [hea]; exact hGrpNames))
    (by
      intro m hm
      obtain ⟨m1, m2⟩ := pa m hm
      rw [hea] at m1
      refine ⟨hhasAcl m m1, ?_⟩
      simp only [aclBound, hbinds1, List.any_cons, List.any_nil, Bool.or_false, beq_eq_false_iff_ne]
      exact fun e1 => m2 e1.symm)
    (by
      intro g hg
      obtain ⟨g1, g2, g3⟩ := pg g hg
      refine ⟨l1.sem.dev g g1, ?_⟩
      intro p hp hpA l hl hgl
      have hpl : linesOf d1 p.1 = p.2 := by
        unfold linesOf
        rw [lookup_of_mem_nodup d1.acls p.1 p.2 hkeysN hp]; rfl
      have hpk : p.1 ∈ a.acls.map (·.1) := by rw [← hkeys1]; exact List.mem_map.mpr ⟨p, hp, rfl⟩
      by_cases hpa : p.1 = aAcl
      · -- a line of the updated access list: its names are frozen
        rw [hpa] at hpl
        rw [← hpl] at hl
        obtain ⟨i, hi, hli⟩ := List.getElem_of_mem hl
        have hi' : i < (e.bLines bAcl).length := by rw [← hlen1]; exact hi
        have hz : (l, (e.bLines bAcl)[i]) ∈ (linesOf d1 aAcl).zip (e.bLines bAcl) := by
          rw [← hli]
          exact mem_zip_of_getElem _ _ i hi hi'
        obtain ⟨hbody', hlenl, hnames⟩ := hline1 _ hz
        simp only at hbody' hlenl hnames
        obtain ⟨j, hj, hgj⟩ := List.getElem_of_mem hgl
        have hz2 : (g, ((e.bLines bAcl)[i]).refs[j]'(by rw [← hlenl]; exact hj)) ∈ l.names.zip ((e.bLines bAcl)[i]).refs := by
          rw [← hgj]
          exact mem_zip_of_getElem _ _ j hj (by rw [← hlenl]; exact hj)
        exact hfrozen g g (hnames _ hz2).2.2 hg rfl
      · -- another access list of the device: its lines are the original ones
        have hother := l1.others p.1 hpa
        rw [hpl, linesOf_ofConfig] at hother
        rw [hother] at hl
        obtain ⟨l0, hl0, rfl⟩ := List.mem_map.mp hl
        have hl0' : l0 ∈ e.aLines p.1 := by unfold Env.aLines; rw [hea]; exact hl0
        exact g3 p.1 (by rw [hea]; exact hpk) hpa hpA l0 hl0' hgl)
  -- assemble
  have hscr := engine_K1 hK
  rw [he, hbody] at hscr
  have hgen : (generateNames e {}).out = [] := rfl
  have hpre : (k1Pre e (generateNames e {}) aAcl bAcl).out = [] := rfl
  refine ⟨_, d2, hscr, ?_, by rw [hb2, l1.binds], by rw [hr2, l1.routes], ?_, ?_⟩
  · rw [hot, hout4, ho1, hpre, List.nil_append]
    exact exec_append_some he1 het
  all_goals
    have hkeepA : (fun (x : Name) => !(duPending e st4 [0]).1.acls.contains x) aAcl = true := by
      simp only [Bool.not_eq_true', List.contains_eq_mem, decide_eq_false_iff_not]
      exact fun hx => (pa aAcl hx).2 rfl
    have hl2 : linesOf d2 aAcl = linesOf d1 aAcl := by
      unfold linesOf
      rw [hacl2, lookup_filter_keep (fun x => !(duPending e st4 [0]).1.acls.contains x) aAcl hkeepA]
  · rw [hl2]; exact hlen1
  · intro p hp
    rw [hl2] at hp
    obtain ⟨hbody', _, hnames⟩ := hline1 p hp
    refine ⟨hbody', ?_⟩
    intro q hq
    obtain ⟨q1, q2, q3⟩ := hnames q hq
    have hq' : q.1 ∉ (duPending e st4 [0]).1.grps := fun hx => hfrozen q.1 q.1 q3 hx rfl
    obtain ⟨k1, k2⟩ := hgrp2 q.1 hq'
    refine ⟨?_, ?_⟩
    · unfold hasGroup at q1 ⊢; rw [k2]; exact q1
    · unfold membersOf at q2 ⊢; rw [k1, heb] at *; exact q2

/-- The end-to-end theorem with ONE decidable hypothesis, evaluated by the driver on every generated case. -/
theorem k1_converges_checked (a b : Config) (sc : Scripts) (hc : k1Check a b sc = true) :
    ∃ aAcl bAcl script d', a.binds.map (·.acl) = [aAcl] ∧ b.binds.map (·.acl) = [bAcl] ∧
      (engine a b sc).map (·.script) = some script ∧ exec (ofConfig a) script = some d' ∧
      d'.binds = (ofConfig a).binds ∧ d'.routes = (ofConfig a).routes ∧
      (linesOf d' aAcl).length = ((⟨a, b, sc⟩ : Env).bLines bAcl).length ∧
      ∀ p ∈ (linesOf d' aAcl).zip ((⟨a, b, sc⟩ : Env).bLines bAcl), LineEquiv ⟨a, b, sc⟩ d' p.1 p.2 := by
  unfold k1Check at hc
  split at hc
  · rename_i x y hx hy
    simp only [Bool.and_eq_true, beq_iff_eq, List.isEmpty_iff, decide_eq_true_eq] at hc
    obtain ⟨hc, c15⟩ := hc
    obtain ⟨hc, c14⟩ := hc
    obtain ⟨hc, c13⟩ := hc
    obtain ⟨hc, c12⟩ := hc
    obtain ⟨hc, c11⟩ := hc
    obtain ⟨hc, c10⟩ := hc
    obtain ⟨hc, c9⟩ := hc
    obtain ⟨hc, c8⟩ := hc
    obtain ⟨hc, c7⟩ := hc
    obtain ⟨hc, c6⟩ := hc
    obtain ⟨hc, c5⟩ := hc
    obtain ⟨hc, c4⟩ := hc
    obtain ⟨hc, c3⟩ := hc
    obtain ⟨c1, c2⟩ := hc
    have hK : K1 a b sc x.acl y.acl x.dir x.intf :=
      ⟨by rw [hx], by rw [hy, c1, c2], c3, c4, c5⟩
    obtain ⟨script, d', r1, r2, r3, r4, r5, r6⟩ := k1_converges a b sc x.acl y.acl x.dir x.intf hK (WF.of_check c6)
      (RefsClosedA.of_check c7) (RefsClosedB.of_check c8) c9 c10 (RefsMatchBody.of_check c11) (RefsMatchBody.of_check c12)
      (by simpa using c13) c14 c15
    exact ⟨x.acl, y.acl, script, d', by rw [hx]; rfl, by rw [hy]; rfl, r1, r2, r3, r4, r5, r6⟩
  · exact absurd hc (by decide)

end NA.F1
