import NA.Proofs.C03GrpStep
/-
C03, whole-vsys theorems with address-groups, part 7: one member list of one matched rule
(`equalizeList`) when the lists hold addresses only or exactly one group.  Core Lean only.
-/
namespace NA.PanOs

/-! ### A script for two sides without a common element deletes the whole device side -/

theorem pairsEq_pos {eq : Nat → Nat → Bool} {a b k : Nat} (h : pairsEq eq a b (k + 1) = true) : eq a b = true := by
  simp only [pairsEq, Bool.and_eq_true] at h
  exact h.1

theorem deletedFrom_const_false {eq : Nat → Nat → Bool} {n m : Nat}
    (hf : ∀ i j, i < n → j < m → eq i j = false) :
    ∀ (rs : List Range) (x y d : Nat), validFrom eq n m x y rs = true →
      rs.foldl (fun d r => if r.isDelete then d + (r.highA - r.lowA) else d) d = d + (n - x) := by
  intro rs
  induction rs with
  | nil =>
    intro x y d h
    obtain ⟨hx, _⟩ := validFrom_nil h
    simp [hx]
  | cons r rs ih =>
    intro x y d h
    have hfull := h
    obtain ⟨h1, h2, h3, h4, h5, h6, h7⟩ := validFrom_cons h
    simp only [List.foldl_cons]
    have hstep : (if r.isDelete then d + (r.highA - r.lowA) else d) = d + (r.highA - x) := by
      cases hdel : r.isDelete with
      | true => simp [h1]
      | false =>
        simp only [Bool.false_eq_true, if_false]
        -- not a delete range: an insert range or an equal range, which must be empty
        simp only [validFrom, Bool.and_eq_true, Bool.or_eq_true, beq_iff_eq, decide_eq_true_eq] at hfull
        obtain ⟨⟨_, hkind⟩, _⟩ := hfull
        have hlen : r.highA = r.lowA := by
          rcases hkind with (hi | hd') | ⟨hl, hp⟩
          · have : r.lowA = r.highA := by simpa [Range.isInsert] using hi
            exact this.symm
          · rw [hdel] at hd'; cases hd'
          · cases hk : r.highA - r.lowA with
            | zero => omega
            | succ k =>
              rw [hk] at hp
              have := pairsEq_pos hp
              have hlb : r.lowB < m := by
                have : r.highB - r.lowB = k + 1 := by omega
                omega
              rw [hf r.lowA r.lowB (by omega) hlb] at this
              cases this
        omega
    rw [hstep, ih r.highA r.highB _ h7]
    omega

theorem deletedCount_const_false {eq : Nat → Nat → Bool} {n m : Nat} {rs : List Range}
    (hf : ∀ i j, i < n → j < m → eq i j = false) (h : validScript eq n m rs = true) :
    deletedCount rs = n := by
  unfold validScript at h
  rw [Bool.or_eq_true] at h
  rcases h with h | h
  · have := deletedFrom_const_false hf rs 0 0 0 h
    simpa [deletedCount] using this
  · simp only [Bool.and_eq_true, decide_eq_true_eq, beq_iff_eq] at h
    obtain ⟨⟨_, hm⟩, hrs⟩ := h
    subst hrs
    have : (0 == m) = false := by
      have : 0 ≠ m := by omega
      simpa using this
    simp [deletedCount, nothingCommon, Range.isDelete, this]

/-- Two lists without a common member: the device's list is replaced. -/
theorem fieldCmds_disjoint (diff : Differ) (hd : GoodDiffer diff) (n : String) (f : Fld) (la lb : List String)
    (hne : la ≠ []) (hdis : ∀ x ∈ la, x ∉ lb) : fieldCmds diff n f la lb = [.editList n f lb] := by
  unfold fieldCmds
  have hf : ∀ i j, i < la.length → j < lb.length → nameEq la lb i j = false := by
    intro i j hi hj
    unfold nameEq
    have h1 := getD_mem hi
    have h2 := getD_mem hj
    have : la.getD i "" ≠ lb.getD j "" := fun e => hdis _ h1 (e ▸ h2)
    simpa using this
  rw [deletedCount_const_false hf (hd la.length lb.length (nameEq la lb)).1]
  have hpos : 0 < la.length := List.length_pos_iff.mpr hne
  have : replaceInstead la.length la.length = true := by
    unfold replaceInstead
    simp only [Nat.sub_self, Nat.zero_add, decide_eq_true_eq]
    omega
  rw [this]
  rfl

/-- … and the planner sees it the same way. -/
theorem hasEqLists_disjoint (diff : Differ) (hd : GoodDiffer diff) (fuel : Nat) (st : St) (la lb : List String)
    (path : MPath) (hne : la ≠ [])
    (hf : ∀ i j, i < la.length → j < lb.length → memberEq st (la.getD i "") (lb.getD j "") = false) :
    hasEqLists diff (fuel + 1) st la lb path = (false, st) := by
  rw [hasEqLists]
  rw [deletedCount_const_false hf (hd la.length lb.length _).1]
  have hpos : 0 < la.length := List.length_pos_iff.mpr hne
  have : replaceInstead la.length la.length = true := by
    unfold replaceInstead
    simp only [Nat.sub_self, Nat.zero_add, decide_eq_true_eq]
    omega
  simp only [this, if_true]

/-! ### Helpers -/

theorem GInv.emitAll {Ref : String → Prop} {st : St} (h : GInv Ref st) (cs : List Cmd) : GInv Ref (st.emitAll cs) :=
  ⟨h.anodup, h.bnodup, h.ane, h.fresh, h.aplain, h.bplain, h.amemnd, h.bmemnd, h.c0, h.c1, h.c2, h.c3, h.bne, h.c4, h.c5⟩

theorem SimG.emitAll {sh : Shared} {Ref : String → Prop} {st : St} {vg : Vsys} (h : SimG sh Ref st vg) (cs : List Cmd) :
    SimG sh Ref (st.emitAll cs) vg := ⟨h.U, h.K, h.anames, h.mems⟩

theorem agrp_eq_of_name {l : List AGrp} (hnd : (l.map (·.g.name)).Nodup) {x y : AGrp} (hx : x ∈ l) (hy : y ∈ l)
    (e : x.g.name = y.g.name) : x = y := by
  obtain ⟨i, hi⟩ := List.getElem?_of_mem hx
  obtain ⟨j, hj⟩ := List.getElem?_of_mem hy
  have := idx_of_name hnd hi hj e
  subst this
  rw [hi] at hj
  exact Option.some.inj hj

theorem aIdx_none_of_not_name {st : St} {x : String} (h : ∀ ga ∈ st.aGrp, ga.g.name ≠ x) : st.aGrpIdx x = none := by
  apply lastIdx_none_of_not_mem
  intro hm
  obtain ⟨ga, hga, e⟩ := List.mem_map.mp hm
  exact h ga hga e

theorem bIdx_none_of_not_name {st : St} {x : String} (h : ∀ gb ∈ st.bGrp, gb.g.name ≠ x) : st.bGrpIdx x = none := by
  apply lastIdx_none_of_not_mem
  intro hm
  obtain ⟨gb, hgb, e⟩ := List.mem_map.mp hm
  exact h gb hgb e

theorem getD_mem_or (l : List String) (i : Nat) : l.getD i "" ∈ l ∨ l.getD i "" = "" := by
  by_cases hi : i < l.length
  · exact Or.inl (getD_mem hi)
  · right
    simp [List.getD_eq_getElem?_getD, List.getElem?_eq_none (by omega : l.length ≤ i)]

theorem memberEq_eq_nameEq {Ref : String → Prop} {st : St} (hI : GInv Ref st) (la lb : List String)
    (hA : ∀ x ∈ la, st.aGrpIdx x = none) (hB : ∀ y ∈ lb, st.bGrpIdx y = none) :
    (fun i j => memberEq st (la.getD i "") (lb.getD j "")) = nameEq la lb := by
  have a0 : st.aGrpIdx "" = none := aIdx_none_of_not_name (fun ga hga => hI.ane ga hga)
  have b0 : st.bGrpIdx "" = none := bIdx_none_of_not_name (fun gb hgb => hI.bne gb hgb)
  funext i j
  have h1 : st.aGrpIdx (la.getD i "") = none := by
    rcases getD_mem_or la i with h | h
    · exact hA _ h
    · rw [h]; exact a0
  have h2 : st.bGrpIdx (lb.getD j "") = none := by
    rcases getD_mem_or lb j with h | h
    · exact hB _ h
    · rw [h]; exact b0
  unfold memberEq nameEq
  rw [h1, h2]
  simp

theorem fieldCmds_onRules (diff : Differ) (n : String) (f : Fld) (la lb : List String) :
    ∀ c ∈ fieldCmds diff n f la lb, c.onRules = true := by
  intro c hc
  unfold fieldCmds at hc
  split at hc
  · simp only [List.mem_cons, List.not_mem_nil, or_false] at hc
    subst hc; rfl
  · rcases onField_listCmds n f la lb _ c hc with ⟨m, rfl⟩ | ⟨ms, rfl⟩ | ⟨ms, rfl⟩ <;> rfl

theorem adaptL_plain (st : St) (l : List String) (h : ∀ y ∈ l, st.bGrpIdx y = none) : adaptL st l = l := by
  unfold adaptL
  rw [List.map_congr_left (g := id)]
  · simp
  · intro y hy
    simp [adapt1, h y hy]

/-- **`equalizeList`** for lists that hold addresses only or exactly one group. -/
theorem equalizeList_sim {sh : Shared} {Ref : String → Prop} (diff : Differ) (hd : GoodDiffer diff)
    (hid : IdentityDiffer diff) (fuel : Nat) (st : St) (vg : Vsys) (la lb : List String) (n : String) (f : Fld)
    (hI : GInv Ref st) (hS : SimG sh Ref st vg) (hne : la ≠ [])
    (hA : (∀ x ∈ la, st.aGrpIdx x = none) ∨ (∃ g, la = [g] ∧ (st.aGrpIdx g).isSome = true))
    (hB : (∀ y ∈ lb, st.bGrpIdx y = none) ∨ (∃ g, lb = [g] ∧ (st.bGrpIdx g).isSome = true ∧ Ref g))
    (hdA : ∀ x ∈ la, st.aGrpIdx x = none → ∀ gb ∈ st.bGrp, x ≠ gb.newName)
    (hdB : ∀ y ∈ lb, st.bGrpIdx y = none → ∀ ga ∈ st.aGrp, y ≠ ga.g.name) :
    ∃ st' vg', equalizeList diff (fuel + 2) st la lb n f = st' ∧
      Step sh st vg st' vg' (fieldCmds diff n f la (adaptL st' lb)) ∧ GInv Ref st' ∧ SimG sh Ref st' vg' ∧
      GSettled st' lb := by
  rcases hA with hA | ⟨g1, rfl, hg1⟩
  · rcases hB with hB | ⟨g2, rfl, hg2, href⟩
    · -- addresses on both sides
      have hfun := memberEq_eq_nameEq hI la lb hA hB
      have hbound := validScript_bounds (hd la.length lb.length (nameEq la lb)).1
      have heq : equalizeList diff (fuel + 2) st la lb n f = st.emitAll (fieldCmds diff n f la lb) := by
        unfold equalizeList fieldCmds
        rw [hasEqLists_plain diff (fuel + 1) st la lb (.rule n f) hA hB (by rw [hfun]; exact hbound)]
        rw [hfun]
        cases hrep : replaceInstead la.length (deletedCount (diff la.length lb.length (nameEq la lb)))
        · simp
        · simp only [if_true, Bool.false_eq_true, if_false, adaptGroups_plain st lb hB]
          simp [St.emit, St.emitAll]
      refine ⟨_, vg, heq, ?_, hI.emitAll _, hS.emitAll _, ?_⟩
      · have : adaptL (st.emitAll (fieldCmds diff n f la lb)) lb = lb := adaptL_plain _ lb hB
        rw [this]
        exact Step.ruleCmds sh st vg _ (fieldCmds_onRules diff n f la lb)
      · intro y hy gbi hgbi
        have : st.bGrpIdx y = some gbi := hgbi
        rw [hB y hy] at this; cases this
    · -- addresses on the device, a group in the target: the list is replaced
      have hfalse : ∀ i j, i < la.length → j < [g2].length →
          memberEq st (la.getD i "") ([g2].getD j "") = false := by
        intro i j hi hj
        have hj0 : j = 0 := by simpa using hj
        subst hj0
        unfold memberEq
        rw [hA _ (getD_mem hi)]
        simp [hg2]
      have h1 : hasEqLists diff (fuel + 2) st la [g2] (.rule n f) = (false, st) :=
        hasEqLists_disjoint diff hd (fuel + 1) st la [g2] (.rule n f) hne hfalse
      obtain ⟨st1, e1, o1, m1, i1, s1, set1⟩ := adaptGroups_sim' (sh := sh) vg st [g2] hI hS
        (fun x hx _ => by simp only [List.mem_singleton] at hx; subst hx; exact href)
      have heq : equalizeList diff (fuel + 2) st la [g2] n f = st1.emit (.editList n f (adaptL st1 [g2])) := by
        unfold equalizeList
        rw [h1]
        simp only [Bool.false_eq_true, if_false, e1]
      have hadapt : adaptL (st1.emit (.editList n f (adaptL st1 [g2]))) [g2] = adaptL st1 [g2] := rfl
      refine ⟨_, vg, heq, ?_, i1.emitAll _, s1.emitAll _, set1⟩
      rw [hadapt]
      -- the closed form: a replacement, since the new name is not a member of the device's list
      have hx : ∀ y ∈ la, y ∉ adaptL st1 [g2] := by
        intro y hy hmem
        simp only [adaptL, List.map_cons, List.map_nil, List.mem_singleton] at hmem
        obtain ⟨gbi, hgbi⟩ := Option.isSome_iff_exists.mp hg2
        obtain ⟨gb1, hgb1, hne1⟩ := set1 g2 (by simp) gbi (by rw [m1.bIdx]; exact hgbi)
        have hval : adapt1 st1 g2 = gb1.onDev := by
          unfold adapt1
          rw [m1.bIdx, hgbi]
          simp [hgb1]
        have hgb1mem : gb1 ∈ st1.bGrp := List.mem_of_getElem? hgb1
        rcases i1.c3 gb1 hgb1mem with h | h | h
        · exact hne1 h
        · obtain ⟨gb0, hgb0, _, hnn⟩ := m1.bmem hgb1mem
          exact hdA y hy (hA y hy) gb0 hgb0 (by rw [hmem, hval, h, hnn])
        · rw [m1.anames] at h
          obtain ⟨ga, hga, e⟩ := List.mem_map.mp h
          have : st.aGrpIdx y = none := hA y hy
          have hsome := lastIdx_isSome_of_mem (names := st.aGrp.map (·.g.name)) (n := y)
            (by rw [hmem, hval, ← e]; exact List.mem_map_of_mem hga)
          unfold St.aGrpIdx at this
          rw [this] at hsome; cases hsome
      rw [fieldCmds_disjoint diff hd n f la _ hne hx]
      have hs1 : Step sh st vg st1 vg [] := Step.of_silent vg o1 m1
      have hs2 := Step.ruleCmds sh st1 vg [.editList n f (adaptL st1 [g2])]
        (by intro c hc; simp only [List.mem_singleton] at hc; subst hc; rfl)
      exact hs1.trans hs2
  · obtain ⟨gai, hgai⟩ := Option.isSome_iff_exists.mp hg1
    obtain ⟨ga, hga, hganame⟩ := aGrp_of_idx hgai
    have hgamem : ga ∈ st.aGrp := List.mem_of_getElem? hga
    rcases hB with hB | ⟨g2, rfl, hg2, href⟩
    · -- a group on the device, addresses in the target: the list is replaced
      have hfalse : ∀ i j, i < [g1].length → j < lb.length →
          memberEq st ([g1].getD i "") (lb.getD j "") = false := by
        intro i j hi hj
        have hi0 : i = 0 := by simpa using hi
        subst hi0
        unfold memberEq
        simp only [List.getD_cons_zero, hg1, if_true]
        rw [hB _ (getD_mem hj)]
        rfl
      have h1 : hasEqLists diff (fuel + 2) st [g1] lb (.rule n f) = (false, st) :=
        hasEqLists_disjoint diff hd (fuel + 1) st [g1] lb (.rule n f) (by simp) hfalse
      have heq : equalizeList diff (fuel + 2) st [g1] lb n f = st.emitAll [.editList n f lb] := by
        unfold equalizeList
        rw [h1]
        simp only [Bool.false_eq_true, if_false, adaptGroups_plain st lb hB]
        rfl
      refine ⟨_, vg, heq, ?_, hI.emitAll _, hS.emitAll _, ?_⟩
      · have : adaptL (st.emitAll [.editList n f lb]) lb = lb := adaptL_plain _ lb hB
        rw [this]
        have hx : ∀ y ∈ [g1], y ∉ lb := by
          intro y hy hmem
          simp only [List.mem_singleton] at hy
          subst hy
          exact hdB y hmem (hB y hmem) ga hgamem hganame.symm
        rw [fieldCmds_disjoint diff hd n f [g1] lb (by simp) hx]
        exact Step.ruleCmds sh st vg _ (by intro c hc; simp only [List.mem_singleton] at hc; subst hc; rfl)
      · intro y hy gbi hgbi
        have : st.bGrpIdx y = some gbi := hgbi
        rw [hB y hy] at this; cases this
    · -- a group on both sides
      obtain ⟨gbi, hgbi⟩ := Option.isSome_iff_exists.mp hg2
      obtain ⟨gb, hgb, hgbname⟩ := bGrp_of_idx hgbi
      have hgbmem : gb ∈ st.bGrp := List.mem_of_getElem? hgb
      obtain ⟨b, st2, vg2, he, hstep, i2, s2, htrue, hfalse⟩ := eqGroups_sim (sh := sh) diff hd hid fuel st vg gai gbi
        ga gb hI hS hga hgb (by rw [hgbname]; exact href)
      have hrs : diff 1 1 (fun i j => memberEq st ([g1].getD i "") ([g2].getD j "")) = [⟨0, 1, 0, 1⟩] := by
        apply hid
        intro i hi
        have : i = 0 := by omega
        subst this
        simp [memberEq, hg1, hg2]
      have hheq : hasEqLists diff (fuel + 2) st [g1] [g2] (.rule n f) = (b, st2) := by
        rw [hasEqLists]
        simp only [List.length_cons, List.length_nil, Nat.zero_add, hrs]
        have hdc : deletedCount [⟨0, 1, 0, 1⟩] = 0 := by decide
        have hri : replaceInstead 1 0 = false := by decide
        simp only [hdc, hri, Bool.false_eq_true, if_false, List.foldl_cons, List.foldl_nil]
        have hk : (⟨0, 1, 0, 1⟩ : Range).kind = .eq := by decide
        simp only [rangeStep, Bool.not_true, Bool.false_eq_true, if_false, hk, Nat.sub_zero]
        have hr1 : List.range 1 = [0] := by decide
        simp only [hr1, List.foldl_cons, List.foldl_nil, pairStep, Bool.not_true, Bool.false_eq_true, if_false,
          Nat.add_zero, List.getD_cons_zero, hgai, hgbi, he]
        cases b <;> simp
      cases b with
      | true =>
        obtain ⟨gb', hgb', hon'⟩ := htrue rfl
        have heq : equalizeList diff (fuel + 2) st [g1] [g2] n f = st2 := by
          unfold equalizeList
          rw [hheq]
          simp
        have hadapt : adaptL st2 [g2] = [g1] := by
          simp only [adaptL, List.map_cons, List.map_nil, adapt1]
          rw [hstep.mono.bIdx, hgbi]
          simp [hgb', hon', hganame]
        refine ⟨st2, vg2, heq, ?_, i2, s2, ?_⟩
        · rw [hadapt, fieldCmds_same diff hid]
          exact hstep
        · intro y hy gbi' hgbi'
          simp only [List.mem_singleton] at hy
          subst hy
          rw [hstep.mono.bIdx, hgbi] at hgbi'
          cases hgbi'
          exact ⟨gb', hgb', by rw [hon']; exact hI.ane ga hgamem⟩
      | false =>
        obtain ⟨rfl, rfl, hwhy⟩ := hfalse rfl
        obtain ⟨st1, e1, o1, m1, i1, s1, set1, hname⟩ := adaptStep_sim (sh := sh) st2 vg2 [] g2 hI hS (fun _ => href)
        have e1' : adaptGroups st2 [g2] = ([adapt1 st1 g2], st1) := by
          unfold adaptGroups
          simp only [List.foldl_cons, List.foldl_nil, e1, List.nil_append]
        have heq : equalizeList diff (fuel + 2) st2 [g1] [g2] n f = st1.emit (.editList n f [adapt1 st1 g2]) := by
          unfold equalizeList
          rw [hheq]
          simp only [Bool.false_eq_true, if_false, e1']
        have hadapt : adaptL (st1.emit (.editList n f [adapt1 st1 g2])) [g2] = [adapt1 st1 g2] := rfl
        refine ⟨_, vg2, heq, ?_, i1.emitAll _, s1.emitAll _, ?_⟩
        · rw [hadapt]
          have hx : ∀ y ∈ [g1], y ∉ [adapt1 st1 g2] := by
            intro y hy hmem
            simp only [List.mem_singleton] at hy hmem
            subst hy
            obtain ⟨hn1, hn2⟩ := hname gbi gb hgbi hgb
            rcases hwhy with ⟨h1, h2⟩ | ⟨h1, h2⟩
            · rw [hn1 h1] at hmem
              exact h2 (hmem.symm.trans hganame.symm)
            · rcases hn2 h1 with h | ⟨ga', hga', hnn', hmem', h⟩
              · rw [h] at hmem
                exact (hI.fresh gb hgbmem).2 (by rw [← hmem, ← hganame]; exact List.mem_map_of_mem hgamem)
              · rw [h] at hmem
                have : ga' = ga := agrp_eq_of_name hI.anodup hga' hgamem (hmem.symm.trans hganame.symm)
                subst this
                rcases h2 with h2 | h2
                · rw [hnn'] at h2; cases h2
                · exact h2 hmem'
          rw [fieldCmds_disjoint diff hd n f [g1] _ (by simp) hx]
          have hs1 : Step sh st2 vg2 st1 vg2 [] := Step.of_silent vg2 o1 m1
          have hs2 := Step.ruleCmds sh st1 vg2 [.editList n f [adapt1 st1 g2]]
            (by intro c hc; simp only [List.mem_singleton] at hc; subst hc; rfl)
          exact hs1.trans hs2
        · intro y hy gbi' hgbi'
          simp only [List.mem_singleton] at hy
          subst hy
          exact set1 gbi' hgbi'

end NA.PanOs
