import NA.Model.Routes
namespace NA.Route

theorem covered_append (s t : List Route) (v d : Nat) : covered (s ++ t) v d = (covered s v d || covered t v d) := by
  simp [covered]

theorem phaseA_step (s : List Route) (op : ROp) (v d : Nat) (hop : phaseA [op] = true)
    (h : covered s v d = true) : covered (rexec1 s op) v d = true := by
  cases op with
  | add r => simp [rexec1, covered_append, h]
  | del r => simp [phaseA] at hop
  | repl o n =>
    simp only [phaseA, List.all_cons, List.all_nil, Bool.and_true, Bool.and_eq_true, beq_iff_eq] at hop
    simp only [rexec1, covered_append]
    -- either the witness survives the filter, or it is `o` and then `n` covers the same destination
    simp only [covered, List.any_eq_true, Bool.and_eq_true, beq_iff_eq] at h ⊢
    obtain ⟨r, hr, hv, hd⟩ := h
    by_cases hro : r = o
    · subst hro
      simp only [Bool.or_eq_true, List.any_eq_true, Bool.and_eq_true, beq_iff_eq]
      right; exact ⟨n, by simp, by omega, by omega⟩
    · simp only [Bool.or_eq_true, List.any_eq_true, Bool.and_eq_true, beq_iff_eq]
      left; exact ⟨r, by simp [List.mem_filter, hr, hro], hv, hd⟩

theorem phaseA_trace (s : List Route) (ops : List ROp) (v d : Nat) (hops : phaseA ops = true)
    (h : covered s v d = true) : ∀ t ∈ rtrace s ops, covered t v d = true := by
  induction ops generalizing s with
  | nil => simp [rtrace]
  | cons op ops ih =>
    have h1 : phaseA [op] = true := by simp [phaseA] at hops ⊢; exact hops.1
    have h2 : phaseA ops = true := by simp [phaseA] at hops ⊢; exact hops.2
    have hs := phaseA_step s op v d h1 h
    intro t ht
    simp only [rtrace, List.mem_cons] at ht
    rcases ht with rfl | ht
    · exact hs
    · exact ih _ h2 hs t ht

theorem phaseB_step (new s : List Route) (op : ROp) (hop : phaseB new [op] = true)
    (h : ∀ r ∈ new, r ∈ s) : ∀ r ∈ new, r ∈ rexec1 s op := by
  cases op with
  | add r => simp [phaseB] at hop
  | repl o n => simp [phaseB] at hop
  | del x =>
    simp only [phaseB, List.all_cons, List.all_nil, Bool.and_true, Bool.not_eq_true',
      List.contains_eq_mem, decide_eq_false_iff_not] at hop
    intro r hr
    simp only [rexec1, List.mem_filter, bne_iff_ne, ne_eq]
    exact ⟨h r hr, fun e => hop (e ▸ hr)⟩

theorem phaseB_trace (new s : List Route) (ops : List ROp) (hops : phaseB new ops = true)
    (h : ∀ r ∈ new, r ∈ s) : ∀ t ∈ rtrace s ops, ∀ r ∈ new, r ∈ t := by
  induction ops generalizing s with
  | nil => simp [rtrace]
  | cons op ops ih =>
    have h1 : phaseB new [op] = true := by simp [phaseB] at hops ⊢; exact hops.1
    have h2 : phaseB new ops = true := by simp [phaseB] at hops ⊢; exact hops.2
    have hs := phaseB_step new s op h1 h
    intro t ht
    simp only [rtrace, List.mem_cons] at ht
    rcases ht with rfl | ht
    · exact hs
    · exact ih _ h2 hs t ht

theorem covered_of_subset (new t : List Route) (v d : Nat) (h : ∀ r ∈ new, r ∈ t)
    (hc : covered new v d = true) : covered t v d = true := by
  simp only [covered, List.any_eq_true] at hc ⊢
  obtain ⟨r, hr, hp⟩ := hc
  exact ⟨r, h r hr, hp⟩

end NA.Route
