import NA.Model.MergeCisco
/-! Lemmas about the model of `matchCryptoMap` in `NA/Model/MergeCisco.lean` (C18, general cisco model). -/
namespace NA.C18.G

theorem mem_insSeq (k x : Nat) (l : List Nat) : x ∈ insSeq k l ↔ x = k ∨ x ∈ l := by
  induction l with
  | nil => simp [insSeq]
  | cons y ys ih =>
    unfold insSeq
    split
    · simp
    · split
      · rename_i h; have : k = y := by simpa using h
        subst this; simp
      · simp only [List.mem_cons, ih]
        constructor
        · rintro (h | h | h)
          · exact Or.inr (Or.inl h)
          · exact Or.inl h
          · exact Or.inr (Or.inr h)
        · rintro (h | h | h)
          · exact Or.inr (Or.inl h)
          · exact Or.inl h
          · exact Or.inr (Or.inr h)

theorem insSeq_sorted (k : Nat) (l : List Nat) (h : l.Pairwise (· < ·)) : (insSeq k l).Pairwise (· < ·) := by
  induction l with
  | nil => simp [insSeq]
  | cons y ys ih =>
    unfold insSeq
    have hy := (List.pairwise_cons.mp h).1
    have hys := (List.pairwise_cons.mp h).2
    split
    · rename_i hk
      refine List.pairwise_cons.mpr ⟨fun z hz => ?_, h⟩
      rcases List.mem_cons.mp hz with rfl | hz'
      · exact hk
      · exact Nat.lt_trans hk (hy z hz')
    · split
      · exact h
      · rename_i h1 h2
        have hne : ¬ k = y := by simpa using h2
        refine List.pairwise_cons.mpr ⟨fun z hz => ?_, ih hys⟩
        rcases (mem_insSeq k z ys).mp hz with rfl | hz'
        · omega
        · exact hy z hz'

theorem seqsOf_aux (l : List Cmd) : ∀ (acc : List Nat), acc.Pairwise (· < ·) →
    (l.foldl (fun acc c => insSeq c.seq acc) acc).Pairwise (· < ·) ∧
    ∀ s, s ∈ l.foldl (fun acc c => insSeq c.seq acc) acc ↔ s ∈ acc ∨ ∃ c ∈ l, c.seq = s := by
  induction l with
  | nil => intro acc h; simp [h]
  | cons c cs ih =>
    intro acc h
    simp only [List.foldl_cons]
    obtain ⟨h1, h2⟩ := ih (insSeq c.seq acc) (insSeq_sorted _ _ h)
    refine ⟨h1, fun s => ?_⟩
    rw [h2, mem_insSeq]
    simp only [List.mem_cons]
    constructor
    · rintro ((h | h) | ⟨d, hd, hs⟩)
      · exact Or.inr ⟨c, Or.inl rfl, h.symm⟩
      · exact Or.inl h
      · exact Or.inr ⟨d, Or.inr hd, hs⟩
    · rintro (h | ⟨d, hd | hd, hs⟩)
      · exact Or.inl (Or.inr h)
      · subst hd; exact Or.inl (Or.inl hs.symm)
      · exact Or.inr ⟨d, hd, hs⟩

theorem seqsOf_sorted (l : List Cmd) : (seqsOf l).Pairwise (· < ·) := (seqsOf_aux l [] List.Pairwise.nil).1

theorem mem_seqsOf (l : List Cmd) (s : Nat) : s ∈ seqsOf l ↔ ∃ c ∈ l, c.seq = s := by
  have := (seqsOf_aux l [] List.Pairwise.nil).2 s
  simpa [seqsOf] using this

theorem seqsOf_nodup (l : List Cmd) : (seqsOf l).Nodup :=
  (seqsOf_sorted l).imp (fun h => Nat.ne_of_lt h)

theorem mem_idxFrom (s : Nat) : ∀ (l : List Cmd) (k i : Nat),
    i ∈ idxFrom s k l ↔ k ≤ i ∧ ∃ c, l[i - k]? = some c ∧ c.seq = s := by
  intro l
  induction l with
  | nil => intro k i; simp [idxFrom]
  | cons c cs ih =>
    intro k i
    unfold idxFrom
    rw [List.mem_append, ih]
    constructor
    · rintro (h | ⟨h1, d, h2, h3⟩)
      · by_cases hc : c.seq == s
        · simp only [hc, if_true, List.mem_singleton] at h
          subst h
          exact ⟨Nat.le_refl _, c, by simp, by simpa using hc⟩
        · simp [hc] at h
      · refine ⟨by omega, d, ?_, h3⟩
        have : i - k = (i - (k + 1)) + 1 := by omega
        rw [this, List.getElem?_cons_succ]; exact h2
    · rintro ⟨h1, d, h2, h3⟩
      by_cases hik : i = k
      · subst hik
        simp only [Nat.sub_self, List.getElem?_cons_zero, Option.some.injEq] at h2
        subst h2
        left; simp [h3]
      · right
        refine ⟨by omega, d, ?_, h3⟩
        have : i - k = (i - (k + 1)) + 1 := by omega
        rw [this, List.getElem?_cons_succ] at h2; exact h2

theorem idxFrom_sorted (s : Nat) : ∀ (l : List Cmd) (k : Nat), (idxFrom s k l).Pairwise (· < ·) := by
  intro l
  induction l with
  | nil => intro k; simp [idxFrom]
  | cons c cs ih =>
    intro k
    unfold idxFrom
    rw [List.pairwise_append]
    refine ⟨by split <;> simp, ih (k + 1), fun a ha b hb => ?_⟩
    have hb' := ((mem_idxFrom s cs (k + 1) b).mp hb).1
    split at ha
    · have : a = k := by simpa using ha
      omega
    · cases ha

theorem firstSeqs_fold (bl : List Cmd) : ∀ (l : List Nat) (acc : List (String × Nat)) (x : String × Nat),
    x ∈ l.foldl (fun acc s =>
      let p := peerD (grp bl s)
      if acc.any (fun q => q.1 == p) then acc else acc ++ [(p, s)]) acc →
    x ∈ acc ∨ (x.2 ∈ l ∧ peerD (grp bl x.2) = x.1) := by
  intro l
  induction l with
  | nil => intro acc x h; exact Or.inl h
  | cons s ss ih =>
    intro acc x h
    simp only [List.foldl_cons] at h
    rcases ih _ x h with h' | ⟨h1, h2⟩
    · split at h'
      · exact Or.inl h'
      · rcases List.mem_append.mp h' with h'' | h''
        · exact Or.inl h''
        · have : x = (peerD (grp bl s), s) := by simpa using h''
          subst this
          exact Or.inr ⟨List.mem_cons_self, rfl⟩
    · exact Or.inr ⟨List.mem_cons_of_mem _ h1, h2⟩

theorem mem_firstSeqs (bl : List Cmd) (x : String × Nat) (h : x ∈ firstSeqs bl) :
    x.2 ∈ seqsOf bl ∧ peerD (grp bl x.2) = x.1 := by
  rcases firstSeqs_fold bl (seqsOf bl) [] x h with h' | h'
  · cases h'
  · exact h'

/-- Invariant of `mapPeerToSeq` over the processed prefix `pre` of the ascending numbers. -/
structure FInv (bl : List Cmd) (pre : List Nat) (acc : List (String × Nat)) : Prop where
  mem  : ∀ x ∈ acc, x.2 ∈ pre ∧ peerD (grp bl x.2) = x.1
  low  : ∀ x ∈ acc, ∀ t ∈ pre, peerD (grp bl t) = x.1 → x.2 ≤ t
  full : ∀ t ∈ pre, ∃ x ∈ acc, x.1 = peerD (grp bl t)

theorem firstSeqs_fold_low (bl : List Cmd) : ∀ (l pre : List Nat) (acc : List (String × Nat)),
    (pre ++ l).Pairwise (· < ·) → FInv bl pre acc →
    FInv bl (pre ++ l) (l.foldl (fun acc s =>
      let p := peerD (grp bl s)
      if acc.any (fun q => q.1 == p) then acc else acc ++ [(p, s)]) acc) := by
  intro l
  induction l with
  | nil => intro pre acc _ h; simpa using h
  | cons s ss ih =>
    intro pre acc hs h
    simp only [List.foldl_cons]
    have hs' : ((pre ++ [s]) ++ ss).Pairwise (· < ·) := by simpa using hs
    have hpre : ∀ t ∈ pre, t < s := by
      intro t ht
      have := (List.pairwise_append.mp hs).2.2 t ht s List.mem_cons_self
      exact this
    have hstep : FInv bl (pre ++ [s]) (if acc.any (fun q => q.1 == peerD (grp bl s)) then acc
        else acc ++ [(peerD (grp bl s), s)]) := by
      by_cases hany : acc.any (fun q => q.1 == peerD (grp bl s)) = true
      · simp only [hany, if_true]
        refine ⟨fun x hx => ?_, fun x hx t ht hp => ?_, fun t ht => ?_⟩
        · exact ⟨List.mem_append_left _ (h.mem x hx).1, (h.mem x hx).2⟩
        · rcases List.mem_append.mp ht with ht | ht
          · exact h.low x hx t ht hp
          · have : t = s := by simpa using ht
            subst this
            exact Nat.le_of_lt (hpre _ (h.mem x hx).1)
        · rcases List.mem_append.mp ht with ht | ht
          · exact h.full t ht
          · have : t = s := by simpa using ht
            subst this
            obtain ⟨x, hx, hxe⟩ := List.any_eq_true.mp hany
            exact ⟨x, hx, by simpa using hxe⟩
      · have hany' : acc.any (fun q => q.1 == peerD (grp bl s)) = false := Bool.eq_false_iff.mpr hany
        simp only [hany', Bool.false_eq_true, if_false]
        refine ⟨fun x hx => ?_, fun x hx t ht hp => ?_, fun t ht => ?_⟩
        · rcases List.mem_append.mp hx with hx | hx
          · exact ⟨List.mem_append_left _ (h.mem x hx).1, (h.mem x hx).2⟩
          · have : x = (peerD (grp bl s), s) := by simpa using hx
            subst this
            exact ⟨by simp, rfl⟩
        · rcases List.mem_append.mp hx with hxa | hxa
          · rcases List.mem_append.mp ht with ht | ht
            · exact h.low x hxa t ht hp
            · have hts : t = s := by simpa using ht
              rw [hts]
              exact Nat.le_of_lt (hpre _ (h.mem x hxa).1)
          · have : x = (peerD (grp bl s), s) := by simpa using hxa
            subst this
            rcases List.mem_append.mp ht with ht | ht
            · exfalso
              obtain ⟨y, hy, hye⟩ := h.full t ht
              have : acc.any (fun q => q.1 == peerD (grp bl s)) = true :=
                List.any_eq_true.mpr ⟨y, hy, by simp [hye, hp]⟩
              rw [hany'] at this; cases this
            · have : t = s := by simpa using ht
              subst this; exact Nat.le_refl _
        · rcases List.mem_append.mp ht with ht | ht
          · obtain ⟨x, hx, hxe⟩ := h.full t ht
            exact ⟨x, List.mem_append_left _ hx, hxe⟩
          · have hts : t = s := by simpa using ht
            exact ⟨(peerD (grp bl s), s), List.mem_append_right _ (by simp), by rw [hts]⟩
    have := ih (pre ++ [s]) _ hs' hstep
    simpa using this

theorem firstSeqs_inv (bl : List Cmd) : FInv bl (seqsOf bl) (firstSeqs bl) := by
  have := firstSeqs_fold_low bl (seqsOf bl) [] [] (by simpa using seqsOf_sorted bl)
    ⟨(fun x hx => by cases hx), (fun x hx => by cases hx), (fun t ht => by cases ht)⟩
  simpa [firstSeqs] using this

/-- Every call of the first loop belongs to one entry of `a`; a partner from `b` has the same peer
and is the lowest entry of `b` with that peer. -/
def PeerCall (al bl : List Cmd) (l : List Nat) (c : Call) : Prop :=
  ∃ s ∈ l, c.aIdx = idxFrom s 0 al ∧
    ∀ q, c.bSeq = some q → q ∈ seqsOf bl ∧ peerD (grp bl q) = peerD (grp al s) ∧
      ∀ t ∈ seqsOf bl, peerD (grp bl t) = peerD (grp al s) → q ≤ t

theorem matchFold_peer (al bl : List Cmd) (all : List Nat) : ∀ (l : List Nat) (acc : List Call × List Nat),
    (∀ s ∈ l, s ∈ all) → (∀ c ∈ acc.1, PeerCall al bl all c) →
    ∀ c ∈ (l.foldl (matchStep al bl (firstSeqs bl)) acc).1, PeerCall al bl all c := by
  intro l
  induction l with
  | nil => intro acc _ h; exact h
  | cons s ss ih =>
    intro acc hl h
    simp only [List.foldl_cons]
    refine ih _ (fun x hx => hl x (List.mem_cons_of_mem _ hx)) ?_
    have hs := hl s List.mem_cons_self
    have hnone : ∀ c ∈ acc.1 ++ [({ aIdx := idxFrom s 0 al, bl := [] } : Call)], PeerCall al bl all c := by
      intro c hc
      rcases List.mem_append.mp hc with hc | hc
      · exact h c hc
      · have : c = { aIdx := idxFrom s 0 al, bl := [] } := by simpa using hc
        subst this
        exact ⟨s, hs, rfl, fun q hq => by cases hq⟩
    unfold matchStep
    split
    · rename_i q hfind
      split
      · intro c hc
        rcases List.mem_append.mp hc with hc | hc
        · exact h c hc
        · have : c = { aIdx := idxFrom s 0 al, bl := grp bl q.2, bSeq := some q.2 } := by simpa using hc
          subst this
          refine ⟨s, hs, rfl, fun q' hq' => ?_⟩
          have : q.2 = q' := by simpa using hq'
          subst this
          have hm := mem_firstSeqs bl q (List.mem_of_find?_eq_some hfind)
          have hp := List.find?_some hfind
          have : q.1 = peerD (grp al s) := by simpa using hp
          exact ⟨hm.1, by rw [hm.2, this], fun t ht hp =>
            (firstSeqs_inv bl).low q (List.mem_of_find?_eq_some hfind) t ht (by rw [hp, this])⟩
      · exact hnone
    · exact hnone

theorem matchLoop_peer (al bl : List Cmd) : ∀ c ∈ (matchLoop al bl).1, PeerCall al bl (seqsOf al) c := by
  unfold matchLoop
  exact matchFold_peer al bl (seqsOf al) (seqsOf al) _ (fun _ h => h) (fun c hc => by cases hc)

/-! ### first loop -/

theorem matchStep_aIdx (al bl : List Cmd) (bp : List (String × Nat)) (acc : List Call × List Nat) (s : Nat) :
    (matchStep al bl bp acc s).1.map (·.aIdx) = acc.1.map (·.aIdx) ++ [idxFrom s 0 al] := by
  unfold matchStep
  split
  · split <;> simp
  · simp

theorem matchFold_aIdx (al bl : List Cmd) (bp : List (String × Nat)) : ∀ (l : List Nat) (acc : List Call × List Nat),
    (l.foldl (matchStep al bl bp) acc).1.map (·.aIdx) = acc.1.map (·.aIdx) ++ l.map (fun s => idxFrom s 0 al) := by
  intro l
  induction l with
  | nil => intro acc; simp
  | cons s ss ih =>
    intro acc
    simp only [List.foldl_cons]
    rw [ih, matchStep_aIdx]; simp

/-- What the first loop knows about the entries of `b`. -/
structure MInv (bl : List Cmd) (acc : List Call × List Nat) : Prop where
  sub   : acc.2.Sublist (seqsOf bl)
  nodup : (acc.1.filterMap (·.bSeq)).Nodup
  used  : ∀ q, q ∈ acc.1.filterMap (·.bSeq) ↔ q ∈ seqsOf bl ∧ q ∉ acc.2
  grpOk : ∀ c ∈ acc.1, (c.bSeq = none ∧ c.bl = []) ∨ ∃ q, c.bSeq = some q ∧ c.bl = grp bl q

theorem matchStep_inv (al bl : List Cmd) (bp : List (String × Nat)) (acc : List Call × List Nat) (s : Nat)
    (h : MInv bl acc) : MInv bl (matchStep al bl bp acc s) := by
  have hnone : MInv bl (acc.1 ++ [{ aIdx := idxFrom s 0 al, bl := [] }], acc.2) := by
    refine ⟨h.sub, by simpa [List.filterMap_append] using h.nodup, fun q => by simpa [List.filterMap_append] using h.used q, ?_⟩
    intro c hc
    rcases List.mem_append.mp hc with hc | hc
    · exact h.grpOk c hc
    · have : c = { aIdx := idxFrom s 0 al, bl := [] } := by simpa using hc
      subst this; exact Or.inl ⟨rfl, rfl⟩
  unfold matchStep
  split
  · rename_i q _
    split
    · rename_i hq
      have hqm : q.2 ∈ acc.2 := by simpa using hq
      have hqb : q.2 ∈ seqsOf bl := h.sub.subset hqm
      refine ⟨(List.filter_sublist).trans h.sub, ?_, fun x => ?_, ?_⟩
      · simp only [List.filterMap_append, List.filterMap_cons, List.filterMap_nil]
        rw [List.nodup_append]
        refine ⟨h.nodup, by simp, fun a ha b hb => ?_⟩
        have : b = q.2 := by simpa using hb
        subst this
        intro hab; rw [hab] at ha
        exact ((h.used _).mp ha).2 hqm
      · simp only [List.filterMap_append, List.filterMap_cons, List.filterMap_nil, List.mem_append, List.mem_singleton,
          List.mem_filter]
        constructor
        · rintro (hx | hx)
          · have := (h.used x).mp hx
            exact ⟨this.1, fun hh => this.2 hh.1⟩
          · subst hx; exact ⟨hqb, fun hh => by simp at hh⟩
        · rintro ⟨hx1, hx2⟩
          by_cases hxq : x = q.2
          · exact Or.inr hxq
          · left
            refine (h.used x).mpr ⟨hx1, fun hh => hx2 ⟨hh, by simpa using hxq⟩⟩
      · intro c hc
        rcases List.mem_append.mp hc with hc | hc
        · exact h.grpOk c hc
        · have : c = { aIdx := idxFrom s 0 al, bl := grp bl q.2, bSeq := some q.2 } := by simpa using hc
          subst this; exact Or.inr ⟨q.2, rfl, rfl⟩
    · exact hnone
  · exact hnone

theorem matchFold_inv (al bl : List Cmd) (bp : List (String × Nat)) : ∀ (l : List Nat) (acc : List Call × List Nat),
    MInv bl acc → MInv bl (l.foldl (matchStep al bl bp) acc) := by
  intro l
  induction l with
  | nil => intro acc h; exact h
  | cons s ss ih => intro acc h; exact ih _ (matchStep_inv al bl bp acc s h)

theorem matchLoop_inv (al bl : List Cmd) : MInv bl (matchLoop al bl) := by
  unfold matchLoop
  refine matchFold_inv al bl _ _ _ ⟨List.Sublist.refl _, by simp, fun q => by simp, fun c hc => by cases hc⟩

theorem matchStep_prefix (al bl : List Cmd) (bp : List (String × Nat)) (acc : List Call × List Nat) (s : Nat) :
    ∃ c, (matchStep al bl bp acc s).1 = acc.1 ++ [c] := by
  unfold matchStep
  split
  · split
    · exact ⟨_, rfl⟩
    · exact ⟨_, rfl⟩
  · exact ⟨_, rfl⟩

theorem matchFold_prefix (al bl : List Cmd) (bp : List (String × Nat)) : ∀ (l : List Nat) (acc : List Call × List Nat),
    ∃ cs, (l.foldl (matchStep al bl bp) acc).1 = acc.1 ++ cs := by
  intro l
  induction l with
  | nil => intro acc; exact ⟨[], by simp⟩
  | cons s ss ih =>
    intro acc
    simp only [List.foldl_cons]
    obtain ⟨c, hc⟩ := matchStep_prefix al bl bp acc s
    obtain ⟨cs, hcs⟩ := ih (matchStep al bl bp acc s)
    exact ⟨c :: cs, by rw [hcs, hc]; simp⟩

/-- A device entry whose peer occurs in `b` and in no earlier device entry gets a partner. -/
theorem matchLoop_found (al bl : List Cmd) (pre post : List Nat) (s : Nat)
    (hk : seqsOf al = pre ++ s :: post)
    (ht : ∃ t ∈ seqsOf bl, peerD (grp bl t) = peerD (grp al s))
    (hfirst : ∀ s' ∈ pre, peerD (grp al s') ≠ peerD (grp al s)) :
    ∃ c q, (matchLoop al bl).1[pre.length]? = some c ∧ c.aIdx = idxFrom s 0 al ∧ c.bSeq = some q ∧ c.bl = grp bl q := by
  unfold matchLoop
  rw [hk, List.foldl_append, List.foldl_cons]
  generalize hacc : pre.foldl (matchStep al bl (firstSeqs bl)) ([], seqsOf bl) = acc1
  have hinv : MInv bl acc1 := by
    rw [← hacc]
    exact matchFold_inv al bl _ pre _ ⟨List.Sublist.refl _, by simp, (fun q => by simp), (fun c hc => by cases hc)⟩
  have hpeer : ∀ c ∈ acc1.1, PeerCall al bl pre c := by
    rw [← hacc]
    exact matchFold_peer al bl pre pre _ (fun _ h => h) (fun c hc => by cases hc)
  have hlen : acc1.1.length = pre.length := by
    have := congrArg List.length (matchFold_aIdx al bl (firstSeqs bl) pre ([], seqsOf bl))
    rw [hacc] at this
    simpa using this
  obtain ⟨cs, hcs⟩ := matchFold_prefix al bl (firstSeqs bl) post (matchStep al bl (firstSeqs bl) acc1 s)
  rw [hcs]
  obtain ⟨t, htm, htp⟩ := ht
  obtain ⟨x, hx, hxe⟩ := (firstSeqs_inv bl).full t htm
  unfold matchStep
  cases hfind : (firstSeqs bl).find? (fun q => q.1 == peerD (grp al s)) with
  | none =>
    exfalso
    have := List.find?_eq_none.mp hfind x hx
    simp [hxe, htp] at this
  | some q =>
    have hqm := List.mem_of_find?_eq_some hfind
    have hqp : q.1 = peerD (grp al s) := by simpa using List.find?_some hfind
    have hq := mem_firstSeqs bl q hqm
    have hin : acc1.2.contains q.2 = true := by
      cases hc : acc1.2.contains q.2 with
      | true => rfl
      | false =>
        exfalso
        have hnot : q.2 ∉ acc1.2 := by simpa using hc
        have := (hinv.used q.2).mpr ⟨hq.1, hnot⟩
        obtain ⟨c, hcm, hcb⟩ := List.mem_filterMap.mp this
        obtain ⟨s', hs', _, hall⟩ := hpeer c hcm
        have := (hall q.2 hcb).2.1
        exact hfirst s' hs' (by rw [← this, hq.2, hqp])
    simp only [hin, if_true]
    refine ⟨{ aIdx := idxFrom s 0 al, bl := grp bl q.2, bSeq := some q.2 }, q.2, ?_, rfl, rfl, rfl⟩
    rw [List.append_assoc, List.getElem?_append_right (by omega)]
    simp [hlen]

/-! ### second loop -/

theorem freshStep_shape (al bl : List Cmd) (acc : List Call × Nat × Nat) (s : Nat) :
    ∃ c : Call, (freshStep al bl acc s).1 = acc.1 ++ [c] ∧ c.aIdx = [] ∧ c.bSeq = some s ∧
      c.bl.length = (grp bl s).length ∧
      (∀ d ∈ c.bl, d.seq = freeSeq (seqsOf al) (startsWith (peerD (grp bl s)) "peer ") 70000
              (if startsWith (peerD (grp bl s)) "peer " then acc.2.1 else acc.2.2)) ∧
      (∀ a0, al.head? = some a0 → ∀ d ∈ c.bl, d.name = a0.name) := by
  unfold freshStep
  by_cases hs : startsWith (peerD (grp bl s)) "peer " = true
  · simp only [hs, if_true]
    refine ⟨_, rfl, rfl, rfl, by simp, ?_, ?_⟩
    · intro d hd
      simp only [List.mem_map] at hd
      obtain ⟨e, _, rfl⟩ := hd
      cases al.head? <;> rfl
    · intro a0 ha d hd
      simp only [List.mem_map] at hd
      obtain ⟨e, _, rfl⟩ := hd
      simp [ha]
  · have hs' : startsWith (peerD (grp bl s)) "peer " = false := by simpa using hs
    simp only [hs', Bool.false_eq_true, if_false]
    refine ⟨_, rfl, rfl, rfl, by simp, ?_, ?_⟩
    · intro d hd
      simp only [List.mem_map] at hd
      obtain ⟨e, _, rfl⟩ := hd
      cases al.head? <;> rfl
    · intro a0 ha d hd
      simp only [List.mem_map] at hd
      obtain ⟨e, _, rfl⟩ := hd
      simp [ha]

/-- Every call of the second loop: no device commands, and all its commands carry one number handed
out by `freeSeq` over the device's numbers, and the name of the device's map. -/
def FreshCall (al bl : List Cmd) (c : Call) : Prop :=
  c.aIdx = [] ∧ ∃ s, c.bSeq = some s ∧ c.bl.length = (grp bl s).length ∧
    (∃ st start, ∀ d ∈ c.bl, d.seq = freeSeq (seqsOf al) st 70000 start) ∧
    (∀ a0, al.head? = some a0 → ∀ d ∈ c.bl, d.name = a0.name)

theorem freshFold_shape (al bl : List Cmd) : ∀ (l : List Nat) (acc : List Call × Nat × Nat),
    ∃ cs : List Call, (l.foldl (freshStep al bl) acc).1 = acc.1 ++ cs ∧ cs.map (·.bSeq) = l.map some ∧
      ∀ c ∈ cs, FreshCall al bl c := by
  intro l
  induction l with
  | nil => intro acc; exact ⟨[], by simp, rfl, fun _ h => by cases h⟩
  | cons s ss ih =>
    intro acc
    simp only [List.foldl_cons]
    obtain ⟨c, h1, h2, h3, h4, h5, h6⟩ := freshStep_shape al bl acc s
    obtain ⟨cs, i1, i2, i3⟩ := ih (freshStep al bl acc s)
    refine ⟨c :: cs, by rw [i1, h1]; simp, by simp [h3, i2], fun x hx => ?_⟩
    rcases List.mem_cons.mp hx with rfl | hx'
    · exact ⟨h2, s, h3, h4, ⟨_, _, h5⟩, h6⟩
    · exact i3 x hx'

/-- `freeSeq` hands out a number that is not used, unless all of its `fuel` candidates are used. -/
theorem freeSeq_free_up (used : List Nat) : ∀ (fuel s : Nat),
    freeSeq used true fuel s ∉ used ∨ ∀ k, k < fuel → s + k ∈ used := by
  intro fuel
  induction fuel with
  | zero => intro s; right; intro k hk; omega
  | succ n ih =>
    intro s
    unfold freeSeq
    by_cases hc : used.contains s = true
    · simp only [hc, if_true]
      rcases ih (s + 1) with h | h
      · exact Or.inl h
      · right
        intro k hk
        cases k with
        | zero => simpa using hc
        | succ j => have := h j (by omega); rwa [Nat.add_assoc, Nat.add_comm 1 j] at this
    · left
      simp only [hc, Bool.false_eq_true, if_false]
      simpa using hc

theorem freeSeq_free_down (used : List Nat) : ∀ (fuel s : Nat),
    freeSeq used false fuel s ∉ used ∨ ∀ k, k < fuel → s - k ∈ used := by
  intro fuel
  induction fuel with
  | zero => intro s; right; intro k hk; omega
  | succ n ih =>
    intro s
    unfold freeSeq
    by_cases hc : used.contains s = true
    · simp only [hc, if_true]
      rcases ih (s - 1) with h | h
      · exact Or.inl h
      · right
        intro k hk
        cases k with
        | zero => simpa using hc
        | succ j => have := h j (by omega); rwa [Nat.sub_sub, Nat.add_comm 1 j] at this
    · left
      simp only [hc, Bool.false_eq_true, if_false]
      simpa using hc

theorem freeSeq_ge (used : List Nat) : ∀ (fuel s : Nat), s ≤ freeSeq used true fuel s := by
  intro fuel
  induction fuel with
  | zero => intro s; simp [freeSeq]
  | succ n ih =>
    intro s
    unfold freeSeq
    split
    · simp only [if_true]; exact Nat.le_trans (Nat.le_succ s) (ih (s + 1))
    · exact Nat.le_refl _

/-- The entry of `b` behind a call has a static peer (`set peer …`). -/
def StaticCall (bl : List Cmd) (c : Call) : Prop :=
  ∃ s, c.bSeq = some s ∧ startsWith (peerD (grp bl s)) "peer " = true

theorem freshStep_static (al bl : List Cmd) (acc : List Call × Nat × Nat) (s : Nat) :
    ∃ c : Call, (freshStep al bl acc s).1 = acc.1 ++ [c] ∧ c.bSeq = some s ∧
      acc.2.1 ≤ (freshStep al bl acc s).2.1 ∧
      (startsWith (peerD (grp bl s)) "peer " = true →
        ∀ d ∈ c.bl, acc.2.1 ≤ d.seq ∧ d.seq < (freshStep al bl acc s).2.1) := by
  unfold freshStep
  by_cases hs : startsWith (peerD (grp bl s)) "peer " = true
  · simp only [hs, if_true]
    refine ⟨_, rfl, rfl, Nat.le_trans (freeSeq_ge (seqsOf al) 70000 acc.2.1) (Nat.le_succ _), fun _ d hd => ?_⟩
    simp only [List.mem_map] at hd
    obtain ⟨e, _, rfl⟩ := hd
    cases al.head? <;> exact ⟨freeSeq_ge _ _ _, Nat.lt_succ_self _⟩
  · have hs' : startsWith (peerD (grp bl s)) "peer " = false := by simpa using hs
    simp only [hs', Bool.false_eq_true, if_false]
    exact ⟨_, rfl, rfl, Nat.le_refl _, fun h => by cases h⟩

theorem freshFold_static (al bl : List Cmd) : ∀ (l : List Nat) (acc : List Call × Nat × Nat),
    ∃ cs : List Call, (l.foldl (freshStep al bl) acc).1 = acc.1 ++ cs ∧
      cs.map (·.bSeq) = l.map some ∧
      acc.2.1 ≤ (l.foldl (freshStep al bl) acc).2.1 ∧
      (∀ c ∈ cs, StaticCall bl c → ∀ d ∈ c.bl, acc.2.1 ≤ d.seq) ∧
      cs.Pairwise (fun c1 c2 => StaticCall bl c1 → StaticCall bl c2 →
        ∀ d1 ∈ c1.bl, ∀ d2 ∈ c2.bl, d1.seq < d2.seq) := by
  intro l
  induction l with
  | nil => intro acc; exact ⟨[], by simp, rfl, Nat.le_refl _, (fun _ h => by cases h), List.Pairwise.nil⟩
  | cons s ss ih =>
    intro acc
    simp only [List.foldl_cons]
    obtain ⟨c, h1, h2, h3, h4⟩ := freshStep_static al bl acc s
    obtain ⟨cs, i1, i2, i3, i4, i5⟩ := ih (freshStep al bl acc s)
    refine ⟨c :: cs, by rw [i1, h1]; simp, by simp [h2, i2], Nat.le_trans h3 i3, fun x hx hst d hd => ?_, ?_⟩
    · rcases List.mem_cons.mp hx with rfl | hx'
      · obtain ⟨s', hs1, hs2⟩ := hst
        have : s' = s := by rw [h2] at hs1; exact (Option.some.inj hs1).symm
        subst this
        exact (h4 hs2 d hd).1
      · exact Nat.le_trans h3 (i4 x hx' hst d hd)
    · refine List.pairwise_cons.mpr ⟨fun c2 hc2 hst1 hst2 d1 hd1 d2 hd2 => ?_, i5⟩
      obtain ⟨s', hs1, hs2⟩ := hst1
      have : s' = s := by rw [h2] at hs1; exact (Option.some.inj hs1).symm
      subst this
      exact Nat.lt_of_lt_of_le (h4 hs2 d1 hd1).2 (i4 c2 hc2 hst2 d2 hd2)

end NA.C18.G
