import NA.Proofs.AsaConv3
/-
ASA `line N` planner: umbrella of the helper files
  AsaConv1 (masks: `cnt`, `masked`, insert / erase / lookup lemmas, index form of `Nodup`),
  AsaConv2 (`MaskRun`: mask-level runs; acceptance by the strict device),
  AsaConv3 (`Inv`: the Go position map equals `cnt` of the current mask; `planASA_maskRun`),
plus: the strict device never creates two lines with the same `mkey`.
-/
namespace NA.Acl

theorem nodup_map_eraseIdx {α β} (f : α → β) (s : List α) (p : Nat) (h : (s.map f).Nodup) :
    ((s.eraseIdx p).map f).Nodup :=
  List.Nodup.sublist (List.Sublist.map f (List.eraseIdx_sublist s p)) h

theorem nodup_map_insertIdx {α β} (f : α → β) (s : List α) (p : Nat) (l : α)
    (hp : p ≤ s.length) (hl : f l ∉ s.map f) (h : (s.map f).Nodup) :
    ((s.insertIdx p l).map f).Nodup := by
  induction s generalizing p with
  | nil =>
    have : p = 0 := by simpa using hp
    subst this; simp
  | cons a s ih =>
    cases p with
    | zero =>
      simp only [List.insertIdx_zero, List.map_cons, List.nodup_cons]
      exact ⟨by simpa using hl, by simpa using h⟩
    | succ p =>
      simp only [List.map_cons, List.nodup_cons, List.mem_cons, not_or] at h hl
      have hp' : p ≤ s.length := by simpa using hp
      rw [List.insertIdx_succ_cons]
      simp only [List.map_cons, List.nodup_cons]
      refine ⟨?_, ih p hp' hl.2 h.2⟩
      intro hm
      obtain ⟨y, hy, e⟩ := List.mem_map.1 hm
      rcases (List.mem_insertIdx hp').1 hy with e' | hy
      · subst e'; exact hl.1 e
      · exact h.1 (List.mem_map.2 ⟨y, hy, e⟩)

/-- The strict device keeps the `mkey`s of an ACL pairwise different. -/
theorem asaExec1_nodup (s s' : List Line) (op : Op) (h : (s.map (·.mkey)).Nodup)
    (he : asaExec1 s op = some s') : (s'.map (·.mkey)).Nodup := by
  have hany : ∀ (t : List Line) (l : Line), (t.any fun x => x.mkey == l.mkey) = false →
      l.mkey ∉ t.map (·.mkey) := by
    intro t l ha hm
    obtain ⟨y, hy, e⟩ := List.mem_map.1 hm
    have : (t.any fun x => x.mkey == l.mkey) = true :=
      List.any_eq_true.2 ⟨y, hy, by simpa using e⟩
    rw [ha] at this; cases this
  cases op with
  | add p l =>
    simp only [asaExec1] at he
    by_cases hc : (decide (p ≤ s.length) && !(s.any fun x => x.mkey == l.mkey)) = true
    · simp only [hc, if_true, Option.some.injEq] at he
      simp only [Bool.and_eq_true, decide_eq_true_eq, Bool.not_eq_true'] at hc
      subst he
      exact nodup_map_insertIdx _ s p l hc.1 (hany s l hc.2) h
    · simp [hc] at he
  | del p l =>
    simp only [asaExec1] at he
    by_cases hc : (s[p]? == some l) = true
    · simp only [hc, if_true, Option.some.injEq] at he
      subst he
      exact nodup_map_eraseIdx _ s p h
    · simp [hc] at he
  | move dp a ap b =>
    simp only [asaExec1] at he
    by_cases hc : (s[dp]? == some a) = true
    · simp only [hc, if_true] at he
      by_cases hc2 : (decide (ap ≤ (s.eraseIdx dp).length) &&
          !((s.eraseIdx dp).any fun x => x.mkey == b.mkey)) = true
      · simp only [hc2, if_true, Option.some.injEq] at he
        simp only [Bool.and_eq_true, decide_eq_true_eq, Bool.not_eq_true'] at hc2
        subst he
        exact nodup_map_insertIdx _ _ ap b hc2.1 (hany _ b hc2.2) (nodup_map_eraseIdx _ s dp h)
      · simp [hc2] at he
    · simp [hc] at he
  | bad => simp [asaExec1] at he

theorem asaTrace_nodup (s : List Line) (ops : List Op) (tr : List (List Line))
    (h : (s.map (·.mkey)).Nodup) (he : asaTrace s ops = some tr) :
    ∀ t, t ∈ tr → (t.map (·.mkey)).Nodup := by
  induction ops generalizing s tr with
  | nil => simp [asaTrace] at he; subst he; simp
  | cons op ops ih =>
    cases h1 : asaExec1 s op with
    | none => simp [asaTrace, h1] at he
    | some s' =>
      cases h2 : asaTrace s' ops with
      | none => simp [asaTrace, h1, h2] at he
      | some rest =>
        simp [asaTrace, h1, h2] at he
        subst he
        have hs' := asaExec1_nodup s s' op h h1
        intro t ht
        rcases List.mem_cons.1 ht with e | ht
        · subst e; exact hs'
        · exact ih s' rest hs' h2 t ht

end NA.Acl
