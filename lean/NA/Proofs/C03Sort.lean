import NA.Proofs.C03Final
/-
C03, whole-vsys theorems, part 16: `sort.Strings` is canonical — two lists without repetition
and with the same members are sorted to the same list.  Core Lean only.
-/
namespace NA.PanOs

def StrictSorted (l : List String) : Prop := l.Pairwise (· < ·)

theorem lt_of_not_lt_of_ne {x y : String} (h : ¬ y < x) (hne : x ≠ y) : x < y := by
  have hle : x ≤ y := String.not_lt.mp h
  apply Decidable.byContradiction
  intro hn
  exact hne (String.le_antisymm hle (String.not_lt.mp hn))

theorem insertSorted_sorted (x : String) : ∀ (l : List String), StrictSorted l → x ∉ l →
    StrictSorted (insertSorted x l) := by
  intro l
  induction l with
  | nil => intro _ _; simp [insertSorted, StrictSorted]
  | cons y ys ih =>
    intro hs hx
    unfold StrictSorted at hs ih ⊢
    rw [List.pairwise_cons] at hs
    simp only [insertSorted]
    split
    · rename_i hyx
      rw [List.pairwise_cons]
      refine ⟨?_, ih hs.2 (fun h => hx (List.mem_cons_of_mem _ h))⟩
      intro z hz
      rcases List.mem_cons.mp ((insertSorted_perm x ys).mem_iff.mp hz) with hz | hz
      · rw [hz]; exact hyx
      · exact hs.1 z hz
    · rename_i hyx
      have hxy : x < y := lt_of_not_lt_of_ne hyx (fun e => hx (by simp [e]))
      rw [List.pairwise_cons]
      refine ⟨?_, List.pairwise_cons.mpr hs⟩
      intro z hz
      rcases List.mem_cons.mp hz with hz | hz
      · rw [hz]; exact hxy
      · exact String.lt_trans hxy (hs.1 z hz)

theorem sortStrings_sorted : ∀ (l : List String), l.Nodup → StrictSorted (sortStrings l) := by
  intro l
  induction l with
  | nil => intro _; simp [sortStrings, StrictSorted]
  | cons x xs ih =>
    intro h
    rw [List.nodup_cons] at h
    unfold sortStrings at ih ⊢
    simp only [List.foldr_cons]
    apply insertSorted_sorted x _ (ih h.2)
    intro hm
    exact h.1 ((sortStrings_perm xs).mem_iff.mp hm)

theorem strictSorted_ext : ∀ (l₁ l₂ : List String), StrictSorted l₁ → StrictSorted l₂ → SameMem l₁ l₂ →
    l₁ = l₂ := by
  intro l₁
  induction l₁ with
  | nil =>
    intro l₂ _ _ hm
    cases l₂ with
    | nil => rfl
    | cons y ys => exact absurd ((hm y).mpr (by simp)) (by simp)
  | cons x xs ih =>
    intro l₂ h₁ h₂ hm
    cases l₂ with
    | nil => exact absurd ((hm x).mp (by simp)) (by simp)
    | cons y ys =>
      unfold StrictSorted at h₁ h₂
      rw [List.pairwise_cons] at h₁ h₂
      have hxy : x = y := by
        rcases List.mem_cons.mp ((hm x).mp (by simp)) with h | h
        · exact h
        · rcases List.mem_cons.mp ((hm y).mpr (by simp)) with h' | h'
          · exact h'.symm
          · exact absurd (h₁.1 y h') (String.lt_asymm (h₂.1 x h))
      subst hxy
      congr 1
      apply ih ys h₁.2 h₂.2
      intro z
      constructor
      · intro hz
        rcases List.mem_cons.mp ((hm z).mp (List.mem_cons_of_mem _ hz)) with h | h
        · subst h; exact absurd (h₁.1 z hz) (String.lt_irrefl z)
        · exact h
      · intro hz
        rcases List.mem_cons.mp ((hm z).mpr (List.mem_cons_of_mem _ hz)) with h | h
        · subst h; exact absurd (h₂.1 z hz) (String.lt_irrefl z)
        · exact h

/-- **`sort.Strings` is canonical.** -/
theorem sortStrings_canonical {l₁ l₂ : List String} (h₁ : l₁.Nodup) (h₂ : l₂.Nodup) (hm : SameMem l₁ l₂) :
    sortStrings l₁ = sortStrings l₂ := by
  apply strictSorted_ext _ _ (sortStrings_sorted l₁ h₁) (sortStrings_sorted l₂ h₂)
  intro x
  rw [(sortStrings_perm l₁).mem_iff, (sortStrings_perm l₂).mem_iff]
  exact hm x

end NA.PanOs
