import NA.Proofs.C19Code
/-!
# C19 — an undisturbed run promotes the newest revision (unless a leftover `next` makes
`uptodate` say yes)

Domain `calm`: product of the safety facts, the numbering facts and facts that hold while one
invocation runs alone from a quiescent state: nobody else holds the lock, the git commands do not
fail, `next` is a fresh clone of the remote head, …  Requirement: `exit 0` only where the facts
say that `current` names the newest revision; `exit n` (n ≠ 0) nowhere reachable.
-/
set_option linter.unusedVariables false
set_option linter.unnecessarySimpa false
namespace NA.C19

structure C3 where
  lockFree  : Bool   -- the lock is free or ours
  notStale  : Bool   -- there is no `next` whose HEAD equals the remote head
  goodR     : Bool   -- the newest revision of the repository compiles
  quietF    : Bool   -- no git command has failed, nobody edited POLICY
  nextNone  : Bool   -- there is no `next`
  nextEmpty : Bool   -- `next` exists without `src`
  headR     : Bool   -- HEAD of next/src is the remote head
  baseEq    : Bool   -- origin/master as known in next/src is the remote head
  hGood     : Bool   -- the tree of HEAD of next/src compiles
  hashHead  : Bool   -- $HASH is HEAD of next/src
  dirNew    : Bool   -- p$POLICY exists, is compiled and its HEAD is the remote head
  curNone   : Bool   -- there is no link `current`
  newestF   : Bool   -- `current` names a compiled directory whose HEAD is the remote head
  deriving DecidableEq, Repr

structure F3 where
  n : F2
  s : F1
  k : F4
  c : C3

def C3.kept (a : C3) (c : Cmd) : C3 where
  lockFree  := a.lockFree
  notStale  := a.notStale && !c.wNext && !c.wRemote
  goodR     := a.goodR && !c.wRemote
  quietF    := a.quietF && !c.wGhost
  nextNone  := a.nextNone && !c.wNext
  nextEmpty := a.nextEmpty && !c.wNext
  headR     := a.headR && !c.wHead && !c.wRemote
  baseEq    := a.baseEq && !c.wBase && !c.wRemote
  hGood     := a.hGood && !c.wHead
  hashHead  := a.hashHead && !c.wHead && !c.wHash
  dirNew    := a.dirNew && !c.wDirs && !c.wPolicy && !c.wRemote
  curNone   := a.curNone && !c.wCurrent
  newestF   := a.newestF && !c.wCurrent && !c.wDirs && !c.wRemote

def tfc (c : Cmd) (a : F3) (ok : Bool) : Option C3 :=
  let k := a.c.kept c
  match c with
  | .nop _ => if ok then some k else none          -- `true`, `cd`, assignments … never fail
  | .flockNB => if !ok && a.c.lockFree then none else some k
  | .uptodateCheck => some (if ok then { k with newestF := a.c.notStale } else k)
  | .rmrfNext => some { k with nextNone := true, notStale := true }
  | .mkdirNext => if ok then some { k with nextEmpty := true } else if a.c.nextNone then none else some k
  | .gitClone =>
    if a.c.nextEmpty then
      (if ok then some { k with headR := true, baseEq := true, hGood := a.c.goodR, quietF := a.c.quietF } else none)
    else some k
  | .compile => if !ok && a.c.hGood then none else some k
  | .gitCommitPolicy =>
    if a.c.quietF && a.c.headR && a.n.sOk && a.n.hEqR && a.n.polGt then
      (if ok then some { k with quietF := true, hGood := a.c.hGood } else none)
    else some k
  | .saveHash => if ok then some { k with hashHead := true } else if a.c.hGood then none else some k
  | .gitPullMerge =>
    if a.c.baseEq && a.c.hGood then
      (if ok then some { k with quietF := a.c.quietF, hGood := true, hashHead := a.c.hashHead, baseEq := true,
                                headR := a.c.headR } else none)
    else some k
  | .gitPush =>
    if a.c.baseEq && a.c.hGood then
      (if ok then some { k with quietF := a.c.quietF, headR := true, baseEq := true, goodR := true } else none)
    else some k
  | .gitResetHash =>
    some { k with headR := a.c.headR && a.c.hashHead, hGood := a.c.hGood && a.c.hashHead, hashHead := a.c.hashHead }
  | .mvNextTo =>
    if a.c.headR && a.s.nextOk && a.k.codeH && a.n.fresh && a.c.quietF then
      (if ok then some { k with dirNew := true, nextNone := true } else none)
    else some k
  | .rmCurrent => some { k with curNone := true }
  | .lnCurrent => some { k with newestF := a.c.curNone && a.c.dirNew }
  | _ => some k

def tf3 (c : Cmd) (a : F3) (ok : Bool) : Option F3 :=
  match tf2 c a.n ok, tf1 c a.s ok, tf4 c a.k ok, tfc c a ok with
  | some n, some s, some k, some c' => some ⟨n, s, k, c'⟩
  | _, _, _, _ => none

def req3 (c : Cmd) (a : F3) : Bool :=
  req1 c a.s &&
  (match c with
   | .exit 0 => a.c.newestF
   | .exit _ => false
   | _ => true)

def C3.leB (a b : C3) : Bool :=
  (!b.lockFree || a.lockFree) && (!b.notStale || a.notStale) && (!b.goodR || a.goodR) && (!b.quietF || a.quietF) &&
  (!b.nextNone || a.nextNone) && (!b.nextEmpty || a.nextEmpty) && (!b.headR || a.headR) && (!b.baseEq || a.baseEq) &&
  (!b.hGood || a.hGood) && (!b.hashHead || a.hashHead) && (!b.dirNew || a.dirNew) && (!b.curNone || a.curNone) &&
  (!b.newestF || a.newestF)

/-- The calm domain.  Entry: what the `_partial` theorem assumes about the state in which the
invocation starts. -/
def calm : Dom where
  F := F3
  le a b := numbering.le a.n b.n && safety.le a.s b.s && code.le a.k b.k && C3.leB a.c b.c
  meet a b := ⟨numbering.meet a.n b.n, safety.meet a.s b.s, code.meet a.k b.k,
    ⟨a.c.lockFree && b.c.lockFree, a.c.notStale && b.c.notStale, a.c.goodR && b.c.goodR, a.c.quietF && b.c.quietF,
     a.c.nextNone && b.c.nextNone, a.c.nextEmpty && b.c.nextEmpty, a.c.headR && b.c.headR, a.c.baseEq && b.c.baseEq,
     a.c.hGood && b.c.hGood, a.c.hashHead && b.c.hashHead, a.c.dirNew && b.c.dirNew, a.c.curNone && b.c.curNone,
     a.c.newestF && b.c.newestF⟩⟩
  entry := ⟨numbering.entry, safety.entry, code.entry,
    ⟨true, true, true, true, false, false, false, false, false, false, false, false, false⟩⟩
  tf := tf3
  req := req3

/-! ### Meaning -/

structure Γc (a : C3) (g : G) (p : Proc) : Prop where
  lockFree  : a.lockFree = true → g.lock = none ∨ g.lock = some p.pid
  notStale  : a.notStale = true → g.staleNext = false
  goodR     : a.goodR = true → (commitAt g.store g.remote).good = true
  quietF    : a.quietF = true → quiet g
  nextNone  : a.nextNone = true → g.next = none
  nextEmpty : a.nextEmpty = true → ∃ d, g.next = some d ∧ d.head = none
  headR     : a.headR = true → g.nextHead = some g.remote
  baseEq    : a.baseEq = true → p.base = g.remote
  hGood     : a.hGood = true → ∃ h, g.nextHead = some h ∧ (commitAt g.store h).good = true
  hashHead  : a.hashHead = true → g.nextHead = some p.hash
  dirNew    : a.dirNew = true → ∃ d, lookupDir g.dirs p.policy = some d ∧ d.built = true ∧ d.head = some g.remote ∧
                d.code = treeOf g g.remote ∧ d.mixed = false
  curNone   : a.curNone = true → g.current = none
  newestF   : a.newestF = true → g.newest = true

structure Γ3 (a : F3) (g : G) (p : Proc) : Prop where
  s : Γ1 a.s g p
  n : a.c.quietF = true → Γ2 a.n g p
  k : Γ4 a.k g p
  c : Γc a.c g p

theorem Γc.mono {a b : C3} {g : G} {p : Proc} (h : Γc a g p) (hle : C3.leB a b = true) : Γc b g p := by
  simp only [C3.leB, Bool.and_eq_true, Bool.or_eq_true, Bool.not_eq_true'] at hle
  obtain ⟨⟨⟨⟨⟨⟨⟨⟨⟨⟨⟨⟨h1, h2⟩, h3⟩, h4⟩, h5⟩, h6⟩, h7⟩, h8⟩, h9⟩, h10⟩, h11⟩, h12⟩, h13⟩ := hle
  constructor
  · intro hb; exact h.lockFree (by rcases h1 with h1 | h1 <;> simp_all)
  · intro hb; exact h.notStale (by rcases h2 with h2 | h2 <;> simp_all)
  · intro hb; exact h.goodR (by rcases h3 with h3 | h3 <;> simp_all)
  · intro hb; exact h.quietF (by rcases h4 with h4 | h4 <;> simp_all)
  · intro hb; exact h.nextNone (by rcases h5 with h5 | h5 <;> simp_all)
  · intro hb; exact h.nextEmpty (by rcases h6 with h6 | h6 <;> simp_all)
  · intro hb; exact h.headR (by rcases h7 with h7 | h7 <;> simp_all)
  · intro hb; exact h.baseEq (by rcases h8 with h8 | h8 <;> simp_all)
  · intro hb; exact h.hGood (by rcases h9 with h9 | h9 <;> simp_all)
  · intro hb; exact h.hashHead (by rcases h10 with h10 | h10 <;> simp_all)
  · intro hb; exact h.dirNew (by rcases h11 with h11 | h11 <;> simp_all)
  · intro hb; exact h.curNone (by rcases h12 with h12 | h12 <;> simp_all)
  · intro hb; exact h.newestF (by rcases h13 with h13 | h13 <;> simp_all)

theorem Γ3.mono {a b : F3} {g : G} {p : Proc} (h : Γ3 a g p) (hle : calm.le a b = true) : Γ3 b g p := by
  simp only [calm, Bool.and_eq_true] at hle
  obtain ⟨⟨⟨h1, h2⟩, h4⟩, h3⟩ := hle
  refine ⟨h.s.mono h2, ?_, h.k.mono h4, h.c.mono h3⟩
  intro hq
  have : a.c.quietF = true := by
    simp only [C3.leB, Bool.and_eq_true, Bool.or_eq_true, Bool.not_eq_true'] at h3
    rcases h3.1.1.1.1.1.1.1.1.1.2 with h4 | h4
    · rw [hq] at h4; cases h4
    · exact h4
  exact (h.n this).mono h1

/-! ### What survives a command without looking at it -/

section keep
variable (c : Cmd) {g : G} {p : Proc}

theorem keep_all3 {a : C3} {pc : Nat} {t : Bool} (hΓ : Γc a g p) (hvg : VG g) :
    Γc (a.kept c) (exec c g p).1 (upd (exec c g p).2.1 pc t) := by
  constructor
  · intro hf
    have := hΓ.lockFree hf
    simp only [exec_pid]
    rcases exec_lock c g p with h1 | ⟨h0, h1⟩
    · rw [h1]; exact this
    · exact Or.inr h1
  · intro hf
    simp only [C3.kept, Bool.and_eq_true, Bool.not_eq_true'] at hf
    obtain ⟨⟨h1, h2⟩, h3⟩ := hf
    have := hΓ.notStale h1
    unfold G.staleNext at *
    rw [fr_next c g p h2, fr_remote c g p h3]; exact this
  · intro hf
    simp only [C3.kept, Bool.and_eq_true, Bool.not_eq_true'] at hf
    obtain ⟨h1, h2⟩ := hf
    rw [fr_remote c g p h2, commitAt_exec c hvg.remote]; exact hΓ.goodR h1
  · intro hf
    simp only [C3.kept, Bool.and_eq_true, Bool.not_eq_true'] at hf
    obtain ⟨h1, h2⟩ := hf
    obtain ⟨q1, q2⟩ := hΓ.quietF h1
    obtain ⟨e1, e2⟩ := fr_ghost c g p h2
    exact ⟨by rw [e1]; exact q1, by rw [e2]; exact q2⟩
  · intro hf
    simp only [C3.kept, Bool.and_eq_true, Bool.not_eq_true'] at hf
    obtain ⟨h1, h2⟩ := hf
    rw [fr_next c g p h2]; exact hΓ.nextNone h1
  · intro hf
    simp only [C3.kept, Bool.and_eq_true, Bool.not_eq_true'] at hf
    obtain ⟨h1, h2⟩ := hf
    rw [fr_next c g p h2]; exact hΓ.nextEmpty h1
  · intro hf
    simp only [C3.kept, Bool.and_eq_true, Bool.not_eq_true'] at hf
    obtain ⟨⟨h1, h2⟩, h3⟩ := hf
    rw [fr_head c g p h2, fr_remote c g p h3]; exact hΓ.headR h1
  · intro hf
    simp only [C3.kept, Bool.and_eq_true, Bool.not_eq_true'] at hf
    obtain ⟨⟨h1, h2⟩, h3⟩ := hf
    show (exec c g p).2.1.base = _
    rw [fr_base c g p h2, fr_remote c g p h3]; exact hΓ.baseEq h1
  · intro hf
    simp only [C3.kept, Bool.and_eq_true, Bool.not_eq_true'] at hf
    obtain ⟨h1, h2⟩ := hf
    obtain ⟨h, hh, hg⟩ := hΓ.hGood h1
    exact ⟨h, by rw [fr_head c g p h2]; exact hh, by rw [commitAt_exec c (hvg.head h hh)]; exact hg⟩
  · intro hf
    simp only [C3.kept, Bool.and_eq_true, Bool.not_eq_true'] at hf
    obtain ⟨⟨h1, h2⟩, h3⟩ := hf
    show _ = some (exec c g p).2.1.hash
    rw [fr_head c g p h2, fr_hash c g p h3]; exact hΓ.hashHead h1
  · intro hf
    simp only [C3.kept, Bool.and_eq_true, Bool.not_eq_true'] at hf
    obtain ⟨⟨⟨h1, h2⟩, h3⟩, h4⟩ := hf
    show ∃ d, lookupDir _ (exec c g p).2.1.policy = some d ∧ _
    rw [fr_dirs c g p h2, fr_policy c g p h3, fr_remote c g p h4, treeOf_exec c hvg.remote]; exact hΓ.dirNew h1
  · intro hf
    simp only [C3.kept, Bool.and_eq_true, Bool.not_eq_true'] at hf
    obtain ⟨h1, h2⟩ := hf
    rw [fr_current c g p h2]; exact hΓ.curNone h1
  · intro hf
    simp only [C3.kept, Bool.and_eq_true, Bool.not_eq_true'] at hf
    obtain ⟨⟨⟨h1, h2⟩, h3⟩, h4⟩ := hf
    have := hΓ.newestF h1
    unfold G.newest at *
    rw [fr_current c g p h2, fr_dirs c g p h3, fr_remote c g p h4, commitAt_exec c hvg.remote]; exact this

end keep

end NA.C19
