import NA.Proofs.C15Strings
/-!
# C15 helper lemmas, part 4: evaluation of `check` on the answers of the scripted device
-/
namespace NA.Ios

variable {σ : Type}

def setPend (st : St σ) (p : Str) : St σ := { st with pend := p }
def addWarns (st : St σ) (ws : List (Str × Str)) : St σ := { st with warns := st.warns ++ ws }

@[simp] theorem setPend_pend (st : St σ) (p : Str) : (setPend st p).pend = p := rfl
@[simp] theorem setPend_active (st : St σ) (p : Str) : (setPend st p).reloadActive = st.reloadActive := rfl
@[simp] theorem setPend_trace (st : St σ) (p : Str) : (setPend st p).trace = st.trace := rfl
@[simp] theorem setPend_warns (st : St σ) (p : Str) : (setPend st p).warns = st.warns := rfl
@[simp] theorem setPend_dev (st : St σ) (p : Str) : (setPend st p).dev = st.dev := rfl
@[simp] theorem addWarns_pend (st : St σ) (w) : (addWarns st w).pend = st.pend := rfl
@[simp] theorem addWarns_active (st : St σ) (w) : (addWarns st w).reloadActive = st.reloadActive := rfl
@[simp] theorem addWarns_trace (st : St σ) (w) : (addWarns st w).trace = st.trace := rfl
@[simp] theorem addWarns_warns (st : St σ) (w) : (addWarns st w).warns = st.warns ++ w := rfl
@[simp] theorem addWarns_dev (st : St σ) (w) : (addWarns st w).dev = st.dev := rfl
theorem setPend_self (st : St σ) : setPend st st.pend = st := by cases st; rfl
theorem addWarns_nil (st : St σ) : addWarns st [] = st := by cases st; simp [addWarns]
theorem addWarns_addWarns (st : St σ) (a b) : addWarns (addWarns st a) b = addWarns st (a ++ b) := by
  cases st; simp [addWarns]
theorem setPend_setPend (st : St σ) (a b) : setPend (setPend st a) b = setPend st b := rfl

theorem take_len_append (a b : Str) (n : Nat) (h : n = a.length) : (a ++ b).take n = a := by
  subst h; simp
theorem drop_len_append (a b : Str) (n : Nat) (h : n = a.length) : (a ++ b).drop n = b := by
  subst h; simp

theorem promptHead_len : promptHead.length = 7 := by decide

/-- `GetOutput` on `u ++ "\nrouter#" ++ v` -/
theorem getOutput_eval (st : St σ) (u v : Str) (hp : st.pend = u ++ promptHead ++ '#' :: v)
    (hu : noPH u = true) (hv : runNoHash v = true) :
    getOutput st = (.ok (u ++ ['\n']), setPend st v) := by
  have hf := promptFind_at u v hu hv
  have hf0 : promptFind (u ++ promptHead ++ '#' :: []) = some (u.length, u.length + 8) :=
    promptFind_at u [] hu rfl
  have e1 : u ++ promptHead ++ '#' :: v = (u ++ promptHead ++ ['#']) ++ v := by simp
  have hlen : (u ++ promptHead ++ ['#']).length = u.length + 8 := by
    simp [promptHead_len]
  have e2 : u ++ promptHead ++ ['#'] = (u ++ ['\n']) ++ (routerName ++ ['#']) := by
    rw [promptHead_eq]; simp
  unfold getOutput bindM waitPrompt expectEnd
  simp only [hp, hf, Option.map_some]
  rw [e1, take_len_append _ _ _ hlen.symm, drop_len_append _ _ _ hlen.symm]
  unfold stripStdPrompt
  rw [hf0]
  simp only [pureM]
  rw [e2, take_len_append _ _ _ (by simp)]
  rfl

theorem forEach_warn (ci : Str) (ws : List Str) (st : St σ) :
    forEach (warn ci) ws st = (.ok (), addWarns st (ws.map fun l => (ci, l))) := by
  induction ws generalizing st with
  | nil => simp [forEach, pureM, addWarns_nil]
  | cons w ws ih =>
    simp only [forEach, bindM, warn]
    rw [ih]
    cases st; simp [addWarns]

/-- `checkOutput` in closed form (also for empty output) -/
theorem checkOutput_eval (ci R : Str) (st : St σ) :
    checkOutput ci R st =
      (if (validOutput (splitOnNL R)).2 then .ok () else .abort (.unexpectedOutput ci R),
       addWarns st ((validOutput (splitOnNL R)).1.map fun l => (ci, l))) := by
  unfold checkOutput
  cases hR : R.isEmpty with
  | true =>
    have : R = [] := by cases R with | nil => rfl | cons _ _ => cases hR
    subst this
    have : validOutput (splitOnNL ([] : Str)) = ([], true) := by decide
    simp [this, pureM, addWarns_nil]
  | false =>
    simp only [Bool.false_eq_true, if_false]
    unfold bindM
    rw [forEach_warn]
    simp only
    split <;> rfl

theorem stripEcho_eval (ci R : Str) (st : St σ) :
    stripEcho ci (ci ++ '\n' :: R) st = (.ok R, st) := by
  unfold stripEcho
  have : (ci ++ ['\n']).isPrefixOf (ci ++ '\n' :: R) = true := by
    have : ci ++ '\n' :: R = (ci ++ ['\n']) ++ R := by simp
    rw [this]; exact isPrefixOf_self_append _ _
  rw [if_pos this]
  have : (ci ++ '\n' :: R).drop (ci.length + 1) = R := by
    have e : ci ++ '\n' :: R = (ci ++ ['\n']) ++ R := by simp
    rw [e]; exact drop_len_append _ _ _ (by simp)
  simp [pureM, this]


/-! ### `stripReloadBanner` in its four branches -/

theorem strip_none (st : St σ) (X : Str) (hf : bannerFind X = none) :
    stripReloadBanner X st = (.ok (X, false), st) := by
  unfold stripReloadBanner bindM getActive
  simp only
  cases st.reloadActive <;> simp [hf, pureM]

theorem strip_plain (st : St σ) (X pre msg post : Str) (ha : st.reloadActive = true)
    (hf : bannerFind X = some (pre, msg, post)) (h1 : blank (pre ++ post) = false)
    (h2 : (!pre.isEmpty && blank post) = false) :
    stripReloadBanner X st = (.ok (pre ++ post, oneMinute msg), st) := by
  unfold stripReloadBanner bindM getActive
  simp only [ha, if_true, hf]
  unfold stripProbe
  simp [h1, h2, pureM]

theorem strip_try_empty (st : St σ) (X pre msg post : Str) (ha : st.reloadActive = true)
    (hf : bannerFind X = some (pre, msg, post)) (h1 : blank (pre ++ post) = false)
    (h2 : (!pre.isEmpty && blank post) = true) (hp : st.pend = []) :
    stripReloadBanner X st = (.ok (pre ++ post, oneMinute msg), st) := by
  unfold stripReloadBanner bindM getActive
  simp only [ha, if_true, hf]
  unfold stripProbe
  simp only [h1, h2, Bool.false_eq_true, if_false, if_true]
  unfold bindM tryPrompt
  simp only [hp, promptFind, pureM]
  cases st; simp_all

theorem strip_try_prompt (st : St σ) (X pre msg post v : Str) (ha : st.reloadActive = true)
    (hf : bannerFind X = some (pre, msg, post)) (h1 : blank (pre ++ post) = false)
    (h2 : (!pre.isEmpty && blank post) = true) (hp : st.pend = promptHead ++ '#' :: v)
    (hv : runNoHash v = true) :
    stripReloadBanner X st = (.ok (pre ++ post, oneMinute msg), setPend st v) := by
  have hfind : promptFind (promptHead ++ '#' :: v) = some (0, 8) := by
    have := promptFind_at [] v rfl hv
    simpa using this
  have hdrop : (promptHead ++ '#' :: v).drop 8 = v := by
    have e : promptHead ++ '#' :: v = (promptHead ++ ['#']) ++ v := by simp
    rw [e]; exact drop_len_append _ _ _ (by simp [promptHead_len])
  unfold stripReloadBanner bindM getActive
  simp only [ha, if_true, hf]
  unfold stripProbe
  simp only [h1, h2, Bool.false_eq_true, if_false, if_true]
  unfold bindM tryPrompt
  simp only [hp, hfind, hdrop, pureM]
  rfl

theorem endsWithHash_append (a : Str) : endsWithHash (a ++ ['#']) = true := by
  simp [endsWithHash]

theorem strip_wait (st : St σ) (X pre msg post u : Str) (ha : st.reloadActive = true)
    (hf : bannerFind X = some (pre, msg, post)) (h1 : blank (pre ++ post) = true)
    (hp : st.pend = u ++ promptHead ++ ['#']) (hu : noPH u = true) :
    stripReloadBanner X st = (.ok (u ++ ['\n'], oneMinute msg), setPend st []) := by
  have hf0 : promptFind (u ++ promptHead ++ '#' :: []) = some (u.length, u.length + 8) :=
    promptFind_at u [] hu rfl
  have e2 : u ++ promptHead ++ ['#'] = (u ++ ['\n']) ++ (routerName ++ ['#']) := by
    rw [promptHead_eq]; simp
  unfold stripReloadBanner bindM getActive
  simp only [ha, if_true, hf]
  unfold stripProbe
  simp only [h1, if_true]
  unfold bindM waitHashEnd expectEnd
  simp only [hp, endsWithHash_append, if_true, List.take_length, List.drop_length]
  unfold stripStdPrompt
  rw [hf0]
  simp only [pureM]
  rw [e2, take_len_append _ _ _ (by simp)]
  rfl

/-! ### `check` composed -/

def warnsOf (ci out : Str) : List (Str × Str) := (validOutput (splitOnNL out)).1.map fun l => (ci, l)

def checkRes (ci out R : Str) (need : Bool) : Res Bool :=
  if (validOutput (splitOnNL out)).2 then .ok need else .abort (.unexpectedOutput ci R)

theorem check_compose (st st1 st2 : St σ) (ci X R out : Str) (need : Bool)
    (h1 : getOutput st = (.ok X, st1))
    (h2 : stripReloadBanner X st1 = (.ok (ci ++ '\n' :: R, need), st2))
    (hR : neLines R = neLines out) :
    check ci st = (checkRes ci out R need, addWarns st2 (warnsOf ci out)) := by
  have hv : validOutput (splitOnNL R) = validOutput (splitOnNL out) := by
    rw [validOutput_neLines, validOutput_neLines, hR]
  unfold check bindM
  simp only [h1, h2, stripEcho_eval, checkOutput_eval, hv]
  unfold checkRes warnsOf pureM
  cases (validOutput (splitOnNL out)).2 <;> simp

end NA.Ios
