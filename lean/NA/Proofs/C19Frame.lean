import NA.Proofs.C19Safety
/-! # C19 — which command writes what (frame lemmas for `exec`) -/
namespace NA.C19

def Cmd.wStore : Cmd → Bool
  | .gitCommitPolicy | .gitPullMerge | .gitRevert => true
  | _ => false
def Cmd.wRemote : Cmd → Bool
  | .gitPush => true
  | _ => false
/-- may change HEAD of next/src (or remove / create `next`) -/
def Cmd.wHead : Cmd → Bool
  | .rmrfNext | .mkdirNext | .rmrfNextSrc | .gitClone | .gitCommitPolicy | .gitPullMerge | .gitResetHash | .mvNextTo | .gitRevert
  | .gitPullPlain => true
  | _ => false
def Cmd.wCurrent : Cmd → Bool
  | .rmCurrent | .lnCurrent => true
  | _ => false
def Cmd.wHist : Cmd → Bool
  | .mvNextTo => true
  | _ => false
def Cmd.wFcount : Cmd → Bool
  | .readPolicyFile | .setReg .fcount _ => true
  | _ => false
def Cmd.wLcount : Cmd → Bool
  | .linkCount | .setReg .lcount _ => true
  | _ => false
def Cmd.wCount : Cmd → Bool
  | .countPick _ | .countAdd _ | .setReg .count _ => true
  | _ => false
def Cmd.wPolicy : Cmd → Bool
  | .policyFromCount => true
  | _ => false
def Cmd.wPrev : Cmd → Bool
  | .readLink => true
  | _ => false
def Cmd.wBase : Cmd → Bool
  | .gitClone | .gitPullMerge | .gitPush | .gitPullPlain => true
  | _ => false
def Cmd.wStaged : Cmd → Bool     -- wpol / spol
  | .gitClone | .writePolicyFile | .gitAdd | .gitCommitPolicy | .gitResetHash => true
  | _ => false
def Cmd.wHash : Cmd → Bool
  | .saveHash => true
  | _ => false

@[simp] theorem snh_store (g : G) (h : Nat) : (g.setNextHead h).store = g.store := by
  unfold G.setNextHead; cases g.next <;> rfl
@[simp] theorem snh_remote (g : G) (h : Nat) : (g.setNextHead h).remote = g.remote := by
  unfold G.setNextHead; cases g.next <;> rfl
@[simp] theorem snh_hist (g : G) (h : Nat) : (g.setNextHead h).hist = g.hist := by
  unfold G.setNextHead; cases g.next <;> rfl
@[simp] theorem snh_current (g : G) (h : Nat) : (g.setNextHead h).current = g.current := by
  unfold G.setNextHead; cases g.next <;> rfl
@[simp] theorem snh_lock (g : G) (h : Nat) : (g.setNextHead h).lock = g.lock := by
  unfold G.setNextHead; cases g.next <;> rfl
@[simp] theorem snh_trouble (g : G) (h : Nat) : (g.setNextHead h).trouble = g.trouble := by
  unfold G.setNextHead; cases g.next <;> rfl
@[simp] theorem snh_edited (g : G) (h : Nat) : (g.setNextHead h).edited = g.edited := by
  unfold G.setNextHead; cases g.next <;> rfl
@[simp] theorem snh_dirs (g : G) (h : Nat) : (g.setNextHead h).dirs = g.dirs := by
  unfold G.setNextHead; cases g.next <;> rfl
theorem snh_head (g : G) (h : Nat) : (g.setNextHead h).nextHead = if g.next.isSome then some h else none := by
  unfold G.setNextHead G.nextHead; cases hn : g.next <;> simp [hn]

section
variable (c : Cmd) (g : G) (p : Proc)

theorem fr_store (h : c.wStore = false) : (exec c g p).1.store = g.store := by
  cases c <;> simp [Cmd.wStore] at h <;> simp only [exec] <;> (repeat' split) <;> simp_all [G.setNextHead] <;>
    (repeat' split) <;> simp_all
theorem fr_remote (h : c.wRemote = false) : (exec c g p).1.remote = g.remote := by
  cases c <;> simp [Cmd.wRemote] at h <;> simp only [exec] <;> (repeat' split) <;> simp_all [G.setNextHead] <;>
    (repeat' split) <;> simp_all
theorem fr_head (h : c.wHead = false) : (exec c g p).1.nextHead = g.nextHead := by
  cases c <;> simp [Cmd.wHead] at h <;> simp only [exec] <;> (repeat' split) <;> simp_all [G.nextHead]
theorem fr_current (h : c.wCurrent = false) : (exec c g p).1.current = g.current := by
  cases c <;> simp [Cmd.wCurrent] at h <;> simp only [exec] <;> (repeat' split) <;> simp_all [G.setNextHead] <;>
    (repeat' split) <;> simp_all
theorem fr_hist (h : c.wHist = false) : (exec c g p).1.hist = g.hist := by
  cases c <;> simp [Cmd.wHist] at h <;> simp only [exec] <;> (repeat' split) <;> simp_all [G.setNextHead] <;>
    (repeat' split) <;> simp_all
theorem fr_fcount (h : c.wFcount = false) : (exec c g p).2.1.fcount = p.fcount := by
  cases c <;> simp [Cmd.wFcount] at h <;> simp only [exec] <;> (repeat' split) <;> simp_all [Proc.setReg] <;>
    (repeat' split) <;> simp_all
theorem fr_lcount (h : c.wLcount = false) : (exec c g p).2.1.lcount = p.lcount := by
  cases c <;> simp [Cmd.wLcount] at h <;> simp only [exec] <;> (repeat' split) <;> simp_all [Proc.setReg] <;>
    (repeat' split) <;> simp_all
theorem fr_count (h : c.wCount = false) : (exec c g p).2.1.count = p.count := by
  cases c <;> simp [Cmd.wCount] at h <;> simp only [exec] <;> (repeat' split) <;> simp_all [Proc.setReg] <;>
    (repeat' split) <;> simp_all
theorem fr_policy (h : c.wPolicy = false) : (exec c g p).2.1.policy = p.policy := by
  cases c <;> simp [Cmd.wPolicy] at h <;> simp only [exec] <;> (repeat' split) <;> simp_all [Proc.setReg] <;>
    (repeat' split) <;> simp_all
theorem fr_prev (h : c.wPrev = false) : (exec c g p).2.1.prev = p.prev := by
  cases c <;> simp [Cmd.wPrev] at h <;> simp only [exec] <;> (repeat' split) <;> simp_all [Proc.setReg] <;>
    (repeat' split) <;> simp_all
theorem fr_base (h : c.wBase = false) : (exec c g p).2.1.base = p.base := by
  cases c <;> simp [Cmd.wBase] at h <;> simp only [exec] <;> (repeat' split) <;> simp_all [Proc.setReg] <;>
    (repeat' split) <;> simp_all
theorem fr_wpol (h : c.wStaged = false) : (exec c g p).2.1.wpol = p.wpol := by
  cases c <;> simp [Cmd.wStaged] at h <;> simp only [exec] <;> (repeat' split) <;> simp_all [Proc.setReg] <;>
    (repeat' split) <;> simp_all
theorem fr_spol (h : c.wStaged = false) : (exec c g p).2.1.spol = p.spol := by
  cases c <;> simp [Cmd.wStaged] at h <;> simp only [exec] <;> (repeat' split) <;> simp_all [Proc.setReg] <;>
    (repeat' split) <;> simp_all
theorem fr_hash (h : c.wHash = false) : (exec c g p).2.1.hash = p.hash := by
  cases c <;> simp [Cmd.wHash] at h <;> simp only [exec] <;> (repeat' split) <;> simp_all [Proc.setReg] <;>
    (repeat' split) <;> simp_all

/-- The store only grows. -/
theorem fr_store_grow : ∃ l, (exec c g p).1.store = g.store ++ l := by
  cases c <;> simp only [exec] <;> (repeat' split) <;>
    first
    | (refine ⟨[], ?_⟩; simp; done)
    | (simp only [snh_store]; exact ⟨_, rfl⟩)

/-- The ghosts `trouble` and `edited` are never reset. -/
theorem fr_trouble (h : (exec c g p).1.trouble = false) : g.trouble = false := by
  revert h
  cases c <;> simp only [exec] <;> (repeat' split) <;> simp_all [G.setNextHead] <;> (repeat' split) <;> simp_all
theorem fr_edited (h : (exec c g p).1.edited = false) : g.edited = false := by
  revert h
  cases c <;> simp only [exec] <;> (repeat' split) <;> simp_all [G.setNextHead] <;> (repeat' split) <;> simp_all
end

def Cmd.wNext : Cmd → Bool
  | .rmrfNext | .mkdirNext | .rmrfNextSrc | .mkdirNextP | .gitClone | .compile | .gitCommitPolicy | .gitPullMerge | .gitResetHash | .mvNextTo
  | .gitRevert | .gitPullPlain => true
  | _ => false
def Cmd.wDirs : Cmd → Bool
  | .mvNextTo => true
  | _ => false
def Cmd.wGhost : Cmd → Bool
  | .gitClone | .gitCommitPolicy | .gitPullMerge | .gitPush | .gitRevert => true
  | _ => false

theorem fr_next (c : Cmd) (g : G) (p : Proc) (h : c.wNext = false) : (exec c g p).1.next = g.next := by
  cases c <;> simp [Cmd.wNext] at h <;> simp only [exec] <;> (repeat' split) <;> simp_all
theorem fr_dirs (c : Cmd) (g : G) (p : Proc) (h : c.wDirs = false) : (exec c g p).1.dirs = g.dirs := by
  apply exec_dirs; intro hc; subst hc; simp [Cmd.wDirs] at h
theorem fr_ghost (c : Cmd) (g : G) (p : Proc) (h : c.wGhost = false) :
    (exec c g p).1.trouble = g.trouble ∧ (exec c g p).1.edited = g.edited := by
  cases c <;> simp [Cmd.wGhost] at h <;> simp only [exec] <;> (repeat' split) <;> simp_all


end NA.C19
