import NA.Core.Cells
/-
Bridge from edit scripts (ranges of `github.com/pkg/diff`) to merged lists:
whenever `cellsOf a b rs` accepts a script, the merged list `M` it returns has
`olds M = a` and `news M = b`.  Core Lean only.
-/
namespace NA.Acl

theorem olds_append (X Y : List Cell) : olds (X ++ Y) = olds X ++ olds Y := by
  simp [olds, List.filter_append]

theorem news_append (X Y : List Cell) : news (X ++ Y) = news X ++ news Y := by
  simp [news, List.filter_append]

theorem olds_map_mk (l : List Line) (n : Bool) :
    olds (l.map fun x => (⟨x, true, n⟩ : Cell)) = l := by
  induction l with
  | nil => rfl
  | cons x l ih => simpa [olds] using ih

theorem olds_map_mk_false (l : List Line) (n : Bool) :
    olds (l.map fun x => (⟨x, false, n⟩ : Cell)) = [] := by
  induction l with
  | nil => rfl
  | cons x l ih => simp [olds]

theorem news_map_mk (l : List Line) (o : Bool) :
    news (l.map fun x => (⟨x, o, true⟩ : Cell)) = l := by
  induction l with
  | nil => rfl
  | cons x l ih => simpa [news] using ih

theorem news_map_mk_false (l : List Line) (o : Bool) :
    news (l.map fun x => (⟨x, o, false⟩ : Cell)) = [] := by
  induction l with
  | nil => rfl
  | cons x l ih => simp [news]

theorem take_drop_append_drop {α} (l : List α) (i h : Nat) (hle : i ≤ h) :
    (l.drop i).take (h - i) ++ l.drop h = l.drop i := by
  have : l.drop h = (l.drop i).drop (h - i) := by
    rw [List.drop_drop]; congr 1; omega
  rw [this, List.take_append_drop]

/-- Walking a script from `(ia, ib)` yields a merged list of the two remaining suffixes. -/
theorem cellsFrom_sound (a b : List Line) (rs : List Range) :
    ∀ (ia ib : Nat) (M : List Cell), cellsFrom a b rs ia ib = some M →
      olds M = a.drop ia ∧ news M = b.drop ib := by
  induction rs with
  | nil =>
    intro ia ib M h
    simp only [cellsFrom] at h
    by_cases hc : (ia == a.length && ib == b.length) = true
    · simp only [hc, if_true, Option.some.injEq] at h
      simp only [Bool.and_eq_true, beq_iff_eq] at hc
      subst h
      simp [olds, news, hc.1, hc.2]
    · simp [hc] at h
  | cons r rs ih =>
    intro ia ib M h
    simp only [cellsFrom] at h
    by_cases hbad : (r.lowA != ia || r.lowB != ib || r.highA < ia || r.highB < ib
        || a.length < r.highA || b.length < r.highB) = true
    · simp [hbad] at h
    · simp only [hbad, Bool.false_eq_true, if_false] at h
      simp only [Bool.or_eq_true, bne_iff_ne, decide_eq_true_eq, not_or, Nat.not_lt,
        Decidable.not_not] at hbad
      obtain ⟨⟨⟨⟨⟨hlA, hlB⟩, hhA⟩, hhB⟩, _⟩, _⟩ := hbad
      by_cases hi : r.isInsert = true
      · simp only [hi, if_true] at h
        cases hrec : cellsFrom a b rs r.highA r.highB with
        | none => simp [hrec] at h
        | some M' =>
          simp only [hrec, Option.map_some, Option.some.injEq] at h
          obtain ⟨ho, hn⟩ := ih _ _ M' hrec
          have hA : r.highA = ia := by
            simp only [Range.isInsert, beq_iff_eq] at hi; omega
          subst h
          rw [olds_append, news_append, olds_map_mk_false, news_map_mk, ho, hn, hA,
            take_drop_append_drop b ib r.highB hhB]
          simp
      · simp only [hi, Bool.false_eq_true, if_false] at h
        by_cases hd : r.isDelete = true
        · simp only [hd, if_true] at h
          cases hrec : cellsFrom a b rs r.highA r.highB with
          | none => simp [hrec] at h
          | some M' =>
            simp only [hrec, Option.map_some, Option.some.injEq] at h
            obtain ⟨ho, hn⟩ := ih _ _ M' hrec
            have hB : r.highB = ib := by
              simp only [Range.isDelete, beq_iff_eq] at hd; omega
            subst h
            rw [olds_append, news_append, olds_map_mk, news_map_mk_false, ho, hn, hB,
              take_drop_append_drop a ia r.highA hhA]
            simp
        · simp only [hd, Bool.false_eq_true, if_false] at h
          by_cases he : (r.isEqual && (a.drop ia).take (r.highA - ia) == (b.drop ib).take (r.highB - ib)) = true
          · simp only [he, if_true] at h
            cases hrec : cellsFrom a b rs r.highA r.highB with
            | none => simp [hrec] at h
            | some M' =>
              simp only [hrec, Option.map_some, Option.some.injEq] at h
              obtain ⟨ho, hn⟩ := ih _ _ M' hrec
              simp only [Bool.and_eq_true, beq_iff_eq] at he
              subst h
              rw [olds_append, news_append, olds_map_mk, news_map_mk, ho, hn]
              refine ⟨take_drop_append_drop a ia r.highA hhA, ?_⟩
              rw [he.2]
              exact take_drop_append_drop b ib r.highB hhB
          · simp [he] at h

/-- An accepted script's merged list has the device list as `olds` and the target as `news`. -/
theorem cellsOf_sound (a b : List Line) (rs : List Range) (M : List Cell)
    (h : cellsOf a b rs = some M) : olds M = a ∧ news M = b := by
  have hfrom : cellsFrom a b rs 0 0 = some M → olds M = a ∧ news M = b := by
    intro h'
    simpa using cellsFrom_sound a b rs 0 0 M h'
  unfold cellsOf at h
  split at h
  · rename_i d i
    by_cases hc : (d == ⟨0, a.length, 0, 0⟩ && i == ⟨0, 0, 0, b.length⟩ && a.length != 0 && b.length != 0) = true
    · simp only [hc, if_true, Option.some.injEq] at h
      subst h
      rw [olds_append, news_append, olds_map_mk, olds_map_mk_false, news_map_mk_false, news_map_mk]
      simp
    · simp only [hc] at h
      exact hfrom h
  · exact hfrom h

end NA.Acl
