import NA.Model.MapSites
/-!
# C16 — helper lemmas: each loop shape is insensitive to the iteration order
-/
set_option linter.unusedSimpArgs false
namespace NA.C16
open NA.PermFold

/-! ### collectSorted -/

theorem foldl_collectStep {α β : Type} (p : α → Bool) (f : α → β) (init : List β) (es : List α) :
    es.foldl (collectStep p f) init = init ++ (es.filter p).map f := by
  induction es generalizing init with
  | nil => simp
  | cons e es ih =>
    simp only [List.foldl_cons, ih, collectStep, List.filter_cons]
    by_cases h : p e = true <;> simp [h]

theorem collectSorted_perm {α β : Type} {le : β → β → Bool} (h : LawfulLe le) (p : α → Bool)
    (f : α → β) (init : List β) {es₁ es₂ : List α} (perm : es₁.Perm es₂) :
    collectSorted le p f init es₁ = collectSorted le p f init es₂ := by
  unfold collectSorted
  rw [foldl_collectStep, foldl_collectStep]
  exact sort_perm h (List.Perm.append_left init ((perm.filter p).map f))

/-! ### footprint -/

theorem Footprint.commOn {ι μ α : Type} (F : Footprint ι μ α) {l : List α} (hd : F.Disjoint l) :
    CommOn F.step l := by
  intro x hx y hy s
  by_cases hxy : x = y
  · rw [hxy]
  · funext i
    have hdis := hd x hx y hy hxy
    cases hox : F.owns x i <;> cases hoy : F.owns y i
    · simp [Footprint.step, hox, hoy]
    · -- only y owns i: y does not see what x wrote
      have hl : F.write y (F.step s x) i = F.write y s i := by
        apply F.local y _ _ _ i hoy
        intro j hj
        have : F.owns x j = false := by
          cases hxj : F.owns x j
          · rfl
          · exact absurd ⟨hxj, hj⟩ (hdis j)
        simp [Footprint.step, this]
      simp [Footprint.step, hox, hoy, hl]
    · have hl : F.write x (F.step s y) i = F.write x s i := by
        apply F.local x _ _ _ i hox
        intro j hj
        have : F.owns y j = false := by
          cases hyj : F.owns y j
          · rfl
          · exact absurd ⟨hj, hyj⟩ (hdis j)
        simp [Footprint.step, this]
      simp [Footprint.step, hox, hoy, hl]
    · exact absurd ⟨hox, hoy⟩ (hdis i)

theorem Footprint.perm {ι μ α : Type} (F : Footprint ι μ α) {l₁ l₂ : List α} (hd : F.Disjoint l₁)
    (p : l₁.Perm l₂) (s : ι → μ) : l₁.foldl F.step s = l₂.foldl F.step s :=
  foldl_perm F.step p (F.commOn hd) s

/-- Entries of a map own different key cells. -/
theorem ownKey_disjoint {κ ν μ : Type} [DecidableEq κ] (g : κ → ν → μ → μ) {es : Entries κ ν}
    (hm : IsMap es) : (ownKey g).Disjoint es := by
  intro a ha b hb hab i hi
  simp only [ownKey, decide_eq_true_eq] at hi
  exact hab (hm.eq_of_key_eq ha hb (hi.1.symm.trans hi.2))

theorem ownKey_perm {κ ν μ : Type} [DecidableEq κ] (g : κ → ν → μ → μ) {es₁ es₂ : Entries κ ν}
    (hm : IsMap es₁) (p : es₁.Perm es₂) (s : κ → μ) :
    es₁.foldl (ownKey g).step s = es₂.foldl (ownKey g).step s :=
  (ownKey g).perm (ownKey_disjoint g hm) p s

/-- Heap separation for `perObject`: different entries reach different objects. -/
def Separate {ι α : Type} (objs : α → List ι) (l : List α) : Prop :=
  ∀ a, a ∈ l → ∀ b, b ∈ l → a ≠ b → ∀ i, ¬ (i ∈ objs a ∧ i ∈ objs b)

theorem perObject_disjoint {ι μ α : Type} [DecidableEq ι] (objs : α → List ι) (upd : α → ι → μ → μ)
    {l : List α} (h : Separate objs l) : (perObject objs upd).Disjoint l := by
  intro a ha b hb hab i hi
  simp only [perObject, decide_eq_true_eq] at hi
  exact h a ha b hb hab i hi

theorem perObject_perm {ι μ α : Type} [DecidableEq ι] (objs : α → List ι) (upd : α → ι → μ → μ)
    {l₁ l₂ : List α} (h : Separate objs l₁) (p : l₁.Perm l₂) (s : ι → μ) :
    l₁.foldl (perObject objs upd).step s = l₂.foldl (perObject objs upd).step s :=
  (perObject objs upd).perm (perObject_disjoint objs upd h) p s

/-! ### setInsert, constFlag -/

theorem setInsert_rightComm {α β : Type} (items : α → β → Bool) : RightComm (setInsertStep items) := by
  intro s x y
  funext b
  simp only [setInsertStep, Bool.or_assoc]
  rw [Bool.or_comm (items x b)]

theorem constFlag_rightComm {α γ : Type} (q : α → Bool) (c : γ) : RightComm (constFlagStep q c) := by
  intro s x y
  simp only [constFlagStep]
  cases q x <;> cases q y <;> simp

/-! ### exitOrOwnKey -/

theorem exitOrOwnKey_commOn {κ ν μ : Type} [DecidableEq κ] (skip : κ → Bool)
    (parse : κ → ν → Option μ) {es : Entries κ ν} (hm : IsMap es) :
    CommOn (exitOrOwnKeyStep skip parse) es := by
  apply CommOn.of_keys hm
  intro x y hk s
  cases s with
  | none => simp [exitOrOwnKeyStep]
  | some m =>
    simp only [exitOrOwnKeyStep]
    cases hsx : skip x.1 <;> cases hsy : skip y.1 <;>
      cases hx : parse x.1 x.2 <;> cases hy : parse y.1 y.2 <;> simp [hsx, hsy, hx, hy]
    funext i
    by_cases h1 : i = x.1 <;> by_cases h2 : i = y.1
    · exact absurd (h1.symm.trans h2) hk
    · simp [h1, hk]
    · simp [h2, Ne.symm hk]
    · simp [h1, h2]

/-! ### firstIn / logIn over sorted entries -/

theorem firstInSorted_perm {κ ν ρ : Type} {le : κ → κ → Bool} (h : LawfulLe le)
    (f : κ × ν → Option ρ) {es₁ es₂ : Entries κ ν} (hm : IsMap es₁) (p : es₁.Perm es₂) :
    firstInSorted le f es₁ = firstInSorted le f es₂ :=
  sorted_deterministic h Prod.fst (firstIn f) hm p

theorem logInSorted_perm {κ ν ρ : Type} {le : κ → κ → Bool} (h : LawfulLe le)
    (f : κ × ν → Option ρ) {es₁ es₂ : Entries κ ν} (hm : IsMap es₁) (p : es₁.Perm es₂) :
    logInSorted le f es₁ = logInSorted le f es₂ :=
  sorted_deterministic h Prod.fst (logIn f) hm p

/-- The entry taken by the sorted loop is a candidate, and no candidate has a strictly smaller key. -/
theorem firstInSorted_least {κ ν ρ : Type} {le : κ → κ → Bool} (h : LawfulLe le)
    (f : κ × ν → Option ρ) (es : Entries κ ν) (r : ρ) (hr : firstInSorted le f es = some r) :
    ∃ e, e ∈ es ∧ f e = some r ∧ ∀ e', e' ∈ es → (f e').isSome → le e.1 e'.1 = true := by
  unfold firstInSorted firstIn at hr
  have hp := sortBy_perm_self le Prod.fst es
  have hsorted : (sortBy le Prod.fst es).Pairwise (fun a b => le a.1 b.1 = true) :=
    List.pairwise_mergeSort (le := fun a b : κ × ν => le a.1 b.1)
      (fun a b c => h.trans a.1 b.1 c.1) (fun a b => h.total a.1 b.1) es
  generalize sortBy le Prod.fst es = l at hr hp hsorted
  induction l generalizing es with
  | nil => simp at hr
  | cons a l ih =>
    simp only [List.findSome?_cons] at hr
    cases hfa : f a with
    | some x =>
      rw [hfa] at hr
      cases hr
      refine ⟨a, hp.mem_iff.mp (by simp), hfa, ?_⟩
      intro e' he' _
      have : e' ∈ a :: l := hp.mem_iff.mpr he'
      rcases List.mem_cons.mp this with rfl | hl
      · have := h.total e'.1 e'.1; simpa using this
      · exact (List.pairwise_cons.mp hsorted).1 e' hl
    | none =>
      rw [hfa] at hr
      obtain ⟨e, he, hfe, hmin⟩ := ih l hr (List.Perm.refl _) (List.pairwise_cons.mp hsorted).2
      refine ⟨e, hp.mem_iff.mp (List.mem_cons_of_mem _ he), hfe, ?_⟩
      intro e' he' hs
      have : e' ∈ a :: l := hp.mem_iff.mpr he'
      rcases List.mem_cons.mp this with rfl | hl
      · rw [hfa] at hs; cases hs
      · exact hmin e' hl hs

/-! ### mapPeerToSeq -/

theorem peerStepUnfixed_commOn {π : Type} [DecidableEq π] {es : Entries Nat (Option π)}
    (hsome : ∀ e, e ∈ es → e.2.isSome) (hpeers : UniqueKeys Prod.snd es) :
    CommOn peerStepUnfixed es := by
  intro x hx y hy s
  by_cases hxy : x = y
  · rw [hxy]
  · have hne : x.2 ≠ y.2 := fun e => hxy (hpeers.eq_of_key_eq hx hy e)
    cases s with
    | error n => simp [peerStepUnfixed]
    | ok m =>
      have h1 := hsome x hx
      have h2 := hsome y hy
      cases hx2 : x.2 with
      | none => rw [hx2] at h1; cases h1
      | some p =>
        cases hy2 : y.2 with
        | none => rw [hy2] at h2; cases h2
        | some q =>
          have hpq : p ≠ q := by
            intro e; apply hne; rw [hx2, hy2, e]
          simp only [peerStepUnfixed, hx2, hy2]
          congr 1
          funext r
          by_cases hr1 : r = p <;> by_cases hr2 : r = q
          · exact absurd (hr1.symm.trans hr2) hpq
          · simp [hr1, hpq]
          · simp [hr2, Ne.symm hpq]
          · simp [hr1, hr2]

end NA.C16
