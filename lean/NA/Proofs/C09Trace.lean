import NA.Spec.SessFault
/-!
# C09: lemmas about the trace predicates (`safe`, `faulted`) and about `recvLoop`
-/
namespace NA.C09
open NA.Sess NA.Apply NA.Spec.C09

variable (bad : Role → Reply → Bool)

theorem faulted_append (a b : List Ev) : faulted bad (a ++ b) = (faulted bad a || faulted bad b) := by
  simp [faulted, List.any_append]

theorem safeFrom_append (f : Bool) (a b : List Ev) :
    safeFrom bad f (a ++ b) = (safeFrom bad f a && safeFrom bad (f || faulted bad a) b) := by
  induction a generalizing f with
  | nil => simp [safeFrom, faulted]
  | cons e t ih =>
    simp only [List.cons_append, safeFrom, ih, faulted, List.any_cons, Bool.and_assoc, Bool.or_assoc]

theorem safe_append (a b : List Ev) :
    safe bad (a ++ b) = (safe bad a && safeFrom bad (faulted bad a) b) := by
  simp [safe, safeFrom_append]

/-- events that are neither a change command nor a save may follow anything -/
theorem safeFrom_quiet (f : Bool) (l : List Ev) (h : ∀ e ∈ l, isChangeOrSave e = false) :
    safeFrom bad f l = true := by
  induction l generalizing f with
  | nil => rfl
  | cons e t ih =>
    have he := h e (by simp)
    simp only [safeFrom, he, Bool.and_false, Bool.not_false, Bool.true_and]
    exact ih _ (fun x hx => h x (by simp [hx]))

theorem safe_append_quiet (a l : List Ev) (h : ∀ e ∈ l, isChangeOrSave e = false) :
    safe bad (a ++ l) = safe bad a := by
  rw [safe_append, safeFrom_quiet bad _ l h, Bool.and_true]

/-- before any failure everything may be sent -/
theorem safeFrom_false_of_not_faulted (l : List Ev) (h : faulted bad l = false) :
    safeFrom bad false l = true := by
  induction l with
  | nil => rfl
  | cons e t ih =>
    simp only [faulted, List.any_cons, Bool.or_eq_false_iff] at h
    simp only [safeFrom, Bool.false_and, Bool.not_false, Bool.true_and, Bool.false_or, h.1]
    exact ih h.2

theorem safe_append_of_not_faulted (a l : List Ev) (ha : safe bad a = true) (hf : faulted bad a = false)
    (hl : faulted bad l = false) : safe bad (a ++ l) = true := by
  rw [safe_append, ha, hf, safeFrom_false_of_not_faulted bad l hl]; rfl

theorem safe_snoc_of_not_faulted (a : List Ev) (e : Ev) (ha : safe bad a = true) (hf : faulted bad a = false) :
    safe bad (a ++ [e]) = true := by
  rw [safe_append, ha, hf]; simp [safeFrom]

/-- `safe` is exactly the statement "nothing after a bad reply is a change command or a save". -/
theorem safeFrom_true_iff (l : List Ev) :
    safeFrom bad false l = true ↔
      ∀ pre post ρ r, l = pre ++ Ev.got ρ r :: post → bad ρ r = true → ∀ e ∈ post, isChangeOrSave e = false := by
  induction l with
  | nil => simp [safeFrom]
  | cons e t ih =>
    constructor
    · intro h pre post ρ r hsplit hbad x hx
      simp only [safeFrom, Bool.false_and, Bool.not_false, Bool.true_and, Bool.false_or] at h
      cases pre with
      | nil =>
        simp only [List.nil_append, List.cons.injEq] at hsplit
        obtain ⟨rfl, rfl⟩ := hsplit
        simp only [isBadGot, hbad] at h
        -- everything after is scanned with the flag set
        have : ∀ (l : List Ev), safeFrom bad true l = true → ∀ e ∈ l, isChangeOrSave e = false := by
          intro l
          induction l with
          | nil => simp
          | cons y ys ihy =>
            intro hs z hz
            simp only [safeFrom, Bool.true_and, Bool.true_or, Bool.and_eq_true, Bool.not_eq_eq_eq_not, Bool.not_true] at hs
            rcases List.mem_cons.mp hz with rfl | hz'
            · exact hs.1
            · exact ihy hs.2 z hz'
        exact this _ h x hx
      | cons p ps =>
        simp only [List.cons_append, List.cons.injEq] at hsplit
        obtain ⟨rfl, rfl⟩ := hsplit
        cases hb : isBadGot bad e with
        | false =>
          rw [hb] at h
          exact (ih.mp h) ps post ρ r rfl hbad x hx
        | true =>
          rw [hb] at h
          have : ∀ (l : List Ev), safeFrom bad true l = true → ∀ e ∈ l, isChangeOrSave e = false := by
            intro l
            induction l with
            | nil => simp
            | cons y ys ihy =>
              intro hs z hz
              simp only [safeFrom, Bool.true_and, Bool.true_or, Bool.and_eq_true, Bool.not_eq_eq_eq_not, Bool.not_true] at hs
              rcases List.mem_cons.mp hz with rfl | hz'
              · exact hs.1
              · exact ihy hs.2 z hz'
          exact this _ h x (by simp [hx])
    · intro h
      simp only [safeFrom, Bool.false_and, Bool.not_false, Bool.true_and, Bool.false_or]
      cases hb : isBadGot bad e with
      | false =>
        apply ih.mpr
        intro pre post ρ r hsplit hbad
        exact h (e :: pre) post ρ r (by simp [hsplit]) hbad
      | true =>
        cases e with
        | got ρ r =>
          simp only [isBadGot] at hb
          have hq := h [] t ρ r rfl hb
          have : ∀ (l : List Ev), (∀ e ∈ l, isChangeOrSave e = false) → safeFrom bad true l = true := by
            intro l hl
            exact safeFrom_quiet bad true l hl
          exact this t hq
        | _ => simp [isBadGot] at hb

theorem safe_iff_noChangeAfterFault (tr : List Ev) :
    safe bad tr = true ↔ NoChangeAfterFault bad tr := by
  unfold safe NoChangeAfterFault
  exact safeFrom_true_iff bad tr

end NA.C09
