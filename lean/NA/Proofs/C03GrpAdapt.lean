import NA.Proofs.C03GrpInv
import NA.Proofs.C03Groups
/-
C03, whole-vsys theorems with address-groups, part 4: `adaptGroups` — every group of a target
list gets its name on the device: the one it has, an unclaimed device group with identical
members (claimed now), or its new name (the group is transferred).  Core Lean only.
-/
namespace NA.PanOs

/-- The planner state after target group `gbi` got `name` as name on the device. -/
def fallSt (st : St) (gbi : Nat) (name : String) : St :=
  { st with bGrp := modAt st.bGrp gbi (fun g => { g with onDev := name }) }

theorem fallSt_bIdx (st : St) (gbi : Nat) (name x : String) : (fallSt st gbi name).bGrpIdx x = st.bGrpIdx x := by
  unfold St.bGrpIdx fallSt
  simp only
  rw [modAt_map st.bGrp gbi (fun g => { g with onDev := name }) (fun x => x.g.name) (fun _ => rfl)]

theorem GInv.fall {Ref : String → Prop} {st : St} (h : GInv Ref st) (gbi : Nat) (gb : BGrp)
    (hb : st.bGrp[gbi]? = some gb) (h0 : gb.onDev = "") (hn : gb.needed = true) (hr : Ref gb.g.name) :
    GInv Ref (fallSt st gbi gb.newName) := by
  have hgbmem : gb ∈ st.bGrp := List.mem_of_getElem? hb
  obtain ⟨hne, hfresh⟩ := h.fresh gb hgbmem
  have bmem : ∀ gb' ∈ (fallSt st gbi gb.newName).bGrp,
      (gb' ∈ st.bGrp) ∨ (gb' = { gb with onDev := gb.newName }) := by
    intro gb' hgb'
    rcases mem_modAt hgb' with h1 | ⟨y, hy, e⟩
    · exact Or.inl h1
    · rw [hb] at hy; cases hy; exact Or.inr e
  have hbn : (fallSt st gbi gb.newName).bGrp.map (·.g.name) = st.bGrp.map (·.g.name) :=
    modAt_map st.bGrp gbi (fun g => { g with onDev := gb.newName }) (fun x => x.g.name) (fun _ => rfl)
  refine ⟨h.anodup, by rw [hbn]; exact h.bnodup, h.ane, ?_, h.aplain, ?_, h.amemnd, ?_, ?_, ?_, ?_, ?_, ?_, ?_, ?_⟩
  · intro gb' hgb'
    rcases bmem gb' hgb' with h1 | h1
    · exact h.fresh gb' h1
    · rw [h1]; exact h.fresh gb hgbmem
  · intro gb' hgb' m hm
    rw [fallSt_bIdx]
    rcases bmem gb' hgb' with h1 | h1
    · exact h.bplain gb' h1 m hm
    · rw [h1] at hm; exact h.bplain gb hgbmem m hm
  · intro gb' hgb'
    rcases bmem gb' hgb' with h1 | h1
    · exact h.bmemnd gb' h1
    · rw [h1]; exact h.bmemnd gb hgbmem
  · intro gb' hgb' he hr
    rcases bmem gb' hgb' with h1 | h1
    · exact h.c0 gb' h1 he hr
    · rw [h1] at he; exact absurd he hne
  · intro gb' hgb' he
    rcases bmem gb' hgb' with h1 | h1
    · exact h.c1 gb' h1 he
    · rw [h1]; exact hn
  · intro gb' hgb' ga' hga' he
    rcases bmem gb' hgb' with h1 | h1
    · exact h.c2 gb' h1 ga' hga' he
    · rw [h1] at he
      simp only at he
      exact absurd (by rw [he]; exact List.mem_map_of_mem hga') hfresh
  · intro gb' hgb'
    rcases bmem gb' hgb' with h1 | h1
    · exact h.c3 gb' h1
    · rw [h1]; exact Or.inr (Or.inl rfl)
  · intro gb' hgb'
    rcases bmem gb' hgb' with h1 | h1
    · exact h.bne gb' h1
    · rw [h1]; exact h.bne gb hgbmem
  · intro ga hga hn'
    obtain ⟨gb0, hgb0, e0⟩ := h.c4 ga hga hn'
    obtain ⟨j, hj⟩ := List.getElem?_of_mem hgb0
    have hjne : j ≠ gbi := by
      intro e
      subst e
      rw [hb] at hj; cases hj
      rw [h0] at e0
      exact h.ane ga hga e0.symm
    refine ⟨gb0, ?_, e0⟩
    apply List.mem_of_getElem? (i := j)
    simp only [fallSt, modAt_getElem?, hjne, if_false]
    exact hj
  · intro gb' hgb' hne'
    rcases bmem gb' hgb' with h1 | h1
    · exact h.c5 gb' h1 hne'
    · rw [h1]; exact hr

theorem SimG.fall {sh : Shared} {Ref : String → Prop} {st : St} {vg : Vsys} (hs : SimG sh Ref st vg) (h : GInv Ref st)
    (gbi : Nat) (gb : BGrp) (hb : st.bGrp[gbi]? = some gb) :
    SimG sh Ref (fallSt st gbi gb.newName) vg := by
  have hgbmem : gb ∈ st.bGrp := List.mem_of_getElem? hb
  have bmem : ∀ gb' ∈ (fallSt st gbi gb.newName).bGrp,
      (gb' ∈ st.bGrp) ∨ (gb' = { gb with onDev := gb.newName }) := by
    intro gb' hgb'
    rcases mem_modAt hgb' with h1 | ⟨y, hy, e⟩
    · exact Or.inl h1
    · rw [hb] at hy; cases hy; exact Or.inr e
  refine ⟨hs.U, ?_, hs.anames, ?_⟩
  · intro gb' hgb' ga' hga' he
    rcases bmem gb' hgb' with h1 | h1
    · exact hs.K gb' h1 ga' hga' he
    · rw [h1] at he
      simp only at he
      exact absurd (by rw [he]; exact List.mem_map_of_mem hga') (h.fresh gb hgbmem).2
  · intro gb' hgb' hr m hm
    rcases bmem gb' hgb' with h1 | h1
    · exact hs.mems gb' h1 hr m hm
    · rw [h1] at hm hr; exact hs.mems gb hgbmem hr m hm

/-- A claim of a device group whose members on the device are (as a set) those of the target group. -/
theorem SimG.claim {sh : Shared} {Ref : String → Prop} {st : St} {vg vg' : Vsys} (hs : SimG sh Ref st vg) (h : GInv Ref st)
    (i gbi : Nat) (ga : AGrp) (gb : BGrp) (hi : st.aGrp[i]? = some ga) (hb : st.bGrp[gbi]? = some gb)
    (hnn : ga.needed = false)
    (hnames : vg'.groups.map (·.name) = vg.groups.map (·.name))
    (haddr : ∀ m, addrRefOk sh vg' m = addrRefOk sh vg m)
    (hother : ∀ n, n ≠ ga.g.name → lookupGrp vg'.groups n = lookupGrp vg.groups n)
    (hthis : ∃ ms, lookupGrp vg'.groups ga.g.name = some ms ∧ SameMem ms gb.g.members) :
    SimG sh Ref (claimSt st i gbi ga.g.name) vg' := by
  have hgamem : ga ∈ st.aGrp := List.mem_of_getElem? hi
  have hgbmem : gb ∈ st.bGrp := List.mem_of_getElem? hb
  have amem : ∀ ga' ∈ (claimSt st i gbi ga.g.name).aGrp,
      (ga' ∈ st.aGrp ∧ (ga'.g.name = ga.g.name → ga' = ga)) ∨ (ga' = { ga with needed := true }) := by
    intro ga' hga'
    rcases mem_modAt hga' with h1 | ⟨y, hy, e⟩
    · refine Or.inl ⟨h1, fun e => ?_⟩
      obtain ⟨j, hj⟩ := List.getElem?_of_mem h1
      have := idx_of_name h.anodup hi hj e.symm
      subst this
      rw [hi] at hj; cases hj; rfl
    · rw [hi] at hy; cases hy; exact Or.inr e
  have bmem : ∀ gb' ∈ (claimSt st i gbi ga.g.name).bGrp,
      (gb' ∈ st.bGrp) ∨ (gb' = { gb with needed := false, onDev := ga.g.name }) := by
    intro gb' hgb'
    rcases mem_modAt hgb' with h1 | ⟨y, hy, e⟩
    · exact Or.inl h1
    · rw [hb] at hy; cases hy; exact Or.inr e
  -- in the new table the entry named like `ga` is needed
  have newNeeded : ∀ ga' ∈ (claimSt st i gbi ga.g.name).aGrp, ga'.g.name = ga.g.name → ga'.needed = true := by
    intro ga' hga' e
    obtain ⟨j, hj⟩ := List.getElem?_of_mem hga'
    have hj' := hj
    simp only [claimSt, modAt_getElem?] at hj'
    split at hj'
    · rename_i e'; subst e'
      rw [hi] at hj'; simp only [Option.map_some, Option.some.injEq] at hj'
      rw [← hj']
    · have := idx_of_name h.anodup hi hj' e.symm
      omega
  refine ⟨?_, ?_, ?_, ?_⟩
  · intro ga' hga' hn
    have hne : ga'.g.name ≠ ga.g.name := fun e => by
      rw [newNeeded ga' hga' e] at hn; cases hn
    rcases amem ga' hga' with ⟨h1, _⟩ | h1
    · rw [hother _ hne]; exact hs.U ga' h1 hn
    · rw [h1] at hn; cases hn
  · intro gb' hgb' ga' hga' he
    by_cases hnm : ga'.g.name = ga.g.name
    · -- the claimed group
      rw [hnm]
      rcases bmem gb' hgb' with h1 | h1
      · -- an old target group with that name on the device: then `ga` was needed already
        have : ga.needed = true := h.c2 gb' h1 ga hgamem (he.trans hnm)
        rw [hnn] at this; cases this
      · rw [h1]; exact hthis
    · rw [hother _ hnm]
      rcases amem ga' hga' with ⟨h2, _⟩ | h2
      · rcases bmem gb' hgb' with h1 | h1
        · exact hs.K gb' h1 ga' h2 he
        · rw [h1] at he; exact absurd he.symm hnm
      · rw [h2] at hnm; exact absurd rfl hnm
  · intro ga' hga'
    rw [hnames]
    rcases amem ga' hga' with ⟨h1, _⟩ | h1
    · exact hs.anames ga' h1
    · rw [h1]; exact hs.anames ga hgamem
  · intro gb' hgb' hr m hm
    rw [haddr]
    rcases bmem gb' hgb' with h1 | h1
    · exact hs.mems gb' h1 hr m hm
    · rw [h1] at hm hr; exact hs.mems gb hgbmem hr m hm

/-! ### Names on the device -/

/-- The name under which the device knows (or will know) a member of a target list. -/
def adapt1 (st : St) (x : String) : String :=
  match st.bGrpIdx x with
  | some gbi => (st.bGrp[gbi]?.map (·.onDev)).getD x
  | none => x

def adaptL (st : St) (l : List String) : List String := l.map (adapt1 st)

/-- Every group of the list has a name on the device. -/
def GSettled (st : St) (l : List String) : Prop :=
  ∀ x ∈ l, ∀ gbi, st.bGrpIdx x = some gbi → ∃ gb, st.bGrp[gbi]? = some gb ∧ gb.onDev ≠ ""

theorem adapt1_mono {st st' : St} (h : GMono st st') {x : String}
    (hs : ∀ gbi, st.bGrpIdx x = some gbi → ∃ gb, st.bGrp[gbi]? = some gb ∧ gb.onDev ≠ "") :
    adapt1 st' x = adapt1 st x := by
  unfold adapt1
  rw [h.bIdx]
  cases hx : st.bGrpIdx x with
  | none => rfl
  | some gbi =>
    obtain ⟨gb, hgb, hne⟩ := hs gbi hx
    obtain ⟨gb', hgb', _⟩ := h.bget hgb
    simp only [hgb, hgb', Option.map_some, Option.getD_some]
    exact (h.bo gbi gb gb' hgb hgb' hne).1

theorem adaptL_mono {st st' : St} (h : GMono st st') {l : List String} (hs : GSettled st l) :
    adaptL st' l = adaptL st l := by
  unfold adaptL
  apply List.map_congr_left
  intro x hx
  exact adapt1_mono h (hs x hx)

theorem GSettled.mono {st st' : St} (h : GMono st st') {l : List String} (hs : GSettled st l) : GSettled st' l := by
  intro x hx gbi hgbi
  rw [h.bIdx] at hgbi
  obtain ⟨gb, hgb, hne⟩ := hs x hx gbi hgbi
  obtain ⟨gb', hgb', _⟩ := h.bget hgb
  exact ⟨gb', hgb', by rw [(h.bo gbi gb gb' hgb hgb' hne).1]; exact hne⟩

theorem bGrp_of_idx {st : St} {x : String} {gbi : Nat} (h : st.bGrpIdx x = some gbi) :
    ∃ gb, st.bGrp[gbi]? = some gb ∧ gb.g.name = x := by
  have := lastIdx_spec h
  rw [List.getElem?_map] at this
  cases hx : st.bGrp[gbi]? with
  | none => simp [hx] at this
  | some gb => exact ⟨gb, rfl, by simpa [hx] using this⟩

theorem aGrp_of_idx {st : St} {x : String} {gai : Nat} (h : st.aGrpIdx x = some gai) :
    ∃ ga, st.aGrp[gai]? = some ga ∧ ga.g.name = x := by
  have := lastIdx_spec h
  rw [List.getElem?_map] at this
  cases hx : st.aGrp[gai]? with
  | none => simp [hx] at this
  | some ga => exact ⟨ga, rfl, by simpa [hx] using this⟩

/-- **One element of `adaptGroups`.** -/
theorem adaptStep_sim {sh : Shared} {Ref : String → Prop} (st : St) (vg : Vsys) (res : List String) (adr : String)
    (hI : GInv Ref st) (hS : SimG sh Ref st vg) (href : (st.bGrpIdx adr).isSome → Ref adr) :
    ∃ st', adaptStep (res, st) adr = (res ++ [adapt1 st' adr], st') ∧ st'.out = st.out ∧ GMono st st' ∧
      GInv Ref st' ∧ SimG sh Ref st' vg ∧
      (∀ gbi, st'.bGrpIdx adr = some gbi → ∃ gb, st'.bGrp[gbi]? = some gb ∧ gb.onDev ≠ "") ∧
      (∀ gbi gb, st.bGrpIdx adr = some gbi → st.bGrp[gbi]? = some gb →
        (gb.onDev ≠ "" → adapt1 st' adr = gb.onDev) ∧
        (gb.onDev = "" → adapt1 st' adr = gb.newName ∨
          ∃ ga ∈ st.aGrp, ga.needed = false ∧ ga.g.members = gb.g.members ∧ adapt1 st' adr = ga.g.name)) := by
  unfold adaptStep
  simp only
  cases hidx : st.bGrpIdx adr with
  | none =>
    refine ⟨st, ?_, rfl, GMono.refl st, hI, hS, ?_, ?_⟩
    · simp [adapt1, hidx]
    · intro gbi h; rw [hidx] at h; cases h
    · intro gbi gb h; cases h
  | some gbi =>
    obtain ⟨gb, hgb, hname⟩ := bGrp_of_idx hidx
    have hgbmem : gb ∈ st.bGrp := List.mem_of_getElem? hgb
    simp only [hgb, Option.getD_some]
    by_cases hon : gb.onDev = ""
    · -- no name on the device yet
      have hcond : (gb.onDev != "") = false := by simp [hon]
      simp only [hcond, Bool.false_eq_true, if_false]
      have hneeded : gb.needed = true := hI.c0 gb hgbmem hon (by rw [hname]; exact href (by simp [hidx]))
      rcases findGroupOnDevice_sound st gbi with ⟨i, ga, hi, hnn, hmem, _, hfind⟩ | ⟨_, hfind⟩
      · -- an unclaimed device group with identical members
        rw [hfind]
        have hgamem : ga ∈ st.aGrp := List.mem_of_getElem? hi
        have hne : (ga.g.name != "") = true := by simpa using hI.ane ga hgamem
        simp only [hne, if_true]
        have hmem' : ga.g.members = gb.g.members := by simpa [hgb] using hmem
        obtain ⟨ms, hms, hsame, _⟩ := hS.U ga hgamem hnn
        have hadapt : adapt1 (claimSt st i gbi ga.g.name) adr = ga.g.name := by
          unfold adapt1
          rw [claimSt_bIdx, hidx]
          simp [claimSt, modAt_getElem?, hgb]
        refine ⟨claimSt st i gbi ga.g.name, ?_, rfl,
          GMono.claim st i gbi ga.g.name (fun gb' hb' => by rw [hgb] at hb'; cases hb'; exact hon),
          hI.claim i gbi ga gb hi hgb hon (by rw [hname]; exact href (by simp [hidx])),
          hS.claim hI i gbi ga gb hi hgb hnn rfl (fun _ => rfl) (fun _ _ => rfl) ⟨ms, hms, hmem' ▸ hsame⟩, ?_, ?_⟩
        · rw [hadapt]; rfl
        · intro gbi' h'
          rw [claimSt_bIdx, hidx] at h'
          cases h'
          refine ⟨{ gb with needed := false, onDev := ga.g.name }, by simp [claimSt, modAt_getElem?, hgb], ?_⟩
          exact hI.ane ga hgamem
        · intro gbi' gb' h1 h2
          cases h1
          rw [hgb] at h2; cases h2
          exact ⟨fun h => absurd hon h, fun _ => Or.inr ⟨ga, hgamem, hnn, hmem', hadapt⟩⟩
      · -- none: the group keeps its new name and is transferred
        rw [hfind]
        simp only [bne_self_eq_false, Bool.false_eq_true, if_false]
        have hadapt : adapt1 (fallSt st gbi gb.newName) adr = gb.newName := by
          unfold adapt1
          rw [fallSt_bIdx, hidx]
          simp [fallSt, modAt_getElem?, hgb]
        refine ⟨fallSt st gbi gb.newName, ?_, rfl,
          GMono.setOnDev st gbi gb.newName (fun gb' hb' => by rw [hgb] at hb'; cases hb'; exact hon),
          hI.fall gbi gb hgb hon hneeded (by rw [hname]; exact href (by simp [hidx])), hS.fall hI gbi gb hgb, ?_, ?_⟩
        · rw [hadapt]; rfl
        · intro gbi' h'
          rw [fallSt_bIdx, hidx] at h'
          cases h'
          exact ⟨{ gb with onDev := gb.newName }, by simp [fallSt, modAt_getElem?, hgb], (hI.fresh gb hgbmem).1⟩
        · intro gbi' gb' h1 h2
          cases h1
          rw [hgb] at h2; cases h2
          exact ⟨fun h => absurd hon h, fun _ => Or.inl hadapt⟩
    · -- it has one
      have hcond : (gb.onDev != "") = true := by simpa using hon
      simp only [hcond, if_true]
      refine ⟨st, ?_, rfl, GMono.refl st, hI, hS, ?_, ?_⟩
      · simp [adapt1, hidx, hgb]
      · intro gbi' h'
        rw [hidx] at h'; cases h'
        exact ⟨gb, hgb, hon⟩
      · intro gbi' gb' h1 h2
        cases h1
        rw [hgb] at h2; cases h2
        exact ⟨fun _ => by simp [adapt1, hidx, hgb], fun h => absurd h hon⟩

/-- **`adaptGroups`**: no request; every group of the list gets its name on the device. -/
theorem adaptGroups_sim {sh : Shared} {Ref : String → Prop} (vg : Vsys) :
    ∀ (l : List String) (res : List String) (st : St), GInv Ref st → SimG sh Ref st vg →
      (∀ x ∈ l, (st.bGrpIdx x).isSome → Ref x) →
      ∃ st', l.foldl adaptStep (res, st) = (res ++ adaptL st' l, st') ∧ st'.out = st.out ∧ GMono st st' ∧
        GInv Ref st' ∧ SimG sh Ref st' vg ∧ GSettled st' l := by
  intro l
  induction l with
  | nil =>
    intro res st hI hS _
    exact ⟨st, by simp [adaptL], rfl, GMono.refl st, hI, hS, fun x hx => by cases hx⟩
  | cons x xs ih =>
    intro res st hI hS href
    obtain ⟨st1, e1, o1, m1, i1, s1, set1, _⟩ := adaptStep_sim st vg res x hI hS (href x (by simp))
    obtain ⟨st', e2, o2, m2, i2, s2, set2⟩ := ih (res ++ [adapt1 st1 x]) st1 i1 s1
      (fun y hy hsome => href y (List.mem_cons_of_mem _ hy) (by rw [← m1.bIdx]; exact hsome))
    refine ⟨st', ?_, o2.trans o1, m1.trans m2, i2, s2, ?_⟩
    · simp only [List.foldl_cons]
      rw [e1, e2]
      simp only [adaptL, List.map_cons, List.append_assoc, List.singleton_append]
      rw [adapt1_mono m2 set1]
    · intro y hy
      rcases List.mem_cons.mp hy with rfl | hy
      · intro gbi hgbi
        rw [m2.bIdx] at hgbi
        obtain ⟨gb, hgb, hne⟩ := set1 gbi hgbi
        obtain ⟨gb', hgb', _⟩ := m2.bget hgb
        exact ⟨gb', hgb', by rw [(m2.bo gbi gb gb' hgb hgb' hne).1]; exact hne⟩
      · exact set2 y hy

theorem adaptGroups_sim' {sh : Shared} {Ref : String → Prop} (vg : Vsys) (st : St) (l : List String)
    (hI : GInv Ref st) (hS : SimG sh Ref st vg) (href : ∀ x ∈ l, (st.bGrpIdx x).isSome → Ref x) :
    ∃ st', adaptGroups st l = (adaptL st' l, st') ∧ st'.out = st.out ∧ GMono st st' ∧
      GInv Ref st' ∧ SimG sh Ref st' vg ∧ GSettled st' l := by
  obtain ⟨st', e, r⟩ := adaptGroups_sim (sh := sh) vg l [] st hI hS href
  exact ⟨st', by unfold adaptGroups; rw [e]; simp, r⟩

end NA.PanOs
