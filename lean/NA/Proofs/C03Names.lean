import NA.Model.PanOs
/-
C03, generated names (`genUniqRuleNames`, `genUniqGroupNames`): the search for `name-i` always
finds a free name, new names avoid the device's names and are pairwise distinct.
The only fact about `fmt.Sprintf("%s-%d")` that is used is that different numbers give
different strings (`suffixInj`, proved for Lean's decimal notation).  Core Lean only.
-/
namespace NA.PanOs

/-- `fmt.Sprintf("%s-%d", name, i)` is injective in `i`. -/
def SuffixInj : Prop := ∀ (name : String) (i j : Nat), s!"{name}-{i}" = s!"{name}-{j}" → i = j

/-- Decimal notation is injective, so `name-i` determines `i`. -/
theorem suffixInj : SuffixInj := by
  intro name i j h
  have h1 : toString name ++ toString "-" ++ toString i = toString name ++ toString "-" ++ toString j := h
  rw [String.append_right_inj] at h1
  have h2 : (Nat.repr i).toList = (Nat.repr j).toList := by
    have : Nat.repr i = Nat.repr j := h1
    rw [this]
  rw [Nat.toList_repr, Nat.toList_repr] at h2
  have := congrArg (fun l => Nat.ofDigitChars 10 l 0) h2
  simpa [Nat.ofDigitChars_ten_toDigits] using this

/-- Pigeonhole: among `l.length + 1` values of an injective sequence one is not in `l`. -/
theorem exists_not_mem_of_injective {α : Type} (l : List α) :
    ∀ (f : Nat → α), (∀ i j, f i = f j → i = j) → ∃ i, i ≤ l.length ∧ f i ∉ l := by
  induction l with
  | nil => intro f _; exact ⟨0, Nat.le_refl _, by simp⟩
  | cons a l ih =>
    intro f hf
    obtain ⟨i, hi, hni⟩ := ih f hf
    by_cases hfa : f i = a
    · -- skip index i
      let g : Nat → α := fun k => if k < i then f k else f (k + 1)
      have hg : ∀ p q, g p = g q → p = q := by
        intro p q h
        simp only [g] at h
        by_cases hp : p < i <;> by_cases hq : q < i <;> simp only [hp, hq, if_true, if_false] at h
        · exact hf _ _ h
        · have := hf _ _ h; omega
        · have := hf _ _ h; omega
        · have := hf _ _ h; omega
      obtain ⟨k, hk, hnk⟩ := ih g hg
      simp only [g] at hnk
      by_cases hki : k < i
      · simp only [hki, if_true] at hnk
        refine ⟨k, by simp; omega, ?_⟩
        intro hm
        rcases List.mem_cons.mp hm with h | h
        · have := hf k i (h.trans hfa.symm); omega
        · exact hnk h
      · simp only [hki, if_false] at hnk
        refine ⟨k + 1, by simp; omega, ?_⟩
        intro hm
        rcases List.mem_cons.mp hm with h | h
        · have := hf (k + 1) i (h.trans hfa.symm); omega
        · exact hnk h
    · refine ⟨i, by simp; omega, ?_⟩
      intro hm
      rcases List.mem_cons.mp hm with h | h
      · exact hfa h
      · exact hni h

/-- The search of `freshName` succeeds: the result is not taken. -/
theorem freshName_not_mem (hinj : SuffixInj) (used : List String) (name : String) :
    freshName used name ∉ used := by
  unfold freshName
  obtain ⟨i, hi, hni⟩ := exists_not_mem_of_injective used (fun k => s!"{name}-{k + 1}") (by
    intro p q h
    have := hinj name (p + 1) (q + 1) h
    omega)
  cases hf : (List.range (used.length + 1)).find? (fun i => !used.contains s!"{name}-{i + 1}") with
  | some k =>
    have := List.find?_some hf
    simpa using this
  | none =>
    rw [List.find?_eq_none] at hf
    have := hf i (by simp; omega)
    simp at this
    exact absurd this hni

/-- Every new name is free on the device, and new names are pairwise distinct when the
target's names are. -/
theorem uniqNamesFrom_spec (hinj : SuffixInj) (taken : List String) :
    ∀ (names used : List String), (∀ n ∈ taken, n ∈ used) → (∀ n ∈ names, n ∈ used) →
      names.Nodup →
      (∀ n ∈ uniqNamesFrom taken used names, n ∉ taken) ∧
      (uniqNamesFrom taken used names).Nodup ∧
      (∀ n ∈ uniqNamesFrom taken used names, n ∈ names ∨ n ∉ used) ∧
      (uniqNamesFrom taken used names).length = names.length := by
  intro names
  induction names with
  | nil => intro used _ _ _; simp [uniqNamesFrom]
  | cons n ns ih =>
    intro used ht hn hnd
    rw [List.nodup_cons] at hnd
    simp only [uniqNamesFrom]
    split
    · -- renamed
      rename_i hc
      have hfresh := freshName_not_mem hinj used n
      obtain ⟨h1, h2, h3, h4⟩ := ih (freshName used n :: used)
        (fun x hx => List.mem_cons_of_mem _ (ht x hx))
        (fun x hx => List.mem_cons_of_mem _ (hn x (List.mem_cons_of_mem _ hx))) hnd.2
      refine ⟨?_, ?_, ?_, by simp [h4]⟩
      · intro x hx
        rcases List.mem_cons.mp hx with rfl | hx
        · exact fun hm => hfresh (ht _ hm)
        · exact h1 x hx
      · rw [List.nodup_cons]
        refine ⟨?_, h2⟩
        intro hm
        rcases h3 _ hm with h | h
        · exact hfresh (hn _ (List.mem_cons_of_mem _ h))
        · exact h (by simp)
      · intro x hx
        rcases List.mem_cons.mp hx with rfl | hx
        · exact Or.inr hfresh
        · rcases h3 x hx with h | h
          · exact Or.inl (List.mem_cons_of_mem _ h)
          · exact Or.inr (fun hm => h (List.mem_cons_of_mem _ hm))
    · rename_i hc
      obtain ⟨h1, h2, h3, h4⟩ := ih used ht
        (fun x hx => hn x (List.mem_cons_of_mem _ hx)) hnd.2
      refine ⟨?_, ?_, ?_, by simp [h4]⟩
      · intro x hx
        rcases List.mem_cons.mp hx with rfl | hx
        · simpa using hc
        · exact h1 x hx
      · rw [List.nodup_cons]
        refine ⟨?_, h2⟩
        intro hm
        rcases h3 _ hm with h | h
        · exact hnd.1 h
        · exact h (hn n (by simp))
      · intro x hx
        rcases List.mem_cons.mp hx with rfl | hx
        · exact Or.inl (by simp)
        · rcases h3 x hx with h | h
          · exact Or.inl (List.mem_cons_of_mem _ h)
          · exact Or.inr h

theorem uniqNames_spec (hinj : SuffixInj) (taken names : List String) (hnd : names.Nodup) :
    (∀ n ∈ uniqNames taken names, n ∉ taken) ∧ (uniqNames taken names).Nodup ∧
      (uniqNames taken names).length = names.length := by
  obtain ⟨h1, h2, _, h4⟩ := uniqNamesFrom_spec hinj taken names (taken ++ names)
    (fun n h => List.mem_append_left _ h) (fun n h => List.mem_append_right _ h) hnd
  exact ⟨h1, h2, h4⟩

/-- Device names followed by the new names of the target: no name twice. -/
theorem uniqNames_nodup_append (hinj : SuffixInj) (taken names : List String)
    (ht : taken.Nodup) (hnd : names.Nodup) : (taken ++ uniqNames taken names).Nodup := by
  obtain ⟨h1, h2, _⟩ := uniqNames_spec hinj taken names hnd
  rw [List.nodup_append]
  refine ⟨ht, h2, ?_⟩
  intro a ha b hb e
  subst e
  exact h1 a hb ha

/-- **`genUniqGroupNames` after the repair of F-C03g**: the new names are free among the device's
groups, pairwise distinct, as many as the target has groups; a name that was generated (is not a
name of the target) is not the name of an address of either side. -/
theorem groupNamesFor_spec (hinj : SuffixInj) (a b : Vsys) (hnd : (b.groups.map (·.name)).Nodup) :
    (∀ n ∈ groupNamesFor a b, n ∉ a.groups.map (·.name)) ∧ (groupNamesFor a b).Nodup ∧
    (∀ n ∈ groupNamesFor a b, n ∈ b.groups.map (·.name) ∨
      (n ∉ a.addrs.map (·.name) ∧ n ∉ b.addrs.map (·.name))) ∧
    (groupNamesFor a b).length = b.groups.length := by
  obtain ⟨h1, h2, h3, h4⟩ := uniqNamesFrom_spec hinj (a.groups.map (·.name)) (b.groups.map (·.name))
    (a.groups.map (·.name) ++ b.groups.map (·.name) ++ (a.addrs.map (·.name) ++ b.addrs.map (·.name)))
    (fun n h => by simp [h]) (fun n h => by simp [h]) hnd
  refine ⟨h1, h2, ?_, by unfold groupNamesFor; rw [h4]; simp⟩
  intro n hn
  rcases h3 n hn with h | h
  · exact Or.inl h
  · right
    simp only [List.mem_append, not_or] at h
    exact ⟨h.2.1, h.2.2⟩

end NA.PanOs
