import NA.Spec.AclDev
/-
ASA `line N` planner, part 1: list lemmas about presence masks.

`masked M μ` is the device list when exactly the cells marked in `μ` are present;
`cnt μ i` is the 0-based line index of cell `i` in that list.  Switching one cell on is an
`insertIdx` at `cnt μ j`, switching one off is an `eraseIdx` at `cnt μ i`.
Core Lean only.
-/
namespace NA.Acl

/-! ### `getD` helpers -/

theorem getD_map_lt {α β} (l : List α) (f : α → β) (x : Nat) (d : β) (d' : α) (h : x < l.length) :
    (l.map f).getD x d = f (l.getD x d') := by
  simp [List.getD_eq_getElem?_getD, h]

theorem getD_set_bool (μ : List Bool) (j x : Nat) (b : Bool) (h : j < μ.length) :
    (μ.set j b).getD x false = if x = j then b else μ.getD x false := by
  simp only [List.getD_eq_getElem?_getD, List.getElem?_set]
  by_cases hx : j = x
  · subst hx; simp [h]
  · have : ¬ x = j := fun e => hx e.symm
    simp [hx, this]

theorem list_ext_getD {α} (d : α) (l1 l2 : List α) (hl : l1.length = l2.length)
    (h : ∀ x, x < l1.length → l1.getD x d = l2.getD x d) : l1 = l2 := by
  apply List.ext_getElem hl
  intro i h1 h2
  have := h i h1
  simpa [List.getD_eq_getElem?_getD, h1, h2] using this

/-! ### `cnt` -/

@[simp] theorem cnt_zero (μ : List Bool) : cnt μ 0 = 0 := by
  cases μ <;> rfl

@[simp] theorem cnt_nil (i : Nat) : cnt [] i = 0 := by
  cases i <;> rfl

@[simp] theorem cnt_cons_succ (b : Bool) (μ : List Bool) (i : Nat) :
    cnt (b :: μ) (i + 1) = (if b then 1 else 0) + cnt μ i := rfl

theorem cnt_mono (μ : List Bool) (x y : Nat) (h : x ≤ y) : cnt μ x ≤ cnt μ y := by
  induction μ generalizing x y with
  | nil => simp
  | cons b μ ih =>
    cases x with
    | zero => simp
    | succ x =>
      cases y with
      | zero => omega
      | succ y =>
        have := ih x y (by omega)
        simp only [cnt_cons_succ]; omega

theorem cnt_lt (μ : List Bool) (x y : Nat) (h : x < y) (hx : μ.getD x false = true) :
    cnt μ x < cnt μ y := by
  induction μ generalizing x y with
  | nil => simp at hx
  | cons b μ ih =>
    cases y with
    | zero => omega
    | succ y =>
      cases x with
      | zero =>
        simp at hx
        simp [hx]; omega
      | succ x =>
        have := ih x y (by omega) (by simpa using hx)
        simp only [cnt_cons_succ]; omega

theorem cnt_set_true (μ : List Bool) (j x : Nat) (hj : μ.getD j false = false) (hl : j < μ.length) :
    cnt (μ.set j true) x = cnt μ x + (if j < x then 1 else 0) := by
  induction μ generalizing j x with
  | nil => simp at hl
  | cons b μ ih =>
    cases x with
    | zero => simp
    | succ x =>
      cases j with
      | zero =>
        simp at hj
        simp [hj]; omega
      | succ j =>
        have := ih j x (by simpa using hj) (by simpa using hl)
        simp only [List.set_cons_succ, cnt_cons_succ, this]
        by_cases h : j < x <;> simp [h] <;> omega

theorem cnt_set_false (μ : List Bool) (i x : Nat) (hi : μ.getD i false = true) :
    cnt (μ.set i false) x + (if i < x then 1 else 0) = cnt μ x := by
  induction μ generalizing i x with
  | nil => simp at hi
  | cons b μ ih =>
    cases x with
    | zero => simp
    | succ x =>
      cases i with
      | zero =>
        simp at hi
        simp [hi]; omega
      | succ i =>
        have := ih i x (by simpa using hi)
        simp only [List.set_cons_succ, cnt_cons_succ]
        by_cases h : i < x <;> simp [h] at this ⊢ <;> omega

/-- `countOld` (the initial value of the Go map `pos`) is `cnt` of the old mask. -/
theorem countOld_eq_cnt (M : List Cell) (x : Nat) : countOld M x = cnt (oldMask M) x := by
  induction M generalizing x with
  | nil => simp [countOld, oldMask]
  | cons c M ih =>
    cases x with
    | zero => simp [countOld]
    | succ x =>
      have := ih x
      unfold countOld oldMask at *
      cases h : c.old <;> simp [h, this] <;> omega

/-! ### `masked` -/

@[simp] theorem masked_nil_left (μ : List Bool) : masked [] μ = [] := by
  cases μ <;> rfl
@[simp] theorem masked_nil_right (M : List Cell) : masked M [] = [] := by
  cases M <;> rfl
@[simp] theorem masked_cons_true (c : Cell) (M : List Cell) (μ : List Bool) :
    masked (c :: M) (true :: μ) = c.line :: masked M μ := rfl
@[simp] theorem masked_cons_false (c : Cell) (M : List Cell) (μ : List Bool) :
    masked (c :: M) (false :: μ) = masked M μ := rfl

/-- The position of any cell is inside the current list (so `line N` is accepted). -/
theorem cnt_le_length (M : List Cell) (μ : List Bool) (j : Nat) (hj : j ≤ M.length) :
    cnt μ j ≤ (masked M μ).length := by
  induction M generalizing μ j with
  | nil => simp at hj; simp [hj]
  | cons c M ih =>
    cases μ with
    | nil => simp
    | cons b μ =>
      cases j with
      | zero => simp
      | succ j =>
        have := ih μ j (by simpa using hj)
        cases b <;> simp <;> omega

/-- Switching cell `j` on is an insert at `cnt μ j`. -/
theorem masked_insert (M : List Cell) (μ : List Bool) (j : Nat) (hj : j < M.length)
    (hμ : μ.getD j false = false) (hl : j < μ.length) :
    (masked M μ).insertIdx (cnt μ j) (M.getD j default).line = masked M (μ.set j true) := by
  induction M generalizing μ j with
  | nil => simp at hj
  | cons c M ih =>
    cases μ with
    | nil => simp at hl
    | cons b μ =>
      cases j with
      | zero =>
        simp at hμ
        simp [hμ]
      | succ j =>
        have := ih μ j (by simpa using hj) (by simpa using hμ) (by simpa using hl)
        cases b
        · simpa using this
        · simp only [cnt_cons_succ, if_true, masked_cons_true, List.set_cons_succ]
          rw [Nat.add_comm, List.insertIdx_succ_cons]
          simpa using this

/-- The line of a present cell `i` sits at index `cnt μ i`. -/
theorem masked_get (M : List Cell) (μ : List Bool) (i : Nat) (hi : i < M.length)
    (hμ : μ.getD i false = true) :
    (masked M μ)[cnt μ i]? = some (M.getD i default).line := by
  induction M generalizing μ i with
  | nil => simp at hi
  | cons c M ih =>
    cases μ with
    | nil => simp at hμ
    | cons b μ =>
      cases i with
      | zero =>
        simp at hμ
        simp [hμ]
      | succ i =>
        have := ih μ i (by simpa using hi) (by simpa using hμ)
        cases b
        · simpa using this
        · simp only [cnt_cons_succ, if_true, masked_cons_true]
          rw [Nat.add_comm, List.getElem?_cons_succ]
          simpa using this

/-- Switching a present cell `i` off is an erase at `cnt μ i`. -/
theorem masked_erase (M : List Cell) (μ : List Bool) (i : Nat) (hi : i < M.length)
    (hμ : μ.getD i false = true) :
    (masked M μ).eraseIdx (cnt μ i) = masked M (μ.set i false) := by
  induction M generalizing μ i with
  | nil => simp at hi
  | cons c M ih =>
    cases μ with
    | nil => simp at hμ
    | cons b μ =>
      cases i with
      | zero =>
        simp at hμ
        simp [hμ]
      | succ i =>
        have := ih μ i (by simpa using hi) (by simpa using hμ)
        cases b
        · simpa using this
        · simp only [cnt_cons_succ, if_true, masked_cons_true, List.set_cons_succ]
          rw [Nat.add_comm, List.eraseIdx_cons_succ]
          simpa using this

/-- Every line of the current list belongs to a present cell. -/
theorem masked_mem (M : List Cell) (μ : List Bool) (l : Line) (h : l ∈ masked M μ) :
    ∃ x, x < M.length ∧ μ.getD x false = true ∧ (M.getD x default).line = l := by
  induction M generalizing μ with
  | nil => simp at h
  | cons c M ih =>
    cases μ with
    | nil => simp at h
    | cons b μ =>
      cases b
      · obtain ⟨x, hx, hm, hl⟩ := ih μ (by simpa using h)
        exact ⟨x + 1, by simpa using hx, by simpa using hm, by simpa using hl⟩
      · simp only [masked_cons_true, List.mem_cons] at h
        rcases h with h | h
        · exact ⟨0, by simp, by simp, by simp [h]⟩
        · obtain ⟨x, hx, hm, hl⟩ := ih μ h
          exact ⟨x + 1, by simpa using hx, by simpa using hm, by simpa using hl⟩

/-! ### `Nodup` of a mapped filtered list, index form -/

theorem mem_map_filter_getD {α β} [Inhabited α] (M : List α) (p : α → Bool) (f : α → β) (y : Nat)
    (hy : y < M.length) (hp : p (M.getD y default) = true) :
    f (M.getD y default) ∈ (M.filter p).map f := by
  apply List.mem_map.2
  refine ⟨M.getD y default, List.mem_filter.2 ⟨?_, hp⟩, rfl⟩
  simp [List.getD_eq_getElem?_getD, hy]

theorem nodup_map_filter_inj {α β} [Inhabited α] (M : List α) (p : α → Bool) (f : α → β)
    (h : ((M.filter p).map f).Nodup) (x y : Nat) (hx : x < M.length) (hy : y < M.length)
    (px : p (M.getD x default) = true) (py : p (M.getD y default) = true)
    (e : f (M.getD x default) = f (M.getD y default)) : x = y := by
  induction M generalizing x y with
  | nil => simp at hx
  | cons c M ih =>
    cases x with
    | zero =>
      cases y with
      | zero => rfl
      | succ y =>
        exfalso
        simp only [List.getD_cons_zero] at px e
        simp only [List.getD_cons_succ] at py e
        simp only [List.filter_cons, px, if_true, List.map_cons, List.nodup_cons] at h
        exact h.1 (e ▸ mem_map_filter_getD M p f y (by simpa using hy) py)
    | succ x =>
      cases y with
      | zero =>
        exfalso
        simp only [List.getD_cons_zero] at py e
        simp only [List.getD_cons_succ] at px e
        simp only [List.filter_cons, py, if_true, List.map_cons, List.nodup_cons] at h
        exact h.1 (e ▸ mem_map_filter_getD M p f x (by simpa using hx) px)
      | succ y =>
        simp only [List.getD_cons_succ] at px py e
        have h' : ((M.filter p).map f).Nodup := by
          by_cases pc : p c = true
          · simp only [List.filter_cons, pc, if_true, List.map_cons, List.nodup_cons] at h
            exact h.2
          · simpa [List.filter_cons, pc] using h
        rw [ih h' x y (by simpa using hx) (by simpa using hy) px py e]

end NA.Acl
