import NA.Proofs.F1Sem
import NA.Proofs.F1Lines
/-!
# F1: executing access-list line commands on the strict device — refinement of `NA.Acl.asaExec1`
-/
namespace NA.F1
open NA.AsaDev
open NA.Acl (Range)

theorem map_insertIdx {α β : Type} (f : α → β) (x : α) : ∀ (l : List α) (i : Nat),
    (l.insertIdx i x).map f = (l.map f).insertIdx i (f x) := by
  intro l
  induction l with
  | nil => intro i; cases i <;> simp [List.insertIdx]
  | cons a l ih =>
    intro i
    cases i with
    | zero => simp [List.insertIdx]
    | succ i => simp [List.insertIdx_succ_cons, ih]

theorem map_eraseIdx {α β : Type} (f : α → β) : ∀ (l : List α) (i : Nat),
    (l.eraseIdx i).map f = (l.map f).eraseIdx i := by
  intro l
  induction l with
  | nil => intro i; simp
  | cons a l ih =>
    intro i
    cases i with
    | zero => simp
    | succ i => simp [ih]

theorem linesOf_setAcl_self (d : Dev) (n : Name) (ls : List RLine) (md : Option Name) :
    linesOf { d with acls := setAssoc d.acls n ls, mode := md } n = ls := by
  simp [linesOf, lookup_setAssoc_self]

theorem linesOf_setAcl_ne (d : Dev) (n n' : Name) (ls : List RLine) (md : Option Name) (h : n' ≠ n) :
    linesOf { d with acls := setAssoc d.acls n ls, mode := md } n' = linesOf d n' := by
  simp [linesOf, lookup_setAssoc_ne _ _ _ _ h]

/-- `d'` differs from `d` at most in the lines of access list `n` and the open sub-mode. -/
structure OnlyAcl (d d' : Dev) (n : Name) : Prop where
  others : ∀ n', n' ≠ n → linesOf d' n' = linesOf d n'
  groups : d'.groups = d.groups
  binds : d'.binds = d.binds
  routes : d'.routes = d.routes
  intfs : d'.intfs = d.intfs
  mode : d'.mode = none
  keys : d'.acls.map (·.1) = d.acls.map (·.1)

theorem hasAcl_of_lines {d : Dev} {n : Name} (h : linesOf d n ≠ []) : hasAcl d n = true := by
  unfold linesOf at h
  cases hl : d.acls.lookup n with
  | none => rw [hl] at h; exact absurd rfl h
  | some ls =>
    have := mem_of_lookup hl
    unfold hasAcl
    exact List.any_eq_true.mpr ⟨_, this, by simp⟩

theorem exec1_acl_ok (d : Dev) (n : Name) (p : Nat) (l : RLine)
    (hg : ∀ g ∈ l.names, hasGroup d g = true)
    (hdup : (linesOf d n).any (fun x => x.mkey == l.mkey) = false) (hp : p ≤ (linesOf d n).length) :
    exec1 d (.acl n (some (p + 1)) l) =
      .ok { d with acls := setAssoc d.acls n ((linesOf d n).insertIdx p l), mode := none } := by
  have h1 : l.names.all (hasGroup d) = true := List.all_eq_true.mpr hg
  simp only [exec1, h1, hdup, Bool.not_true, Bool.false_eq_true, if_false]
  simp [hp]

theorem exec1_noAcl_ok (d : Dev) (n : Name) (p : Nat) (l : RLine)
    (hl : (linesOf d n)[p]? = some l) (hne : ((linesOf d n).eraseIdx p) ≠ []) :
    exec1 d (.noAcl n (p + 1) l) =
      .ok { d with acls := setAssoc d.acls n ((linesOf d n).eraseIdx p), mode := none } := by
  have h2 : ((linesOf d n).eraseIdx p).isEmpty = false := by
    cases h : (linesOf d n).eraseIdx p with
    | nil => exact absurd h hne
    | cons _ _ => rfl
  simp [exec1, hl, h2]

/-- Refinement of one line operation: `S` is the abstract line list, `dec` its decoding to printed lines. -/
theorem refine_add (d : Dev) (n : Name) (S : List NA.Acl.Line) (dec : NA.Acl.Line → RLine) (p : Nat) (l : NA.Acl.Line)
    (S' : List NA.Acl.Line) (hS : linesOf d n = S.map dec) (hSne : S ≠ [])
    (hx : NA.Acl.asaExec1 S (.add p l) = some S')
    (hg : ∀ g ∈ (dec l).names, hasGroup d g = true)
    (hcode : ∀ x ∈ S, ((dec x).mkey == (dec l).mkey) = (x.mkey == l.mkey)) :
    ∃ d', exec1 d (.acl n (some (p + 1)) (dec l)) = .ok d' ∧ linesOf d' n = S'.map dec ∧ OnlyAcl d d' n := by
  simp only [NA.Acl.asaExec1] at hx
  split at hx
  · rename_i hc
    simp only [Bool.and_eq_true, decide_eq_true_eq, Bool.not_eq_true'] at hc
    simp only [Option.some.injEq] at hx
    have hdup : (linesOf d n).any (fun x => x.mkey == (dec l).mkey) = false := by
      rw [hS, List.any_map]
      rw [← hc.2]
      have : ∀ (T : List NA.Acl.Line), (∀ x ∈ T, x ∈ S) →
          T.any ((fun x => x.mkey == (dec l).mkey) ∘ dec) = T.any (fun x => x.mkey == l.mkey) := by
        intro T
        induction T with
        | nil => intro _; rfl
        | cons t ts ih =>
          intro hT
          simp only [List.any_cons, Function.comp]
          rw [hcode t (hT t List.mem_cons_self), ih (fun x hx => hT x (List.mem_cons_of_mem _ hx))]
      exact this S (fun _ h => h)
    have hex : hasAcl d n = true := hasAcl_of_lines (by rw [hS]; intro h; exact hSne (List.map_eq_nil_iff.mp h))
    refine ⟨_, exec1_acl_ok d n p (dec l) hg hdup (by rw [hS]; simpa using hc.1), ?_, ?_⟩
    · rw [linesOf_setAcl_self, hS, ← hx, map_insertIdx]
    · exact ⟨fun n' h' => linesOf_setAcl_ne d n n' _ _ h', rfl, rfl, rfl, rfl, rfl, keys_setAssoc_existing _ _ _ hex⟩
  · exact absurd hx (by simp)

theorem refine_del (d : Dev) (n : Name) (S : List NA.Acl.Line) (dec : NA.Acl.Line → RLine) (p : Nat) (l : NA.Acl.Line)
    (S' : List NA.Acl.Line) (hS : linesOf d n = S.map dec)
    (hx : NA.Acl.asaExec1 S (.del p l) = some S') (hne : S' ≠ []) :
    ∃ d', exec1 d (.noAcl n (p + 1) (dec l)) = .ok d' ∧ linesOf d' n = S'.map dec ∧ OnlyAcl d d' n := by
  simp only [NA.Acl.asaExec1] at hx
  split at hx
  · rename_i hc
    simp only [Option.some.injEq] at hx
    have hl : (linesOf d n)[p]? = some (dec l) := by
      rw [hS, List.getElem?_map]
      have : S[p]? = some l := by simpa using hc
      rw [this]; rfl
    have hne' : (linesOf d n).eraseIdx p ≠ [] := by
      rw [hS, ← map_eraseIdx, hx]
      intro h; exact hne (List.map_eq_nil_iff.mp h)
    have hl'' : ∃ x xs, linesOf d n = x :: xs := by
      cases hh : linesOf d n with
      | nil => rw [hh] at hl; simp at hl
      | cons x xs => exact ⟨x, xs, rfl⟩
    obtain ⟨x0, xs0, hl''⟩ := hl''
    have hex : hasAcl d n = true := hasAcl_of_lines (by rw [hl'']; simp)
    refine ⟨_, exec1_noAcl_ok d n p (dec l) hl hne', ?_, ?_⟩
    · rw [linesOf_setAcl_self, hS, ← map_eraseIdx, hx]
    · exact ⟨fun n' h' => linesOf_setAcl_ne d n n' _ _ h', rfl, rfl, rfl, rfl, rfl, keys_setAssoc_existing _ _ _ hex⟩
  · exact absurd hx (by simp)

theorem asaExec1_move_split (S S' : List NA.Acl.Line) (dp ap : Nat) (a b : NA.Acl.Line)
    (hx : NA.Acl.asaExec1 S (.move dp a ap b) = some S') :
    NA.Acl.asaExec1 S (.del dp a) = some (S.eraseIdx dp) ∧ NA.Acl.asaExec1 (S.eraseIdx dp) (.add ap b) = some S' := by
  simp only [NA.Acl.asaExec1] at hx ⊢
  split at hx
  · rename_i hc
    simp only [hc, if_true, true_and]
    exact hx
  · exact absurd hx (by simp)

theorem mem_of_mem_eraseIdx {α : Type} {x : α} : ∀ {l : List α} {i : Nat}, x ∈ l.eraseIdx i → x ∈ l := by
  intro l i h
  exact (List.eraseIdx_sublist l i).subset h

theorem refine_move (d : Dev) (n : Name) (S : List NA.Acl.Line) (dec : NA.Acl.Line → RLine) (dp ap : Nat)
    (a b : NA.Acl.Line) (S' : List NA.Acl.Line) (hS : linesOf d n = S.map dec)
    (hx : NA.Acl.asaExec1 S (.move dp a ap b) = some S') (hne : S.eraseIdx dp ≠ [])
    (hg : ∀ g ∈ (dec b).names, hasGroup d g = true)
    (hcode : ∀ x ∈ S, ((dec x).mkey == (dec b).mkey) = (x.mkey == b.mkey)) :
    ∃ d', exec1 d (.join (.noAcl n (dp + 1) (dec a)) (.acl n (some (ap + 1)) (dec b))) = .ok d' ∧
      linesOf d' n = S'.map dec ∧ OnlyAcl d d' n := by
  obtain ⟨h1, h2⟩ := asaExec1_move_split S S' dp ap a b hx
  obtain ⟨d1, e1, l1, o1⟩ := refine_del d n S dec dp a _ hS h1 hne
  have hg1 : ∀ g ∈ (dec b).names, hasGroup d1 g = true := fun g hgm => by
    have : hasGroup d1 g = hasGroup d g := by simp [hasGroup, o1.groups]
    rw [this]; exact hg g hgm
  obtain ⟨d2, e2, l2, o2⟩ := refine_add d1 n _ dec ap b S' l1 hne h2 hg1
    (fun x hxm => hcode x (mem_of_mem_eraseIdx hxm))
  have ej : exec1 d (.join (.noAcl n (dp + 1) (dec a)) (.acl n (some (ap + 1)) (dec b))) = .ok d2 := by
    show (match exec1 d (.noAcl n (dp + 1) (dec a)) with
      | .ok d' => exec1 d' (.acl n (some (ap + 1)) (dec b))
      | .error e => .error e) = .ok d2
    rw [e1]; exact e2
  refine ⟨d2, ej, l2, ?_⟩
  exact ⟨fun n' h' => (o2.others n' h').trans (o1.others n' h'), o2.groups.trans o1.groups,
    o2.binds.trans o1.binds, o2.routes.trans o1.routes, o2.intfs.trans o1.intfs, o2.mode, o2.keys.trans o1.keys⟩

end NA.F1
