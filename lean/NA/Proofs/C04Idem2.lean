import NA.Proofs.C04Idem
/-!
Helper lemmas for C04 (idempotence), part 2: on a manager that is equivalent to the target
(`Converged`, `ServicesConverged`, `NoLeftoverGroup`) the whole plan is empty.
-/
namespace NA.Nsx

theorem distinctContent_iff (gs : List Group) : distinctContent gs = true → DistinctContent gs := by
  intro h g1 h1 g2 h2 hm
  unfold distinctContent at h
  rw [List.all_eq_true] at h
  have := h g1 h1
  rw [List.all_eq_true] at this
  have := this g2 h2
  simp only [Bool.or_eq_true, beq_iff_eq, Bool.not_eq_eq_eq_not, Bool.not_true, Bool.and_eq_false_iff,
    List.all_eq_false, List.contains_eq_mem, decide_eq_true_eq] at this
  rcases this with e | ⟨x, hx, hn⟩ | ⟨x, hx, hn⟩
  · exact e
  · exact absurd ((hm x).mp hx) (by simpa using hn)
  · exact absurd ((hm x).mpr hx) (by simpa using hn)

def RulesCompact (C : Config) : Prop :=
  ∀ p ∈ C.policies, ∀ r ∈ p.rules, compactJSON r.attrs.svcEntries = r.attrs.svcEntries

theorem rulesCompact_iff (C : Config) : rulesCompact C = true ↔ RulesCompact C := by
  unfold rulesCompact RulesCompact
  simp only [List.all_eq_true, beq_iff_eq]

theorem compactAttrs_of_compact {a : Attrs} (h : compactJSON a.svcEntries = a.svcEntries) : compactAttrs a = a := by
  unfold compactAttrs; rw [h]

theorem findGroupLast_sorted {S : Store} (hS : StoreFacts S) {n : String} {g : Group}
    (hf : findGroup S.groups n = some g) (hm : managed n = true) :
    findGroupLast (sortGroups (load S).groups) n = some { g with addrs := sortAddrs g.addrs } := by
  obtain ⟨hgm, hgid⟩ := findGroup_some hf
  have hin : ({ g with addrs := sortAddrs g.addrs } : Group) ∈ (sortGroups (load S).groups).reverse := by
    rw [List.mem_reverse]
    unfold sortGroups
    exact List.mem_map.mpr ⟨g, List.mem_filter.mpr ⟨hgm, by rw [hgid]; exact hm⟩, rfl⟩
  have hnd : (gids (sortGroups (load S).groups).reverse).Nodup := by
    have : gids (sortGroups (load S).groups).reverse = (gids (sortGroups (load S).groups)).reverse := by
      simp [gids]
    rw [this, (List.reverse_perm _).nodup_iff, gids_sortGroups]
    exact (List.Sublist.map _ List.filter_sublist).nodup hS.grp_nodup
  have := findGroup_mem_nodup hnd hin
  unfold findGroupLast
  rw [← hgid]
  exact this

/-- An entry equivalent in the sense of the specification has the same sort key. -/
theorem epkey_of_epequiv {diff : Diff} {S : Store} {T : Config} {ctx : Ctx} (hcf : CtxFacts diff S T ctx)
    (hS : StoreFacts S) (hT : TargetFacts T) {pS pB : String} (h : EPEquiv S.groups T.groups pS pB)
    (hdef : ∀ x, groupRef pB = some x → managed x = true → x ∈ gids T.groups) :
    epKey ctx.gma pS = epKey ctx.gmb pB := by
  unfold EPEquiv at h
  cases htg : targetGroup T.groups pB with
  | some gt =>
    simp only [htg] at h
    obtain ⟨n, g, hp, hmn, hfg, hmem⟩ := h
    -- the target side
    unfold targetGroup at htg
    cases hr : groupRef pB with
    | none => simp [hr] at htg
    | some x =>
      simp only [hr] at htg
      cases hmx : managed x with
      | false => simp [hmx] at htg
      | true =>
        simp only [hmx, if_true] at htg
        unfold findGroupLast at htg
        obtain ⟨hgtm, hgtid⟩ := findGroup_some htg
        have hgtm' : gt ∈ T.groups := List.mem_reverse.mp hgtm
        obtain ⟨gb, hgb⟩ := hcf.b_dom x (hgtid ▸ mem_gids hgtm')
        obtain ⟨gt', hgt', hid', hsorted⟩ := hcf.b_sorted x gb hgb
        have : gt' = gt := eq_of_gid_eq hT.grp_nodup hgt' hgtm' (by rw [hid', hgtid])
        subst this
        have hB : ctx.gmb pB = some gb := by unfold Ctx.gmb; rw [hr]; exact hgb
        have hA : ctx.gma pS = some { g with addrs := sortAddrs g.addrs } := by
          unfold Ctx.gma
          rw [hp, groupRef_groupPath, hcf.a_eq]
          exact findGroupLast_sorted hS hfg hmn
        unfold epKey
        rw [hA, hB]
        simp only [hsorted]
        congr 1
        exact sortAddrs_eq_of_mem (hS.addrs g (findGroup_some hfg).1) (hT.grp gt' hgt').2 hmem
  | none =>
    simp only [htg] at h
    subst h
    have hB : ctx.gmb pS = none := by
      cases hb : ctx.gmb pS with
      | none => rfl
      | some gb =>
        exfalso
        obtain ⟨k, hk, hl⟩ := gmb_some hb
        obtain ⟨gt, hgt, hid, _, _, hmk⟩ := hcf.b_of k gb hl
        unfold targetGroup at htg
        rw [hk] at htg
        simp only [hmk, if_true] at htg
        exact absurd (hid ▸ mem_gids hgt) (findGroupLast_none.mp htg)
    have hA : ctx.gma pS = none := by
      cases ha : ctx.gma pS with
      | none => rfl
      | some ga =>
        exfalso
        unfold Ctx.gma at ha
        cases hr : groupRef pS with
        | none => simp [hr] at ha
        | some x =>
          simp only [hr] at ha
          have hx : x ∈ gids ctx.aGroups := by
            unfold findGroupLast at ha
            have := mem_gids_of_find ha
            simpa [gids] using this
          rw [hcf.a_eq, gids_sortGroups] at hx
          have hmx := (gids_filter_managed.mp hx).2
          have := hdef x hr hmx
          unfold targetGroup at htg
          rw [hr] at htg
          simp only [hmx, if_true] at htg
          exact absurd this (findGroupLast_none.mp htg)
    unfold epKey
    rw [hA, hB]


theorem forall2_map_eq {α β γ : Type} {R : α → β → Prop} {f : α → γ} {g : β → γ} (h : ∀ a b, R a b → f a = g b)
    {l : List α} {m : List β} (hf : Forall2 R l m) : l.map f = m.map g := by
  induction hf with
  | nil => rfl
  | cons hab _ ih => simp only [List.map_cons, h _ _ hab, ih]

theorem Forall2.mem_right {α β : Type} {R : α → β → Prop} {l : List α} {m : List β} (h : Forall2 R l m) :
    Forall2 (fun a b => R a b ∧ a ∈ l ∧ b ∈ m) l m := by
  induction h with
  | nil => exact .nil
  | cons hab _ ih =>
    exact .cons ⟨hab, List.mem_cons_self, List.mem_cons_self⟩
      (ih.imp fun a b ⟨h1, h2, h3⟩ => ⟨h1, List.mem_cons_of_mem _ h2, List.mem_cons_of_mem _ h3⟩)

/-- **Equivalent ⇒ unchanged.**  On a manager that is equivalent to the target and carries no
left-overs the plan is empty, provided inline service entries are compact on both sides, no two
target groups and no two managed groups have the same content, and the edit-script function is the
identity on equal lists. -/
theorem plan_unchanged {diff : Diff} (hid : IdOnEqual diff) {S : Store} {T : Config} (hS : StoreFacts S)
    (hT : TargetFacts T) (hconv : Converged S T) (hsvc : ServicesConverged S T) (hgrp : NoLeftoverGroup S T)
    (hcS : RulesCompact (load S)) (hcT : RulesCompact T) (hdT : DistinctContent T.groups)
    (hdS : DistinctContent (load S).groups) (hab : (plan diff (load S) T).abort = none) :
    (plan diff (load S) T).calls = [] := by
  obtain ⟨ctx, hmk⟩ := plan_abort_none_ctx hab
  rw [plan_eq hmk] at hab ⊢
  simp only at hab ⊢
  have hcf := ctxFacts_of (diff := diff) hS hT hmk
  have hloadP : (load S).policies = S.policies.filter (managed ·.id) := rfl
  have hloadG : (load S).groups = S.groups.filter (managed ·.id) := rfl
  have hloadSv : (load S).services = S.services.filter (managed ·.id) := rfl
  -- the context of this run
  have hc : Ctx2OK ctx := by
    refine ⟨by rw [hcf.diff_eq]; exact hid, ?_, ?_⟩
    · intro n n' ga ga' h1 h2 he
      have hof : ∀ m gx, findGroupLast ctx.aGroups m = some gx →
          ∃ g ∈ (load S).groups, g.id = m ∧ gx.addrs = sortAddrs g.addrs := by
        intro m gx h
        have hid' := findGroupLast_id h
        unfold findGroupLast at h
        have hm := List.mem_reverse.mp (findGroup_some h).1
        rw [hcf.a_eq] at hm
        obtain ⟨g, hg, e⟩ := mem_sortGroups hm
        exact ⟨g, hg, by rw [← hid', e], by rw [e]⟩
      obtain ⟨g, hg, hgid, hga⟩ := hof n ga h1
      obtain ⟨g', hg', hgid', hga'⟩ := hof n' ga' h2
      have := hdS g hg g' hg' (fun x => by
        rw [← (sortAddrs_perm g.addrs).mem_iff, ← (sortAddrs_perm g'.addrs).mem_iff, ← hga, ← hga', he])
      rw [← hgid, ← hgid', this]
    · intro k k' gb gb' h1 h2 he
      obtain ⟨gt, hgt, hk, hs1⟩ := hcf.b_sorted k gb h1
      obtain ⟨gt', hgt', hk', hs2⟩ := hcf.b_sorted k' gb' h2
      have := hdT gt hgt gt' hgt' (fun x => by
        rw [← (sortAddrs_perm gt.addrs).mem_iff, ← (sortAddrs_perm gt'.addrs).mem_iff, ← hs1, ← hs2, he])
      rw [← hk, ← hk', this]
  -- every managed policy is aligned with its target policy
  have hal : ∀ pa ∈ (load S).policies, PolAligned ctx T pa := by
    intro pa hpa
    obtain ⟨hpaS, hpam⟩ := List.mem_filter.mp hpa
    obtain ⟨pb, hpb, hpbid⟩ := hconv.2 pa hpaS hpam
    obtain ⟨p, L, hfp, hperm, hf⟩ := hconv.1 pb hpb
    have : p = pa := by
      have h1 := findPolicy_mem_nodup hS.pol_nodup hpaS
      rw [← hpbid, hfp] at h1
      exact Option.some.inj h1
    subst this
    have hfl : findPolicyLast T.policies p.id = some pb := by
      unfold findPolicyLast
      have hnd : (pids T.policies.reverse).Nodup := by
        have : pids T.policies.reverse = (pids T.policies).reverse := by simp [pids]
        rw [this, (List.reverse_perm _).nodup_iff]; exact hT.pol_nodup
      rw [← hpbid]
      exact findPolicy_mem_nodup hnd (List.mem_reverse.mpr hpb)
    refine ⟨pb, hfl, (hT.rules pb hpb).1, ?_⟩
    have hkeys : L.map (ruleKey ctx.gma) = pb.rules.map (ruleKey ctx.gmb) := by
      refine forall2_map_eq ?_ hf.mem_right
      rintro r rb ⟨⟨ha, hsv, hsrc, hdst⟩, hrL, hrb⟩
      obtain ⟨d1, d2, _⟩ := refsDefined_ep ((hT.rules pb hpb).2 rb hrb)
      have hr : r ∈ p.rules := hperm.mem_iff.mpr hrL
      have hattrs : r.attrs = rb.attrs := by
        rw [← compactAttrs_of_compact (hcS p hpa r hr), ← compactAttrs_of_compact (hcT pb hpb rb hrb)]
        exact ha
      unfold ruleKey
      rw [hattrs, hsv, epkey_of_epequiv hcf hS hT hsrc d1, epkey_of_epequiv hcf hS hT hdst d2]
    rw [← hkeys]
    exact hperm.map _
  -- 1. services
  have hsvcNone : (planServices (load S).services T.services).1 = [] := by
    unfold planServices
    apply planSvc_noop
    intro id _ hin
    obtain ⟨t, ht, hte⟩ := List.mem_map.mp hin
    have h1 := hsvc.1 t ht
    have hte' : t.id = id := hte
    rw [hte'] at h1
    cases hfS : findService S.services id with
    | none =>
      rw [hfS] at h1
      cases hfT : findService T.services id with
      | none => exact absurd hin (findService_none_iff.mp hfT)
      | some t' => rw [hfT] at h1; cases h1
    | some s =>
      obtain ⟨hsm, hsid⟩ := findService_some hfS
      have hman : managed s.id = true := by rw [hsid, ← hte']; exact hT.svc t ht
      have hsin : s ∈ (load S).services.reverse :=
        List.mem_reverse.mpr (List.mem_filter.mpr ⟨hsm, hman⟩)
      have hnd : (sids (load S).services.reverse).Nodup := by
        have : sids (load S).services.reverse = (sids (load S).services).reverse := by simp [sids]
        rw [this, (List.reverse_perm _).nodup_iff]
        exact (List.Sublist.map _ List.filter_sublist).nodup hS.svc_nodup
      refine ⟨s, by rw [← hsid]; exact findService_mem_nodup hnd hsin, ?_⟩
      rw [hfS] at h1
      simpa using h1
  -- 2. device policies
  have habA : (overA ctx T (load S).policies {}).1.abort = none := by rw [overB_abort] at hab; exact hab
  obtain ⟨eA, iA, _, nA⟩ := overA_noop hc T (load S).policies {} (inv2_init ctx) hal habA
  -- 3. target policies: all present
  have hB : overB ctx (load S) T.policies (overA ctx T (load S).policies {}).1 =
      ((overA ctx T (load S).policies {}).1, []) := by
    apply overB_skip
    intro pb hpb
    obtain ⟨p, _, hfp, _, _⟩ := hconv.1 pb hpb
    obtain ⟨hpm, hpid⟩ := findPolicy_some hfp
    rw [any_id_iff, hloadP, pids_filter_managed]
    exact ⟨hpid ▸ List.mem_map_of_mem (f := (·.id)) hpm, hT.pol_managed pb hpb⟩
  rw [hB] at hab ⊢
  simp only
  -- 4. nothing to delete
  have hdelS : ((load S).services.filter (!(planServices (load S).services T.services).2.contains ·.id)) = [] := by
    rw [List.filter_eq_nil_iff]
    intro s hs
    obtain ⟨hsm, hman⟩ := List.mem_filter.mp hs
    obtain ⟨t, ht, hte⟩ := hsvc.2 s hsm hman
    have : s.id ∈ (planServices (load S).services T.services).2 := by
      unfold planServices
      rw [planSvc_needed]
      refine ⟨hte ▸ List.mem_map_of_mem (f := (·.id)) ht, by simp, ?_⟩
      cases hf : findService (load S).services.reverse s.id with
      | some _ => rfl
      | none =>
        rw [findService_reverse_none] at hf
        exact absurd (List.mem_map_of_mem (f := (·.id)) hs) hf
    simpa using this
  have hdelG : ((load S).groups.filter (!(overA ctx T (load S).policies {}).1.needed.contains ·.id)) = [] := by
    rw [List.filter_eq_nil_iff]
    intro g hg
    obtain ⟨hgm, hman⟩ := List.mem_filter.mp hg
    obtain ⟨p, hp, ⟨pb, hpb, hpbid⟩, r, hr, huse⟩ := hgrp g hgm hman
    have hpl : p ∈ (load S).policies :=
      List.mem_filter.mpr ⟨hp, by rw [← hpbid]; exact hT.pol_managed pb hpb⟩
    have hneed := nA p hpl r hr
    have hga : ctx.gma (groupPath g.id) = some { g with addrs := sortAddrs g.addrs } := by
      unfold Ctx.gma
      rw [groupRef_groupPath, hcf.a_eq]
      exact findGroupLast_sorted hS (findGroup_mem_nodup hS.grp_nodup hgm) hman
    have : g.id ∈ (overA ctx T (load S).policies {}).1.needed := by
      unfold ruleUsesGroup at huse
      rcases Bool.or_eq_true_iff.mp huse with e | e
      · have e' : r.src = groupPath g.id := by simpa using e
        exact hneed.1 { g with addrs := sortAddrs g.addrs } (by rw [e']; exact hga)
      · have e' : r.dst = groupPath g.id := by simpa using e
        exact hneed.2 { g with addrs := sortAddrs g.addrs } (by rw [e']; exact hga)
    simpa using this
  rw [hsvcNone, eA, hdelS, hdelG]
  rfl


theorem allCompact_iff (S : Store) : AllCompact S ↔ RulesCompact (load S) := by
  unfold AllCompact RulesCompact Rule.compact
  constructor
  · intro h p hp r hr
    obtain ⟨h1, h2⟩ := List.mem_filter.mp hp
    exact h p h1 h2 r hr
  · intro h p hp hm r hr
    exact h p (List.mem_filter.mpr ⟨hp, hm⟩) r hr

/-- **Idempotence.**  Execute the plan on the strict manager, plan again: no call. -/
theorem plan_idempotent {diff : Diff} (hdiff : ∀ n m eq, validScript n m eq (diff n m eq) = true)
    (hid : IdOnEqual diff) {S : Store} {T : Config} (hacc : accepted S T = true) (hidem : idemOK S T = true)
    (hab : (plan diff (load S) T).abort = none) :
    ∃ S', run S (plan diff (load S) T).calls = some S' ∧
      ((plan diff (load S') T).abort = none → (plan diff (load S') T).calls = []) := by
  have hacc0 := hacc
  unfold accepted at hacc
  simp only [Bool.and_eq_true] at hacc
  obtain ⟨⟨⟨⟨⟨h1, h2⟩, h3⟩, h4⟩, h5⟩, h6⟩ := hacc
  unfold idemOK at hidem
  simp only [Bool.and_eq_true] at hidem
  obtain ⟨⟨i1, i2⟩, i3⟩ := hidem
  have hS := storeFacts_of h1 h2
  have hT := targetFacts_of h3 h4
  obtain ⟨S', hrun, hconv, hsvc, hgrp, hdist⟩ := plan_converges hdiff hS hT h5 h6 hab
  refine ⟨S', hrun, fun hab2 => ?_⟩
  have hk : run S ((plan diff (load S) T).calls.take (plan diff (load S) T).calls.length) = some S' := by
    rw [List.take_length]; exact hrun
  have hacc' := prefix_accepted hdiff hacc0 _ hk
  unfold accepted at hacc'
  simp only [Bool.and_eq_true] at hacc'
  obtain ⟨⟨⟨⟨⟨h1', h2'⟩, _⟩, _⟩, _⟩, _⟩ := hacc'
  have hS' := storeFacts_of h1' h2'
  have hcomp : AllCompact S' :=
    run_compact _ S S' ((allCompact_iff S).mpr ((rulesCompact_iff _).mp i1)) (plan_aok hdiff hS hT) hrun
  have hdT := distinctContent_iff _ i3
  exact plan_unchanged hid hS' hT hconv hsvc hgrp ((allCompact_iff S').mp hcomp) ((rulesCompact_iff _).mp i2) hdT
    (hdist hdT) hab2


/-! ### The reference script function of the examples is the identity on equal lists -/

theorem commonPrefix_all (eq : Nat → Nat → Bool) (n : Nat) (h : ∀ j, j < n → eq j j = true) :
    ∀ (f i : Nat), i ≤ n → commonPrefix eq n n f i = min (i + f) n := by
  intro f
  induction f with
  | zero => intro i hi; simp [commonPrefix]; omega
  | succ f ih =>
    intro i hi
    unfold commonPrefix
    by_cases hlt : i < n
    · simp only [hlt, h i hlt, and_self, if_true]
      rw [ih (i + 1) (by omega)]; omega
    · simp only [hlt, false_and, if_false]; omega

theorem prefixDiff_idOnEqual : IdOnEqual prefixDiff := by
  intro n eq h
  unfold prefixDiff
  have hk : commonPrefix eq n n (min n n) 0 = n := by rw [commonPrefix_all eq n h _ 0 (by omega)]; omega
  simp only [hk, Nat.lt_irrefl, if_false, List.append_nil]
  by_cases hn : n = 0
  · right; exact ⟨hn, by simp [hn]⟩
  · left; simp [hn]

end NA.Nsx
