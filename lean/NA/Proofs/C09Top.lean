import NA.Proofs.C09HttpRun
/-!
# C09: consequences of the invariant for the whole run (exit status, status file, history)
-/
namespace NA.C09
open NA.Sess NA.Apply NA.Spec.C09

theorem J_init (bad : Role → Reply → Bool) : J bad ({} : St) :=
  ⟨rfl, fun _ => rfl, fun _ => rfl, fun _ h => by cases h⟩

/-- **The invariant holds at the end of every run**, for every backend, every device
(`env.dev` is an arbitrary function of the history), every change script, every fuel. -/
theorem run_inv (b : Backend) (env : Env) : J (badChecked b) (runProg b env) := by
  unfold runProg
  cases b with
  | asa => exact (presV_run_asa).pres _ env _ (J_init _)
  | ios => exact (presV_run_ios).pres _ env _ (J_init _)
  | linux => exact (presV_run_linux).pres _ env _ (J_init _)
  | panos => exact pres_run_panos env _ (J_init _)
  | nsx => exact pres_run_nsx env _ (J_init _)

/-- a run that ends by `return` (not by abort) returns 0, i.e. without a pending error -/
theorem exec_scope (c : String) (body : Sess) (env : Env) (s : St) : exec (.scope c body) env s = exec body env s := by
  simp [exec]

theorem run_ret_errv (b : Backend) (env : Env) (h : (runProg b env).mode = .ret) : (runProg b env).errv = false := by
  unfold runProg approveOrCompareBody at *
  rw [exec_seq, exec_op, exec_seq, exec_scope, exec_seq, exec_op, exec_seq, exec_op, exec_seq, exec_seq] at h
  rw [exec_seq, exec_op, exec_seq, exec_scope, exec_seq, exec_op, exec_seq, exec_op, exec_seq, exec_seq]
  generalize hX : exec (.ite .isCompare "$p1" (.call "compare" ["_"] (compareBody b))
      (.call "approve" ["_"] (approveBody b))) env ({} : St) = sX at h ⊢
  have hXr : sX.mode ≠ .ret := by
    rw [← hX]
    exact noRet_mode _ rfl env _ (by simp)
  generalize hY : exec (.call "CloseConnection" [] b.closeConnectionBody) env sX = sY at h ⊢
  have hYr : sY.mode ≠ .ret := by
    rw [← hY]
    exact noRet_mode _ rfl env _ hXr
  by_cases hm : sY.mode = .run
  · cases he : sY.errv with
    | true => simp [exec, hm, evalCond, he] at h
    | false => simp [exec, hm, evalCond, he]
  · rw [exec_nonrun _ _ _ hm, exec_nonrun _ _ _ hm] at h
    exact absurd h hYr

/-- **exit_nonzero**: after a failure the code inspects, the run does not end normally -/
theorem exit_of_faulted (b : Backend) (env : Env) (hf : faulted (badChecked b) (runProg b env).tr = true) :
    (runProg b env).mode = .panic ∨ (runProg b env).mode = .diverge := by
  have hj := run_inv b env
  cases hm : (runProg b env).mode with
  | run => have := hj.run hm; rw [hf] at this; cases this
  | cont => have := hj.cont hm; rw [hf] at this; cases this
  | ret =>
    have h1 := hj.ret hm hf
    rw [run_ret_errv b env hm] at h1; cases h1
  | panic => exact Or.inl rfl
  | diverge => exact Or.inr rfl

/-! ## what `doapprove.Main` makes of a non-zero exit status -/

theorem doApprove_failed_exit (isCompare : Bool) (prev : Status) (policy : String) (now : Nat) (tr : List Ev) :
    (doApprove isCompare prev policy now tr 1).exit = 1 ∧ (doApprove isCompare prev policy now tr 1).endMsg = "FAILED" := by
  simp [doApprove]

theorem doApprove_failed_approve (prev : Status) (policy : String) (now : Nat) (tr : List Ev) :
    (doApprove false prev policy now tr 1).status.approve.result = "FAILED" := by
  simp [doApprove, setApprove]

theorem doApprove_failed_compare (prev : Status) (policy : String) (now : Nat) (tr : List Ev) :
    (doApprove true prev policy now tr 1).status.compare.result = "DIFF" := by
  simp only [doApprove, setCompare]
  simp
  split
  · rfl
  · rename_i h
    simp only [not_or, Decidable.not_not] at h
    exact h.1

theorem doApprove_ok_iff (isCompare : Bool) (prev : Status) (policy : String) (now : Nat) (tr : List Ev) (stat : Nat) :
    (doApprove isCompare prev policy now tr stat).exit = 0 ↔ stat = 0 := by
  simp [doApprove]

end NA.C09
