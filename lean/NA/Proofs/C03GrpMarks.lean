import NA.Proofs.C03PlanFlags
/-
C03, whole-vsys theorems with address-groups, part 9: `markObjects` on targets with (un-nested)
address-groups: the members of every group a rule names are covered and marked like the
addresses the rules name directly; every such group is `needed`.  Core Lean only.
-/
namespace NA.PanOs

theorem mem_of_map_eq_marks {α β : Type} {l l' : List α} {f : α → β} (h : l'.map f = l.map f) {x : α} (hx : x ∈ l') :
    ∃ y ∈ l, f y = f x := by
  have : f x ∈ l.map f := by rw [← h]; exact List.mem_map_of_mem hx
  obtain ⟨y, hy, e⟩ := List.mem_map.mp this
  exact ⟨y, hy, e⟩

theorem mem_modAt_marks {α : Type} {l : List α} {i : Nat} {f : α → α} {x : α} (h : x ∈ modAt l i f) :
    x ∈ l ∨ ∃ y, l[i]? = some y ∧ x = f y := by
  obtain ⟨j, hj⟩ := List.getElem?_of_mem h
  rw [modAt_getElem?] at hj
  split at hj
  · rename_i hji
    subst hji
    cases hy : l[j]? with
    | none => simp [hy] at hj
    | some y =>
      simp only [hy, Option.map_some, Option.some.injEq] at hj
      exact Or.inr ⟨y, rfl, hj.symm⟩
  · exact Or.inl (List.mem_of_getElem? hj)

/-- Members of the target group named `g` (none if `g` is not a group). -/
def grpMembers (st : St) (g : String) : List String :=
  match st.bGrpIdx g with
  | some gi => (st.bGrp[gi]?.map (·.g.members)).getD []
  | none => []

theorem grpMembers_inv {st st' : St} (h : MarkInv st st') (g : String) : grpMembers st' g = grpMembers st g := by
  unfold grpMembers
  rw [(h.idx g).2.2]
  cases st.bGrpIdx g with
  | none => rfl
  | some gi =>
    have := congrArg (fun l => l[gi]?) h.2.2.1
    simp only [List.getElem?_map] at this
    cases h1 : st'.bGrp[gi]? <;> cases h2 : st.bGrp[gi]? <;> simp_all

/-- `m` is a member of the list, or of a group of the list. -/
def Deep (st : St) (l : List String) (m : String) : Prop := m ∈ l ∨ ∃ g ∈ l, m ∈ grpMembers st g

theorem Deep.inv {st st' : St} (h : MarkInv st st') {l : List String} {m : String} (hd : Deep st l m) :
    Deep st' l m := by
  rcases hd with h1 | ⟨g, hg, hm⟩
  · exact Or.inl h1
  · exact Or.inr ⟨g, hg, by rw [grpMembers_inv h]; exact hm⟩

theorem markAddrStep_grp (fuel : Nat) (s : St) (g : String) (gi : Nat) (hgi : s.bGrpIdx g = some gi) :
    markAddrStep fuel s g =
      markAddrs fuel { s with bGrp := modAt s.bGrp gi (fun g => { g with needed := true }) } (grpMembers s g) := by
  unfold markAddrStep grpMembers
  rw [hgi]
  simp only [modAt_getElem?, if_true]
  congr 1
  cases s.bGrp[gi]? <;> rfl

theorem markAddrStep_covers_mem (fuel : Nat) (s : St) (g m : String) (hfs : FlagSound s)
    (hm : m ∈ grpMembers s g) (hgm : s.bGrpIdx m = none) : Covered (markAddrStep (fuel + 1) s g) m := by
  cases hgi : s.bGrpIdx g with
  | none => simp [grpMembers, hgi] at hm
  | some gi =>
    rw [markAddrStep_grp (fuel + 1) s g gi hgi]
    have hfs1 : FlagSound { s with bGrp := modAt s.bGrp gi (fun g => { g with needed := true }) } := hfs
    apply markAddrs_covers fuel _ _ m hfs1 hm
    rw [((markInv_bGrp s gi (fun g => { g with needed := true }) (fun _ => rfl)).idx m).2.2]
    exact hgm

theorem markAddrs_covers_deep (fuel : Nat) : ∀ (l : List String) (st : St) (m : String), FlagSound st →
    Deep st l m → st.bGrpIdx m = none → Covered (markAddrs (fuel + 2) st l) m := by
  intro l
  induction l with
  | nil =>
    intro st m _ hd
    rcases hd with h | ⟨g, hg, _⟩
    · cases h
    · cases hg
  | cons y ys ih =>
    intro st m hfs hd hg
    rw [markAddrs_succ, List.foldl_cons, ← markAddrs_succ]
    have hinv := markAddrStep_inv (fuel + 1) st y
    obtain ⟨hfs', hmono⟩ := markAddrStep_flags (fuel + 1) st y hfs
    have rest : ∀ (c : Covered (markAddrStep (fuel + 1) st y) m),
        Covered (markAddrs (fuel + 2) (markAddrStep (fuel + 1) st y) ys) m :=
      fun c => c.mono (markAddrs_inv _ _ _) (markAddrs_flags _ _ _ hfs').2
    rcases hd with h | ⟨g, hgl, hmem⟩
    · rcases List.mem_cons.mp h with rfl | h
      · exact rest (markAddrStep_covers (fuel + 1) st m hg)
      · exact ih _ m hfs' (Or.inl h) (by rw [(hinv.idx m).2.2]; exact hg)
    · rcases List.mem_cons.mp hgl with rfl | hgl
      · exact rest (markAddrStep_covers_mem fuel st g m hfs hmem hg)
      · exact ih _ m hfs' (Or.inr ⟨g, hgl, by rw [grpMembers_inv hinv]; exact hmem⟩)
          (by rw [(hinv.idx m).2.2]; exact hg)

theorem markAddrStep_marks_mem (fuel : Nat) (s : St) (g m : String)
    (hm : m ∈ grpMembers s g) (hgm : s.bGrpIdx m = none) (hb : (s.bAddrIdx m).isSome) :
    Marked (markAddrStep (fuel + 1) s g) m := by
  cases hgi : s.bGrpIdx g with
  | none => simp [grpMembers, hgi] at hm
  | some gi =>
    rw [markAddrStep_grp (fuel + 1) s g gi hgi]
    have hi := markInv_bGrp s gi (fun g => { g with needed := true }) (fun _ => rfl)
    apply markAddrs_marks fuel _ _ m hm
    · rw [(hi.idx m).2.2]; exact hgm
    · rw [(hi.idx m).2.1]; exact hb

theorem markAddrs_marks_deep (fuel : Nat) : ∀ (l : List String) (st : St) (m : String),
    Deep st l m → st.bGrpIdx m = none → (st.bAddrIdx m).isSome → Marked (markAddrs (fuel + 2) st l) m := by
  intro l
  induction l with
  | nil =>
    intro st m hd
    rcases hd with h | ⟨g, hg, _⟩
    · cases h
    · cases hg
  | cons y ys ih =>
    intro st m hd hg hb
    rw [markAddrs_succ, List.foldl_cons, ← markAddrs_succ]
    have hinv := markAddrStep_inv (fuel + 1) st y
    have rest : ∀ (c : Marked (markAddrStep (fuel + 1) st y) m),
        Marked (markAddrs (fuel + 2) (markAddrStep (fuel + 1) st y) ys) m :=
      fun c => c.mono (markAddrs_inv _ _ _)
    rcases hd with h | ⟨g, hgl, hmem⟩
    · rcases List.mem_cons.mp h with rfl | h
      · exact rest (markAddrStep_marks (fuel + 1) st m hg hb)
      · exact ih _ m (Or.inl h) (by rw [(hinv.idx m).2.2]; exact hg) (by rw [(hinv.idx m).2.1]; exact hb)
    · rcases List.mem_cons.mp hgl with rfl | hgl
      · exact rest (markAddrStep_marks_mem fuel st g m hmem hg hb)
      · exact ih _ m (Or.inr ⟨g, hgl, by rw [grpMembers_inv hinv]; exact hmem⟩)
          (by rw [(hinv.idx m).2.2]; exact hg) (by rw [(hinv.idx m).2.1]; exact hb)

/-- After `markObjects`: every address a rule names in source or destination, directly or as a
member of a group it names, is covered and (if the device has it) marked. -/
theorem markObjects_deep (fuel : Nat) : ∀ (rules : List Rule) (st : St), FlagSound st →
    ∀ (r : Rule) (m : String), r ∈ rules → (Deep st r.src m ∨ Deep st r.dst m) → st.bGrpIdx m = none →
      Covered (markObjects (fuel + 2) st rules) m ∧
      ((st.bAddrIdx m).isSome → Marked (markObjects (fuel + 2) st rules) m) := by
  intro rules
  induction rules with
  | nil => intro st _ r m hr; cases hr
  | cons r0 rs ih =>
    intro st hfs r m hr hx hg
    unfold markObjects at ih ⊢
    simp only [List.foldl_cons]
    obtain ⟨f1, m1⟩ := markAddrs_flags (fuel + 2) st r0.src hfs
    obtain ⟨f2, m2⟩ := markAddrs_flags (fuel + 2) _ r0.dst f1
    have f3 := markSrvs_flagSound (fuel + 2) _ r0.srv f2
    have m3 := markSrvs_bmono (fuel + 2) (markAddrs (fuel + 2) (markAddrs (fuel + 2) st r0.src) r0.dst) r0.srv
    have i1 := markAddrs_inv (fuel + 2) st r0.src
    have i2 := markAddrs_inv (fuel + 2) (markAddrs (fuel + 2) st r0.src) r0.dst
    have i3 := markSrvs_inv (fuel + 2) (markAddrs (fuel + 2) (markAddrs (fuel + 2) st r0.src) r0.dst) r0.srv
    have hall := (i1.trans i2).trans i3
    have irest : MarkInv (markSrvs (fuel + 2) (markAddrs (fuel + 2) (markAddrs (fuel + 2) st r0.src) r0.dst) r0.srv)
        (rs.foldl (fun st r => markSrvs (fuel + 2) (markAddrs (fuel + 2) (markAddrs (fuel + 2) st r.src) r.dst) r.srv)
          (markSrvs (fuel + 2) (markAddrs (fuel + 2) (markAddrs (fuel + 2) st r0.src) r0.dst) r0.srv)) :=
      markObjects_inv (fuel + 2) _ rs
    obtain ⟨_, g2, _⟩ := markObjects_flags (fuel + 1) rs _ f3
    unfold markObjects at g2
    rcases List.mem_cons.mp hr with rfl | hr
    · rcases hx with hx | hx
      · constructor
        · exact ((markAddrs_covers_deep fuel _ st m hfs hx hg).mono (i2.trans i3) (m2.trans m3)).mono irest g2
        · intro hb
          exact ((markAddrs_marks_deep fuel _ st m hx hg hb).mono (i2.trans i3)).mono irest
      · constructor
        · exact ((markAddrs_covers_deep fuel _ _ m f1 (hx.inv i1) (by rw [(i1.idx m).2.2]; exact hg)).mono i3 m3).mono
            irest g2
        · intro hb
          exact ((markAddrs_marks_deep fuel _ _ m (hx.inv i1) (by rw [(i1.idx m).2.2]; exact hg)
            (by rw [(i1.idx m).2.1]; exact hb)).mono i3).mono irest
    · have hx' : Deep (markSrvs (fuel + 2) (markAddrs (fuel + 2) (markAddrs (fuel + 2) st r0.src) r0.dst) r0.srv) r.src m ∨
          Deep (markSrvs (fuel + 2) (markAddrs (fuel + 2) (markAddrs (fuel + 2) st r0.src) r0.dst) r0.srv) r.dst m := by
        rcases hx with hx | hx
        · exact Or.inl (hx.inv hall)
        · exact Or.inr (hx.inv hall)
      obtain ⟨c1, c2⟩ := ih _ f3 r m hr hx' (by rw [(hall.idx m).2.2]; exact hg)
      exact ⟨c1, fun hb => c2 (by rw [(hall.idx m).2.1]; exact hb)⟩

/-! ### Flags of the groups -/

/-- `markObjects` only raises `needed` of target groups. -/
structure GMark (st st' : St) : Prop where
  ag : st'.aGrp = st.aGrp
  bg : st'.bGrp.map (fun g => (g.g, g.newName, g.onDev)) = st.bGrp.map (fun g => (g.g, g.newName, g.onDev))
  up : ∀ (i : Nat) (gb gb' : BGrp), st.bGrp[i]? = some gb → st'.bGrp[i]? = some gb' → gb.needed = true → gb'.needed = true

theorem GMark.refl (st : St) : GMark st st :=
  ⟨rfl, rfl, fun _ _ _ h h' hn => by rw [h] at h'; cases h'; exact hn⟩

theorem GMark.get {st st' : St} (h : GMark st st') {i : Nat} {gb : BGrp} (hi : st.bGrp[i]? = some gb) :
    ∃ gb', st'.bGrp[i]? = some gb' ∧ gb'.g = gb.g ∧ gb'.newName = gb.newName ∧ gb'.onDev = gb.onDev := by
  have := congrArg (fun l => l[i]?) h.bg
  simp only [List.getElem?_map, hi, Option.map_some] at this
  cases hx : st'.bGrp[i]? with
  | none => simp [hx] at this
  | some gb' =>
    simp only [hx, Option.map_some, Option.some.injEq, Prod.mk.injEq] at this
    exact ⟨gb', rfl, this.1, this.2.1, this.2.2⟩

theorem GMark.trans {a b c : St} (h₁ : GMark a b) (h₂ : GMark b c) : GMark a c := by
  refine ⟨h₂.ag.trans h₁.ag, h₂.bg.trans h₁.bg, ?_⟩
  intro i gb gb'' hi hi'' hn
  obtain ⟨gb', hi', _⟩ := h₁.get hi
  exact h₂.up i gb' gb'' hi' hi'' (h₁.up i gb gb' hi hi' hn)

theorem GMark.of_eq {st st' : St} (h1 : st'.aGrp = st.aGrp) (h2 : st'.bGrp = st.bGrp) : GMark st st' :=
  ⟨h1, by rw [h2], fun _ _ _ h h' hn => by rw [h2, h] at h'; cases h'; exact hn⟩

theorem GMark.setNeeded (st : St) (gi : Nat) :
    GMark st { st with bGrp := modAt st.bGrp gi (fun g => { g with needed := true }) } := by
  refine ⟨rfl, modAt_map st.bGrp gi _ (fun g => (g.g, g.newName, g.onDev)) (fun _ => rfl), ?_⟩
  intro i gb gb' hi hi' hn
  simp only [modAt_getElem?] at hi'
  split at hi'
  · rw [hi] at hi'; simp only [Option.map_some, Option.some.injEq] at hi'; rw [← hi']
  · rw [hi] at hi'; cases hi'; exact hn

theorem markAddrs_gmark : ∀ (fuel : Nat) (st : St) (l : List String), GMark st (markAddrs fuel st l) := by
  intro fuel
  induction fuel with
  | zero => intro st l; exact GMark.refl st
  | succ fuel ih =>
    intro st l
    rw [markAddrs_succ]
    induction l generalizing st with
    | nil => exact GMark.refl st
    | cons x xs ihl =>
      simp only [List.foldl_cons]
      refine GMark.trans ?_ (ihl _)
      unfold markAddrStep
      split
      · rename_i gi _
        exact (GMark.setNeeded st gi).trans (ih _ _)
      · split
        · exact GMark.refl st
        · split
          · dsimp only
            split
            · exact GMark.of_eq rfl rfl
            · exact GMark.of_eq rfl rfl
          · exact GMark.of_eq rfl rfl

theorem markSrvs_gmark (fuel : Nat) (st : St) (l : List String) : GMark st (markSrvs fuel st l) :=
  GMark.of_eq (markSrvs_aGrp fuel st l) (markSrvs_addr fuel st l).2.2

theorem markObjects_gmark (fuel : Nat) : ∀ (rules : List Rule) (st : St), GMark st (markObjects fuel st rules) := by
  intro rules
  induction rules with
  | nil => intro st; exact GMark.refl st
  | cons r rs ih =>
    intro st
    unfold markObjects at ih ⊢
    simp only [List.foldl_cons]
    exact (((markAddrs_gmark fuel st r.src).trans (markAddrs_gmark fuel _ r.dst)).trans
      (markSrvs_gmark fuel _ r.srv)).trans (ih _)

theorem bGrp_of_idx_marks {st : St} {x : String} {gbi : Nat} (h : st.bGrpIdx x = some gbi) :
    ∃ gb, st.bGrp[gbi]? = some gb ∧ gb.g.name = x := by
  have := lastIdx_spec h
  rw [List.getElem?_map] at this
  cases hx : st.bGrp[gbi]? with
  | none => simp [hx] at this
  | some gb => exact ⟨gb, rfl, by simpa [hx] using this⟩

/-- A group named by the list is `needed` afterwards. -/
theorem markAddrs_grp_needed (fuel : Nat) : ∀ (l : List String) (st : St) (g : String) (gi : Nat), g ∈ l →
    st.bGrpIdx g = some gi → ∃ gb, (markAddrs (fuel + 1) st l).bGrp[gi]? = some gb ∧ gb.needed = true := by
  intro l
  induction l with
  | nil => intro st g gi hg; cases hg
  | cons y ys ih =>
    intro st g gi hg hgi
    rw [markAddrs_succ, List.foldl_cons, ← markAddrs_succ]
    have hinv := markAddrStep_inv fuel st y
    rcases List.mem_cons.mp hg with rfl | hg
    · rw [markAddrStep_grp fuel st g gi hgi]
      obtain ⟨gb0, hgb0, _⟩ := bGrp_of_idx_marks hgi
      have h1 : ({ st with bGrp := modAt st.bGrp gi (fun g => { g with needed := true }) } : St).bGrp[gi]? =
          some { gb0 with needed := true } := by simp [modAt_getElem?, hgb0]
      have gm := (markAddrs_gmark fuel _ (grpMembers st g)).trans
        (markAddrs_gmark (fuel + 1) (markAddrs fuel { st with bGrp := modAt st.bGrp gi (fun g => { g with needed := true }) }
          (grpMembers st g)) ys)
      obtain ⟨gb', hgb', _⟩ := gm.get h1
      exact ⟨gb', hgb', gm.up gi _ gb' h1 hgb' rfl⟩
    · exact ih _ g gi hg (by rw [(hinv.idx g).2.2]; exact hgi)

theorem GMark.get' {st st' : St} (h : GMark st st') {i : Nat} {gb' : BGrp} (hi : st'.bGrp[i]? = some gb') :
    ∃ gb, st.bGrp[i]? = some gb ∧ gb'.g = gb.g ∧ gb'.newName = gb.newName ∧ gb'.onDev = gb.onDev := by
  have := congrArg (fun l => l[i]?) h.bg
  simp only [List.getElem?_map, hi, Option.map_some] at this
  cases hx : st.bGrp[i]? with
  | none => simp [hx] at this
  | some gb =>
    simp only [hx, Option.map_some, Option.some.injEq, Prod.mk.injEq] at this
    exact ⟨gb, rfl, this.1, this.2.1, this.2.2⟩

theorem GMark.bIdx {st st' : St} (h : GMark st st') (x : String) : st'.bGrpIdx x = st.bGrpIdx x := by
  unfold St.bGrpIdx
  have := congrArg (List.map (fun p : Grp × String × String => p.1.name)) h.bg
  simp only [List.map_map, Function.comp_def] at this
  rw [this]

/-- A group a rule names in source or destination is `needed` after `markObjects`. -/
theorem markObjects_grp_needed (fuel : Nat) : ∀ (rules : List Rule) (st : St) (r : Rule) (g : String) (gi : Nat),
    r ∈ rules → (g ∈ r.src ∨ g ∈ r.dst) → st.bGrpIdx g = some gi →
    ∃ gb, (markObjects (fuel + 1) st rules).bGrp[gi]? = some gb ∧ gb.needed = true := by
  intro rules
  induction rules with
  | nil => intro st r g gi hr; cases hr
  | cons r0 rs ih =>
    intro st r g gi hr hg hgi
    unfold markObjects at ih ⊢
    simp only [List.foldl_cons]
    have g1 := markAddrs_gmark (fuel + 1) st r0.src
    have g2 := markAddrs_gmark (fuel + 1) (markAddrs (fuel + 1) st r0.src) r0.dst
    have g3 := markSrvs_gmark (fuel + 1) (markAddrs (fuel + 1) (markAddrs (fuel + 1) st r0.src) r0.dst) r0.srv
    have grest : GMark (markSrvs (fuel + 1) (markAddrs (fuel + 1) (markAddrs (fuel + 1) st r0.src) r0.dst) r0.srv)
        (rs.foldl (fun st r => markSrvs (fuel + 1) (markAddrs (fuel + 1) (markAddrs (fuel + 1) st r.src) r.dst) r.srv)
          (markSrvs (fuel + 1) (markAddrs (fuel + 1) (markAddrs (fuel + 1) st r0.src) r0.dst) r0.srv)) :=
      markObjects_gmark (fuel + 1) rs _
    rcases List.mem_cons.mp hr with rfl | hr
    · rcases hg with hg | hg
      · obtain ⟨gb, hgb, hn⟩ := markAddrs_grp_needed fuel _ st g gi hg hgi
        have gm := (g2.trans g3).trans grest
        obtain ⟨gb', hgb', _⟩ := gm.get hgb
        exact ⟨gb', hgb', gm.up gi gb gb' hgb hgb' hn⟩
      · obtain ⟨gb, hgb, hn⟩ := markAddrs_grp_needed fuel _ (markAddrs (fuel + 1) st r.src) g gi hg
          (by rw [g1.bIdx]; exact hgi)
        have gm := g3.trans grest
        obtain ⟨gb', hgb', _⟩ := gm.get hgb
        exact ⟨gb', hgb', gm.up gi gb gb' hgb hgb' hn⟩
    · exact ih _ r g gi hr hg (by rw [((g1.trans g2).trans g3).bIdx]; exact hgi)

/-! ### Where `needed` of a group comes from -/

theorem markAddrStep_plain_bGrp (fuel : Nat) (s : St) (x : String) (h : s.bGrpIdx x = none) :
    (markAddrStep fuel s x).bGrp = s.bGrp := by
  unfold markAddrStep
  rw [h]
  simp only
  split
  · rfl
  · split
    · split <;> rfl
    · rfl

theorem markAddrs_plain_bGrp : ∀ (fuel : Nat) (st : St) (l : List String), (∀ x ∈ l, st.bGrpIdx x = none) →
    (markAddrs fuel st l).bGrp = st.bGrp := by
  intro fuel
  cases fuel with
  | zero => intro st l _; rfl
  | succ fuel =>
    intro st l
    rw [markAddrs_succ]
    induction l generalizing st with
    | nil => intro _; rfl
    | cons x xs ih =>
      intro h
      simp only [List.foldl_cons]
      have h1 := markAddrStep_plain_bGrp fuel st x (h x (by simp))
      rw [ih _ (fun y hy => by
        unfold St.bGrpIdx
        rw [h1]
        exact h y (List.mem_cons_of_mem _ hy)), h1]

/-- `needed` of a target group only for groups with property `Ref`. -/
def GProv (Ref : String → Prop) (st : St) : Prop := ∀ gb ∈ st.bGrp, gb.needed = true → Ref gb.g.name

/-- No group is member of a group. -/
def BPlain (st : St) : Prop := ∀ gb ∈ st.bGrp, ∀ m ∈ gb.g.members, st.bGrpIdx m = none

theorem BPlain.of_bGrp {st st' : St} (h : st'.bGrp.map (·.g) = st.bGrp.map (·.g)) (hp : BPlain st) : BPlain st' := by
  intro gb' hgb' m hm
  obtain ⟨gb, hgb, e⟩ := mem_of_map_eq_marks h hgb'
  have hidx : st'.bGrpIdx m = st.bGrpIdx m := by
    unfold St.bGrpIdx
    have := congrArg (List.map (·.name)) h
    simp only [List.map_map, Function.comp_def] at this
    rw [this]
  rw [hidx]
  exact hp gb hgb m (by rw [e]; exact hm)

theorem markAddrs_gprov (Ref : String → Prop) : ∀ (fuel : Nat) (st : St) (l : List String), BPlain st →
    (∀ x ∈ l, (st.bGrpIdx x).isSome → Ref x) → GProv Ref st → GProv Ref (markAddrs fuel st l) := by
  intro fuel
  cases fuel with
  | zero => intro st l _ _ h; exact h
  | succ fuel =>
    intro st l
    rw [markAddrs_succ]
    induction l generalizing st with
    | nil => intro _ _ h; exact h
    | cons x xs ih =>
      intro hp href hg
      simp only [List.foldl_cons]
      have hinv := markAddrStep_inv fuel st x
      have hstep : GProv Ref (markAddrStep fuel st x) := by
        cases hgi : st.bGrpIdx x with
        | none => intro gb hgb hn; rw [markAddrStep_plain_bGrp fuel st x hgi] at hgb; exact hg gb hgb hn
        | some gi =>
          rw [markAddrStep_grp fuel st x gi hgi]
          obtain ⟨gb0, hgb0, hname0⟩ := bGrp_of_idx_marks hgi
          have hmembers : ∀ m ∈ grpMembers st x, st.bGrpIdx m = none := by
            intro m hm
            unfold grpMembers at hm
            rw [hgi] at hm
            simp only [hgb0, Option.map_some, Option.getD_some] at hm
            exact hp gb0 (List.mem_of_getElem? hgb0) m hm
          have hb := markAddrs_plain_bGrp fuel
            { st with bGrp := modAt st.bGrp gi (fun g => { g with needed := true }) } (grpMembers st x) (fun m hm => by
            have := ((markInv_bGrp st gi (fun g => { g with needed := true }) (fun _ => rfl)).idx m).2.2
            rw [this]; exact hmembers m hm)
          intro gb hgb hn
          rw [hb] at hgb
          rcases mem_modAt_marks hgb with h1 | ⟨y, hy, e⟩
          · exact hg gb h1 hn
          · rw [hgb0] at hy; cases hy
            rw [e]
            simp only
            rw [hname0]
            exact href x (by simp) (by simp [hgi])
      exact ih _ (hp.of_bGrp hinv.2.2.1)
        (fun y hy hs => href y (List.mem_cons_of_mem _ hy) (by rw [← (hinv.idx y).2.2]; exact hs)) hstep

theorem markObjects_gprov (Ref : String → Prop) (fuel : Nat) : ∀ (rules : List Rule) (st : St), BPlain st →
    (∀ r ∈ rules, ∀ x, (x ∈ r.src ∨ x ∈ r.dst) → (st.bGrpIdx x).isSome → Ref x) → GProv Ref st →
    GProv Ref (markObjects fuel st rules) := by
  intro rules
  induction rules with
  | nil => intro st _ _ h; exact h
  | cons r rs ih =>
    intro st hp href hg
    unfold markObjects at ih ⊢
    simp only [List.foldl_cons]
    have i1 := markAddrs_inv fuel st r.src
    have i2 := markAddrs_inv fuel (markAddrs fuel st r.src) r.dst
    have i3 := markSrvs_inv fuel (markAddrs fuel (markAddrs fuel st r.src) r.dst) r.srv
    have hall := (i1.trans i2).trans i3
    have g1 := markAddrs_gprov Ref fuel st r.src hp (fun x hx hs => href r (by simp) x (Or.inl hx) hs) hg
    have g2 := markAddrs_gprov Ref fuel _ r.dst (hp.of_bGrp i1.2.2.1)
      (fun x hx hs => href r (by simp) x (Or.inr hx) (by rw [← (i1.idx x).2.2]; exact hs)) g1
    have g3 : GProv Ref (markSrvs fuel (markAddrs fuel (markAddrs fuel st r.src) r.dst) r.srv) := by
      intro gb hgb hn
      rw [(markSrvs_addr fuel _ r.srv).2.2] at hgb
      exact g2 gb hgb hn
    exact ih _ (hp.of_bGrp hall.2.2.1)
      (fun r' hr' x hx hs => href r' (List.mem_cons_of_mem _ hr') x hx (by rw [← (hall.idx x).2.2]; exact hs)) g3

end NA.PanOs
