import NA.Proofs.C11Sess
/-!
# C11: configuration mode is entered only for the terminal width — an abstract interpreter

Abstract state of a run: (mode of the run, `Blk` = where the dialogue is with respect to
configuration mode, a function of the lines sent so far).  `Trun p q` over-approximates the
abstract states in which a checked compare-mode program `p` can end when started in normal mode
with the dialogue at `q` — branching on every test whose outcome depends on the device, following
`abort` / `return` / `defer`, giving up (`allAS`) on loops and on sends of the change script.
`T_sound`: against every device the real end state is among them (induction on the program;
reading answers changes neither the mode nor the lines sent).
-/
namespace NA.C11
open NA.Sess NA.Apply NA.Spec.C11

abbrev AS := Mode × Blk

def allModes : List Mode := [.run, .panic, .ret, .cont, .diverge]
def allBlks : List Blk := [.out, .conf, .width, .bad]
def allAS : List AS := allModes.flatMap fun m => allBlks.map fun q => (m, q)

theorem mem_allAS (a : AS) : a ∈ allAS := by
  obtain ⟨m, q⟩ := a
  cases m <;> cases q <;> decide

/-- the same set of abstract states without repetitions (at most 20 elements): keeps the
interpreter from growing exponentially with the number of device-dependent tests -/
def norm (l : List AS) : List AS := allAS.filter fun a => l.contains a

theorem mem_norm (a : AS) (l : List AS) : a ∈ norm l ↔ a ∈ l := by
  simp [norm, List.mem_filter, mem_allAS]

def α (s : St) : AS := (s.mode, blkOf s.tr)

/-- the lines of a text that do not depend on the run -/
def txtLines : Txt → Option (List String)
  | .lit s => some [s]
  | .litNl s => some [s]
  | .secret => some ["<secret>"]
  | .cur => none

theorem txtLines_sound (t : Txt) (ls : List String) (h : txtLines t = some ls) (env : Env) : t.lines env = ls := by
  cases t <;> simp_all [txtLines, Txt.lines]

def lift (f : Blk → List AS) (a : AS) : List AS := if a.1 = .run then f a.2 else [a]

def deferOut (m1 : Mode) (r : AS) : AS := if r.1 = .run then (m1, r.2) else r

def Trun : Sess → Blk → List AS
  | .skip, q => [(.run, q)]
  | .send _ t, q =>
    match txtLines t with
    | some ls => [(.run, stepLines q ls)]
    | none => allAS
  | .recv _ _, q => [(.run, q)]
  | .recvMore _, q => [(.run, q)]
  | .roundTrip _ t _, q =>
    match txtLines t with
    | some ls => [(.run, stepLines q ls), (.run, stepLines (stepLines q ls) ls)]
    | none => allAS
  | .ite c _ t e, q =>
    match condKnown c with
    | some true => Trun t q
    | some false => Trun e q
    | none => norm (Trun t q ++ Trun e q)
  | .abort _, q => [(.panic, q)]
  | .warn _, q => [(.run, q)]
  | .mark e, q =>
    match e with
    | .sent _ ls => [(.run, stepLines q ls)]
    | _ => [(.run, q)]
  | .seq a b, q => norm ((Trun a q).flatMap (lift (fun q' => Trun b q')))
  | .forEach _, _ => allAS
  | .defer c b, q =>
    norm ((Trun b q).flatMap fun r =>
      if r.1 = .diverge then [r] else (Trun c r.2).map (deferOut r.1))
  | .loopN _ _, _ => allAS
  | .loopFuel _, _ => allAS
  | .cont, q => [(.cont, q)]
  | .ret _ _, q => [(.ret, q)]
  | .setCtr _, q => [(.run, q)]
  | .decCtr, q => [(.run, q)]
  | .setPlan, q => [(.run, q)]
  | .call _ _ b, q => norm ((Trun b q).map fun r => (if r.1 = .ret then .run else r.1, r.2))
  | .scope _ b, q => Trun b q
  | .when c b, q =>
    match condKnown c with
    | some true => Trun b q
    | some false => [(.run, q)]
    | none => norm (Trun b q ++ [(.run, q)])
  | .assumeBanner, q => [(.run, q)]

/-! ### lines sent so far -/

theorem linesOf_append (a b : List Ev) :
    NA.Spec.C09.linesOf (a ++ b) = NA.Spec.C09.linesOf a ++ NA.Spec.C09.linesOf b := by
  induction a with
  | nil => simp [NA.Spec.C09.linesOf]
  | cons e t ih =>
    simp only [NA.Spec.C09.linesOf, List.cons_append, List.foldr_cons] at ih ⊢
    cases e <;> simp [ih]

theorem blkOf_snoc_sent (tr : List Ev) (ρ : Role) (ls : List String) :
    blkOf (tr ++ [.sent ρ ls]) = stepLines (blkOf tr) ls := by
  unfold blkOf sentLines
  rw [linesOf_append]
  simp [NA.Spec.C09.linesOf, stepLines, List.foldl_append]

theorem blkOf_snoc_other (tr : List Ev) (e : Ev) (h : ∀ ρ ls, e ≠ .sent ρ ls) :
    blkOf (tr ++ [e]) = blkOf tr := by
  unfold blkOf sentLines
  rw [linesOf_append]
  cases e with
  | sent ρ ls => exact absurd rfl (h ρ ls)
  | _ => simp [NA.Spec.C09.linesOf]

/-- reading answers changes neither the mode nor the lines sent -/
theorem recvLoop_α (dev : Dev) (ρ : Role) (p : Pat) : ∀ (n : Nat) (s : St), α (recvLoop dev ρ p n s) = α s := by
  intro n
  induction n with
  | zero => intro s; rfl
  | succ n ih =>
    intro s
    simp only [recvLoop]
    split
    · simp [α, blkOf_snoc_other]
    · split
      · rw [ih]; simp [α, blkOf_snoc_other]
      · simp [α, blkOf_snoc_other]

theorem α_run {s : St} {q : Blk} (h : α s = (.run, q)) : s.mode = .run ∧ blkOf s.tr = q := by
  simp only [α, Prod.mk.injEq] at h; exact h

theorem α_snoc_sent (s : St) (ρ : Role) (ls : List String) :
    α { s with tr := s.tr ++ [Ev.sent ρ ls] } = ((α s).1, stepLines (α s).2 ls) := by
  simp [α, blkOf_snoc_sent]

theorem lift_run (f : Blk → List AS) {s : St} (h : s.mode = .run) : lift f (α s) = f (blkOf s.tr) := by
  simp [lift, α, h]

/-- **Soundness of the abstract interpreter.** -/
theorem T_sound (p : Sess) : ∀ (env : Env) (s : St), env.compare = true →
    α (exec p env s) ∈ lift (Trun p) (α s) := by
  induction p with
  | skip =>
    intro env s _
    by_cases hm : s.mode = .run
    · simp [lift, hm, exec, Trun, α]
    · rw [exec_nonrun _ _ _ hm]; simp [lift, α, hm]
  | send ρ t =>
    intro env s _
    by_cases hm : s.mode = .run
    · simp only [lift, α, hm, if_true, exec, Trun]
      cases ht : txtLines t with
      | none => exact mem_allAS _
      | some ls => simp [txtLines_sound t ls ht env, blkOf_snoc_sent]
    · rw [exec_nonrun _ _ _ hm]; simp [lift, α, hm]
  | recv ρ p =>
    intro env s _
    by_cases hm : s.mode = .run
    · simp only [lift, hm, if_true, exec, Trun, α]
      have := recvLoop_α env.dev ρ p (linesSent s.tr + 1 - repliesRead s.tr) s
      simp only [α, Prod.mk.injEq] at this
      simp [this.1, this.2, hm]
    · rw [exec_nonrun _ _ _ hm]; simp [lift, α, hm]
  | recvMore p =>
    intro env s _
    by_cases hm : s.mode = .run
    · simp [lift, hm, exec, Trun, α]
    · rw [exec_nonrun _ _ _ hm]; simp [lift, α, hm]
  | roundTrip ρ t r =>
    intro env s _
    by_cases hm : s.mode = .run
    · rw [lift_run _ hm]
      simp only [Trun]
      cases ht : txtLines t with
      | none => exact mem_allAS _
      | some ls =>
        have hl := txtLines_sound t ls ht env
        simp only [exec, if_pos hm, hl]
        have e1 : α (recvLoop env.dev ρ Pat.http 1 { s with tr := s.tr ++ [Ev.sent ρ ls] }) =
            (.run, stepLines (blkOf s.tr) ls) := by
          rw [recvLoop_α, α_snoc_sent]; simp [α, hm]
        split
        · rw [recvLoop_α, α_snoc_sent, e1]; simp
        · rw [e1]; simp
    · rw [exec_nonrun _ _ _ hm]; simp [lift, α, hm]
  | ite c l t e iht ihe =>
    intro env s hc
    by_cases hm : s.mode = .run
    · have ht := iht env s hc
      have he := ihe env s hc
      simp only [lift, α, hm, if_true] at ht he ⊢
      simp only [exec, hm, if_true, Trun]
      cases hk : condKnown c with
      | none =>
        simp only [mem_norm, List.mem_append]
        split
        · exact Or.inl ht
        · exact Or.inr he
      | some v =>
        have hv := condKnown_sound c env s hc v hk
        cases v with
        | true => simp only [hv, if_true]; exact ht
        | false => simp only [hv, Bool.false_eq_true, if_false]; exact he
    · rw [exec_nonrun _ _ _ hm]; simp [lift, α, hm]
  | abort l =>
    intro env s _
    by_cases hm : s.mode = .run
    · simp [lift, hm, exec, Trun, α, blkOf_snoc_other]
    · rw [exec_nonrun _ _ _ hm]; simp [lift, α, hm]
  | warn l =>
    intro env s _
    by_cases hm : s.mode = .run
    · simp [lift, hm, exec, Trun, α, blkOf_snoc_other]
    · rw [exec_nonrun _ _ _ hm]; simp [lift, α, hm]
  | mark e =>
    intro env s _
    by_cases hm : s.mode = .run
    · cases e <;> simp [lift, hm, exec, Trun, α, blkOf_snoc_other, blkOf_snoc_sent]
    · rw [exec_nonrun _ _ _ hm]; simp [lift, α, hm]
  | seq a b iha ihb =>
    intro env s hc
    by_cases hm : s.mode = .run
    · have h1 := iha env s hc
      have h2 := ihb env (exec a env s) hc
      simp only [lift, α, hm, if_true] at h1 ⊢
      simp only [exec, Trun, mem_norm, List.mem_flatMap]
      exact ⟨α (exec a env s), h1, h2⟩
    · rw [exec_nonrun _ _ _ hm]; simp [lift, α, hm]
  | forEach b _ =>
    intro env s _
    by_cases hm : s.mode = .run
    · simp only [lift, α, hm, if_true, Trun]; exact mem_allAS _
    · rw [exec_nonrun _ _ _ hm]; simp [lift, α, hm]
  | defer c b ihc ihb =>
    intro env s hc
    by_cases hm : s.mode = .run
    · have h1 := ihb env s hc
      simp only [lift, α, hm, if_true] at h1 ⊢
      simp only [exec, hm, if_true, Trun, mem_norm, List.mem_flatMap]
      refine ⟨α (exec b env s), h1, ?_⟩
      by_cases hd : (exec b env s).mode = .diverge
      · simp [α, hd]
      · have h2 := ihc env { exec b env s with mode := Mode.run } hc
        simp only [lift, α, if_true] at h2
        simp only [α, hd, if_false, List.mem_map]
        refine ⟨_, h2, ?_⟩
        simp only [deferOut]
        split <;> simp_all
    · rw [exec_nonrun _ _ _ hm]; simp [lift, α, hm]
  | loopN n b _ =>
    intro env s _
    by_cases hm : s.mode = .run
    · simp only [lift, α, hm, if_true, Trun]; exact mem_allAS _
    · rw [exec_nonrun _ _ _ hm]; simp [lift, α, hm]
  | loopFuel b _ =>
    intro env s _
    by_cases hm : s.mode = .run
    · simp only [lift, α, hm, if_true, Trun]; exact mem_allAS _
    · rw [exec_nonrun _ _ _ hm]; simp [lift, α, hm]
  | cont =>
    intro env s _
    by_cases hm : s.mode = .run
    · simp [lift, hm, exec, Trun, α]
    · rw [exec_nonrun _ _ _ hm]; simp [lift, α, hm]
  | ret v l =>
    intro env s _
    by_cases hm : s.mode = .run
    · simp [lift, hm, exec, Trun, α]
    · rw [exec_nonrun _ _ _ hm]; simp [lift, α, hm]
  | setCtr n =>
    intro env s _
    by_cases hm : s.mode = .run
    · simp [lift, hm, exec, Trun, α]
    · rw [exec_nonrun _ _ _ hm]; simp [lift, α, hm]
  | decCtr =>
    intro env s _
    by_cases hm : s.mode = .run
    · simp [lift, hm, exec, Trun, α]
    · rw [exec_nonrun _ _ _ hm]; simp [lift, α, hm]
  | setPlan =>
    intro env s _
    by_cases hm : s.mode = .run
    · simp [lift, hm, exec, Trun, α]
    · rw [exec_nonrun _ _ _ hm]; simp [lift, α, hm]
  | call n l b ih =>
    intro env s hc
    by_cases hm : s.mode = .run
    · have h1 := ih env s hc
      simp only [lift, α, hm, if_true] at h1 ⊢
      simp only [exec, hm, if_true, Trun, mem_norm, List.mem_map]
      refine ⟨_, h1, ?_⟩
      split <;> simp_all
    · rw [exec_nonrun _ _ _ hm]; simp [lift, α, hm]
  | scope c b ih =>
    intro env s hc
    have h1 := ih env s hc
    simp only [lift, α, exec, Trun] at h1 ⊢
    exact h1
  | «when» c b ih =>
    intro env s hc
    by_cases hm : s.mode = .run
    · have h1 := ih env s hc
      simp only [lift, α, hm, if_true] at h1 ⊢
      simp only [exec, hm, if_true, Trun]
      cases hk : condKnown c with
      | none =>
        simp only [mem_norm, List.mem_append]
        split
        · exact Or.inl h1
        · simp [hm]
      | some v =>
        have hv := condKnown_sound c env s hc v hk
        cases v with
        | true => simp only [hv, if_true]; exact h1
        | false => simp [hv, hm]
    · rw [exec_nonrun _ _ _ hm]; simp [lift, α, hm]
  | assumeBanner =>
    intro env s _
    by_cases hm : s.mode = .run
    · simp [lift, hm, exec, Trun, α]
    · rw [exec_nonrun _ _ _ hm]; simp [lift, α, hm]

end NA.C11
