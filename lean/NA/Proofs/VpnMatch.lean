import NA.Proofs.VpnSeq
/-!
`matchCryptoMap`: the sorted key lists, `peerSeq` = lowest sequence number with that peer, the i-th
call of the matching loop, and the fresh-number loop as `freshSeqs`.
-/
namespace NA.Vpn

/-! ## sorted keys -/

theorem mem_insSorted (x y : Int) : ∀ (l : List Int), y ∈ insSorted x l ↔ y = x ∨ y ∈ l
  | [] => by simp [insSorted]
  | z :: zs => by
    unfold insSorted
    by_cases h1 : x < z
    · simp [h1]
    · by_cases h2 : x = z
      · subst h2; simp
      · simp only [h1, h2, if_false, List.mem_cons, mem_insSorted x y zs]
        constructor
        · rintro (h | h | h)
          · exact Or.inr (Or.inl h)
          · exact Or.inl h
          · exact Or.inr (Or.inr h)
        · rintro (h | h | h)
          · exact Or.inr (Or.inl h)
          · exact Or.inl h
          · exact Or.inr (Or.inr h)

theorem insSorted_sorted (x : Int) : ∀ (l : List Int), l.Pairwise (· < ·) → (insSorted x l).Pairwise (· < ·)
  | [], _ => by simp [insSorted]
  | z :: zs, h => by
    unfold insSorted
    have hz := List.pairwise_cons.1 h
    by_cases h1 : x < z
    · simp only [h1, if_true]
      refine List.Pairwise.cons ?_ h
      intro y hy
      cases hy with
      | head => exact h1
      | tail _ hy => have := hz.1 y hy; omega
    · by_cases h2 : x = z
      · simp [h2, h]
      · simp only [h1, h2, if_false]
        refine List.Pairwise.cons ?_ (insSorted_sorted x zs hz.2)
        intro y hy
        rcases (mem_insSorted x y zs).1 hy with h' | h'
        · omega
        · exact hz.1 y h'

theorem mem_sortedKeys (y : Int) : ∀ (l : List Int), y ∈ sortedKeys l ↔ y ∈ l
  | [] => by simp [sortedKeys]
  | x :: xs => by
    have ih := mem_sortedKeys y xs
    unfold sortedKeys at *
    simp only [List.foldr_cons, mem_insSorted, ih, List.mem_cons]

theorem sortedKeys_sorted : ∀ (l : List Int), (sortedKeys l).Pairwise (· < ·)
  | [] => by simp [sortedKeys]
  | x :: xs => by
    have ih := sortedKeys_sorted xs
    unfold sortedKeys at *
    simp only [List.foldr_cons]
    exact insSorted_sorted x _ ih

theorem seqKeys_sorted (l : List Cmd) : (seqKeys l).Pairwise (· < ·) := sortedKeys_sorted _

theorem mem_seqKeys (l : List Cmd) (s : Int) : s ∈ seqKeys l ↔ ∃ c ∈ l, c.seq = s := by
  unfold seqKeys
  rw [mem_sortedKeys]
  simp [List.mem_map]

theorem entry_ne_nil (l : List Cmd) (s : Int) (h : s ∈ seqKeys l) : entry l s ≠ [] := by
  obtain ⟨c, hc, hs⟩ := (mem_seqKeys l s).1 h
  intro he
  have : c ∈ entry l s := by
    unfold entry
    exact List.mem_filter.2 ⟨hc, by simp [hs]⟩
  rw [he] at this
  cases this

theorem entry_seq (l : List Cmd) (s : Int) : ∀ c ∈ entry l s, c.seq = s := by
  intro c hc
  unfold entry at hc
  have := (List.mem_filter.1 hc).2
  simpa using this

/-! ## peerSeq -/

theorem peerSeq_some (l : List Cmd) (p : Peer) : ∀ (keys : List Int) (t : Int), peerSeq l keys p = some t →
    ∃ pre post, keys = pre ++ t :: post ∧ getPeer (entry l t) = some p ∧
      ∀ t' ∈ pre, getPeer (entry l t') ≠ some p
  | [], _, h => by simp [peerSeq] at h
  | k :: ks, t, h => by
    unfold peerSeq at h
    by_cases hk : getPeer (entry l k) = some p
    · rw [if_pos hk] at h
      cases h
      exact ⟨[], ks, rfl, hk, by intro t' h'; cases h'⟩
    · rw [if_neg hk] at h
      obtain ⟨pre, post, h1, h2, h3⟩ := peerSeq_some l p ks t h
      refine ⟨k :: pre, post, by simp [h1], h2, ?_⟩
      intro t' h'
      cases h' with
      | head => exact hk
      | tail _ h' => exact h3 t' h'

theorem peerSeq_none (l : List Cmd) (p : Peer) : ∀ (keys : List Int), peerSeq l keys p = none →
    ∀ t ∈ keys, getPeer (entry l t) ≠ some p
  | [], _, _, h => by cases h
  | k :: ks, h, t, ht => by
    unfold peerSeq at h
    by_cases hk : getPeer (entry l k) = some p
    · rw [if_pos hk] at h; cases h
    · rw [if_neg hk] at h
      cases ht with
      | head => exact hk
      | tail _ ht => exact peerSeq_none l p ks h t ht

/-- on ascending keys `peerSeq` is the LOWEST sequence number with that peer -/
theorem peerSeq_lowest (l : List Cmd) (p : Peer) (keys : List Int) (hs : keys.Pairwise (· < ·)) (t : Int)
    (h : peerSeq l keys p = some t) :
    t ∈ keys ∧ getPeer (entry l t) = some p ∧ ∀ t' ∈ keys, getPeer (entry l t') = some p → t ≤ t' := by
  obtain ⟨pre, post, h1, h2, h3⟩ := peerSeq_some l p keys t h
  subst h1
  refine ⟨by simp, h2, ?_⟩
  intro t' ht' hp'
  rcases List.mem_append.1 ht' with h' | h'
  · exact absurd hp' (h3 t' h')
  · cases h' with
    | head => exact Int.le_refl _
    | tail _ h' =>
      have := (List.pairwise_append.1 hs).2.1
      have := (List.pairwise_cons.1 this).1 t' h'
      omega

theorem peerSeq_isSome (l : List Cmd) (p : Peer) : ∀ (keys : List Int) (t : Int), t ∈ keys →
    getPeer (entry l t) = some p → ∃ t0, peerSeq l keys p = some t0
  | [], _, h, _ => by cases h
  | k :: ks, t, h, hp => by
    unfold peerSeq
    by_cases hk : getPeer (entry l k) = some p
    · exact ⟨k, by rw [if_pos hk]⟩
    · rw [if_neg hk]
      cases h with
      | head => exact absurd hp hk
      | tail _ h => exact peerSeq_isSome l p ks t h hp

/-! ## the matching loop -/

/-- the target entry a device entry is compared with, if the target's entry is still there -/
def tgtOf (al bl : List Cmd) (bKeys : List Int) (s : Int) : Option Int :=
  (getPeer (entry al s)).bind (peerSeq bl bKeys)

theorem matchLoop_cons (al bl : List Cmd) (bKeys : List Int) (s : Int) (rest done : List Int) :
    matchLoop al bl bKeys (s :: rest) done =
      match tgtOf al bl bKeys s with
      | some t => (⟨entry al s, if t ∈ done then [] else entry bl t⟩ :: (matchLoop al bl bKeys rest (t :: done)).1,
                    (matchLoop al bl bKeys rest (t :: done)).2)
      | none => (⟨entry al s, []⟩ :: (matchLoop al bl bKeys rest done).1, (matchLoop al bl bKeys rest done).2) := by
  unfold tgtOf
  rw [matchLoop]
  cases (getPeer (entry al s)).bind (peerSeq bl bKeys) <;> rfl

theorem matchLoop_length (al bl : List Cmd) (bKeys : List Int) : ∀ (keys done : List Int),
    (matchLoop al bl bKeys keys done).1.length = keys.length
  | [], _ => rfl
  | s :: rest, done => by
    rw [matchLoop_cons]
    cases tgtOf al bl bKeys s with
    | some t => simp [matchLoop_length al bl bKeys rest]
    | none => simp [matchLoop_length al bl bKeys rest]

/-- the device entries of the calls are the entries of `keys`, one call each, in the order of `keys` -/
theorem matchLoop_a (al bl : List Cmd) (bKeys : List Int) : ∀ (keys done : List Int),
    (matchLoop al bl bKeys keys done).1.map (·.a) = keys.map (entry al)
  | [], _ => rfl
  | s :: rest, done => by
    rw [matchLoop_cons]
    cases tgtOf al bl bKeys s with
    | some t => simp [matchLoop_a al bl bKeys rest]
    | none => simp [matchLoop_a al bl bKeys rest]

theorem matchLoop_append (al bl : List Cmd) (bKeys : List Int) : ∀ (pre rest done : List Int),
    (matchLoop al bl bKeys (pre ++ rest) done).1 =
      (matchLoop al bl bKeys pre done).1 ++ (matchLoop al bl bKeys rest (matchLoop al bl bKeys pre done).2).1
  | [], _, _ => rfl
  | s :: pre, rest, done => by
    rw [List.cons_append, matchLoop_cons, matchLoop_cons]
    cases tgtOf al bl bKeys s with
    | some t => simp [matchLoop_append al bl bKeys pre rest]
    | none => simp [matchLoop_append al bl bKeys pre rest]

theorem matchLoop_done (al bl : List Cmd) (bKeys : List Int) : ∀ (pre done : List Int) (t : Int),
    t ∈ (matchLoop al bl bKeys pre done).2 ↔ t ∈ done ∨ ∃ s ∈ pre, tgtOf al bl bKeys s = some t
  | [], done, t => by simp [matchLoop]
  | s :: pre, done, t => by
    rw [matchLoop_cons]
    cases h : tgtOf al bl bKeys s with
    | some t0 =>
      simp only [matchLoop_done al bl bKeys pre, List.mem_cons]
      constructor
      · rintro ((h1 | h1) | ⟨s', hs', h2⟩)
        · exact Or.inr ⟨s, Or.inl rfl, by rw [h, h1]⟩
        · exact Or.inl h1
        · exact Or.inr ⟨s', Or.inr hs', h2⟩
      · rintro (h1 | ⟨s', hs' | hs', h2⟩)
        · exact Or.inl (Or.inr h1)
        · subst hs'; rw [h] at h2; cases h2; exact Or.inl (Or.inl rfl)
        · exact Or.inr ⟨s', hs', h2⟩
    | none =>
      simp only [matchLoop_done al bl bKeys pre, List.mem_cons]
      constructor
      · rintro (h1 | ⟨s', hs', h2⟩)
        · exact Or.inl h1
        · exact Or.inr ⟨s', Or.inr hs', h2⟩
      · rintro (h1 | ⟨s', hs' | hs', h2⟩)
        · exact Or.inl h1
        · subst hs'; rw [h] at h2; cases h2
        · exact Or.inr ⟨s', hs', h2⟩

/-- the call for the device entry at position `|pre|` -/
theorem matchLoop_at (al bl : List Cmd) (bKeys : List Int) (pre post : List Int) (s : Int) :
    (matchLoop al bl bKeys (pre ++ s :: post) []).1[pre.length]? =
      some ⟨entry al s, match tgtOf al bl bKeys s with
        | some t => if t ∈ (matchLoop al bl bKeys pre []).2 then [] else entry bl t
        | none => []⟩ := by
  rw [matchLoop_append]
  rw [List.getElem?_append_right (by rw [matchLoop_length]; exact Nat.le_refl _)]
  rw [matchLoop_length, Nat.sub_self, matchLoop_cons]
  cases tgtOf al bl bKeys s <;> rfl

/-! ## the fresh-number loop -/

def kindsOf (bl : List Cmd) (rest : List Int) : List Bool := rest.map fun t => isStaticEntry (entry bl t)

theorem freshLoop_eq (al bl : List Cmd) (used : List Int) : ∀ (rest : List Int) (st dy : Int),
    freshLoop al bl used rest st dy =
      List.zipWith (fun t s => (⟨[], (entry bl t).map (renumber al s)⟩ : Call)) rest
        (freshSeqs used (kindsOf bl rest) st dy)
  | [], _, _ => rfl
  | t :: rest, st, dy => by
    unfold freshLoop kindsOf
    by_cases h : isStaticEntry (entry bl t) = true
    · simp only [h, if_true, List.map_cons, freshSeqs, List.zipWith_cons_cons]
      rw [freshLoop_eq al bl used rest]; rfl
    · have h' : isStaticEntry (entry bl t) = false := by simpa using h
      simp only [h', List.map_cons, freshSeqs, List.zipWith_cons_cons, Bool.false_eq_true, if_false]
      rw [freshLoop_eq al bl used rest]; rfl

/-! ## distinctness of the handed-out numbers -/

theorem nodup_of_parts : ∀ (xs : List Int) (bs : List Bool), xs.length = bs.length →
    (part true xs bs).Nodup → (part false xs bs).Nodup →
    (∀ x ∈ part true xs bs, ∀ y ∈ part false xs bs, x ≠ y) → xs.Nodup
  | [], _, _, _, _, _ => List.nodup_nil
  | _ :: _, [], h, _, _, _ => by simp at h
  | x :: xs, b :: bs, hl, h1, h2, h3 => by
    have hl' : xs.length = bs.length := by simpa using hl
    cases b with
    | true =>
      simp only [part, if_true] at h1 h3
      simp only [part] at h2
      have h2' : (part false xs bs).Nodup := by simpa using h2
      have h3' : ∀ x' ∈ x :: part true xs bs, ∀ y ∈ part false xs bs, x' ≠ y := by
        intro x' hx' y hy; exact h3 x' hx' y (by simpa using hy)
      have h1' := List.nodup_cons.1 h1
      refine List.nodup_cons.2 ⟨?_, nodup_of_parts xs bs hl' h1'.2 h2' (fun a ha b hb => h3' a (List.mem_cons_of_mem _ ha) b hb)⟩
      intro hx
      rcases mem_parts xs bs hl' x hx with h | h
      · exact h1'.1 h
      · exact h3' x List.mem_cons_self x h rfl
    | false =>
      simp only [part, if_true] at h2
      simp only [part] at h1 h3
      have h1' : (part true xs bs).Nodup := by simpa using h1
      have h3' : ∀ x' ∈ part true xs bs, ∀ y ∈ x :: part false xs bs, x' ≠ y := by
        intro x' hx' y hy; exact h3 x' (by simpa using hx') y (by simpa using hy)
      have h2' := List.nodup_cons.1 h2
      refine List.nodup_cons.2 ⟨?_, nodup_of_parts xs bs hl' h1' h2'.2 (fun a ha b hb => h3' a ha b (List.mem_cons_of_mem _ hb))⟩
      intro hx
      rcases mem_parts xs bs hl' x hx with h | h
      · exact h3' x h x List.mem_cons_self rfl
      · exact h2'.1 h

theorem pairwise_lt_nodup : ∀ (l : List Int), l.Pairwise (· < ·) → l.Nodup
  | [], _ => List.nodup_nil
  | x :: xs, h => by
    have h' := List.pairwise_cons.1 h
    refine List.nodup_cons.2 ⟨?_, pairwise_lt_nodup xs h'.2⟩
    intro hx
    have := h'.1 x hx
    omega

theorem pairwise_gt_nodup : ∀ (l : List Int), l.Pairwise (· > ·) → l.Nodup
  | [], _ => List.nodup_nil
  | x :: xs, h => by
    have h' := List.pairwise_cons.1 h
    refine List.nodup_cons.2 ⟨?_, pairwise_gt_nodup xs h'.2⟩
    intro hx
    have := h'.1 x hx
    omega

end NA.Vpn
