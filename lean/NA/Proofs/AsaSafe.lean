import NA.Proofs.AsaConv
import NA.Proofs.C14
/-
Step safety (C14) of the real ASA planner model `planASA`, for all merged lists.

Every device state during the run of `planASA M` is `masked M μ` for a mask `μ` of a special
`Shape`; for such masks the first-match verdict of every packet is the old or the new verdict,
provided every DOWNWARD move (old-only cell `i` re-added as new-only cell `j > i`) only crosses
old lines that commute with the moved line (`NoCross`) and the moved line hits the same packets
as the line it replaces (`MoveSem`).  Upward moves need no condition.
-/
namespace NA.Acl

attribute [-simp] List.getD_eq_getElem?_getD

/-! ### Decidable side conditions -/

/-- `x` and `y` commute for every packet (sufficient test on the match sets). -/
def commutesAll (x y : Line) : Bool :=
  x.remark || y.remark || x.permit == y.permit || (x.mask &&& y.mask) == 0

/-- `x` and `y` hit the same packets. -/
def sameHits (x y : Line) : Bool := x.remark == y.remark && x.mask == y.mask

/-- Every move emitted by `planASA M` that goes downward (`i < j`) crosses only old lines
(cells `c` with `i < c < j` that the device holds) commuting with the moved line. -/
def NoCross (M : List Cell) : Bool :=
  (addIdx M).all fun j =>
    match delLookup M (M.getD j default).line.mkey with
    | none => true
    | some i => (List.range j).all fun c =>
        !(decide (i < c) && (M.getD c default).old) ||
          commutesAll (M.getD i default).line (M.getD c default).line

/-- For every move emitted by `planASA M` the re-added line hits the same packets as the
deleted one (they have the same `mkey`, i.e. differ at most in `log`). -/
def MoveSem (M : List Cell) : Bool :=
  (addIdx M).all fun j =>
    match delLookup M (M.getD j default).line.mkey with
    | none => true
    | some i => sameHits (M.getD i default).line (M.getD j default).line

/-- `planASA M` emits no move. -/
def NoMoves (M : List Cell) : Bool :=
  (addIdx M).all fun j => (delLookup M (M.getD j default).line.mkey).isNone

theorem commutesAll_spec (x y : Line) (h : commutesAll x y = true) (p : Nat) :
    commutes x y p = true := by
  simp only [commutesAll, Bool.or_eq_true, beq_iff_eq] at h
  simp only [commutes, Line.hits]
  rcases h with ((h | h) | h) | h
  · simp [h]
  · simp [h]
  · simp [h]
  · have : (x.mask &&& y.mask).testBit p = false := by rw [h]; simp
    rw [Nat.testBit_and] at this
    cases hx : x.mask.testBit p <;> cases hy : y.mask.testBit p <;> simp_all

theorem sameHits_spec (x y : Line) (h : sameHits x y = true) (p : Nat) : x.hits p = y.hits p := by
  simp only [sameHits, Bool.and_eq_true, beq_iff_eq] at h
  simp [Line.hits, h.1, h.2]

/-- Index form of `NoCross`. -/
def CrossOK (M : List Cell) : Prop :=
  ∀ i j, j ∈ addIdx M → delLookup M (M.getD j default).line.mkey = some i →
    ∀ c, i < c → c < j → (M.getD c default).old = true →
      ∀ p, commutes (M.getD i default).line (M.getD c default).line p = true

/-- Index form of `MoveSem`. -/
def SemOK (M : List Cell) : Prop :=
  ∀ i j, j ∈ addIdx M → delLookup M (M.getD j default).line.mkey = some i →
    ∀ p, (M.getD i default).line.hits p = (M.getD j default).line.hits p

theorem crossOK_of_noCross (M : List Cell) (h : NoCross M = true) : CrossOK M := by
  intro i j hj hd c hic hcj hco p
  have h1 := List.all_eq_true.1 h j hj
  simp only [hd] at h1
  have h2 := List.all_eq_true.1 h1 c (List.mem_range.2 hcj)
  simp only [hic, hco, decide_true, Bool.and_self, Bool.not_true, Bool.false_or] at h2
  exact commutesAll_spec _ _ h2 p

theorem semOK_of_moveSem (M : List Cell) (h : MoveSem M = true) : SemOK M := by
  intro i j hj hd p
  have h1 := List.all_eq_true.1 h j hj
  simp only [hd] at h1
  exact sameHits_spec _ _ h1 p

theorem crossOK_of_noMoves (M : List Cell) (h : NoMoves M = true) : CrossOK M := by
  intro i j hj hd
  have h1 := List.all_eq_true.1 h j hj
  simp [hd] at h1

theorem semOK_of_noMoves (M : List Cell) (h : NoMoves M = true) : SemOK M := by
  intro i j hj hd
  have h1 := List.all_eq_true.1 h j hj
  simp [hd] at h1

/-! ### First-match evaluation of a masked list -/

theorem eval_masked_cases (M : List Cell) (μ : List Bool) (p : Nat) :
    (eval (masked M μ) p = false ∧
      ∀ x, x < M.length → μ.getD x false = true → (M.getD x default).line.hits p = false) ∨
    ∃ f, f < M.length ∧ μ.getD f false = true ∧ (M.getD f default).line.hits p = true ∧
      (∀ x, x < f → μ.getD x false = true → (M.getD x default).line.hits p = false) ∧
      eval (masked M μ) p = (M.getD f default).line.permit := by
  induction M generalizing μ with
  | nil => left; exact ⟨by simp [eval], fun x hx => by simp at hx⟩
  | cons c M ih =>
    cases μ with
    | nil => left; exact ⟨by simp [eval], fun x _ hμ => by simp at hμ⟩
    | cons b μ =>
      have shift : ∀ (hc0 : b = true → c.line.hits p = false)
          (he : eval (masked (c :: M) (b :: μ)) p = eval (masked M μ) p),
          (eval (masked (c :: M) (b :: μ)) p = false ∧
            ∀ x, x < (c :: M).length → (b :: μ).getD x false = true →
              ((c :: M).getD x default).line.hits p = false) ∨
          ∃ f, f < (c :: M).length ∧ (b :: μ).getD f false = true ∧
            ((c :: M).getD f default).line.hits p = true ∧
            (∀ x, x < f → (b :: μ).getD x false = true →
              ((c :: M).getD x default).line.hits p = false) ∧
            eval (masked (c :: M) (b :: μ)) p = ((c :: M).getD f default).line.permit := by
        intro hc0 he
        rcases ih μ with ⟨h0, hno⟩ | ⟨f, hf, hμf, hh, hfirst, hev⟩
        · left
          refine ⟨by rw [he, h0], fun x hx hμx => ?_⟩
          cases x with
          | zero => simp only [List.getD_cons_zero] at hμx ⊢; exact hc0 hμx
          | succ x =>
            simp only [List.getD_cons_succ] at hμx ⊢
            exact hno x (by simpa using hx) hμx
        · right
          refine ⟨f + 1, by simpa using hf, by simpa [List.getD_cons_succ] using hμf,
            by simpa [List.getD_cons_succ] using hh, ?_, by rw [he, hev, List.getD_cons_succ]⟩
          intro x hx hμx
          cases x with
          | zero => simp only [List.getD_cons_zero] at hμx ⊢; exact hc0 hμx
          | succ x =>
            simp only [List.getD_cons_succ] at hμx ⊢
            exact hfirst x (by omega) hμx
      cases b with
      | false => exact shift (fun h => by cases h) (by simp)
      | true =>
        by_cases hc : c.line.hits p = true
        · right
          exact ⟨0, by simp, by simp [List.getD_cons_zero],
            by simpa [List.getD_cons_zero] using hc, fun x hx => by omega,
            by simp [eval, hc, List.getD_cons_zero]⟩
        · have hc' : c.line.hits p = false := by simpa using hc
          exact shift (fun _ => hc') (by simp [eval, hc'])

theorem eval_masked_none (M : List Cell) (μ : List Bool) (p : Nat)
    (h : ∀ x, x < M.length → μ.getD x false = true → (M.getD x default).line.hits p = false) :
    eval (masked M μ) p = false := by
  rcases eval_masked_cases M μ p with ⟨h0, _⟩ | ⟨f, hf, hμf, hh, _, _⟩
  · exact h0
  · rw [h f hf hμf] at hh; cases hh

theorem eval_masked_first (M : List Cell) (μ : List Bool) (p f : Nat) (hf : f < M.length)
    (hμf : μ.getD f false = true) (hh : (M.getD f default).line.hits p = true)
    (hfirst : ∀ x, x < f → μ.getD x false = true → (M.getD x default).line.hits p = false) :
    eval (masked M μ) p = (M.getD f default).line.permit := by
  rcases eval_masked_cases M μ p with ⟨_, hno⟩ | ⟨f', hf', hμf', hh', hfirst', hev⟩
  · rw [hno f hf hμf] at hh; cases hh
  · have : f' = f := by
      rcases Nat.lt_trichotomy f' f with h | h | h
      · rw [hfirst f' h hμf'] at hh'; cases hh'
      · exact h
      · rw [hfirst' f h hμf] at hh; cases hh
    rw [hev, this]

/-! ### Shape of the masks during a run -/

/-- All new-only cells before `f` are present. -/
def NewBefore (M : List Cell) (μ : List Bool) (f : Nat) : Prop :=
  ∀ y, y < f → y ∈ addIdx M → μ.getD y false = true

/-- Cell `x` has been re-added: a present new-only cell `j` was matched to it by `delLookup`. -/
def Moved (M : List Cell) (μ : List Bool) (x : Nat) : Prop :=
  ∃ j, j ∈ addIdx M ∧ μ.getD j false = true ∧ delLookup M (M.getD j default).line.mkey = some x

/-- All absent old-only cells before `f` have been re-added (moved). -/
def OldBefore (M : List Cell) (μ : List Bool) (f : Nat) : Prop :=
  ∀ x, x < f → x ∈ delIdx M → μ.getD x false = false → Moved M μ x

structure Shape (M : List Cell) (μ : List Bool) : Prop where
  both : ∀ x, x < M.length → (M.getD x default).old = true → (M.getD x default).new = true →
    μ.getD x false = true
  cell : ∀ f, f < M.length → μ.getD f false = true →
    ((M.getD f default).new = true ∧ NewBefore M μ f) ∨
    ((M.getD f default).old = true ∧ OldBefore M μ f)
  all : NewBefore M μ M.length ∨ OldBefore M μ M.length

theorem eval_olds_eq (M : List Cell) (p : Nat) : eval (olds M) p = eval (masked M (oldMask M)) p := by
  rw [masked_old]
theorem eval_news_eq (M : List Cell) (p : Nat) : eval (news M) p = eval (masked M (newMask M)) p := by
  rw [masked_new]

/-- For a mask of the special shape every packet gets the old or the new verdict. -/
theorem Shape.old_or_new {M : List Cell} {μ : List Bool} (h : Shape M μ)
    (hcross : CrossOK M) (hsem : SemOK M) (p : Nat) :
    eval (masked M μ) p = eval (olds M) p ∨ eval (masked M μ) p = eval (news M) p := by
  -- a new cell that hits `p` before `f`, all new cells before `f` being present, is present
  have newSide : ∀ f, f ≤ M.length → NewBefore M μ f →
      ∀ x, x < f → (M.getD x default).new = true → μ.getD x false = true := by
    intro f hf hA x hx hn
    cases ho : (M.getD x default).old with
    | true => exact h.both x (by omega) ho hn
    | false => exact hA x hx ((mem_addIdx M x).2 ⟨by omega, ho, hn⟩)
  -- an old cell before `f` that is absent has a present partner with the same hits
  have oldSide : ∀ f, f ≤ M.length → OldBefore M μ f →
      ∀ x, x < f → (M.getD x default).old = true → μ.getD x false = false →
        ∃ j, j ∈ addIdx M ∧ μ.getD j false = true ∧
          delLookup M (M.getD j default).line.mkey = some x := by
    intro f hf hB x hx ho hμ
    cases hn : (M.getD x default).new with
    | true => rw [h.both x (by omega) ho hn] at hμ; cases hμ
    | false => exact hB x hx ((mem_delIdx M x).2 ⟨by omega, ho, hn⟩) hμ
  rcases eval_masked_cases M μ p with ⟨h0, hno⟩ | ⟨f, hf, hμf, hh, hfirst, hev⟩
  · -- no present line hits
    rcases h.all with hA | hB
    · right
      rw [h0, eval_news_eq, eval_masked_none]
      intro x hx hn
      rw [newMask_getD M x hx] at hn
      exact hno x hx (newSide M.length (Nat.le_refl _) hA x hx hn)
    · left
      rw [h0, eval_olds_eq, eval_masked_none]
      intro x hx ho
      rw [oldMask_getD M x hx] at ho
      cases hμ : μ.getD x false with
      | true => exact hno x hx hμ
      | false =>
        obtain ⟨j, hj, hμj, hd⟩ := oldSide M.length (Nat.le_refl _) hB x hx ho hμ
        rw [hsem x j hj hd p]
        exact hno j ((mem_addIdx M j).1 hj).1 hμj
  · -- `f` is the first present line that hits
    rcases h.cell f hf hμf with ⟨hn, hA⟩ | ⟨ho, hB⟩
    · right
      rw [hev, eval_news_eq]
      symm
      apply eval_masked_first M (newMask M) p f hf (by rw [newMask_getD M f hf]; exact hn) hh
      intro x hx hnx
      rw [newMask_getD M x (by omega)] at hnx
      exact hfirst x hx (newSide f (by omega) hA x hx hnx)
    · left
      rw [hev, eval_olds_eq]
      rcases eval_masked_cases M (oldMask M) p with ⟨_, hno⟩ | ⟨f0, hf0, hμf0, hh0, hfirst0, hev0⟩
      · rw [hno f hf (by rw [oldMask_getD M f hf]; exact ho)] at hh; cases hh
      · rw [hev0]
        rw [oldMask_getD M f0 hf0] at hμf0
        rcases Nat.lt_trichotomy f0 f with hlt | heq | hgt
        · cases hμ : μ.getD f0 false with
          | true => rw [hfirst f0 hlt hμ] at hh0; cases hh0
          | false =>
            obtain ⟨j, hj, hμj, hd⟩ := oldSide f (by omega) hB f0 hlt hμf0 hμ
            have hjh : (M.getD j default).line.hits p = true := by rw [← hsem f0 j hj hd p]; exact hh0
            obtain ⟨hjl, hjo, _⟩ := (mem_addIdx M j).1 hj
            rcases Nat.lt_trichotomy j f with hjf | hjf | hjf
            · rw [hfirst j hjf hμj] at hjh; cases hjh
            · subst hjf; rw [hjo] at ho; cases ho
            · have hc := hcross f0 j hj hd f hlt hjf ho p
              simp only [commutes, hh0, hh, Bool.and_self, Bool.not_true, Bool.false_or,
                beq_iff_eq] at hc
              exact hc.symm
        · rw [heq]
        · rw [hfirst0 f hgt (by rw [oldMask_getD M f hf]; exact ho)] at hh; cases hh

/-! ### Runs whose states satisfy a predicate -/

inductive SRun (M : List Cell) (P : List Bool → Prop) : List Bool → List Op → List Bool → Prop
  | nil (μ : List Bool) : SRun M P μ [] μ
  | step (μ μ1 : List Bool) (op : Op) (ops : List Op) (μ' : List Bool) :
      asaExec1 (masked M μ) op = some (masked M μ1) → P μ1 → SRun M P μ1 ops μ' →
      SRun M P μ (op :: ops) μ'

theorem SRun.append {M : List Cell} {P : List Bool → Prop} {μ μ1 μ2 : List Bool}
    {ops1 ops2 : List Op} (h1 : SRun M P μ ops1 μ1) (h2 : SRun M P μ1 ops2 μ2) :
    SRun M P μ (ops1 ++ ops2) μ2 := by
  induction h1 with
  | nil μ => simpa using h2
  | step μ ν op ops μ' he hp _ ih => exact SRun.step μ ν op _ μ2 he hp (ih h2)

theorem SRun.trace {M : List Cell} {P : List Bool → Prop} {μ μ' : List Bool} {ops : List Op}
    (h : SRun M P μ ops μ') :
    ∃ tr, asaTrace (masked M μ) ops = some tr ∧ ∀ s, s ∈ tr → ∃ ν, P ν ∧ s = masked M ν := by
  induction h with
  | nil μ => exact ⟨[], rfl, by simp⟩
  | step μ ν op ops μ' he hp _ ih =>
    obtain ⟨tr, htr, hall⟩ := ih
    refine ⟨masked M ν :: tr, ?_, ?_⟩
    · simp only [asaTrace, he]
      simp [htr]
    · intro s hs
      rcases List.mem_cons.1 hs with e | hs
      · exact ⟨ν, hp, e⟩
      · exact hall s hs

theorem exec1_of_ext {M : List Cell} {μ μ1 : List Bool} {op : Op}
    (h : ∀ ops' μ', MaskRun M μ1 ops' μ' → MaskRun M μ (op :: ops') μ') :
    asaExec1 (masked M μ) op = some (masked M μ1) := by
  have := (h [] μ1 (MaskRun.nil μ1)).exec
  simpa [asaExec] using this

/-! ### The add loop -/

/-- Ghost facts of the add loop: every cell in `needed` was matched by an already processed
new-only cell; the processed new-only cells lie before the pending ones. -/
structure AddX (M : List Cell) (needed js : List Nat) : Prop where
  moved : ∀ x, x ∈ needed →
    ∃ j, j ∈ addIdx M ∧ j ∉ js ∧ delLookup M (M.getD j default).line.mkey = some x
  order : ∀ y, y ∈ js → ∀ f, f ∈ addIdx M → f ∉ js → f < y

theorem shape_of_add {M : List Cell} {μ : List Bool} {pos needed js : List Nat}
    (h : Inv M μ pos needed js) (hx : AddX M needed js) : Shape M μ := by
  have hB : ∀ f, OldBefore M μ f := by
    intro f x _ hxd hμ
    obtain ⟨hxl, hxo, hxn⟩ := (mem_delIdx M x).1 hxd
    have hin : x ∈ needed := by
      by_cases hin : x ∈ needed
      · exact hin
      · rw [(h.oldo x hxl hxo hxn).2 hin] at hμ; cases hμ
    obtain ⟨j, hj, hjs, hd⟩ := hx.moved x hin
    obtain ⟨hjl, hjo, hjn⟩ := (mem_addIdx M j).1 hj
    exact ⟨j, hj, (h.newo j hjl hjo hjn).2 hjs, hd⟩
  refine ⟨h.both, fun f hf hμf => ?_, Or.inr (hB _)⟩
  cases ho : (M.getD f default).old with
  | true => exact Or.inr ⟨rfl, hB f⟩
  | false =>
    cases hn : (M.getD f default).new with
    | false => rw [h.none f hf ho hn] at hμf; cases hμf
    | true =>
      left
      refine ⟨rfl, fun y hy hya => ?_⟩
      obtain ⟨hyl, hyo, hyn⟩ := (mem_addIdx M y).1 hya
      apply (h.newo y hyl hyo hyn).2
      intro hyjs
      have hfjs : f ∉ js := (h.newo f hf ho hn).1 hμf
      have := hx.order y hyjs f ((mem_addIdx M f).2 ⟨hf, ho, hn⟩) hfjs
      omega

theorem asaAddStep_needed (M : List Cell) (st : AsaSt) (j : Nat) :
    (asaAddStep M st j).needed =
      match delLookup M (M.getD j default).line.mkey with
      | some i => i :: st.needed
      | none => st.needed := by
  unfold asaAddStep
  cases delLookup M (M.getD j default).line.mkey with
  | none => simp [asaAddACL]
  | some i =>
    simp only [asaDelACL, asaAddACL]
    split <;> rfl

theorem add_phase_s (M : List Cell) (hN1 : NewInj M) (hN2 : OldInj M) (js : List Nat) :
    ∀ (μ : List Bool) (pos needed : List Nat) (ops : List Op),
      Inv M μ pos needed js → NeedOK M needed js → AddX M needed js →
      ∃ μ' pos' needed' ops',
        js.foldl (asaAddStep M) ⟨pos, needed, ops⟩ = ⟨pos', needed', ops'.reverse ++ ops⟩ ∧
        Inv M μ' pos' needed' [] ∧ AddX M needed' [] ∧ SRun M (Shape M) μ ops' μ' := by
  induction js with
  | nil =>
    intro μ pos needed ops h _ hx
    exact ⟨μ, pos, needed, [], by simp, h, hx, SRun.nil μ⟩
  | cons j js ih =>
    intro μ pos needed ops h hk hx
    obtain ⟨μ1, pos1, needed1, op, he, h1, hk1, hr⟩ := add_step M hN1 hN2 ops h hk
    have hja : j ∈ addIdx M := (mem_addIdx M j).2 (h.jsn j (by simp))
    have hlt : ∀ x, x ∈ js → j < x := (List.pairwise_cons.1 h.jsp).1
    have hjjs : j ∉ js := fun hm => Nat.lt_irrefl j (hlt j hm)
    have hneeded : needed1 = match delLookup M (M.getD j default).line.mkey with
        | some i => i :: needed
        | none => needed := by
      have := asaAddStep_needed M ⟨pos, needed, ops⟩ j
      rw [he] at this
      exact this
    have hx1 : AddX M needed1 js := by
      refine ⟨fun x hxm => ?_, fun y hy f hf hfjs => ?_⟩
      · have hold : x ∈ needed → ∃ j', j' ∈ addIdx M ∧ j' ∉ js ∧
            delLookup M (M.getD j' default).line.mkey = some x := by
          intro hm
          obtain ⟨j', hj', hjs', hd'⟩ := hx.moved x hm
          exact ⟨j', hj', fun hm' => hjs' (List.mem_cons_of_mem _ hm'), hd'⟩
        cases hd : delLookup M (M.getD j default).line.mkey with
        | none => rw [hd] at hneeded; subst hneeded; exact hold hxm
        | some i =>
          rw [hd] at hneeded
          subst hneeded
          rcases List.mem_cons.1 hxm with e | hm
          · subst e; exact ⟨j, hja, hjjs, hd⟩
          · exact hold hm
      · by_cases e : f = j
        · subst e; exact hlt y hy
        · exact hx.order y (List.mem_cons_of_mem _ hy) f hf
            (fun hm => by rcases List.mem_cons.1 hm with e' | hm' <;> contradiction)
    obtain ⟨μ', pos', needed', ops', he', h', hx', hr'⟩ :=
      ih μ1 pos1 needed1 (op :: ops) h1 hk1 hx1
    refine ⟨μ', pos', needed', op :: ops', ?_, h', hx',
      SRun.step μ μ1 op ops' μ' (exec1_of_ext hr) (shape_of_add h1 hx1) hr'⟩
    rw [List.foldl_cons, he, he']
    simp

/-! ### The delete loop -/

/-- Ghost fact of the delete loop: a cell in `needed` was moved, or lies behind all old-only
cells that are still present. -/
def DelX (M : List Cell) (needed : List Nat) : Prop :=
  ∀ x, x ∈ needed →
    (∃ j, j ∈ addIdx M ∧ delLookup M (M.getD j default).line.mkey = some x) ∨
    ∀ f, f ∈ delIdx M → f ∉ needed → f < x

theorem shape_of_del {M : List Cell} {μ : List Bool} {pos needed : List Nat}
    (h : Inv M μ pos needed []) (hx : DelX M needed) : Shape M μ := by
  have hA : ∀ f, NewBefore M μ f := by
    intro f y _ hya
    obtain ⟨hyl, hyo, hyn⟩ := (mem_addIdx M y).1 hya
    exact (h.newo y hyl hyo hyn).2 (by simp)
  refine ⟨h.both, fun f hf hμf => ?_, Or.inl (hA _)⟩
  cases hn : (M.getD f default).new with
  | true => exact Or.inl ⟨rfl, hA f⟩
  | false =>
    cases ho : (M.getD f default).old with
    | false => rw [h.none f hf ho hn] at hμf; cases hμf
    | true =>
      right
      refine ⟨rfl, fun x hxf hxd hμ => ?_⟩
      obtain ⟨hxl, hxo, hxn⟩ := (mem_delIdx M x).1 hxd
      have hin : x ∈ needed := by
        by_cases hin : x ∈ needed
        · exact hin
        · rw [(h.oldo x hxl hxo hxn).2 hin] at hμ; cases hμ
      rcases hx x hin with ⟨j, hj, hd⟩ | hbehind
      · obtain ⟨hjl, hjo, hjn⟩ := (mem_addIdx M j).1 hj
        exact ⟨j, hj, (h.newo j hjl hjo hjn).2 (by simp), hd⟩
      · have := hbehind f ((mem_delIdx M f).2 ⟨hf, ho, hn⟩) ((h.oldo f hf ho hn).1 hμf)
        omega

theorem del_phase_s (M : List Cell) (ds : List Nat) :
    ∀ (μ : List Bool) (pos needed : List Nat) (ops : List Op),
      Inv M μ pos needed [] → DelX M needed → ds.Pairwise (· > ·) →
      (∀ i, i ∈ ds → i ∈ delIdx M) → (∀ f, f ∈ delIdx M → f ∉ needed → f ∈ ds) →
      ∃ μ' pos' needed' ops',
        ds.foldl (asaDelStep M) ⟨pos, needed, ops⟩ = ⟨pos', needed', ops'.reverse ++ ops⟩ ∧
        Inv M μ' pos' needed' [] ∧ (∀ f, f ∈ delIdx M → f ∈ needed') ∧
        SRun M (Shape M) μ ops' μ' := by
  induction ds with
  | nil =>
    intro μ pos needed ops h _ _ _ hcov
    refine ⟨μ, pos, needed, [], by simp, h, fun f hf => ?_, SRun.nil μ⟩
    by_cases hin : f ∈ needed
    · exact hin
    · exact absurd (hcov f hf hin) (by simp)
  | cons i ds ih =>
    intro μ pos needed ops h hx hp hds hcov
    obtain ⟨hi, ho, hn⟩ := (mem_delIdx M i).1 (hds i (by simp))
    have hgt : ∀ x, x ∈ ds → i > x := (List.pairwise_cons.1 hp).1
    have hp' := (List.pairwise_cons.1 hp).2
    have hds' : ∀ x, x ∈ ds → x ∈ delIdx M := fun x hx => hds x (List.mem_cons_of_mem _ hx)
    by_cases hnd : i ∈ needed
    · have he : asaDelStep M ⟨pos, needed, ops⟩ i = ⟨pos, needed, ops⟩ := by
        simp [asaDelStep, hnd]
      have hcov' : ∀ f, f ∈ delIdx M → f ∉ needed → f ∈ ds := by
        intro f hf hfn
        rcases List.mem_cons.1 (hcov f hf hfn) with e | hm
        · subst e; exact absurd hnd hfn
        · exact hm
      obtain ⟨μ', pos', needed', ops', he', h', hall, hr'⟩ :=
        ih μ pos needed ops h hx hp' hds' hcov'
      exact ⟨μ', pos', needed', ops', by rw [List.foldl_cons, he, he'], h', hall, hr'⟩
    · have hμi : μ.getD i false = true := (h.oldo i hi ho hn).2 hnd
      have hpi : pos.getD i 0 = cnt μ i := h.posI i hi (Or.inl ⟨ho, hμi⟩)
      have h1 := h.del i hi ho hn hnd
      have he : asaDelStep M ⟨pos, needed, ops⟩ i =
          ⟨pos.map (fun q => if q > pos.getD i 0 then q - 1 else q), i :: needed,
            Op.del (pos.getD i 0) (M.getD i default).line :: ops⟩ := by
        have hc : needed.contains i = false := by simpa using hnd
        simp only [asaDelStep, asaDelACL, hc]
        rfl
      have hcov' : ∀ f, f ∈ delIdx M → f ∉ i :: needed → f ∈ ds := by
        intro f hf hfn
        have hfi : f ≠ i := fun e => hfn (by simp [e])
        have hfn' : f ∉ needed := fun hm => hfn (List.mem_cons_of_mem _ hm)
        rcases List.mem_cons.1 (hcov f hf hfn') with e | hm
        · exact absurd e hfi
        · exact hm
      have hx1 : DelX M (i :: needed) := by
        intro x hxm
        rcases List.mem_cons.1 hxm with e | hm
        · subst e
          right
          intro f hf hfn
          exact hgt f (hcov' f hf hfn)
        · rcases hx x hm with hmv | hb
          · exact Or.inl hmv
          · exact Or.inr (fun f hf hfn => hb f hf (fun hm' => hfn (List.mem_cons_of_mem _ hm')))
      obtain ⟨μ', pos', needed', ops', he', h', hall, hr'⟩ :=
        ih _ _ (i :: needed) (Op.del (pos.getD i 0) (M.getD i default).line :: ops)
          h1 hx1 hp' hds' hcov'
      refine ⟨μ', pos', needed', Op.del (pos.getD i 0) (M.getD i default).line :: ops', ?_, h',
        hall, SRun.step μ (μ.set i false) _ ops' μ' ?_ (shape_of_del h1 hx1) hr'⟩
      · rw [List.foldl_cons, he, he']
        simp
      · rw [hpi]
        exact exec1_del M μ i hi hμi

/-! ### The whole plan -/

theorem planASA_srun (M : List Cell) (hN1 : NewInj M) (hN2 : OldInj M) :
    SRun M (Shape M) (oldMask M) (planASA M) (newMask M) := by
  have hx0 : AddX M [] (addIdx M) :=
    ⟨fun x hx => (by cases hx), fun y _ f hf hfn => absurd hf hfn⟩
  obtain ⟨μ1, pos1, needed1, ops1, he1, h1, hx1, hr1⟩ :=
    add_phase_s M hN1 hN2 (addIdx M) (oldMask M) (pos0 M) [] [] (inv_init M)
      (fun x hx => by cases hx) hx0
  have hdx : DelX M needed1 := by
    intro x hx
    obtain ⟨j, hj, _, hd⟩ := hx1.moved x hx
    exact Or.inl ⟨j, hj, hd⟩
  have hpw : (delIdx M).reverse.Pairwise (· > ·) := by
    rw [List.pairwise_reverse]
    unfold delIdx
    exact List.Pairwise.filter _ List.pairwise_lt_range
  obtain ⟨μ2, pos2, needed2, ops2, he2, h2, hall, hr2⟩ :=
    del_phase_s M (delIdx M).reverse μ1 pos1 needed1 (ops1.reverse ++ []) h1 hdx hpw
      (fun i hi => List.mem_reverse.1 hi) (fun f hf _ => List.mem_reverse.2 hf)
  have hμ : μ2 = newMask M := final_mask M μ2 pos2 needed2 h2 hall
  have hp : planASA M = ops1 ++ ops2 := by
    unfold planASA
    simp only [he1, he2]
    simp
  rw [hp, ← hμ]
  exact hr1.append hr2

end NA.Acl
