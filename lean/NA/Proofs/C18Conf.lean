import NA.Model.MergeConf
import NA.Proofs.C18
/-! Helper lemmas for the configuration-level part of C18: tables, the fold over the anchors of a
file (`ciscoStep`), and what it preserves. -/
deriving instance DecidableEq for Except

namespace NA.C18

/-! ### Tables -/

theorem Table.get?_nil (n : Nat) : Table.get? [] n = none := rfl

theorem Table.get?_cons (c : Nat × Bool × List Entry) (t : Table) (n : Nat) :
    Table.get? (c :: t) n = if c.1 == n then some c.2 else Table.get? t n := by
  unfold Table.get?
  by_cases h : c.1 == n <;> simp [h]

theorem linesOf_nil (n : Nat) : linesOf [] n = [] := rfl

theorem linesOf_cons (c : Nat × Bool × List Entry) (t : Table) (n : Nat) :
    linesOf (c :: t) n = if c.1 == n then c.2.2 else linesOf t n := by
  unfold linesOf
  rw [Table.get?_cons]
  by_cases h : c.1 == n <;> simp [h]

theorem Table.has_cons (c : Nat × Bool × List Entry) (t : Table) (n : Nat) :
    Table.has (c :: t) n = (c.1 == n || Table.has t n) := by
  simp [Table.has]

theorem linesOf_of_not_has (t : Table) (n : Nat) (h : t.has n = false) : linesOf t n = [] := by
  induction t with
  | nil => rfl
  | cons c t ih =>
    rw [Table.has_cons] at h
    simp only [Bool.or_eq_false_iff] at h
    rw [linesOf_cons]; simp [h.1, ih h.2]

theorem linesOf_set_same (t : Table) (n : Nat) (u : Bool) (ls : List Entry) :
    linesOf (t.set n u ls) n = ls := by
  induction t with
  | nil => simp [Table.set, linesOf_cons]
  | cons c t ih =>
    unfold Table.set
    by_cases h : c.1 == n
    · simp [h, linesOf_cons]
    · simp [h, linesOf_cons, ih]

theorem linesOf_set_other (t : Table) (n n' : Nat) (u : Bool) (ls : List Entry) (hne : n' ≠ n) :
    linesOf (t.set n u ls) n' = linesOf t n' := by
  induction t with
  | nil =>
    have : (n == n') = false := by simp; exact fun h => hne h.symm
    simp [Table.set, linesOf_cons, this, linesOf_nil]
  | cons c t ih =>
    unfold Table.set
    by_cases h : c.1 == n
    · have hc : c.1 = n := by simpa using h
      have : (c.1 == n') = false := by simp [hc]; exact fun h => hne h.symm
      rw [if_pos h, linesOf_cons, linesOf_cons]
      simp [this]
    · rw [if_neg h, linesOf_cons, linesOf_cons, ih]

theorem has_set (t : Table) (n n' : Nat) (u : Bool) (ls : List Entry) :
    (t.set n u ls).has n' = (t.has n' || n == n') := by
  induction t with
  | nil => simp [Table.set, Table.has]
  | cons c t ih =>
    unfold Table.set
    by_cases h : c.1 == n
    · have hc : c.1 = n := by simpa using h
      rw [if_pos h, Table.has_cons, Table.has_cons]
      subst hc
      cases c.1 == n' <;> simp
    · rw [if_neg h, Table.has_cons, Table.has_cons, ih, Bool.or_assoc]

theorem linesOf_append_new (t : Table) (n n' : Nat) (u : Bool) (ls : List Entry) (h : t.has n = false) :
    linesOf (t ++ [(n, u, ls)]) n' = if n == n' then ls else linesOf t n' := by
  induction t with
  | nil => simp [linesOf_cons, linesOf_nil]
  | cons c t ih =>
    rw [Table.has_cons] at h
    simp only [Bool.or_eq_false_iff] at h
    rw [List.cons_append, linesOf_cons, linesOf_cons, ih h.2]
    by_cases hc : c.1 == n'
    · have : (n == n') = false := by
        have h1 : c.1 = n' := by simpa using hc
        have h2 : ¬ c.1 = n := by simpa using h.1
        simp; intro h3; exact h2 (h1.trans h3.symm)
      simp [hc, this]
    · simp [hc]

theorem has_append_new (t : Table) (n n' : Nat) (u : Bool) (ls : List Entry) :
    (t ++ [(n, u, ls)]).has n' = (t.has n' || n == n') := by
  simp [Table.has, List.any_append]

theorem get?_some_of_has (t : Table) (n : Nat) (h : t.has n = true) : ∃ u ls, t.get? n = some (u, ls) := by
  induction t with
  | nil => simp [Table.has] at h
  | cons c t ih =>
    rw [Table.get?_cons]
    by_cases hc : c.1 == n
    · exact ⟨c.2.1, c.2.2, by simp [hc]⟩
    · rw [Table.has_cons] at h
      simp only [hc, Bool.false_or] at h
      simpa [hc] using ih h

theorem get?_none_of_not_has (t : Table) (n : Nat) (h : t.has n = false) : t.get? n = none := by
  induction t with
  | nil => rfl
  | cons c t ih =>
    rw [Table.has_cons] at h
    simp only [Bool.or_eq_false_iff] at h
    rw [Table.get?_cons]; simp [h.1, ih h.2]

theorem linesOf_of_get? (t : Table) (n : Nat) (u : Bool) (ls : List Entry) (h : t.get? n = some (u, ls)) :
    linesOf t n = ls := by
  simp [linesOf, h]

/-! ### What the parser keeps: every known line of a container is in the file's table -/

def tableStep (t : Table) (c : Cont) : Table :=
  match t.get? c.name with
  | some (u, ls) => t.set c.name u (ls ++ c.parsed)
  | none => t ++ [(c.name, c.user, c.parsed)]

theorem File.table_eq (f : File) : f.table = f.conts.foldl tableStep [] := rfl

theorem tableStep_grow (t : Table) (c : Cont) (n : Nat) (e : Entry) (h : e ∈ linesOf t n) :
    e ∈ linesOf (tableStep t c) n := by
  unfold tableStep
  cases hg : t.get? c.name with
  | none =>
    have hh : t.has c.name = false := by
      cases hb : t.has c.name with
      | false => rfl
      | true => obtain ⟨u, ls, h2⟩ := get?_some_of_has t c.name hb; rw [hg] at h2; cases h2
    simp only
    rw [linesOf_append_new t c.name n c.user c.parsed hh]
    by_cases hn : c.name == n
    · have : c.name = n := by simpa using hn
      subst this
      rw [linesOf_of_not_has t c.name hh] at h; cases h
    · simp [hn, h]
  | some p =>
    obtain ⟨u, ls⟩ := p
    simp only
    by_cases hn : n = c.name
    · subst hn
      rw [linesOf_set_same]
      rw [linesOf_of_get? t c.name u ls hg] at h
      exact List.mem_append_left _ h
    · rw [linesOf_set_other _ _ _ _ _ hn]; exact h

theorem tableStep_new (t : Table) (c : Cont) (e : Entry) (h : e ∈ c.parsed) :
    e ∈ linesOf (tableStep t c) c.name := by
  unfold tableStep
  cases hg : t.get? c.name with
  | none =>
    have hh : t.has c.name = false := by
      cases hb : t.has c.name with
      | false => rfl
      | true => obtain ⟨u, ls, h2⟩ := get?_some_of_has t c.name hb; rw [hg] at h2; cases h2
    simp only
    rw [linesOf_append_new t c.name c.name c.user c.parsed hh]
    simp [h]
  | some p =>
    obtain ⟨u, ls⟩ := p
    simp only
    rw [linesOf_set_same]
    exact List.mem_append_right _ h

theorem foldl_tableStep_grow (cs : List Cont) (t : Table) (n : Nat) (e : Entry) (h : e ∈ linesOf t n) :
    e ∈ linesOf (cs.foldl tableStep t) n := by
  induction cs generalizing t with
  | nil => exact h
  | cons c cs ih => exact ih _ (tableStep_grow t c n e h)

theorem foldl_tableStep_mem (cs : List Cont) (t : Table) (c : Cont) (hc : c ∈ cs) (e : Entry) (h : e ∈ c.parsed) :
    e ∈ linesOf (cs.foldl tableStep t) c.name := by
  induction cs generalizing t with
  | nil => cases hc
  | cons c' cs ih =>
    rcases List.mem_cons.mp hc with rfl | hc'
    · exact foldl_tableStep_grow cs _ _ _ (tableStep_new t c e h)
    · exact ih _ hc'

/-- Every known line of every container of a file is in the parsed table under the container's name. -/
theorem table_lines (f : File) (c : Cont) (hc : c ∈ f.conts) (l : SrcLine) (hl : l ∈ c.lines)
    (hk : l.known = true) : l.e ∈ linesOf f.table c.name := by
  rw [File.table_eq]
  refine foldl_tableStep_mem _ _ c hc _ ?_
  unfold Cont.parsed
  exact List.mem_map.mpr ⟨l, List.mem_filter.mpr ⟨hl, hk⟩, rfl⟩

theorem tableStep_has (t : Table) (c : Cont) (n : Nat) :
    (tableStep t c).has n = (t.has n || c.name == n) := by
  unfold tableStep
  cases hg : t.get? c.name with
  | none => simp only; rw [has_append_new]
  | some p => obtain ⟨u, ls⟩ := p; simp only; rw [has_set]

theorem foldl_tableStep_has (cs : List Cont) (t : Table) (c : Cont) (hc : c ∈ cs) :
    (cs.foldl tableStep t).has c.name = true := by
  have mono : ∀ (cs : List Cont) (t : Table) (n : Nat), t.has n = true → (cs.foldl tableStep t).has n = true := by
    intro cs
    induction cs with
    | nil => intro t n h; exact h
    | cons c' cs ih => intro t n h; exact ih _ n (by rw [tableStep_has]; simp [h])
  induction cs generalizing t with
  | nil => cases hc
  | cons c' cs ih =>
    rcases List.mem_cons.mp hc with rfl | hc'
    · exact mono cs _ _ (by rw [tableStep_has]; simp)
    · exact ih _ hc'

theorem table_has (f : File) (c : Cont) (hc : c ∈ f.conts) : f.table.has c.name = true := by
  rw [File.table_eq]; exact foldl_tableStep_has _ _ c hc

/-! ### `mergeLines`: repaired generation never fails and keeps every entry -/

theorem mergeLines_new_ok (dev : Dev) (a b : List Entry) : ∃ r, mergeLines dev .new a b = .ok r := by
  cases dev <;> exact ⟨_, rfl⟩

theorem mergeLines_new_mem (dev : Dev) (a b r : List Entry) (h : mergeLines dev .new a b = .ok r) (e : Entry) :
    e ∈ r ↔ e ∈ a ∨ e ∈ b := by
  have hp : r.Perm (a ++ b) := by
    cases dev <;> simp only [mergeLines, Except.ok.injEq] at h <;> subst h
    · exact mergeASA_perm a b
    · exact mergeIOS_perm a b
    · exact mergeLinux_perm a b
    · exact mergePan_perm a b
    · exact List.Perm.refl _
  rw [hp.mem_iff, List.mem_append]

/-! ### The fold -/

theorem foldExcept_append {σ β ε : Type} (f : σ → β → Except ε σ) (s : σ) (l1 l2 : List β) :
    foldExcept f s (l1 ++ l2) = match foldExcept f s l1 with
      | .ok s' => foldExcept f s' l2
      | .error e => .error e := by
  induction l1 generalizing s with
  | nil => rfl
  | cons x xs ih =>
    simp only [List.cons_append, foldExcept]
    cases f s x with
    | ok s' => exact ih s'
    | error e => rfl

/-- An invariant that every successful step preserves holds after a successful fold. -/
theorem foldExcept_inv {σ β ε : Type} (f : σ → β → Except ε σ) (P : σ → Prop)
    (hstep : ∀ s x s', P s → f s x = .ok s' → P s') (s : σ) (l : List β) (s' : σ)
    (h0 : P s) (h : foldExcept f s l = .ok s') : P s' := by
  induction l generalizing s with
  | nil => simp only [foldExcept, Except.ok.injEq] at h; subst h; exact h0
  | cons x xs ih =>
    simp only [foldExcept] at h
    cases hx : f s x with
    | ok s1 => rw [hx] at h; exact ih s1 (hstep s x s1 h0 hx) h
    | error e => rw [hx] at h; cases h

section step
variable (dev : Dev) (g : Gen) (isRaw : Bool) (orig : List Anchor) (bt : Table)

/-- Shape of a successful step. -/
theorem ciscoStep_ok (st st' : St) (k : Anchor) (h : ciscoStep dev g isRaw orig bt st k = .ok st') :
    (∃ ka r, orig.find? (fun ka => ka.key == k.key) = some ka ∧ st.refd.contains k.acl = false ∧
        mergeLines dev g (linesOf st.conts ka.acl) (linesOf bt k.acl) = .ok r ∧
        st' = { st with conts := st.conts.set ka.acl false r, refd := k.acl :: st.refd }) ∨
    (∃ r, orig.find? (fun ka => ka.key == k.key) = none ∧ (isRaw && st.conts.has k.acl) = false ∧
        (g == .new && isRaw && st.refd.contains k.acl) = false ∧
        mergeLines dev g [] (linesOf bt k.acl) = .ok r ∧
        st' = { conts := st.conts.set k.acl false r, anchors := st.anchors ++ [k], refd := k.acl :: st.refd }) := by
  unfold ciscoStep at h
  split at h
  · rename_i ka hf
    split at h
    · cases h
    · rename_i hc
      split at h
      · rename_i r hm
        left
        cases h
        exact ⟨ka, r, hf, by simpa using hc, hm, rfl⟩
      · cases h
  · rename_i hf
    split at h
    · cases h
    · rename_i h1
      split at h
      · cases h
      · rename_i h2
        split at h
        · rename_i r hm
          right
          cases h
          exact ⟨r, hf, by simpa using h1, by simpa using h2, hm, rfl⟩
        · cases h

theorem ciscoStep_refd (st st' : St) (k : Anchor) (h : ciscoStep dev g isRaw orig bt st k = .ok st') :
    st'.refd = k.acl :: st.refd := by
  rcases ciscoStep_ok dev g isRaw orig bt st st' k h with ⟨ka, r, _, _, _, rfl⟩ | ⟨r, _, _, _, _, rfl⟩ <;> rfl

/-- With the repaired code a raw object that was referenced before cannot be referenced again. -/
theorem ciscoStep_err_of_refd (st : St) (k : Anchor) (hr : k.acl ∈ st.refd) :
    ∃ e, ciscoStep dev .new true orig bt st k = .error e := by
  unfold ciscoStep
  cases hf : orig.find? (fun ka => ka.key == k.key) with
  | some ka => exact ⟨.onlyOnce k.acl, by simp [hr]⟩
  | none =>
    cases hh : st.conts.has k.acl with
    | true => exact ⟨.nameClash k.acl, by simp⟩
    | false => exact ⟨.onlyOnce k.acl, by simp [hr]⟩

theorem fold_refd_mono (st st' : St) (l : List Anchor)
    (h : foldExcept (ciscoStep dev g isRaw orig bt) st l = .ok st') (n : Nat) (hn : n ∈ st.refd) :
    n ∈ st'.refd := by
  refine foldExcept_inv _ (fun s => n ∈ s.refd) ?_ st l st' hn h
  intro s x s' hs hx
  rw [ciscoStep_refd dev g isRaw orig bt s s' x hx]
  exact List.mem_cons_of_mem _ hs

theorem fold_refd_subset (st st' : St) (l : List Anchor)
    (h : foldExcept (ciscoStep dev g isRaw orig bt) st l = .ok st') (n : Nat) (hn : n ∈ st'.refd) :
    n ∈ st.refd ∨ ∃ k ∈ l, k.acl = n := by
  induction l generalizing st with
  | nil => simp only [foldExcept, Except.ok.injEq] at h; subst h; exact Or.inl hn
  | cons x xs ih =>
    simp only [foldExcept] at h
    cases hx : ciscoStep dev g isRaw orig bt st x with
    | error e => rw [hx] at h; cases h
    | ok s1 =>
      rw [hx] at h
      rcases ih s1 h with h1 | ⟨k, hk, hk2⟩
      · rw [ciscoStep_refd dev g isRaw orig bt st s1 x hx] at h1
        rcases List.mem_cons.mp h1 with rfl | h1
        · exact Or.inr ⟨x, List.mem_cons_self, rfl⟩
        · exact Or.inl h1
      · exact Or.inr ⟨k, List.mem_cons_of_mem _ hk, hk2⟩

/-- Containers only gain entries and anchors are only added. -/
def Grow (st st' : St) : Prop :=
  (∀ n e, e ∈ linesOf st.conts n → e ∈ linesOf st'.conts n) ∧ (∀ k ∈ st.anchors, k ∈ st'.anchors)

theorem Grow.refl (st : St) : Grow st st := ⟨fun _ _ h => h, fun _ h => h⟩

theorem Grow.trans {s1 s2 s3 : St} (h1 : Grow s1 s2) (h2 : Grow s2 s3) : Grow s1 s3 :=
  ⟨fun n e h => h2.1 n e (h1.1 n e h), fun k h => h2.2 k (h1.2 k h)⟩

theorem ciscoStep_grow (st st' : St) (k : Anchor)
    (h : ciscoStep dev .new isRaw orig bt st k = .ok st') (hs : stepSafe orig st k = true) : Grow st st' := by
  rcases ciscoStep_ok dev .new isRaw orig bt st st' k h with ⟨ka, r, _, _, hm, rfl⟩ | ⟨r, hf, _, _, hm, rfl⟩
  · refine ⟨fun n e he => ?_, fun k hk => hk⟩
    by_cases hn : n = ka.acl
    · subst hn
      simp only
      rw [linesOf_set_same]
      exact (mergeLines_new_mem dev _ _ r hm e).mpr (Or.inl he)
    · simp only
      rw [linesOf_set_other _ _ _ _ _ hn]; exact he
  · have hh : st.conts.has k.acl = false := by
      unfold stepSafe at hs
      simpa [hf] using hs
    refine ⟨fun n e he => ?_, fun k' hk => List.mem_append_left _ hk⟩
    by_cases hn : n = k.acl
    · subst hn
      rw [linesOf_of_not_has _ _ hh] at he; cases he
    · simp only
      rw [linesOf_set_other _ _ _ _ _ hn]; exact he

theorem fold_grow (st st' : St) (l : List Anchor)
    (h : foldExcept (ciscoStep dev .new isRaw orig bt) st l = .ok st')
    (hs : safeRun dev .new isRaw orig bt st l = true) : Grow st st' := by
  induction l generalizing st with
  | nil => simp only [foldExcept, Except.ok.injEq] at h; subst h; exact Grow.refl _
  | cons x xs ih =>
    simp only [foldExcept] at h
    unfold safeRun at hs
    cases hx : ciscoStep dev .new isRaw orig bt st x with
    | error e => rw [hx] at h; cases h
    | ok s1 =>
      rw [hx] at h
      simp only [hx, Bool.and_eq_true] at hs
      exact (ciscoStep_grow dev isRaw orig bt st s1 x hx hs.1).trans (ih s1 h hs.2)

/-- A successful run over a raw file is safe: a new anchor whose ACL name exists is a name clash. -/
theorem safeRun_of_raw (st st' : St) (l : List Anchor)
    (h : foldExcept (ciscoStep dev g true orig bt) st l = .ok st') :
    safeRun dev g true orig bt st l = true := by
  induction l generalizing st with
  | nil => rfl
  | cons x xs ih =>
    simp only [foldExcept] at h
    unfold safeRun
    cases hx : ciscoStep dev g true orig bt st x with
    | error e => rw [hx] at h; cases h
    | ok s1 =>
      rw [hx] at h
      simp only [Bool.and_eq_true]
      refine ⟨?_, ih s1 h⟩
      unfold stepSafe
      rcases ciscoStep_ok dev g true orig bt st s1 x hx with ⟨ka, r, hf, _, _, _⟩ | ⟨r, hf, hh, _, _, _⟩
      · simp [hf]
      · simp only [Bool.true_and] at hh
        simp [hf, hh]

/-- The ACL of a processed anchor ends up, with all its entries, in the ACL bound at the anchor's place. -/
def Landed (st : St) (k : Anchor) : Prop :=
  ∃ k' ∈ st.anchors, k'.key = k.key ∧ ∀ e ∈ linesOf bt k.acl, e ∈ linesOf st.conts k'.acl

theorem Landed.grow {st st' : St} {k : Anchor} (h : Landed bt st k) (hg : Grow st st') : Landed bt st' k := by
  obtain ⟨k', hk', hkey, hl⟩ := h
  exact ⟨k', hg.2 k' hk', hkey, fun e he => hg.1 _ e (hl e he)⟩

theorem ciscoStep_landed (st st' : St) (k : Anchor) (horig : ∀ ka ∈ orig, ka ∈ st.anchors)
    (h : ciscoStep dev .new isRaw orig bt st k = .ok st') : Landed bt st' k := by
  rcases ciscoStep_ok dev .new isRaw orig bt st st' k h with ⟨ka, r, hf, _, hm, rfl⟩ | ⟨r, _, _, _, hm, rfl⟩
  · refine ⟨ka, horig ka (List.mem_of_find?_eq_some hf), ?_, fun e he => ?_⟩
    · have := List.find?_some hf
      simpa using this
    · simp only
      rw [linesOf_set_same]
      exact (mergeLines_new_mem dev _ _ r hm e).mpr (Or.inr he)
  · refine ⟨k, List.mem_append_right _ (List.mem_singleton.mpr rfl), rfl, fun e he => ?_⟩
    simp only
    rw [linesOf_set_same]
    exact (mergeLines_new_mem dev _ _ r hm e).mpr (Or.inr he)

theorem fold_landed (st st' : St) (l : List Anchor) (horig : ∀ ka ∈ orig, ka ∈ st.anchors)
    (h : foldExcept (ciscoStep dev .new isRaw orig bt) st l = .ok st')
    (hs : safeRun dev .new isRaw orig bt st l = true) :
    ∀ k ∈ l, Landed bt st' k := by
  induction l generalizing st with
  | nil => intro k hk; cases hk
  | cons x xs ih =>
    simp only [foldExcept] at h
    unfold safeRun at hs
    cases hx : ciscoStep dev .new isRaw orig bt st x with
    | error e => rw [hx] at h; cases h
    | ok s1 =>
      rw [hx] at h
      simp only [hx, Bool.and_eq_true] at hs
      have hg1 := ciscoStep_grow dev isRaw orig bt st s1 x hx hs.1
      intro k hk
      rcases List.mem_cons.mp hk with rfl | hk'
      · exact (ciscoStep_landed dev isRaw orig bt st s1 k horig hx).grow bt (fold_grow dev isRaw orig bt s1 st' xs h hs.2)
      · exact ih s1 (fun ka hka => hg1.2 ka (horig ka hka)) h hs.2 k hk'

end step

theorem mergeCisco_ok (dev : Dev) (g : Gen) (a : Conf) (f : File) (c : Conf) (w : List Nat)
    (h : mergeCisco dev g a f = .ok (c, w)) :
    ∃ st, foldExcept (ciscoStep dev g f.isRaw a.anchors f.table) { conts := a.conts, anchors := a.anchors } f.anchors = .ok st ∧
      c = { conts := st.conts, anchors := st.anchors } ∧ w = unusedWarnings f.isRaw f.table st.refd := by
  unfold mergeCisco at h
  split at h
  · rename_i st hst
    simp only [Except.ok.injEq, Prod.mk.injEq] at h
    exact ⟨st, hst, h.1.symm, h.2.symm⟩
  · cases h

/-- Two anchors of a raw file naming the same ACL: the repaired merge ends in an error. -/
theorem fold_err_of_dup (dev : Dev) (orig : List Anchor) (bt : Table) (l1 l2 l3 : List Anchor) (k1 k2 : Anchor)
    (hk : k1.acl = k2.acl) (st : St) :
    ∃ e, foldExcept (ciscoStep dev .new true orig bt) st (l1 ++ k1 :: (l2 ++ k2 :: l3)) = .error e := by
  rw [foldExcept_append]
  cases h1 : foldExcept (ciscoStep dev .new true orig bt) st l1 with
  | error e => exact ⟨e, rfl⟩
  | ok s1 =>
    simp only [foldExcept]
    cases h2 : ciscoStep dev .new true orig bt s1 k1 with
    | error e => exact ⟨e, rfl⟩
    | ok s2 =>
      simp only
      rw [foldExcept_append]
      cases h3 : foldExcept (ciscoStep dev .new true orig bt) s2 l2 with
      | error e => exact ⟨e, rfl⟩
      | ok s3 =>
        simp only [foldExcept]
        have hr2 : k1.acl ∈ s2.refd := by
          rw [ciscoStep_refd dev .new true orig bt s1 s2 k1 h2]; exact List.mem_cons_self
        have hr3 : k2.acl ∈ s3.refd := hk ▸ fold_refd_mono dev .new true orig bt s2 s3 l2 h3 _ hr2
        obtain ⟨e, he⟩ := ciscoStep_err_of_refd dev orig bt s3 k2 hr3
        exact ⟨e, by rw [he]⟩

end NA.C18
