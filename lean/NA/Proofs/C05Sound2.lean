import NA.Proofs.C05Inj
/-!
C05 (round 3): `normalize_sound` at rule level.
-/
namespace NA.C05
open NA.Linux NA.Linux.Spec

/-- key and value of the normalised kernel entry of an option -/
def nk : AOpt → Str
  | .src .. => s "-s" | .dst .. => s "-d" | .inIf .. => s "-i" | .proto .. => s "-p"
  | .sport .. => s "--sport" | .dport .. => s "--dport" | .syn .. => s "--syn" | .icmpType .. => s "--icmp-type"
  | .mExplicit .. => s "-m" | .state .. => s "--state" | .jump .. => s "-j" | .goto .. => s "-g"
  | .logLevel .. => s "--log-level" | .setMark .. => s "--set-mark" | .toSource .. => s "--to-source"

def nv (cfg : KCfg) : AOpt → Str
  | .src n ip len _ => normAddr (negPre n.isNeg ++ (ip ++ ['/'] ++ len))
  | .dst n ip len _ => normAddr (negPre n.isNeg ++ (ip ++ ['/'] ++ len))
  | .inIf n name => negPre n.isNeg ++ name
  | .proto n p _ _ => normProto (negPre n.isNeg ++ p.kname cfg.protoNames)
  | .sport ps _ _ => normPort ps.kernel
  | .dport ps _ _ => normPort ps.kernel
  | .syn n _ => negPre n
  | .icmpType t => t
  | .mExplicit n => lower n
  | .state l => normState (joinWith [','] ((kStates l).map Spec.St.name))
  | .jump t => t
  | .goto t => t
  | .logLevel lvl _ => normLog lvl
  | .setMark hex mask _ _ => normMark (s "0x" ++ hex ++ s "/0x" ++ mask)
  | .toSource ip => ip

def isM : AOpt → Bool
  | .mExplicit _ => true
  | _ => false

theorem value_negPre (n : Neg) (k x : Str) :
    (OptW.mk (b2neg n.isNeg) k [x]).value = negPre n.isNeg ++ x := by
  rw [value_neg, b2neg_isNeg]; rfl

/-- The normalised entry of the kernel's spelling of a well formed option. -/
theorem kentry_eq (cfg : KCfg) (a : AOpt) (hwf : a.wf = true) (d : Bool) :
    nEntry d (pkv (a.kernel cfg)) = if isM a = true ∧ d = true then none else some (nk a, nv cfg a) := by
  cases a with
  | src n ip len h =>
    show nEntry d (pkv ⟨b2neg n.isNeg, s "-s", [ip ++ ['/'] ++ len]⟩) =
      some (s "-s", normAddr (negPre n.isNeg ++ (ip ++ ['/'] ++ len)))
    rw [pkv_plain _ _ _ (by decide), nEntry_plain _ _ _ (by decide) (by decide), value_negPre, normVal_s]
  | dst n ip len h =>
    show nEntry d (pkv ⟨b2neg n.isNeg, s "-d", [ip ++ ['/'] ++ len]⟩) =
      some (s "-d", normAddr (negPre n.isNeg ++ (ip ++ ['/'] ++ len)))
    rw [pkv_plain _ _ _ (by decide), nEntry_plain _ _ _ (by decide) (by decide), value_negPre, normVal_d]
  | inIf n name =>
    show nEntry d (pkv ⟨b2neg n.isNeg, s "-i", [name]⟩) = some (s "-i", negPre n.isNeg ++ name)
    rw [pkv_plain _ _ _ (by decide), nEntry_plain _ _ _ (by decide) (by decide), value_negPre,
      normVal_other _ _ (by decide)]
  | proto n p u num =>
    show nEntry d (pkv ⟨b2neg n.isNeg, s "-p", [p.kname cfg.protoNames]⟩) =
      some (s "-p", normProto (negPre n.isNeg ++ p.kname cfg.protoNames))
    rw [pkv_plain _ _ _ (by decide), nEntry_plain _ _ _ (by decide) (by decide), value_negPre, normVal_p]
  | sport ps z o =>
    show nEntry d (pkv ⟨.no, s "--sport", [ps.kernel]⟩) = some (s "--sport", normPort ps.kernel)
    rw [pkv_plain _ _ _ (by decide), nEntry_plain _ _ _ (by decide) (by decide), value_no, join1, normVal_sport]
  | dport ps z o =>
    show nEntry d (pkv ⟨.no, s "--dport", [ps.kernel]⟩) = some (s "--dport", normPort ps.kernel)
    rw [pkv_plain _ _ _ (by decide), nEntry_plain _ _ _ (by decide) (by decide), value_no, join1, normVal_dport]
  | syn n f =>
    obtain ⟨names⟩ := cfg
    cases names <;> cases n <;> cases f <;> cases d <;> decide
  | icmpType t =>
    show nEntry d (pkv ⟨.no, s "--icmp-type", [t]⟩) = some (s "--icmp-type", t)
    rw [pkv_plain _ _ _ (by decide), nEntry_plain _ _ _ (by decide) (by decide), value_no, join1,
      normVal_other _ _ (by decide)]
  | mExplicit name =>
    show nEntry d (pkv ⟨.no, s "-m", [lower name]⟩) = if true = true ∧ d = true then none else some (s "-m", lower name)
    rw [pkv_plain _ _ _ (by decide), value_no, join1]
    cases d with
    | true => simp [nEntry, kM]
    | false =>
      rw [if_neg (by simp)]
      show (if s "-m" = kM ∧ false = true then none
        else if s "-m" = kXmark ∧ xConvV (lower name) = true then some (kMark, normVal kMark (lower name))
        else some (s "-m", normVal (s "-m") (lower name))) = some (s "-m", lower name)
      rw [if_neg (by simp), if_neg (fun hc => absurd hc.1 (by decide)), normVal_other _ _ (by decide)]
  | state l =>
    show nEntry d (pkv ⟨.no, s "--state", [joinWith [','] ((kernelStateOrder.filter (· ∈ l)).map Spec.St.name)]⟩) =
      some (s "--state", normState (joinWith [','] ((kStates l).map Spec.St.name)))
    rw [pkv_plain _ _ _ (by decide), nEntry_plain _ _ _ (by decide) (by decide), value_no, join1, normVal_state]
    rfl
  | jump t =>
    show nEntry d (pkv ⟨.no, s "-j", [t]⟩) = some (s "-j", t)
    rw [pkv_plain _ _ _ (by decide), nEntry_plain _ _ _ (by decide) (by decide), value_no, join1,
      normVal_other _ _ (by decide)]
  | goto t =>
    show nEntry d (pkv ⟨.no, s "-g", [t]⟩) = some (s "-g", t)
    rw [pkv_plain _ _ _ (by decide), nEntry_plain _ _ _ (by decide) (by decide), value_no, join1,
      normVal_other _ _ (by decide)]
  | toSource ip =>
    show nEntry d (pkv ⟨.no, s "--to-source", [ip]⟩) = some (s "--to-source", ip)
    rw [pkv_plain _ _ _ (by decide), nEntry_plain _ _ _ (by decide) (by decide), value_no, join1,
      normVal_other _ _ (by decide)]
  | logLevel lvl dbg =>
    show nEntry d (pkv ⟨.no, s "--log-level", [lvl]⟩) = some (s "--log-level", normLog lvl)
    rw [pkv_plain _ _ _ (by decide), nEntry_plain _ _ _ (by decide) (by decide), value_no, join1, normVal_log]
  | setMark hex mask x v =>
    simp only [AOpt.wf, Bool.and_eq_true, beq_iff_eq] at hwf
    obtain ⟨⟨⟨⟨⟨_, hhex⟩, _⟩, _⟩, _⟩, hmask⟩ := hwf
    subst hmask
    have e2 : s "0x" ++ hex ++ s "/0x" ++ s "ffffffff" = s "0x" ++ hex ++ s "/0xffffffff" := by
      rw [List.append_assoc (s "0x" ++ hex)]; rfl
    show nEntry d (pkv ⟨.no, s "--set-xmark", [s "0x" ++ hex ++ s "/0x" ++ s "ffffffff"]⟩) =
      some (s "--set-mark", normMark (s "0x" ++ hex ++ s "/0x" ++ s "ffffffff"))
    rw [pkv_plain _ _ _ (by decide), value_no, join1, e2]
    unfold nEntry
    rw [if_neg (by intro hc; exact absurd hc.1 kX_ne_kM),
      if_pos ⟨rfl, xConvV_kernel hex (hex_noslash hhex)⟩, normVal_mark]
    rfl

theorem semEntry_plain (cfg : KCfg) (a : AOpt) (h : ∀ hex mask x v, a ≠ .setMark hex mask x v) :
    semEntry cfg a = ((a.kernel cfg).key, (a.kernel cfg).value) := by
  cases a <;> first | rfl | exact absurd rfl (h _ _ _ _)

theorem normLog_canon {lvl : Str} (h : canonNum lvl = true) : normLog lvl = lvl := by
  unfold normLog
  rw [if_neg]
  intro e; rw [e] at h; exact absurd h (by decide)

/-- the constructor of an option, as a number -/
def tag : AOpt → Nat
  | .src .. => 0
  | .dst .. => 1
  | .inIf .. => 2
  | .proto .. => 3
  | .sport .. => 4
  | .dport .. => 5
  | .syn .. => 6
  | .icmpType .. => 7
  | .mExplicit .. => 8
  | .state .. => 9
  | .jump .. => 10
  | .goto .. => 11
  | .logLevel .. => 12
  | .setMark .. => 13
  | .toSource .. => 14

def tagKey : Nat → Str
  | 0 => s "-s"
  | 1 => s "-d"
  | 2 => s "-i"
  | 3 => s "-p"
  | 4 => s "--sport"
  | 5 => s "--dport"
  | 6 => s "--syn"
  | 7 => s "--icmp-type"
  | 8 => s "-m"
  | 9 => s "--state"
  | 10 => s "-j"
  | 11 => s "-g"
  | 12 => s "--log-level"
  | 13 => s "--set-mark"
  | 14 => s "--to-source"
  | _ => []

/-- a cheap discriminator of the fifteen keys -/
def keyCode (x : Str) : Nat := x.foldl (fun n c => n * 31 + c.toNat) 0

def codeTab : Nat → Nat
  | 0 => 1510
  | 1 => 1495
  | 2 => 1500
  | 3 => 1507
  | 4 => 41335629268
  | 5 => 41321776453
  | 6 => 43013416
  | 7 => 38165433208594730
  | 8 => 1504
  | 9 => 41335735025
  | 10 => 1501
  | 11 => 1498
  | 12 => 38168314847632923
  | 13 => 1231420048293624
  | 14 => 38175088508002829
  | _ => 0

theorem nk_tag (a : AOpt) : nk a = tagKey (tag a) := by cases a <;> rfl

theorem tag_lt (a : AOpt) : tag a < 15 := by cases a <;> simp [tag]

theorem code_tagKey : ∀ i, i < 15 → keyCode (tagKey i) = codeTab i := by decide

theorem codeTab_inj : ∀ i, i < 15 → ∀ j, j < 15 → codeTab i = codeTab j → i = j := by decide

theorem tag_of_nk {a1 a2 : AOpt} (h : nk a1 = nk a2) : tag a1 = tag a2 := by
  rw [nk_tag, nk_tag] at h
  have := congrArg keyCode h
  rw [code_tagKey _ (tag_lt a1), code_tagKey _ (tag_lt a2)] at this
  exact codeTab_inj _ (tag_lt a1) _ (tag_lt a2) this

theorem normMark_of_markNorm (t : Str) (n : Int) (h : markNorm t = some n) : normMark t = intToStr n := by
  unfold markNorm at h
  unfold normMark
  simp only at h ⊢
  rw [h]

/-- Normalisation is injective on the kernel's entries: equal normalised entries, equal meaning. -/
theorem kentry_inj (cfg : KCfg) (a1 a2 : AOpt) (w1 : a1.wf = true) (w2 : a2.wf = true)
    (hk : nk a1 = nk a2) (hv : nv cfg a1 = nv cfg a2) : semEntry cfg a1 = semEntry cfg a2 := by
  have ht := tag_of_nk hk
  cases a1 <;> cases a2 <;> simp only [tag] at ht <;>
    first
      | omega
      | skip
  case src.src n1 ip1 len1 h1 n2 ip2 len2 h2 =>
    simp only [AOpt.wf, Bool.and_eq_true] at w1 w2
    simp only [nv] at hv
    have := addr_inj _ _ _ _ _ _ (negPre_noslash _) (ipTok_noslash w1.1) (digits_nochar (canonNum_digits w1.2) '/' (by decide))
      (negPre_noslash _) (ipTok_noslash w2.1) (digits_nochar (canonNum_digits w2.2) '/' (by decide)) hv
    rw [semEntry_plain _ _ (by intros; simp), semEntry_plain _ _ (by intros; simp)]
    simp only [AOpt.kernel, value_negPre]
    exact congrArg (Prod.mk (s "-s")) this
  case dst.dst n1 ip1 len1 h1 n2 ip2 len2 h2 =>
    simp only [AOpt.wf, Bool.and_eq_true] at w1 w2
    simp only [nv] at hv
    have := addr_inj _ _ _ _ _ _ (negPre_noslash _) (ipTok_noslash w1.1) (digits_nochar (canonNum_digits w1.2) '/' (by decide))
      (negPre_noslash _) (ipTok_noslash w2.1) (digits_nochar (canonNum_digits w2.2) '/' (by decide)) hv
    rw [semEntry_plain _ _ (by intros; simp), semEntry_plain _ _ (by intros; simp)]
    simp only [AOpt.kernel, value_negPre]
    exact congrArg (Prod.mk (s "-d")) this
  case inIf.inIf n1 x1 n2 x2 =>
    simp only [nv] at hv
    rw [semEntry_plain _ _ (by intros; simp), semEntry_plain _ _ (by intros; simp)]
    simp only [AOpt.kernel, value_negPre, hv]
  case proto.proto n1 p1 u1 m1 n2 p2 u2 m2 =>
    simp only [nv] at hv
    have := proto_inj cfg n1 n2 p1 p2 u1 m1 u2 m2 w1 w2 hv
    rw [semEntry_plain _ _ (by intros; simp), semEntry_plain _ _ (by intros; simp)]
    simp only [AOpt.kernel, value_negPre, this]
  case sport.sport ps1 z1 o1 ps2 z2 o2 =>
    simp only [AOpt.wf] at w1 w2
    simp only [nv] at hv
    have := port_inj ps1 ps2 w1 w2 hv
    rw [semEntry_plain _ _ (by intros; simp), semEntry_plain _ _ (by intros; simp)]
    simp only [AOpt.kernel, this]
  case dport.dport ps1 z1 o1 ps2 z2 o2 =>
    simp only [AOpt.wf] at w1 w2
    simp only [nv] at hv
    have := port_inj ps1 ps2 w1 w2 hv
    rw [semEntry_plain _ _ (by intros; simp), semEntry_plain _ _ (by intros; simp)]
    simp only [AOpt.kernel, this]
  case syn.syn n1 f1 n2 f2 =>
    simp only [nv] at hv
    have : n1 = n2 := by cases n1 <;> cases n2 <;> first | rfl | (exfalso; revert hv; decide)
    subst this; rfl
  case icmpType.icmpType t1 t2 => simp only [nv] at hv; subst hv; rfl
  case mExplicit.mExplicit x1 x2 =>
    simp only [nv] at hv
    rw [semEntry_plain _ _ (by intros; simp), semEntry_plain _ _ (by intros; simp)]
    simp only [AOpt.kernel, hv]
  case state.state l1 l2 =>
    simp only [AOpt.wf, Bool.and_eq_true, Bool.not_eq_eq_eq_not, Bool.not_true, List.isEmpty_eq_false_iff,
      decide_eq_true_eq] at w1 w2
    simp only [nv] at hv
    have := state_inj l1 l2 w1.1 w1.2 w2.1 w2.2 hv
    rw [semEntry_plain _ _ (by intros; simp), semEntry_plain _ _ (by intros; simp)]
    simp only [AOpt.kernel]
    unfold kStates at this
    rw [this]
  case jump.jump t1 t2 => simp only [nv] at hv; subst hv; rfl
  case goto.goto t1 t2 => simp only [nv] at hv; subst hv; rfl
  case logLevel.logLevel l1 d1 l2 d2 =>
    simp only [AOpt.wf] at w1 w2
    simp only [nv] at hv
    rw [normLog_canon w1, normLog_canon w2] at hv
    subst hv; rfl
  case setMark.setMark hex1 mask1 x1 v1 hex2 mask2 x2 v2 =>
    simp only [nv] at hv
    have key : ∀ (hex mask v : Str) (x : Bool), (AOpt.setMark hex mask x v).wf = true →
        semEntry cfg (.setMark hex mask x v) = (s "--set-xmark", normMark (s "0x" ++ hex ++ s "/0x" ++ mask)) := by
      intro hex mask v x w
      simp only [AOpt.wf, Bool.and_eq_true, beq_iff_eq] at w
      obtain ⟨⟨⟨⟨_, hsome⟩, heq⟩, _⟩, hmask⟩ := w
      subst hmask
      have e2 : s "0x" ++ hex ++ s "/0x" ++ s "ffffffff" = s "0x" ++ hex ++ s "/0xffffffff" := by
        rw [List.append_assoc (s "0x" ++ hex)]; rfl
      have hs : (markNorm (s "0x" ++ hex ++ s "/0xffffffff")).isSome = true := by rw [← heq]; exact hsome
      obtain ⟨n, hn⟩ := Option.isSome_iff_exists.mp hs
      show (s "--set-xmark", match markNorm (s "0x" ++ hex ++ s "/0x" ++ s "ffffffff") with
        | some n => intToStr n
        | none => s "0x" ++ hex ++ s "/0x" ++ s "ffffffff") = _
      rw [e2, hn, normMark_of_markNorm _ _ hn]
    rw [key _ _ _ _ w1, key _ _ _ _ w2, hv]
  case toSource.toSource t1 t2 => simp only [nv] at hv; subst hv; rfl

theorem mem_semEntries (cfg : KCfg) (r : ARule) (e : Str × Str) :
    e ∈ semEntries cfg r ↔ ∃ a ∈ r, isPM (protoOf cfg r) a = false ∧ semEntry cfg a = e := by
  simp only [semEntries, List.mem_map, List.mem_filter, Bool.not_eq_eq_eq_not, Bool.not_true]
  constructor
  · rintro ⟨a, ⟨h1, h2⟩, h3⟩; exact ⟨a, h1, h2, h3⟩
  · rintro ⟨a, h1, h2, h3⟩; exact ⟨a, ⟨h1, h2⟩, h3⟩

/-- the normalised kernel entry of an option that is not a protocol-naming `-m` exists -/
theorem kentry_some (cfg : KCfg) (r : ARule) (H : RuleOK cfg r) (a : AOpt) (ha : a ∈ r)
    (hpm : isPM (protoOf cfg r) a = false) :
    nEntry (mDrop (pairsOf (kernelOpts cfg r) [])) (pkv (a.kernel cfg)) = some (nk a, nv cfg a) := by
  rw [kentry_eq cfg a (H.wf a ha)]
  by_cases hm : isM a = true
  · cases a with
    | mExplicit n =>
      have := (keepK cfg r H n ha hpm).2
      rw [this]; simp
    | _ => simp [isM] at hm
  · rw [if_neg (fun hc => hm hc.1)]

theorem sem_sub (cfg : KCfg) (r1 r2 : ARule) (H1 : RuleOK cfg r1) (H2 : RuleOK cfg r2)
    (hK : PairsEq (normalize (pairsOf (kernelOpts cfg r1) [])) (normalize (pairsOf (kernelOpts cfg r2) []))) :
    ∀ e ∈ semEntries cfg r1, e ∈ semEntries cfg r2 := by
  intro e he
  obtain ⟨a1, ha1, hpm1, rfl⟩ := (mem_semEntries cfg r1 e).mp he
  have h1 := kentry_some cfg r1 H1 a1 ha1 hpm1
  have hg1 := (kernel_norm_entries cfg r1 H1 (nk a1) (nv cfg a1)).mpr ⟨a1, ha1, hpm1, h1⟩
  rw [hK (nk a1)] at hg1
  obtain ⟨a2, ha2, hpm2, h2⟩ := (kernel_norm_entries cfg r2 H2 (nk a1) (nv cfg a1)).mp hg1
  rw [kentry_some cfg r2 H2 a2 ha2 hpm2] at h2
  have hkv := Prod.mk.inj (Option.some.inj h2)
  have := kentry_inj cfg a2 a1 (H2.wf a2 ha2) (H1.wf a1 ha1) hkv.1 hkv.2
  exact (mem_semEntries cfg r2 _).mpr ⟨a2, ha2, hpm2, this⟩

/-- **Rule-level soundness of the normal form.**  Two rules of the grammar (`RuleOK`) whose target
texts give equal option maps after normalisation have the same meaning: the same set of option
meanings (match set and target). -/
theorem normalize_sound_rule (cfg : KCfg) (r1 r2 : ARule) (H1 : RuleOK cfg r1) (H2 : RuleOK cfg r2)
    (h : PairsEq (normalize (pairsOf (userOpts r1) [])) (normalize (pairsOf (userOpts r2) []))) :
    semEqRule cfg r1 r2 = true := by
  have hK : PairsEq (normalize (pairsOf (kernelOpts cfg r1) [])) (normalize (pairsOf (kernelOpts cfg r2) [])) :=
    fun k => (rule_roundtrip cfg r1 H1 k).trans ((h k).trans (rule_roundtrip cfg r2 H2 k).symm)
  have hK' : PairsEq (normalize (pairsOf (kernelOpts cfg r2) [])) (normalize (pairsOf (kernelOpts cfg r1) [])) :=
    fun k => (hK k).symm
  unfold semEqRule
  rw [Bool.and_eq_true, List.all_eq_true, List.all_eq_true]
  exact ⟨fun e he => by simpa using sem_sub cfg r1 r2 H1 H2 hK e he,
         fun e he => by simpa using sem_sub cfg r2 r1 H2 H1 hK' e he⟩

/-- … and the same when one side is what the device prints (kernel spelling): the compare of device
against target finds equal maps only if the rules mean the same. -/
theorem normalize_sound_device (cfg : KCfg) (r1 r2 : ARule) (H1 : RuleOK cfg r1) (H2 : RuleOK cfg r2)
    (h : PairsEq (normalize (pairsOf (kernelOpts cfg r1) [])) (normalize (pairsOf (userOpts r2) []))) :
    semEqRule cfg r1 r2 = true :=
  normalize_sound_rule cfg r1 r2 H1 H2 (fun k => ((rule_roundtrip cfg r1 H1 k).symm).trans (h k))

end NA.C05
