import NA.Proofs.C05Text
/-!
C05 (round 3): every word of a well formed option, in the user's and in the kernel's spelling, is a
word for `strings.Fields` (not empty, no white space).
-/
namespace NA.C05
open NA.Linux NA.Linux.Spec

def NoSp (w : Str) : Prop := ∀ c ∈ w, isSpace c = false

instance (w : Str) : Decidable (NoSp w) := by unfold NoSp; exact inferInstance

theorem NoSp.append {a b : Str} (ha : NoSp a) (hb : NoSp b) : NoSp (a ++ b) := by
  intro c hc; rcases List.mem_append.mp hc with h | h
  · exact ha c h
  · exact hb c h

theorem nosp_plain {w : Str} (h : plainTok w = true) : NoSp w := by
  simp only [plainTok, Bool.and_eq_true, Bool.not_eq_eq_eq_not, Bool.not_true, List.any_eq_false] at h
  intro c hc; simpa using h.1.1.1.2 c hc

theorem ne_nil_plain {w : Str} (h : plainTok w = true) : w ≠ [] := by
  intro e; subst e; simp [plainTok] at h

theorem tok_plain {w : Str} (h : plainTok w = true) : Tok w := ⟨ne_nil_plain h, nosp_plain h⟩

theorem digit_nosp {c : Char} (h : isDigit c = true) : isSpace c = false := by
  simp only [isDigit, Bool.and_eq_true, decide_eq_true_eq] at h
  have h0 : 48 ≤ c.toNat := h.1
  simp only [isSpace, Bool.or_eq_false_iff, beq_eq_false_iff_ne, ne_eq]
  refine ⟨⟨⟨⟨⟨?_, ?_⟩, ?_⟩, ?_⟩, ?_⟩, ?_⟩ <;> (intro e; subst e; simp at h0)

theorem nosp_digits {d : Str} (h : d.all isDigit = true) : NoSp d := by
  intro c hc; exact digit_nosp (List.all_eq_true.mp h c hc)

theorem nosp_canon {d : Str} (h : canonNum d = true) : NoSp d := nosp_digits (canonNum_digits h)

theorem tok_canon {d : Str} (h : canonNum d = true) : Tok d := ⟨canonNum_ne_nil h, nosp_canon h⟩

theorem nosp_zeros (z : Nat) : NoSp (zeros z) := by
  intro c hc; simp [zeros] at hc; rw [hc.2]; rfl

theorem tok_append_left {a b : Str} (ha : Tok a) (hb : NoSp b) : Tok (a ++ b) :=
  ⟨by cases a with
      | nil => exact absurd rfl ha.1
      | cons x xs => simp, NoSp.append ha.2 hb⟩

theorem tok_append_right {a b : Str} (ha : NoSp a) (hb : Tok b) : Tok (a ++ b) :=
  ⟨by intro e; exact hb.1 (List.append_eq_nil_iff.mp e).2, NoSp.append ha hb.2⟩

theorem nosp_join (sep : Str) (l : List Str) (hs : NoSp sep) (hl : ∀ x ∈ l, NoSp x) : NoSp (joinWith sep l) := by
  induction l with
  | nil => intro c hc; simp [joinWith] at hc
  | cons x xs ih =>
    cases xs with
    | nil => simpa [joinWith] using hl x (by simp)
    | cons y ys =>
      simp only [joinWith]
      exact ((hl x (by simp)).append hs).append (ih (fun z hz => hl z (by simp [hz])))

theorem ports_user_tok (ps : Ports) (z : Nat) (o : Bool) (h : ps.wf = true) : Tok (ps.user z o) := by
  cases ps with
  | one p =>
    simp only [Ports.wf] at h
    exact tok_append_right (nosp_zeros z) (tok_canon h)
  | range lo hi =>
    simp only [Ports.wf, Bool.and_eq_true] at h
    obtain ⟨⟨⟨hlo, hhi⟩, _⟩, _⟩ := h
    simp only [Ports.user]
    have hcolon : Tok [':'] := by decide
    apply tok_append_left
    · apply tok_append_right
      · split
        · intro c hc; simp at hc
        · exact (nosp_zeros z).append (nosp_canon hlo)
      · exact hcolon
    · split
      · intro c hc; simp at hc
      · exact nosp_canon hhi

theorem ports_kernel_tok (ps : Ports) (h : ps.wf = true) : Tok ps.kernel := by
  cases ps with
  | one p => simp only [Ports.wf] at h; exact tok_canon h
  | range lo hi =>
    simp only [Ports.wf, Bool.and_eq_true] at h
    obtain ⟨⟨⟨hlo, hhi⟩, _⟩, _⟩ := h
    simp only [Ports.kernel]
    exact tok_append_left (tok_append_left (tok_canon hlo) (by decide)) (nosp_canon hhi)

theorem proto_tok (cfg : KCfg) (n : Neg) (p : Proto) (u num : Bool) (hwf : (AOpt.proto n p u num).wf = true) :
    Tok (p.uname u num) ∧ Tok (p.kname cfg.protoNames) := by
  cases p with
  | num d =>
    simp only [AOpt.wf, Bool.and_eq_true] at hwf
    have hd := canonNum_digits hwf.1.1
    have : (Proto.num d).uname u num = d := by
      unfold Proto.uname Proto.kname
      cases u <;> simp [upper_digits hd]
    rw [this]
    exact ⟨tok_canon hwf.1.1, tok_canon hwf.1.1⟩
  | tcp => obtain ⟨names⟩ := cfg; cases u <;> cases num <;> cases names <;> decide
  | udp => obtain ⟨names⟩ := cfg; cases u <;> cases num <;> cases names <;> decide
  | icmp => obtain ⟨names⟩ := cfg; cases u <;> cases num <;> cases names <;> decide
  | vrrp => obtain ⟨names⟩ := cfg; cases u <;> cases num <;> cases names <;> decide
  | ipv6icmp => obtain ⟨names⟩ := cfg; cases u <;> cases num <;> cases names <;> decide

theorem states_tok (l : List Spec.St) (hne : l ≠ []) : Tok (joinWith [','] (l.map Spec.St.name)) := by
  refine ⟨?_, nosp_join _ _ (by decide) (by
    intro x hx; obtain ⟨y, _, e⟩ := List.mem_map.mp hx; rw [← e]; cases y <;> decide)⟩
  cases l with
  | nil => exact absurd rfl hne
  | cons x xs =>
    have hx : x.name ≠ [] := by cases x <;> decide
    intro e
    have := joinWith_head [','] x.name (xs.map Spec.St.name) hx
    simp only [List.map_cons] at e
    rw [e] at this
    cases hh : x.name with
    | nil => exact hx hh
    | cons a as => rw [hh] at this; simp at this

theorem mname_tok {name : Str} (h : (AOpt.mExplicit name).wf = true) : Tok name ∧ Tok (lower name) := by
  have key : ∀ (t : Str), Tok t → lower name = t → Tok name ∧ Tok (lower name) := by
    intro t ht hl
    refine ⟨⟨?_, ?_⟩, hl ▸ ht⟩
    · intro e; subst e; rw [← hl] at ht; exact ht.1 rfl
    · intro c hc
      have hm : lowerC c ∈ lower name := List.mem_map_of_mem hc
      rw [hl] at hm
      have h1 := ht.2 _ hm
      by_cases hs : isSpace c = true
      · have : lowerC c = c := by
          unfold lowerC
          have : ¬ ('A' ≤ c ∧ c ≤ 'Z') := by
            intro hc'
            simp only [isSpace, Bool.or_eq_true, beq_iff_eq] at hs
            rcases hs with ((((e | e) | e) | e) | e) | e <;> (subst e; revert hc'; decide)
          simp [this]
        rw [this] at h1; rw [h1] at hs; exact absurd hs (by simp)
      · simpa using hs
  simp only [AOpt.wf, Bool.or_eq_true, decide_eq_true_eq] at h
  rcases h with ((h | h) | h) | h
  · subst h; decide
  · exact key _ (by decide) h
  · exact key _ (by decide) h
  · exact key _ (by decide) h

theorem tok_bang : Tok ['!'] := by decide

theorem words_tok (o : OptW) (hk : Tok o.key) (ha : ∀ a ∈ o.args, Tok a) : ∀ w ∈ o.words, Tok w := by
  intro w hw
  unfold OptW.words at hw
  cases hn : o.neg <;> simp only [hn, List.mem_cons] at hw
  · rcases hw with e | h
    · rw [e]; exact hk
    · exact ha w h
  · rcases hw with e | e | h
    · rw [e]; exact tok_bang
    · rw [e]; exact hk
    · exact ha w h
  · rcases hw with e | e | h
    · rw [e]; exact hk
    · rw [e]; exact tok_bang
    · exact ha w h

theorem words_tok1 (n : Neg) (k x : Str) (hk : Tok k) (hx : Tok x) : ∀ w ∈ (OptW.mk n k [x]).words, Tok w :=
  words_tok _ hk (by intro a ha; simp at ha; rw [ha]; exact hx)

/-- The user's words of a well formed option. -/
theorem user_words_tok (a : AOpt) (hwf : a.wf = true) : ∀ w ∈ a.user.words, Tok w := by
  cases a with
  | src n ip len h =>
    simp only [AOpt.wf, Bool.and_eq_true] at hwf
    refine words_tok1 _ _ _ (by decide) ?_
    split
    · exact tok_plain (ipTok_plain hwf.1)
    · exact tok_append_left (tok_append_left (tok_plain (ipTok_plain hwf.1)) (by decide)) (nosp_canon hwf.2)
  | dst n ip len h =>
    simp only [AOpt.wf, Bool.and_eq_true] at hwf
    refine words_tok1 _ _ _ (by decide) ?_
    split
    · exact tok_plain (ipTok_plain hwf.1)
    · exact tok_append_left (tok_append_left (tok_plain (ipTok_plain hwf.1)) (by decide)) (nosp_canon hwf.2)
  | inIf n name => exact words_tok1 _ _ _ (by decide) (tok_plain (by simpa [AOpt.wf] using hwf))
  | proto n p u num => exact words_tok1 _ _ _ (by decide) (proto_tok {} n p u num hwf).1
  | sport ps z o => exact words_tok1 _ _ _ (by decide) (ports_user_tok ps z o (by simpa [AOpt.wf] using hwf))
  | dport ps z o => exact words_tok1 _ _ _ (by decide) (ports_user_tok ps z o (by simpa [AOpt.wf] using hwf))
  | syn n f => cases n <;> cases f <;> decide
  | icmpType t =>
    simp only [AOpt.wf, Bool.and_eq_true] at hwf
    exact words_tok1 _ _ _ (by decide) (tok_plain hwf.1)
  | mExplicit name => exact words_tok1 _ _ _ (by decide) (mname_tok hwf).1
  | state l =>
    simp only [AOpt.wf, Bool.and_eq_true, Bool.not_eq_eq_eq_not, Bool.not_true, List.isEmpty_eq_false_iff,
      decide_eq_true_eq] at hwf
    exact words_tok1 _ _ _ (by decide) (states_tok l hwf.1)
  | jump t => exact words_tok1 _ _ _ (by decide) (tok_plain (by simpa [AOpt.wf] using hwf))
  | goto t => exact words_tok1 _ _ _ (by decide) (tok_plain (by simpa [AOpt.wf] using hwf))
  | logLevel lvl d =>
    refine words_tok1 _ _ _ (by decide) ?_
    split
    · decide
    · exact tok_canon (by simpa [AOpt.wf] using hwf)
  | setMark hex mask x v =>
    simp only [AOpt.wf, Bool.and_eq_true] at hwf
    cases x
    · exact words_tok1 _ _ _ (by decide) (tok_plain hwf.1.1.1.1.1)
    · exact words_tok1 _ _ _ (by decide) (tok_plain hwf.1.1.1.1.1)
  | toSource ip => exact words_tok1 _ _ _ (by decide) (tok_plain (ipTok_plain (by simpa [AOpt.wf] using hwf)))

theorem hex_nosp {hex : Str} (h : hex.all (fun c => isDigit c || ('a' ≤ c && c ≤ 'f')) = true) : NoSp hex := by
  intro c hc
  have := List.all_eq_true.mp h c hc
  simp only [Bool.or_eq_true, Bool.and_eq_true, decide_eq_true_eq] at this
  rcases this with h1 | h1
  · exact digit_nosp h1
  · have h0 : 97 ≤ c.toNat := h1.1
    simp only [isSpace, Bool.or_eq_false_iff, beq_eq_false_iff_ne, ne_eq]
    refine ⟨⟨⟨⟨⟨?_, ?_⟩, ?_⟩, ?_⟩, ?_⟩, ?_⟩ <;> (intro e; subst e; simp at h0)

/-- The kernel's words of a well formed option. -/
theorem kernel_words_tok (cfg : KCfg) (a : AOpt) (hwf : a.wf = true) : ∀ w ∈ (a.kernel cfg).words, Tok w := by
  cases a with
  | src n ip len h =>
    simp only [AOpt.wf, Bool.and_eq_true] at hwf
    exact words_tok1 _ _ _ (by decide)
      (tok_append_left (tok_append_left (tok_plain (ipTok_plain hwf.1)) (by decide)) (nosp_canon hwf.2))
  | dst n ip len h =>
    simp only [AOpt.wf, Bool.and_eq_true] at hwf
    exact words_tok1 _ _ _ (by decide)
      (tok_append_left (tok_append_left (tok_plain (ipTok_plain hwf.1)) (by decide)) (nosp_canon hwf.2))
  | inIf n name => exact words_tok1 _ _ _ (by decide) (tok_plain (by simpa [AOpt.wf] using hwf))
  | proto n p u num => exact words_tok1 _ _ _ (by decide) (proto_tok cfg n p u num hwf).2
  | sport ps z o => exact words_tok1 _ _ _ (by decide) (ports_kernel_tok ps (by simpa [AOpt.wf] using hwf))
  | dport ps z o => exact words_tok1 _ _ _ (by decide) (ports_kernel_tok ps (by simpa [AOpt.wf] using hwf))
  | syn n f => obtain ⟨names⟩ := cfg; cases n <;> cases f <;> cases names <;> decide
  | icmpType t =>
    simp only [AOpt.wf, Bool.and_eq_true] at hwf
    exact words_tok1 _ _ _ (by decide) (tok_plain hwf.1)
  | mExplicit name => exact words_tok1 _ _ _ (by decide) (mname_tok hwf).2
  | state l =>
    simp only [AOpt.wf, Bool.and_eq_true, Bool.not_eq_eq_eq_not, Bool.not_true, List.isEmpty_eq_false_iff,
      decide_eq_true_eq] at hwf
    exact words_tok1 _ _ _ (by decide) (states_tok _ (st_filter_ne l hwf.1 hwf.2))
  | jump t => exact words_tok1 _ _ _ (by decide) (tok_plain (by simpa [AOpt.wf] using hwf))
  | goto t => exact words_tok1 _ _ _ (by decide) (tok_plain (by simpa [AOpt.wf] using hwf))
  | logLevel lvl d => exact words_tok1 _ _ _ (by decide) (tok_canon (by simpa [AOpt.wf] using hwf))
  | setMark hex mask x v =>
    simp only [AOpt.wf, Bool.and_eq_true, beq_iff_eq] at hwf
    obtain ⟨⟨⟨⟨⟨_, hhex⟩, _⟩, _⟩, _⟩, hmask⟩ := hwf
    subst hmask
    refine words_tok1 _ _ _ (by decide) ?_
    have h1 : Tok (s "0x") := by decide
    have h2 : NoSp (s "/0x") := by decide
    have h3 : NoSp (s "ffffffff") := by decide
    exact tok_append_left (tok_append_left (tok_append_left h1 (hex_nosp hhex)) h2) h3
  | toSource ip => exact words_tok1 _ _ _ (by decide) (tok_plain (ipTok_plain (by simpa [AOpt.wf] using hwf)))

end NA.C05
