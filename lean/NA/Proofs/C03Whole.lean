import NA.Proofs.C03WholeR
import NA.Proofs.C03Prov
import NA.Spec.PanOsWhole
/-
C03, whole-vsys theorems, part 14: composition.  For every device vsys `a` and target `b`
without address-groups and service-groups (`PlainPair`) and every valid normalised differ: the
strict device accepts the whole plan, and the vsys it reaches is equivalent to the target.
Core Lean only.
-/
namespace NA.PanOs

/-- The planner's copy of the target rules: sorted lists, new names. -/
def bRulesOf (a b : Vsys) : List Rule :=
  ((sortVsys b).rules.zip (uniqNames (ruleNames (sortVsys a).rules) (ruleNames (sortVsys b).rules))).map
    (fun (r, n) => { r with name := n })

theorem bRulesOf_names (a b : Vsys) : ruleNames (bRulesOf a b) = newRuleNames a b := by
  unfold bRulesOf
  rw [zip_rename_names _ _ (by rw [uniqNames_length]; simp [ruleNames])]
  simp [newRuleNames, sortVsys_ruleNames]

theorem bRulesOf_length (a b : Vsys) : (bRulesOf a b).length = b.rules.length := by
  have := congrArg List.length (bRulesOf_names a b)
  simpa [ruleNames, newRuleNames_length] using this

theorem zip_map_getD (rules : List Rule) (names : List String) (h : names.length = rules.length) (j : Nat)
    (hj : j < rules.length) :
    ((rules.zip names).map (fun (r, n) => { r with name := n })).getD j default =
      { (rules.getD j default) with name := names.getD j "" } := by
  induction rules generalizing names j with
  | nil => simp at hj
  | cons r rs ih =>
    cases names with
    | nil => simp at h
    | cons n ns =>
      cases j with
      | zero => simp
      | succ j =>
        simp only [List.zip_cons_cons, List.map_cons, List.getD_cons_succ]
        exact ih ns (by simpa using h) j (by simpa using hj)

/-- Lists and header of the planner's copy of target rule `j`. -/
theorem bRulesOf_getD (a b : Vsys) (j : Nat) (hj : j < b.rules.length) :
    ((bRulesOf a b).getD j default).hdr = (b.rules.getD j default).hdr ∧
    ((bRulesOf a b).getD j default).src = sortStrings (b.rules.getD j default).src ∧
    ((bRulesOf a b).getD j default).dst = sortStrings (b.rules.getD j default).dst ∧
    ((bRulesOf a b).getD j default).srv = sortStrings (b.rules.getD j default).srv := by
  unfold bRulesOf
  rw [zip_map_getD _ _ (by rw [uniqNames_length]; simp [ruleNames]) j (by simpa [sortVsys] using hj)]
  rw [sortVsys_rules_getD b j hj]
  exact ⟨rfl, rfl, rfl, rfl⟩

theorem lookupObj_some_any {l : List Obj} {n v : String} (h : lookupObj l n = some v) :
    l.any (·.name == n) = true := by
  unfold lookupObj at h
  cases hf : l.find? (·.name == n) with
  | none => simp [hf] at h
  | some o =>
    simp only [List.any_eq_true]
    exact ⟨o, List.mem_of_find?_eq_some hf, by simpa using List.find?_some hf⟩

theorem lookupObj_isSome_of_mem {l : List Obj} {n : String} (h : n ∈ l.map (·.name)) :
    ∃ v, lookupObj l n = some v := by
  cases hl : lookupObj l n with
  | none => exact absurd h ((lookupObj_none_iff l n).mp hl)
  | some v => exact ⟨v, rfl⟩

/-- After the transfer phase every member of every target rule resolves on the device. -/
theorem targetOk_after (sh : Shared) (a b a1 : Vsys) (hP : PlainPair sh a b) (hT : AfterTransfer a b a1) :
    TargetOk sh a1 (bRulesOf a b) := by
  obtain ⟨_, _, _, _, _, _, _, _, _, _, _, hbl, hbr, _, _⟩ := hP
  intro rb hrb
  obtain ⟨j, hj⟩ := List.getElem?_of_mem hrb
  have hjlt : j < b.rules.length := by
    have := (List.getElem?_eq_some_iff.mp hj).1
    rw [bRulesOf_length] at this; exact this
  have hrbj : rb = (bRulesOf a b).getD j default := (getD_of_getElem? hj).symm
  obtain ⟨_, e2, e3, e4⟩ := bRulesOf_getD a b j hjlt
  have hmem : b.rules.getD j default ∈ b.rules := List.mem_of_getElem? (getElem?_of_lt b.rules j hjlt)
  obtain ⟨n1, n2⟩ := hbl _ hmem
  obtain ⟨ra, rs⟩ := hbr _ hmem
  have addrOk : ∀ m, (m ∈ (b.rules.getD j default).src ∨ m ∈ (b.rules.getD j default).dst) →
      addrRefOk sh a1 m = true := by
    intro m hm
    rcases ra m (by simpa using hm) with h | h | h
    · simp [addrRefOk, h]
    · simp [addrRefOk, h]
    · obtain ⟨v, hv⟩ := lookupObj_isSome_of_mem h
      have := hT.addrRef m ⟨_, hmem, hm⟩ h
      rw [hv] at this
      simp [addrRefOk, lookupObj_some_any this]
  have svcOk : ∀ m ∈ (b.rules.getD j default).srv, srvRefOk sh a1 m = true := by
    intro m hm
    rcases rs m hm with h | h | h | h
    · simp [srvRefOk, h]
    · simp [srvRefOk, h]
    · simp [srvRefOk, h]
    · obtain ⟨v, hv⟩ := lookupObj_isSome_of_mem h
      have := hT.svcRef m ⟨_, hmem, hm⟩ h
      rw [hv] at this
      simp [srvRefOk, lookupObj_some_any this]
  rw [hrbj, e2, e3, e4]
  refine ⟨sortStrings_nodup n1, sortStrings_nodup n2, ?_, ?_, ?_⟩
  · intro m hm; exact addrOk m (Or.inl ((mem_sortStrings m _).mp hm))
  · intro m hm; exact addrOk m (Or.inr ((mem_sortStrings m _).mp hm))
  · intro m hm; exact svcOk m ((mem_sortStrings m _).mp hm)
end NA.PanOs

namespace NA.PanOs

/-- The order-relevant requests of `plainRuleCmds` (for the script the differ returns). -/
theorem plainRuleCmds_ord (diff : Differ) (hd : GoodDiffer diff) (sa sb : Vsys) (A B : List Rule) :
    (plainRuleCmds diff A B (diff A.length B.length
        (fun i j => ruleEqual sa sb (A.getD i default) (B.getD j default)))).filterMap ordOf =
      orderOps (ruleNames A) (ruleNames B) (diff A.length B.length
        (fun i j => ruleEqual sa sb (A.getD i default) (B.getD j default))) := by
  have h0 : NoGrp ({} : St) := ⟨rfl, rfl⟩
  have h1 := diffRules_noGrp diff hd 0 ({} : St) h0 sa sb A B
  have h2 := diffRules_ord diff (0 + 1) ({} : St) sa sb A B
  rw [h1] at h2
  simpa [St.emitAll] using h2

theorem ruleScript_eq (diff : Differ) (a b : Vsys) :
    ruleScript diff a b = diff (sortVsys a).rules.length (bRulesOf a b).length
      (fun i j => ruleEqual (sortVsys a) (sortVsys b) ((sortVsys a).rules.getD i default)
        ((bRulesOf a b).getD j default)) := rfl

/-- What a rule of the device says compared with the target rule at the same position. -/
def RuleLike (r rb : Rule) : Prop :=
  r.hdr = rb.hdr ∧ SameMem r.src rb.src ∧ SameMem r.dst rb.dst ∧ SameMem r.srv rb.srv

/-- **Rule phase.**  From the state after the transfer phase the device accepts all rule
requests; afterwards it has one rule per target rule, in the target's order, each with the
target rule's header and lists (as sets); the object tables are untouched. -/
theorem plain_rulePhase (sh : Shared) (diff : Differ) (hd : GoodDiffer diff) (a b a1 : Vsys)
    (hP : PlainPair sh a b) (hT : AfterTransfer a b a1) :
    ∃ w2, Runs sh a1 (plainRuleCmds diff (sortVsys a).rules (bRulesOf a b) (ruleScript diff a b)) w2 ∧
      w2.addrs = a1.addrs ∧ w2.svcs = a1.svcs ∧ w2.groups = a1.groups ∧ w2.sgroups = a1.sgroups ∧
      w2.name = a1.name ∧ w2.rules.length = b.rules.length ∧ (ruleNames w2.rules).Nodup ∧
      ∀ (t : Nat) (r : Rule), w2.rules[t]? = some r → RuleLike r (b.rules.getD t default) := by
  have htg := targetOk_after sh a b a1 hP hT
  obtain ⟨_, _, _, _, han, hbn, _, _, _, _, hal, hbl, _, _, _⟩ := hP
  -- the script
  obtain ⟨hv, hn⟩ := hd (sortVsys a).rules.length (bRulesOf a b).length
    (fun i j => ruleEqual (sortVsys a) (sortVsys b) ((sortVsys a).rules.getD i default)
      ((bRulesOf a b).getD j default))
  rw [← ruleScript_eq diff a b] at hv hn
  obtain ⟨hvf, hnf⟩ := walkScript_valid hv hn
  obtain ⟨hsame1, hsame2⟩ := walkScript_same diff (sortVsys a).rules (bRulesOf a b) (ruleScript diff a b)
  -- names
  have hnamesA : ruleNames (sortVsys a).rules = ruleNames a.rules := sortVsys_ruleNames a
  have hlenA : (sortVsys a).rules.length = a.rules.length := by simp [sortVsys]
  have hnamesB := bRulesOf_names a b
  have hlenB := bRulesOf_length a b
  obtain ⟨hfresh, hndB, _⟩ := uniqNames_spec suffixInj (ruleNames a.rules) (ruleNames b.rules) hbn
  have hndA : (ruleNames (sortVsys a).rules).Nodup := by rw [hnamesA]; exact han
  have hndB' : (ruleNames (bRulesOf a b)).Nodup := by rw [hnamesB]; exact hndB
  have nameA : ∀ i, i < (sortVsys a).rules.length →
      ((sortVsys a).rules.getD i default).name ∈ ruleNames a.rules := by
    intro i hi
    rw [← hnamesA]
    exact List.mem_map_of_mem (List.mem_of_getElem? (getElem?_of_lt _ i hi))
  have nameB : ∀ j, j < (bRulesOf a b).length → ((bRulesOf a b).getD j default).name ∈ newRuleNames a b := by
    intro j hj
    rw [← hnamesB]
    exact List.mem_map_of_mem (List.mem_of_getElem? (getElem?_of_lt _ j hj))
  have hdisj : ∀ i j, i < (sortVsys a).rules.length → j < (bRulesOf a b).length →
      ((sortVsys a).rules.getD i default).name ≠ ((bRulesOf a b).getD j default).name := by
    intro i j hi hj e
    exact hfresh _ (nameB j hj) (e ▸ nameA i hi)
  have hsc := sortedCopy_sortVsys a hal
  -- lookups in the state after the transfer
  have hlook0 : ∀ i, 0 ≤ i → i < (sortVsys a).rules.length →
      findRule a1.rules ((sortVsys a).rules.getD i default).name = some (a.rules.getD i default) := by
    intro i _ hi
    rw [hT.rules, (hsc.2 i (by omega)).1]
    exact findRule_of_getElem? han (getElem?_of_lt a.rules i (by omega))
  have hnone0 : ∀ j, j < (bRulesOf a b).length → findRule a1.rules ((bRulesOf a b).getD j default).name = none := by
    intro j hj
    rw [hT.rules, findRule_none_iff]
    have := hfresh _ (nameB j hj)
    simpa using this
  -- first loop
  obtain ⟨w1, hw1, e1, d1, f1, b1, c1, s1, s2, s3, s4, s5⟩ := runs_phase1 sh diff hd a.rules (sortVsys a).rules
    (bRulesOf a b) hsc hndA
    (fun i j => ruleEqual (sortVsys a) (sortVsys b) ((sortVsys a).rules.getD i default)
      ((bRulesOf a b).getD j default))
    (by
      intro i j _ _ h
      unfold ruleEqual at h
      simp only [Bool.and_eq_true, beq_iff_eq] at h
      exact h.1.1.1)
    (walkScript (sortVsys a).rules.length (bRulesOf a b).length (ruleScript diff a b)) 0 0 a1 hvf htg hlook0
  -- second loop
  obtain ⟨w2, hw2, p1, p2, p3, t1, t2, t3, t4, t5⟩ := runs_phase2 sh (sortVsys a).rules (bRulesOf a b) hndB' hdisj
    (fun i j => ruleEqual (sortVsys a) (sortVsys b) ((sortVsys a).rules.getD i default)
      ((bRulesOf a b).getD j default))
    (walkScript (sortVsys a).rules.length (bRulesOf a b).length (ruleScript diff a b)) 0 0 0 w1 hvf hnf (Nat.le_refl _)
    (by
      intro rb hrb
      obtain ⟨_, _, x, y, z⟩ := htg rb hrb
      exact ⟨fun m hm => by rw [refOk_congr sh s1 s2 s3 s4]; exact x m hm,
        fun m hm => by rw [refOk_congr sh s1 s2 s3 s4]; exact y m hm,
        fun m hm => by rw [refOk_congr sh s1 s2 s3 s4]; exact z m hm⟩)
    (by
      intro j _ hj
      rw [f1 _ (fun i _ hi => (hdisj i j hi hj).symm)]
      exact hnone0 j hj)
    (by
      intro p hp
      obtain ⟨r', hr', _⟩ := e1 p hp
      rw [hr']; rfl)
  have hruns : Runs sh a1 (plainRuleCmds diff (sortVsys a).rules (bRulesOf a b) (ruleScript diff a b)) w2 := by
    rw [← hsame1]
    exact hw1.append hw2
  -- the order of the names
  have hord := execAll_ord sh (plainRuleCmds diff (sortVsys a).rules (bRulesOf a b) (ruleScript diff a b)) a1
  unfold Runs at hruns
  rw [hruns] at hord
  simp only [List.take_length] at hord
  rw [ruleScript_eq diff a b, plainRuleCmds_ord diff hd, ← ruleScript_eq diff a b] at hord
  have hconv := order_converges (ruleNames (sortVsys a).rules) (ruleNames (bRulesOf a b)) (ruleScript diff a b)
    (by simpa [ruleNames] using hv) hn (by
      rw [hnamesA, hnamesB]
      exact uniqNames_nodup_append suffixInj _ _ han hbn)
  have hnames2 : ruleNames w2.rules = targetOrder (ruleNames (sortVsys a).rules) (ruleNames (bRulesOf a b))
      (walkScript (sortVsys a).rules.length (bRulesOf a b).length (ruleScript diff a b)) := by
    rw [hsame2]
    have : ruleNames a1.rules = ruleNames (sortVsys a).rules := by rw [hT.rules, hnamesA]
    rw [this, hconv] at hord
    exact (Option.some.inj hord).symm
  have hnd2 : (ruleNames w2.rules).Nodup := by
    have : ruleNames a1.rules = ruleNames (sortVsys a).rules := by rw [hT.rules, hnamesA]
    have hrun : runOrd (ruleNames (sortVsys a).rules) (orderOps (ruleNames (sortVsys a).rules)
        (ruleNames (bRulesOf a b)) (ruleScript diff a b)) = some (ruleNames w2.rules) := by
      rw [hconv, hnames2, hsame2]
    exact runOrd_nodup _ _ _ hrun hndA
  have hvf' : validFrom (fun i j => ruleEqual (sortVsys a) (sortVsys b) ((sortVsys a).rules.getD i default)
      ((bRulesOf a b).getD j default)) (ruleNames (sortVsys a).rules).length (ruleNames (bRulesOf a b)).length 0 0
      (walkScript (sortVsys a).rules.length (bRulesOf a b).length (ruleScript diff a b)) = true := by
    simpa [ruleNames] using hvf
  have hlen2 : w2.rules.length = b.rules.length := by
    have := targetOrder_length (ruleNames (sortVsys a).rules) (ruleNames (bRulesOf a b)) _ 0 0 hvf'
    rw [← hnames2] at this
    simpa [ruleNames, hlenB] using this
  refine ⟨w2, hruns, t1.trans s1, t2.trans s2, t3.trans s3, t4.trans s4, t5.trans s5, hlen2, hnd2, ?_⟩
  -- every position
  intro t r hr
  have htlt : t < b.rules.length := by
    rw [← hlen2]; exact (List.getElem?_eq_some_iff.mp hr).1
  have hname : (ruleNames w2.rules)[t]? = some r.name := by
    rw [ruleNames, List.getElem?_map, hr]; rfl
  have hfind : findRule w2.rules r.name = some r := findRule_of_getElem? hnd2 hr
  obtain ⟨g1, g2, g3, g4⟩ := bRulesOf_getD a b t htlt
  rcases targetOrder_spec (ruleNames (sortVsys a).rules) (ruleNames (bRulesOf a b)) _ 0 0 hvf' t (Nat.zero_le _)
      (by simpa [ruleNames, hlenB] using htlt) with ⟨i, hi, he⟩ | ⟨hi, he⟩
  · -- kept rule
    obtain ⟨_, hiA, _, _⟩ := eqPairs_bounds _ _ 0 0 hvf (i, t) hi
    obtain ⟨r', hr', hg⟩ := e1 (i, t) hi
    simp only at hr' hg hiA
    have hnm : r.name = ((sortVsys a).rules.getD i default).name := by
      rw [← hnames2, Nat.sub_zero, hname] at he
      rw [ruleNames, List.getElem?_map, getElem?_of_lt _ i hiA] at he
      simpa using he
    have hfind2 : findRule w2.rules r.name = some r' := by
      rw [hnm, p2 _ (fun j _ hj => hdisj i j hiA hj)]
      exact hr'
    rw [hfind] at hfind2
    cases hfind2
    obtain ⟨_, q2, q3, q4, q5⟩ := hg
    refine ⟨by rw [q2, g1], ?_, ?_, ?_⟩
    · rw [g2] at q3; exact q3.trans (sortStrings_sameMem _).symm
    · rw [g3] at q4; exact q4.trans (sortStrings_sameMem _).symm
    · rw [g4] at q5; exact q5.trans (sortStrings_sameMem _).symm
  · -- inserted rule
    have hnm : r.name = ((bRulesOf a b).getD t default).name := by
      rw [← hnames2, Nat.sub_zero, hname] at he
      rw [ruleNames, List.getElem?_map, getElem?_of_lt _ t (by rw [hlenB]; exact htlt)] at he
      simpa using he
    have hfind2 : findRule w2.rules r.name = some ((bRulesOf a b).getD t default) := by
      rw [hnm]; exact p1 t hi
    rw [hfind] at hfind2
    cases hfind2
    refine ⟨g1, ?_, ?_, ?_⟩
    · rw [g2]; exact (sortStrings_sameMem _).symm
    · rw [g3]; exact (sortStrings_sameMem _).symm
    · rw [g4]; exact (sortStrings_sameMem _).symm
end NA.PanOs

namespace NA.PanOs

theorem sublist_filter_map_nodup {l : List AObj} (h : (l.map (·.o.name)).Nodup) (p : AObj → Bool) :
    ((l.filter p).map (·.o.name)).Nodup :=
  (List.Sublist.map _ List.filter_sublist).nodup h

/-- **The whole plan on the strict device** (pairs without address-groups and service-groups):
every request is accepted, and the vsys reached is equivalent to the target. -/
theorem plain_converges_full (sh : Shared) (diff : Differ) (hd : GoodDiffer diff) (a b : Vsys)
    (hP : PlainPair sh a b) :
    ∃ w, Runs sh a (planVsys diff a b) w ∧ equiv w b = true ∧
      w.groups = [] ∧ w.sgroups = [] ∧ w.name = a.name ∧ w.rules.length = b.rules.length ∧
      (ruleNames w.rules).Nodup ∧
      (∀ (t : Nat) (r : Rule), w.rules[t]? = some r → RuleLike r (b.rules.getD t default)) ∧
      (∀ x, RefAddr b x → (x = "any" ∨ x ∈ sh ∨ x ∈ b.addrs.map (·.name)) →
        lookupObj w.addrs x = lookupObj b.addrs x) ∧
      (∀ x, RefSvc b x → (x = "any" ∨ x = "application-default" ∨ x ∈ sh ∨ x ∈ b.svcs.map (·.name)) →
        lookupObj w.svcs x = lookupObj b.svcs x) ∧
      (∀ x ∈ w.addrs.map (·.name), RefAddr b x) ∧ (∀ x ∈ w.svcs.map (·.name), RefSvc b x) := by
  have hP' := hP
  obtain ⟨hag, hbg, hasg, hbsg, han, hbn, haan, hban, hasn, hbsn, hal, hbl, hbr, hres, hsres⟩ := hP
  obtain ⟨q1, q2, q3, q4, hout⟩ := planState_plain diff hd a b hag hbg hasg hbsg
  have hflags := planState_planFlags diff a b hbg hbsg
  have hA := addrSummary_of_planFlags hflags haan
  have hS := svcSummary_of_planFlags hflags hasn
  -- transfer
  obtain ⟨a1, ha1, hT, hTnA, hTnS⟩ := runs_transfer sh a b _ hA hS q2 q4 hban hbsn
  -- rules
  obtain ⟨w2, hw2, s1, s2, s3, s4, s5, hlen, hnd, hlike⟩ := plain_rulePhase sh diff hd a b a1 hP' hT
  rw [show (bRulesOf a b) = (((sortVsys b).rules.zip (uniqNames (ruleNames (sortVsys a).rules)
    (ruleNames (sortVsys b).rules))).map (fun (r, n) => { r with name := n })) from rfl, ← hout] at hw2
  -- which names the rules of w2 use
  have usesA : ∀ r ∈ w2.rules, ∀ x, (x ∈ r.src ∨ x ∈ r.dst) → RefAddr b x ∧
      (x = "any" ∨ x ∈ sh ∨ x ∈ b.addrs.map (·.name)) := by
    intro r hr x hx
    obtain ⟨t, ht⟩ := List.getElem?_of_mem hr
    obtain ⟨_, l1, l2, _⟩ := hlike t r ht
    have htlt : t < b.rules.length := by rw [← hlen]; exact (List.getElem?_eq_some_iff.mp ht).1
    have hmem : b.rules.getD t default ∈ b.rules := List.mem_of_getElem? (getElem?_of_lt b.rules t htlt)
    have hx' : x ∈ (b.rules.getD t default).src ∨ x ∈ (b.rules.getD t default).dst := by
      rcases hx with hx | hx
      · exact Or.inl ((l1 x).mp hx)
      · exact Or.inr ((l2 x).mp hx)
    exact ⟨⟨_, hmem, hx'⟩, (hbr _ hmem).1 x (by simpa using hx')⟩
  have usesS : ∀ r ∈ w2.rules, ∀ x, x ∈ r.srv → RefSvc b x ∧
      (x = "any" ∨ x = "application-default" ∨ x ∈ sh ∨ x ∈ b.svcs.map (·.name)) := by
    intro r hr x hx
    obtain ⟨t, ht⟩ := List.getElem?_of_mem hr
    obtain ⟨_, _, _, l3⟩ := hlike t r ht
    have htlt : t < b.rules.length := by rw [← hlen]; exact (List.getElem?_eq_some_iff.mp ht).1
    have hmem : b.rules.getD t default ∈ b.rules := List.mem_of_getElem? (getElem?_of_lt b.rules t htlt)
    have hx' := (l3 x).mp hx
    exact ⟨⟨_, hmem, hx'⟩, (hbr _ hmem).2 x hx'⟩
  -- removal of addresses
  have hanames := map_o_name_a hA.adefs
  have hsnames := map_o_name_a hS.adefs
  have hrm := removeCmds_plain (planState diff a b) q1 q3
  have xsA_mem : ∀ x, x ∈ ((planState diff a b).aAddr.filter (fun o => !o.needed)).map (·.o.name) →
      x ∈ a.addrs.map (·.name) ∧ ∃ oa ∈ (planState diff a b).aAddr, oa.o.name = x ∧ oa.needed = false := by
    intro x hx
    obtain ⟨oa, hoa, rfl⟩ := List.mem_map.mp hx
    obtain ⟨h1, h2⟩ := List.mem_filter.mp hoa
    exact ⟨by rw [← hanames]; exact List.mem_map_of_mem h1, oa, h1, rfl, by simpa using h2⟩
  have xsS_mem : ∀ x, x ∈ ((planState diff a b).aSvc.filter (fun o => !o.needed)).map (·.o.name) →
      x ∈ a.svcs.map (·.name) ∧ ∃ oa ∈ (planState diff a b).aSvc, oa.o.name = x ∧ oa.needed = false := by
    intro x hx
    obtain ⟨oa, hoa, rfl⟩ := List.mem_map.mp hx
    obtain ⟨h1, h2⟩ := List.mem_filter.mp hoa
    exact ⟨by rw [← hsnames]; exact List.mem_map_of_mem h1, oa, h1, rfl, by simpa using h2⟩
  -- a removed address is not a name the target's rules use
  have notRefA : ∀ x, x ∈ ((planState diff a b).aAddr.filter (fun o => !o.needed)).map (·.o.name) →
      RefAddr b x → (x = "any" ∨ x ∈ sh ∨ x ∈ b.addrs.map (·.name)) → False := by
    intro x hx href hcase
    obtain ⟨hxa, oa, hoa, hname, hneed⟩ := xsA_mem x hx
    obtain ⟨r1, r2⟩ := hres x hxa
    rcases hcase with h | h | h
    · exact r1 h
    · exact r2 h
    · have := hA.marked x href h oa hoa hname
      rw [hneed] at this; cases this
  have notRefS : ∀ x, x ∈ ((planState diff a b).aSvc.filter (fun o => !o.needed)).map (·.o.name) →
      RefSvc b x → (x = "any" ∨ x = "application-default" ∨ x ∈ sh ∨ x ∈ b.svcs.map (·.name)) → False := by
    intro x hx href hcase
    obtain ⟨hxa, oa, hoa, hname, hneed⟩ := xsS_mem x hx
    obtain ⟨r1, r2, r3⟩ := hsres x hxa
    rcases hcase with h | h | h | h
    · exact r1 h
    · exact r2 h
    · exact r3 h
    · have := hS.marked x href h oa hoa hname
      rw [hneed] at this; cases this
  obtain ⟨w3, hw3, u1, u2, u3, u4, u5, ulook, ugone⟩ := runs_delAddrs sh
    (((planState diff a b).aAddr.filter (fun o => !o.needed)).map (·.o.name)) w2
    (sublist_filter_map_nodup (by rw [hanames]; exact haan) _)
    (by
      intro x hx
      rw [s1]
      exact hT.addrKeep x (xsA_mem x hx).1)
    (by
      intro x hx
      unfold addrUsed
      rw [s3, hT.groups, hag]
      simp only [List.any_nil, Bool.or_false]
      rw [Bool.eq_false_iff]
      intro hany
      simp only [List.any_eq_true, Bool.or_eq_true, List.contains_iff_mem] at hany
      obtain ⟨r, hr, hxr⟩ := hany
      obtain ⟨href, hcase⟩ := usesA r hr x hxr
      exact notRefA x hx href hcase)
  obtain ⟨w, hw, v1, v2, v3, v4, v5, vlook, vgone⟩ := runs_delSvcs sh
    (((planState diff a b).aSvc.filter (fun o => !o.needed)).map (·.o.name)) w3
    (sublist_filter_map_nodup (by rw [hsnames]; exact hasn) _)
    (by
      intro x hx
      rw [u2, s2]
      exact hT.svcKeep x (xsS_mem x hx).1)
    (by
      intro x hx
      unfold srvUsed
      rw [u4, s4, hT.sgroups, hasg, u1]
      simp only [List.any_nil, Bool.or_false]
      rw [Bool.eq_false_iff]
      intro hany
      simp only [List.any_eq_true, List.contains_iff_mem] at hany
      obtain ⟨r, hr, hxr⟩ := hany
      obtain ⟨href, hcase⟩ := usesS r hr x hxr
      exact notRefS x hx href hcase)
  -- the whole run
  have hruns : Runs sh a (planVsys diff a b) w := by
    unfold planVsys
    simp only
    rw [hrm]
    have e1 : ((planState diff a b).aAddr.filter (fun o => !o.needed)).map (fun o => Cmd.delAddr o.o.name) =
        (((planState diff a b).aAddr.filter (fun o => !o.needed)).map (·.o.name)).map Cmd.delAddr := by
      simp [List.map_map, Function.comp_def]
    have e2 : ((planState diff a b).aSvc.filter (fun o => !o.needed)).map (fun o => Cmd.delSvc o.o.name) =
        (((planState diff a b).aSvc.filter (fun o => !o.needed)).map (·.o.name)).map Cmd.delSvc := by
      simp [List.map_map, Function.comp_def]
    rw [e1, e2]
    exact (ha1.append hw2).append (hw3.append hw)
  have hwrules : w.rules = w2.rules := v1.trans u1
  have hwg : w.groups = [] := by rw [v3, u3, s3, hT.groups, hag]
  have hwsg : w.sgroups = [] := by rw [v4, u4, s4, hT.sgroups, hasg]
  -- lookups in the final state
  have lookA : ∀ x, RefAddr b x → (x = "any" ∨ x ∈ sh ∨ x ∈ b.addrs.map (·.name)) →
      lookupObj w.addrs x = lookupObj b.addrs x := by
    intro x href hcase
    have hnotrm : x ∉ ((planState diff a b).aAddr.filter (fun o => !o.needed)).map (·.o.name) :=
      fun hx => notRefA x hx href hcase
    rw [v2, ulook x hnotrm, s1]
    by_cases hxb : x ∈ b.addrs.map (·.name)
    · exact hT.addrRef x href hxb
    · rw [hT.addrOther x hxb, (lookupObj_none_iff b.addrs x).mpr hxb, lookupObj_none_iff]
      intro hxa
      obtain ⟨r1, r2⟩ := hres x hxa
      rcases hcase with h | h | h
      · exact r1 h
      · exact r2 h
      · exact hxb h
  have lookS : ∀ x, RefSvc b x → (x = "any" ∨ x = "application-default" ∨ x ∈ sh ∨ x ∈ b.svcs.map (·.name)) →
      lookupObj w.svcs x = lookupObj b.svcs x := by
    intro x href hcase
    have hnotrm : x ∉ ((planState diff a b).aSvc.filter (fun o => !o.needed)).map (·.o.name) :=
      fun hx => notRefS x hx href hcase
    rw [vlook x hnotrm, u2, s2]
    by_cases hxb : x ∈ b.svcs.map (·.name)
    · exact hT.svcRef x href hxb
    · rw [hT.svcOther x hxb, (lookupObj_none_iff b.svcs x).mpr hxb, lookupObj_none_iff]
      intro hxa
      obtain ⟨r1, r2, r3⟩ := hsres x hxa
      rcases hcase with h | h | h | h
      · exact r1 h
      · exact r2 h
      · exact r3 h
      · exact hxb h
  -- every object left on the device is one a rule of the target uses
  obtain ⟨provA, provS⟩ := planState_prov diff a b hbg hbsg
  have refA : ∀ x ∈ w.addrs.map (·.name), RefAddr b x := by
    intro x hx
    rw [v2] at hx
    have hne : lookupObj w3.addrs x ≠ none := fun h => (lookupObj_none_iff _ _).mp h hx
    have hnx : x ∉ ((planState diff a b).aAddr.filter (fun o => !o.needed)).map (·.o.name) :=
      fun h => hne (ugone x h)
    rw [ulook x hnx, s1] at hne
    have hx1 : x ∈ a1.addrs.map (·.name) := by
      apply Decidable.byContradiction
      intro h; exact hne ((lookupObj_none_iff _ _).mpr h)
    rcases hTnA x hx1 with h | ⟨ob, hob, hf, hn⟩
    · rw [← hanames] at h
      obtain ⟨oa, hoa, rfl⟩ := List.mem_map.mp h
      have hneed : oa.needed = true := by
        cases hq : oa.needed with
        | true => rfl
        | false =>
          exact absurd (List.mem_map.mpr ⟨oa, List.mem_filter.mpr ⟨hoa, by simp [hq]⟩, rfl⟩) hnx
      exact provA.2 oa hoa hneed
    · rw [← hn]
      apply provA.1 ob hob
      simp only [BObj.flagged, Bool.or_eq_true] at hf
      rcases hf with hf | hf
      · exact Or.inr hf
      · exact Or.inl hf
  have refS : ∀ x ∈ w.svcs.map (·.name), RefSvc b x := by
    intro x hx
    have hne : lookupObj w.svcs x ≠ none := fun h => (lookupObj_none_iff _ _).mp h hx
    have hnx : x ∉ ((planState diff a b).aSvc.filter (fun o => !o.needed)).map (·.o.name) :=
      fun h => hne (vgone x h)
    rw [vlook x hnx, u2, s2] at hne
    have hx1 : x ∈ a1.svcs.map (·.name) := by
      apply Decidable.byContradiction
      intro h; exact hne ((lookupObj_none_iff _ _).mpr h)
    rcases hTnS x hx1 with h | ⟨ob, hob, hf, hn⟩
    · rw [← hsnames] at h
      obtain ⟨oa, hoa, rfl⟩ := List.mem_map.mp h
      have hneed : oa.needed = true := by
        cases hq : oa.needed with
        | true => rfl
        | false =>
          exact absurd (List.mem_map.mpr ⟨oa, List.mem_filter.mpr ⟨hoa, by simp [hq]⟩, rfl⟩) hnx
      exact provS.2 oa hoa hneed
    · rw [← hn]
      apply provS.1 ob hob
      simp only [BObj.flagged, Bool.or_eq_true] at hf
      rcases hf with hf | hf
      · exact Or.inr hf
      · exact Or.inl hf
  refine ⟨w, hruns, ?_, hwg, hwsg, by rw [v5, u5, s5, hT.name], by rw [hwrules]; exact hlen,
    by rw [hwrules]; exact hnd, by rw [hwrules]; exact hlike, lookA, lookS, refA, refS⟩
  -- equivalence
  unfold equiv
  apply rulesEquiv_of_forall
  · rw [hwrules]; exact hlen
  · intro t r rb hr hrb
    rw [hwrules] at hr
    have htlt : t < b.rules.length := (List.getElem?_eq_some_iff.mp hrb).1
    have hrbD : b.rules.getD t default = rb := getD_of_getElem? hrb
    have hmem : rb ∈ b.rules := List.mem_of_getElem? hrb
    obtain ⟨l0, l1, l2, l3⟩ := hlike t r hr
    rw [hrbD] at l0 l1 l2 l3
    obtain ⟨ra, rs⟩ := hbr rb hmem
    unfold ruleEquiv
    simp only [Bool.and_eq_true, beq_iff_eq]
    refine ⟨⟨⟨l0, ?_⟩, ?_⟩, ?_⟩
    · unfold addrContent
      apply sameSet_of _ _ _ _ l1
      intro x hx
      rw [expandAddr_noGroups w hwg, expandAddr_noGroups b hbg,
        lookA x ⟨rb, hmem, Or.inl hx⟩ (ra x (by simp [hx]))]
    · unfold addrContent
      apply sameSet_of _ _ _ _ l2
      intro x hx
      rw [expandAddr_noGroups w hwg, expandAddr_noGroups b hbg,
        lookA x ⟨rb, hmem, Or.inr hx⟩ (ra x (by simp [hx]))]
    · unfold srvContent
      apply sameSet_of _ _ _ _ l3
      intro x hx
      rw [expandSrv_noGroups w hwsg, expandSrv_noGroups b hbsg, lookS x ⟨rb, hmem, hx⟩ (rs x hx)]

/-- **Convergence and executability on the group-free fragment.** -/
theorem plain_converges (sh : Shared) (diff : Differ) (hd : GoodDiffer diff) (a b : Vsys)
    (hP : PlainPair sh a b) :
    ∃ w, Runs sh a (planVsys diff a b) w ∧ equiv w b = true ∧
      w.groups = [] ∧ w.sgroups = [] ∧ w.name = a.name ∧ w.rules.length = b.rules.length ∧
      (ruleNames w.rules).Nodup ∧
      (∀ (t : Nat) (r : Rule), w.rules[t]? = some r → RuleLike r (b.rules.getD t default)) := by
  obtain ⟨w, h1, h2, h3, h4, h5, h6, h7, h8, _⟩ := plain_converges_full sh diff hd a b hP
  exact ⟨w, h1, h2, h3, h4, h5, h6, h7, h8⟩

end NA.PanOs
