import NA.Model.MaskSinks
import NA.Model.MaskFlow
/-!
# Lemmas for C17: the masking functions do not depend on the secret they mask

Structure:
1. `stripPrefix?`, fuel irrelevance of `replaceAllF`;
2. `replaceAll_independent`: a generic non-interference principle for leftmost-first replacement;
3. its instances for the lazy matcher (`passRE`, `apiRE`) and the greedy matcher (`keyRE`);
4. `queryEscape` never produces `&`, newline, `"` or `\`; `valuesEncode` of the keygen form.
-/
namespace NA.Mask

/-! ## 1. `stripPrefix?` and fuel -/

theorem stripPrefix?_eq_some {p l r : Str} : stripPrefix? p l = some r ↔ l = p ++ r := by
  induction p generalizing l with
  | nil => simp [stripPrefix?, eq_comm]
  | cons a p ih =>
    cases l with
    | nil => simp [stripPrefix?]
    | cons c cs =>
      simp only [stripPrefix?]
      by_cases h : a = c
      · subst h; simp [ih]
      · simp [h]; intro h'; exact absurd h'.symm h

theorem stripPrefix?_append (p r : Str) : stripPrefix? p (p ++ r) = some r :=
  stripPrefix?_eq_some.mpr rfl

theorem stripPrefix?_length {p l r : Str} (h : stripPrefix? p l = some r) : l.length = p.length + r.length := by
  rw [stripPrefix?_eq_some.mp h, List.length_append]

/-- The test looks at the first `p.length` bytes only. -/
theorem stripPrefix?_append_of_le {p a : Str} (x : Str) (h : p.length ≤ a.length) :
    stripPrefix? p (a ++ x) = (stripPrefix? p a).map (· ++ x) := by
  induction p generalizing a with
  | nil => simp [stripPrefix?]
  | cons b p ih =>
    cases a with
    | nil => simp at h
    | cons c cs =>
      simp only [List.cons_append, stripPrefix?]
      by_cases hb : b = c
      · simp only [hb, if_true]; exact ih (by simpa using h)
      · simp [hb]

/-- A step never makes the text longer (it is only ever applied to a non-empty text). -/
def Decr (step : Str → Option (Str × Str)) : Prop :=
  ∀ c cs out r, step (c :: cs) = some (out, r) → r.length ≤ cs.length

theorem replaceAllF_fuel {step : Str → Option (Str × Str)} (hd : Decr step) :
    ∀ (n m : Nat) (l : Str), l.length ≤ n → l.length ≤ m → replaceAllF step n l = replaceAllF step m l := by
  intro n
  induction n with
  | zero =>
    intro m l hn _
    have : l = [] := List.eq_nil_of_length_eq_zero (by omega)
    subst this
    cases m <;> simp [replaceAllF]
  | succ n ih =>
    intro m l hn hm
    cases l with
    | nil => cases m <;> simp [replaceAllF]
    | cons c cs =>
      cases m with
      | zero => simp at hm
      | succ m =>
        simp only [replaceAllF]
        simp only [List.length_cons] at hn hm
        cases hs : step (c :: cs) with
        | none => simp only; rw [ih m cs (by omega) (by omega)]
        | some v =>
          obtain ⟨out, r⟩ := v
          have := hd c cs out r hs
          simp only; rw [ih m r (by omega) (by omega)]

theorem replaceAll_eq_fuel {step : Str → Option (Str × Str)} (hd : Decr step) (n : Nat) (l : Str)
    (h : l.length ≤ n) : replaceAll step l = replaceAllF step n l :=
  replaceAllF_fuel hd _ _ _ (Nat.le_refl _) h

/-! ## 2. generic non-interference of leftmost-first replacement

`t1`, `t2` are the two variants of the part of the text that holds the secret (literal, secret,
terminator, and everything behind).  If the matcher (a) treats the two variants alike when it starts
exactly there, and (b) started anywhere before them either fails on both, or matches on both with
the same replacement and ends behind the secret, or ends before the variants start — then the
replaced texts are equal, whatever precedes. -/
theorem replaceAll_independent {step : Str → Option (Str × Str)} (hd : Decr step) {t1 t2 : Str}
    (hne1 : t1 ≠ []) (hne2 : t2 ≠ [])
    (h0 : ∃ out r, step t1 = some (out, r) ∧ step t2 = some (out, r))
    (h1 : ∀ p : Str, p ≠ [] →
      (step (p ++ t1) = none ∧ step (p ++ t2) = none) ∨
      (∃ out r, step (p ++ t1) = some (out, r) ∧ step (p ++ t2) = some (out, r)) ∨
      (∃ out q, q.length < p.length ∧ step (p ++ t1) = some (out, q ++ t1) ∧
        step (p ++ t2) = some (out, q ++ t2)))
    (pre : Str) : replaceAll step (pre ++ t1) = replaceAll step (pre ++ t2) := by
  suffices H : ∀ (k : Nat) (pre : Str), pre.length ≤ k → ∀ n1 n2, (pre ++ t1).length ≤ n1 →
      (pre ++ t2).length ≤ n2 → replaceAllF step n1 (pre ++ t1) = replaceAllF step n2 (pre ++ t2) by
    exact H pre.length pre (Nat.le_refl _) _ _ (Nat.le_refl _) (Nat.le_refl _)
  -- the case of an empty prefix, used twice
  have base : ∀ n1 n2, t1.length ≤ n1 → t2.length ≤ n2 →
      replaceAllF step n1 t1 = replaceAllF step n2 t2 := by
    intro n1 n2 hn1 hn2
    obtain ⟨out, r, hs1, hs2⟩ := h0
    cases t1 with
    | nil => exact absurd rfl hne1
    | cons c1 cs1 =>
      cases t2 with
      | nil => exact absurd rfl hne2
      | cons c2 cs2 =>
        cases n1 with
        | zero => simp at hn1
        | succ n1 =>
          cases n2 with
          | zero => simp at hn2
          | succ n2 =>
            simp only [List.length_cons] at hn1 hn2
            have d1 := hd _ _ _ _ hs1
            have d2 := hd _ _ _ _ hs2
            simp only [replaceAllF, hs1, hs2]
            rw [replaceAllF_fuel hd n1 n2 r (by omega) (by omega)]
  intro k
  induction k with
  | zero =>
    intro pre hk n1 n2 hn1 hn2
    have : pre = [] := List.eq_nil_of_length_eq_zero (by omega)
    subst this
    simpa using base n1 n2 (by simpa using hn1) (by simpa using hn2)
  | succ k ih =>
    intro pre hk n1 n2 hn1 hn2
    cases pre with
    | nil => simpa using base n1 n2 (by simpa using hn1) (by simpa using hn2)
    | cons c p =>
      cases n1 with
      | zero => simp at hn1
      | succ n1 =>
        cases n2 with
        | zero => simp at hn2
        | succ n2 =>
          simp only [List.cons_append, List.length_cons, List.length_append] at hn1 hn2 hk
          have hp := h1 (c :: p) (by simp)
          simp only [List.cons_append] at hp
          simp only [List.cons_append, replaceAllF]
          rcases hp with ⟨e1, e2⟩ | ⟨out, r, e1, e2⟩ | ⟨out, q, hq, e1, e2⟩
          · simp only [e1, e2]
            rw [ih p (by omega) n1 n2 (by simp; omega) (by simp; omega)]
          · have d1 := hd _ _ _ _ e1
            have d2 := hd _ _ _ _ e2
            simp only [List.length_append] at d1 d2
            simp only [e1, e2]
            rw [replaceAllF_fuel hd n1 n2 r (by omega) (by omega)]
          · have d1 := hd _ _ _ _ e1
            have d2 := hd _ _ _ _ e2
            simp only [List.length_append] at d1 d2
            simp only [List.length_cons] at hq
            simp only [e1, e2]
            rw [ih q (by omega) n1 n2 (by simp; omega) (by simp; omega)]

/-! ## 3a. the lazy matcher -/

/-- Bytes that neither end the lazy scan nor make it fail. -/
def Safe (e : Str) : Prop := ∀ c ∈ e, c ≠ '&' ∧ c ≠ '\n'

theorem Safe.append {a b : Str} (ha : Safe a) (hb : Safe b) : Safe (a ++ b) := by
  intro c hc
  rcases List.mem_append.mp hc with h | h
  · exact ha c h
  · exact hb c h

theorem Safe.of_append_right {a b : Str} (h : Safe (a ++ b)) : Safe b :=
  fun c hc => h c (List.mem_append.mpr (Or.inr hc))

theorem scanLazy_safe (ae : Bool) {e : Str} (he : Safe e) (post : Str) :
    scanLazy ae (e ++ '&' :: post) = some (true, post) := by
  induction e with
  | nil => simp [scanLazy]
  | cons c cs ih =>
    have hc := he c (by simp)
    simp only [List.cons_append, scanLazy, hc.1, hc.2, if_false]
    exact ih (fun d hd => he d (by simp [hd]))

theorem scanLazy_length (ae : Bool) : ∀ (l : Str) (amp : Bool) (r : Str),
    scanLazy ae l = some (amp, r) → (amp = true ∧ r.length < l.length) ∨ (amp = false ∧ r = []) := by
  intro l
  induction l with
  | nil =>
    intro amp r h
    cases ae <;> simp [scanLazy] at h
    obtain ⟨rfl, rfl⟩ := h
    exact Or.inr ⟨rfl, rfl⟩
  | cons c cs ih =>
    intro amp r h
    simp only [scanLazy] at h
    by_cases h1 : c = '&'
    · simp [h1] at h
      obtain ⟨rfl, rfl⟩ := h
      left; exact ⟨rfl, by simp⟩
    · by_cases h2 : c = '\n'
      · simp [h2] at h
      · simp only [h1, h2, if_false] at h
        rcases ih amp r h with ⟨a, b⟩ | ⟨a, b⟩
        · left; exact ⟨a, by simp; omega⟩
        · right; exact ⟨a, b⟩

theorem lazyStep_decr (lit : Str) (ae : Bool) : Decr (lazyStep lit ae) := by
  intro c cs out r h
  unfold lazyStep at h
  cases hs : stripPrefix? lit (c :: cs) with
  | none => simp [hs] at h
  | some body =>
    have hl := stripPrefix?_length hs
    simp only [hs] at h
    cases hb : scanLazy ae body with
    | none => simp [hb] at h
    | some v =>
      obtain ⟨amp, rest⟩ := v
      simp only [hb, Option.some.injEq, Prod.mk.injEq] at h
      obtain ⟨_, rfl⟩ := h
      simp only [List.length_cons] at hl
      rcases scanLazy_length ae body amp rest hb with ⟨_, b⟩ | ⟨_, b⟩
      · omega
      · subst b; simp

/-- Scanning across arbitrary text `q` followed by safe text `s`, the secret and its `&`:
fails on both variants, or stops behind the secret on both, or stops inside `q` on both. -/
theorem scanLazy_rel (ae : Bool) {s e1 e2 : Str} (hs : Safe s) (h1 : Safe e1) (h2 : Safe e2) (post : Str) :
    ∀ q : Str,
      (scanLazy ae (q ++ (s ++ (e1 ++ '&' :: post))) = none ∧ scanLazy ae (q ++ (s ++ (e2 ++ '&' :: post))) = none) ∨
      (scanLazy ae (q ++ (s ++ (e1 ++ '&' :: post))) = some (true, post) ∧
        scanLazy ae (q ++ (s ++ (e2 ++ '&' :: post))) = some (true, post)) ∨
      (∃ q', q'.length < q.length ∧
        scanLazy ae (q ++ (s ++ (e1 ++ '&' :: post))) = some (true, q' ++ (s ++ (e1 ++ '&' :: post))) ∧
        scanLazy ae (q ++ (s ++ (e2 ++ '&' :: post))) = some (true, q' ++ (s ++ (e2 ++ '&' :: post)))) := by
  intro q
  induction q with
  | nil =>
    right; left
    simp only [List.nil_append, ← List.append_assoc]
    exact ⟨scanLazy_safe ae (hs.append h1) post, scanLazy_safe ae (hs.append h2) post⟩
  | cons c cs ih =>
    simp only [List.cons_append, scanLazy]
    by_cases ha : c = '&'
    · right; right
      exact ⟨cs, by simp, by simp [ha], by simp [ha]⟩
    · by_cases hn : c = '\n'
      · left; simp [hn]
      · simp only [ha, hn, if_false]
        rcases ih with h | h | ⟨q', hq, e1', e2'⟩
        · exact Or.inl h
        · exact Or.inr (Or.inl h)
        · exact Or.inr (Or.inr ⟨q', by simp; omega, e1', e2'⟩)

/-- **Non-interference of the lazy masks**: whatever precedes and follows, the masked text does not
depend on the bytes between `LIT` and the next `&`, as long as they contain neither `&` nor newline. -/
theorem maskLazy_independent (lit : Str) (ae : Bool) (hlit : Safe lit) {e1 e2 : Str}
    (h1 : Safe e1) (h2 : Safe e2) (pre post : Str) :
    maskLazy lit ae (pre ++ (lit ++ (e1 ++ '&' :: post))) = maskLazy lit ae (pre ++ (lit ++ (e2 ++ '&' :: post))) := by
  unfold maskLazy
  apply replaceAll_independent (lazyStep_decr lit ae)
  · simp
  · simp
  · refine ⟨lit ++ xxx ++ ['&'], post, ?_, ?_⟩ <;>
      simp [lazyStep, stripPrefix?_append, scanLazy_safe ae, h1, h2]
  · intro p hp
    have hlen : lit.length ≤ (p ++ lit).length := by simp
    have key : ∀ e : Str, stripPrefix? lit (p ++ (lit ++ (e ++ '&' :: post))) =
        (stripPrefix? lit (p ++ lit)).map (· ++ (e ++ '&' :: post)) := by
      intro e
      rw [← List.append_assoc]
      exact stripPrefix?_append_of_le _ hlen
    unfold lazyStep
    rw [key e1, key e2]
    cases hb : stripPrefix? lit (p ++ lit) with
    | none => left; simp
    | some b =>
      simp only [Option.map_some]
      have hb' := stripPrefix?_eq_some.mp hb
      -- b = q ++ s with s safe, and s = lit unless q = []
      have hdec : ∃ q s, b = q ++ s ∧ Safe s ∧ q.length < p.length + 1 ∧ (q ≠ [] → s = lit) := by
        rcases List.append_eq_append_iff.mp hb' with ⟨a', ha1, ha2⟩ | ⟨c', hc1, hc2⟩
        · refine ⟨[], b, by simp, ?_, by simp, by simp⟩
          rw [ha2] at hlit
          exact hlit.of_append_right
        · refine ⟨c', lit, hc2, hlit, ?_, fun _ => rfl⟩
          rw [hc1]; simp; omega
      obtain ⟨q, s, rfl, hs, hql, hqs⟩ := hdec
      simp only [List.append_assoc]
      rcases scanLazy_rel ae hs h1 h2 post q with ⟨a, b⟩ | ⟨a, b⟩ | ⟨q', hq', a, b⟩
      · left; simp [a, b]
      · right; left; exact ⟨lit ++ xxx ++ ['&'], post, by simp [a], by simp [b]⟩
      · right; right
        have hne : q ≠ [] := by intro h; subst h; simp at hq'
        rw [hqs hne] at a b
        rw [hqs hne]
        refine ⟨lit ++ xxx ++ ['&'], q', by omega, by simp [a], by simp [b]⟩

/-! ## 3b. the greedy matcher for the key element -/

def NoNl (e : Str) : Prop := ∀ c ∈ e, notNl c = true

theorem splitAtGt_length : ∀ (l t r : Str), splitAtGt l = some (t, r) → r.length < l.length := by
  intro l
  induction l with
  | nil => intro t r h; simp [splitAtGt] at h
  | cons c cs ih =>
    intro t r h
    simp only [splitAtGt] at h
    by_cases hc : c = '>'
    · simp only [hc, if_true, Option.some.injEq, Prod.mk.injEq] at h
      obtain ⟨_, rfl⟩ := h
      simp
    · simp only [hc, if_false] at h
      cases hs : splitAtGt cs with
      | none => simp [hs] at h
      | some p =>
        obtain ⟨t', x⟩ := p
        simp only [hs, Option.some.injEq, Prod.mk.injEq] at h
        have := ih t' x hs
        obtain ⟨_, h2⟩ := h
        subst h2
        simp; omega

theorem splitAtGt_append : ∀ (s X : Str), '>' ∈ s →
    splitAtGt (s ++ X) = (splitAtGt s).map fun p => (p.1, p.2 ++ X) := by
  intro s
  induction s with
  | nil => intro X h; cases h
  | cons c cs ih =>
    intro X h
    simp only [List.cons_append, splitAtGt]
    by_cases hc : c = '>'
    · simp [hc]
    · have hm : '>' ∈ cs := by
        cases h with
        | head => exact absurd rfl hc
        | tail _ h' => exact h'
      simp only [hc, if_false, ih X hm]
      cases splitAtGt cs with
      | none => rfl
      | some p => rfl

theorem tag?_append (valid : Str → Bool) (s X : Str) (h : '>' ∈ s) :
    tag? valid (s ++ X) = (tag? valid s).map (· ++ X) := by
  unfold tag?
  rw [splitAtGt_append s X h]
  cases splitAtGt s with
  | none => rfl
  | some p =>
    obtain ⟨t, r⟩ := p
    simp only [Option.map_some]
    cases valid t <;> simp

theorem tag?_length {valid : Str → Bool} {l r : Str} (h : tag? valid l = some r) : r.length < l.length := by
  unfold tag? at h
  cases hs : splitAtGt l with
  | none => simp [hs] at h
  | some p =>
    obtain ⟨t, x⟩ := p
    simp only [hs] at h
    by_cases hv : valid t = true
    · simp only [hv, if_true, Option.some.injEq] at h
      subst h
      exact splitAtGt_length _ _ _ hs
    · simp [hv] at h

theorem lastClose_length : ∀ (l r : Str), lastClose l = some r → r.length < l.length := by
  intro l
  induction l with
  | nil => intro r h; simp [lastClose] at h
  | cons c cs ih =>
    intro r h
    simp only [lastClose] at h
    cases hc : lastClose cs with
    | some r' =>
      simp only [hc, Option.some.injEq] at h
      subst h
      have := ih r' hc
      simp; omega
    | none =>
      simp only [hc] at h
      exact tag?_length h

theorem lastClose_append_close (x p1 : Str) :
    lastClose (x ++ (litClose ++ p1)) = some ((lastClose p1).getD p1) := by
  induction x with
  | nil =>
    simp only [List.nil_append, litClose, List.cons_append, lastClose]
    cases lastClose p1 with
    | some r => simp
    | none =>
      simp [tag?, splitAtGt, validClose, afterNs, keyCloseTail, nameCh, isWsRe]
  | cons c cs ih => simp only [List.cons_append, lastClose, ih]

theorem keyStep_decr : Decr keyStep := by
  intro c cs out r h
  unfold keyStep at h
  cases hs : tag? validOpen (c :: cs) with
  | none => simp [hs] at h
  | some body =>
    have hl := tag?_length hs
    simp only [hs, Option.some.injEq, Prod.mk.injEq] at h
    obtain ⟨_, rfl⟩ := h
    cases hb : lastClose body with
    | none => simp
    | some after =>
      have h1 := lastClose_length _ _ hb
      simp at hl ⊢
      omega

theorem tag?_open_lit (X : Str) : tag? validOpen (litOpen ++ X) = some X := by
  simp [tag?, litOpen, splitAtGt, validOpen, afterNs, keyOpenTail, nameCh, isWsRe]

theorem keyStep_at_key (k post : Str) :
    keyStep (litOpen ++ (k ++ (litClose ++ post))) =
      some (litOpen ++ xxx ++ litClose, (lastClose post).getD post) := by
  unfold keyStep
  rw [tag?_open_lit]
  simp only []
  rw [lastClose_append_close]
  simp

/-- **Non-interference of the key mask**: whatever precedes and follows, the masked body does not
depend on the bytes between `<key>` and `</key>` — any bytes, line breaks included (flag `s`). -/
theorem maskKey_independent (k1 k2 pre post : Str) :
    maskKey (pre ++ (litOpen ++ (k1 ++ (litClose ++ post)))) =
      maskKey (pre ++ (litOpen ++ (k2 ++ (litClose ++ post)))) := by
  unfold maskKey
  apply replaceAll_independent keyStep_decr
  · simp [litOpen]
  · simp [litOpen]
  · exact ⟨_, _, keyStep_at_key k1 post, keyStep_at_key k2 post⟩
  · intro p hp
    have hgt : '>' ∈ p ++ litOpen := by simp [litOpen]
    have key : ∀ k : Str, tag? validOpen (p ++ (litOpen ++ (k ++ (litClose ++ post)))) =
        (tag? validOpen (p ++ litOpen)).map (· ++ (k ++ (litClose ++ post))) := by
      intro k
      rw [← List.append_assoc]
      exact tag?_append _ _ _ hgt
    unfold keyStep
    rw [key k1, key k2]
    cases hb : tag? validOpen (p ++ litOpen) with
    | none => left; simp
    | some b =>
      right; left
      simp only [Option.map_some]
      refine ⟨litOpen ++ xxx ++ litClose, (lastClose post).getD post, ?_, ?_⟩
      · rw [← List.append_assoc b k1, lastClose_append_close]; simp
      · rw [← List.append_assoc b k2, lastClose_append_close]; simp


/-! ### every spelling of the key element -/

/-- An opening tag of element `key` as the matcher sees it. -/
structure OpenForm (o : Str) : Prop where
  gt : '>' ∈ o
  ne : o ≠ []
  tag : ∀ X, tag? validOpen (o ++ X) = some X

/-- A closing tag of element `key` as the matcher sees it. -/
def CloseForm (cl : Str) : Prop := ∀ p1, lastClose (cl ++ p1) = some ((lastClose p1).getD p1)

theorem lastClose_append_closeForm {cl : Str} (hc : CloseForm cl) (x p1 : Str) :
    lastClose (x ++ (cl ++ p1)) = some ((lastClose p1).getD p1) := by
  induction x with
  | nil => exact hc p1
  | cons c cs ih => simp only [List.cons_append, lastClose, ih]

theorem splitAtGt_attrs : ∀ (a X : Str), '>' ∉ a → splitAtGt (a ++ '>' :: X) = some (a, X) := by
  intro a
  induction a with
  | nil => intro X _; simp [splitAtGt]
  | cons c cs ih =>
    intro X h
    have hc : c ≠ '>' := fun e => h (e ▸ List.mem_cons_self)
    have hcs : '>' ∉ cs := fun e => h (List.mem_cons_of_mem _ e)
    simp only [List.cons_append, splitAtGt, hc, if_false, ih X hcs]

/-- `<key ATTRIBUTES>` for any attribute text without `>`. -/
theorem openForm_attrs (a : Str) (h : '>' ∉ a) : OpenForm ('<' :: 'k' :: 'e' :: 'y' :: ' ' :: (a ++ ['>'])) where
  gt := by simp
  ne := by simp
  tag := by
    intro X
    have := splitAtGt_attrs a X h
    simp [tag?, splitAtGt, List.append_assoc, this, validOpen, afterNs, keyOpenTail, nameCh, isWsRe]

theorem openForm_lit : OpenForm litOpen where
  gt := by simp [litOpen]
  ne := by simp [litOpen]
  tag := tag?_open_lit

/-- `<x:key>`. -/
theorem openForm_ns : OpenForm ['<', 'x', ':', 'k', 'e', 'y', '>'] where
  gt := by simp
  ne := by simp
  tag := by
    intro X
    simp [tag?, splitAtGt, validOpen, afterNs, keyOpenTail, nameCh, isWsRe]

theorem closeForm_lit : CloseForm litClose := fun p1 => by
  have := lastClose_append_close [] p1
  simpa using this

/-- `</key >`. -/
theorem closeForm_blank : CloseForm ['<', '/', 'k', 'e', 'y', ' ', '>'] := by
  intro p1
  simp only [List.cons_append, List.nil_append, lastClose]
  cases lastClose p1 with
  | some r => simp
  | none => simp [tag?, splitAtGt, validClose, afterNs, keyCloseTail, nameCh, isWsRe]

/-- `</x:key>`. -/
theorem closeForm_ns : CloseForm ['<', '/', 'x', ':', 'k', 'e', 'y', '>'] := by
  intro p1
  simp only [List.cons_append, List.nil_append, lastClose]
  cases lastClose p1 with
  | some r => simp
  | none => simp [tag?, splitAtGt, validClose, afterNs, keyCloseTail, nameCh, isWsRe]

/-- Non-interference of the key mask for every spelling of the tags. -/
theorem maskKey_forms_independent {o cl : Str} (ho : OpenForm o) (hc : CloseForm cl) (k1 k2 pre post : Str) :
    maskKey (pre ++ (o ++ (k1 ++ (cl ++ post)))) = maskKey (pre ++ (o ++ (k2 ++ (cl ++ post)))) := by
  have hstep : ∀ k : Str, keyStep (o ++ (k ++ (cl ++ post))) =
      some (litOpen ++ xxx ++ litClose, (lastClose post).getD post) := by
    intro k
    unfold keyStep
    rw [ho.tag]
    simp only []
    rw [lastClose_append_closeForm hc]
    simp
  have hne : ∀ k : Str, o ++ (k ++ (cl ++ post)) ≠ [] := by
    intro k h
    exact ho.ne (List.append_eq_nil_iff.mp h).1
  unfold maskKey
  apply replaceAll_independent keyStep_decr (hne k1) (hne k2)
  · exact ⟨_, _, hstep k1, hstep k2⟩
  · intro p hp
    have hgt : '>' ∈ p ++ o := List.mem_append_right _ ho.gt
    have key : ∀ k : Str, tag? validOpen (p ++ (o ++ (k ++ (cl ++ post)))) =
        (tag? validOpen (p ++ o)).map (· ++ (k ++ (cl ++ post))) := by
      intro k
      rw [← List.append_assoc]
      exact tag?_append _ _ _ hgt
    unfold keyStep
    rw [key k1, key k2]
    cases hb : tag? validOpen (p ++ o) with
    | none => left; simp
    | some b =>
      right; left
      simp only [Option.map_some]
      refine ⟨litOpen ++ xxx ++ litClose, (lastClose post).getD post, ?_, ?_⟩
      · rw [← List.append_assoc b k1, lastClose_append_closeForm hc]; simp
      · rw [← List.append_assoc b k2, lastClose_append_closeForm hc]; simp

/-! ### truncated answers: no closing tag -/

theorem splitAtGt_none : ∀ s : Str, '>' ∉ s → splitAtGt s = none := by
  intro s
  induction s with
  | nil => intro _; rfl
  | cons c cs ih =>
    intro h
    have hc : c ≠ '>' := fun e => h (e ▸ List.mem_cons_self)
    have hcs : '>' ∉ cs := fun e => h (List.mem_cons_of_mem _ e)
    simp only [splitAtGt, hc, if_false, ih hcs]

theorem mem_takeWhile_pred {q : Char → Bool} : ∀ {l : Str} {c : Char}, c ∈ l.takeWhile q → q c = true := by
  intro l
  induction l with
  | nil => intro c h; cases h
  | cons d ds ih =>
    intro c h
    simp only [List.takeWhile] at h
    cases hq : q d with
    | false => simp [hq] at h
    | true =>
      simp only [hq, List.mem_cons] at h
      rcases h with h | h
      · exact h ▸ hq
      · exact ih h

theorem keyCloseTail_noLt {r : Str} (h : keyCloseTail r = true) : '<' ∉ r := by
  unfold keyCloseTail at h
  split at h
  · rename_i w
    simp only [List.all_eq_true] at h
    intro hm
    simp only [List.mem_cons] at hm
    rcases hm with hm | hm | hm | hm
    · cases hm
    · cases hm
    · cases hm
    · have := h _ hm
      revert this; decide
  · cases h

theorem afterNs_noLt {r x : Str} (h : afterNs r = some x) (hx : '<' ∉ x) : '<' ∉ r := by
  unfold afterNs at h
  have hsplit := List.takeWhile_append_dropWhile (p := nameCh) (l := r)
  split at h
  · rename_i r'' heq
    by_cases he : (List.takeWhile nameCh r).isEmpty = true
    · simp [he] at h
    · simp only [he, Bool.false_eq_true, if_false, Option.some.injEq] at h
      subst h
      intro hm
      rw [← hsplit, heq] at hm
      rcases List.mem_append.mp hm with hm | hm
      · have := mem_takeWhile_pred hm
        revert this; decide
      · simp only [List.mem_cons] at hm
        rcases hm with hm | hm
        · cases hm
        · exact hx hm
  · cases h

/-- No valid closing tag contains a second `<`. -/
theorem validClose_noLt {t : Str} (h : validClose t = true) : '<' ∉ t.tail := by
  unfold validClose at h
  split at h
  · rename_i r
    simp only [Bool.or_eq_true] at h
    simp only [List.tail_cons]
    have hr : '<' ∉ r := by
      rcases h with h | h
      · cases ha : afterNs r with
        | none => simp [ha] at h
        | some x =>
          simp only [ha] at h
          exact afterNs_noLt ha (keyCloseTail_noLt h)
      · exact keyCloseTail_noLt h
    intro hm
    simp only [List.mem_cons] at hm
    rcases hm with hm | hm
    · cases hm
    · exact hr hm
  · cases h

/-- Appending `<key>` creates no closing tag. -/
theorem lastClose_append_open (x : Str) : lastClose (x ++ litOpen) = (lastClose x).map (· ++ litOpen) := by
  induction x with
  | nil => decide
  | cons c cs ih =>
    simp only [List.cons_append, lastClose, ih]
    cases hl : lastClose cs with
    | some r => simp
    | none =>
      simp only [Option.map_none]
      by_cases hgt : '>' ∈ c :: cs
      · have := tag?_append validClose (c :: cs) litOpen hgt
        simpa using this
      · have h1 : splitAtGt (c :: cs) = none := splitAtGt_none _ hgt
        have hno : '>' ∉ (c :: cs) ++ ['<', 'k', 'e', 'y'] := by
          intro hm
          rcases List.mem_append.mp hm with hm | hm
          · exact hgt hm
          · revert hm; decide
        have h2 := splitAtGt_attrs ((c :: cs) ++ ['<', 'k', 'e', 'y']) [] hno
        have h3 : validClose ((c :: cs) ++ ['<', 'k', 'e', 'y']) = false := by
          cases hv : validClose ((c :: cs) ++ ['<', 'k', 'e', 'y']) with
          | false => rfl
          | true =>
            have := validClose_noLt hv
            exact absurd (by simp) this
        have e : c :: (cs ++ litOpen) = ((c :: cs) ++ ['<', 'k', 'e', 'y']) ++ ['>'] := by simp [litOpen]
        have h3' : validClose (c :: (cs ++ ['<', 'k', 'e', 'y'])) = false := h3
        simp only [tag?, h1]
        rw [e, h2]
        simp [h3']

/-- Behind a text that ends in `>` no closing tag can begin before and end inside what follows. -/
theorem lastClose_append_endsGt (k : Str) (hk : lastClose k = none) : ∀ b' : Str,
    lastClose (b' ++ '>' :: k) = (lastClose (b' ++ ['>'])).map (· ++ k) := by
  intro b'
  induction b' with
  | nil => simp [lastClose, hk, tag?, splitAtGt, validClose]
  | cons c cs ih =>
    simp only [List.cons_append, lastClose, ih]
    cases hl : lastClose (cs ++ ['>']) with
    | some r => simp
    | none =>
      simp only [Option.map_none]
      have hgt : '>' ∈ c :: (cs ++ ['>']) := by simp
      have := tag?_append validClose (c :: (cs ++ ['>'])) k hgt
      simpa using this

theorem splitAtGt_open_rest : ∀ (p t b : Str), splitAtGt (p ++ litOpen) = some (t, b) →
    b = [] ∨ ∃ p2, b = p2 ++ litOpen ∧ p2.length < p.length := by
  intro p
  induction p with
  | nil =>
    intro t b h
    simp [litOpen, splitAtGt] at h
    exact Or.inl h.2
  | cons c cs ih =>
    intro t b h
    simp only [List.cons_append, splitAtGt] at h
    by_cases hc : c = '>'
    · simp only [hc, if_true, Option.some.injEq, Prod.mk.injEq] at h
      exact Or.inr ⟨cs, h.2.symm, by simp⟩
    · simp only [hc, if_false] at h
      cases hs : splitAtGt (cs ++ litOpen) with
      | none => simp [hs] at h
      | some q =>
        obtain ⟨t', b'⟩ := q
        simp only [hs, Option.some.injEq, Prod.mk.injEq] at h
        rcases ih t' b' hs with h0 | ⟨p2, hp2, hlen⟩
        · exact Or.inl (h.2 ▸ h0)
        · exact Or.inr ⟨p2, h.2 ▸ hp2, by simp; omega⟩

/-- **Truncated answer**: without a closing tag behind it, everything after `<key>` is masked — the logged
text is the same for all continuations that contain no closing tag of `key` themselves. -/
theorem maskKey_truncated_independent (k1 k2 pre : Str) (h1 : lastClose k1 = none) (h2 : lastClose k2 = none) :
    maskKey (pre ++ (litOpen ++ k1)) = maskKey (pre ++ (litOpen ++ k2)) := by
  have hstep : ∀ k : Str, lastClose k = none → keyStep (litOpen ++ k) = some (litOpen ++ xxx ++ litClose, []) := by
    intro k hk
    unfold keyStep
    rw [tag?_open_lit]
    simp [hk]
  unfold maskKey
  apply replaceAll_independent keyStep_decr
  · simp [litOpen]
  · simp [litOpen]
  · exact ⟨_, _, hstep k1 h1, hstep k2 h2⟩
  · intro p hp
    have hgt : '>' ∈ p ++ litOpen := by simp [litOpen]
    have key : ∀ k : Str, tag? validOpen (p ++ (litOpen ++ k)) = (tag? validOpen (p ++ litOpen)).map (· ++ k) := by
      intro k
      rw [← List.append_assoc]
      exact tag?_append _ _ _ hgt
    unfold keyStep
    rw [key k1, key k2]
    cases hb : tag? validOpen (p ++ litOpen) with
    | none => left; simp
    | some b =>
      simp only [Option.map_some]
      have hb' : b = [] ∨ ∃ p2, b = p2 ++ litOpen ∧ p2.length < p.length := by
        unfold tag? at hb
        cases hs : splitAtGt (p ++ litOpen) with
        | none => simp [hs] at hb
        | some q =>
          obtain ⟨t, b0⟩ := q
          simp only [hs] at hb
          by_cases hv : validOpen t = true
          · simp only [hv, if_true, Option.some.injEq] at hb
            subst hb
            exact splitAtGt_open_rest p t _ hs
          · simp [hv] at hb
      rcases hb' with h0 | ⟨p2, hp2, hlen⟩
      · right; left
        subst h0
        exact ⟨litOpen ++ xxx ++ litClose, [], by simp [h1], by simp [h2]⟩
      · subst hp2
        have hrest : ∀ k : Str, lastClose k = none →
            lastClose (p2 ++ litOpen ++ k) = (lastClose p2).map (· ++ (litOpen ++ k)) := by
          intro k hk
          have e : p2 ++ litOpen ++ k = (p2 ++ ['<', 'k', 'e', 'y']) ++ '>' :: k := by simp [litOpen]
          have e2 : (p2 ++ ['<', 'k', 'e', 'y']) ++ ['>'] = p2 ++ litOpen := by simp [litOpen]
          rw [e, lastClose_append_endsGt k hk, e2, lastClose_append_open]
          cases lastClose p2 <;> simp
        rw [hrest k1 h1, hrest k2 h2]
        cases hq : lastClose p2 with
        | none => right; left; exact ⟨litOpen ++ xxx ++ litClose, [], by simp, by simp⟩
        | some q =>
          right; right
          have := lastClose_length _ _ hq
          exact ⟨litOpen ++ xxx ++ litClose, q, by omega, by simp, by simp⟩

/-! ## 4. escaping -/

/-- Bytes that `url.QueryEscape` can produce. -/
def EscOut (c : Char) : Prop := c ≠ '&' ∧ c ≠ '\n' ∧ c ≠ '"' ∧ c ≠ '\\'

theorem hexDigit_escOut (n : Nat) : EscOut (hexDigit n) := by
  unfold hexDigit EscOut
  split <;> decide

theorem unreserved_escOut {c : Char} (h : unreserved c = true) : EscOut c := by
  unfold EscOut
  refine ⟨?_, ?_, ?_, ?_⟩ <;> (intro hc; subst hc; revert h; decide)

theorem escByte_escOut (c : Char) : ∀ d ∈ escByte c, EscOut d := by
  intro d hd
  unfold escByte at hd
  split at hd
  · rename_i hu
    simp only [List.mem_singleton] at hd
    subst hd; exact unreserved_escOut hu
  · split at hd
    · simp only [List.mem_singleton] at hd
      subst hd; unfold EscOut; decide
    · simp only [List.mem_cons, List.not_mem_nil, or_false] at hd
      rcases hd with rfl | rfl | rfl
      · unfold EscOut; decide
      · exact hexDigit_escOut _
      · exact hexDigit_escOut _

theorem queryEscape_escOut (s : Str) : ∀ d ∈ queryEscape s, EscOut d := by
  induction s with
  | nil => intro d hd; simp [queryEscape] at hd
  | cons c cs ih =>
    intro d hd
    simp only [queryEscape, List.mem_append] at hd
    rcases hd with h | h
    · exact escByte_escOut c d h
    · exact ih d h

theorem queryEscape_safe (s : Str) : Safe (queryEscape s) :=
  fun c hc => ⟨(queryEscape_escOut s c hc).1, (queryEscape_escOut s c hc).2.1⟩

theorem goQuote_append (a b : Str) : goQuote (a ++ b) = goQuote a ++ goQuote b := by
  induction a with
  | nil => rfl
  | cons c cs ih =>
    simp only [List.cons_append, goQuote]
    by_cases h1 : c = '"'
    · simp [h1, ih]
    · by_cases h2 : c = '\\'
      · simp [h2, ih]
      · simp [h1, h2, ih]

theorem goQuote_id {s : Str} (h : ∀ c ∈ s, c ≠ '"' ∧ c ≠ '\\') : goQuote s = s := by
  induction s with
  | nil => rfl
  | cons c cs ih =>
    have hc := h c (by simp)
    simp only [goQuote, hc.1, hc.2, if_false]
    rw [ih (fun d hd => h d (by simp [hd]))]

theorem goQuote_queryEscape (s : Str) : goQuote (queryEscape s) = queryEscape s :=
  goQuote_id fun c hc => ⟨(queryEscape_escOut s c hc).2.2.1, (queryEscape_escOut s c hc).2.2.2⟩

/-- What follows the password in the keygen query. -/
def kgTail (user : Str) : Str := "type=keygen&user=".toList ++ queryEscape user

/-- `url.Values.Encode` sorts the keys: `password` comes first and is followed by `&type=…`. -/
theorem keygen_query (user pass : Str) :
    valuesEncode [(sType, sKeygen), (sUser, user), (sPassword, pass)] =
      litPass ++ (queryEscape pass ++ '&' :: kgTail user) := by
  have h1 : strLt sUser sPassword = false := by decide
  have h2 : strLt sType sPassword = false := by decide
  have h3 : strLt sType sUser = true := by decide
  have e1 : queryEscape sPassword = "password".toList := by decide
  have e2 : queryEscape sType = "type".toList := by decide
  have e3 : queryEscape sKeygen = "keygen".toList := by decide
  have e4 : queryEscape sUser = "user".toList := by decide
  unfold kgTail
  simp [valuesEncode, sortKV, insertKV, h1, h2, h3, joinKV, e1, e2, e3, e4, litPass]

theorem goQuote_cons_amp (t : Str) : goQuote ('&' :: t) = '&' :: goQuote t := by simp [goQuote]

/-! ## 5. runs derived from regenerated steps -/

theorem restrictEnv_eq (deps : List Nat) (env1 env2 : LEnv) (h0 : env1 0 = env2 0)
    (hd : deps.all (· == 0) = true) : restrictEnv deps env1 = restrictEnv deps env2 := by
  funext l
  unfold restrictEnv
  cases hl : deps.contains l with
  | true =>
    simp only [if_true]
    have : l = 0 := by
      rw [List.all_eq_true] at hd
      have := hd l (by simpa using hl)
      simpa using this
    rw [this, h0]
  | false => simp

/-- **Generic non-interference of a derived run**: whatever the code computes at its sinks (`F`), if no
sink step depends on a secret label, two runs whose non-secret values agree write the same. -/
theorem runSteps_independent (F : Nat → LEnv → Str) (env1 env2 : LEnv) (h0 : env1 0 = env2 0) :
    ∀ steps : List Step, secretFree steps = true → runSteps F env1 steps = runSteps F env2 steps := by
  intro steps
  induction steps with
  | nil => intro _; rfl
  | cons s r ih =>
    intro h
    simp only [secretFree, List.all_cons, Bool.and_eq_true] at h
    have hr : secretFree r = true := h.2
    simp only [runSteps]
    cases hs : s.isSink with
    | false => simp only [Bool.false_eq_true, if_false]; exact ih hr
    | true =>
      have hd : s.deps.all (· == 0) = true := by simpa [hs] using h.1
      simp only [if_true]
      rw [restrictEnv_eq s.deps env1 env2 h0 hd, ih hr]

end NA.Mask
