import NA.Spec.AclDev
import NA.Proofs.C14
/-!
Helpers for the convergence of the IOS planner (`planIOS`), part 1: sequence numbers.

* `numOf M i`: the number the cell `i` of the merged list has on the device after
  `ip access-list resequence NAME 10000 10000` (old / both cells) or gets from the planner
  (new-only cells: `before*10000 + offset + 1`).
* `numOf_strictMono`: strictly increasing along `M` if no run of new-only cells reaches 10000.
* `pick L μ`: sublist by presence mask; `numbered M μ`: the device list (number, line) of the
  present cells; inserting / deleting by number = setting a bit of the mask.
-/
namespace NA.Acl

def Cell.newOnly (c : Cell) : Bool := c.new && !c.old
def Cell.oldOnly (c : Cell) : Bool := c.old && !c.new
def Cell.both (c : Cell) : Bool := c.old && c.new

/-- Every cell stands for a device line, a target line or both (what `cellsOf` produces). -/
def noJunk (M : List Cell) : Bool := M.all fun c => c.old || c.new

/-- Number of consecutive new-only cells immediately before index `i`
(= offset of cell `i` inside its maximal run of new-only cells, if it is one). -/
def runOff (M : List Cell) : Nat → Nat
  | 0 => 0
  | k + 1 => if (M.getD k default).newOnly then runOff M k + 1 else 0

def numOf (M : List Cell) (i : Nat) : Nat :=
  if (M.getD i default).old then (countOld M i + 1) * 10000
  else countOld M i * 10000 + runOff M i + 1

/-- Every maximal run of new-only cells is shorter than 10000 (`runOff M i` is the length of the
run that ends just before `i`). The real code aborts otherwise. -/
def runsShort (M : List Cell) : Prop := ∀ i, i ≤ M.length → runOff M i < 10000

def runsShortB (M : List Cell) : Bool := (List.range (M.length + 1)).all fun i => runOff M i < 10000

theorem runsShortB_iff (M : List Cell) : runsShortB M = true ↔ runsShort M := by
  simp only [runsShortB, List.all_eq_true, List.mem_range, decide_eq_true_eq, runsShort]
  exact ⟨fun h i hi => h i (by omega), fun h i hi => h i (by omega)⟩

theorem countOld_succ (M : List Cell) (i : Nat) (hi : i < M.length) :
    countOld M (i + 1) = countOld M i + if (M.getD i default).old then 1 else 0 := by
  unfold countOld
  rw [List.take_succ_eq_append_getElem hi, List.filter_append, List.length_append]
  have : M.getD i default = M[i] := by simp [List.getD_eq_getElem?_getD, hi]
  rw [this]
  cases h : M[i].old <;> simp [h]

theorem countOld_mono (M : List Cell) {i j : Nat} (h : i ≤ j) : countOld M i ≤ countOld M j := by
  unfold countOld
  have : (M.take i) = (M.take j).take i := by rw [List.take_take]; congr 1; omega
  rw [this]
  exact List.Sublist.length_le ((List.take_sublist _ _).filter _)

theorem numOf_lt_succ (M : List Cell) (hs : runsShort M) (i : Nat) (hi : i + 1 < M.length)
    (hj : noJunk M = true) : numOf M i < numOf M (i + 1) := by
  have hi' : i < M.length := by omega
  have hjunk : (M.getD i default).old = false → (M.getD i default).new = true := by
    have : M.getD i default = M[i] := by simp [List.getD_eq_getElem?_getD, hi']
    rw [this]
    have := (List.all_eq_true.mp hj) M[i] (List.getElem_mem _)
    intro h; simp [h] at this; exact this
  have hr := hs (i + 1) (by omega)
  unfold numOf
  rw [countOld_succ M i hi']
  simp only [runOff] at hr ⊢
  unfold Cell.newOnly at hr ⊢
  generalize M.getD i default = c at *
  generalize M.getD (i + 1) default = c' at *
  cases ho : c.old <;> cases ho' : c'.old <;> simp [ho] at hjunk <;> simp [ho, hjunk] at hr ⊢ <;>
    omega

theorem numOf_strictMono (M : List Cell) (hj : noJunk M = true) (hs : runsShort M) {i j : Nat}
    (hij : i < j) (hjl : j < M.length) : numOf M i < numOf M j := by
  induction j with
  | zero => omega
  | succ j ih =>
    have h1 := numOf_lt_succ M hs j hjl hj
    by_cases h : i = j
    · subst h; exact h1
    · exact Nat.lt_trans (ih (by omega) (by omega)) h1

/-! ### Sublist by mask -/

def pick {α : Type} : List α → List Bool → List α
  | x :: xs, true :: μ => x :: pick xs μ
  | _ :: xs, _ :: μ => pick xs μ
  | _, _ => []

theorem pick_map {α β : Type} (f : α → β) (L : List α) (μ : List Bool) :
    (pick L μ).map f = pick (L.map f) μ := by
  induction L generalizing μ with
  | nil => cases μ <;> simp [pick]
  | cons x xs ih =>
    cases μ with
    | nil => simp [pick]
    | cons m μ => cases m <;> simp [pick, ih]

theorem masked_eq_pick (M : List Cell) (μ : List Bool) : masked M μ = pick (M.map (·.line)) μ := by
  induction M generalizing μ with
  | nil => cases μ <;> simp [pick, masked]
  | cons x xs ih =>
    cases μ with
    | nil => simp [pick, masked]
    | cons m μ => cases m <;> simp [pick, masked, ih]

theorem pick_mem_iff {α : Type} (L : List α) (μ : List Bool) (e : α) :
    e ∈ pick L μ ↔ ∃ i, ∃ h : i < L.length, μ.getD i false = true ∧ e = L[i] := by
  induction L generalizing μ with
  | nil => cases μ <;> simp [pick]
  | cons x xs ih =>
    cases μ with
    | nil => simp [pick]
    | cons m μ =>
      have key : (∃ i, ∃ h : i < (x :: xs).length, (m :: μ).getD i false = true ∧ e = (x :: xs)[i]) ↔
          ((m = true ∧ e = x) ∨ ∃ i, ∃ h : i < xs.length, μ.getD i false = true ∧ e = xs[i]) := by
        constructor
        · rintro ⟨i, h, h1, h2⟩
          cases i with
          | zero => left; simpa using ⟨h1, h2⟩
          | succ i => right; exact ⟨i, by simpa using h, by simpa using h1, by simpa using h2⟩
        · rintro (⟨h1, h2⟩ | ⟨i, h, h1, h2⟩)
          · exact ⟨0, by simp, by simpa using h1, by simpa using h2⟩
          · exact ⟨i + 1, by simpa using h, by simpa using h1, by simpa using h2⟩
      rw [key, ← ih]
      cases m <;> simp [pick]

/-- Numbers of a device list are strictly increasing. -/
def SortedNum (L : IosAcl) : Prop := L.Pairwise fun a b => a.1 < b.1

theorem iosInsert_lt_all (s : IosAcl) (n : Nat) (l : Line) (h : ∀ e ∈ s, n < e.1) :
    iosInsert s n l = (n, l) :: s := by
  cases s with
  | nil => rfl
  | cons e s => obtain ⟨m, x⟩ := e; simp [iosInsert, h (m, x) (List.mem_cons_self)]

theorem pick_subset {α : Type} (L : List α) (μ : List Bool) (e : α) (h : e ∈ pick L μ) : e ∈ L := by
  obtain ⟨i, hi, _, rfl⟩ := (pick_mem_iff L μ e).mp h
  exact List.getElem_mem _

/-- Inserting the entry of an absent position by number = setting its bit. -/
theorem pick_insert (L : IosAcl) (hs : SortedNum L) (μ : List Bool) (j : Nat) (hj : j < L.length)
    (hl : μ.length = L.length) (hf : μ.getD j false = false) :
    iosInsert (pick L μ) L[j].1 L[j].2 = pick L (μ.set j true) := by
  induction L generalizing μ j with
  | nil => simp at hj
  | cons x xs ih =>
    cases μ with
    | nil => simp at hl
    | cons m μ =>
      obtain ⟨hx, hxs⟩ := List.pairwise_cons.mp hs
      cases j with
      | zero =>
        have hm : m = false := by simpa using hf
        subst hm
        simp only [List.getElem_cons_zero, List.set_cons_zero, pick]
        exact iosInsert_lt_all _ _ _ fun e he => hx e (pick_subset _ _ _ he)
      | succ j =>
        have hj' : j < xs.length := by simpa using hj
        have hlt := hx xs[j] (List.getElem_mem _)
        have ih' := ih hxs μ j hj' (by simpa using hl) (by simpa using hf)
        cases m with
        | true =>
          simp only [List.getElem_cons_succ, List.set_cons_succ, pick]
          obtain ⟨n, y⟩ := x
          simp only [iosInsert]
          rw [if_neg (by simp at hlt; omega), ih']
        | false =>
          simp only [List.getElem_cons_succ, List.set_cons_succ, pick]
          exact ih'

/-- Deleting by number = clearing the bit. -/
theorem pick_delete (L : IosAcl) (hs : SortedNum L) (μ : List Bool) (j : Nat) (hj : j < L.length)
    (hl : μ.length = L.length) :
    (pick L μ).filter (fun e => e.1 != L[j].1) = pick L (μ.set j false) := by
  induction L generalizing μ j with
  | nil => simp at hj
  | cons x xs ih =>
    cases μ with
    | nil => simp at hl
    | cons m μ =>
      obtain ⟨hx, hxs⟩ := List.pairwise_cons.mp hs
      cases j with
      | zero =>
        have hrest : (pick xs μ).filter (fun e => e.1 != x.1) = pick xs μ := by
          apply List.filter_eq_self.mpr
          intro e he
          have := hx e (pick_subset _ _ _ he)
          simp; omega
        cases m <;> simp [pick, hrest]
      | succ j =>
        have hj' : j < xs.length := by simpa using hj
        have hlt := hx xs[j] (List.getElem_mem _)
        have ih' := ih hxs μ j hj' (by simpa using hl)
        cases m with
        | true =>
          simp only [List.getElem_cons_succ, List.set_cons_succ, pick]
          rw [List.filter_cons_of_pos (by simp; omega), ih']
        | false =>
          simp only [List.getElem_cons_succ, List.set_cons_succ, pick]
          exact ih'

/-! ### The numbered device list of a merged list -/

def allNum (M : List Cell) : IosAcl :=
  (List.range M.length).map fun i => (numOf M i, (M.getD i default).line)

def numbered (M : List Cell) (μ : List Bool) : IosAcl := pick (allNum M) μ

theorem allNum_length (M : List Cell) : (allNum M).length = M.length := by simp [allNum]

theorem allNum_getElem (M : List Cell) (i : Nat) (h : i < (allNum M).length) :
    (allNum M)[i] = (numOf M i, (M.getD i default).line) := by simp [allNum]

theorem allNum_sorted (M : List Cell) (hj : noJunk M = true) (hs : runsShort M) : SortedNum (allNum M) := by
  unfold SortedNum allNum
  rw [List.pairwise_map]
  refine List.Pairwise.imp_of_mem ?_ (List.pairwise_lt_range (n := M.length))
  intro a b _ hb hab
  exact numOf_strictMono M hj hs hab (List.mem_range.mp hb)

theorem allNum_lines (M : List Cell) : (allNum M).map (·.2) = M.map (·.line) := by
  apply List.ext_getElem
  · simp [allNum]
  · intro i h1 h2
    simp [allNum] at h1 h2 ⊢
    simp [h2]

theorem numbered_lines (M : List Cell) (μ : List Bool) : iosLines (numbered M μ) = masked M μ := by
  rw [iosLines, numbered, pick_map, allNum_lines, masked_eq_pick]

end NA.Acl
