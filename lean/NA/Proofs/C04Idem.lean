import NA.Proofs.C04Order
/-!
Helper lemmas for C04 (idempotence), part 1: a policy whose rules carry the same multiset of
sort keys as the target's rules produces no call at all (`diffRules_noop`), provided the edit-script
function returns the identity on pairwise-equal lists and no two managed groups / target groups
have the same content.
-/
namespace NA.Nsx

/-- `myers.Diff` on two lists of the same length whose elements are pairwise equal returns the
single range that pairs them (for length 0 the library returns `[{0,0,0,0}]`). -/
def IdOnEqual (diff : Diff) : Prop :=
  ∀ n eq, (∀ i, i < n → eq i i = true) → diff n n eq = [⟨0, n, 0, n⟩] ∨ (n = 0 ∧ diff n n eq = [])

def zipItems (a b : List Rule) : List Item := (a.zip b).map fun (x, y) => Item.eq x y

theorem itemsOf_identity (diff : Diff) (hid : IdOnEqual diff) (a b : List Rule) (hl : a.length = b.length)
    (eq : Nat → Nat → Bool) (heq : ∀ i, i < a.length → eq i i = true) :
    itemsOf (diff a.length b.length eq) a b = zipItems a b := by
  rw [← hl]
  rcases hid a.length eq heq with h | ⟨h0, h⟩
  · rw [h]
    simp only [itemsOf, List.flatMap_cons, List.flatMap_nil, List.append_nil, Range.isDelete, Range.isInsert]
    by_cases hn : a.length = 0
    · have ha : a = [] := List.length_eq_zero_iff.mp hn
      have hb : b = [] := List.length_eq_zero_iff.mp (hl ▸ hn)
      subst ha; subst hb
      simp [zipItems]
    · have : (0 == a.length) = false := by simpa using fun e => hn e.symm
      simp only [this, Bool.false_eq_true, if_false, List.drop_zero, Nat.sub_zero, List.take_length]
      rfl
  · rw [h]
    have ha : a = [] := List.length_eq_zero_iff.mp h0
    have hb : b = [] := List.length_eq_zero_iff.mp (hl ▸ h0)
    subst ha; subst hb
    simp [itemsOf, zipItems]

theorem addrDiff_identity (n : Nat) (a b : List String) : addrDiff [⟨0, n, 0, n⟩] a b = ([], []) := by
  simp only [addrDiff, Range.isDelete, Range.isInsert]
  by_cases hn : n = 0
  · subst hn; simp
  · have : (0 == n) = false := by simpa using fun e => hn e.symm
    simp [this]

theorem groupCalls_noop (diff : Diff) (hid : IdOnEqual diff) (ga gb : Group) (h : ga.addrs = gb.addrs) :
    groupCalls diff ga gb = [] := by
  unfold groupCalls
  rw [← h]
  have heq : ∀ i, i < ga.addrs.length → (ga.addrs[i]! == ga.addrs[i]!) = true := fun _ _ => by simp
  rcases hid ga.addrs.length (fun i j => ga.addrs[i]! == ga.addrs[j]!) heq with h1 | ⟨_, h1⟩
  · rw [h1]; simp only [addrDiff_identity]; simp
  · rw [h1]; simp [addrDiff]

theorem findGroupLast_id {gs : List Group} {n : String} {g : Group} (h : findGroupLast gs n = some g) : g.id = n := by
  unfold findGroupLast at h
  exact (findGroup_some h).2

/-- Planner state of a run on an already equivalent manager. -/
structure Inv2 (ctx : Ctx) (st : PSt) : Prop where
  nod : ∀ k n, st.nod.lookup k = some n → ∃ ga gb, findGroupLast ctx.aGroups n = some ga ∧
    ctx.bmap.lookup k = some gb ∧ ga.addrs = gb.addrs ∧ n ∈ st.needed
  owned : ∀ n ∈ st.needed, ∃ k, st.nod.lookup k = some n

structure Ctx2OK (ctx : Ctx) : Prop where
  diff_id : IdOnEqual ctx.diff
  dA : ∀ n n' ga ga', findGroupLast ctx.aGroups n = some ga → findGroupLast ctx.aGroups n' = some ga' →
    ga.addrs = ga'.addrs → n = n'
  dB : ∀ k k' gb gb', ctx.bmap.lookup k = some gb → ctx.bmap.lookup k' = some gb' → gb.addrs = gb'.addrs → k = k'

theorem inv2_init (ctx : Ctx) : Inv2 ctx {} := ⟨fun k n h => by simp at h, fun n h => by simp at h⟩

/-- `needed` only grows and every device group an entry names ends up needed. -/
def Grow (st st' : PSt) : Prop := ∀ n ∈ st.needed, n ∈ st'.needed

theorem equalize_noop {ctx : Ctx} (hc : Ctx2OK ctx) {st : PSt} (hinv : Inv2 ctx st) {la lb : String}
    (hk : epKey ctx.gma la = epKey ctx.gmb lb) :
    (equalize ctx st la lb).2 = (la, false, []) ∧ Inv2 ctx (equalize ctx st la lb).1 ∧
    Grow st (equalize ctx st la lb).1 ∧ (equalize ctx st la lb).1.abort = st.abort ∧
    ∀ ga, ctx.gma la = some ga → ga.id ∈ (equalize ctx st la lb).1.needed := by
  unfold equalize
  cases hga : ctx.gma la with
  | none => exact ⟨by simp, hinv, fun _ h => h, by simp, fun _ h => by cases h⟩
  | some ga =>
    simp only
    have hkb : ctx.gmb lb = none ∨ ∃ gb, ctx.gmb lb = some gb := by
      cases h : ctx.gmb lb with
      | none => exact Or.inl rfl
      | some gb => exact Or.inr ⟨gb, rfl⟩
    rcases hkb with hnone | ⟨gb, hgb⟩
    · simp [epKey, hga, hnone] at hk
    · have haddr : ga.addrs = gb.addrs := by simpa [epKey, hga, hgb] using hk
      obtain ⟨key, hr, hl⟩ := gmb_some hgb
      -- where `ga` lives
      have hgaLast : ∃ x, groupRef la = some x ∧ findGroupLast ctx.aGroups x = some ga := by
        unfold Ctx.gma at hga
        cases hx : groupRef la with
        | none => simp [hx] at hga
        | some x => exact ⟨x, rfl, by simpa [hx] using hga⟩
      obtain ⟨x, _, hfl⟩ := hgaLast
      have hgid : ga.id = x := findGroupLast_id hfl
      simp only [hr, hl]
      by_cases h1 : st.nod.lookup key = some ga.id
      · have : (st.nod.lookup key == some ga.id) = true := by simp [h1]
        simp only [this, if_true]
        obtain ⟨_, _, _, _, _, hn⟩ := hinv.nod key ga.id h1
        exact ⟨by simp, hinv, fun _ h => h, by simp, fun g hg => by cases hg; exact hn⟩
      · have hne : (st.nod.lookup key == some ga.id) = false := by simpa using h1
        simp only [hne, Bool.false_eq_true, if_false]
        -- the name of `key` is not known yet, and `ga` is not needed by anybody else
        have hnone : st.nod.lookup key = none := by
          cases hn : st.nod.lookup key with
          | none => rfl
          | some n' =>
            exfalso
            obtain ⟨ga', gb', hfl', hl', ha', _⟩ := hinv.nod key n' hn
            rw [hl] at hl'
            have : gb' = gb := (Option.some.inj hl').symm
            subst this
            have : n' = x := hc.dA n' x ga' ga hfl' hfl (ha'.trans haddr.symm)
            rw [this, ← hgid] at hn
            exact h1 hn
        have hnn : ga.id ∉ st.needed := by
          intro hm
          obtain ⟨k', hk'⟩ := hinv.owned ga.id hm
          obtain ⟨ga', gb', hfl', hl', ha', _⟩ := hinv.nod k' ga.id hk'
          rw [hgid, hfl] at hfl'
          have : ga' = ga := (Option.some.inj hfl').symm
          subst this
          have : k' = key := hc.dB k' key gb' gb hl' hl (ha'.symm.trans haddr)
          rw [this, hnone] at hk'
          cases hk'
        have hcond : (st.needed.contains ga.id || (st.nod.lookup key).isSome) = false := by
          rw [hnone]; simp; exact hnn
        simp only [hcond, Bool.false_eq_true, if_false]
        refine ⟨by rw [groupCalls_noop _ hc.diff_id ga gb haddr], ?_, fun _ h => List.mem_cons_of_mem _ h, by simp,
          fun g hg => by cases hg; exact List.mem_cons_self⟩
        refine ⟨?_, ?_⟩
        · intro k n hl2
          by_cases hkk : k = key
          · subst hkk
            rw [show List.lookup k ((k, ga.id) :: st.nod) = some ga.id from lookup_cons_self] at hl2
            cases hl2
            exact ⟨ga, gb, by rw [hgid]; exact hfl, hl, haddr, List.mem_cons_self⟩
          · rw [show List.lookup k ((key, ga.id) :: st.nod) = List.lookup k st.nod from lookup_cons_ne hkk] at hl2
            obtain ⟨ga', gb', a1, a2, a3, a4⟩ := hinv.nod k n hl2
            exact ⟨ga', gb', a1, a2, a3, List.mem_cons_of_mem _ a4⟩
        · intro n hn
          rcases List.mem_cons.mp hn with e | e
          · exact ⟨key, e ▸ lookup_cons_self⟩
          · obtain ⟨k', hk'⟩ := hinv.owned n e
            have : k' ≠ key := fun e' => by rw [e', hnone] at hk'; cases hk'
            exact ⟨k', by rw [show List.lookup k' ((key, ga.id) :: st.nod) = List.lookup k' st.nod from
              lookup_cons_ne this]; exact hk'⟩


/-- Device groups named by a rule (as the planner sees them). -/
def ruleGroupsNeeded (ctx : Ctx) (st : PSt) (r : Rule) : Prop :=
  (∀ ga, ctx.gma r.src = some ga → ga.id ∈ st.needed) ∧ (∀ ga, ctx.gma r.dst = some ga → ga.id ∈ st.needed)

theorem stepItem_eq_noop {ctx : Ctx} (hc : Ctx2OK ctx) {st : PSt} (hinv : Inv2 ctx st) {ra rb : Rule}
    (hk : ruleKey ctx.gma ra = ruleKey ctx.gmb rb) :
    (stepItem ctx st (.eq ra rb)).2 = [] ∧ Inv2 ctx (stepItem ctx st (.eq ra rb)).1 ∧
    Grow st (stepItem ctx st (.eq ra rb)).1 ∧ (stepItem ctx st (.eq ra rb)).1.abort = st.abort ∧
    ruleGroupsNeeded ctx (stepItem ctx st (.eq ra rb)).1 ra := by
  have hks : epKey ctx.gma ra.src = epKey ctx.gmb rb.src := by
    have := congrArg RKey.src hk; simpa [ruleKey] using this
  have hkd : epKey ctx.gma ra.dst = epKey ctx.gmb rb.dst := by
    have := congrArg RKey.dst hk; simpa [ruleKey] using this
  obtain ⟨e1, i1, g1, a1, n1⟩ := equalize_noop hc hinv hks
  obtain ⟨e2, i2, g2, a2, n2⟩ := equalize_noop hc i1 (la := ra.dst) (lb := rb.dst) hkd
  generalize hE1 : equalize ctx st ra.src rb.src = E1 at *
  obtain ⟨st1, src, ch1, c1⟩ := E1
  generalize hE2 : equalize ctx st1 ra.dst rb.dst = E2 at *
  obtain ⟨st2, dst, ch2, c2⟩ := E2
  simp only [Prod.mk.injEq] at e1 e2
  obtain ⟨_, hch1, hc1⟩ := e1
  obtain ⟨_, hch2, hc2⟩ := e2
  subst hch1 hch2 hc1 hc2
  have hstep : stepItem ctx st (.eq ra rb) = (st2, []) := by simp [stepItem, hE1, hE2]
  rw [hstep]
  exact ⟨rfl, i2, fun n h => g2 n (g1 n h), a2.trans a1, fun ga h => g2 _ (n1 ga h), n2⟩

inductive KeysAligned (ctx : Ctx) : List Rule → List Rule → Prop
  | nil : KeysAligned ctx [] []
  | cons {ra rb a b} : ruleKey ctx.gma ra = ruleKey ctx.gmb rb → KeysAligned ctx a b → KeysAligned ctx (ra :: a) (rb :: b)

theorem keysAligned_of_map_eq (ctx : Ctx) : ∀ (a b : List Rule),
    a.map (ruleKey ctx.gma) = b.map (ruleKey ctx.gmb) → KeysAligned ctx a b
  | [], [], _ => .nil
  | [], _ :: _, h => by simp at h
  | _ :: _, [], h => by simp at h
  | x :: xs, y :: ys, h => by
    simp only [List.map_cons, List.cons.injEq] at h
    exact .cons h.1 (keysAligned_of_map_eq ctx xs ys h.2)

theorem KeysAligned.length {ctx : Ctx} {a b : List Rule} (h : KeysAligned ctx a b) : a.length = b.length := by
  induction h with
  | nil => rfl
  | cons _ _ ih => simp [ih]

theorem KeysAligned.get {ctx : Ctx} {a b : List Rule} (h : KeysAligned ctx a b) :
    ∀ i (h1 : i < a.length) (h2 : i < b.length), ruleKey ctx.gma a[i] = ruleKey ctx.gmb b[i] := by
  induction h with
  | nil => intro i h1; simp at h1
  | cons hk _ ih =>
    intro i h1 h2
    cases i with
    | zero => exact hk
    | succ j => exact ih j (by simpa using h1) (by simpa using h2)

theorem stepItems_zip_noop {ctx : Ctx} (hc : Ctx2OK ctx) : ∀ {a b : List Rule}, KeysAligned ctx a b →
    ∀ {st : PSt}, Inv2 ctx st →
    (stepItems ctx st (zipItems a b)).2 = [] ∧ Inv2 ctx (stepItems ctx st (zipItems a b)).1 ∧
    Grow st (stepItems ctx st (zipItems a b)).1 ∧ (stepItems ctx st (zipItems a b)).1.abort = st.abort ∧
    ∀ r ∈ a, ruleGroupsNeeded ctx (stepItems ctx st (zipItems a b)).1 r := by
  intro a b h
  induction h with
  | nil => intro st hinv; exact ⟨rfl, hinv, fun _ h => h, rfl, fun r hr => by cases hr⟩
  | @cons ra rb a' b' hk _ ih =>
    intro st hinv
    obtain ⟨e1, i1, g1, a1, n1⟩ := stepItem_eq_noop hc hinv hk
    have hz : zipItems (ra :: a') (rb :: b') = Item.eq ra rb :: zipItems a' b' := by simp [zipItems]
    rw [hz]
    simp only [stepItems]
    generalize hS : stepItem ctx st (.eq ra rb) = X at *
    obtain ⟨st1, c1⟩ := X
    simp only at e1 i1 g1 a1 n1
    obtain ⟨e2, i2, g2, a2, n2⟩ := ih i1
    refine ⟨by rw [e1, e2]; rfl, i2, fun n h => g2 n (g1 n h), a2.trans a1, ?_⟩
    intro r hr
    rcases List.mem_cons.mp hr with e | e
    · subst e
      exact ⟨fun ga h => g2 _ (n1.1 ga h), fun ga h => g2 _ (n1.2 ga h)⟩
    · exact n2 r e

theorem ruleEqual_of_key {gma gmb : String → Option Group} {ra rb : Rule}
    (h : ruleKey gma ra = ruleKey gmb rb) : ruleEqual gma gmb ra rb = true := by
  have h1 : ra.attrs = rb.attrs := by have := congrArg RKey.attrs h; simpa [ruleKey] using this
  have h2 : ra.service = rb.service := by have := congrArg RKey.service h; simpa [ruleKey] using this
  have h3 : epKey gma ra.src = epKey gmb rb.src := by have := congrArg RKey.src h; simpa [ruleKey] using this
  have h4 : epKey gma ra.dst = epKey gmb rb.dst := by have := congrArg RKey.dst h; simpa [ruleKey] using this
  have hg : ∀ p q, epKey gma p = epKey gmb q → (if (gma p).isNone || (gmb q).isNone then p == q else true) = true := by
    intro p q hpq
    unfold epKey at hpq
    cases ha : gma p <;> cases hb : gmb q <;> simp [ha, hb] at hpq ⊢
    exact hpq
  unfold ruleEqual
  simp only [h1, h2, beq_self_eq_true, Bool.true_and, Bool.and_eq_true]
  exact ⟨hg _ _ h3, hg _ _ h4⟩

theorem sameButId_key (gm : String → Option Group) {r' r : Rule} (h : SameButId r' r) : ruleKey gm r' = ruleKey gm r := by
  unfold SameButId at h
  rw [h]; rfl

theorem forall2_sameButId_keys (gm : String → Option Group) {l' l : List Rule} (h : Forall2 SameButId l' l) :
    l'.map (ruleKey gm) = l.map (ruleKey gm) := by
  induction h with
  | nil => rfl
  | cons hab _ ih => simp only [List.map_cons, sameButId_key gm hab, ih]

/-- A policy whose rules have the same sort keys as the target's rules yields no call. -/
theorem diffRules_noop {ctx : Ctx} (hc : Ctx2OK ctx) {st : PSt} (hinv : Inv2 ctx st) (pa pb : Policy)
    (hb : (rids pb.rules).Nodup)
    (hp : (pa.rules.map (ruleKey ctx.gma)).Perm (pb.rules.map (ruleKey ctx.gmb)))
    (hab : (diffRules ctx st pa pb).1.abort = none) :
    (diffRules ctx st pa pb).2 = [] ∧ Inv2 ctx (diffRules ctx st pa pb).1 ∧ Grow st (diffRules ctx st pa pb).1 ∧
    ∀ r ∈ pa.rules, ruleGroupsNeeded ctx (diffRules ctx st pa pb).1 r := by
  unfold diffRules at hab ⊢
  cases hg : genUniqRules (pa.rules.map (·.id)) pb.rules with
  | none => simp [hg] at hab
  | some bR =>
    simp only [hg] at hab ⊢
    obtain ⟨_, _, hsame⟩ := genUniqRules_spec hg hb
    have hkeys : (sortRules ctx.gma pa.rules).map (ruleKey ctx.gma) = (sortRules ctx.gmb bR).map (ruleKey ctx.gmb) :=
      sortRules_keys ctx.gma ctx.gmb pa.rules bR (by rw [forall2_sameButId_keys ctx.gmb hsame]; exact hp)
    have hal := keysAligned_of_map_eq ctx _ _ hkeys
    have hitems : itemsOf (ctx.diff (sortRules ctx.gma pa.rules).length (sortRules ctx.gmb bR).length fun i j =>
          ruleEqual ctx.gma ctx.gmb (sortRules ctx.gma pa.rules)[i]! (sortRules ctx.gmb bR)[j]!)
        (sortRules ctx.gma pa.rules) (sortRules ctx.gmb bR) =
        zipItems (sortRules ctx.gma pa.rules) (sortRules ctx.gmb bR) := by
      apply itemsOf_identity ctx.diff hc.diff_id _ _ hal.length
      intro i hi
      have hi2 : i < (sortRules ctx.gmb bR).length := hal.length ▸ hi
      have e1 : (sortRules ctx.gma pa.rules)[i]! = (sortRules ctx.gma pa.rules)[i] := getElem!_pos _ i hi
      have e2 : (sortRules ctx.gmb bR)[i]! = (sortRules ctx.gmb bR)[i] := getElem!_pos _ i hi2
      rw [e1, e2]
      exact ruleEqual_of_key (hal.get i hi hi2)
    rw [hitems]
    have hc' : Ctx2OK { ctx with pid := pa.id } := ⟨hc.diff_id, hc.dA, hc.dB⟩
    have hinv' : Inv2 { ctx with pid := pa.id } st := ⟨hinv.nod, hinv.owned⟩
    obtain ⟨e, i, g, _, n⟩ := stepItems_zip_noop hc' (a := sortRules ctx.gma pa.rules) (b := sortRules ctx.gmb bR)
      (by
        have : ∀ {a b}, KeysAligned ctx a b → KeysAligned { ctx with pid := pa.id } a b := by
          intro a b h
          induction h with
          | nil => exact .nil
          | cons hk _ ih => exact .cons hk ih
        exact this hal) hinv'
    refine ⟨e, ⟨i.nod, i.owned⟩, g, ?_⟩
    intro r hr
    exact n r ((isort_perm _ _).mem_iff.mpr hr)


/-! ### Services, loops and removals on an equivalent manager -/

theorem planSvc_needed (aS : List Service) : ∀ (bS : List Service) (seen : List String) (x : String),
    x ∈ (planSvc aS bS seen).2 ↔ x ∈ sids bS ∧ x ∉ seen ∧ (findService aS.reverse x).isSome = true := by
  intro bS
  induction bS with
  | nil => intro seen x; simp [planSvc, sids]
  | cons sb rest ih =>
    intro seen x
    by_cases hseen : seen.contains sb.id = true
    · rw [planSvc_cons_seen aS sb rest seen hseen, ih]
      have hmem : sb.id ∈ seen := by simpa using hseen
      constructor
      · rintro ⟨h1, h2, h3⟩; exact ⟨List.mem_cons_of_mem _ h1, h2, h3⟩
      · rintro ⟨h1, h2, h3⟩
        refine ⟨?_, h2, h3⟩
        rcases List.mem_cons.mp h1 with e | e
        · exact absurd (e ▸ hmem) h2
        · exact e
    · have hseen' : seen.contains sb.id = false := Bool.eq_false_iff.mpr hseen
      have hnot : sb.id ∉ seen := by simpa using hseen'
      rw [planSvc_cons_new aS sb rest seen hseen']
      simp only [List.mem_append, ih]
      constructor
      · rintro (h | ⟨h1, h2, h3⟩)
        · cases hfa : findService aS.reverse sb.id with
          | none => simp [hfa] at h
          | some sa =>
            simp only [hfa, List.mem_singleton] at h
            subst h
            exact ⟨List.mem_cons_self, hnot, by simp [hfa]⟩
        · exact ⟨List.mem_cons_of_mem _ h1, fun h => h2 (List.mem_cons_of_mem _ h), h3⟩
      · rintro ⟨h1, h2, h3⟩
        by_cases e : x = sb.id
        · left
          subst e
          cases hfa : findService aS.reverse sb.id with
          | none => simp [hfa] at h3
          | some sa => simp
        · right
          refine ⟨?_, ?_, h3⟩
          · rcases List.mem_cons.mp h1 with h | h
            · exact absurd h e
            · exact h
          · intro h
            rcases List.mem_cons.mp h with h | h
            · exact e h
            · exact h2 h

theorem planSvc_noop (aS : List Service) : ∀ (bS : List Service) (seen : List String),
    (∀ id, id ∉ seen → id ∈ sids bS →
      ∃ sa, findService aS.reverse id = some sa ∧ some sa.defn = (findService bS id).map (·.defn)) →
    (planSvc aS bS seen).1 = [] := by
  intro bS
  induction bS with
  | nil => intro seen _; rfl
  | cons sb rest ih =>
    intro seen h
    by_cases hseen : seen.contains sb.id = true
    · rw [planSvc_cons_seen aS sb rest seen hseen]
      have hmem : sb.id ∈ seen := by simpa using hseen
      apply ih
      intro id hns hin
      obtain ⟨sa, h1, h2⟩ := h id hns (List.mem_cons_of_mem _ hin)
      have hne : sb.id ≠ id := fun e => hns (e ▸ hmem)
      rw [findService_cons, if_neg hne] at h2
      exact ⟨sa, h1, h2⟩
    · have hseen' : seen.contains sb.id = false := Bool.eq_false_iff.mpr hseen
      have hnot : sb.id ∉ seen := by simpa using hseen'
      rw [planSvc_cons_new aS sb rest seen hseen']
      simp only
      obtain ⟨sa, h1, h2⟩ := h sb.id hnot List.mem_cons_self
      rw [findService_cons, if_pos rfl] at h2
      have hd : sa.defn = sb.defn := by simpa using h2
      rw [ih (sb.id :: seen) (by
        intro id hns hin
        have hne : sb.id ≠ id := fun e => hns (e ▸ List.mem_cons_self)
        obtain ⟨sa', h1', h2'⟩ := h id (fun hm => hns (List.mem_cons_of_mem _ hm)) (List.mem_cons_of_mem _ hin)
        rw [findService_cons, if_neg hne] at h2'
        exact ⟨sa', h1', h2'⟩)]
      simp [h1, hd]

theorem diffRules_abort_mono {ctx : Ctx} {st : PSt} {pa pb : Policy} (h : (diffRules ctx st pa pb).1.abort = none) :
    st.abort = none := by
  unfold diffRules at h
  cases hg : genUniqRules (pa.rules.map (·.id)) pb.rules with
  | none => simp [hg] at h
  | some bR => simp only [hg] at h; exact stepItems_abort h

theorem overA_abort_mono (ctx : Ctx) (T : Config) : ∀ (ps : List Policy) (st : PSt),
    (overA ctx T ps st).1.abort = none → st.abort = none := by
  intro ps
  induction ps with
  | nil => intro st h; simpa [overA] using h
  | cons q qs ih =>
    intro st h
    unfold overA at h
    cases hq : findPolicyLast T.policies q.id with
    | none => simp only [hq] at h; exact ih st h
    | some qb => simp only [hq] at h; exact diffRules_abort_mono (ih _ h)

theorem ruleGroupsNeeded_grow {ctx : Ctx} {st st' : PSt} {r : Rule} (hg : Grow st st')
    (h : ruleGroupsNeeded ctx st r) : ruleGroupsNeeded ctx st' r :=
  ⟨fun ga hga => hg _ (h.1 ga hga), fun ga hga => hg _ (h.2 ga hga)⟩

/-- What the loop over the device policies needs to know about each of them on an equivalent manager. -/
def PolAligned (ctx : Ctx) (T : Config) (pa : Policy) : Prop :=
  ∃ pb, findPolicyLast T.policies pa.id = some pb ∧ (rids pb.rules).Nodup ∧
    (pa.rules.map (ruleKey ctx.gma)).Perm (pb.rules.map (ruleKey ctx.gmb))

theorem overA_noop {ctx : Ctx} (hc : Ctx2OK ctx) (T : Config) : ∀ (ps : List Policy) (st : PSt), Inv2 ctx st →
    (∀ pa ∈ ps, PolAligned ctx T pa) → (overA ctx T ps st).1.abort = none →
    (overA ctx T ps st).2 = [] ∧ Inv2 ctx (overA ctx T ps st).1 ∧ Grow st (overA ctx T ps st).1 ∧
    ∀ pa ∈ ps, ∀ r ∈ pa.rules, ruleGroupsNeeded ctx (overA ctx T ps st).1 r := by
  intro ps
  induction ps with
  | nil => intro st hinv _ _; exact ⟨rfl, hinv, fun _ h => h, fun pa hpa => by cases hpa⟩
  | cons pa rest ih =>
    intro st hinv hal hab
    obtain ⟨pb, hfl, hnd, hperm⟩ := hal pa List.mem_cons_self
    unfold overA at hab ⊢
    simp only [hfl] at hab ⊢
    have hab1 : (diffRules ctx st pa pb).1.abort = none := overA_abort_mono ctx T rest _ hab
    obtain ⟨e1, i1, g1, n1⟩ := diffRules_noop hc hinv pa pb hnd hperm hab1
    generalize hD : diffRules ctx st pa pb = D at *
    obtain ⟨st1, c1⟩ := D
    simp only at e1 i1 g1 n1 hab
    obtain ⟨e2, i2, g2, n2⟩ := ih st1 i1 (fun p hp => hal p (List.mem_cons_of_mem _ hp)) hab
    refine ⟨by rw [e1, e2]; rfl, i2, fun n h => g2 n (g1 n h), ?_⟩
    intro p hp r hr
    rcases List.mem_cons.mp hp with e | e
    · subst e; exact ruleGroupsNeeded_grow g2 (n1 r hr)
    · exact n2 p e r hr

theorem overB_skip (ctx : Ctx) (A : Config) : ∀ (ps : List Policy) (st : PSt),
    (∀ pb ∈ ps, A.policies.any (·.id == pb.id) = true) → overB ctx A ps st = (st, []) := by
  intro ps
  induction ps with
  | nil => intro st _; rfl
  | cons pb rest ih =>
    intro st h
    unfold overB
    simp only [h pb List.mem_cons_self, if_true]
    exact ih st fun p hp => h p (List.mem_cons_of_mem _ hp)

end NA.Nsx
