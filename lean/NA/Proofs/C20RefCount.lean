import NA.Proofs.C20Refs
/-!
C20, round 3 — how many references `postprocessACLParts` can add (at most five: as many as
`c.typ.ref` gets entries), the registered prefixes fit the references of every parsed command, and
the index searches of `mergeASAACLs` / `mergeIOSACLs`.
-/
set_option linter.unusedSimpArgs false
namespace NA.C20
open Res

/-- a step adds at most one reference and leaves `proto` alone. -/
def Grow1 (f : AclSt → Res AclSt) : Prop :=
  ∀ s s', f s = .ok s' → s'.refs.length ≤ s.refs.length + 1 ∧ s'.proto = s.proto

theorem failAt_ne_ok {α : Type} (fixed : Bool) (p : Panic) (m : Str) (a : α) : failAt fixed p m ≠ (.ok a : Res α) := by
  unfold failAt; split <;> intro h <;> cases h

theorem grow_convObjectGroup (fixed : Bool) (orig : Str) : Grow1 (convObjectGroup fixed orig) := by
  intro s s' h
  unfold convObjectGroup at h
  split at h
  · cases h; simp
  · exact absurd h (failAt_ne_ok _ _ _ _)

theorem grow_convObject (fixed : Bool) (tb : Tables) (orig : Str) : Grow1 (convObject fixed tb orig) := by
  intro s s' h
  unfold convObject at h
  split at h
  · cases h; simp
  · split at h
    · exact grow_convObjectGroup fixed orig s s' h
    · split at h
      · split at h <;> (cases h; simp)
      · split at h
        · split at h
          · cases h; simp
          · exact absurd h (failAt_ne_ok _ _ _ _)
        · split at h
          · cases h; simp
          · split at h
            · cases h; simp
            · split at h <;> (cases h; simp)

theorem grow_convPortOrObject (fixed : Bool) (tb : Tables) (orig : Str) :
    Grow1 (convPortOrObject fixed tb orig) := by
  intro s s' h
  unfold convPortOrObject at h
  split at h
  · cases h; simp
  · split at h
    · cases h; simp
    · split at h
      · cases h; simp
      · exact grow_convObject fixed tb orig s s' h

theorem convICMP_refs (tb : Tables) (s : AclSt) : (convICMP tb s).refs = s.refs := by
  unfold convICMP
  split
  · rfl
  · split
    · split <;> rfl
    · split <;> rfl

theorem skipNumber_refs (s : AclSt) : (skipNumber s).refs = s.refs := by
  unfold skipNumber
  split
  · rfl
  · split <;> rfl

/-- `convProto` from the initial state: at most one reference, and if it took one (the protocol
is an object-group) `proto` stays empty — so the three `convPortOrObject` calls of tcp/udp never
follow a reference taken here. -/
theorem convProto_init (fixed : Bool) (tb : Tables) (orig : Str) (parts : List Str) (s1 : AclSt)
    (h : convProto fixed tb orig { done := [], parts := parts, proto := [], refs := [] } = .ok s1) :
    s1.refs.length ≤ 1 ∧ (s1.refs.length = 1 → s1.proto = []) := by
  unfold convProto at h
  split at h
  · exact absurd h (failAt_ne_ok _ _ _ _)
  · split at h
    · obtain ⟨h1, h2⟩ := grow_convObjectGroup fixed orig _ s1 h
      simp at h1 h2
      exact ⟨h1, fun _ => h2⟩
    · split at h
      · split at h
        · cases h; simp
        · exact absurd h (failAt_ne_ok _ _ _ _)
      · cases h; simp

/-- `postprocessACLParts` appends at most FIVE names to `c.ref` — exactly the number of
`object-group` prefixes that `postprocessParsed` registers in `c.typ.ref`. -/
theorem aclParts_refs_le5 (fixed : Bool) (tb : Tables) (orig : Str) (parts : List Str)
    (r : List Str × List Str) (h : aclParts fixed tb orig parts = .ok r) : r.2.length ≤ 5 := by
  unfold aclParts at h
  obtain ⟨s1, h1, h⟩ := res_bind_ok h
  obtain ⟨s2, h2, h⟩ := res_bind_ok h
  obtain ⟨s3, h3, h⟩ := res_bind_ok h
  obtain ⟨s4, h4, h⟩ := res_bind_ok h
  cases h
  simp only [List.length_reverse]
  obtain ⟨p1, p1'⟩ := convProto_init fixed tb orig parts s1 h1
  obtain ⟨g2, q2⟩ := grow_convObject fixed tb orig s1 s2 h2
  obtain ⟨g4, _⟩ := grow_convObject fixed tb orig s3 s4 h4
  split at h3
  · -- tcp / udp: proto is not empty, so convProto took no reference
    rename_i hp
    have hs1 : s1.refs.length = 0 := by
      cases hl : s1.refs.length with
      | zero => rfl
      | succ n =>
        have : s1.refs.length = 1 := by omega
        have hp1 := p1' this
        rw [q2, hp1] at hp
        rcases hp with hp | hp <;> exact absurd hp (by decide)
    obtain ⟨a, ha, h3⟩ := res_bind_ok h3
    obtain ⟨b, hb, h3⟩ := res_bind_ok h3
    obtain ⟨ga, _⟩ := grow_convPortOrObject fixed tb orig s2 a ha
    obtain ⟨gb, _⟩ := grow_convPortOrObject fixed tb orig a b hb
    obtain ⟨gc, _⟩ := grow_convPortOrObject fixed tb orig b s3 h3
    omega
  · split at h3
    · obtain ⟨a, ha, h3⟩ := res_bind_ok h3
      obtain ⟨ga, _⟩ := grow_convObject fixed tb orig s2 a ha
      cases h3
      rw [skipNumber_refs, convICMP_refs] at g4
      omega
    · obtain ⟨g3, _⟩ := grow_convObject fixed tb orig s2 s3 h3
      omega

theorem asaACL_refs_le5 (fixed : Bool) (tb : Tables) (orig parsed p : Str) (refs : List Str)
    (h : asaACL fixed tb orig parsed = .ok (some (p, refs))) : refs.length ≤ 5 := by
  unfold asaACL at h
  simp only at h
  split at h
  · split at h
    · cases h
    · split at h
      · obtain ⟨r, hr, h⟩ := res_bind_ok h
        cases h
        exact aclParts_refs_le5 fixed tb orig _ r hr
      · cases h
  · cases h

theorem iosACL_refs_le5 (fixed : Bool) (tb : Tables) (orig parsed : Str) (r : Str × Str × List Str)
    (h : iosACL fixed tb orig parsed = .ok r) : r.2.2.length ≤ 5 := by
  unfold iosACL at h
  split at h
  · cases h
  · simp only at h
    split at h
    · cases h
    · split at h
      · cases h; simp
      · obtain ⟨q, hq, h⟩ := res_bind_ok h
        cases h
        exact aclParts_refs_le5 fixed tb _ _ q hq

/-! ### registered prefixes versus references of a parsed command -/

/-- the tables declare one referenced prefix per `$REF` token (checked on the regenerated tables). -/
def RefsDeclared (ds : List Descr) : Prop :=
  ∀ d ∈ ds, d.refs.length = d.template.count refTok ∧
    ∀ s ∈ indexed d.sub, (d.subRefs.getD s.1 []).length = s.2.1.count refTok

/-- no template has more than five `$REF` tokens. -/
def MaxRefs5 (ds : List Descr) : Prop :=
  ∀ d ∈ ds, d.template.count refTok ≤ 5 ∧ ∀ s ∈ d.sub, s.1.count refTok ≤ 5

theorem fiveGroups_length : fiveGroups.length = 5 := by simp [fiveGroups]

/-- Every command the parser returns fits the prefixes registered for its type — before
`postprocessParsed` adds references. -/
theorem refsFit_of_topOK (fixed : Bool) (ds : List Descr) (hdecl : RefsDeclared ds) (hmax : MaxRefs5 ds)
    (c : Cmd) (h : TopOK ds c) : RefsFit fixed ds c := by
  obtain ⟨d, hd, hdi, _, hrefs, hsubs⟩ := h
  have hget := indexed_getD' ds noDescr d hd
  rw [← hdi] at hget
  obtain ⟨hdr, hds⟩ := hdecl d.2 (mem_indexed hd)
  obtain ⟨hm1, hm2⟩ := hmax d.2 (mem_indexed hd)
  constructor
  · unfold typRefTop
    simp only [hget]
    split
    · rw [fiveGroups_length]; omega
    · split
      · split
        · simp; omega
        · omega
      · omega
  · intro sc hsc
    obtain ⟨s, hs, hsi, _, hr⟩ := hsubs sc hsc
    unfold typRefSub
    simp only [hget]
    split
    · rw [fiveGroups_length]
      have := hm2 s.2 (mem_indexed hs)
      omega
    · rw [hsi, hds s hs, hr]
      exact Nat.le_refl _

/-- … and still fits after `postprocessASAACL` appended the object-group names (template of an
`access-list` command has no `$REF`, at most five names are appended, five prefixes are registered). -/
theorem refsFit_asaACL (ds : List Descr) (c : Cmd) (d : Nat × Descr) (hd : d ∈ indexed ds) (hdi : c.descr = d.1)
    (hpre : d.2.pre = lit "access-list") (hcnt : c.ref.length = 0)
    (tb : Tables) (p : Str) (refs : List Str) (h : asaACL true tb c.orig c.parsed = .ok (some (p, refs))) :
    ({ c with parsed := p, ref := c.ref ++ refs } : Cmd).ref.length ≤
      (typRefTop ds { c with parsed := p, ref := c.ref ++ refs }).length := by
  have hget := indexed_getD' ds noDescr d hd
  rw [← hdi] at hget
  have := asaACL_refs_le5 true tb c.orig c.parsed p refs h
  unfold typRefTop
  simp only [hget, hpre, if_true]
  rw [fiveGroups_length]
  simp
  omega

/-- … after `setTransRef` stored at most eleven names (fix 7ae6545) where eleven prefixes are registered. -/
theorem refsFit_transRefs (orig names : Str) (r : List Str × Str) (h : transRefs true orig names = .ok r)
    (p : Str) : r.1.length ≤ (List.replicate 11 p).length := by
  have := transRefs_le11 orig names r h
  simpa using this

/-! ### mergeASAACLs / mergeIOSACLs -/

/-- the search for the last permit line: no index out of range, and the position found lies
between the prepended lines and the end of the ACL — whatever the lines are. -/
theorem appendPos_spec (permits : List Bool) (nPre : Nat) : ∀ i : Nat, i ≤ permits.length →
    NoPanic (appendPos permits nPre i) ∧ ∀ k, appendPos permits nPre i = .ok k → k ≤ i
  | 0, _ => by
    unfold appendPos
    exact ⟨noPanic_ok _, fun k h => by cases h; exact Nat.le_refl _⟩
  | i + 1, hi => by
    unfold appendPos
    split
    · have hlt : i < permits.length := by omega
      have hget : permits[i]? = some permits[i] := by simp [hlt]
      rw [hget]
      obtain ⟨ih1, ih2⟩ := appendPos_spec permits nPre i (by omega)
      cases permits[i] with
      | true => exact ⟨noPanic_ok _, fun k h => by cases h; exact Nat.le_refl _⟩
      | false => exact ⟨ih1, fun k h => by have := ih2 k h; omega⟩
    · exact ⟨noPanic_ok _, fun k h => by cases h; exact Nat.le_refl _⟩

/-- the search followed by `slices.Insert(acl, i, appendACL...)`. -/
theorem insertAt_noPanic (acl app : List AclLine) (f : AclLine → Bool) (n : Nat) :
    NoPanic ((appendPos (acl.map f) n acl.length).bind fun i =>
      if i ≤ acl.length then Res.ok (acl.take i ++ app ++ acl.drop i)
      else Res.panic (.slice "slices.Insert(acl, i, …)")) := by
  obtain ⟨h1, h2⟩ := appendPos_spec (acl.map f) n acl.length (by simp)
  refine NoPanic.bind' h1 fun i hi => ?_
  have := h2 i hi
  rw [if_pos this]
  exact noPanic_ok _

/-- `mergeASAACLs`: no Go panic for ANY two lists of ACL lines. -/
theorem mergeASAACL_noPanic (a b : List AclLine) : NoPanic (mergeASAACL a b) := by
  unfold mergeASAACL
  simp only
  refine NoPanic.bind ?_ fun x => ?_
  · split
    · exact noPanic_ok _
    · rename_i last hl
      have hne : List.filter (fun b => !b.app) b ≠ [] := by
        intro h; rw [h] at hl; simp at hl
      have hpos : 0 < (List.filter (fun b => !b.app) b).length := List.length_pos_iff.mpr hne
      rw [if_pos (by omega)]
      split <;> exact noPanic_ok _
  · obtain ⟨pre, acl⟩ := x
    simp only
    split
    · exact noPanic_ok _
    · exact insertAt_noPanic _ _ _ _

/-- `mergeIOSACLs`: no Go panic when `bCmds` is not empty — which `buildLookup_ok` derives for every
list stored in the lookup map. -/
theorem mergeIOSACL_noPanic (aSub : List AclLine) (bCmds : List (List AclLine)) (hne : bCmds ≠ []) :
    NoPanic (mergeIOSACL aSub bCmds) := by
  cases bCmds with
  | nil => exact absurd rfl hne
  | cons x xs =>
    simp only [mergeIOSACL]
    split
    · exact noPanic_ok _
    · exact insertAt_noPanic _ _ _ _

end NA.C20
