import NA.Proofs.F1Lines
/-!
# F1: the operations planned by `planASA` on the merged list of `diffASAACLs` touch cells of the right kind
-/
namespace NA.F1
open NA.Acl (planASA addIdx delIdx delLookup asaAddStep asaDelStep asaAddACL asaDelACL AsaSt Op)

/-- An added line belongs to a new-only cell, a deleted line to an old-only cell. -/
def Shape (cells : List MCell) (mkeys : List String) : Op → Prop
  | .add _ l => ∃ j bi, j < cells.length ∧ l = (encCell cells mkeys j).line ∧ cells.getD j default = .ins bi
  | .del _ l => ∃ i ai, i < cells.length ∧ l = (encCell cells mkeys i).line ∧ cells.getD i default = .del ai
  | .move _ a _ b =>
    (∃ i ai, i < cells.length ∧ a = (encCell cells mkeys i).line ∧ cells.getD i default = .del ai) ∧
    (∃ j bi, j < cells.length ∧ b = (encCell cells mkeys j).line ∧ cells.getD j default = .ins bi)
  | .bad => True

theorem mem_addIdx (cells : List MCell) (mkeys : List String) (j : Nat) (h : j ∈ addIdx (encodeCells cells mkeys)) :
    j < cells.length ∧ ∃ bi, cells.getD j default = .ins bi := by
  unfold addIdx at h
  simp only [List.mem_filter, List.mem_range, encodeCells_length] at h
  obtain ⟨hj, hf⟩ := h
  rw [encodeCells_getD cells mkeys j hj] at hf
  simp only [encCell, Bool.and_eq_true, Bool.not_eq_true'] at hf
  refine ⟨hj, ?_⟩
  cases hc : cells.getD j default with
  | ins bi => exact ⟨bi, rfl⟩
  | del ai => rw [hc] at hf; simp [cellNew] at hf
  | keep ai bi => rw [hc] at hf; simp [cellOld] at hf

theorem mem_delIdx (cells : List MCell) (mkeys : List String) (i : Nat) (h : i ∈ delIdx (encodeCells cells mkeys)) :
    i < cells.length ∧ ∃ ai, cells.getD i default = .del ai := by
  unfold delIdx at h
  simp only [List.mem_filter, List.mem_range, encodeCells_length] at h
  obtain ⟨hi, hf⟩ := h
  rw [encodeCells_getD cells mkeys i hi] at hf
  simp only [encCell, Bool.and_eq_true, Bool.not_eq_true'] at hf
  refine ⟨hi, ?_⟩
  cases hc : cells.getD i default with
  | ins bi => rw [hc] at hf; simp [cellOld] at hf
  | del ai => exact ⟨ai, rfl⟩
  | keep ai bi => rw [hc] at hf; simp [cellNew] at hf

theorem delLookup_mem (M : List NA.Acl.Cell) (mk i : Nat) (h : delLookup M mk = some i) : i ∈ delIdx M := by
  unfold delLookup at h
  have := List.mem_of_getLast? h
  exact (List.mem_filter.mp this).1

theorem addStep_shapes (cells : List MCell) (mkeys : List String) (st : AsaSt) (j : Nat)
    (hj : j ∈ addIdx (encodeCells cells mkeys)) (h : ∀ op ∈ st.ops, Shape cells mkeys op) :
    ∀ op ∈ (asaAddStep (encodeCells cells mkeys) st j).ops, Shape cells mkeys op := by
  obtain ⟨hjl, bi, hjc⟩ := mem_addIdx cells mkeys j hj
  have hline : ((encodeCells cells mkeys).getD j default).line = (encCell cells mkeys j).line := by
    rw [encodeCells_getD cells mkeys j hjl]
  unfold asaAddStep
  split
  · rename_i i hlk
    obtain ⟨hil, ai, hic⟩ := mem_delIdx cells mkeys i (delLookup_mem _ _ _ hlk)
    have hlinei : ((encodeCells cells mkeys).getD i default).line = (encCell cells mkeys i).line := by
      rw [encodeCells_getD cells mkeys i hil]
    simp only [asaDelACL, asaAddACL]
    split
    · rename_i d a dp la ap lb hd ha
      intro op hop
      simp only [List.mem_cons] at hop
      rcases hop with rfl | hop
      · -- the move
        simp only [Op.add.injEq] at ha
        split at hd
        · exact absurd hd (by simp)
        · simp only [Option.some.injEq, Op.del.injEq] at hd
          exact ⟨⟨i, ai, hil, by rw [← hd.2, hlinei], hic⟩, ⟨j, bi, hjl, by rw [← ha.2, hline], hjc⟩⟩
      · exact h op hop
    · intro op hop
      simp only [List.mem_cons] at hop
      rcases hop with rfl | hop
      · trivial
      · exact h op hop
  · simp only [asaAddACL]
    intro op hop
    simp only [List.mem_cons] at hop
    rcases hop with rfl | hop
    · exact ⟨j, bi, hjl, hline, hjc⟩
    · exact h op hop

theorem delStep_shapes (cells : List MCell) (mkeys : List String) (st : AsaSt) (i : Nat)
    (hi : i ∈ delIdx (encodeCells cells mkeys)) (h : ∀ op ∈ st.ops, Shape cells mkeys op) :
    ∀ op ∈ (asaDelStep (encodeCells cells mkeys) st i).ops, Shape cells mkeys op := by
  obtain ⟨hil, ai, hic⟩ := mem_delIdx cells mkeys i hi
  have hlinei : ((encodeCells cells mkeys).getD i default).line = (encCell cells mkeys i).line := by
    rw [encodeCells_getD cells mkeys i hil]
  unfold asaDelStep
  split
  · exact h
  · rename_i hnc
    simp only [asaDelACL, hnc, Bool.false_eq_true, if_false]
    intro op hop
    simp only [List.mem_cons] at hop
    rcases hop with rfl | hop
    · exact ⟨i, ai, hil, hlinei, hic⟩
    · exact h op hop

theorem planASA_shapes (cells : List MCell) (mkeys : List String) :
    ∀ op ∈ planASA (encodeCells cells mkeys), Shape cells mkeys op := by
  unfold planASA
  simp only [List.mem_reverse]
  have h1 : ∀ (l : List Nat) (st : AsaSt), (∀ j ∈ l, j ∈ addIdx (encodeCells cells mkeys)) →
      (∀ op ∈ st.ops, Shape cells mkeys op) →
      ∀ op ∈ (l.foldl (asaAddStep (encodeCells cells mkeys)) st).ops, Shape cells mkeys op := by
    intro l
    induction l with
    | nil => intro st _ h; exact h
    | cons j js ih =>
      intro st hl h
      exact ih _ (fun x hx => hl x (List.mem_cons_of_mem _ hx))
        (addStep_shapes cells mkeys st j (hl j List.mem_cons_self) h)
  have h2 : ∀ (l : List Nat) (st : AsaSt), (∀ i ∈ l, i ∈ delIdx (encodeCells cells mkeys)) →
      (∀ op ∈ st.ops, Shape cells mkeys op) →
      ∀ op ∈ (l.foldl (asaDelStep (encodeCells cells mkeys)) st).ops, Shape cells mkeys op := by
    intro l
    induction l with
    | nil => intro st _ h; exact h
    | cons j js ih =>
      intro st hl h
      exact ih _ (fun x hx => hl x (List.mem_cons_of_mem _ hx))
        (delStep_shapes cells mkeys st j (hl j List.mem_cons_self) h)
  apply h2 _ _ (fun i hi => List.mem_reverse.mp hi)
  apply h1 _ _ (fun j hj => hj)
  intro op hop
  simp at hop

end NA.F1
