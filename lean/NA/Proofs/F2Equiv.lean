import NA.Proofs.F2Sem
/-!
# F2: `AclEqv` (block equivalence on the numeric encoding) implies the table-free `BlockEquivA`
-/
namespace NA.F2
open NA.IosDev2
open NA.Acl (Line BlockEqG LineEqv swappable Act)

/-! ## blocks of encoded lines -/

def blockListN : List Line → List (Bool × List Nat)
  | [] => []
  | l :: ls =>
    if l.remark then blockListN ls else
    match blockListN ls with
    | (p, ks) :: rest => if p == l.permit then (p, l.mkey :: ks) :: rest else (l.permit, [l.mkey]) :: (p, ks) :: rest
    | [] => [(l.permit, [l.mkey])]

inductive BlocksPermN : List (Bool × List Nat) → List (Bool × List Nat) → Prop
  | nil : BlocksPermN [] []
  | cons (p : Bool) {ks ks' : List Nat} {r r' : List (Bool × List Nat)} :
      ks.Perm ks' → BlocksPermN r r' → BlocksPermN ((p, ks) :: r) ((p, ks') :: r')

theorem BlocksPermN.refl (l : List (Bool × List Nat)) : BlocksPermN l l := by
  induction l with
  | nil => exact .nil
  | cons x xs ih => obtain ⟨p, ks⟩ := x; exact .cons p (List.Perm.refl _) ih

theorem BlocksPermN.trans {a b c : List (Bool × List Nat)} (h1 : BlocksPermN a b) (h2 : BlocksPermN b c) :
    BlocksPermN a c := by
  induction h1 generalizing c with
  | nil => exact h2
  | cons p hp _ ih =>
    cases h2 with
    | cons _ hp' hr' => exact .cons p (hp.trans hp') (ih hr')

def stepN (l : Line) (T : List (Bool × List Nat)) : List (Bool × List Nat) :=
  if l.remark then T else
  match T with
  | (p, ks) :: rest => if p == l.permit then (p, l.mkey :: ks) :: rest else (l.permit, [l.mkey]) :: (p, ks) :: rest
  | [] => [(l.permit, [l.mkey])]

theorem blockListN_cons (l : Line) (u : List Line) : blockListN (l :: u) = stepN l (blockListN u) := rfl

theorem stepN_perm (l : Line) {U V : List (Bool × List Nat)} (h : BlocksPermN U V) :
    BlocksPermN (stepN l U) (stepN l V) := by
  unfold stepN
  cases l.remark with
  | true => simpa using h
  | false =>
    simp only [Bool.false_eq_true, ↓reduceIte]
    cases h with
    | nil => exact BlocksPermN.refl _
    | cons p hp hr =>
      simp only
      by_cases hq : p == l.permit
      · simp only [hq, ↓reduceIte]
        exact .cons p (List.Perm.cons _ hp) hr
      · simp only [hq, Bool.false_eq_true, ↓reduceIte]
        exact .cons _ (List.Perm.refl _) (.cons p hp hr)

theorem blocksN_cons (l : Line) {u v : List Line} (h : BlocksPermN (blockListN u) (blockListN v)) :
    BlocksPermN (blockListN (l :: u)) (blockListN (l :: v)) := by
  rw [blockListN_cons, blockListN_cons]; exact stepN_perm l h

theorem blocksN_prefix (s : List Line) {u v : List Line} (h : BlocksPermN (blockListN u) (blockListN v)) :
    BlocksPermN (blockListN (s ++ u)) (blockListN (s ++ v)) := by
  induction s with
  | nil => exact h
  | cons l s ih => exact blocksN_cons l ih

theorem blocksN_swap (a b : Line) (s2 : List Line) (h : swappable a b) :
    BlocksPermN (blockListN (a :: b :: s2)) (blockListN (b :: a :: s2)) := by
  simp only [blockListN]
  cases ha : a.remark with
  | true =>
    cases hb : b.remark <;> simp only [Bool.false_eq_true, ↓reduceIte] <;> exact BlocksPermN.refl _
  | false =>
    cases hb : b.remark with
    | true => simp only [Bool.false_eq_true, ↓reduceIte]; exact BlocksPermN.refl _
    | false =>
      have hp : a.permit = b.permit := by
        rcases h with h | h | h
        · rw [ha] at h; cases h
        · rw [hb] at h; cases h
        · exact h
      simp only [Bool.false_eq_true, ↓reduceIte]
      cases hT : blockListN s2 with
      | nil =>
        simp only [hp, beq_self_eq_true, ↓reduceIte]
        exact .cons _ (List.Perm.swap _ _ _) .nil
      | cons t rest =>
        obtain ⟨q, ks⟩ := t
        simp only
        by_cases hq : q == b.permit
        · simp only [hq, ↓reduceIte, hp]
          exact .cons _ (List.Perm.swap _ _ _) (BlocksPermN.refl _)
        · simp only [hq, Bool.false_eq_true, ↓reduceIte, hp, beq_self_eq_true]
          exact .cons _ (List.Perm.swap _ _ _) (BlocksPermN.refl _)

theorem blocksN_repl (a b : Line) (s2 : List Line) (h : LineEqv a b) :
    blockListN (a :: s2) = blockListN (b :: s2) := by
  obtain ⟨h1, h2, h3, _⟩ := h
  simp only [blockListN, h1, h2, h3]

theorem blockEqG_blocksN {x y : List Line} (h : BlockEqG LineEqv x y) : BlocksPermN (blockListN x) (blockListN y) := by
  induction h with
  | refl x => exact BlocksPermN.refl _
  | swap s1 s2 a b h => exact blocksN_prefix s1 (blocksN_swap a b s2 h)
  | repl s1 s2 a b h => exact blocksN_prefix s1 (by rw [blocksN_repl a b s2 h]; exact BlocksPermN.refl _)
  | trans _ _ ih1 ih2 => exact ih1.trans ih2


/-! ## decoding -/

def encBlock (mk : List String) (p : Act × List String) : Bool × List Nat := (p.1 == .permit, p.2.map (mk.idxOf ·))

theorem blockList_nonremark (x : List ALine) : ∀ p ∈ blockList x, p.1 ≠ .remark := by
  induction x with
  | nil => intro p hp; cases hp
  | cons l ls ih =>
    intro p hp
    simp only [blockList] at hp
    split at hp
    · exact ih p hp
    · rename_i hr
      have hl : l.act ≠ .remark := by simpa using hr
      split at hp
      · rename_i a ks rest hT
        have ha : a ≠ .remark := ih (a, ks) (by rw [hT]; exact List.mem_cons_self ..)
        split at hp
        · rcases List.mem_cons.mp hp with rfl | hp'
          · exact ha
          · exact ih p (by rw [hT]; exact List.mem_cons_of_mem _ hp')
        · rcases List.mem_cons.mp hp with rfl | hp'
          · exact hl
          · exact ih p (by rw [hT]; exact hp')
      · simp only [List.mem_singleton] at hp; subst hp; exact hl

theorem blockList_members (x : List ALine) : ∀ p ∈ blockList x, ∀ k ∈ p.2, ∃ l ∈ x, l.nolog = k := by
  induction x with
  | nil => intro p hp; cases hp
  | cons l ls ih =>
    intro p hp k hk
    have lift : (∃ l' ∈ ls, l'.nolog = k) → ∃ l' ∈ l :: ls, l'.nolog = k :=
      fun ⟨l', h1, h2⟩ => ⟨l', List.mem_cons_of_mem _ h1, h2⟩
    simp only [blockList] at hp
    split at hp
    · exact lift (ih p hp k hk)
    · split at hp
      · rename_i a ks rest hT
        split at hp
        · rcases List.mem_cons.mp hp with rfl | hp'
          · rcases List.mem_cons.mp hk with rfl | hk'
            · exact ⟨l, List.mem_cons_self .., rfl⟩
            · exact lift (ih (a, ks) (by rw [hT]; exact List.mem_cons_self ..) k hk')
          · exact lift (ih p (by rw [hT]; exact List.mem_cons_of_mem _ hp') k hk)
        · rcases List.mem_cons.mp hp with rfl | hp'
          · simp only [List.mem_singleton] at hk; subst hk
            exact ⟨l, List.mem_cons_self .., rfl⟩
          · exact lift (ih p (by rw [hT]; exact hp') k hk)
      · simp only [List.mem_singleton] at hp; subst hp
        simp only [List.mem_singleton] at hk; subst hk
        exact ⟨l, List.mem_cons_self .., rfl⟩

theorem act_test {a b : Act} (ha : a ≠ .remark) (hb : b ≠ .remark) : ((a == Act.permit) == (b == Act.permit)) = (a == b) := by
  cases a <;> cases b <;> first | rfl | exact absurd rfl ha | exact absurd rfl hb

theorem blockListN_enc (tk mk : List String) (x : List ALine) :
    blockListN (x.map (encLine tk mk)) = (blockList x).map (encBlock mk) := by
  induction x with
  | nil => rfl
  | cons l ls ih =>
    simp only [List.map_cons, blockListN, blockList, ih]
    by_cases hr : l.act == Act.remark
    · simp [encLine, hr]
    · have hl : l.act ≠ .remark := by simpa using hr
      simp only [encLine, hr, Bool.false_eq_true, ↓reduceIte]
      cases hT : blockList ls with
      | nil => simp [encBlock]
      | cons t rest =>
        obtain ⟨a, ks⟩ := t
        have ha : a ≠ .remark := blockList_nonremark ls (a, ks) (by rw [hT]; exact List.mem_cons_self ..)
        simp only [List.map_cons, encBlock, act_test ha hl]
        by_cases hq : a == l.act
        · simp [hq, encBlock]
        · simp [hq, encBlock]

theorem BlocksPermN_nil_cons {t : Bool × List Nat} {r : List (Bool × List Nat)} : ¬ BlocksPermN [] (t :: r) := by
  intro h; cases h
theorem BlocksPermN_cons_nil {t : Bool × List Nat} {r : List (Bool × List Nat)} : ¬ BlocksPermN (t :: r) [] := by
  intro h; cases h
theorem BlocksPermN_cons_inv {p p' : Bool} {ks ks' : List Nat} {r r' : List (Bool × List Nat)}
    (h : BlocksPermN ((p, ks) :: r) ((p', ks') :: r')) : p = p' ∧ ks.Perm ks' ∧ BlocksPermN r r' := by
  cases h with
  | cons _ hp hr => exact ⟨rfl, hp, hr⟩

theorem perm_of_map_idx (mk : List String) (ks ks' : List String) (hk' : ∀ k ∈ ks', k ∈ mk)
    (h : (ks.map (mk.idxOf ·)).Perm (ks'.map (mk.idxOf ·))) : ks.Perm ks' := by
  have hk : ∀ k ∈ ks, k ∈ mk := by
    intro k hk
    have : mk.idxOf k ∈ ks'.map (mk.idxOf ·) := h.mem_iff.mp (List.mem_map_of_mem (f := (mk.idxOf ·)) hk)
    obtain ⟨k', hk'm, hkk⟩ := List.mem_map.mp this
    have hlt : mk.idxOf k' < mk.length := List.idxOf_lt_length_iff.mpr (hk' k' hk'm)
    rw [hkk] at hlt
    exact List.idxOf_lt_length_iff.mp hlt
  have h2 := h.map (fun i => mk.getD i "")
  rw [List.map_map, List.map_map] at h2
  have e1 : ks.map ((fun i => mk.getD i "") ∘ (mk.idxOf ·)) = ks := by
    calc ks.map ((fun i => mk.getD i "") ∘ (mk.idxOf ·)) = ks.map id :=
          List.map_congr_left fun k hkm => getD_idxOf (hk k hkm)
      _ = ks := List.map_id _
  have e2 : ks'.map ((fun i => mk.getD i "") ∘ (mk.idxOf ·)) = ks' := by
    calc ks'.map ((fun i => mk.getD i "") ∘ (mk.idxOf ·)) = ks'.map id :=
          List.map_congr_left fun k hkm => getD_idxOf (hk' k hkm)
      _ = ks' := List.map_id _
  rw [e1, e2] at h2
  exact h2

theorem act_of_permit {a b : Act} (ha : a ≠ .remark) (hb : b ≠ .remark) (h : (a == Act.permit) = (b == Act.permit)) : a = b := by
  cases a <;> cases b <;> first | rfl | exact absurd rfl ha | exact absurd rfl hb | (simp at h)

theorem decode_blocks (mk : List String) (L L' : List (Act × List String))
    (hL : ∀ p ∈ L, p.1 ≠ .remark) (hL' : ∀ p ∈ L', p.1 ≠ .remark) (hmem : ∀ p ∈ L', ∀ k ∈ p.2, k ∈ mk)
    (h : BlocksPermN (L.map (encBlock mk)) (L'.map (encBlock mk))) : BlocksPerm L L' := by
  induction L generalizing L' with
  | nil =>
    cases L' with
    | nil => exact .nil
    | cons t r => exact absurd h BlocksPermN_nil_cons
  | cons t r ih =>
    cases L' with
    | nil => exact absurd h BlocksPermN_cons_nil
    | cons t' r' =>
      obtain ⟨a, ks⟩ := t
      obtain ⟨a', ks'⟩ := t'
      simp only [List.map_cons, encBlock] at h
      obtain ⟨h1, h2, h3⟩ := BlocksPermN_cons_inv h
      have haa : a = a' := act_of_permit (hL _ (List.mem_cons_self ..)) (hL' _ (List.mem_cons_self ..)) h1
      subst haa
      exact .cons a (perm_of_map_idx mk ks ks' (hmem _ (List.mem_cons_self ..)) h2)
        (ih r' (fun p hp => hL p (List.mem_cons_of_mem _ hp)) (fun p hp => hL' p (List.mem_cons_of_mem _ hp))
          (fun p hp => hmem p (List.mem_cons_of_mem _ hp)) h3)

/-- `AclEqv` in table-free form: same sequence of actions and, block by block, the same lines modulo
`log` up to order (remark lines ignored). -/
theorem AclEqv.blockEquivA {x y : List ALine} (h : AclEqv x y) : BlockEquivA x y := by
  obtain ⟨al, hb⟩ := h
  have hN := blockEqG_blocksN hb
  simp only [encP] at hN
  rw [blockListN_enc, blockListN_enc] at hN
  apply decode_blocks (mkOf al y) _ _ (blockList_nonremark x) (blockList_nonremark y) _ hN
  intro p hp k hk
  obtain ⟨l, hl, rfl⟩ := blockList_members y p hp k hk
  exact List.mem_map_of_mem (f := (·.nolog)) (List.mem_append_right al hl)

end NA.F2
