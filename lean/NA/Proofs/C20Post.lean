import NA.Proofs.C20RefCount
import NA.Model.CursorPost
/-!
C20 — `checkReferences` after `postprocessParsed`, composed: for the commands the parser returns,
stored in the lookup map and post-processed entry by entry (`postLookup`), every command still has at
most as many references as prefixes are registered for its type, hence `c.typ.ref[i]` is in range.
-/
namespace NA.C20
open Res

theorem mapRes_mem {α β : Type} (f : α → Res β) : ∀ (l : List α) (l' : List β), mapRes f l = .ok l' →
    ∀ y ∈ l', ∃ x ∈ l, f x = .ok y
  | [], l', h => by unfold mapRes at h; cases h; intro y hy; cases hy
  | x :: xs, l', h => by
    unfold mapRes at h
    cases hx : f x with
    | diag m => rw [hx] at h; cases h
    | panic p => rw [hx] at h; cases h
    | ok y0 =>
      rw [hx] at h
      simp only [Res.bind] at h
      cases hxs : mapRes f xs with
      | diag m => rw [hxs] at h; cases h
      | panic p => rw [hxs] at h; cases h
      | ok ys =>
        rw [hxs] at h
        simp only [Res.bind] at h
        cases h
        intro y hy
        rcases List.mem_cons.mp hy with hy | hy
        · exact ⟨x, by simp, by rw [hx, hy]⟩
        · obtain ⟨x', hx', hf⟩ := mapRes_mem f xs ys hxs y hy
          exact ⟨x', List.mem_cons_of_mem _ hx', hf⟩

/-! ### the registered prefixes by prefix of the command -/

theorem typRefTop_acl (ds : List Descr) (c : Cmd) (h : prefixOf ds c = lit "access-list") :
    typRefTop ds c = fiveGroups := by
  unfold typRefTop
  unfold prefixOf at h
  simp only [h, if_true]

theorem typRefTop_plain (ds : List Descr) (c : Cmd) (h1 : prefixOf ds c ≠ lit "access-list")
    (h2 : prefixOf ds c ≠ lit "crypto map") (h3 : prefixOf ds c ≠ lit "crypto dynamic-map") :
    typRefTop ds c = (ds.getD c.descr noDescr).refs := by
  unfold typRefTop
  unfold prefixOf at h1 h2 h3
  simp only [h1, h2, h3, if_false, or_self]

/-- `typRefTop` looks at `descr` and, for the crypto prefixes only, at `parsed`. -/
theorem typRefTop_congr (ds : List Descr) (c c' : Cmd) (hd : c'.descr = c.descr) (hp : c'.parsed = c.parsed) :
    typRefTop ds c' = typRefTop ds c := by
  unfold typRefTop
  rw [hd, hp]

theorem typRefSub_congr (ds : List Descr) (pc pc' sc : Cmd) (hd : pc'.descr = pc.descr) :
    typRefSub true ds pc' sc = typRefSub true ds pc sc := by
  unfold typRefSub
  rw [hd]

/-! ### access-list -/

def AclNoRef (ds : List Descr) : Prop := ∀ d ∈ ds, d.pre = lit "access-list" → d.template.count refTok = 0

theorem topOK_pre (ds : List Descr) (c : Cmd) (h : TopOK ds c) :
    ∃ d ∈ indexed ds, c.descr = d.1 ∧ prefixOf ds c = d.2.pre ∧ c.ref.length = d.2.template.count refTok ∧
      ∀ sc ∈ c.sub, SubOK d.2.sub sc := by
  obtain ⟨d, hd, hdi, _, hr, hs⟩ := h
  refine ⟨d, hd, hdi, ?_, hr, hs⟩
  unfold prefixOf
  rw [hdi, indexed_getD' ds noDescr d hd]

theorem postASA_fit (ds : List Descr) (hdecl : RefsDeclared ds) (hmax : MaxRefs5 ds) (hacl : AclNoRef ds)
    (tb : Tables) (c c' : Cmd) (ht : TopOK ds c) (hp : prefixOf ds c = lit "access-list")
    (h : postASA tb c = .ok c') : RefsFit true ds c' := by
  have hfit := refsFit_of_topOK true ds hdecl hmax c ht
  unfold postASA at h
  cases ha : asaACL true tb c.orig c.parsed with
  | diag m => rw [ha] at h; cases h
  | panic p => rw [ha] at h; cases h
  | ok o =>
    rw [ha] at h
    simp only [Res.bind] at h
    cases o with
    | none => simp only at h; cases h; exact hfit
    | some pr =>
      obtain ⟨p, refs⟩ := pr
      simp only at h
      cases h
      obtain ⟨d, hd, _, hpre, hr, _⟩ := topOK_pre ds c ht
      have h0 : c.ref.length = 0 := by rw [hr]; exact hacl d.2 (mem_indexed hd) (by rw [← hpre, hp])
      have h5 := asaACL_refs_le5 true tb c.orig c.parsed p refs ha
      constructor
      · have : prefixOf ds ({ c with parsed := p, ref := c.ref ++ refs } : Cmd) = lit "access-list" := hp
        rw [typRefTop_acl ds _ this, fiveGroups_length]
        simp
        omega
      · intro sc hsc
        exact hfit.2 sc hsc

/-! ### ip access-list extended -/

def IosSubNoRef (ds : List Descr) : Prop :=
  ∀ d ∈ ds, d.pre = lit "ip access-list extended" → ∀ s ∈ d.sub, s.1.count refTok = 0

theorem typRefSub_ios (ds : List Descr) (pc sc : Cmd) (h : prefixOf ds pc = lit "ip access-list extended") :
    typRefSub true ds pc sc = fiveGroups := by
  unfold typRefSub
  unfold prefixOf at h
  simp only [h, and_self, if_true]

theorem postIOSGroup_fit (ds : List Descr) (hdecl : RefsDeclared ds) (hmax : MaxRefs5 ds) (hios : IosSubNoRef ds)
    (tb : Tables) (l l' : List Cmd) (ht : ∀ c ∈ l, TopOK ds c ∧ prefixOf ds c = lit "ip access-list extended")
    (h : postIOSGroup tb l = .ok l') : ∀ c' ∈ l', RefsFit true ds c' := by
  cases l with
  | nil => unfold postIOSGroup at h; cases h
  | cons c rest =>
    simp only [postIOSGroup] at h
    cases hs : mapRes (postIOSSub tb) c.sub with
    | diag m => rw [hs] at h; cases h
    | panic p => rw [hs] at h; cases h
    | ok subs =>
      rw [hs] at h
      simp only [Res.bind] at h
      cases h
      intro c' hc'
      rcases List.mem_cons.mp hc' with hc' | hc'
      · subst hc'
        obtain ⟨htc, hpc⟩ := ht c (by simp)
        have hfit := refsFit_of_topOK true ds hdecl hmax c htc
        obtain ⟨d, hd, _, hpre, _, hsubs⟩ := topOK_pre ds c htc
        constructor
        · exact hfit.1
        · intro sc' hsc'
          obtain ⟨sc, hsc, hf⟩ := mapRes_mem (postIOSSub tb) c.sub subs hs sc' hsc'
          have hpc' : prefixOf ds ({ c with sub := subs } : Cmd) = lit "ip access-list extended" := hpc
          rw [typRefSub_ios ds _ sc' hpc', fiveGroups_length]
          unfold postIOSSub at hf
          cases hi : iosACL true tb sc.orig sc.parsed with
          | diag m => rw [hi] at hf; cases hf
          | panic p => rw [hi] at hf; cases hf
          | ok r =>
            rw [hi] at hf
            simp only [Res.bind] at hf
            cases hf
            obtain ⟨s, hs', _, _, hr⟩ := hsubs sc hsc
            have h0 : sc.ref.length = 0 := by
              rw [hr]; exact hios d.2 (mem_indexed hd) (by rw [← hpre, hpc]) s.2 (mem_indexed hs')
            have h5 := iosACL_refs_le5 true tb sc.orig sc.parsed r hi
            simp
            omega
      · exact refsFit_of_topOK true ds hdecl hmax c' (ht c' (List.mem_cons_of_mem _ hc')).1

/-! ### setTransRef -/

theorem cutStr_spec (pat : Str) : ∀ (s a b : Str), cutStr pat s = some (a, b) → s = a ++ pat ++ b
  | [], a, b, h => by unfold cutStr at h; cases h
  | c :: cs, a, b, h => by
    unfold cutStr at h
    split at h
    · rename_i hp
      cases h
      obtain ⟨t, ht⟩ := List.isPrefixOf_iff_prefix.mp hp
      rw [← ht]
      simp
    · cases hc : cutStr pat cs with
      | none => rw [hc] at h; cases h
      | some r =>
        rw [hc] at h
        simp only [Option.map] at h
        cases h
        have := cutStr_spec pat cs r.1 r.2 hc
        rw [this]
        simp

theorem has_mid (pat a r : Str) :
    (List.range ((a ++ pat ++ r).length + 1)).any (fun i => pat.isPrefixOf ((a ++ pat ++ r).drop i)) = true := by
  rw [List.any_eq_true]
  refine ⟨a.length, ?_, ?_⟩
  · rw [List.mem_range]; simp; omega
  · rw [List.append_assoc, List.drop_left]
    exact List.isPrefixOf_iff_prefix.mpr ⟨r, rfl⟩

theorem isTransformCmd_some (a r : Str) (part : Str) (hp : part = ikev1Part ∨ part = ikev2Part) :
    ∃ p, isTransformCmd (a ++ part ++ r) = some p := by
  unfold isTransformCmd
  simp only
  rcases hp with hp | hp
  · subst hp
    have := has_mid ikev1Part a r
    unfold ikev1Part at this ⊢
    rw [if_pos this]
    exact ⟨_, rfl⟩
  · subst hp
    have := has_mid ikev2Part a r
    unfold ikev2Part at this ⊢
    simp only [this, if_true]
    split <;> exact ⟨_, rfl⟩

theorem typRefTop_crypto (ds : List Descr) (c : Cmd)
    (h : prefixOf ds c = lit "crypto map" ∨ prefixOf ds c = lit "crypto dynamic-map") (p : Str)
    (hp : isTransformCmd c.parsed = some p) : typRefTop ds c = List.replicate 11 p := by
  unfold typRefTop
  unfold prefixOf at h
  have hne : ¬ (ds.getD c.descr noDescr).pre = lit "access-list" := by
    rcases h with h | h <;> rw [h] <;> decide
  simp only [hne, if_false, h, if_true, hp]

theorem transPass_fit (ds : List Descr) (part : Str) (hpart : part = ikev1Part ∨ part = ikev2Part) (c c' : Cmd)
    (hpre : prefixOf ds c = lit "crypto map" ∨ prefixOf ds c = lit "crypto dynamic-map")
    (hfit : RefsFit true ds c) (h : transPass part c = .ok c') :
    RefsFit true ds c' ∧ c'.descr = c.descr := by
  unfold transPass at h
  split at h
  · cases h; exact ⟨hfit, rfl⟩
  · rename_i d names hcut
    cases ht : transRefs true c.orig names with
    | diag m => rw [ht] at h; cases h
    | panic p => rw [ht] at h; cases h
    | ok r =>
      rw [ht] at h
      simp only [Res.bind] at h
      cases h
      refine ⟨⟨?_, ?_⟩, rfl⟩
      · obtain ⟨p, hp⟩ := isTransformCmd_some d r.2 part hpart
        have hpre' : prefixOf ds ({ c with ref := r.1, parsed := d ++ part ++ r.2 } : Cmd) = lit "crypto map" ∨
            prefixOf ds ({ c with ref := r.1, parsed := d ++ part ++ r.2 } : Cmd) = lit "crypto dynamic-map" := hpre
        rw [typRefTop_crypto ds _ hpre' p hp]
        have := transRefs_le11 c.orig names r ht
        simpa using this
      · intro sc hsc
        exact hfit.2 sc hsc

theorem postTrans_fit (ds : List Descr) (c c' : Cmd)
    (hpre : prefixOf ds c = lit "crypto map" ∨ prefixOf ds c = lit "crypto dynamic-map")
    (hfit : RefsFit true ds c) (h : postTrans c = .ok c') : RefsFit true ds c' := by
  unfold postTrans at h
  cases h1 : transPass ikev1Part c with
  | diag m => rw [h1] at h; cases h
  | panic p => rw [h1] at h; cases h
  | ok c1 =>
    rw [h1] at h
    simp only [Res.bind] at h
    obtain ⟨hf1, hd1⟩ := transPass_fit ds ikev1Part (Or.inl rfl) c c1 hpre hfit h1
    have hpre1 : prefixOf ds c1 = lit "crypto map" ∨ prefixOf ds c1 = lit "crypto dynamic-map" := by
      unfold prefixOf at hpre ⊢; rw [hd1]; exact hpre
    exact (transPass_fit ds ikev2Part (Or.inr rfl) c1 c' hpre1 hf1 h).1

/-! ### aaa-server: `parsed` is rewritten, commands are dropped, references stay -/

theorem refsFit_parsed (ds : List Descr) (c : Cmd) (p : Str) (h1 : prefixOf ds c ≠ lit "crypto map")
    (h2 : prefixOf ds c ≠ lit "crypto dynamic-map") (hfit : RefsFit true ds c) :
    RefsFit true ds { c with parsed := p } := by
  constructor
  · by_cases ha : prefixOf ds c = lit "access-list"
    · have ha' : prefixOf ds ({ c with parsed := p } : Cmd) = lit "access-list" := ha
      rw [typRefTop_acl ds _ ha']
      have := hfit.1
      rw [typRefTop_acl ds c ha] at this
      exact this
    · have h1' : prefixOf ds ({ c with parsed := p } : Cmd) ≠ lit "crypto map" := h1
      have h2' : prefixOf ds ({ c with parsed := p } : Cmd) ≠ lit "crypto dynamic-map" := h2
      have ha' : prefixOf ds ({ c with parsed := p } : Cmd) ≠ lit "access-list" := ha
      rw [typRefTop_plain ds _ ha' h1' h2']
      have := hfit.1
      rw [typRefTop_plain ds c ha h1 h2] at this
      exact this
  · intro sc hsc
    exact hfit.2 sc hsc

theorem aaaRest_mem (name : Str) : ∀ (l : List Cmd) (ldap : Str) (r : List Cmd), aaaRest true name ldap l = .ok r →
    ∀ y ∈ r, ∃ c ∈ l, y = c ∨ ∃ p, y = { c with parsed := p }
  | [], _, r, h => by unfold aaaRest at h; cases h; intro y hy; cases hy
  | c :: cs, ldap, r, h => by
    unfold aaaRest at h
    cases hh : aaaHost true c.orig c.parsed with
    | diag m => rw [hh] at h; cases h
    | panic p => rw [hh] at h; cases h
    | ok o =>
      rw [hh] at h
      simp only [Res.bind] at h
      cases o with
      | none =>
        simp only at h
        cases hr : aaaRest true name ldap cs with
        | diag m => rw [hr] at h; cases h
        | panic p => rw [hr] at h; cases h
        | ok r' =>
          rw [hr] at h
          cases h
          intro y hy
          rcases List.mem_cons.mp hy with hy | hy
          · exact ⟨c, by simp, Or.inl hy⟩
          · obtain ⟨x, hx, hxy⟩ := aaaRest_mem name cs ldap r' hr y hy
            exact ⟨x, List.mem_cons_of_mem _ hx, hxy⟩
      | some p =>
        simp only at h
        cases hs : subRef c with
        | diag m => rw [hs] at h; cases h
        | panic q => rw [hs] at h; cases h
        | ok ref =>
          rw [hs] at h
          simp only at h
          split at h
          · cases h
          · cases hr : aaaRest true name ref cs with
            | diag m => rw [hr] at h; cases h
            | panic q => rw [hr] at h; cases h
            | ok r' =>
              rw [hr] at h
              cases h
              intro y hy
              rcases List.mem_cons.mp hy with hy | hy
              · exact ⟨c, by simp, Or.inr ⟨p, hy⟩⟩
              · obtain ⟨x, hx, hxy⟩ := aaaRest_mem name cs ref r' hr y hy
                exact ⟨x, List.mem_cons_of_mem _ hx, hxy⟩

theorem aaaGroup_mem (name : Str) (l r : List Cmd) (h : aaaGroup true name l = .ok r) :
    ∀ y ∈ r, ∃ c ∈ l, y = c ∨ ∃ p, y = { c with parsed := p } := by
  unfold aaaGroup at h
  cases l with
  | nil => cases h
  | cons c0 rest =>
    simp only at h
    split at h
    · cases h; intro y hy; exact ⟨y, hy, Or.inl rfl⟩
    · split at h
      · cases h; intro y hy; exact ⟨y, hy, Or.inl rfl⟩
      · cases hr : aaaRest true name (lit " ") rest with
        | diag m => rw [hr] at h; cases h
        | panic p => rw [hr] at h; cases h
        | ok r' =>
          rw [hr] at h
          cases h
          intro y hy
          rcases List.mem_cons.mp hy with hy | hy
          · exact ⟨c0, by simp, Or.inl hy⟩
          · obtain ⟨x, hx, hxy⟩ := aaaRest_mem name rest _ r' hr y (List.mem_of_mem_take hy)
            exact ⟨x, List.mem_cons_of_mem _ hx, hxy⟩

/-! ### the whole map -/

theorem postGroup_fit (ds : List Descr) (hdecl : RefsDeclared ds) (hmax : MaxRefs5 ds) (hacl : AclNoRef ds)
    (hios : IosSubNoRef ds) (tb : Tables) (g g' : (Str × Str) × List Cmd)
    (hg : ∀ c ∈ g.2, TopOK ds c ∧ keyOf ds c = g.1) (h : postGroup tb g = .ok g') :
    ∀ c' ∈ g'.2, RefsFit true ds c' := by
  have hpre : ∀ c ∈ g.2, prefixOf ds c = g.1.1 := fun c hc => by rw [← (hg c hc).2]; rfl
  have hplain : ∀ c ∈ g.2, RefsFit true ds c := fun c hc => refsFit_of_topOK true ds hdecl hmax c (hg c hc).1
  unfold postGroup at h
  split at h
  · rename_i hk
    cases hm : mapRes (postASA tb) g.2 with
    | diag m => rw [hm] at h; cases h
    | panic p => rw [hm] at h; cases h
    | ok l =>
      rw [hm] at h; cases h
      intro c' hc'
      obtain ⟨c, hc, hf⟩ := mapRes_mem (postASA tb) g.2 l hm c' hc'
      exact postASA_fit ds hdecl hmax hacl tb c c' (hg c hc).1 (by rw [hpre c hc, hk]) hf
  · split at h
    · rename_i _ hk
      cases hm : postIOSGroup tb g.2 with
      | diag m => rw [hm] at h; cases h
      | panic p => rw [hm] at h; cases h
      | ok l =>
        rw [hm] at h; cases h
        exact postIOSGroup_fit ds hdecl hmax hios tb g.2 l (fun c hc => ⟨(hg c hc).1, by rw [hpre c hc, hk]⟩) hm
    · split at h
      · rename_i _ _ hk
        cases hm : aaaGroup true g.1.2 g.2 with
        | diag m => rw [hm] at h; cases h
        | panic p => rw [hm] at h; cases h
        | ok l =>
          rw [hm] at h; cases h
          intro c' hc'
          obtain ⟨c, hc, hy⟩ := aaaGroup_mem g.1.2 g.2 l hm c' hc'
          rcases hy with hy | ⟨p, hy⟩
          · rw [hy]; exact hplain c hc
          · rw [hy]
            exact refsFit_parsed ds c p (by rw [hpre c hc, hk]; decide) (by rw [hpre c hc, hk]; decide) (hplain c hc)
      · split at h
        · rename_i _ _ _ hk
          cases hm : mapRes postTrans g.2 with
          | diag m => rw [hm] at h; cases h
          | panic p => rw [hm] at h; cases h
          | ok l =>
            rw [hm] at h; cases h
            intro c' hc'
            obtain ⟨c, hc, hf⟩ := mapRes_mem postTrans g.2 l hm c' hc'
            exact postTrans_fit ds c c' (by rw [hpre c hc]; exact hk) (hplain c hc) hf
        · cases h
          exact hplain

/-- ONE composed statement: parse any file, build the lookup map, post-process it; `checkReferences`
on the result has no index out of range. -/
theorem checkReferences_postprocessed_noPanic (ds : List Descr) (hct : CleanTop ds) (hcs : CleanSubsOf ds)
    (hdecl : RefsDeclared ds) (hmax : MaxRefs5 ds) (hacl : AclNoRef ds) (hios : IosSubNoRef ds)
    (tb : Tables) (isRaw : Bool) (data : Str) (cmds : List Cmd) (lk' : Lookup)
    (hparse : parseConfig true ds isRaw data = .ok cmds)
    (hpost : postLookup tb (buildLookup ds cmds) = .ok lk') :
    NoPanic (checkReferences true ds lk' isRaw) := by
  apply checkReferences_noPanic
  intro g' hg' c' hc'
  unfold postLookup at hpost
  obtain ⟨g, hg, hf⟩ := mapRes_mem (postGroup tb) _ lk' hpost g' hg'
  have hok := buildLookup_ok ds (TopOK ds) cmds (parseConfig_inv ds hct hcs isRaw data cmds hparse) g hg
  exact postGroup_fit ds hdecl hmax hacl hios tb g g' (fun c hc => hok.2 c hc) hf c' hc'

end NA.C20
