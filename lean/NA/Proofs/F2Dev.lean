import NA.Proofs.F2Acl
/-!
# F2: device lemmas for whole decisions (transfer of an ACL, bind / unbind, routes, clean-up)
-/
namespace NA.F2
open NA.IosDev2
open NA.Acl (Line BlockEqG LineEqv)

/-! ## slots -/

theorem slotOf_setAcl (d : Dev) (n : Name) (es : Entries) (x dir : String) :
    slotOf (setAcl d n es) x dir = slotOf d x dir := rfl

theorem slotOf_putAcl (d : Dev) (n : Name) (es : Entries) (x dir : String) :
    slotOf (putAcl d n es) x dir = slotOf d x dir := rfl

theorem hasIntf_putAcl (d : Dev) (n : Name) (es : Entries) (x : String) :
    hasIntf (putAcl d n es) x = hasIntf d x := rfl

theorem intfs_putAcl (d : Dev) (n : Name) (es : Entries) : (putAcl d n es).intfs = d.intfs := rfl
theorem routes_putAcl (d : Dev) (n : Name) (es : Entries) : (putAcl d n es).routes = d.routes := rfl

theorem entriesOf_putAcl_other (d : Dev) (n x : Name) (es : Entries) (h : x ≠ n) :
    entriesOf (putAcl d n es) x = entriesOf d x := by
  simp only [putAcl, entriesOf_strip]; exact entriesOf_setAcl_other d n x es h

def slotL (l : List DIntf) (x dir : String) : Option Name :=
  match l.find? (·.name == x) with
  | some i => if dir == "out" then i.outB else i.inB
  | none => none

def setL (l : List DIntf) (x dir : String) (v : Option Name) : List DIntf :=
  l.map fun i => if i.name == x then (if dir == "out" then { i with outB := v } else { i with inB := v }) else i

theorem slotOf_eq (d : Dev) (x dir : String) : slotOf d x dir = slotL d.intfs x dir := rfl
theorem setSlot_intfs (d : Dev) (x dir : String) (v : Option Name) : (setSlot d x dir v).intfs = setL d.intfs x dir v := rfl

theorem slotL_setL_same (l : List DIntf) (x dir : String) (v : Option Name) (hx : (l.any (·.name == x)) = true) :
    slotL (setL l x dir v) x dir = v := by
  induction l with
  | nil => simp at hx
  | cons i is ih =>
    simp only [setL, List.map_cons, slotL, List.find?_cons]
    by_cases h : i.name == x
    · simp only [h, ↓reduceIte]
      by_cases hd : dir == "out"
      · simp [hd, h]
      · simp [hd, h]
    · simp only [h, Bool.false_eq_true, ↓reduceIte]
      simp only [List.any_cons, h, Bool.false_or] at hx
      exact ih hx

theorem slotL_setL_otherDir (l : List DIntf) (x dir dir' : String) (v : Option Name)
    (hflip : (dir == "out") = !(dir' == "out")) :
    slotL (setL l x dir v) x dir' = slotL l x dir' := by
  induction l with
  | nil => rfl
  | cons i is ih =>
    simp only [setL, List.map_cons, slotL, List.find?_cons]
    by_cases h : i.name == x
    · simp only [h, ↓reduceIte, hflip]
      by_cases hd2 : dir' == "out" <;> simp [hd2, h]
    · simp only [h, Bool.false_eq_true, ↓reduceIte]
      exact ih

theorem slotL_setL_otherIntf (l : List DIntf) (x y dir dir' : String) (v : Option Name) (hne : y ≠ x) :
    slotL (setL l x dir v) y dir' = slotL l y dir' := by
  induction l with
  | nil => rfl
  | cons i is ih =>
    simp only [setL, List.map_cons, slotL, List.find?_cons]
    by_cases h : i.name == x
    · have hix := beq_iff_eq.mp h
      have hy : (i.name == y) = false := by
        rw [hix]; simpa using (Ne.symm hne)
      simp only [h, ↓reduceIte]
      by_cases hd : dir == "out"
      · simp only [hd, ↓reduceIte, hy]; simpa only [setL, slotL, hd, ↓reduceIte] using ih
      · simp only [hd, Bool.false_eq_true, ↓reduceIte, hy]; simpa only [setL, slotL, hd, Bool.false_eq_true, ↓reduceIte] using ih
    · simp only [h, Bool.false_eq_true, ↓reduceIte]
      by_cases hy : i.name == y
      · simp [hy]
      · simp only [hy]; exact ih

theorem slotOf_setSlot_same (d : Dev) (x dir : String) (v : Option Name) (hx : hasIntf d x = true) :
    slotOf (setSlot d x dir v) x dir = v := by
  rw [slotOf_eq, setSlot_intfs]; exact slotL_setL_same d.intfs x dir v hx

theorem slotOf_setSlot_otherDir (d : Dev) (x dir dir' : String) (v : Option Name)
    (hd : isDir dir = true) (hd' : isDir dir' = true) (hne : dir' ≠ dir) :
    slotOf (setSlot d x dir v) x dir' = slotOf d x dir' := by
  have hflip : (dir == "out") = !(dir' == "out") := by
    simp only [isDir, Bool.or_eq_true, beq_iff_eq] at hd hd'
    rcases hd with rfl | rfl <;> rcases hd' with rfl | rfl <;> first | rfl | exact absurd rfl hne | decide
  rw [slotOf_eq, setSlot_intfs]; exact slotL_setL_otherDir d.intfs x dir dir' v hflip

theorem slotOf_setSlot_otherIntf (d : Dev) (x y dir dir' : String) (v : Option Name) (hne : y ≠ x) :
    slotOf (setSlot d x dir v) y dir' = slotOf d y dir' := by
  rw [slotOf_eq, setSlot_intfs]; exact slotL_setL_otherIntf d.intfs x y dir dir' v hne

theorem entriesOf_setSlot (d : Dev) (x dir : String) (v : Option Name) (n : Name) :
    entriesOf (setSlot d x dir v) n = entriesOf d n := rfl
theorem aclNames_setSlot (d : Dev) (x dir : String) (v : Option Name) : aclNames (setSlot d x dir v) = aclNames d := rfl
theorem routes_setSlot (d : Dev) (x dir : String) (v : Option Name) : (setSlot d x dir v).routes = d.routes := rfl

theorem intfNames_setSlot (d : Dev) (x dir : String) (v : Option Name) :
    (setSlot d x dir v).intfs.map (·.name) = d.intfs.map (·.name) := by
  simp only [setSlot, List.map_map]
  apply List.map_congr_left
  intro i _
  simp only [Function.comp]
  by_cases h : i.name == x <;> simp only [h, ↓reduceIte, Bool.false_eq_true] <;> split <;> rfl

/-! ## bind / unbind decisions -/

theorem run_bind (d : Dev) (x : String) (a : Name) (dir : String) (hx : hasIntf d x = true) (ha : hasAcl d a = true) :
    evsRun d (expand (.bind x a dir)) = some (strip (setSlot d x dir (some a))) := by
  simp [expand, evsRun_single, evRun, hx, ha]

theorem run_unbind (d : Dev) (x : String) (a : Name) (dir : String) (hx : hasIntf d x = true)
    (hs : slotOf d x dir = some a) :
    evsRun d (expand (.unbind x a dir)) = some (strip (setSlot d x dir none)) := by
  simp [expand, evsRun_single, evRun, hx, hs]

/-! ## transfer of a whole ACL -/

def addAcl (d : Dev) (g : Name) (es : Entries) : Dev := strip { d with acls := d.acls ++ [(g, es)] }

theorem lookup_append_new (l : List (Name × Entries)) (g x : Name) (es : Entries) (hg : (l.any (·.1 == g)) = false) :
    (l ++ [(g, es)]).lookup x = if x == g then some es else l.lookup x := by
  induction l with
  | nil =>
    simp only [List.nil_append, List.lookup]
    cases x == g <;> rfl
  | cons p l ih =>
    obtain ⟨k, v⟩ := p
    simp only [List.any_cons, Bool.or_eq_false_iff] at hg
    simp only [List.cons_append, List.lookup_cons]
    by_cases hx : x == k
    · have hxk := beq_iff_eq.mp hx
      subst hxk
      have : (x == g) = false := hg.1
      simp [this]
    · simp only [hx]
      exact ih hg.2

theorem map_set_absent (l : List (Name × Entries)) (g : Name) (es : Entries) (hg : (l.any (·.1 == g)) = false) :
    (l.map fun p => if p.1 == g then (g, es) else p) = l := by
  calc (l.map fun p => if p.1 == g then (g, es) else p) = l.map id := by
        apply List.map_congr_left
        intro p hp
        have : (p.1 == g) = false := by
          simp only [List.any_eq_false] at hg
          simpa using hg p hp
        simp [this]
    _ = l := List.map_id _

theorem putAcl_ensure_new (d : Dev) (g : Name) (es : Entries) (hg : hasAcl d g = false) :
    putAcl (strip (ensureAcl d g)) g es = addAcl d g es := by
  obtain ⟨i, a, r, m⟩ := d
  have hg' : (a.any (·.1 == g)) = false := hg
  simp only [putAcl, ensureAcl, hasAcl, hg', Bool.false_eq_true, ↓reduceIte, addAcl, strip, setAcl, List.map_append,
    List.map_cons, List.map_nil, beq_self_eq_true, map_set_absent a g es hg']

theorem ensureAcl_new (d : Dev) (g : Name) (hg : hasAcl d g = false) :
    ensureAcl d g = { d with acls := d.acls ++ [(g, [])] } := by
  simp [ensureAcl, hg]

theorem run_transfer (d : Dev) (g : Name) (ls : List ALine) (hg : hasAcl d g = false) (hmode : d.mode = none)
    (hnd : (aclNames d).Nodup) (happ : appendOKFrom [] ls = true) :
    ∃ es, evsRun d (expand (.transfer g ls)) = some (addAcl d g es) ∧ es.map (·.2) = ls.map typed := by
  obtain ⟨es, hr, hl⟩ := addAll_run ls [] (by simpa using happ)
  refine ⟨es, ?_, by simpa using hl⟩
  have hmap : (ls.map fun l => Ev.sub (.acl g) (.entry l)) = (ls.map Chg.entry).map (Ev.sub (.acl g)) := by
    rw [List.map_map]; rfl
  have hentry : ∀ c ∈ ls.map Chg.entry, isEntryCmd c = true := by
    intro c hc; obtain ⟨l, _, rfl⟩ := List.mem_map.mp hc; rfl
  simp only [expand, evsRun_cons, evRun, Option.bind_some]
  rw [hmap]
  have h1 : hasAcl (strip (ensureAcl d g)) g = true := by rw [hasAcl_strip]; exact hasAcl_ensure_self d g
  have h2 : (aclNames (strip (ensureAcl d g))).Nodup := by
    rw [ensureAcl_new d g hg]
    simp only [aclNames, strip, List.map_append, List.map_cons, List.map_nil]
    rw [List.nodup_append]
    refine ⟨hnd, by simp, ?_⟩
    intro a ha b hb hab
    simp only [List.mem_singleton] at hb
    subst hb; subst hab
    simp only [hasAcl, List.any_eq_false] at hg
    obtain ⟨p, hp, hpa⟩ := List.mem_map.mp ha
    have := hg p hp
    simp [hpa] at this
  rw [evsRun_subs g _ hentry _ h1 rfl h2]
  have h3 : entriesOf (strip (ensureAcl d g)) g = [] := by
    rw [ensureAcl_new d g hg]
    show ((d.acls ++ [(g, ([] : Entries))]).lookup g).getD [] = []
    rw [lookup_append_new d.acls g g [] (by simpa [hasAcl] using hg)]
    simp
  rw [h3, hr, Option.map_some, putAcl_ensure_new d g es hg]


/-! ## facts about `addAcl` -/

theorem hasAcl_addAcl (d : Dev) (g x : Name) (es : Entries) : hasAcl (addAcl d g es) x = (hasAcl d x || x == g) := by
  simp only [hasAcl, addAcl, strip, List.any_append, List.any_cons, List.any_nil, Bool.or_false]
  congr 1
  exact Bool.beq_comm

theorem entriesOf_addAcl (d : Dev) (g x : Name) (es : Entries) (hg : hasAcl d g = false) :
    entriesOf (addAcl d g es) x = if x == g then es else entriesOf d x := by
  show ((d.acls ++ [(g, es)]).lookup x).getD [] = _
  rw [lookup_append_new d.acls g x es (by simpa [hasAcl] using hg)]
  by_cases h : x == g <;> simp [h, entriesOf]

theorem aclNames_addAcl (d : Dev) (g : Name) (es : Entries) : aclNames (addAcl d g es) = aclNames d ++ [g] := by
  simp [aclNames, addAcl, strip]

theorem nodup_aclNames_addAcl (d : Dev) (g : Name) (es : Entries) (hnd : (aclNames d).Nodup) (hg : hasAcl d g = false) :
    (aclNames (addAcl d g es)).Nodup := by
  rw [aclNames_addAcl, List.nodup_append]
  refine ⟨hnd, by simp, ?_⟩
  intro a ha b hb hab
  simp only [List.mem_singleton] at hb
  subst hb; subst hab
  simp only [hasAcl, List.any_eq_false] at hg
  obtain ⟨p, hp, hpa⟩ := List.mem_map.mp ha
  have := hg p hp
  simp [hpa] at this

theorem slotOf_addAcl (d : Dev) (g : Name) (es : Entries) (x dir : String) : slotOf (addAcl d g es) x dir = slotOf d x dir := rfl
theorem intfs_addAcl (d : Dev) (g : Name) (es : Entries) : (addAcl d g es).intfs = d.intfs := rfl
theorem routes_addAcl (d : Dev) (g : Name) (es : Entries) : (addAcl d g es).routes = d.routes := rfl
theorem mode_addAcl (d : Dev) (g : Name) (es : Entries) : (addAcl d g es).mode = none := rfl
theorem mode_putAcl (d : Dev) (g : Name) (es : Entries) : (putAcl d g es).mode = none := rfl

end NA.F2
