import NA.Proofs.C09Progs
/-!
# C09: the HTTP backends (PAN-OS, NSX) keep the invariant

Functions return error values here; `Je` allows an error to be pending in a running state, and
every call is followed by `if err != nil { return … }`.
-/
namespace NA.C09
open NA.Sess NA.Apply NA.Spec.C09

variable (bad : Role → Reply → Bool)

/-- outcome of one HTTP exchange (and of the functions wrapped around it): the reply is there
and has property `K`, or an error is pending -/
inductive HttpOut (ρ : Role) (K : Reply → Prop) (s' : St) : Prop
  | ok (h : Pd bad ρ s') (hk : K s'.last) (he : s'.errv = false)
  | err (hs : safe bad s'.tr = true) (he : s'.errv = true) (hm : s'.mode = .run)

theorem HttpOut.mode {ρ : Role} {K : Reply → Prop} {s' : St} (h : HttpOut bad ρ K s') : s'.mode = .run := by
  cases h with
  | ok h _ _ => exact h.mode
  | err _ _ hm => exact hm

theorem HttpOut.weaken {ρ : Role} {K K' : Reply → Prop} {s' : St} (h : HttpOut bad ρ K s') (hk : ∀ r, K r → K' r) :
    HttpOut bad ρ K' s' := by
  cases h with
  | ok h k he => exact .ok h (hk _ k) he
  | err hs he hm => exact .err hs he hm

theorem recvLoop_one (dev : Dev) (ρ : Role) (s : St) :
    recvLoop dev ρ .http 1 s =
      if (dev s.tr).arr = .full then
        { s with tr := s.tr ++ [.got ρ (dev s.tr)], last := dev s.tr, errv := false,
                 banner := s.banner || (ρ == .login && (dev s.tr).flags.contains .bannerOk) }
      else { s with tr := s.tr ++ [.got ρ (dev s.tr)], last := dev s.tr, errv := true } := by
  simp only [recvLoop, Pat.matches, Pat.skips, Bool.false_and, Bool.false_eq_true, if_false, beq_iff_eq]

/-- one request: the reply arrived completely, or an error is pending; a closed reused
connection is retried once (and that closed reply is not a failure the code can see) -/
theorem roundTrip_spec (ρ : Role) (t : Txt) (replay : Bool)
    (hrep : replay = true → ∀ r : Reply, r.arr = .closed → bad ρ r = false)
    (env : Env) (s : St) (hj : J bad s) (hm : s.mode = .run) :
    HttpOut bad ρ (fun r => r.arr = .full) (exec (.roundTrip ρ t replay) env s) := by
  have hcl := j_clean bad hj hm
  have hc0 := clean_append bad (l := [Ev.sent ρ (t.lines env)]) hcl.1 hcl.2 (by simp [faulted, isBadGot])
  simp only [exec, hm, if_true, recvLoop_one]
  generalize hr1 : env.dev (s.tr ++ [Ev.sent ρ (t.lines env)]) = r1
  by_cases ha1 : r1.arr = .full
  · simp only [ha1, if_true, Bool.and_eq_true, beq_iff_eq]
    have : ¬ (Arr.full = Arr.closed) := by decide
    simp only [this, and_false, false_and, if_false]
    exact .ok ⟨rfl, _, rfl, hc0.1, hc0.2⟩ ha1 rfl
  · simp only [ha1, if_false, Bool.and_eq_true, beq_iff_eq]
    split
    · rename_i hcond
      obtain ⟨⟨hrp, hclosed⟩, _⟩ := hcond
      -- the closed reply is passed over, the request is replayed
      have hg1 : bad ρ r1 = false := hrep hrp r1 hclosed
      have hc1 := clean_append bad (l := [Ev.got ρ r1]) hc0.1 hc0.2 (by simp [faulted, isBadGot, hg1])
      have hc2 := clean_append bad (l := [Ev.sent ρ (t.lines env)]) hc1.1 hc1.2 (by simp [faulted, isBadGot])
      generalize env.dev (s.tr ++ [Ev.sent ρ (t.lines env)] ++ [Ev.got ρ r1] ++ [Ev.sent ρ (t.lines env)]) = r2
      by_cases ha2 : r2.arr = .full
      · simp only [ha2, if_true]
        exact .ok ⟨rfl, _, rfl, hc2.1, hc2.2⟩ ha2 rfl
      · simp only [ha2, if_false]
        refine .err ?_ rfl rfl
        show safe bad (s.tr ++ [Ev.sent ρ (t.lines env)] ++ [Ev.got ρ r1] ++ [Ev.sent ρ (t.lines env)] ++ [Ev.got ρ r2]) = true
        rw [safe_append_quiet bad _ _ (by simp [isChangeOrSave])]; exact hc2.1
    · refine .err ?_ rfl rfl
      show safe bad (s.tr ++ [Ev.sent ρ (t.lines env)] ++ [Ev.got ρ r1]) = true
      rw [safe_append_quiet bad _ _ (by simp [isChangeOrSave])]; exact hc0.1


theorem pd_err_safe {ρ : Role} {s1 : St} (h : Pd bad ρ s1) : safe bad s1.tr = true := h.safe

/-- PAN-OS: every request is a GET, which net/http replays -/
def PanosRep (bad : Role → Reply → Bool) : Prop := ∀ (ρ : Role) (r : Reply), r.arr = .closed → bad ρ r = false

theorem panosHttpGet_spec (hrep : PanosRep bad) (ρ : Role) (t : Txt) (env : Env) (s : St) (hj : J bad s) (hm : s.mode = .run) :
    HttpOut bad ρ (fun r => r.arr = .full ∧ r.status200 = true) (exec (panosHttpGet ρ t) env s) := by
  have h1 := roundTrip_spec bad ρ t true (fun _ => hrep ρ) env s hj hm
  simp only [panosHttpGet, panosHttpGetBody, exec_call _ _ _ _ _ hm, exec_seq, exec_op]
  generalize exec (.roundTrip ρ t true) env s = s1 at h1
  cases h1 with
  | ok h harr he =>
    have hm1 := h.mode
    obtain ⟨tr0, hsplit, hs0, hf0⟩ := h.split
    cases h200 : s1.last.status200 with
    | true =>
      simp [exec, hm1, evalCond, he, h200]
      exact .ok ⟨rfl, tr0, hsplit, hs0, hf0⟩ ⟨harr, h200⟩ rfl
    | false =>
      simp [exec, hm1, evalCond, he, h200]
      exact .err h.safe rfl rfl
  | err hs he hm1 =>
    simp [exec, hm1, evalCond, he]
    exact .err hs rfl rfl

theorem panosHttpPrefixGetLog_spec (hrep : PanosRep bad) (ρ : Role) (t : Txt) (env : Env) (s : St) (hj : J bad s)
    (hm : s.mode = .run) (lits : List String := ["_", "_"]) :
    HttpOut bad ρ (fun r => r.arr = .full ∧ r.status200 = true) (exec (panosHttpPrefixGetLog ρ t lits) env s) := by
  have h1 := panosHttpGet_spec bad hrep ρ t env s hj hm
  simp only [panosHttpPrefixGetLog, panosHttpPrefixGetLogBody, exec_call _ _ _ _ _ hm, exec_seq]
  generalize exec (panosHttpGet ρ t) env s = s1 at h1
  cases h1 with
  | ok h hk he =>
    have hm1 := h.mode
    obtain ⟨tr0, hsplit, hs0, hf0⟩ := h.split
    simp [exec, hm1]
    exact .ok ⟨rfl, tr0, hsplit, hs0, hf0⟩ hk he
  | err hs he hm1 =>
    simp [exec, hm1]
    exact .err hs he rfl

theorem panosDoCmd_spec (hrep : PanosRep bad) (ρ : Role) (t : Txt) (env : Env) (s : St) (hj : J bad s)
    (hm : s.mode = .run) :
    HttpOut bad ρ (fun r => r.arr = .full ∧ r.status200 = true ∧ r.parses = true) (exec (panosDoCmd ρ t) env s) := by
  have h1 := panosHttpPrefixGetLog_spec bad hrep ρ t env s hj hm
  simp only [panosDoCmd, panosDoCmdBody, exec_call _ _ _ _ _ hm, exec_seq]
  generalize exec (panosHttpPrefixGetLog ρ t) env s = s1 at h1
  cases h1 with
  | ok h hk he =>
    have hm1 := h.mode
    obtain ⟨tr0, hsplit, hs0, hf0⟩ := h.split
    cases hp : s1.last.parses with
    | true =>
      simp [panosParseResponse, exec, hm1, evalCond, he, hp]
      exact .ok ⟨rfl, tr0, hsplit, hs0, hf0⟩ ⟨hk.1, hk.2, hp⟩ rfl
    | false =>
      simp [panosParseResponse, exec, hm1, evalCond, he, hp]
      exact .err h.safe rfl rfl
  | err hs he hm1 =>
    simp [panosParseResponse, exec, hm1, evalCond, he]
    exact .err hs rfl rfl

end NA.C09
