import NA.Proofs.C09Progs
/-!
# C09: the HTTP backends (PAN-OS, NSX) keep the invariant

Functions return error values here; `Je` allows an error to be pending in a running state, and
every call is followed by `if err != nil { return … }`.
-/
namespace NA.C09
open NA.Sess NA.Apply NA.Spec.C09

variable (bad : Role → Reply → Bool)

/-- outcome of one HTTP exchange (and of the functions wrapped around it): the reply is there
and has property `K`, or an error is pending -/
inductive HttpOut (ρ : Role) (K : Reply → Prop) (s' : St) : Prop
  | ok (h : Pd bad ρ s') (hk : K s'.last) (he : s'.errv = false)
  | err (hs : safe bad s'.tr = true) (he : s'.errv = true) (hm : s'.mode = .run)

theorem HttpOut.mode {ρ : Role} {K : Reply → Prop} {s' : St} (h : HttpOut bad ρ K s') : s'.mode = .run := by
  cases h with
  | ok h _ _ => exact h.mode
  | err _ _ hm => exact hm

theorem HttpOut.weaken {ρ : Role} {K K' : Reply → Prop} {s' : St} (h : HttpOut bad ρ K s') (hk : ∀ r, K r → K' r) :
    HttpOut bad ρ K' s' := by
  cases h with
  | ok h k he => exact .ok h (hk _ k) he
  | err hs he hm => exact .err hs he hm

theorem recvLoop_one (dev : Dev) (ρ : Role) (s : St) :
    recvLoop dev ρ .http 1 s =
      if (dev s.tr).arr = .full then
        { s with tr := s.tr ++ [.got ρ (dev s.tr)], last := dev s.tr, errv := false,
                 banner := s.banner || (ρ == .login && (dev s.tr).flags.contains .bannerOk) }
      else { s with tr := s.tr ++ [.got ρ (dev s.tr)], last := dev s.tr, errv := true } := by
  simp only [recvLoop, Pat.matches, Pat.skips, Bool.false_and, Bool.false_eq_true, if_false, beq_iff_eq]

/-- one request: the reply arrived completely, or an error is pending; a closed reused
connection is retried once (and that closed reply is not a failure the code can see) -/
theorem roundTrip_spec (ρ : Role) (t : Txt) (replay : Bool)
    (hrep : replay = true → ∀ r : Reply, r.arr = .closed → bad ρ r = false)
    (env : Env) (s : St) (hj : J bad s) (hm : s.mode = .run) :
    HttpOut bad ρ (fun r => r.arr = .full) (exec (.roundTrip ρ t replay) env s) := by
  have hcl := j_clean bad hj hm
  have hc0 := clean_append bad (l := [Ev.sent ρ (t.lines env)]) hcl.1 hcl.2 (by simp [faulted, isBadGot])
  simp only [exec, hm, if_true, recvLoop_one]
  generalize hr1 : env.dev (s.tr ++ [Ev.sent ρ (t.lines env)]) = r1
  by_cases ha1 : r1.arr = .full
  · simp only [ha1, if_true, Bool.and_eq_true, beq_iff_eq]
    have : ¬ (Arr.full = Arr.closed) := by decide
    simp only [this, and_false, false_and, if_false]
    exact .ok ⟨rfl, _, rfl, hc0.1, hc0.2⟩ ha1 rfl
  · simp only [ha1, if_false, Bool.and_eq_true, beq_iff_eq]
    split
    · rename_i hcond
      obtain ⟨⟨hrp, hclosed⟩, _⟩ := hcond
      -- the closed reply is passed over, the request is replayed
      have hg1 : bad ρ r1 = false := hrep hrp r1 hclosed
      have hc1 := clean_append bad (l := [Ev.got ρ r1]) hc0.1 hc0.2 (by simp [faulted, isBadGot, hg1])
      have hc2 := clean_append bad (l := [Ev.sent ρ (t.lines env)]) hc1.1 hc1.2 (by simp [faulted, isBadGot])
      generalize env.dev (s.tr ++ [Ev.sent ρ (t.lines env)] ++ [Ev.got ρ r1] ++ [Ev.sent ρ (t.lines env)]) = r2
      by_cases ha2 : r2.arr = .full
      · simp only [ha2, if_true]
        exact .ok ⟨rfl, _, rfl, hc2.1, hc2.2⟩ ha2 rfl
      · simp only [ha2, if_false]
        refine .err ?_ rfl rfl
        show safe bad (s.tr ++ [Ev.sent ρ (t.lines env)] ++ [Ev.got ρ r1] ++ [Ev.sent ρ (t.lines env)] ++ [Ev.got ρ r2]) = true
        rw [safe_append_quiet bad _ _ (by simp [isChangeOrSave])]; exact hc2.1
    · refine .err ?_ rfl rfl
      show safe bad (s.tr ++ [Ev.sent ρ (t.lines env)] ++ [Ev.got ρ r1]) = true
      rw [safe_append_quiet bad _ _ (by simp [isChangeOrSave])]; exact hc0.1

end NA.C09
