import NA.Spec.AclDev
/-!
Helper lemmas for C14: first-match evaluation over the states of an incremental ACL change.

`addPhase M j`  – device list while lines are being added top-down: every old line is still
                  present, and the new-only lines of the first `j` cells have been added;
`delPhase M i`  – device list while lines are being deleted bottom-up: every new line is
                  present, and the old-only lines of the first `i` cells are still there.
-/
namespace NA.Acl

def addPhase : List Cell → Nat → List Line
  | [], _ => []
  | c :: M, 0 => if c.old then c.line :: addPhase M 0 else addPhase M 0
  | c :: M, j + 1 => if c.old || c.new then c.line :: addPhase M j else addPhase M j

def delPhase : List Cell → Nat → List Line
  | [], _ => []
  | c :: M, 0 => if c.new then c.line :: delPhase M 0 else delPhase M 0
  | c :: M, i + 1 => if c.old || c.new then c.line :: delPhase M i else delPhase M i

theorem olds_cons (c : Cell) (M : List Cell) :
    olds (c :: M) = if c.old then c.line :: olds M else olds M := by
  cases h : c.old <;> simp [olds, List.filter, h]

theorem news_cons (c : Cell) (M : List Cell) :
    news (c :: M) = if c.new then c.line :: news M else news M := by
  cases h : c.new <;> simp [news, List.filter, h]

theorem addPhase_zero (M : List Cell) : addPhase M 0 = olds M := by
  induction M with
  | nil => rfl
  | cons c M ih => rw [olds_cons]; simp [addPhase, ih]

theorem delPhase_zero (M : List Cell) : delPhase M 0 = news M := by
  induction M with
  | nil => rfl
  | cons c M ih => rw [news_cons]; simp [delPhase, ih]

/-- All adds done = nothing deleted yet: the union of both lists. -/
theorem addPhase_all_eq_delPhase_all (M : List Cell) : addPhase M M.length = delPhase M M.length := by
  induction M with
  | nil => rfl
  | cons c M ih => simp [addPhase, delPhase, ih]

theorem addPhase_old_or_new (M : List Cell) (j p : Nat) :
    eval (addPhase M j) p = eval (olds M) p ∨ eval (addPhase M j) p = eval (news M) p := by
  induction M generalizing j with
  | nil => simp [addPhase, olds, news]
  | cons c M ih =>
    cases j with
    | zero => left; rw [addPhase_zero]
    | succ j =>
      rw [olds_cons, news_cons]
      cases ho : c.old <;> cases hn : c.new <;> simp only [addPhase, ho, hn, Bool.or_self, Bool.or_true,
        Bool.true_or, if_true, if_false, Bool.false_eq_true] <;>
        (try exact ih j) <;>
        (simp only [eval]; cases c.line.hits p <;> simp <;> exact ih j)

theorem delPhase_old_or_new (M : List Cell) (i p : Nat) :
    eval (delPhase M i) p = eval (olds M) p ∨ eval (delPhase M i) p = eval (news M) p := by
  induction M generalizing i with
  | nil => simp [delPhase, olds, news]
  | cons c M ih =>
    cases i with
    | zero => right; rw [delPhase_zero]
    | succ i =>
      rw [olds_cons, news_cons]
      cases ho : c.old <;> cases hn : c.new <;> simp only [delPhase, ho, hn, Bool.or_self, Bool.or_true,
        Bool.true_or, if_true, if_false, Bool.false_eq_true] <;>
        (try exact ih i) <;>
        (simp only [eval]; cases c.line.hits p <;> simp <;> exact ih i)

/-! ### Moving a line across lines it commutes with -/

/-- Two lines commute for packet `p` if they do not both match it with different actions. -/
def commutes (x y : Line) (p : Nat) : Bool := !(x.hits p && y.hits p) || x.permit == y.permit

theorem eval_append (s t : List Line) (p : Nat) :
    eval (s ++ t) p = if s.any (·.hits p) then eval s p else eval t p := by
  induction s with
  | nil => simp
  | cons l s ih =>
    simp only [List.cons_append, eval, List.any_cons]
    by_cases hl : l.hits p = true
    · simp [hl]
    · simp [hl, ih]

/-- Moving `x` downward across `mid`: same verdict if `x` commutes with every crossed line. -/
theorem eval_move_down (s1 mid s2 : List Line) (x : Line) (p : Nat)
    (h : ∀ y ∈ mid, commutes x y p = true) :
    eval (s1 ++ mid ++ x :: s2) p = eval (s1 ++ x :: mid ++ s2) p := by
  rw [List.append_assoc, List.append_assoc, eval_append, eval_append s1]
  congr 1
  induction mid with
  | nil => simp
  | cons y mid ih =>
    have hy := h y (List.mem_cons_self)
    have ih' := ih (fun z hz => h z (List.mem_cons_of_mem _ hz))
    simp only [List.cons_append, eval] at ih' ⊢
    simp only [commutes] at hy
    cases hx : x.hits p <;> cases hyh : y.hits p <;> simp_all

/-- Moving `x` upward across `mid`. -/
theorem eval_move_up (s1 mid s2 : List Line) (x : Line) (p : Nat)
    (h : ∀ y ∈ mid, commutes x y p = true) :
    eval (s1 ++ x :: mid ++ s2) p = eval (s1 ++ mid ++ x :: s2) p :=
  (eval_move_down s1 mid s2 x p h).symm

/-- Replacing a line by one with the same match and action (e.g. only `log` differs) keeps the verdict. -/
theorem eval_replace_same (s1 s2 : List Line) (x y : Line) (p : Nat)
    (hh : x.hits p = y.hits p) (hp : x.permit = y.permit) :
    eval (s1 ++ x :: s2) p = eval (s1 ++ y :: s2) p := by
  rw [eval_append, eval_append s1]; simp [eval, hh, hp]

end NA.Acl
