import NA.Proofs.C05Norm
/-!
C05: string lemmas behind the per-option normal forms (suffix cutting, leading zeros, case,
splitting and sorting of comma lists).
-/
namespace NA.C05
open NA.Linux NA.Linux.Spec

theorem cutPrefix_append (p x : Str) : cutPrefix (p ++ x) p = some x := by
  induction p with
  | nil => cases x <;> simp [cutPrefix]
  | cons c cs ih => simp [cutPrefix, ih]

theorem cutPrefix_some {y p r : Str} (h : cutPrefix y p = some r) : y = p ++ r := by
  induction p generalizing y with
  | nil => cases y <;> simp_all [cutPrefix]
  | cons c cs ih =>
    cases y with
    | nil => simp [cutPrefix] at h
    | cons d ds =>
      simp only [cutPrefix] at h
      by_cases hd : d = c
      · subst hd
        simp only [beq_self_eq_true, ↓reduceIte] at h
        rw [ih h]; rfl
      · simp [hd] at h

theorem cutSuffix_append (x suf : Str) : cutSuffix (x ++ suf) suf = some x := by
  simp [cutSuffix, List.reverse_append, cutPrefix_append]

theorem cutSuffix_some {y suf r : Str} (h : cutSuffix y suf = some r) : y = r ++ suf := by
  unfold cutSuffix at h
  cases hc : cutPrefix y.reverse suf.reverse with
  | none => simp [hc] at h
  | some z =>
    simp [hc] at h
    have := cutPrefix_some hc
    have h2 : y = (suf.reverse ++ z).reverse := by rw [← this, List.reverse_reverse]
    rw [h2, List.reverse_append, List.reverse_reverse, h]

/-- a string without `c` has no suffix that contains `c` -/
theorem cutSuffix_none_of_not_mem (y suf : Str) (c : Char) (hc : c ∈ suf) (hy : c ∉ y) :
    cutSuffix y suf = none := by
  cases h : cutSuffix y suf with
  | none => rfl
  | some r =>
    have := cutSuffix_some h
    exact absurd (by rw [this]; simp [hc]) hy

/-- a string ending in `c` has no suffix ending in another character -/
theorem cutSuffix_none_of_last (x suf : Str) (c d : Char) (hcd : c ≠ d) :
    cutSuffix (x ++ [c]) (suf ++ [d]) = none := by
  cases h : cutSuffix (x ++ [c]) (suf ++ [d]) with
  | none => rfl
  | some r =>
    have := cutSuffix_some h
    have h2 : (x ++ [c]).getLast? = (r ++ (suf ++ [d])).getLast? := by rw [this]
    simp [← List.append_assoc] at h2
    exact absurd h2 hcd

theorem trimLeft0_zeros (z : Nat) (x : Str) : trimLeft0 (zeros z ++ x) = trimLeft0 x := by
  induction z with
  | zero => rfl
  | succ n ih => simp [zeros, List.replicate_succ, trimLeft0] at ih ⊢; exact ih

theorem trimLeft0_of_head {x : Str} (h : x.head? ≠ some '0') : trimLeft0 x = x := by
  cases x with
  | nil => rfl
  | cons c cs =>
    have : ¬ c = '0' := by simpa using h
    simp [trimLeft0, this]

theorem lower_append (a b : Str) : lower (a ++ b) = lower a ++ lower b := by simp [lower]

theorem lowerC_of_digit {c : Char} (h : isDigit c = true) : lowerC c = c := by
  unfold lowerC
  have : ¬ ('A' ≤ c ∧ c ≤ 'Z') := by
    simp only [isDigit, Bool.and_eq_true, decide_eq_true_eq] at h
    intro hc
    have h1 : c.toNat ≤ 57 := h.2
    have h2 : 65 ≤ c.toNat := hc.1
    omega
  simp [this]

theorem lower_digits {d : Str} (h : d.all isDigit = true) : lower d = d := by
  induction d with
  | nil => rfl
  | cons c cs ih =>
    simp only [List.all_cons, Bool.and_eq_true] at h
    simp only [lower, List.map_cons] at ih ⊢
    rw [lowerC_of_digit h.1, ih h.2]

theorem upperC_of_digit {c : Char} (h : isDigit c = true) : upperC c = c := by
  unfold upperC
  have : ¬ ('a' ≤ c ∧ c ≤ 'z') := by
    simp only [isDigit, Bool.and_eq_true, decide_eq_true_eq] at h
    intro hc
    have h1 : c.toNat ≤ 57 := h.2
    have h2 : 97 ≤ c.toNat := hc.1
    omega
  simp [this]

theorem upper_digits {d : Str} (h : d.all isDigit = true) : d.map upperC = d := by
  induction d with
  | nil => rfl
  | cons c cs ih =>
    simp only [List.all_cons, Bool.and_eq_true] at h
    simp only [List.map_cons]
    rw [upperC_of_digit h.1, ih h.2]

/-! ### splitting a comma list -/

theorem splitGo_append (x rest cur : Str) (c : Char) (hx : c ∉ x) :
    splitChar.go c (x ++ rest) cur = splitChar.go c rest (x.reverse ++ cur) := by
  induction x generalizing cur with
  | nil => rfl
  | cons d ds ih =>
    have hd : ¬ d = c := fun e => hx (by simp [e])
    have hds : c ∉ ds := fun h => hx (by simp [h])
    simp only [List.cons_append, splitChar.go, beq_iff_eq, hd, ↓reduceIte, ih (d :: cur) hds]
    simp

theorem splitGo_join (c : Char) : ∀ (xs : List Str) (x cur : Str), (∀ z ∈ x :: xs, c ∉ z) →
    splitChar.go c (joinWith [c] (x :: xs)) cur = (cur.reverse ++ x) :: xs := by
  intro xs
  induction xs with
  | nil =>
    intro x cur hall
    have := splitGo_append x [] cur c (hall x (by simp))
    simp only [List.append_nil] at this
    simp [joinWith, this, splitChar.go]
  | cons y ys ih =>
    intro x cur hall
    have h1 := splitGo_append x ([c] ++ joinWith [c] (y :: ys)) cur c (hall x (by simp))
    have hj : joinWith [c] (x :: y :: ys) = x ++ ([c] ++ joinWith [c] (y :: ys)) := by simp [joinWith]
    rw [hj, h1]
    simp only [List.singleton_append, splitChar.go, beq_self_eq_true, ↓reduceIte]
    rw [ih y [] (fun z hz => hall z (by simp [List.mem_cons.mp hz] ))]
    simp

theorem splitChar_join (c : Char) (l : List Str) (hne : l ≠ []) (hall : ∀ x ∈ l, c ∉ x) :
    splitChar (joinWith [c] l) c = l := by
  cases l with
  | nil => exact absurd rfl hne
  | cons x xs =>
    unfold splitChar
    rw [splitGo_join c xs x [] hall]
    simp

/-! ### the byte order is a total order; sorting is canonical on permutations -/

theorem strLe_refl (a : Str) : strLe a a = true := by
  induction a with
  | nil => rfl
  | cons c cs ih => simp [strLe, ih]

theorem strLe_total (a b : Str) : strLe a b = true ∨ strLe b a = true := by
  induction a generalizing b with
  | nil => left; rfl
  | cons c cs ih =>
    cases b with
    | nil => right; rfl
    | cons d ds =>
      simp only [strLe, Bool.or_eq_true, decide_eq_true_eq, Bool.and_eq_true, beq_iff_eq]
      rcases Nat.lt_trichotomy c.toNat d.toNat with h | h | h
      · left; left; exact h
      · rcases ih ds with h' | h'
        · left; right; exact ⟨h, h'⟩
        · right; right; exact ⟨h.symm, h'⟩
      · right; left; exact h

theorem strLe_trans {a b c : Str} (h1 : strLe a b = true) (h2 : strLe b c = true) : strLe a c = true := by
  induction a generalizing b c with
  | nil => rfl
  | cons x xs ih =>
    cases b with
    | nil => simp [strLe] at h1
    | cons y ys =>
      cases c with
      | nil => simp [strLe] at h2
      | cons z zs =>
        simp only [strLe, Bool.or_eq_true, decide_eq_true_eq, Bool.and_eq_true, beq_iff_eq] at h1 h2 ⊢
        rcases h1 with h1 | ⟨e1, h1⟩ <;> rcases h2 with h2 | ⟨e2, h2⟩
        · left; omega
        · left; omega
        · left; omega
        · right; exact ⟨by omega, ih h1 h2⟩

theorem strLe_antisymm {a b : Str} (h1 : strLe a b = true) (h2 : strLe b a = true) : a = b := by
  induction a generalizing b with
  | nil => cases b with
    | nil => rfl
    | cons _ _ => simp [strLe] at h2
  | cons x xs ih =>
    cases b with
    | nil => simp [strLe] at h1
    | cons y ys =>
      simp only [strLe, Bool.or_eq_true, decide_eq_true_eq, Bool.and_eq_true, beq_iff_eq] at h1 h2
      rcases h1 with h1 | ⟨e1, h1⟩ <;> rcases h2 with h2 | ⟨e2, h2⟩
      · omega
      · omega
      · omega
      · have : x = y := Char.toNat_inj.mp e1
        rw [this, ih h1 h2]

theorem insertSorted_pairwise (x : Str) (l : List Str) (h : l.Pairwise (fun a b => strLe a b = true)) :
    (insertSorted strLe x l).Pairwise (fun a b => strLe a b = true) := by
  induction l with
  | nil => simp [insertSorted]
  | cons y ys ih =>
    simp only [insertSorted]
    rw [List.pairwise_cons] at h
    by_cases hxy : strLe x y = true
    · simp only [hxy, ↓reduceIte, List.pairwise_cons]
      refine ⟨?_, h.1, h.2⟩
      intro z hz
      rcases List.mem_cons.mp hz with e | hz'
      · rw [e]; exact hxy
      · exact strLe_trans hxy (h.1 z hz')
    · simp only [hxy, Bool.false_eq_true, ↓reduceIte, List.pairwise_cons]
      refine ⟨?_, ih h.2⟩
      intro z hz
      rcases List.mem_cons.mp ((insertSorted_perm strLe x ys).mem_iff.mp hz) with e | hz'
      · rw [e]
        rcases strLe_total x y with h' | h'
        · exact absurd h' hxy
        · exact h'
      · exact h.1 z hz'

theorem sortStrs_pairwise (l : List Str) : (sortStrs l).Pairwise (fun a b => strLe a b = true) := by
  induction l with
  | nil => simp [sortStrs, isort]
  | cons x xs ih => exact insertSorted_pairwise x _ ih

theorem sortStrs_perm_eq {l1 l2 : List Str} (h : l1.Perm l2) : sortStrs l1 = sortStrs l2 := by
  apply List.Perm.eq_of_pairwise (le := fun a b => strLe a b = true)
  · intro a b _ _ h1 h2; exact strLe_antisymm h1 h2
  · exact sortStrs_pairwise l1
  · exact sortStrs_pairwise l2
  · exact ((isort_perm _ l1).trans h).trans (isort_perm _ l2).symm

end NA.C05
